import OpdaModel.NoisyFloat
import OpdaProofs.RealInst
import OpdaProofs.NoisyLogic
import OpdaProofs.GaussMoments
import Mathlib.Probability.Distributions.Gaussian.Real
import Mathlib.MeasureTheory.Integral.IntervalIntegral.Basic
import Mathlib.Analysis.SpecialFunctions.Pow.Real
import Mathlib.Tactic

/-!
C06 over `ℝ`: the instance `realFns` of the record the polymorphic model is parameterised by
(`Φ` = distribution function of `gaussianReal 0 1`, `φ` = its density, `Real.rpow`, `Real.cos`,
`Real.sqrt`), and the analytic content of the private partial-moment stack:

* `Phi_sub`            : `Φ β − Φ α = ∫_α^β φ`
* `base_moment`        : `∫_a^b (1/σ) φ((x−μ)/σ) dx = Φ((b−μ)/σ) − Φ((a−μ)/σ)`
* `partialMomentInt_eq`: the model's upward recursion *is* `∫₀¹ x^k dN(μ,σ²)` (C06-T3)
* `pieceSum_eq`, `partialFractional_eq` : the piecewise recursion is `Σ_pieces ∫ p_i dN(μ,σ²)`
* `piece_error`, `chain_error` : `|∫ (f − p) dN| ≤ sup|f − p|` (C06-T4)
-/
namespace Opda.Noisy
open MeasureTheory ProbabilityTheory intervalIntegral Real
open scoped NNReal ENNReal

/-- the real instance; the table and the two "infinite" values are parameters (ℝ has no infinities) -/
noncomputable def realFns (T : List (ℕ × List (Entry ℝ))) (ninf pinf : ℝ) : Fns ℝ :=
  { n := fun k => (k : ℝ)
    pow := Real.rpow
    cos := Real.cos
    sqrt := Real.sqrt
    normalCdf := Phi
    normalPdf := phiStd
    normalPpf := PhiInv
    isInf := fun _ => false
    eq := fun a b => @decide (a = b) (Classical.dec _)
    pi := Real.pi
    negInf := ninf
    posInf := pinf
    table := T }

theorem realFns_lawful (T ninf pinf) : Lawful (realFns T ninf pinf) :=
  { n_cast := fun _ => rfl
    eq_iff := fun a b => by
      show @decide (a = b) (Classical.dec _) = true ↔ a = b
      simp }

theorem Phi_nonneg (x : ℝ) : 0 ≤ Phi x := ENNReal.toReal_nonneg

theorem Phi_le_one (x : ℝ) : Phi x ≤ 1 := by
  unfold Phi
  have h : (gaussianReal 0 1) (Set.Iic x) ≤ 1 := prob_le_one
  have := ENNReal.toReal_mono ENNReal.one_ne_top h
  simpa using this

theorem phiStd_nonneg (x : ℝ) : 0 ≤ phiStd x := gaussianPDFReal_nonneg 0 1 x

theorem realFns_rangeOK (T ninf pinf) (hp : 0 ≤ pinf) : RangeOK (realFns T ninf pinf) :=
  { cdf01 := fun x => ⟨Phi_nonneg x, Phi_le_one x⟩
    pdf0 := phiStd_nonneg
    sqrt0 := Real.sqrt_nonneg
    pow01 := fun _ k h0 h1 hk => ⟨Real.rpow_nonneg h0 k, Real.rpow_le_one h0 h1 hk⟩
    pow0 := fun _ k h0 => Real.rpow_nonneg h0 k
    posInf0 := hp }

theorem phiStd_eq (x : ℝ) : phiStd x = (√(2 * π))⁻¹ * Real.exp (-x ^ 2 / 2) := by
  unfold phiStd gaussianPDFReal
  simp

theorem continuous_phiStd : Continuous phiStd := by
  have : phiStd = fun x => (√(2 * π))⁻¹ * Real.exp (-x ^ 2 / 2) := funext phiStd_eq
  rw [this]; fun_prop

/-- `Φ β − Φ α = ∫_α^β φ` -/
theorem Phi_sub (α β : ℝ) : Phi β - Phi α = ∫ t in α..β, phiStd t := by
  have key : ∀ a b : ℝ, a ≤ b → Phi b - Phi a = ∫ t in a..b, phiStd t := by
    intro a b hab
    have h1 : (1 : ℝ≥0) ≠ 0 := one_ne_zero
    have hsplit : Set.Iic b = Set.Iic a ∪ Set.Ioc a b := (Set.Iic_union_Ioc_eq_Iic hab).symm
    have hdisj : Disjoint (Set.Iic a) (Set.Ioc a b) := Set.Iic_disjoint_Ioc (le_refl a)
    have hm : (gaussianReal 0 1) (Set.Iic b) = (gaussianReal 0 1) (Set.Iic a) + (gaussianReal 0 1) (Set.Ioc a b) := by
      rw [hsplit, measure_union hdisj measurableSet_Ioc]
    unfold Phi
    rw [hm, ENNReal.toReal_add (measure_ne_top _ _) (measure_ne_top _ _), add_sub_cancel_left,
      gaussianReal_apply_eq_integral 0 h1, integral_of_le hab]
    rw [ENNReal.toReal_ofReal]
    · rfl
    · exact setIntegral_nonneg measurableSet_Ioc (fun x _ => gaussianPDFReal_nonneg 0 1 x)
  rcases le_total α β with h | h
  · exact key α β h
  · rw [integral_symm, ← key β α h]; ring

/-- density of `N(μ, σ²)` written the way the code evaluates it -/
noncomputable def dens (μ σ x : ℝ) : ℝ := σ⁻¹ * phiStd ((x - μ) / σ)

theorem continuous_dens (μ σ : ℝ) : Continuous (dens μ σ) := by
  unfold dens
  have := continuous_phiStd
  fun_prop

theorem dens_nonneg (μ σ : ℝ) (hσ : 0 < σ) (x : ℝ) : 0 ≤ dens μ σ x :=
  mul_nonneg (inv_nonneg.mpr hσ.le) (phiStd_nonneg _)

/-- `dens` is the scaled Gaussian of `GaussMoments.lean` -/
theorem dens_eq_phi (μ σ : ℝ) (hσ : 0 < σ) (x : ℝ) :
    dens μ σ x = Opda.Gauss.phi (σ⁻¹ * (√(2 * π))⁻¹) μ σ x := by
  unfold dens Opda.Gauss.phi
  rw [phiStd_eq]
  have : -((x - μ) / σ) ^ 2 / 2 = -(x - μ) ^ 2 / (2 * σ ^ 2) := by
    field_simp
  rw [this]; ring

/-- zeroth partial moment: `∫_a^b dN(μ,σ²) = Φ((b−μ)/σ) − Φ((a−μ)/σ)` -/
theorem base_moment (μ σ a b : ℝ) (hσ : 0 < σ) :
    ∫ x in a..b, dens μ σ x = Phi ((b - μ) / σ) - Phi ((a - μ) / σ) := by
  rw [Phi_sub]
  have h := smul_integral_comp_mul_add (a := a) (b := b) phiStd σ⁻¹ (-μ / σ)
  have e1 : ∀ x : ℝ, σ⁻¹ * x + -μ / σ = (x - μ) / σ := by intro x; field_simp; ring
  simp only [e1] at h
  unfold dens
  rw [← h, intervalIntegral.integral_const_mul]
  rfl

/-! ### integer partial moments (C06-T3) -/

/-- partial moment of order `j` of `N(μ, σ²)` on `[a, b]` -/
noncomputable def gmom (μ σ a b : ℝ) (j : ℕ) : ℝ := ∫ x in a..b, x ^ j * dens μ σ x

theorem gmom_eq_M (μ σ a b : ℝ) (hσ : 0 < σ) (j : ℕ) :
    gmom μ σ a b j = Opda.Gauss.M (σ⁻¹ * (√(2 * π))⁻¹) μ σ a b j := by
  unfold gmom Opda.Gauss.M
  exact integral_congr (fun x _ => by simp only [dens_eq_phi μ σ hσ x])

theorem gmom_zero (μ σ a b : ℝ) (hσ : 0 < σ) :
    gmom μ σ a b 0 = Phi ((b - μ) / σ) - Phi ((a - μ) / σ) := by
  unfold gmom; simp only [pow_zero, one_mul]; exact base_moment μ σ a b hσ

/-- the recursion in the form the code uses it: `term0 = σ φ((a−μ)/σ)`, `term1 = −σ φ((b−μ)/σ)` -/
theorem gmom_succ (μ σ a b : ℝ) (hσ : 0 < σ) (j : ℕ) :
    gmom μ σ a b (j + 1) = μ * gmom μ σ a b j + (j : ℝ) * (σ * σ) * gmom μ σ a b (j - 1)
      + σ * phiStd ((a - μ) / σ) * a ^ j + -σ * phiStd ((b - μ) / σ) * b ^ j := by
  rw [gmom_eq_M μ σ a b hσ, gmom_eq_M μ σ a b hσ, gmom_eq_M μ σ a b hσ,
    Opda.Gauss.moment_recursion _ μ σ a b hσ.ne' j, ← dens_eq_phi μ σ hσ a, ← dens_eq_phi μ σ hσ b]
  unfold dens
  field_simp
  ring

variable (T : List (ℕ × List (Entry ℝ))) (ninf pinf : ℝ)

theorem stepUp_eq (μ σ : ℝ) (hσ : 0 < σ) (r j : ℕ) :
    stepUp (realFns T ninf pinf) μ (σ * σ) (-σ * phiStd ((1 - μ) / σ)) r j (gmom μ σ 0 1 j) (gmom μ σ 0 1 (j + 1))
      = gmom μ σ 0 1 (j + 1 + r) := by
  induction r generalizing j with
  | zero => rfl
  | succ r ih =>
    unfold stepUp
    have h := gmom_succ μ σ 0 1 hσ (j + 1)
    simp only [Nat.add_sub_cancel, one_pow, mul_one, ne_eq, Nat.add_eq_zero_iff, one_ne_zero, and_false,
      not_false_eq_true, zero_pow, mul_zero, add_zero] at h
    have e : (realFns T ninf pinf).n (1 + j) = ((j + 1 : ℕ) : ℝ) := by
      show ((1 + j : ℕ) : ℝ) = _; rw [Nat.add_comm]
    rw [e, ← h, ih (j + 1)]
    congr 1; omega

/-- **C06-T3**: for integer order the model's upward recursion is the exact partial moment
`∫₀¹ x^k dN(loc, scale²)` -/
theorem partialMomentInt_eq (μ σ : ℝ) (hσ : 0 < σ) (k : ℕ) :
    partialMomentInt (realFns T ninf pinf) μ σ k = gmom μ σ 0 1 k := by
  have h0 : Phi ((1 - μ) / σ) - Phi (-μ / σ) = gmom μ σ 0 1 0 := by
    rw [gmom_zero μ σ 0 1 hσ]; simp
  have h1 : μ * gmom μ σ 0 1 0 + σ * (phiStd (-μ / σ) - phiStd ((1 - μ) / σ)) = gmom μ σ 0 1 1 := by
    have := gmom_succ μ σ 0 1 hσ 0
    simp only [zero_add, pow_zero, mul_one, Nat.cast_zero, zero_mul, add_zero, zero_sub] at this
    rw [this]; ring
  unfold partialMomentInt
  show (match k with
    | 0 => Phi ((((1:ℕ):ℝ) - μ) / σ) - Phi (-μ / σ)
    | k' + 1 => stepUp (realFns T ninf pinf) μ (σ * σ) (-σ * phiStd ((((1:ℕ):ℝ) - μ) / σ)) k' 0
        (Phi ((((1:ℕ):ℝ) - μ) / σ) - Phi (-μ / σ))
        (μ * (Phi ((((1:ℕ):ℝ) - μ) / σ) - Phi (-μ / σ)) + σ * (phiStd (-μ / σ) - phiStd ((((1:ℕ):ℝ) - μ) / σ)))) = _
  simp only [Nat.cast_one]
  cases k with
  | zero => exact h0
  | succ k' =>
    simp only
    rw [h0, h1, stepUp_eq T ninf pinf μ σ hσ k' 0]
    congr 1; omega

/-! ### the piecewise recursion of `_partial_fractional_normal_moment` -/

/-- `Σ_j cs[j] · M (i + j)` -/
def polyMom (M : ℕ → ℝ) : List ℝ → ℕ → ℝ
  | [], _ => 0
  | c :: rest, i => c * M i + polyMom M rest (i + 1)

/-- `Σ_j cs[j] · x^(i + j)` -/
def polyEval : List ℝ → ℕ → ℝ → ℝ
  | [], _, _ => 0
  | c :: rest, i, x => c * x ^ i + polyEval rest (i + 1) x

theorem continuous_polyEval (cs : List ℝ) (i : ℕ) : Continuous (polyEval cs i) := by
  induction cs generalizing i with
  | nil => exact continuous_const
  | cons c rest ih =>
    have := ih (i + 1)
    show Continuous fun x => c * x ^ i + polyEval rest (i + 1) x
    fun_prop

theorem polyMom_eq_integral (μ σ a b : ℝ) (cs : List ℝ) (i : ℕ) :
    polyMom (gmom μ σ a b) cs i = ∫ x in a..b, polyEval cs i x * dens μ σ x := by
  induction cs generalizing i with
  | nil => simp [polyMom, polyEval]
  | cons c rest ih =>
    have hd := continuous_dens μ σ
    have hp := continuous_polyEval rest (i + 1)
    have e : ∀ x, polyEval (c :: rest) i x * dens μ σ x
        = c * (x ^ i * dens μ σ x) + polyEval rest (i + 1) x * dens μ σ x := by
      intro x; simp only [polyEval]; ring
    simp only [polyMom, e]
    rw [intervalIntegral.integral_add, intervalIntegral.integral_const_mul, ih (i + 1)]
    · rfl
    · exact (by fun_prop : Continuous fun x => c * (x ^ i * dens μ σ x)).intervalIntegrable a b
    · exact (by fun_prop : Continuous fun x => polyEval rest (i + 1) x * dens μ σ x).intervalIntegrable a b

theorem pieceLoop_eq (μ σ a b : ℝ) (hσ : 0 < σ) (cs : List ℝ) (i : ℕ) (mPrev fm : ℝ)
    (hprev : i = 0 ∨ mPrev = gmom μ σ a b (i - 1)) :
    pieceLoop (realFns T ninf pinf) μ (σ * σ) a b cs i mPrev (gmom μ σ a b i)
        (σ * phiStd ((a - μ) / σ) * a ^ i) (-σ * phiStd ((b - μ) / σ) * b ^ i) fm
      = fm + polyMom (gmom μ σ a b) cs (i + 1) := by
  induction cs generalizing i mPrev fm with
  | nil => simp [pieceLoop, polyMom]
  | cons c rest ih =>
    unfold pieceLoop
    have hn : (realFns T ninf pinf).n i = (i : ℝ) := rfl
    have hnext : μ * gmom μ σ a b i + (i : ℝ) * (σ * σ) * mPrev + σ * phiStd ((a - μ) / σ) * a ^ i
        + -σ * phiStd ((b - μ) / σ) * b ^ i = gmom μ σ a b (i + 1) := by
      rw [gmom_succ μ σ a b hσ i]
      rcases hprev with h | h
      · subst h; simp
      · rw [h]
    simp only [hn, hnext]
    have := ih (i + 1) (gmom μ σ a b i) (fm + c * gmom μ σ a b (i + 1)) (Or.inr (by simp))
    rw [pow_succ, pow_succ, ← mul_assoc, ← mul_assoc] at this
    rw [this]
    simp only [polyMom]; ring

/-- one piece `[a, b]` with coefficients `cs` adds `∫_a^b (Σ cs_j x^j) dN(μ, σ²)` to the running sum -/
theorem pieceSum_eq (μ σ : ℝ) (hσ : 0 < σ) (fm a b : ℝ) (cs : List ℝ) :
    pieceSum (realFns T ninf pinf) μ σ fm ((a, b), cs)
      = fm + ∫ x in a..b, polyEval cs 0 x * dens μ σ x := by
  rw [← polyMom_eq_integral]
  unfold pieceSum
  cases cs with
  | nil => simp [polyMom]
  | cons c0 rest =>
    have h0 : Phi ((b - μ) / σ) - Phi ((a - μ) / σ) = gmom μ σ a b 0 := (gmom_zero μ σ a b hσ).symm
    show pieceLoop (realFns T ninf pinf) μ (σ * σ) a b rest 0 ((0:ℕ):ℝ) (Phi ((b - μ) / σ) - Phi ((a - μ) / σ))
      (σ * phiStd ((a - μ) / σ)) (-σ * phiStd ((b - μ) / σ)) (fm + c0 * (Phi ((b - μ) / σ) - Phi ((a - μ) / σ))) = _
    rw [h0]
    have := pieceLoop_eq T ninf pinf μ σ a b hσ rest 0 ((0:ℕ):ℝ) (fm + c0 * gmom μ σ a b 0) (Or.inl rfl)
    simp only [pow_zero, mul_one] at this
    rw [this]
    simp only [polyMom]; ring

/-- `Σ_pieces ∫_{a_i}^{b_i} p_i dN(μ, σ²)` -/
noncomputable def piecesSum (μ σ : ℝ) : List ((ℝ × ℝ) × List ℝ) → ℝ
  | [] => 0
  | pc :: rest => (∫ x in pc.1.1..pc.1.2, polyEval pc.2 0 x * dens μ σ x) + piecesSum μ σ rest

theorem foldl_pieceSum (μ σ : ℝ) (hσ : 0 < σ) (ps : List ((ℝ × ℝ) × List ℝ)) (acc : ℝ) :
    ps.foldl (pieceSum (realFns T ninf pinf) μ σ) acc = acc + piecesSum μ σ ps := by
  induction ps generalizing acc with
  | nil => simp [piecesSum]
  | cons pc rest ih =>
    obtain ⟨⟨a, b⟩, cs⟩ := pc
    rw [List.foldl_cons, pieceSum_eq T ninf pinf μ σ hσ, ih]
    simp only [piecesSum]; ring

/-- **C06-T3 for half-integer orders**: whatever knots and coefficients are selected (shipped table or
Chebyshev fallback), the model over `ℝ` returns exactly `Σ_pieces ∫ p_i dN(loc, scale²)` -/
theorem partialFractional_eq (μ σ : ℝ) (hσ : 0 < σ) (m2 : ℤ) :
    partialFractional (realFns T ninf pinf) μ σ m2
      = piecesSum μ σ (((approxCoeffs (realFns T ninf pinf) μ σ m2).1.zip
          (approxCoeffs (realFns T ninf pinf) μ σ m2).1.tail).zip (approxCoeffs (realFns T ninf pinf) μ σ m2).2) := by
  unfold partialFractional
  rw [foldl_pieceSum T ninf pinf μ σ hσ]
  show ((0:ℕ):ℝ) + _ = _
  simp

/-! ### C06-T4: the error of replacing `x^k` by a piecewise polynomial -/

/-- on one piece: `|∫_a^b (f − p) dN| ≤ ε ∫_a^b dN` -/
theorem piece_error (μ σ a b ε : ℝ) (hσ : 0 < σ) (hab : a ≤ b) (f : ℝ → ℝ) (hf : Continuous f) (cs : List ℝ)
    (hε : ∀ x ∈ Set.Icc a b, |f x - polyEval cs 0 x| ≤ ε) :
    |(∫ x in a..b, f x * dens μ σ x) - ∫ x in a..b, polyEval cs 0 x * dens μ σ x|
      ≤ ε * ∫ x in a..b, dens μ σ x := by
  have hd := continuous_dens μ σ
  have hp := continuous_polyEval cs 0
  have i1 : IntervalIntegrable (fun x => f x * dens μ σ x) volume a b :=
    (by fun_prop : Continuous fun x => f x * dens μ σ x).intervalIntegrable a b
  have i2 : IntervalIntegrable (fun x => polyEval cs 0 x * dens μ σ x) volume a b :=
    (by fun_prop : Continuous fun x => polyEval cs 0 x * dens μ σ x).intervalIntegrable a b
  rw [← intervalIntegral.integral_sub i1 i2, ← intervalIntegral.integral_const_mul]
  refine (abs_integral_le_integral_abs hab).trans ?_
  apply intervalIntegral.integral_mono_on hab
  · exact (by fun_prop : Continuous fun x => |f x * dens μ σ x - polyEval cs 0 x * dens μ σ x|).intervalIntegrable a b
  · exact (by fun_prop : Continuous fun x => ε * dens μ σ x).intervalIntegrable a b
  · intro x hx
    have hdn := dens_nonneg μ σ hσ x
    rw [← sub_mul, abs_mul, abs_of_nonneg hdn]
    exact mul_le_mul_of_nonneg_right (hε x hx) hdn

/-- consecutive pieces `x₀ = a₁ ≤ b₁ = a₂ ≤ … ≤ bₙ = x₁` -/
inductive ChainFrom : ℝ → List ((ℝ × ℝ) × List ℝ) → ℝ → Prop
  | nil (x : ℝ) : ChainFrom x [] x
  | cons (a b x1 : ℝ) (cs : List ℝ) (rest : List ((ℝ × ℝ) × List ℝ)) (hab : a ≤ b)
      (h : ChainFrom b rest x1) : ChainFrom a (((a, b), cs) :: rest) x1

/-- **C06-T4**: if the pieces tile `[x₀, x₁]` and on each piece the polynomial is within `ε` of `f`
(for the model: `f = x^k`, `ε = sup |x^k − p|`), then the piecewise recursion's result is within
`ε · ∫_{x₀}^{x₁} dN ≤ ε` of the true partial moment `∫_{x₀}^{x₁} f dN`. -/
theorem chain_error (μ σ ε : ℝ) (hσ : 0 < σ) (f : ℝ → ℝ) (hf : Continuous f) (x0 x1 : ℝ)
    (ps : List ((ℝ × ℝ) × List ℝ)) (hc : ChainFrom x0 ps x1)
    (hε : ∀ pc ∈ ps, ∀ x ∈ Set.Icc pc.1.1 pc.1.2, |f x - polyEval pc.2 0 x| ≤ ε) :
    |(∫ x in x0..x1, f x * dens μ σ x) - piecesSum μ σ ps| ≤ ε * ∫ x in x0..x1, dens μ σ x := by
  have hd := continuous_dens μ σ
  induction hc with
  | nil x => simp [piecesSum]
  | cons a b x1 cs rest hab h ih =>
    have i1 : ∀ u v, IntervalIntegrable (fun x => f x * dens μ σ x) volume u v := fun u v =>
      (by fun_prop : Continuous fun x => f x * dens μ σ x).intervalIntegrable u v
    have i2 : ∀ u v, IntervalIntegrable (dens μ σ) volume u v := fun u v => hd.intervalIntegrable u v
    rw [← intervalIntegral.integral_add_adjacent_intervals (i1 a b) (i1 b x1),
      ← intervalIntegral.integral_add_adjacent_intervals (i2 a b) (i2 b x1)]
    simp only [piecesSum]
    have e1 := piece_error μ σ a b ε hσ hab f hf cs (hε ((a, b), cs) (List.mem_cons_self))
    have e2 := ih (fun pc hpc => hε pc (List.mem_cons_of_mem _ hpc))
    have : (∫ x in a..b, f x * dens μ σ x) + (∫ x in b..x1, f x * dens μ σ x)
        - ((∫ x in a..b, polyEval cs 0 x * dens μ σ x) + piecesSum μ σ rest)
        = ((∫ x in a..b, f x * dens μ σ x) - ∫ x in a..b, polyEval cs 0 x * dens μ σ x)
          + ((∫ x in b..x1, f x * dens μ σ x) - piecesSum μ σ rest) := by ring
    rw [this, mul_add]
    exact (abs_add_le _ _).trans (add_le_add e1 e2)

/-- the mass of `N(μ, σ²)` on any interval is at most one, so the bound above is at most `ε` -/
theorem mass_le_one (μ σ a b : ℝ) (hσ : 0 < σ) : ∫ x in a..b, dens μ σ x ≤ 1 := by
  rw [base_moment μ σ a b hσ]
  have := Phi_le_one ((b - μ) / σ)
  have := Phi_nonneg ((a - μ) / σ)
  linarith


/-! ### the public methods over `ℝ` -/

theorem partialMoment_even (μ σ : ℝ) (hσ : 0 < σ) (k : ℕ) :
    partialMoment (realFns T ninf pinf) μ σ ((2 * k : ℕ) : ℤ) = gmom μ σ 0 1 k := by
  unfold partialMoment
  have h1 : (realFns T ninf pinf).isInf μ = false := rfl
  have h2 : ((2 * k : ℕ) : ℤ) % 2 = 0 := by omega
  have h3 : (((2 * k : ℕ) : ℤ) / 2).toNat = k := by omega
  rw [h1, if_neg (by simp), if_pos h2, h3]
  exact partialMomentInt_eq T ninf pinf μ σ hσ k

theorem partialMoment_odd (μ σ : ℝ) (hσ : 0 < σ) (k : ℕ) :
    partialMoment (realFns T ninf pinf) μ σ ((2 * k + 1 : ℕ) : ℤ)
      = piecesSum μ σ (((approxCoeffs (realFns T ninf pinf) μ σ ((2 * k + 1 : ℕ) : ℤ)).1.zip
          (approxCoeffs (realFns T ninf pinf) μ σ ((2 * k + 1 : ℕ) : ℤ)).1.tail).zip
          (approxCoeffs (realFns T ninf pinf) μ σ ((2 * k + 1 : ℕ) : ℤ)).2) := by
  unfold partialMoment partialMomentHalf
  have h1 : (realFns T ninf pinf).isInf μ = false := rfl
  have h2 : ¬ (((2 * k + 1 : ℕ) : ℤ) % 2 = 0) := by omega
  have h3 : ¬ (((2 * k + 1 : ℕ) : ℤ) = -1 ∧ ¬ σ < (realFns T ninf pinf).lit 5 100) := by
    intro h; have := h.1; omega
  rw [h1, if_neg (by simp), if_neg h2, if_neg h3]
  exact partialFractional_eq T ninf pinf μ σ hσ _

/-- **Model = Spec for even `c`** (series regime, `ℝ`): `cdf` is the clip of
`Φ(point) ± ∫₀¹ x^{c/2} dN(loc, scale²)(x)`, the formula the property's convolution reduces to. -/
theorem cdf_even (d : Params ℝ) (k : ℕ) (hc : d.c = 2 * k) (hab : d.a ≤ d.b)
    (hp : pointMass (realFns T ninf pinf) d = false) (h : regime (realFns T ninf pinf) d = .nothing) (y : ℝ) :
    cdf (realFns T ninf pinf) d y =
      clip (if d.convex then Phi ((y - d.b) / d.o) + gmom (locOf d y) (d.o / (d.b - d.a)) 0 1 k
            else Phi ((y - d.a) / d.o) - gmom (locOf d y) (d.o / (d.b - d.a)) 0 1 k) 0 1 := by
  obtain ⟨ho, hw⟩ := nothing_pos (realFns_lawful T ninf pinf) d hab h
  rw [cdf_nothing d y hp h]
  unfold cdfRaw
  rw [hc, partialMoment_even T ninf pinf _ _ (div_pos ho hw) k]
  show clip _ ((0:ℕ):ℝ) ((1:ℕ):ℝ) = _
  simp only [Nat.cast_zero, Nat.cast_one]
  split_ifs <;> rfl

theorem pdf_even (d : Params ℝ) (k : ℕ) (hc : d.c = 2 * k + 2) (hab : d.a ≤ d.b)
    (hp : pointMass (realFns T ninf pinf) d = false) (h : regime (realFns T ninf pinf) d = .nothing) (y : ℝ) :
    pdf (realFns T ninf pinf) d y =
      max 0 ((d.c : ℝ) / (2 * (d.b - d.a)) * gmom (locOf d y) (d.o / (d.b - d.a)) 0 1 k) := by
  obtain ⟨ho, hw⟩ := nothing_pos (realFns_lawful T ninf pinf) d hab h
  rw [pdf_nothing d y hp h]
  unfold pdfRaw
  have e : ((d.c : ℕ) : ℤ) - 2 = ((2 * k : ℕ) : ℤ) := by rw [hc]; push_cast; ring
  rw [e, partialMoment_even T ninf pinf _ _ (div_pos ho hw) k]
  show (if _ < ((0:ℕ):ℝ) then ((0:ℕ):ℝ) else _) = _
  simp only [Nat.cast_zero]
  have e2 : (realFns T ninf pinf).n d.c / ((realFns T ninf pinf).n 2 * (d.b - d.a)) = (d.c : ℝ) / (2 * (d.b - d.a)) := by
    show ((d.c : ℕ) : ℝ) / (((2:ℕ):ℝ) * (d.b - d.a)) = _
    norm_num
  rw [e2]
  split_ifs with h1
  · rw [max_eq_left h1.le]
  · rw [max_eq_right (not_lt.mp h1)]

/-- `a = b`, `o > 0` over `ℝ`: exactly the `Normal(a, o²)` formulas -/
theorem cdf_degenerate_real (d : Params ℝ) (hab : d.a = d.b) (ho : 0 < d.o) (y : ℝ) :
    cdf (realFns T ninf pinf) d y = Phi ((y - d.a) / d.o)
      ∧ pdf (realFns T ninf pinf) d y = phiStd ((y - d.a) / d.o) / d.o := by
  have hs : Real.sqrt (d.o * d.o) = d.o := Real.sqrt_mul_self ho.le
  constructor
  · rw [cdf_degenerate_normal (realFns_lawful T ninf pinf) d hab ho]
    show Phi ((y - d.a) / Real.sqrt (d.o * d.o)) = _
    rw [hs]
  · rw [pdf_degenerate_normal (realFns_lawful T ninf pinf) d hab ho]
    show phiStd ((y - d.a) / Real.sqrt (d.o * d.o)) / Real.sqrt (d.o * d.o) = _
    rw [hs]


/-- C06-T4 in one line: tiles of `[x₀, x₁]`, each within `ε` of `f` ⇒ the recursion's value is within `ε`
of `∫_{x₀}^{x₁} f dN(μ, σ²)` -/
theorem chain_error_le (μ σ ε : ℝ) (hσ : 0 < σ) (hε0 : 0 ≤ ε) (f : ℝ → ℝ) (hf : Continuous f) (x0 x1 : ℝ)
    (ps : List ((ℝ × ℝ) × List ℝ)) (hc : ChainFrom x0 ps x1)
    (hε : ∀ pc ∈ ps, ∀ x ∈ Set.Icc pc.1.1 pc.1.2, |f x - polyEval pc.2 0 x| ≤ ε) :
    |(∫ x in x0..x1, f x * dens μ σ x) - piecesSum μ σ ps| ≤ ε :=
  (chain_error μ σ ε hσ f hf x0 x1 ps hc hε).trans
    (by simpa using mul_le_mul_of_nonneg_left (mass_le_one μ σ x0 x1 hσ) hε0)

/-- C07-T3 over `ℝ`: in the noiseless regime (which contains `o = 0 < b − a`) `ppf 0 = a`, `ppf 1 = b` -/
theorem ppf_endpoints_noiseless_real (d : Params ℝ) (hc : 0 < d.c)
    (hp : pointMass (realFns T ninf pinf) d = false) (h : regime (realFns T ninf pinf) d = .noiseless) :
    ppf (realFns T ninf pinf) d 0 = d.a ∧ ppf (realFns T ninf pinf) d 1 = d.b := by
  have hne : ((2:ℕ):ℝ) / ((d.c:ℕ):ℝ) ≠ 0 := by
    have : (0:ℝ) < d.c := by exact_mod_cast hc
    positivity
  exact ppf_endpoints_noiseless (realFns_lawful T ninf pinf) d hp h
    (Real.zero_rpow hne) (Real.one_rpow _)

end Opda.Noisy
