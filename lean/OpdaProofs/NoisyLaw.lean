import OpdaProofs.NoisyConv
import OpdaProofs.NoisyTable
import OpdaProofs.NoisySmooth
import OpdaProofs.NoisyHolder
import OpdaProofs.Sample
import Mathlib.MeasureTheory.Group.Convolution
import Mathlib.MeasureTheory.Measure.Prod
import Mathlib.MeasureTheory.Integral.Bochner.Basic
import Mathlib.MeasureTheory.Integral.IntervalIntegral.IntegrationByParts
import Mathlib.Probability.Independence.Basic
import Mathlib.Probability.Distributions.Gaussian.Real
import Mathlib.Tactic

/-!
C06/C13: from "the law of `Z + E`" to the mixture form — independence + Fubini, as theorems.

The Spec of C06 is `P[Z + E ≤ y]`, `Z ~ Quadratic(a, b, c, shape)`, `E ~ N(0, o²)` independent.  `NoisyConv.lean` works
with its *mixture form* `H(t) = ∫₀¹ Φ((t − x)/s) d(x^{c/2})` (`Opda.Noisy.mixture`).  This file proves that the two are
the same number:

1. `conv_Iic`: `(μ ∗ ν)(−∞, y] = ∫⁻ ν(−∞, y − z] dμ(z)` for s-finite `μ`, `ν` on `ℝ` (Tonelli for the product measure
   under `+`), and `indep_add_Iic`: for independent random variables `X`, `Y` on any probability space
   `P[X + Y ≤ y] = ∫⁻ P[Y ≤ y − z] d(law X)(z)`;
2. `gaussian_Iic`: `N(0, o²)(−∞, x] = Φ(x/o)` with the development's `Φ` (`Opda.Phi`), so
   `conv_gaussian_Iic`: `(μ ∗ N(0, o²))(−∞, y] = ∫ Φ((y − z)/o) dμ(z)` for every finite `μ`;
3. `quadLaw d`: the law of the quadratic part `a + (b−a)U^{2/c}` / `b − (b−a)(1−U)^{2/c}` of a draw (`U` uniform on
   `[0,1)`, the function is `Opda.Sample.noisyQuadPart`, the one the `sample` method applies); its distribution function is
   the class's `cdf` (`quadLaw_Iic`, from C13's `quad_sample_law`); `integral_quadLaw` writes `∫ g d(quadLaw)` as
   `∫₀¹ g(quadPart u) du`; `subst_rpow` is the substitution `x = u^{1/p}` (`p = c/2 > 0`, singular derivative at `0` for
   `c = 1` allowed): `∫₀¹ G(u^{1/p}) du = ∫₀¹ G(x) · p x^{p−1} dx`;
4. `law_convex` / `law_concave` / `spec_is_law`: `((quadLaw d ∗ N(0, o²)) (−∞, y]).toReal` is `H((y−a)/(b−a))` resp.
   `1 − H((b−y)/(b−a))`, `s = o/(b−a)`: exactly the expressions the C06 theorems call the Spec;
5. `sum_law_is_spec`: for *any* independent `Z`, `E` on any probability space with those laws, `P[Z + E ≤ y]` is that
   number; `noisy_sample_cdf`: so is the distribution function of `noisySample d o U N` (`U` uniform on `[0,1)`, `N`
   standard normal, independent) — the draw `NoisyQuadraticDistribution.sample` computes.
   `smoothed_noiseless_is_law`: conditioning on `E` instead (`conv_Iic_right`), the quantity the noiseless-regime bounds
   compare with, `∫ cdf_noise-free(y − e) dN(0, o²)(e)`, is `P[Z + E ≤ y]` too.
6. density: `conv_gaussian_withDensity` (`μ ∗ N(0, o²)` has density `t ↦ ∫ dN(z, o²)(t) dμ(z)` with respect to
   Lebesgue measure) and `density_is_mixtureDensity`: for `μ = quadLaw d` that density is
   `mixtureDensity (c/2) s (loc y) / (b − a)`, the Spec of the C06 density theorems.
-/
namespace Opda.NoisyLaw
open MeasureTheory ProbabilityTheory Set Real Opda Opda.Sample Opda.Noisy
open scoped ENNReal NNReal

/-! ## 1. the distribution function of a convolution -/

/-- `(μ ∗ ν)(−∞, y] = ∫⁻ ν(−∞, y − z] dμ(z)` -/
theorem conv_Iic (μ ν : Measure ℝ) [SFinite μ] [SFinite ν] (y : ℝ) :
    (μ ∗ ν) (Iic y) = ∫⁻ z, ν (Iic (y - z)) ∂μ := by
  have hm : MeasurableSet (Iic y) := measurableSet_Iic
  rw [← lintegral_indicator_one hm, Measure.lintegral_conv (by exact (measurable_one.indicator hm))]
  refine lintegral_congr fun z => ?_
  have : (fun e : ℝ => (Iic y).indicator (1 : ℝ → ℝ≥0∞) (z + e)) = (Iic (y - z)).indicator 1 := by
    funext e
    simp only [indicator, mem_Iic, Pi.one_apply]
    congr 1
    exact propext ⟨fun h => by linarith, fun h => by linarith⟩
  rw [this, lintegral_indicator_one measurableSet_Iic]

/-- conditioning on the second summand instead -/
theorem conv_Iic_right (μ ν : Measure ℝ) [SFinite μ] [SFinite ν] (y : ℝ) :
    (μ ∗ ν) (Iic y) = ∫⁻ e, μ (Iic (y - e)) ∂ν := by
  rw [Measure.conv_comm, conv_Iic]

/-- the same for random variables: `X`, `Y` independent on a probability space ⇒
`P[X + Y ≤ y] = ∫⁻ (law Y)(−∞, y − z] d(law X)(z)` -/
theorem indep_add_Iic {Ω : Type} [MeasurableSpace Ω] (P : Measure Ω) [IsFiniteMeasure P] (X Y : Ω → ℝ)
    (hX : Measurable X) (hY : Measurable Y) (hind : IndepFun X Y P) (y : ℝ) :
    P {ω | X ω + Y ω ≤ y} = ∫⁻ z, (P.map Y) (Iic (y - z)) ∂(P.map X) := by
  have h := hind.map_add_eq_map_conv_map hX hY
  have hs : {ω | X ω + Y ω ≤ y} = (X + Y) ⁻¹' Iic y := rfl
  rw [hs, ← Measure.map_apply (hX.add hY) measurableSet_Iic, h, conv_Iic]

/-! ## 2. Gaussian noise -/

theorem gaussian_scale (o : ℝ) :
    gaussianReal 0 (NNReal.mk (o ^ 2) (sq_nonneg o)) = (gaussianReal 0 1).map (fun z => o * z) := by
  rw [gaussianReal_map_const_mul]; simp

/-- `N(0, o²)(−∞, x] = Φ(x/o)` -/
theorem gaussian_Iic (o : ℝ) (ho : 0 < o) (x : ℝ) :
    gaussianReal 0 (NNReal.mk (o ^ 2) (sq_nonneg o)) (Iic x) = ENNReal.ofReal (Phi (x / o)) := by
  have hm : Measurable (fun z : ℝ => o * z) := measurable_const.mul measurable_id
  rw [gaussian_scale, Measure.map_apply hm measurableSet_Iic]
  have : (fun z => o * z) ⁻¹' Iic x = Iic (x / o) := by
    ext z; simp only [mem_preimage, mem_Iic]; rw [le_div_iff₀ ho, mul_comm]
  rw [this, Phi, ENNReal.ofReal_toReal (measure_ne_top _ _)]

theorem continuous_Phi_shift (y o : ℝ) : Continuous fun z : ℝ => Phi ((y - z) / o) := by
  have := continuous_Phi; fun_prop

/-- `(μ ∗ N(0, o²))(−∞, y] = ∫ Φ((y − z)/o) dμ(z)`: the mixture form for an arbitrary law `μ` of `Z` -/
theorem conv_gaussian_Iic (μ : Measure ℝ) [IsFiniteMeasure μ] (o : ℝ) (ho : 0 < o) (y : ℝ) :
    ((μ ∗ gaussianReal 0 (NNReal.mk (o ^ 2) (sq_nonneg o))) (Iic y)).toReal = ∫ z, Phi ((y - z) / o) ∂μ := by
  rw [conv_Iic]
  simp only [gaussian_Iic o ho]
  rw [integral_eq_lintegral_of_nonneg_ae (Filter.Eventually.of_forall fun z => Phi_nonneg _)
    (continuous_Phi_shift y o).aestronglyMeasurable]

/-! ## 3. the law of the quadratic part -/

/-- the uniform law on `[0, 1)`: what `Generator.uniform(0, 1)` documents -/
noncomputable def uniform01 : Measure ℝ := volume.restrict (Ico 0 1)

instance : IsProbabilityMeasure uniform01 := ⟨by simp [uniform01]⟩

/-- the law of `Z`: push-forward of the uniform law under the quadratic part of a draw -/
noncomputable def quadLaw (d : Opda.Quad.Params ℝ) : Measure ℝ := uniform01.map (noisyQuadPart d)

instance (d : Opda.Quad.Params ℝ) : IsProbabilityMeasure (quadLaw d) :=
  Measure.isProbabilityMeasure_map (measurable_noisyQuadPart d).aemeasurable

/-- `Z ~ Quadratic(a, b, c, shape)`: the distribution function of `quadLaw d` is the class's `cdf` -/
theorem quadLaw_Iic (d : Opda.Quad.Params ℝ) (hab : d.a < d.b) (hc : 0 < d.c) (y : ℝ) :
    quadLaw d (Iic y) = ENNReal.ofReal (Opda.Quad.cdf d y) := by
  rw [quadLaw, Measure.map_apply (measurable_noisyQuadPart d) measurableSet_Iic, uniform01,
    Measure.restrict_apply ((measurable_noisyQuadPart d) measurableSet_Iic), ← quad_sample_law d hab hc y]
  congr 1
  ext u
  simp only [mem_inter_iff, mem_preimage, mem_Iic, mem_ofPred_eq]
  constructor
  · rintro ⟨h, hu⟩; exact ⟨hu, by rw [← noisyQuadPart_eq d u hu.1 hu.2.le]; exact h⟩
  · rintro ⟨hu, h⟩; exact ⟨by rw [noisyQuadPart_eq d u hu.1 hu.2.le]; exact h, hu⟩

theorem integral_quadLaw (d : Opda.Quad.Params ℝ) (g : ℝ → ℝ) (hg : Continuous g) :
    ∫ z, g z ∂(quadLaw d) = ∫ u in (0:ℝ)..1, g (noisyQuadPart d u) := by
  rw [quadLaw, integral_map (measurable_noisyQuadPart d).aemeasurable hg.aestronglyMeasurable, uniform01,
    intervalIntegral.integral_of_le zero_le_one, integral_Ico_eq_integral_Ioc]

theorem noisyQuadPart_convex (a b : ℝ) (c : ℕ) (u : ℝ) :
    noisyQuadPart ⟨a, b, c, true⟩ u = a + (b - a) * u ^ ((2:ℝ) / c) := by
  simp [noisyQuadPart]

theorem noisyQuadPart_concave (a b : ℝ) (c : ℕ) (u : ℝ) :
    noisyQuadPart ⟨a, b, c, false⟩ u = b - (b - a) * (1 - u) ^ ((2:ℝ) / c) := by
  simp [noisyQuadPart]

/-- the substitution `x = u^{1/p}` on `[0, 1]`, every `p > 0` (for `p < 1` the derivative `p x^{p−1}` is singular at
`0`): `∫₀¹ G(u^{1/p}) du = ∫₀¹ G(x) d(x^p)` -/
theorem subst_rpow (G : ℝ → ℝ) (hG : Continuous G) (p : ℝ) (hp : 0 < p) :
    ∫ u in (0:ℝ)..1, G (u ^ (1 / p)) = ∫ x in (0:ℝ)..1, G x * (p * x ^ (p - 1)) := by
  have hg : Continuous fun u : ℝ => G (u ^ (1 / p)) :=
    hG.comp (Real.continuous_rpow_const (by positivity))
  have hv' : IntervalIntegrable (fun x : ℝ => p * x ^ (p - 1)) volume 0 1 :=
    (intervalIntegral.intervalIntegrable_rpow' (by linarith)).const_mul p
  have hcomp : Continuous fun x : ℝ => G ((x ^ p) ^ (1 / p)) :=
    hg.comp (Real.continuous_rpow_const hp.le)
  have hint : IntervalIntegrable (fun x : ℝ => G ((x ^ p) ^ (1 / p)) * (p * x ^ (p - 1))) volume 0 1 :=
    hv'.continuousOn_mul hcomp.continuousOn
  have key := intervalIntegral.integral_comp_mul_deriv''' (a := 0) (b := 1) (f := fun x : ℝ => x ^ p)
    (f' := fun x : ℝ => p * x ^ (p - 1)) (g := fun u : ℝ => G (u ^ (1 / p)))
    (Real.continuous_rpow_const hp.le).continuousOn
    (fun x hx => by
      have hx0 : 0 < x := by have := hx.1; simpa using this
      exact (Real.hasDerivAt_rpow_const (Or.inl hx0.ne')).hasDerivWithinAt)
    hg.continuousOn
    (hg.continuousOn.integrableOn_compact
      (isCompact_uIcc.image_of_continuousOn (Real.continuous_rpow_const hp.le).continuousOn))
    (by
      rw [uIcc_of_le zero_le_one, integrableOn_Icc_iff_integrableOn_Ioc]
      exact (intervalIntegrable_iff_integrableOn_Ioc_of_le zero_le_one).mp hint)
  simp only [Function.comp, Real.zero_rpow hp.ne', Real.one_rpow] at key
  rw [← key]
  refine intervalIntegral.integral_congr fun x hx => ?_
  rw [uIcc_of_le zero_le_one] at hx
  rw [← Real.rpow_mul hx.1, mul_one_div_cancel hp.ne', Real.rpow_one]

/-- `∫₀¹ d(x^p) = 1` -/
theorem integral_weight (p : ℝ) (hp : 0 < p) : ∫ x in (0:ℝ)..1, p * x ^ (p - 1) = 1 := by
  have := subst_rpow (fun _ => 1) continuous_const p hp
  simp only [one_mul, intervalIntegral.integral_const, sub_zero, smul_eq_mul, mul_one] at this
  exact this.symm

/-- reflection `u ↦ 1 − u` of the uniform variable -/
theorem integral_reflect (g : ℝ → ℝ) : ∫ u in (0:ℝ)..1, g (1 - u) = ∫ v in (0:ℝ)..1, g v := by
  rw [intervalIntegral.integral_comp_sub_left g (a := 0) (b := 1) 1]
  norm_num

/-! ## 4. the Spec of C06 is the distribution function of the convolution -/

/-- **convex shape**: `P[Z + E ≤ y] = H((y − a)/(b − a))`, `H(t) = ∫₀¹ Φ((t − x)/s) d(x^{c/2})`, `s = o/(b − a)` -/
theorem law_convex (a b o : ℝ) (c : ℕ) (hab : a < b) (hc : 0 < c) (ho : 0 < o) (y : ℝ) :
    ((quadLaw ⟨a, b, c, true⟩ ∗ gaussianReal 0 (NNReal.mk (o ^ 2) (sq_nonneg o))) (Iic y)).toReal
      = mixture ((c:ℝ) / 2) (o / (b - a)) ((y - a) / (b - a)) := by
  have hw : 0 < b - a := sub_pos.mpr hab
  have hc' : (0:ℝ) < c := by exact_mod_cast hc
  rw [conv_gaussian_Iic _ o ho, integral_quadLaw _ _ (continuous_Phi_shift y o)]
  have hG : Continuous fun x : ℝ => Phi (((y - a) / (b - a) - x) / (o / (b - a))) :=
    continuous_Phi_shift _ _
  rw [mixture, ← subst_rpow _ hG _ (by positivity)]
  refine intervalIntegral.integral_congr fun u _ => ?_
  simp only [noisyQuadPart_convex]
  have e : (1:ℝ) / ((c:ℝ) / 2) = 2 / c := by field_simp
  rw [e]
  congr 1
  field_simp
  ring

/-- **concave shape**: `P[Z + E ≤ y] = 1 − H((b − y)/(b − a))` -/
theorem law_concave (a b o : ℝ) (c : ℕ) (hab : a < b) (hc : 0 < c) (ho : 0 < o) (y : ℝ) :
    ((quadLaw ⟨a, b, c, false⟩ ∗ gaussianReal 0 (NNReal.mk (o ^ 2) (sq_nonneg o))) (Iic y)).toReal
      = 1 - mixture ((c:ℝ) / 2) (o / (b - a)) ((b - y) / (b - a)) := by
  have hw : 0 < b - a := sub_pos.mpr hab
  have hc' : (0:ℝ) < c := by exact_mod_cast hc
  have hp : (0:ℝ) < (c:ℝ) / 2 := by positivity
  rw [conv_gaussian_Iic _ o ho, integral_quadLaw _ _ (continuous_Phi_shift y o)]
  simp only [noisyQuadPart_concave]
  rw [integral_reflect (fun v => Phi ((y - (b - (b - a) * v ^ ((2:ℝ) / c))) / o))]
  have hP : Continuous fun x : ℝ => Phi (((b - y) / (b - a) - x) / (o / (b - a))) :=
    continuous_Phi_shift _ _
  have hG : Continuous fun x : ℝ => 1 - Phi (((b - y) / (b - a) - x) / (o / (b - a))) :=
    continuous_const.sub hP
  have e : (2:ℝ) / c = 1 / ((c:ℝ) / 2) := by field_simp
  have h1 : ∫ v in (0:ℝ)..1, Phi ((y - (b - (b - a) * v ^ ((2:ℝ) / c))) / o)
      = ∫ v in (0:ℝ)..1, (fun x : ℝ => 1 - Phi (((b - y) / (b - a) - x) / (o / (b - a)))) (v ^ (1 / ((c:ℝ) / 2))) := by
    refine intervalIntegral.integral_congr fun v _ => ?_
    simp only
    rw [← Phi_neg, e]
    congr 1
    field_simp
    ring
  rw [h1, subst_rpow _ hG _ hp]
  have hv' : IntervalIntegrable (fun x : ℝ => (c:ℝ) / 2 * x ^ ((c:ℝ) / 2 - 1)) volume 0 1 :=
    (intervalIntegral.intervalIntegrable_rpow' (by linarith)).const_mul _
  have hint : IntervalIntegrable (fun x : ℝ => Phi (((b - y) / (b - a) - x) / (o / (b - a)))
      * ((c:ℝ) / 2 * x ^ ((c:ℝ) / 2 - 1))) volume 0 1 := hv'.continuousOn_mul hP.continuousOn
  simp only [sub_mul, one_mul]
  rw [intervalIntegral.integral_sub hv' hint, integral_weight _ hp, mixture]

/-- the Spec of the C06 theorems, both shapes in one expression (the very `if` that `cdf_odd_shipped_table_partial` states) -/
noncomputable def spec (d : Opda.Noisy.Params ℝ) (y : ℝ) : ℝ :=
  if d.convex then mixture ((d.c : ℝ) / 2) (d.o / (d.b - d.a)) ((y - d.a) / (d.b - d.a))
  else 1 - mixture ((d.c : ℝ) / 2) (d.o / (d.b - d.a)) ((d.b - y) / (d.b - d.a))

/-- the law of `Z + E`, `Z ~ Quadratic(a, b, c, shape)` and `E ~ N(0, o²)` independent: the convolution of the two laws -/
noncomputable def sumLaw (d : Opda.Noisy.Params ℝ) : Measure ℝ :=
  quadLaw ⟨d.a, d.b, d.c, d.convex⟩ ∗ gaussianReal 0 (NNReal.mk (d.o ^ 2) (sq_nonneg d.o))

instance (d : Opda.Noisy.Params ℝ) : IsProbabilityMeasure (sumLaw d) := by
  unfold sumLaw; infer_instance

/-- **the Spec is `P[Z + E ≤ y]`**, every `a < b`, `c ≥ 1`, `o > 0`, both shapes, every real `y` -/
theorem spec_is_law (d : Opda.Noisy.Params ℝ) (hab : d.a < d.b) (hc : 1 ≤ d.c) (ho : 0 < d.o) (y : ℝ) :
    spec d y = ((sumLaw d) (Iic y)).toReal := by
  unfold spec sumLaw
  cases hcv : d.convex
  · simp only [Bool.false_eq_true, if_false]
    exact (law_concave d.a d.b d.o d.c hab hc ho y).symm
  · simp only [if_true]
    exact (law_convex d.a d.b d.o d.c hab hc ho y).symm

/-! ## 5. random variables -/

/-- for **any** independent `Z`, `E` on any probability space with `Z ~ Quadratic(a, b, c, shape)` (law `quadLaw`) and
`E ~ N(0, o²)`: `P[Z + E ≤ y]` is the Spec -/
theorem sum_law_is_spec {Ω : Type} [MeasurableSpace Ω] (P : Measure Ω) [IsProbabilityMeasure P] (Z E : Ω → ℝ)
    (hZ : Measurable Z) (hE : Measurable E) (hind : IndepFun Z E P) (d : Opda.Noisy.Params ℝ)
    (hZlaw : P.map Z = quadLaw ⟨d.a, d.b, d.c, d.convex⟩)
    (hElaw : P.map E = gaussianReal 0 (NNReal.mk (d.o ^ 2) (sq_nonneg d.o)))
    (hab : d.a < d.b) (hc : 1 ≤ d.c) (ho : 0 < d.o) (y : ℝ) :
    (P {ω | Z ω + E ω ≤ y}).toReal = spec d y := by
  rw [spec_is_law d hab hc ho y, sumLaw, ← hZlaw, ← hElaw, ← hind.map_add_eq_map_conv_map hZ hE,
    Measure.map_apply (hZ.add hE) measurableSet_Iic]
  rfl

/-- **the distribution function of a noisy draw** (`NoisyQuadraticDistribution.sample`): `U` uniform on `[0, 1)`, `N`
standard normal, independent ⇒ `P[noisySample d o U N ≤ y]` is the C06 Spec at `y` -/
theorem noisy_sample_cdf {Ω : Type} [MeasurableSpace Ω] (P : Measure Ω) [IsProbabilityMeasure P] (U N : Ω → ℝ)
    (hU : Measurable U) (hN : Measurable N) (hind : IndepFun U N P)
    (hUlaw : P.map U = uniform01) (hNlaw : P.map N = gaussianReal 0 1)
    (d : Opda.Quad.Params ℝ) (o : ℝ) (hab : d.a < d.b) (hc : 1 ≤ d.c) (ho : 0 < o) (y : ℝ) :
    (P {ω | noisySample d o (U ω) (N ω) ≤ y}).toReal = spec ⟨d.a, d.b, d.c, o, d.convex⟩ y := by
  have h := noisy_law P U N hU hN hind hNlaw d o
  have hq : P.map (fun ω => noisyQuadPart d (U ω)) = quadLaw d := by
    have : (fun ω => noisyQuadPart d (U ω)) = noisyQuadPart d ∘ U := rfl
    rw [this, ← Measure.map_map (measurable_noisyQuadPart d) hU, hUlaw, quadLaw]
  have hmeas : Measurable fun ω => noisySample d o (U ω) (N ω) := by
    have : (fun ω => noisySample d o (U ω) (N ω)) = fun ω => noisyQuadPart d (U ω) + o * N ω := by
      funext ω; exact noisySample_eq d o _ _
    rw [this]
    exact ((measurable_noisyQuadPart d).comp hU).add (measurable_const.mul hN)
  have hs : {ω | noisySample d o (U ω) (N ω) ≤ y} = (fun ω => noisySample d o (U ω) (N ω)) ⁻¹' Iic y := rfl
  rw [hs, ← Measure.map_apply hmeas measurableSet_Iic, h, hq,
    spec_is_law ⟨d.a, d.b, d.c, o, d.convex⟩ hab hc ho y, sumLaw]

/-- such a pair exists: the coordinates of `ℝ × ℝ` under the product of the two laws -/
theorem exists_independent_pair (d : Opda.Noisy.Params ℝ) (hab : d.a < d.b) (hc : 1 ≤ d.c) (ho : 0 < d.o) :
    ∃ (P : Measure (ℝ × ℝ)) (_ : IsProbabilityMeasure P) (Z E : ℝ × ℝ → ℝ) (d' : Opda.Noisy.Params ℝ),
      Measurable Z ∧ Measurable E ∧ IndepFun Z E P
      ∧ P.map Z = quadLaw ⟨d'.a, d'.b, d'.c, d'.convex⟩
      ∧ P.map E = gaussianReal 0 (NNReal.mk (d'.o ^ 2) (sq_nonneg d'.o))
      ∧ d'.a < d'.b ∧ 1 ≤ d'.c ∧ 0 < d'.o := by
  refine ⟨(quadLaw ⟨d.a, d.b, d.c, d.convex⟩).prod (gaussianReal 0 (NNReal.mk (d.o ^ 2) (sq_nonneg d.o))),
    inferInstance, Prod.fst, Prod.snd, d, measurable_fst, measurable_snd, ?_, ?_, ?_, hab, hc, ho⟩
  · exact indepFun_prod (X := id) (Y := id) measurable_id measurable_id
  · rw [Measure.map_fst_prod, measure_univ, one_smul]
  · rw [Measure.map_snd_prod, measure_univ, one_smul]

/-- a uniform and an independent standard normal variable exist -/
theorem exists_uniform_normal_pair :
    ∃ (P : Measure (ℝ × ℝ)) (_ : IsProbabilityMeasure P) (U Z : ℝ × ℝ → ℝ), Measurable U ∧ Measurable Z
      ∧ IndepFun U Z P ∧ P.map U = volume.restrict (Ico 0 1) ∧ P.map Z = gaussianReal 0 1 := by
  refine ⟨uniform01.prod (gaussianReal 0 1), inferInstance, Prod.fst, Prod.snd, measurable_fst, measurable_snd,
    ?_, ?_, ?_⟩
  · exact indepFun_prod (X := id) (Y := id) measurable_id measurable_id
  · rw [Measure.map_fst_prod, measure_univ, one_smul]; rfl
  · rw [Measure.map_snd_prod, measure_univ, one_smul]

/-! ## 6. the density -/

/-- `μ ∗ (f · Lebesgue)` has density `t ↦ ∫⁻ f(t − z) dμ(z)` (Tonelli + translation invariance) -/
theorem conv_withDensity (μ : Measure ℝ) [SFinite μ] (f : ℝ → ℝ≥0∞) (hf : Measurable f) :
    μ ∗ (volume.withDensity f) = volume.withDensity (fun t => ∫⁻ z, f (t - z) ∂μ) := by
  ext s hs
  have hind : Measurable (s.indicator (1 : ℝ → ℝ≥0∞)) := measurable_one.indicator hs
  rw [withDensity_apply _ hs, ← lintegral_indicator_one hs, Measure.lintegral_conv hind]
  have h1 : ∀ z : ℝ, ∫⁻ e, s.indicator (1 : ℝ → ℝ≥0∞) (z + e) ∂(volume.withDensity f)
      = ∫⁻ t, s.indicator (1 : ℝ → ℝ≥0∞) t * f (t - z) := by
    intro z
    have hm : Measurable fun e : ℝ => s.indicator (1 : ℝ → ℝ≥0∞) (z + e) :=
      hind.comp (measurable_const.add measurable_id)
    rw [lintegral_withDensity_eq_lintegral_mul _ hf hm,
      ← lintegral_add_left_eq_self (fun t => s.indicator (1 : ℝ → ℝ≥0∞) t * f (t - z)) z]
    refine lintegral_congr fun e => ?_
    simp only [Pi.mul_apply, add_sub_cancel_left, mul_comm]
  simp only [h1]
  rw [lintegral_lintegral_swap]
  · rw [← lintegral_indicator hs]
    refine lintegral_congr fun t => ?_
    rw [lintegral_const_mul' _ _ (by by_cases h : t ∈ s <;> simp [h])]
    by_cases h : t ∈ s <;> simp [h]
  · apply Measurable.aemeasurable
    apply Measurable.mul
    · exact hind.comp measurable_snd
    · exact hf.comp (measurable_snd.sub measurable_fst)

theorem gaussianPDFReal_scale (o : ℝ) (ho : 0 < o) (e : ℝ) :
    gaussianPDFReal 0 (NNReal.mk (o ^ 2) (sq_nonneg o)) e = o⁻¹ * phiStd (e / o) := by
  rw [phiStd_eq]
  unfold gaussianPDFReal
  have hv : ((NNReal.mk (o ^ 2) (sq_nonneg o) : ℝ≥0) : ℝ) = o ^ 2 := rfl
  rw [hv, sub_zero]
  have hs : √(2 * π * o ^ 2) = √(2 * π) * o := by
    rw [Real.sqrt_mul (by positivity), Real.sqrt_sq ho.le]
  have he : -e ^ 2 / (2 * o ^ 2) = -(e / o) ^ 2 / 2 := by field_simp
  rw [hs, mul_inv, he]; ring

theorem phiStd_le (x : ℝ) : phiStd x ≤ (√(2 * π))⁻¹ := by
  rw [phiStd_eq]
  have h : Real.exp (-x ^ 2 / 2) ≤ 1 := Real.exp_le_one_iff.mpr (by nlinarith [sq_nonneg x])
  have h0 : 0 ≤ (√(2 * π))⁻¹ := by positivity
  nlinarith

theorem continuous_noiseDens (y o : ℝ) : Continuous fun z : ℝ => o⁻¹ * phiStd ((y - z) / o) := by
  have := continuous_phiStd; fun_prop

theorem conv_gaussian_withDensity (μ : Measure ℝ) [IsFiniteMeasure μ] (o : ℝ) (ho : 0 < o) :
    μ ∗ gaussianReal 0 (NNReal.mk (o ^ 2) (sq_nonneg o))
      = volume.withDensity (fun t => ENNReal.ofReal (∫ z, o⁻¹ * phiStd ((t - z) / o) ∂μ)) := by
  have hv : NNReal.mk (o ^ 2) (sq_nonneg o) ≠ 0 := by
    intro h0
    have : ((NNReal.mk (o ^ 2) (sq_nonneg o) : ℝ≥0) : ℝ) = 0 := by rw [h0]; rfl
    exact (pow_pos ho 2).ne' this
  rw [gaussianReal_of_var_ne_zero _ hv, conv_withDensity _ _ (measurable_gaussianPDF 0 _)]
  congr 1
  funext t
  simp only [gaussianPDF, gaussianPDFReal_scale o ho]
  rw [← ofReal_integral_eq_lintegral_ofReal]
  · refine Integrable.of_bound (continuous_noiseDens t o).aestronglyMeasurable (o⁻¹ * (√(2 * π))⁻¹)
      (Filter.Eventually.of_forall fun z => ?_)
    have h0 := phiStd_nonneg ((t - z) / o)
    have hi : 0 < o⁻¹ := inv_pos.mpr ho
    rw [Real.norm_of_nonneg (mul_nonneg hi.le h0)]
    exact mul_le_mul_of_nonneg_left (phiStd_le _) hi.le
  · exact Filter.Eventually.of_forall fun z => mul_nonneg (inv_pos.mpr ho).le (phiStd_nonneg _)

theorem density_convex (a b o : ℝ) (c : ℕ) (hab : a < b) (hc : 0 < c) (ho : 0 < o) (y : ℝ) :
    ∫ z, o⁻¹ * phiStd ((y - z) / o) ∂(quadLaw ⟨a, b, c, true⟩)
      = mixtureDensity ((c:ℝ) / 2) (o / (b - a)) ((y - a) / (b - a)) / (b - a) := by
  have hw : 0 < b - a := sub_pos.mpr hab
  have hc' : (0:ℝ) < c := by exact_mod_cast hc
  have hp : (0:ℝ) < (c:ℝ) / 2 := by positivity
  rw [integral_quadLaw _ _ (continuous_noiseDens y o)]
  have hG : Continuous fun x : ℝ => dens ((y - a) / (b - a)) (o / (b - a)) x / (b - a) :=
    (continuous_dens _ _).div_const _
  have e : (2:ℝ) / c = 1 / ((c:ℝ) / 2) := by field_simp
  have h1 : ∫ u in (0:ℝ)..1, o⁻¹ * phiStd ((y - noisyQuadPart ⟨a, b, c, true⟩ u) / o)
      = ∫ u in (0:ℝ)..1, (fun x : ℝ => dens ((y - a) / (b - a)) (o / (b - a)) x / (b - a)) (u ^ (1 / ((c:ℝ) / 2))) := by
    refine intervalIntegral.integral_congr fun u _ => ?_
    simp only [noisyQuadPart_convex, dens]
    rw [e, ← phiStd_neg]
    have : -((y - (a + (b - a) * u ^ (1 / ((c:ℝ) / 2)))) / o)
        = (u ^ (1 / ((c:ℝ) / 2)) - (y - a) / (b - a)) / (o / (b - a)) := by field_simp; ring
    rw [this]; field_simp
  rw [h1, subst_rpow _ hG _ hp, mixtureDensity, ← intervalIntegral.integral_div]
  refine intervalIntegral.integral_congr fun x _ => ?_
  ring

theorem density_concave (a b o : ℝ) (c : ℕ) (hab : a < b) (hc : 0 < c) (ho : 0 < o) (y : ℝ) :
    ∫ z, o⁻¹ * phiStd ((y - z) / o) ∂(quadLaw ⟨a, b, c, false⟩)
      = mixtureDensity ((c:ℝ) / 2) (o / (b - a)) ((b - y) / (b - a)) / (b - a) := by
  have hw : 0 < b - a := sub_pos.mpr hab
  have hc' : (0:ℝ) < c := by exact_mod_cast hc
  have hp : (0:ℝ) < (c:ℝ) / 2 := by positivity
  rw [integral_quadLaw _ _ (continuous_noiseDens y o)]
  simp only [noisyQuadPart_concave]
  rw [integral_reflect (fun v => o⁻¹ * phiStd ((y - (b - (b - a) * v ^ ((2:ℝ) / c))) / o))]
  have hG : Continuous fun x : ℝ => dens ((b - y) / (b - a)) (o / (b - a)) x / (b - a) :=
    (continuous_dens _ _).div_const _
  have e : (2:ℝ) / c = 1 / ((c:ℝ) / 2) := by field_simp
  have h1 : ∫ v in (0:ℝ)..1, o⁻¹ * phiStd ((y - (b - (b - a) * v ^ ((2:ℝ) / c))) / o)
      = ∫ u in (0:ℝ)..1, (fun x : ℝ => dens ((b - y) / (b - a)) (o / (b - a)) x / (b - a)) (u ^ (1 / ((c:ℝ) / 2))) := by
    refine intervalIntegral.integral_congr fun u _ => ?_
    simp only [dens]
    rw [e]
    have : (y - (b - (b - a) * u ^ (1 / ((c:ℝ) / 2)))) / o
        = (u ^ (1 / ((c:ℝ) / 2)) - (b - y) / (b - a)) / (o / (b - a)) := by field_simp; ring
    rw [this]; field_simp
  rw [h1, subst_rpow _ hG _ hp, mixtureDensity, ← intervalIntegral.integral_div]
  refine intervalIntegral.integral_congr fun x _ => ?_
  ring

/-- **the law of `Z + E` has density `h(loc y)/(b − a)`**, `h = mixtureDensity (c/2) (o/(b−a))`: the Spec of the C06
density theorems (`pdf_even_model_eq_spec`, `pdf_odd_…`), every `a < b`, `c ≥ 1`, `o > 0`, both shapes -/
theorem sumLaw_withDensity (d : Opda.Noisy.Params ℝ) (hab : d.a < d.b) (hc : 1 ≤ d.c) (ho : 0 < d.o) :
    sumLaw d = volume.withDensity (fun y => ENNReal.ofReal
      (mixtureDensity ((d.c : ℝ) / 2) (d.o / (d.b - d.a)) (locOf d y) / (d.b - d.a))) := by
  unfold sumLaw
  rw [conv_gaussian_withDensity _ d.o ho]
  congr 1
  funext y
  congr 1
  unfold locOf
  cases hcv : d.convex
  · simp only [Bool.false_eq_true, if_false]
    exact density_concave d.a d.b d.o d.c hab hc ho y
  · simp only [if_true]
    exact density_convex d.a d.b d.o d.c hab hc ho y

/-! ## the C06 Model = Spec theorems, restated against the law of the sum -/

section model
variable (T : List (ℕ × List (Entry ℝ))) (ninf pinf : ℝ)

/-- in the series regime `a < b`, `o > 0`; with `c ≥ 1` the Spec of the C06 theorems is `P[Z + E ≤ y]` -/
theorem spec_is_law_series (d : Opda.Noisy.Params ℝ) (hab : d.a ≤ d.b) (hc : 1 ≤ d.c)
    (h : regime (realFns T ninf pinf) d = .nothing) (y : ℝ) :
    spec d y = ((sumLaw d) (Iic y)).toReal := by
  obtain ⟨ho, hw⟩ := nothing_pos (realFns_lawful T ninf pinf) d hab h
  exact spec_is_law d (sub_pos.mp hw) hc ho y

/-- **even `c`, both shapes, series regime**: over `ℝ` the model's cdf *is* `P[Z + E ≤ y]` -/
theorem cdf_even_eq_law (d : Opda.Noisy.Params ℝ) (k : ℕ) (hk : 1 ≤ k) (hc : d.c = 2 * k) (hab : d.a ≤ d.b)
    (hp : pointMass (realFns T ninf pinf) d = false) (h : regime (realFns T ninf pinf) d = .nothing) (y : ℝ) :
    cdf (realFns T ninf pinf) d y = ((sumLaw d) (Iic y)).toReal := by
  rw [← spec_is_law_series T ninf pinf d hab (by omega) h y]
  have e : ((d.c : ℝ)) / 2 = k := by rw [hc]; push_cast; ring
  unfold spec
  rw [e]
  cases hcv : d.convex
  · simp only [Bool.false_eq_true, if_false]
    exact cdf_even_concave_eq_mixture T ninf pinf d k hk hc hcv hab hp h y
  · simp only [if_true]
    exact cdf_even_convex_eq_mixture T ninf pinf d k hk hc hcv hab hp h y

/-- **even `c ≥ 2`, both shapes, series regime: the model's pdf over `ℝ` is a density of the law of `Z + E`** with respect
to Lebesgue measure -/
theorem pdf_even_is_density (d : Opda.Noisy.Params ℝ) (k : ℕ) (hc : d.c = 2 * k + 2) (hab : d.a ≤ d.b)
    (hp : pointMass (realFns T ninf pinf) d = false) (h : regime (realFns T ninf pinf) d = .nothing) :
    sumLaw d = volume.withDensity (fun y => ENNReal.ofReal (pdf (realFns T ninf pinf) d y)) := by
  obtain ⟨ho, hw⟩ := nothing_pos (realFns_lawful T ninf pinf) d hab h
  rw [sumLaw_withDensity d (sub_pos.mp hw) (by omega) ho]
  congr 1
  funext y
  congr 1
  have e : ((d.c : ℝ)) / 2 = (k : ℝ) + 1 := by rw [hc]; push_cast; ring
  rw [e, ← pdf_even_eq_mixtureDensity T ninf pinf d k hc hab hp h y]
  field_simp

end model

section noiseless
variable (T : List (ℕ × List (Entry ℝ))) (ninf pinf : ℝ)

/-- in the noiseless regime the model returns the noise-free class's `cdf` (the C05 model) -/
theorem cdf_noiseless_eq_quad (d : Opda.Noisy.Params ℝ) (hab : d.a < d.b)
    (hp : pointMass (realFns T ninf pinf) d = false) (h : regime (realFns T ninf pinf) d = .noiseless) (x : ℝ) :
    cdf (realFns T ninf pinf) d x = Opda.Quad.cdf ⟨d.a, d.b, d.c, d.convex⟩ x := by
  rw [cdf_noiseless d x hp h]
  unfold Opda.Quad.cdf
  simp only [Opda.Quad.eq_false_of_ne _ _ (ne_of_lt hab), Bool.false_eq_true, if_false, num_n, num_pow]
  rfl

/-- the quantity `noiseless_bound` compares with — the noise-free law smoothed by `N(0, o²)` — is `P[Z + E ≤ y]` -/
theorem smoothed_noiseless_is_law (d : Opda.Noisy.Params ℝ) (hab : d.a < d.b) (hc : 1 ≤ d.c)
    (hp : pointMass (realFns T ninf pinf) d = false) (h : regime (realFns T ninf pinf) d = .noiseless) (y : ℝ) :
    ∫ e, cdf (realFns T ninf pinf) d (y - e) ∂(gaussianReal 0 ⟨d.o ^ 2, sq_nonneg _⟩)
      = ((sumLaw d) (Iic y)).toReal := by
  have hq : ∀ x, 0 ≤ Opda.Quad.cdf ⟨d.a, d.b, d.c, d.convex⟩ x := fun x =>
    (Opda.Quad.cdf_mem ⟨d.a, d.b, d.c, d.convex⟩ hab hc x).1
  have hmeas : Measurable fun e : ℝ => Opda.Quad.cdf ⟨d.a, d.b, d.c, d.convex⟩ (y - e) :=
    (Opda.Quad.cdf_mono ⟨d.a, d.b, d.c, d.convex⟩ hab hc).measurable.comp (measurable_const.sub measurable_id)
  simp only [cdf_noiseless_eq_quad T ninf pinf d hab hp h]
  unfold sumLaw
  rw [conv_Iic_right]
  simp only [quadLaw_Iic ⟨d.a, d.b, d.c, d.convex⟩ hab hc]
  rw [integral_eq_lintegral_of_nonneg_ae (Filter.Eventually.of_forall fun e => hq _) hmeas.aestronglyMeasurable]
  rfl

/-- **noiseless regime, `c ≥ 2`**: the value returned (noise ignored) is within `0.4·c·o/(b−a)` of `P[Z + E ≤ y]` -/
theorem noiseless_bound_law (d : Opda.Noisy.Params ℝ) (hab : d.a < d.b) (hc : 2 ≤ d.c) (ho : 0 < d.o)
    (hp : pointMass (realFns T ninf pinf) d = false) (h : regime (realFns T ninf pinf) d = .noiseless) (y : ℝ) :
    |cdf (realFns T ninf pinf) d y - ((sumLaw d) (Iic y)).toReal| ≤ 0.4 * d.c * d.o / (d.b - d.a) := by
  rw [← smoothed_noiseless_is_law T ninf pinf d hab (by omega) hp h y]
  exact noiseless_bound T ninf pinf d hab hc ho hp h y

/-- **noiseless regime, `c = 1`**: within `0.83·√(o/(b−a))` of `P[Z + E ≤ y]` -/
theorem noiseless_bound_c1_law (d : Opda.Noisy.Params ℝ) (hab : d.a < d.b) (hc : d.c = 1) (ho : 0 < d.o)
    (hp : pointMass (realFns T ninf pinf) d = false) (h : regime (realFns T ninf pinf) d = .noiseless) (y : ℝ) :
    |cdf (realFns T ninf pinf) d y - ((sumLaw d) (Iic y)).toReal| ≤ 0.83 * Real.sqrt (d.o / (d.b - d.a)) := by
  rw [← smoothed_noiseless_is_law T ninf pinf d hab (by omega) hp h y]
  exact noiseless_bound_c1 T ninf pinf d hab hc ho hp h y

end noiseless

section shipped
open Opda.Gen Opda.Table
variable (ninf pinf : ℝ)

/-- **odd `c`, shipped table, series regime**: the model's cdf is within `1.02 ·` (largest `max_error` of the row of
`c`) of `P[Z + E ≤ y]` -/
theorem cdf_odd_shipped_uniform_law (d : Opda.Noisy.Params ℝ) (k : ℕ) (hc : d.c = 2 * k + 1) (hab : d.a ≤ d.b)
    (hp : pointMass (realFns tableR ninf pinf) d = false) (h : regime (realFns tableR ninf pinf) d = .nothing)
    (row : ℕ × List EntryQ) (hrow : rowOf tableQ d.c = some row) (y : ℝ) :
    |cdf (realFns tableR ninf pinf) d y - ((sumLaw d) (Iic y)).toReal| ≤ 1.02 * (rowMaxError row : ℝ) := by
  rw [← spec_is_law_series tableR ninf pinf d hab (by omega) h y]
  exact cdf_odd_shipped_uniform ninf pinf d k hc hab hp h row hrow y

/-- **`c ∈ {7, 9}`, shipped table, series regime: `|cdf(y) − P[Z + E ≤ y]| ≤ 2.5e-5`** in exact real arithmetic -/
theorem cdf_c7_c9_shipped_law (d : Opda.Noisy.Params ℝ) (hc : d.c = 7 ∨ d.c = 9) (hab : d.a ≤ d.b)
    (hp : pointMass (realFns tableR ninf pinf) d = false) (h : regime (realFns tableR ninf pinf) d = .nothing)
    (y : ℝ) :
    |cdf (realFns tableR ninf pinf) d y - ((sumLaw d) (Iic y)).toReal| ≤ 2.5e-5 := by
  rw [← spec_is_law_series tableR ninf pinf d hab (by omega) h y]
  exact cdf_c7_c9_shipped ninf pinf d hc hab hp h y

end shipped

end Opda.NoisyLaw
