import Mathlib.Data.Real.Basic
import Mathlib.Tactic

/-!
C18-T4: equal-error characterisation of optimal knots.  `err i l r` is the minimax error of the
degree-`n_i` approximation on `[l, r]`; all that is used is that it grows with the interval.
If every piece of the knot vector `K` has error at least `E`, then **every** other knot vector with the
same end points (and the same degree per piece) has a piece with error at least `E`; so a knot vector
whose pieces all have error exactly `E` minimises the worst-case error.
-/
namespace Opda.Knots

theorem equal_error_optimal (m : ℕ) (hm : 0 < m) (K K' : ℕ → ℝ) (err : ℕ → ℝ → ℝ → ℝ) (E : ℝ)
    (hmono : ∀ i l r l' r', l' ≤ l → r ≤ r' → err i l r ≤ err i l' r')
    (h0 : K' 0 ≤ K 0) (hend : K m ≤ K' m)
    (hK : ∀ i, i < m → E ≤ err i (K i) (K (i+1))) :
    ∃ i, i < m ∧ E ≤ err i (K' i) (K' (i+1)) := by
  -- first piece index whose right knot of K' reaches that of K
  have hex : ∃ i, i < m ∧ K (i+1) ≤ K' (i+1) := ⟨m - 1, by omega, by
    have : m - 1 + 1 = m := by omega
    rw [this]; exact hend⟩
  obtain ⟨i, hi, hmin⟩ : ∃ i, (i < m ∧ K (i+1) ≤ K' (i+1)) ∧ ∀ j, j < i → ¬ (j < m ∧ K (j+1) ≤ K' (j+1)) :=
    ⟨Nat.find hex, Nat.find_spec hex, fun j hj => Nat.find_min hex hj⟩
  refine ⟨i, hi.1, ?_⟩
  have hleft : K' i ≤ K i := by
    rcases Nat.eq_zero_or_pos i with rfl | hpos
    · exact h0
    · have := hmin (i - 1) (by omega)
      have h1 : i - 1 + 1 = i := by omega
      rw [h1] at this
      by_contra hcon
      exact this ⟨by omega, (not_le.mp hcon).le⟩
  exact le_trans (hK i hi.1) (hmono i _ _ _ _ hleft hi.2)

#print axioms equal_error_optimal
end Opda.Knots

/-! ### the same statement for error functionals with values in any preorder (e.g. `ℝ≥0∞`) -/
namespace Opda.Knots

theorem equal_error_optimal_gen {β : Type} [Preorder β] (m : ℕ) (hm : 0 < m) (K K' : ℕ → ℝ)
    (err : ℕ → ℝ → ℝ → β) (E : β)
    (hmono : ∀ i l r l' r', l' ≤ l → r ≤ r' → err i l r ≤ err i l' r')
    (h0 : K' 0 ≤ K 0) (hend : K m ≤ K' m)
    (hK : ∀ i, i < m → E ≤ err i (K i) (K (i+1))) :
    ∃ i, i < m ∧ E ≤ err i (K' i) (K' (i+1)) := by
  have hex : ∃ i, i < m ∧ K (i+1) ≤ K' (i+1) := ⟨m - 1, by omega, by
    have : m - 1 + 1 = m := by omega
    rw [this]; exact hend⟩
  obtain ⟨i, hi, hmin⟩ : ∃ i, (i < m ∧ K (i+1) ≤ K' (i+1)) ∧ ∀ j, j < i → ¬ (j < m ∧ K (j+1) ≤ K' (j+1)) :=
    ⟨Nat.find hex, Nat.find_spec hex, fun j hj => Nat.find_min hex hj⟩
  refine ⟨i, hi.1, ?_⟩
  have hleft : K' i ≤ K i := by
    rcases Nat.eq_zero_or_pos i with rfl | hpos
    · exact h0
    · have := hmin (i - 1) (by omega)
      have h1 : i - 1 + 1 = i := by omega
      rw [h1] at this
      by_contra hcon
      exact this ⟨by omega, (not_le.mp hcon).le⟩
  exact le_trans (hK i hi.1) (hmono i _ _ _ _ hleft hi.2)

end Opda.Knots
