import OpdaModel.Num
import Mathlib.Analysis.SpecialFunctions.Pow.Real
import Mathlib.Analysis.SpecialFunctions.Gamma.Basic
import Mathlib.Probability.Distributions.Gaussian.Real
import Mathlib.Tactic

namespace Opda
open Real MeasureTheory ProbabilityTheory

/-- standard normal distribution function, as a real number -/
noncomputable def Phi (x : ℝ) : ℝ := ((gaussianReal 0 1) (Set.Iic x)).toReal

/-- standard normal density -/
noncomputable def phiStd (x : ℝ) : ℝ := gaussianPDFReal 0 1 x

/-- standard normal quantile function (generalised inverse of `Phi`) -/
noncomputable def PhiInv (q : ℝ) : ℝ := sInf {x | q ≤ Phi x}

noncomputable instance : Num ℝ where
  ofNat := fun k => (k : ℝ)
  decLt := Classical.decRel _
  decLe := Classical.decRel _
  eq := fun a b => @decide (a = b) (Classical.dec _)
  pow := Real.rpow
  exp := Real.exp
  log := Real.log
  logGamma := fun x => Real.log (Real.Gamma x)
  normalCdf := Phi
  normalPdf := phiStd
  normalPpf := PhiInv

@[simp] theorem num_eq (a b : ℝ) : (Num.eq a b = true) ↔ a = b := by
  show @decide (a = b) (Classical.dec _) = true ↔ a = b
  simp
@[simp] theorem num_n (k : ℕ) : (Num.n k : ℝ) = (k : ℝ) := rfl
@[simp] theorem num_pow (x y : ℝ) : Num.pow x y = x ^ y := rfl
@[simp] theorem num_exp (x : ℝ) : Num.exp x = Real.exp x := rfl

end Opda
