import Mathlib.Analysis.SpecialFunctions.ExpDeriv
import Mathlib.Analysis.Calculus.Deriv.Pow
import Mathlib.MeasureTheory.Integral.IntervalIntegral.FundThmCalculus
import Mathlib.Analysis.SpecialFunctions.Integrals.Basic
import Mathlib.Tactic

/-!
C06-T3 / C19-T4: the recursion the code uses for partial integer moments of a normal density on
an interval `[a, b]` is an identity (integration by parts):
`M (j+1) = μ M j + j σ² M (j-1) + σ² (a^j φ a − b^j φ b)`.
-/
namespace Opda.Gauss
open MeasureTheory intervalIntegral Real

/-- unnormalised-then-scaled normal density with mean `μ`, standard deviation `σ`, constant `c` -/
noncomputable def phi (c μ σ : ℝ) (x : ℝ) : ℝ := c * Real.exp (-(x - μ)^2 / (2 * σ^2))

theorem hasDerivAt_phi (c μ σ : ℝ) (hσ : σ ≠ 0) (x : ℝ) :
    HasDerivAt (phi c μ σ) (-(x - μ) / σ^2 * phi c μ σ x) x := by
  unfold phi
  have hs : σ^2 ≠ 0 := pow_ne_zero 2 hσ
  have h0 : HasDerivAt (fun x : ℝ => x - μ) 1 x := (hasDerivAt_id' x).sub_const μ
  have h1 : HasDerivAt (fun x : ℝ => -(x - μ)^2 / (2 * σ^2)) (-(x - μ) / σ^2) x := by
    have h2 := ((HasDerivAt.fun_pow h0 2).neg).div_const (2 * σ^2)
    refine h2.congr_deriv ?_
    field_simp
    ring
  exact ((h1.exp).const_mul c).congr_deriv (by ring)

theorem continuous_phi (c μ σ : ℝ) : Continuous (phi c μ σ) := by
  unfold phi; fun_prop

/-- partial moment of order `j` on `[a,b]` -/
noncomputable def M (c μ σ a b : ℝ) (j : ℕ) : ℝ := ∫ x in a..b, x^j * phi c μ σ x

theorem moment_recursion (c μ σ a b : ℝ) (hσ : σ ≠ 0) (j : ℕ) :
    M c μ σ a b (j+1) = μ * M c μ σ a b j + (j : ℝ) * σ^2 * M c μ σ a b (j-1)
      + σ^2 * (a^j * phi c μ σ a - b^j * phi c μ σ b) := by
  have hs : σ^2 ≠ 0 := pow_ne_zero 2 hσ
  -- derivative of x^j φ
  have hderiv : ∀ x ∈ Set.uIcc a b, HasDerivAt (fun x => x^j * phi c μ σ x)
      ((j : ℝ) * x^(j-1) * phi c μ σ x + x^j * (-(x - μ) / σ^2 * phi c μ σ x)) x := by
    intro x _
    have h1 : HasDerivAt (fun x : ℝ => x^j) ((j : ℝ) * x^(j-1)) x := hasDerivAt_pow j x
    exact h1.mul (hasDerivAt_phi c μ σ hσ x)
  have hcont : Continuous (fun x => (j : ℝ) * x^(j-1) * phi c μ σ x + x^j * (-(x - μ) / σ^2 * phi c μ σ x)) := by
    have := continuous_phi c μ σ
    fun_prop
  have hftc := integral_eq_sub_of_hasDerivAt hderiv (hcont.intervalIntegrable a b)
  -- pointwise identity: x^(j+1) φ = μ x^j φ + j σ² x^(j-1) φ − σ² (x^j φ)'
  have hpt : ∀ x, x^(j+1) * phi c μ σ x = μ * (x^j * phi c μ σ x) + (j:ℝ) * σ^2 * (x^(j-1) * phi c μ σ x)
      - σ^2 * ((j : ℝ) * x^(j-1) * phi c μ σ x + x^j * (-(x - μ) / σ^2 * phi c μ σ x)) := by
    intro x
    field_simp
    ring
  have hi : ∀ k : ℕ, IntervalIntegrable (fun x => x^k * phi c μ σ x) volume a b := by
    intro k
    have := continuous_phi c μ σ
    exact (by fun_prop : Continuous (fun x => x^k * phi c μ σ x)).intervalIntegrable a b
  unfold M
  rw [integral_congr (fun x _ => hpt x)]
  rw [intervalIntegral.integral_sub, intervalIntegral.integral_add, intervalIntegral.integral_const_mul,
    intervalIntegral.integral_const_mul, intervalIntegral.integral_const_mul, hftc]
  · ring
  · exact (hi j).const_mul μ
  · exact (hi (j-1)).const_mul _
  · exact ((hi j).const_mul μ).add ((hi (j-1)).const_mul _)
  · exact (hcont.intervalIntegrable a b).const_mul _

#print axioms moment_recursion
end Opda.Gauss
