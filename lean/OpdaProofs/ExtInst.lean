import OpdaModel.Wire
import Mathlib.Order.BoundedOrder.Basic
import Mathlib.Order.Defs.LinearOrder
import Mathlib.Algebra.Order.Field.Rat
/-!
The driver's value type `Ext` (extended rationals, Bool-valued comparisons) is a linear order with
least element `negInf` and greatest element `posInf`, and its order, decidability and equality
instances are *the ones the executable uses*.  The generic theorems about the discrete models
therefore apply verbatim to the terms the driver evaluates.
-/
namespace Opda.Wire.Ext

theorem lt_iff (x y : Ext) : x < y ↔ lt x y = true := Iff.rfl
theorem le_iff (x y : Ext) : x ≤ y ↔ lt y x = false := by
  show le x y = true ↔ _
  unfold le; cases lt y x <;> simp

instance : LinearOrder Ext where
  le := (· ≤ ·)
  lt := (· < ·)
  le_refl x := by rw [le_iff]; cases x <;> simp [lt]
  le_trans x y z := by
    simp only [le_iff]
    cases x <;> cases y <;> cases z <;> simp [lt] <;> intro h1 h2 <;> exact le_trans h1 h2
  lt_iff_le_not_ge x y := by
    simp only [le_iff, lt_iff]
    cases x <;> cases y <;> simp [lt]
    exact fun h => le_of_lt h
  le_antisymm x y := by
    simp only [le_iff]
    cases x <;> cases y <;> simp [lt]
    exact fun h1 h2 => le_antisymm h1 h2
  le_total x y := by
    simp only [le_iff]
    cases x <;> cases y <;> simp [lt]
    exact le_total _ _
  toDecidableLE := inferInstance
  toDecidableLT := inferInstance
  toDecidableEq := inferInstance

instance : OrderBot Ext where
  bot := negInf
  bot_le x := by show negInf ≤ x; rw [le_iff]; cases x <;> simp [lt]

instance : OrderTop Ext where
  top := posInf
  le_top x := by show x ≤ posInf; rw [le_iff]; cases x <;> simp [lt]

theorem bot_eq : (⊥ : Ext) = negInf := rfl
theorem top_eq : (⊤ : Ext) = posInf := rfl

end Opda.Wire.Ext
