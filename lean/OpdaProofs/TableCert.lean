import OpdaModel.TableCheck
import OpdaProofs.PolyBridge
/-!
Soundness of the per-piece certificate check (`OpdaModel/TableCheck.lean`).  Kept in its own small file:
every generated certificate imports it, so it should change rarely.
-/
namespace Opda.Table
open Opda.Gen Opda.PolyCheck

/-- the uniform bound the property demands of one piece: for **every** real `x` between its knots the
polynomial differs from `x ^ (m2/2)` by at most `1.02 · max_error`. -/
def PieceBound (T : List (Nat × List EntryQ)) (ri ei pi : Nat) : Prop :=
  ∃ m2 cs klo khi me, piece? T ri ei pi = some (m2, cs, klo, khi, me) ∧
    ∀ x : ℝ, (klo : ℝ) ≤ x → x ≤ (khi : ℝ) →
      |evalQ cs x - x ^ ((m2 : ℝ) / 2)| ≤ ((slack * me : ℚ) : ℝ)

theorem getLastD_eq_getLast (l : List Int) (hne : l ≠ []) : l.getLastD 0 = l.getLast hne := by
  induction l with
  | nil => exact absurd rfl hne
  | cons a t ih =>
    cases t with
    | nil => rfl
    | cons b t' =>
      have := ih (by simp)
      simp only [List.getLastD_cons, List.getLast_cons_cons] at this ⊢
      exact this

/-- **certificate soundness**: an accepted certificate proves the uniform bound on the whole knot interval. -/
theorem pieceBound_of_cert (T : List (Nat × List EntryQ)) (ri ei pi D P : Nat) (C : List Int) (B : Int)
    (cuts : List Int) (h : certOK T ri ei pi D P C B cuts = true) : PieceBound T ri ei pi := by
  unfold certOK at h
  split at h
  · exact absurd h (by simp)
  · rename_i m2 cs klo khi me hp
    split at h
    · rename_i sl r1 rest'
      simp only [Bool.and_eq_true, decide_eq_true_eq] at h
      obtain ⟨⟨⟨⟨⟨⟨h1, h2⟩, h3⟩, h4⟩, h5⟩, h6⟩, h7⟩ := h
      have hne : (r1 :: rest') ≠ [] := by simp
      rw [getLastD_eq_getLast _ hne] at h5 h6
      refine ⟨m2, cs, klo, khi, me, hp, ?_⟩
      intro x hx1 hx2
      exact piece_bound cs m2 D P C B sl (r1 :: rest') hne klo khi (slack * me) h1 h2 h3 h4 h5 h6 h7 x hx1 hx2
    · exact absurd h (by simp)

/-- `|C(s)| ≤ B` for every real `s` between two integers -/
def RangeBound (C : List Int) (B a b : Int) : Prop :=
  ∀ s : ℝ, (a : ℝ) ≤ s → s ≤ (b : ℝ) → |evalR C s| ≤ (B : ℝ)

theorem RangeBound.append {C : List Int} {B a b c : Int} (h1 : RangeBound C B a b) (h2 : RangeBound C B b c) :
    RangeBound C B a c := by
  intro s hs1 hs2
  rcases le_total s (b : ℝ) with h | h
  · exact h1 s hs1 h
  · exact h2 s h hs2

theorem rangeBound_of_chunk (C : List Int) (B : Int) (cuts : List Int) (a b : Int)
    (h : chunkOK C B cuts a b = true) : RangeBound C B a b := by
  unfold chunkOK at h
  simp only [Bool.and_eq_true, decide_eq_true_eq] at h
  obtain ⟨⟨⟨hc, hh⟩, hl⟩, hlen⟩ := h
  match cuts, hc, hh, hl, hlen with
  | l :: r1 :: rest', hc, hh, hl, _ =>
    simp only [List.head?_cons, Option.some.injEq] at hh
    subst hh
    have hne : (r1 :: rest') ≠ [] := by simp
    have hlast : (r1 :: rest').getLast hne = b := by
      rw [List.getLast?_cons_cons, List.getLast?_eq_some_getLast hne, Option.some.injEq] at hl
      exact hl
    intro s hs1 hs2
    exact checkAll_sound C B l (r1 :: rest') hne hc s hs1 (by rw [hlast]; exact hs2)

/-- **chunked certificate soundness** -/
theorem pieceBound_of_range (T : List (Nat × List EntryQ)) (ri ei pi D P : Nat) (C : List Int) (B sl sh : Int)
    (h : headOK T ri ei pi D P C B sl sh = true) (hr : RangeBound C B sl sh) : PieceBound T ri ei pi := by
  unfold headOK at h
  split at h
  · exact absurd h (by simp)
  · rename_i m2 cs klo khi me hp
    simp only [Bool.and_eq_true, decide_eq_true_eq] at h
    obtain ⟨⟨⟨⟨⟨h1, h3⟩, h4⟩, h5⟩, h6⟩, h7⟩ := h
    refine ⟨m2, cs, klo, khi, me, hp, ?_⟩
    intro x hx1 hx2
    exact piece_bound_of_range cs m2 D P C B sl sh klo khi (slack * me) h1 hr h3 h4 h5 h6 h7 x hx1 hx2

end Opda.Table
