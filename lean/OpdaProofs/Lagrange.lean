import OpdaModel.Lagrange
import Mathlib.LinearAlgebra.Lagrange
import Mathlib.Data.Real.Basic
import Mathlib.Tactic

/-!
C18-T1: the executable model of `lagrange_interpolate` (first barycentric form with the node
fix-up, and the plain Lagrange-basis sum) **is** Mathlib's `Lagrange.interpolate`, evaluated.
Hence it is the unique polynomial of degree `< n` through the points and does not depend on the
order of the nodes.
-/
set_option linter.unusedSectionVars false

namespace Opda.Lagr
open Finset

section Generic
variable {F : Type} [Field F] [DecidableEq F]

theorem sumTo_eq (n : ℕ) (f : ℕ → F) : sumTo n f = ∑ i ∈ range n, f i := by
  induction n with
  | zero => simp [sumTo]
  | succ n ih => simp [sumTo, ih, Finset.sum_range_succ]

theorem prodTo_eq (n : ℕ) (f : ℕ → F) : prodTo n f = ∏ i ∈ range n, f i := by
  induction n with
  | zero => simp [prodTo]
  | succ n ih => simp [prodTo, ih, Finset.prod_range_succ]

theorem allTo_iff (n : ℕ) (p : ℕ → Bool) : allTo n p = true ↔ ∀ i, i < n → p i = true := by
  induction n with
  | zero => simp [allTo]
  | succ n ih =>
    simp only [allTo, Bool.and_eq_true, ih]
    constructor
    · rintro ⟨h1, h2⟩ i hi
      rcases Nat.lt_succ_iff_lt_or_eq.mp hi with h | h
      · exact h1 i h
      · subst h; exact h2
    · intro h
      exact ⟨fun i hi => h i (Nat.lt_succ_of_lt hi), h n (Nat.lt_succ_self n)⟩

theorem prod_ite_erase (s : Finset ℕ) (i : ℕ) (g : ℕ → F) :
    ∏ j ∈ s, (if j = i then 1 else g j) = ∏ j ∈ s.erase i, g j := by
  rw [← Finset.filter_ne' s i, Finset.prod_filter]
  refine Finset.prod_congr rfl fun j _ => ?_
  by_cases h : j = i <;> simp [h]

theorem weight_eq (n : ℕ) (v : ℕ → F) (i : ℕ) :
    weight n v i = Lagrange.nodalWeight (range n) v i := by
  unfold weight Lagrange.nodalWeight
  rw [prodTo_eq, prod_ite_erase, one_div, Finset.prod_inv_distrib]

theorem basis_eq (n : ℕ) (v : ℕ → F) (i : ℕ) (x : F) :
    basis n v i x = Polynomial.eval x (Lagrange.basis (range n) v i) := by
  unfold basis Lagrange.basis Lagrange.basisDivisor
  rw [prodTo_eq, prod_ite_erase, Polynomial.eval_prod]
  refine Finset.prod_congr rfl fun j _ => ?_
  simp only [Polynomial.eval_mul, Polynomial.eval_C, Polynomial.eval_sub, Polynomial.eval_X]
  rw [div_eq_mul_inv, mul_comm]

/-- the plain Lagrange sum is the interpolant -/
theorem lsum_eq_interpolate (n : ℕ) (v r : ℕ → F) (x : F) :
    lsum n v r x = Polynomial.eval x (Lagrange.interpolate (range n) v r) := by
  unfold lsum
  rw [sumTo_eq, Lagrange.interpolate_apply, Polynomial.eval_finsetSum]
  refine Finset.sum_congr rfl fun i _ => ?_
  rw [Polynomial.eval_mul, Polynomial.eval_C, basis_eq]

/-- the first barycentric form is the interpolant off the nodes -/
theorem bary_eq_interpolate (n : ℕ) (v r : ℕ → F) (x : F) (hx : ∀ i ∈ range n, x ≠ v i) :
    bary n v r x = Polynomial.eval x (Lagrange.interpolate (range n) v r) := by
  rw [Lagrange.eval_interpolate_not_at_node r hx, Lagrange.eval_nodal]
  unfold bary
  rw [prodTo_eq, sumTo_eq]
  congr 1
  refine Finset.sum_congr rfl fun i _ => ?_
  rw [weight_eq, div_eq_mul_inv]
  ring

theorem findNode_some (n : ℕ) (v : ℕ → F) (x : F) (j : ℕ) (h : findNode n v x = some j) :
    j < n ∧ v j = x := by
  induction n with
  | zero => simp [findNode] at h
  | succ n ih =>
    simp only [findNode] at h
    split_ifs at h with hc
    · cases h; exact ⟨Nat.lt_succ_self _, hc⟩
    · exact ⟨Nat.lt_succ_of_lt (ih h).1, (ih h).2⟩

theorem findNode_none (n : ℕ) (v : ℕ → F) (x : F) (h : findNode n v x = none) :
    ∀ i, i < n → x ≠ v i := by
  induction n with
  | zero => intro i hi; exact absurd hi (Nat.not_lt_zero _)
  | succ n ih =>
    simp only [findNode] at h
    split_ifs at h with hc
    intro i hi
    rcases Nat.lt_succ_iff_lt_or_eq.mp hi with h' | h'
    · exact ih h i h'
    · subst h'; exact fun e => hc e.symm

/-- **Model = Spec**: the code's algorithm (barycentric form + node fix-up) evaluates Mathlib's
Lagrange interpolant, at every `x` (node or not). -/
theorem eval_eq_interpolate (n : ℕ) (v r : ℕ → F) (hv : Set.InjOn v (range n : Finset ℕ)) (x : F) :
    Lagr.eval n v r x = Polynomial.eval x (Lagrange.interpolate (range n) v r) := by
  unfold Lagr.eval
  cases h : findNode n v x with
  | some j =>
    obtain ⟨hj, hx⟩ := findNode_some n v x j h
    simp only
    rw [← hx, Lagrange.eval_interpolate_at_node r hv (mem_range.mpr hj)]
  | none =>
    simp only
    exact bary_eq_interpolate n v r x fun i hi => findNode_none n v x h i (mem_range.mp hi)

/-- exact at the nodes -/
theorem eval_at_node (n : ℕ) (v r : ℕ → F) (hv : Set.InjOn v (range n : Finset ℕ)) (i : ℕ) (hi : i < n) :
    Lagr.eval n v r (v i) = r i := by
  rw [eval_eq_interpolate n v r hv, Lagrange.eval_interpolate_at_node r hv (mem_range.mpr hi)]

/-- both evaluation schemes agree everywhere -/
theorem eval_eq_lsum (n : ℕ) (v r : ℕ → F) (hv : Set.InjOn v (range n : Finset ℕ)) (x : F) :
    Lagr.eval n v r x = lsum n v r x := by
  rw [eval_eq_interpolate n v r hv, lsum_eq_interpolate]

/-- uniqueness: any polynomial of degree `< n` through the points is what the model evaluates -/
theorem eval_unique (n : ℕ) (v r : ℕ → F) (hv : Set.InjOn v (range n : Finset ℕ))
    (q : Polynomial F) (hdeg : q.degree < n) (hq : ∀ i, i < n → q.eval (v i) = r i) (x : F) :
    Lagr.eval n v r x = q.eval x := by
  rw [eval_eq_interpolate n v r hv]
  have : q = Lagrange.interpolate (range n) v r :=
    Lagrange.eq_interpolate_of_eval_eq r hv (by simpa using hdeg)
      (fun i hi => hq i (mem_range.mp hi))
  rw [this]

/-- the interpolant has degree `< n` -/
theorem degree_lt (n : ℕ) (v r : ℕ → F) (hv : Set.InjOn v (range n : Finset ℕ)) :
    (Lagrange.interpolate (range n) v r).degree < n := by
  simpa using Lagrange.degree_interpolate_lt r hv

/-- permutation invariance: re-indexing nodes and values by a bijection of `{0,…,n-1}` does not
change the interpolant -/
theorem interpolate_perm (n : ℕ) (v r : ℕ → F) (hv : Set.InjOn v (range n : Finset ℕ))
    (σ : ℕ → ℕ) (hσ : Set.BijOn σ (range n : Finset ℕ) (range n : Finset ℕ)) :
    Lagrange.interpolate (range n) (v ∘ σ) (r ∘ σ) = Lagrange.interpolate (range n) v r := by
  have hv' : Set.InjOn (v ∘ σ) (range n : Finset ℕ) := hv.comp hσ.injOn hσ.mapsTo
  have hdeg : (Lagrange.interpolate (range n) (v ∘ σ) (r ∘ σ)).degree < (range n).card :=
    Lagrange.degree_interpolate_lt (r ∘ σ) hv'
  have hval : ∀ i ∈ range n,
      Polynomial.eval (v i) (Lagrange.interpolate (range n) (v ∘ σ) (r ∘ σ)) = r i := by
    intro i hi
    obtain ⟨k, hk, hki⟩ := hσ.surjOn (Finset.mem_coe.mpr hi)
    have h1 := Lagrange.eval_interpolate_at_node (r ∘ σ) hv' (Finset.mem_coe.mp hk)
    simp only [Function.comp_apply, hki] at h1
    exact h1
  exact Lagrange.eq_interpolate_of_eval_eq r hv hdeg hval

theorem eval_perm (n : ℕ) (v r : ℕ → F) (hv : Set.InjOn v (range n : Finset ℕ))
    (σ : ℕ → ℕ) (hσ : Set.BijOn σ (range n : Finset ℕ) (range n : Finset ℕ)) (x : F) :
    Lagr.eval n (v ∘ σ) (r ∘ σ) x = Lagr.eval n v r x := by
  rw [eval_eq_interpolate n _ _ (hv.comp hσ.injOn hσ.mapsTo), eval_eq_interpolate n v r hv,
    interpolate_perm n v r hv σ hσ]

/-- the executable distinctness test decides `InjOn` -/
theorem distinct_injOn (n : ℕ) (v : ℕ → F) (h : distinct n v = true) :
    Set.InjOn v (range n : Finset ℕ) := by
  unfold distinct at h
  rw [allTo_iff] at h
  have key : ∀ i j, j < i → i < n → v j ≠ v i := by
    intro i j hji hin
    have := (allTo_iff i _).mp (h i hin) j hji
    simpa using this
  intro i hi j hj hij
  simp only [coe_range, Set.mem_Iio] at hi hj
  by_contra hne
  rcases Nat.lt_or_gt_of_ne hne with hlt | hgt
  · exact key j i hlt hj hij
  · exact key i j hgt hi hij.symm

theorem sumTo_congr (n : ℕ) (f g : ℕ → F) (h : ∀ i, i < n → f i = g i) : sumTo n f = sumTo n g := by
  induction n with
  | zero => rfl
  | succ n ih =>
    simp only [sumTo]
    rw [ih (fun i hi => h i (Nat.lt_succ_of_lt hi)), h n (Nat.lt_succ_self n)]

/-- the model only looks at the values with index `< n` -/
theorem eval_congr (n : ℕ) (v r r' : ℕ → F) (h : ∀ i, i < n → r i = r' i) (x : F) :
    Lagr.eval n v r x = Lagr.eval n v r' x := by
  unfold Lagr.eval
  cases hf : findNode n v x with
  | some j => exact h j (findNode_some n v x j hf).1
  | none =>
    simp only
    unfold bary
    rw [sumTo_congr n _ _ (fun j hj => by rw [h j hj])]

end Generic

/-! ### the rational model, cast to the reals -/

theorem cast_sumTo (n : ℕ) (f : ℕ → ℚ) : ((sumTo n f : ℚ) : ℝ) = sumTo n (fun i => (f i : ℝ)) := by
  induction n with
  | zero => simp [sumTo]
  | succ n ih => simp [sumTo, ih]

theorem cast_prodTo (n : ℕ) (f : ℕ → ℚ) : ((prodTo n f : ℚ) : ℝ) = prodTo n (fun i => (f i : ℝ)) := by
  induction n with
  | zero => simp [prodTo]
  | succ n ih => simp [prodTo, ih]

theorem cast_weight (n : ℕ) (v : ℕ → ℚ) (i : ℕ) :
    ((weight n v i : ℚ) : ℝ) = weight n (fun i => (v i : ℝ)) i := by
  unfold weight
  rw [Rat.cast_div, Rat.cast_one, cast_prodTo]
  congr 2
  funext j
  split_ifs <;> simp

theorem cast_bary (n : ℕ) (v r : ℕ → ℚ) (x : ℚ) :
    ((bary n v r x : ℚ) : ℝ) = bary n (fun i => (v i : ℝ)) (fun i => (r i : ℝ)) (x : ℝ) := by
  unfold bary
  rw [Rat.cast_mul, cast_prodTo, cast_sumTo]
  congr 2
  · funext j; simp
  · funext j; simp [cast_weight]

theorem cast_findNode (n : ℕ) (v : ℕ → ℚ) (x : ℚ) :
    findNode n (fun i => (v i : ℝ)) (x : ℝ) = findNode n v x := by
  induction n with
  | zero => rfl
  | succ n ih =>
    simp only [findNode, ih, Rat.cast_inj]

theorem cast_eval (n : ℕ) (v r : ℕ → ℚ) (x : ℚ) :
    ((Lagr.eval n v r x : ℚ) : ℝ) = Lagr.eval n (fun i => (v i : ℝ)) (fun i => (r i : ℝ)) (x : ℝ) := by
  unfold Lagr.eval
  rw [cast_findNode]
  cases findNode n v x with
  | some j => rfl
  | none => exact cast_bary n v r x

theorem cast_injOn (n : ℕ) (v : ℕ → ℚ) (hv : Set.InjOn v (range n : Finset ℕ)) :
    Set.InjOn (fun i => (v i : ℝ)) (range n : Finset ℕ) := by
  intro i hi j hj hij
  exact hv hi hj (Rat.cast_injective hij)

/-- the rational model, read in `ℝ`, evaluates the real interpolant of the cast data -/
theorem cast_eval_eq_interpolate (n : ℕ) (v r : ℕ → ℚ) (hv : Set.InjOn v (range n : Finset ℕ)) (x : ℚ) :
    ((Lagr.eval n v r x : ℚ) : ℝ)
      = Polynomial.eval (x : ℝ)
          (Lagrange.interpolate (range n) (fun i => (v i : ℝ)) (fun i => (r i : ℝ))) := by
  rw [cast_eval, eval_eq_interpolate n _ _ (cast_injOn n v hv)]

end Opda.Lagr
