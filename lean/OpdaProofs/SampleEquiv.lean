import OpdaModel.Sample
import OpdaProofs.RealInst
import OpdaProofs.QuadDual
import OpdaProofs.QuadEquiv
import OpdaProofs.Sample
import Mathlib.Tactic

/-!
C09, the `sample` clause: the model of `QuadraticDistribution.sample` / `NoisyQuadraticDistribution.sample`
(`OpdaModel/Sample.lean`: functions of the generator's primitives, a uniform `u` and a standard normal `z`) read at `ℝ`.

* **location–scale** ("same seed" = the same primitives): `sample_D(u) = a + (b−a)·sample_{D₀}(u)` and
  `sample_D(u, z) = a + (b−a)·sample_{D₀}(u, z)` with `o = s·(b−a)`, for **every** real `u`, `z` (no domain condition);
* **reflection**: the mirrored instance `D' = (−b, −a, c, ¬convex)` (same `o`) fed with the complementary uniform `1 − u`
  and the negated normal `−z` returns minus the draw, for every real `u`, `z`.  With the *same* primitives `(u, z)` the two
  draws are **not** negatives of each other (`quad_sample_reflect_same_seed_fails`); the property's reflection clause for
  `sample` is therefore one about laws (`1 − U` is uniform, `−Z` standard normal), not about equal seeds.
-/
namespace Opda.Sample
open Opda Opda.Num Opda.Quad

/-- `clip(1 − u, 0, 1) = 1 − clip(u, 0, 1)`, every real `u` -/
theorem clip_one_sub (u : ℝ) : clip (1 - u) (0:ℝ) 1 = 1 - clip u 0 1 := by
  unfold clip
  by_cases h1 : u < 0
  · have h2 : ¬ (1 - u < 0) := by push Not; linarith
    have h3 : 1 < 1 - u := by linarith
    simp [h1, h2, h3]
  · by_cases h2 : 1 < u
    · have h3 : 1 - u < 0 := by linarith
      simp [h1, h2, h3]
    · have h3 : ¬ (1 - u < 0) := by push Not; linarith [not_lt.mp h2]
      have h4 : ¬ (1 < 1 - u) := by push Not; linarith [not_lt.mp h1]
      simp [h1, h2, h3, h4]

/-! ### location–scale -/

/-- noiseless class, the same uniform `u`: `sample_D(u) = a + (b−a)·sample_{D₀}(u)`, `D₀ = (0, 1, c, convex)` -/
theorem quadSample_affine (d : Params ℝ) (u : ℝ) :
    quadSample d u = d.a + (d.b - d.a) * quadSample (std0 d) u := Quad.ppf_affine d u

/-- the quadratic part of a noisy draw (no clipping of `u`) is the affine image of that of `D₀` -/
theorem noisyQuadPart_affine (d : Params ℝ) (u : ℝ) :
    noisyQuadPart d u = d.a + (d.b - d.a) * noisyQuadPart (std0 d) u := by
  unfold noisyQuadPart std0
  cases d.convex <;> simp <;> ring

/-- noisy class, the same uniform `u` and the same standard normal `z`, `o = s·(b−a)`:
`sample_D(u, z) = a + (b−a)·sample_{D₀}(u, z)`, `D₀ = (0, 1, c, s, convex)` -/
theorem noisySample_affine (d : Params ℝ) (s u z : ℝ) :
    noisySample d (s * (d.b - d.a)) u z = d.a + (d.b - d.a) * noisySample (std0 d) s u z := by
  rw [noisySample_eq, noisySample_eq, noisyQuadPart_affine]; ring

/-- the same written with `s = o/(b−a)` (needs `a ≠ b`) -/
theorem noisySample_affine_div (d : Params ℝ) (hab : d.a < d.b) (o u z : ℝ) :
    noisySample d o u z = d.a + (d.b - d.a) * noisySample (std0 d) (o / (d.b - d.a)) u z := by
  have hw : d.b - d.a ≠ 0 := (sub_pos.mpr hab).ne'
  have h := noisySample_affine d (o / (d.b - d.a)) u z
  rwa [div_mul_cancel₀ o hw] at h

/-! ### reflection -/

/-- noiseless class: the mirrored instance at the complementary uniform gives minus the draw, every real `u`
(`ppf` clips `u` to `[0,1]`, and `clip(1−u) = 1 − clip(u)`) -/
theorem quadSample_reflect (d : Params ℝ) (u : ℝ) :
    quadSample d u = - quadSample (reflect d) (1 - u) := by
  unfold quadSample ppf reflect
  simp only [num_n, Nat.cast_zero, Nat.cast_one, clip_one_sub]
  cases hcv : d.convex <;> simp <;> ring

/-- the quadratic part of a noisy draw: the same, every real `u` (`1 − (1 − u) = u`) -/
theorem noisyQuadPart_reflect (d : Params ℝ) (u : ℝ) :
    noisyQuadPart d u = - noisyQuadPart (reflect d) (1 - u) := by
  unfold noisyQuadPart reflect
  cases hcv : d.convex <;> simp <;> ring

/-- noisy class: the mirrored instance (same `o`) at the complementary uniform and the negated normal gives minus the
draw, every real `u`, `z` -/
theorem noisySample_reflect (d : Params ℝ) (o u z : ℝ) :
    noisySample d o u z = - noisySample (reflect d) o (1 - u) (-z) := by
  rw [noisySample_eq, noisySample_eq, noisyQuadPart_reflect]; ring

/-- **what is not true**: with the *same* uniform the mirrored instance does not return minus the draw —
`Q(0,1,c=1,convex)` at `u = 1/4` draws `(1/4)² = 1/16`, its mirror image `Q(−1,0,1,concave)` draws `−(3/4)² = −9/16 ≠ −1/16` -/
theorem quadSample_reflect_same_seed_fails :
    quadSample ({ a := 0, b := 1, c := 1, convex := true } : Params ℝ) (1/4)
      ≠ - quadSample (reflect ({ a := 0, b := 1, c := 1, convex := true } : Params ℝ)) (1/4) := by
  have hc : clip ((1:ℝ)/4) (0:ℝ) ((1:ℕ):ℝ) = 1/4 := by
    unfold clip; rw [if_neg (by norm_num), if_neg (by norm_num)]
  have h2 : ((2:ℕ):ℝ) / ((1:ℕ):ℝ) = ((2:ℕ):ℝ) := by norm_num
  have hl : quadSample ({ a := 0, b := 1, c := 1, convex := true } : Params ℝ) (1/4) = 1/16 := by
    unfold quadSample ppf
    simp only [num_n, Nat.cast_zero, hc, num_pow, if_true]
    rw [h2, Real.rpow_natCast]; norm_num
  have hr : quadSample (reflect ({ a := 0, b := 1, c := 1, convex := true } : Params ℝ)) (1/4) = -(9/16) := by
    unfold quadSample ppf reflect
    simp only [num_n, Nat.cast_zero, hc, num_pow, Bool.not_true, Bool.false_eq_true, if_false]
    rw [h2, Real.rpow_natCast]; norm_num
  rw [hl, hr]; norm_num

end Opda.Sample
