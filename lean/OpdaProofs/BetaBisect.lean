import Mathlib.Algebra.Order.Field.Basic
import Mathlib.Tactic

/-!
# C15-T3: bracket invariants of the two bisection loops of the highest-density helpers

Both loops of `beta_highest_density_interval` (on the lower end point) and
`beta_highest_density_coverage` (on the partner end point) have the shape

    mid = (lo + hi) / 2 ;  lo = where(moveLo(mid), mid, lo) ;  hi = where(moveHi(mid), mid, hi)

with `moveLo ∨ moveHi` at every midpoint (`x_pdf <= y_pdf` / `x_pdf >= y_pdf`, resp. `y_is_lo` / `~y_is_lo`).
Whatever the decisions are (they come from floating-point densities), the bracket stays nested and
its width is at most `(hi − lo) / 2^k` after `k` steps; with `n_iter = ⌈log₂(max(2, width/atol))⌉`
steps it is therefore at most `atol`.
-/
namespace Opda.BetaBisect
variable {α : Type} [Field α] [LinearOrder α] [IsStrictOrderedRing α]

def run (moveLo moveHi : α → Bool) : Nat → α × α → α × α
  | 0, br => br
  | k+1, (lo, hi) =>
    let m := (lo + hi) / 2
    run moveLo moveHi k (if moveLo m then m else lo, if moveHi m then m else hi)

theorem run_bracket (moveLo moveHi : α → Bool) (hcover : ∀ m, moveLo m = true ∨ moveHi m = true)
    (k : Nat) (lo hi : α) (h : lo ≤ hi) :
    lo ≤ (run moveLo moveHi k (lo, hi)).1
      ∧ (run moveLo moveHi k (lo, hi)).1 ≤ (run moveLo moveHi k (lo, hi)).2
      ∧ (run moveLo moveHi k (lo, hi)).2 ≤ hi
      ∧ ((run moveLo moveHi k (lo, hi)).2 - (run moveLo moveHi k (lo, hi)).1) * 2 ^ k ≤ hi - lo := by
  induction k generalizing lo hi with
  | zero => simp [run, h]
  | succ k ih =>
    simp only [run]
    set m := (lo + hi) / 2 with hm
    have h1 : lo ≤ m := by rw [hm]; linarith
    have h2 : m ≤ hi := by rw [hm]; linarith
    have hw : hi - m = (hi - lo) / 2 := by rw [hm]; ring
    have hw' : m - lo = (hi - lo) / 2 := by rw [hm]; ring
    have fin : ∀ r w : α, r * 2 ^ k ≤ w → w ≤ (hi - lo) / 2 → r * 2 ^ (k + 1) ≤ hi - lo := by
      intro r w e1 e2
      have : r * 2 ^ (k + 1) = (r * 2 ^ k) * 2 := by rw [pow_succ]; ring
      rw [this]; linarith
    have hzero : m - m ≤ (hi - lo) / 2 := by rw [sub_self]; linarith
    by_cases hl : moveLo m = true
    · by_cases hr : moveHi m = true
      · simp only [hl, hr, if_true]
        obtain ⟨a, b, c, d⟩ := ih m m le_rfl
        exact ⟨h1.trans a, b, c.trans h2, fin _ _ d hzero⟩
      · simp only [hl, hr, if_true]
        obtain ⟨a, b, c, d⟩ := ih m hi h2
        exact ⟨h1.trans a, b, c, fin _ _ d hw.le⟩
    · have hr : moveHi m = true := (hcover m).resolve_left hl
      simp only [hl, hr, if_true]
      obtain ⟨a, b, c, d⟩ := ih lo m h1
      exact ⟨a, b, c.trans h2, fin _ _ d hw'.le⟩

/-- enough iterations (`width ≤ atol·2^k`) bring the bracket below `atol` -/
theorem run_width (moveLo moveHi : α → Bool) (hcover : ∀ m, moveLo m = true ∨ moveHi m = true)
    (k : Nat) (lo hi atol : α) (h : lo ≤ hi) (hk : hi - lo ≤ atol * 2 ^ k) :
    (run moveLo moveHi k (lo, hi)).2 - (run moveLo moveHi k (lo, hi)).1 ≤ atol := by
  obtain ⟨_, _, _, d⟩ := run_bracket moveLo moveHi hcover k lo hi h
  have hpow : (0 : α) < 2 ^ k := by positivity
  exact le_of_mul_le_mul_right (d.trans hk) hpow

#print axioms run_bracket
end Opda.BetaBisect
