import OpdaModel.NoisyFloat
import OpdaProofs.NoisyBisect
import OpdaProofs.NoisyLogic
import OpdaProofs.NoisyReal
import OpdaProofs.NoisyConv
import OpdaProofs.NoisyAccuracy
import OpdaProofs.NoisyTable
import Mathlib.MeasureTheory.Integral.IntervalIntegral.Basic
import Mathlib.Analysis.SpecialFunctions.Pow.Real
import Mathlib.Analysis.Complex.ExponentialBounds
import Mathlib.Analysis.Calculus.Deriv.MeanValue
import Mathlib.Analysis.Real.Pi.Bounds
import Mathlib.Tactic

/-!
C07, accuracy clause, **odd `c`** (series regime, exact real arithmetic): bisection on a cdf that is only *close to* a
monotone Lipschitz function.

For odd `c` the model's cdf `F` is a piecewise-polynomial approximation, within `ε = 1.02·max_error` of the Spec `G`
(`cdfSpec`, the mixture form of the law of the sum; C06 ∘ C19) at every real `y`, and is not itself provably monotone.  The
bisection only ever compares `F mid` with `q`, so it keeps `F lo_j < q` (hence `G lo_j < q + ε`) and `q ≤ F hi_j` (hence
`q − ε ≤ G hi_j`) for every end point that is not the initial one; `G` being monotone and `L`-Lipschitz, the returned midpoint
`y` has `|G y − q| ≤ ε + L·w + tail`, `w` the final bracket width, and so `|F y − q| ≤ 2ε + L·w + tail`.

* `run_accuracy_robust_spec`, `run_accuracy_robust` : the generic statement for `Bisect.run` (any ordered field);
* `ppfBisect_accuracy_robust`                      : the same for the model's `ppfBisect` (any `Fns` record, any `G`);
* `mixture_mono_real`, `mixture_lipschitz_real`, `mixture_le_Phi_real`, `Phi_le_mixture_real` : the mixture
  `H(t) = ∫₀¹ Φ((t−x)/s) d(x^p)` for **real** `p` (`p > 0`: monotone, tails; `p ≥ 1`: `p`-Lipschitz);
* `cdfSpec_mono`, `cdfSpec_lipschitz`, `cdfSpec_tail_lo`, `cdfSpec_tail_hi` : the same for the Spec of both shapes;
* `Phi_neg_six_le_sharp` : `Φ(−6) ≤ e^{−18} ≤ 2e-8`;
* `cdf_ppfBisect_within_eps`, `cdf_ppf_within_eps` : any real instance whose series-regime cdf is within `ε` of the Spec, `c ≥ 2`;
* `cdf_ppf_odd_shipped` : odd `c ≥ 3` with a row in the shipped table;
* `cdf_ppf_odd_tolerance` : the `(c, scale)` ranges in which the bound is `≤ 1e-5`.
-/
namespace Opda.Noisy

/-! ### robust bisection, generic -/

section field
variable {α : Type} [Field α] [LinearOrder α] [IsStrictOrderedRing α]

/-- **robust bisection, the Spec side**: `g` monotone and `L`-Lipschitz on `[lo, hi]`, `f` arbitrary with `|f − g| ≤ ε` there.
The midpoint `y` of the bracket reached by `k` steps of `Bisect.run` **on `f`** satisfies
`|g y − q| ≤ ε + L·(hi−lo)/2^k + max 0 (max (g lo − q) (q − g hi))`. -/
theorem run_accuracy_robust_spec (f g : α → α) (L ε q : α) (k : Nat) (lo hi : α) (hlh : lo ≤ hi)
    (hclose : ∀ x, lo ≤ x → x ≤ hi → |f x - g x| ≤ ε)
    (hmono : ∀ x y, lo ≤ x → x ≤ y → y ≤ hi → g x ≤ g y)
    (hlip : ∀ x y, lo ≤ x → x ≤ y → y ≤ hi → g y - g x ≤ L * (y - x)) :
    let br := Bisect.run f (fun lo hi => (lo + hi) / 2) q k (lo, hi)
    |g ((br.1 + br.2) / 2) - q| ≤ ε + L * ((hi - lo) / 2 ^ k) + max 0 (max (g lo - q) (q - g hi)) := by
  intro br
  have hin := Bisect.run_inside f (fun lo hi => (lo + hi) / 2) midOK_half q k lo hi hlh
  have hw := run_width f q k lo hi
  have hinv := run_invariant f q k lo hi lo hi (Or.inl rfl) (Or.inl rfl)
  obtain ⟨h1, h2, h3⟩ := hin
  obtain ⟨m1, m2⟩ := midOK_half br.1 br.2 h2
  change br.1 ≤ (br.1 + br.2) / 2 at m1
  change (br.1 + br.2) / 2 ≤ br.2 at m2
  have hε0 : 0 ≤ ε := (abs_nonneg _).trans (hclose lo le_rfl hlh)
  have hy1 : g br.1 ≤ g ((br.1 + br.2) / 2) := hmono _ _ h1 m1 (m2.trans h3)
  have hy2 : g ((br.1 + br.2) / 2) ≤ g br.2 := hmono _ _ (h1.trans m1) m2 h3
  have hl := hlip br.1 br.2 h1 h2 h3
  change br.2 - br.1 = (hi - lo) / 2 ^ k at hw
  rw [hw] at hl
  have c1 := abs_le.mp (hclose br.1 h1 (h2.trans h3))
  have c2 := abs_le.mp (hclose br.2 (h1.trans h2) h3)
  have hE0 : (0:α) ≤ max 0 (max (g lo - q) (q - g hi)) := le_max_left _ _
  have hE1 : g lo - q ≤ max 0 (max (g lo - q) (q - g hi)) := (le_max_left _ _).trans (le_max_right _ _)
  have hE2 : q - g hi ≤ max 0 (max (g lo - q) (q - g hi)) := (le_max_right _ _).trans (le_max_right _ _)
  rw [abs_le]
  constructor
  · rcases hinv.2 with e | e
    · change br.2 = hi at e
      rw [e] at hy2 hl; linarith
    · change q ≤ f br.2 at e
      linarith
  · rcases hinv.1 with e | e
    · change br.1 = lo at e
      rw [e] at hy1 hl; linarith
    · change f br.1 < q at e
      linarith

/-- **robust bisection**: under the same hypotheses `|f y − q| ≤ 2ε + L·(hi−lo)/2^k + max 0 (max (g lo − q) (q − g hi))`
for the returned midpoint `y` — the residual of the function the bisection actually ran on. -/
theorem run_accuracy_robust (f g : α → α) (L ε q : α) (k : Nat) (lo hi : α) (hlh : lo ≤ hi)
    (hclose : ∀ x, lo ≤ x → x ≤ hi → |f x - g x| ≤ ε)
    (hmono : ∀ x y, lo ≤ x → x ≤ y → y ≤ hi → g x ≤ g y)
    (hlip : ∀ x y, lo ≤ x → x ≤ y → y ≤ hi → g y - g x ≤ L * (y - x)) :
    let br := Bisect.run f (fun lo hi => (lo + hi) / 2) q k (lo, hi)
    |f ((br.1 + br.2) / 2) - q| ≤ 2 * ε + L * ((hi - lo) / 2 ^ k) + max 0 (max (g lo - q) (q - g hi)) := by
  intro br
  have hs := run_accuracy_robust_spec f g L ε q k lo hi hlh hclose hmono hlip
  have hin := Bisect.run_inside f (fun lo hi => (lo + hi) / 2) midOK_half q k lo hi hlh
  obtain ⟨h1, h2, h3⟩ := hin
  obtain ⟨m1, m2⟩ := midOK_half br.1 br.2 h2
  change br.1 ≤ (br.1 + br.2) / 2 at m1
  change (br.1 + br.2) / 2 ≤ br.2 at m2
  have c := abs_le.mp (hclose ((br.1 + br.2) / 2) (h1.trans m1) (m2.trans h3))
  change |g ((br.1 + br.2) / 2) - q| ≤ _ at hs
  have hs' := abs_le.mp hs
  rw [abs_le]
  constructor <;> linarith [hs'.1, hs'.2, c.1, c.2]

variable {F : Fns α}

/-- **robust accuracy of the model's `ppfBisect`** (any ordered field, any record `F`, any comparison function `G`): if the
model's cdf is within `ε` of a `G` that is monotone and `L`-Lipschitz on the bracket `[a−6o, b+6o]`, then
`|cdf(ppfBisect q) − q| ≤ 2ε + L·(b−a+12o)/2^30 + (how far `q` lies outside `[G(a−6o), G(b+6o)]`)`.  No monotonicity of the
model's cdf itself is assumed. -/
theorem ppfBisect_accuracy_robust (hF : Lawful F) (d : Params α) (hab : d.a ≤ d.b) (ho : 0 ≤ d.o) (G : α → α) (L ε q : α)
    (hclose : ∀ x, d.a - 6 * d.o ≤ x → x ≤ d.b + 6 * d.o → |cdf F d x - G x| ≤ ε)
    (hmono : ∀ x y, d.a - 6 * d.o ≤ x → x ≤ y → y ≤ d.b + 6 * d.o → G x ≤ G y)
    (hlip : ∀ x y, d.a - 6 * d.o ≤ x → x ≤ y → y ≤ d.b + 6 * d.o → G y - G x ≤ L * (y - x)) :
    |cdf F d (ppfBisect F d q) - q| ≤ 2 * ε + L * ((d.b - d.a + 12 * d.o) / 2 ^ 30)
      + max 0 (max (G (d.a - 6 * d.o) - q) (q - G (d.b + 6 * d.o))) := by
  have hb : d.a - 6 * d.o ≤ d.b + 6 * d.o := by nlinarith
  have := run_accuracy_robust (cdf F d) G L ε q 30 _ _ hb hclose hmono hlip
  rw [ppfBisect_eq hF]
  have e : d.b + 6 * d.o - (d.a - 6 * d.o) = d.b - d.a + 12 * d.o := by ring
  rw [e] at this
  exact this

end field

open MeasureTheory ProbabilityTheory intervalIntegral Real Set

/-! ### a sharper numerical bound for the Gaussian tail -/

theorem exp_neg_18_le_sharp : Real.exp (-18) ≤ 1 / 50000000 := by
  have h2 : (27 / 10 : ℝ) ≤ Real.exp 1 := by
    have := Real.exp_one_gt_d9; linarith
  have h18 : (27 / 10 : ℝ) ^ 18 ≤ Real.exp 18 := by
    have : Real.exp 18 = Real.exp 1 ^ 18 := by
      rw [← Real.exp_nat_mul]; norm_num
    rw [this]
    exact pow_le_pow_left₀ (by norm_num) h2 18
  have h5 : (50000000 : ℝ) ≤ (27 / 10 : ℝ) ^ 18 := by norm_num
  rw [Real.exp_neg, ← one_div]
  apply one_div_le_one_div_of_le (by norm_num)
  linarith

/-- `Φ(−6) ≤ e^{−18} ≤ 2e-8` (the true value is `9.9e-10`) -/
theorem Phi_neg_six_le_sharp : Phi (-6) ≤ 1 / 50000000 := by
  have := Phi_neg_le_exp 6 (by norm_num)
  have e : (-(6:ℝ) ^ 2 / 2) = -18 := by norm_num
  rw [e] at this
  exact this.trans exp_neg_18_le_sharp

/-! ### the mixture for real `p` -/

section mixtureReal
variable (p s : ℝ)

theorem weightR_nonneg (hp : 0 < p) (x : ℝ) (hx : 0 ≤ x) : 0 ≤ p * x ^ (p - 1) :=
  mul_nonneg hp.le (Real.rpow_nonneg hx _)

theorem weightR_le (hp : 1 ≤ p) (x : ℝ) (hx0 : 0 ≤ x) (hx1 : x ≤ 1) : p * x ^ (p - 1) ≤ p := by
  have : x ^ (p - 1) ≤ 1 := Real.rpow_le_one hx0 hx1 (by linarith)
  have hp0 : (0:ℝ) ≤ p := by linarith
  nlinarith

theorem weightR_intervalIntegrable (hp : 0 < p) :
    IntervalIntegrable (fun x : ℝ => p * x ^ (p - 1)) volume 0 1 :=
  (intervalIntegral.intervalIntegrable_rpow' (by linarith)).const_mul _

theorem weightR_integral (hp : 0 < p) : ∫ x in (0:ℝ)..1, p * x ^ (p - 1) = 1 := by
  rw [intervalIntegral.integral_const_mul, integral_rpow (Or.inl (by linarith))]
  have : p - 1 + 1 = p := by ring
  rw [this, Real.one_rpow, Real.zero_rpow hp.ne']
  field_simp
  ring

theorem mixtureR_integrand_integrable (hp : 0 < p) (t : ℝ) :
    IntervalIntegrable (fun x : ℝ => Phi ((t - x) / s) * (p * x ^ (p - 1))) volume 0 1 :=
  (weightR_intervalIntegrable p hp).continuousOn_mul (continuous_Phi_comp s t).continuousOn

/-- the mixture distribution function is non-decreasing, every real `p > 0` (so every `c ≥ 1`) -/
theorem mixture_mono_real (hp : 0 < p) (hs : 0 < s) (t t' : ℝ) (h : t ≤ t') : mixture p s t ≤ mixture p s t' := by
  unfold mixture
  apply intervalIntegral.integral_mono_on zero_le_one (mixtureR_integrand_integrable p s hp t)
    (mixtureR_integrand_integrable p s hp t')
  intro x hx
  apply mul_le_mul_of_nonneg_right _ (weightR_nonneg p hp x hx.1)
  apply Phi_monotone
  apply div_le_div_of_nonneg_right _ hs.le
  linarith

/-- **Lipschitz constant `p`** of the mixture distribution function for real `p ≥ 1` (`c ≥ 2`): the density `p x^{p−1}` of `X`
is `≤ p` on `[0,1]`.  (For `p = ½`, `c = 1`, that density is unbounded and the statement fails.) -/
theorem mixture_lipschitz_real (hp : 1 ≤ p) (hs : 0 < s) (t t' : ℝ) (h : t ≤ t') :
    mixture p s t' - mixture p s t ≤ p * (t' - t) := by
  have hp0 : 0 < p := by linarith
  unfold mixture
  rw [← intervalIntegral.integral_sub (mixtureR_integrand_integrable p s hp0 t')
    (mixtureR_integrand_integrable p s hp0 t)]
  have hd : Continuous fun x : ℝ => Phi ((t' - x) / s) - Phi ((t - x) / s) :=
    (continuous_Phi_comp s t').sub (continuous_Phi_comp s t)
  have hle : ∫ x in (0:ℝ)..1, (Phi ((t' - x) / s) * (p * x ^ (p - 1))
        - Phi ((t - x) / s) * (p * x ^ (p - 1)))
      ≤ ∫ x in (0:ℝ)..1, p * (Phi ((t' - x) / s) - Phi ((t - x) / s)) := by
    apply intervalIntegral.integral_mono_on zero_le_one
      ((mixtureR_integrand_integrable p s hp0 t').sub (mixtureR_integrand_integrable p s hp0 t))
      ((hd.const_mul _).intervalIntegrable _ _)
    intro x hx
    have hg : 0 ≤ Phi ((t' - x) / s) - Phi ((t - x) / s) := by
      apply sub_nonneg.mpr
      apply Phi_monotone
      apply div_le_div_of_nonneg_right _ hs.le
      linarith
    have hw := weightR_le p hp x hx.1 hx.2
    nlinarith
  refine hle.trans ?_
  rw [intervalIntegral.integral_const_mul]
  exact mul_le_mul_of_nonneg_left (uniform_smoothed_lipschitz s t t' h) hp0.le

/-- lower tail: for `t ≤ −6s` the mixture is at most `Φ(−6)` (every real `p > 0`) -/
theorem mixture_le_Phi_real (hp : 0 < p) (hs : 0 < s) (t : ℝ) (ht : t ≤ -6 * s) : mixture p s t ≤ Phi (-6) := by
  have hP : IntervalIntegrable (fun x : ℝ => Phi (-6) * (p * x ^ (p - 1))) volume 0 1 :=
    (weightR_intervalIntegrable p hp).const_mul _
  have : mixture p s t ≤ ∫ x in (0:ℝ)..1, Phi (-6) * (p * x ^ (p - 1)) := by
    unfold mixture
    apply intervalIntegral.integral_mono_on zero_le_one (mixtureR_integrand_integrable p s hp t) hP
    intro x hx
    apply mul_le_mul_of_nonneg_right _ (weightR_nonneg p hp x hx.1)
    apply Phi_monotone
    rw [div_le_iff₀ hs]
    linarith [hx.1]
  rw [intervalIntegral.integral_const_mul, weightR_integral p hp, mul_one] at this
  exact this

/-- upper tail: for `t ≥ 1 + 6s` the mixture is at least `1 − Φ(−6)` (every real `p > 0`) -/
theorem Phi_le_mixture_real (hp : 0 < p) (hs : 0 < s) (t : ℝ) (ht : 1 + 6 * s ≤ t) : 1 - Phi (-6) ≤ mixture p s t := by
  have hP : IntervalIntegrable (fun x : ℝ => Phi 6 * (p * x ^ (p - 1))) volume 0 1 :=
    (weightR_intervalIntegrable p hp).const_mul _
  have : ∫ x in (0:ℝ)..1, Phi 6 * (p * x ^ (p - 1)) ≤ mixture p s t := by
    unfold mixture
    apply intervalIntegral.integral_mono_on zero_le_one hP (mixtureR_integrand_integrable p s hp t)
    intro x hx
    apply mul_le_mul_of_nonneg_right _ (weightR_nonneg p hp x hx.1)
    apply Phi_monotone
    rw [le_div_iff₀ hs]
    linarith [hx.2]
  rw [intervalIntegral.integral_const_mul, weightR_integral p hp, mul_one] at this
  have e : Phi 6 = 1 - Phi (-6) := by rw [Phi_neg]; ring
  rw [← e]; exact this

theorem phiStd_le_two_fifths (x : ℝ) : phiStd x ≤ 2 / 5 := by
  rw [phiStd_eq]
  have h : Real.exp (-x ^ 2 / 2) ≤ 1 := Real.exp_le_one_iff.mpr (by nlinarith [sq_nonneg x])
  have hsq : (5 / 2 : ℝ) ≤ √(2 * π) := by
    apply Real.le_sqrt_of_sq_le
    have := Real.pi_gt_d2
    norm_num at this ⊢
    linarith
  have hK : (√(2 * π))⁻¹ ≤ 2 / 5 := by
    rw [inv_le_comm₀ (by positivity) (by norm_num)]
    have e : ((2:ℝ) / 5)⁻¹ = 5 / 2 := by norm_num
    rw [e]; exact hsq
  have h0 : 0 ≤ (√(2 * π))⁻¹ := by positivity
  nlinarith

/-- `Φ` is `2/5`-Lipschitz (its derivative is the standard normal density, `≤ 1/√(2π) < 0.4`) -/
theorem Phi_lipschitz (u v : ℝ) (h : u ≤ v) : Phi v - Phi u ≤ 2 / 5 * (v - u) :=
  image_sub_le_mul_sub_of_deriv_le (fun x => (hasDerivAt_Phi x).differentiableAt)
    (fun x => by rw [(hasDerivAt_Phi x).deriv]; exact phiStd_le_two_fifths x) h

/-- **a Lipschitz constant from the noise alone**, every real `p > 0` (so also `c = 1`, where the density of `X` is unbounded):
`H(t') − H(t) ≤ (0.4/s)(t' − t)` — `Φ(·/s)` is `0.4/s`-Lipschitz and the weight has total mass 1. -/
theorem mixture_lipschitz_noise (hp : 0 < p) (hs : 0 < s) (t t' : ℝ) (h : t ≤ t') :
    mixture p s t' - mixture p s t ≤ 2 / 5 / s * (t' - t) := by
  unfold mixture
  rw [← intervalIntegral.integral_sub (mixtureR_integrand_integrable p s hp t')
    (mixtureR_integrand_integrable p s hp t)]
  have hle : ∫ x in (0:ℝ)..1, (Phi ((t' - x) / s) * (p * x ^ (p - 1)) - Phi ((t - x) / s) * (p * x ^ (p - 1)))
      ≤ ∫ x in (0:ℝ)..1, (2 / 5 / s * (t' - t)) * (p * x ^ (p - 1)) := by
    apply intervalIntegral.integral_mono_on zero_le_one
      ((mixtureR_integrand_integrable p s hp t').sub (mixtureR_integrand_integrable p s hp t))
      ((weightR_intervalIntegrable p hp).const_mul _)
    intro x hx
    have hl := Phi_lipschitz ((t - x) / s) ((t' - x) / s)
      (by apply div_le_div_of_nonneg_right _ hs.le; linarith)
    have e : (2 / 5 : ℝ) * ((t' - x) / s - (t - x) / s) = 2 / 5 / s * (t' - t) := by
      field_simp; ring
    rw [e] at hl
    have hw := weightR_nonneg p hp x hx.1
    nlinarith
  refine hle.trans ?_
  rw [intervalIntegral.integral_const_mul, weightR_integral p hp, mul_one]

end mixtureReal

/-! ### the Spec of both shapes (`cdfSpec`): monotone, Lipschitz, tails -/

section spec
variable (d : Params ℝ)

/-- the Spec `y ↦ P[Z + E ≤ y]` (mixture form) is non-decreasing: every `a < b`, `o > 0`, `c ≥ 1`, both shapes -/
theorem cdfSpec_mono (hw : 0 < d.b - d.a) (ho : 0 < d.o) (hc : 1 ≤ d.c) (x y : ℝ) (hxy : x ≤ y) :
    cdfSpec d x ≤ cdfSpec d y := by
  have hs : 0 < d.o / (d.b - d.a) := div_pos ho hw
  have hp : 0 < (d.c : ℝ) / 2 := by
    have : (1:ℝ) ≤ d.c := by exact_mod_cast hc
    linarith
  unfold cdfSpec
  cases hcv : d.convex with
  | true =>
    simp only [if_true]
    apply mixture_mono_real _ _ hp hs
    apply div_le_div_of_nonneg_right _ hw.le
    linarith
  | false =>
    simp only [Bool.false_eq_true, if_false]
    have : mixture ((d.c : ℝ) / 2) (d.o / (d.b - d.a)) ((d.b - y) / (d.b - d.a))
        ≤ mixture ((d.c : ℝ) / 2) (d.o / (d.b - d.a)) ((d.b - x) / (d.b - d.a)) := by
      apply mixture_mono_real _ _ hp hs
      apply div_le_div_of_nonneg_right _ hw.le
      linarith
    linarith

/-- the Spec is `(c/2)/(b−a)`-Lipschitz for `c ≥ 2` (the sup of the noise-free density; convolution keeps it) -/
theorem cdfSpec_lipschitz (hw : 0 < d.b - d.a) (ho : 0 < d.o) (hc : 2 ≤ d.c) (x y : ℝ) (hxy : x ≤ y) :
    cdfSpec d y - cdfSpec d x ≤ ((d.c : ℝ) / 2) / (d.b - d.a) * (y - x) := by
  have hs : 0 < d.o / (d.b - d.a) := div_pos ho hw
  have hp : 1 ≤ (d.c : ℝ) / 2 := by
    have : (2:ℝ) ≤ d.c := by exact_mod_cast hc
    linarith
  unfold cdfSpec
  cases hcv : d.convex with
  | true =>
    simp only [if_true]
    have hl := mixture_lipschitz_real _ _ hp hs ((x - d.a) / (d.b - d.a)) ((y - d.a) / (d.b - d.a))
      (by apply div_le_div_of_nonneg_right _ hw.le; linarith)
    have e : ((d.c : ℝ) / 2) * ((y - d.a) / (d.b - d.a) - (x - d.a) / (d.b - d.a))
        = ((d.c : ℝ) / 2) / (d.b - d.a) * (y - x) := by
      field_simp; ring
    rw [e] at hl; exact hl
  | false =>
    simp only [Bool.false_eq_true, if_false]
    have hl := mixture_lipschitz_real _ _ hp hs ((d.b - y) / (d.b - d.a)) ((d.b - x) / (d.b - d.a))
      (by apply div_le_div_of_nonneg_right _ hw.le; linarith)
    have e : ((d.c : ℝ) / 2) * ((d.b - x) / (d.b - d.a) - (d.b - y) / (d.b - d.a))
        = ((d.c : ℝ) / 2) / (d.b - d.a) * (y - x) := by
      field_simp; ring
    rw [e] at hl; linarith

/-- the Spec is `0.4/o`-Lipschitz for **every** `c ≥ 1` (the noise alone smooths it) -/
theorem cdfSpec_lipschitz_noise (hw : 0 < d.b - d.a) (ho : 0 < d.o) (hc : 1 ≤ d.c) (x y : ℝ) (hxy : x ≤ y) :
    cdfSpec d y - cdfSpec d x ≤ 2 / 5 / d.o * (y - x) := by
  have hs : 0 < d.o / (d.b - d.a) := div_pos ho hw
  have hp : 0 < (d.c : ℝ) / 2 := by
    have : (1:ℝ) ≤ d.c := by exact_mod_cast hc
    linarith
  unfold cdfSpec
  cases hcv : d.convex with
  | true =>
    simp only [if_true]
    have hl := mixture_lipschitz_noise _ _ hp hs ((x - d.a) / (d.b - d.a)) ((y - d.a) / (d.b - d.a))
      (by apply div_le_div_of_nonneg_right _ hw.le; linarith)
    have e : 2 / 5 / (d.o / (d.b - d.a)) * ((y - d.a) / (d.b - d.a) - (x - d.a) / (d.b - d.a))
        = 2 / 5 / d.o * (y - x) := by
      field_simp; ring
    rw [e] at hl; exact hl
  | false =>
    simp only [Bool.false_eq_true, if_false]
    have hl := mixture_lipschitz_noise _ _ hp hs ((d.b - y) / (d.b - d.a)) ((d.b - x) / (d.b - d.a))
      (by apply div_le_div_of_nonneg_right _ hw.le; linarith)
    have e : 2 / 5 / (d.o / (d.b - d.a)) * ((d.b - x) / (d.b - d.a) - (d.b - y) / (d.b - d.a))
        = 2 / 5 / d.o * (y - x) := by
      field_simp; ring
    rw [e] at hl; linarith

/-- lower tail of the Spec at the left end of the bisection bracket -/
theorem cdfSpec_tail_lo (hw : 0 < d.b - d.a) (ho : 0 < d.o) (hc : 1 ≤ d.c) :
    cdfSpec d (d.a - 6 * d.o) ≤ Phi (-6) := by
  have hs : 0 < d.o / (d.b - d.a) := div_pos ho hw
  have hp : 0 < (d.c : ℝ) / 2 := by
    have : (1:ℝ) ≤ d.c := by exact_mod_cast hc
    linarith
  unfold cdfSpec
  cases hcv : d.convex with
  | true =>
    simp only [if_true]
    apply mixture_le_Phi_real _ _ hp hs
    apply le_of_eq; field_simp; ring
  | false =>
    simp only [Bool.false_eq_true, if_false]
    have := Phi_le_mixture_real _ _ hp hs ((d.b - (d.a - 6 * d.o)) / (d.b - d.a))
      (by apply le_of_eq; field_simp; ring)
    linarith

/-- upper tail of the Spec at the right end of the bisection bracket -/
theorem cdfSpec_tail_hi (hw : 0 < d.b - d.a) (ho : 0 < d.o) (hc : 1 ≤ d.c) :
    1 - Phi (-6) ≤ cdfSpec d (d.b + 6 * d.o) := by
  have hs : 0 < d.o / (d.b - d.a) := div_pos ho hw
  have hp : 0 < (d.c : ℝ) / 2 := by
    have : (1:ℝ) ≤ d.c := by exact_mod_cast hc
    linarith
  unfold cdfSpec
  cases hcv : d.convex with
  | true =>
    simp only [if_true]
    apply Phi_le_mixture_real _ _ hp hs
    apply le_of_eq; field_simp; ring
  | false =>
    simp only [Bool.false_eq_true, if_false]
    have := mixture_le_Phi_real _ _ hp hs ((d.b - (d.b + 6 * d.o)) / (d.b - d.a))
      (by apply le_of_eq; field_simp; ring)
    linarith

end spec

/-! ### the model's `ppf` when its cdf is within `ε` of the Spec -/

section model
variable (T : List (ℕ × List (Entry ℝ))) (ninf pinf : ℝ)

/-- **accuracy of the bisection against a cdf that is only `ε`-close to the Spec** (series regime, exact real arithmetic,
every `c ≥ 2`, both shapes, any table): if `|cdf y − cdfSpec y| ≤ ε` on the bracket then for `q ∈ [0,1]`
`|cdf(ppfBisect q) − q| ≤ 2ε + (c/2)(1 + 12·o/(b−a))/2^30 + Φ(−6)`. -/
theorem cdf_ppfBisect_within_eps (d : Params ℝ) (hc : 2 ≤ d.c) (hab : d.a ≤ d.b)
    (h : regime (realFns T ninf pinf) d = .nothing) (ε : ℝ)
    (hclose : ∀ y, d.a - 6 * d.o ≤ y → y ≤ d.b + 6 * d.o → |cdf (realFns T ninf pinf) d y - cdfSpec d y| ≤ ε)
    (q : ℝ) (hq0 : 0 ≤ q) (hq1 : q ≤ 1) :
    |cdf (realFns T ninf pinf) d (ppfBisect (realFns T ninf pinf) d q) - q|
      ≤ 2 * ε + ((d.c : ℝ) / 2) * (1 + 12 * (d.o / (d.b - d.a))) / 2 ^ 30 + Phi (-6) := by
  obtain ⟨ho, hw⟩ := nothing_pos (realFns_lawful T ninf pinf) d hab h
  have hc1 : 1 ≤ d.c := by omega
  have hacc := ppfBisect_accuracy_robust (realFns_lawful T ninf pinf) d hab ho.le (cdfSpec d)
    (((d.c : ℝ) / 2) / (d.b - d.a)) ε q hclose
    (fun x y _ hxy _ => cdfSpec_mono d hw ho hc1 x y hxy)
    (fun x y _ hxy _ => cdfSpec_lipschitz d hw ho hc x y hxy)
  have hlo := cdfSpec_tail_lo d hw ho hc1
  have hhi := cdfSpec_tail_hi d hw ho hc1
  have hP0 : 0 ≤ Phi (-6) := Phi_nonneg _
  have htail : max 0 (max (cdfSpec d (d.a - 6 * d.o) - q) (q - cdfSpec d (d.b + 6 * d.o))) ≤ Phi (-6) :=
    max_le hP0 (max_le (by linarith) (by linarith))
  have e : ((d.c : ℝ) / 2) / (d.b - d.a) * ((d.b - d.a + 12 * d.o) / 2 ^ 30)
      = ((d.c : ℝ) / 2) * (1 + 12 * (d.o / (d.b - d.a))) / 2 ^ 30 := by
    field_simp
  rw [e] at hacc
  linarith

/-- the same for `ppf` itself at `q ∈ (0,1)` (where `ppf` returns the bisection result) -/
theorem cdf_ppf_within_eps (d : Params ℝ) (hc : 2 ≤ d.c) (hab : d.a ≤ d.b)
    (hp : pointMass (realFns T ninf pinf) d = false) (h : regime (realFns T ninf pinf) d = .nothing) (ε : ℝ)
    (hclose : ∀ y, d.a - 6 * d.o ≤ y → y ≤ d.b + 6 * d.o → |cdf (realFns T ninf pinf) d y - cdfSpec d y| ≤ ε)
    (q : ℝ) (hq0 : 0 < q) (hq1 : q < 1) :
    |cdf (realFns T ninf pinf) d (ppf (realFns T ninf pinf) d q) - q|
      ≤ 2 * ε + ((d.c : ℝ) / 2) * (1 + 12 * (d.o / (d.b - d.a))) / 2 ^ 30 + Phi (-6) := by
  have hcl : clip q 0 1 = q := clip_of_mem q 0 1 hq0.le hq1.le
  rw [ppf_nothing (realFns_lawful T ninf pinf) d hab q hp h, hcl, if_neg hq0.ne', if_neg hq1.ne]
  exact cdf_ppfBisect_within_eps T ninf pinf d hc hab h ε hclose q hq0.le hq1.le

/-- **every `c ≥ 1`** (in particular `c = 1`), with the Lipschitz constant `0.4/o` that the noise alone provides:
`|cdf(ppfBisect q) − q| ≤ 2ε + 0.4·(12 + (b−a)/o)/2^30 + Φ(−6)` for `q ∈ [0,1]`. -/
theorem cdf_ppfBisect_within_eps_noise (d : Params ℝ) (hc : 1 ≤ d.c) (hab : d.a ≤ d.b)
    (h : regime (realFns T ninf pinf) d = .nothing) (ε : ℝ)
    (hclose : ∀ y, d.a - 6 * d.o ≤ y → y ≤ d.b + 6 * d.o → |cdf (realFns T ninf pinf) d y - cdfSpec d y| ≤ ε)
    (q : ℝ) (hq0 : 0 ≤ q) (hq1 : q ≤ 1) :
    |cdf (realFns T ninf pinf) d (ppfBisect (realFns T ninf pinf) d q) - q|
      ≤ 2 * ε + 2 / 5 * (12 + (d.b - d.a) / d.o) / 2 ^ 30 + Phi (-6) := by
  obtain ⟨ho, hw⟩ := nothing_pos (realFns_lawful T ninf pinf) d hab h
  have hacc := ppfBisect_accuracy_robust (realFns_lawful T ninf pinf) d hab ho.le (cdfSpec d)
    (2 / 5 / d.o) ε q hclose
    (fun x y _ hxy _ => cdfSpec_mono d hw ho hc x y hxy)
    (fun x y _ hxy _ => cdfSpec_lipschitz_noise d hw ho hc x y hxy)
  have hlo := cdfSpec_tail_lo d hw ho hc
  have hhi := cdfSpec_tail_hi d hw ho hc
  have hP0 : 0 ≤ Phi (-6) := Phi_nonneg _
  have htail : max 0 (max (cdfSpec d (d.a - 6 * d.o) - q) (q - cdfSpec d (d.b + 6 * d.o))) ≤ Phi (-6) :=
    max_le hP0 (max_le (by linarith) (by linarith))
  have e : 2 / 5 / d.o * ((d.b - d.a + 12 * d.o) / 2 ^ 30) = 2 / 5 * (12 + (d.b - d.a) / d.o) / 2 ^ 30 := by
    field_simp; ring
  rw [e] at hacc
  linarith

theorem cdf_ppf_within_eps_noise (d : Params ℝ) (hc : 1 ≤ d.c) (hab : d.a ≤ d.b)
    (hp : pointMass (realFns T ninf pinf) d = false) (h : regime (realFns T ninf pinf) d = .nothing) (ε : ℝ)
    (hclose : ∀ y, d.a - 6 * d.o ≤ y → y ≤ d.b + 6 * d.o → |cdf (realFns T ninf pinf) d y - cdfSpec d y| ≤ ε)
    (q : ℝ) (hq0 : 0 < q) (hq1 : q < 1) :
    |cdf (realFns T ninf pinf) d (ppf (realFns T ninf pinf) d q) - q|
      ≤ 2 * ε + 2 / 5 * (12 + (d.b - d.a) / d.o) / 2 ^ 30 + Phi (-6) := by
  have hcl : clip q 0 1 = q := clip_of_mem q 0 1 hq0.le hq1.le
  rw [ppf_nothing (realFns_lawful T ninf pinf) d hab q hp h, hcl, if_neg hq0.ne', if_neg hq1.ne]
  exact cdf_ppfBisect_within_eps_noise T ninf pinf d hc hab h ε hclose q hq0.le hq1.le

end model

/-! ### odd `c` with the shipped table -/

section shipped
open Opda.Gen Opda.Table
variable (ninf pinf : ℝ)

/-- **odd `c ≥ 3`, shipped table, series regime, both shapes**: the scale `o/(b−a)` selects an entry `e` of the row of key `c`,
and for every `q ∈ (0,1)`
`|cdf(ppf q) − q| ≤ 2·1.02·max_error(e) + (c/2)(1 + 12·o/(b−a))/2^30 + Φ(−6)` in exact real arithmetic. -/
theorem cdf_ppf_odd_shipped (d : Params ℝ) (k : ℕ) (hk : 1 ≤ k) (hc : d.c = 2 * k + 1) (hab : d.a ≤ d.b)
    (hp : pointMass (realFns tableR ninf pinf) d = false) (h : regime (realFns tableR ninf pinf) d = .nothing)
    (hkey : ∃ row ∈ tableQ, row.1 = d.c) :
    ∃ row e, rowOf tableQ d.c = some row ∧ selectR row.2 (d.o / (d.b - d.a)) = some e ∧
      ∀ q : ℝ, 0 < q → q < 1 →
        |cdf (realFns tableR ninf pinf) d (ppf (realFns tableR ninf pinf) d q) - q|
          ≤ 2 * (1.02 * (e.maxError : ℝ)) + ((d.c : ℝ) / 2) * (1 + 12 * (d.o / (d.b - d.a))) / 2 ^ 30 + Phi (-6) := by
  obtain ⟨row, e, hrow, he, hy⟩ := cdf_odd_shipped ninf pinf d k hc hab hp h hkey
  refine ⟨row, e, hrow, he, fun q hq0 hq1 => ?_⟩
  exact cdf_ppf_within_eps tableR ninf pinf d (by omega) hab hp h _ (fun y _ _ => hy y) q hq0 hq1

/-- **every odd `c` with a row, `c = 1` included**: the same with the noise's own Lipschitz constant,
`|cdf(ppf q) − q| ≤ 2·1.02·max_error(e) + 0.4·(12 + (b−a)/o)/2^30 + Φ(−6)`. -/
theorem cdf_ppf_odd_shipped_noise (d : Params ℝ) (k : ℕ) (hc : d.c = 2 * k + 1) (hab : d.a ≤ d.b)
    (hp : pointMass (realFns tableR ninf pinf) d = false) (h : regime (realFns tableR ninf pinf) d = .nothing)
    (hkey : ∃ row ∈ tableQ, row.1 = d.c) :
    ∃ row e, rowOf tableQ d.c = some row ∧ selectR row.2 (d.o / (d.b - d.a)) = some e ∧
      ∀ q : ℝ, 0 < q → q < 1 →
        |cdf (realFns tableR ninf pinf) d (ppf (realFns tableR ninf pinf) d q) - q|
          ≤ 2 * (1.02 * (e.maxError : ℝ)) + 2 / 5 * (12 + (d.b - d.a) / d.o) / 2 ^ 30 + Phi (-6) := by
  obtain ⟨row, e, hrow, he, hy⟩ := cdf_odd_shipped ninf pinf d k hc hab hp h hkey
  refine ⟨row, e, hrow, he, fun q hq0 hq1 => ?_⟩
  exact cdf_ppf_within_eps_noise tableR ninf pinf d (by omega) hab hp h _ (fun y _ _ => hy y) q hq0 hq1

/-- the entries of the row of key `c` that a scale `< σmax` can select all record `1.02·max_error ≤ bound` -/
def tolOK (c : ℕ) (σmax bound : ℚ) : Bool :=
  match rowOf tableQ c with
  | some row => row.2.all fun e => decide (σmax ≤ e.minScale) || decide (slack * e.maxError ≤ bound)
  | none => false

/-- kernel check on the regenerated table: `c = 9` at every scale `< 10` (the whole series regime), `c = 5` at scales
`< 1/5`, `c = 3` at scales `< 1/50` select entries with `1.02·max_error ≤ 4.67e-6`, `4.02e-6`, `2.5e-7`. -/
theorem shipped_tolerance_check :
    (tolOK 9 10 (467 / 100000000) && tolOK 5 (1 / 5) (402 / 100000000) && tolOK 3 (1 / 50) (25 / 100000000)) = true := by
  decide +kernel

/-- from `tolOK`: the selected entry's recorded error -/
theorem selected_le_of_tolOK (c : ℕ) (σmax bound : ℚ) (hchk : tolOK c σmax bound = true) (row : ℕ × List EntryQ)
    (hrow : rowOf tableQ c = some row) (σ : ℝ) (hσ : σ < (σmax : ℝ)) (e : EntryQ) (he : selectR row.2 σ = some e) :
    1.02 * (e.maxError : ℝ) ≤ (bound : ℝ) := by
  unfold tolOK at hchk
  rw [hrow] at hchk
  have hemem : e ∈ row.2 := by unfold selectR at he; exact List.mem_of_find?_eq_some he
  have hsel : (e.minScale : ℝ) ≤ σ := by
    unfold selectR at he
    simpa using List.find?_some he
  have h1 := List.all_eq_true.mp hchk e hemem
  rw [Bool.or_eq_true, decide_eq_true_eq, decide_eq_true_eq] at h1
  rcases h1 with h1 | h1
  · exfalso
    have : (σmax : ℝ) ≤ (e.minScale : ℝ) := by exact_mod_cast h1
    linarith
  · rw [← slack_cast]; exact_mod_cast h1

/-- **the property's `1e-5` for odd `c`, where the proved bound reaches it** (series regime, shipped table, exact real
arithmetic, both shapes, every `q ∈ (0,1)`): `c = 9` at every scale of the regime; `c = 5` for `o/(b−a) < 1/5`;
`c = 3` for `o/(b−a) < 1/50`. -/
theorem cdf_ppf_odd_tolerance (d : Params ℝ) (hab : d.a ≤ d.b)
    (hp : pointMass (realFns tableR ninf pinf) d = false) (h : regime (realFns tableR ninf pinf) d = .nothing)
    (hcs : d.c = 9 ∨ (d.c = 5 ∧ d.o / (d.b - d.a) < 1 / 5) ∨ (d.c = 3 ∧ d.o / (d.b - d.a) < 1 / 50))
    (q : ℝ) (hq0 : 0 < q) (hq1 : q < 1) :
    |cdf (realFns tableR ninf pinf) d (ppf (realFns tableR ninf pinf) d q) - q| ≤ 1e-5 := by
  obtain ⟨ho, hw⟩ := nothing_pos (realFns_lawful tableR ninf pinf) d hab h
  obtain ⟨_, h10⟩ := (regime_nothing_iff (realFns_lawful tableR ninf pinf) d).mp h
  have hs10 : d.o / (d.b - d.a) < 10 := by rw [div_lt_iff₀ hw]; exact h10
  have hs0 : 0 ≤ d.o / (d.b - d.a) := (div_pos ho hw).le
  have hchk := shipped_tolerance_check
  rw [Bool.and_eq_true, Bool.and_eq_true] at hchk
  obtain ⟨⟨c9, c5⟩, c3⟩ := hchk
  have hP := Phi_neg_six_le_sharp
  rcases hcs with hc | ⟨hc, hs⟩ | ⟨hc, hs⟩
  · obtain ⟨row, e, hrow, he, hq⟩ := cdf_ppf_odd_shipped ninf pinf d 4 (by norm_num) hc hab hp h
      (shipped_key_present d.c (by simp [hc]))
    rw [hc] at hrow
    have hε := selected_le_of_tolOK 9 10 _ c9 row hrow _ (by push_cast; exact hs10) e he
    have hm := hq q hq0 hq1
    have hcr : (d.c : ℝ) = 9 := by rw [hc]; norm_num
    rw [hcr] at hm
    have hL : (9 / 2 : ℝ) * (1 + 12 * (d.o / (d.b - d.a))) / 2 ^ 30 ≤ (9 / 2 : ℝ) * 121 / 2 ^ 30 := by
      apply div_le_div_of_nonneg_right _ (by positivity)
      nlinarith
    push_cast at hε
    refine hm.trans ?_
    have : (9 / 2 : ℝ) * 121 / 2 ^ 30 ≤ 508 / 1000000000 := by norm_num
    norm_num at hε ⊢
    linarith
  · obtain ⟨row, e, hrow, he, hq⟩ := cdf_ppf_odd_shipped ninf pinf d 2 (by norm_num) hc hab hp h
      (shipped_key_present d.c (by simp [hc]))
    rw [hc] at hrow
    have hε := selected_le_of_tolOK 5 (1 / 5) _ c5 row hrow _ (by push_cast; exact hs) e he
    have hm := hq q hq0 hq1
    have hcr : (d.c : ℝ) = 5 := by rw [hc]; norm_num
    rw [hcr] at hm
    have hL : (5 / 2 : ℝ) * (1 + 12 * (d.o / (d.b - d.a))) / 2 ^ 30 ≤ (5 / 2 : ℝ) * 121 / 2 ^ 30 := by
      apply div_le_div_of_nonneg_right _ (by positivity)
      nlinarith
    push_cast at hε
    refine hm.trans ?_
    have : (5 / 2 : ℝ) * 121 / 2 ^ 30 ≤ 508 / 1000000000 := by norm_num
    norm_num at hε ⊢
    linarith
  · obtain ⟨row, e, hrow, he, hq⟩ := cdf_ppf_odd_shipped ninf pinf d 1 (by norm_num) hc hab hp h
      (shipped_key_present d.c (by simp [hc]))
    rw [hc] at hrow
    have hε := selected_le_of_tolOK 3 (1 / 50) _ c3 row hrow _ (by push_cast; exact hs) e he
    have hm := hq q hq0 hq1
    have hcr : (d.c : ℝ) = 3 := by rw [hc]; norm_num
    rw [hcr] at hm
    have hL : (3 / 2 : ℝ) * (1 + 12 * (d.o / (d.b - d.a))) / 2 ^ 30 ≤ (3 / 2 : ℝ) * 121 / 2 ^ 30 := by
      apply div_le_div_of_nonneg_right _ (by positivity)
      nlinarith
    push_cast at hε
    refine hm.trans ?_
    have : (3 / 2 : ℝ) * 121 / 2 ^ 30 ≤ 508 / 1000000000 := by norm_num
    norm_num at hε ⊢
    linarith

end shipped

end Opda.Noisy
