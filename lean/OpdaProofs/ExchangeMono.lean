import OpdaModel.Approx
import OpdaProofs.Lagrange
import OpdaProofs.Levelled
import OpdaProofs.RemezModel
import OpdaProofs.Minimax
import Mathlib.LinearAlgebra.Lagrange
import Mathlib.Algebra.Order.BigOperators.Ring.Finset
import Mathlib.Tactic

/-!
C17: why the exchange step of the Remez algorithm works.

For a strictly increasing reference `x_0 < … < x_{n+1}` let `w_i = 1 / Π_{j ≠ i} (x_i − x_j)` be the
barycentric weights of **all** `n+2` points (the model term `Lagr.weight (n+2) x i`).

* `weight_sign` — `sign w_i = (−1)^(n+1−i)`; `sum_weight_mul_eval` — `Σ w_i q(x_i) = 0` for every polynomial
  of degree `≤ n` (the divided difference of order `n+1`);
* `den_ne_zero`, `den_ne_zero_model` — the levelling denominator `p1(x_{n+1}) + (−1)^n` never vanishes on an
  ordered reference (it is `−(−1)^(n+1) Σ|w_i| / w_{n+1}`);
* `weighted_mean_of_levelled` — with `λ_i = |w_i| / Σ|w_j|`, the levelled error is
  `h = Σ λ_i (−1)^i (f(x_i) − q(x_i))` for **every** polynomial `q` of degree `≤ n`;
* `abs_levelled_of_alternating`, `le_abs_levelled`, `lt_abs_levelled`, `abs_levelled_le` — if the errors of `q`
  alternate in sign, `|h| = Σ λ_i |e_i|`, hence `min |e_i| ≤ |h| ≤ max |e_i|`;
* `exchange_increases` (`…_model`, `…_real`) — the statement of the code's comment "Two conditions are
  necessary to increase the leveled reference error";
* `levelled_sandwich` — `|h| ≤ E_n(f;[a,b]) ≤ sup_{[a,b]} |f − p|`.
-/
set_option linter.unusedSectionVars false

namespace Opda.Exchange
open Polynomial Finset Opda.Lagr Opda.Remez

/-! ### algebra (any field) -/
section Alg
variable {F : Type} [Field F]

theorem natDegree_interpolate_le (n : ℕ) (v r : ℕ → F) (hv : Set.InjOn v (range (n + 1) : Finset ℕ)) :
    (Lagrange.interpolate (range (n + 1)) v r).natDegree ≤ n := by
  by_cases h0 : Lagrange.interpolate (range (n + 1)) v r = 0
  · rw [h0]; simp
  · have : (Lagrange.interpolate (range (n + 1)) v r).degree < ((n + 1 : ℕ) : WithBot ℕ) := by
      simpa using Lagrange.degree_interpolate_lt r hv
    have h2 := (Polynomial.natDegree_lt_iff_degree_lt h0).mpr this
    omega

/-- the divided difference of order `n+1` annihilates polynomials of degree `≤ n` -/
theorem sum_weight_mul_eval (n : ℕ) (x : ℕ → F) (hx : Set.InjOn x (range (n + 2) : Finset ℕ))
    (q : F[X]) (hq : q.natDegree ≤ n) :
    ∑ i ∈ range (n + 2), weight (n + 2) x i * q.eval (x i) = 0 := by
  have hdeg : q.degree < ((range (n + 2)).card : WithBot ℕ) := by
    rw [card_range]
    exact lt_of_le_of_lt (degree_le_of_natDegree_le hq) (by exact_mod_cast (by omega : n < n + 2))
  have h := Lagrange.coeff_eq_sum hx hdeg
  rw [card_range, show n + 2 - 1 = n + 1 by omega, coeff_eq_zero_of_natDegree_lt (by omega)] at h
  rw [h]
  refine Finset.sum_congr rfl fun i _ => ?_
  classical
  rw [weight_eq, Lagrange.nodalWeight, Finset.prod_inv_distrib, div_eq_mul_inv, mul_comm]

end Alg

/-! ### ordered reference -/
section Ord
variable {F : Type} [Field F] [LinearOrder F] [IsStrictOrderedRing F]

theorem injOn_of_strictMonoOn (n : ℕ) (x : ℕ → F) (hx : StrictMonoOn x (Set.Iic (n + 1))) (m : ℕ)
    (hm : m ≤ n + 2) : Set.InjOn x (range m : Finset ℕ) := by
  refine hx.injOn.mono ?_
  intro i hi
  simp only [coe_range, Set.mem_Iio] at hi
  simp only [Set.mem_Iic]
  omega

/-- **sign of the weights**: `(−1)^(n+1−i) w_i > 0` -/
theorem weight_sign (n : ℕ) (x : ℕ → F) (hx : StrictMonoOn x (Set.Iic (n + 1))) (i : ℕ) (hi : i ≤ n + 1) :
    0 < (-1 : F) ^ (n + 1 - i) * weight (n + 2) x i := by
  rw [weight_eq, Lagrange.nodalWeight]
  have hs : (-1 : F) ^ (n + 1 - i) = ∏ j ∈ (range (n + 2)).erase i, (if i < j then (-1 : F) else 1) := by
    rw [Finset.prod_ite, prod_const, prod_const_one, mul_one]
    congr 1
    have : ((range (n + 2)).erase i).filter (fun j => i < j) = Ioc i (n + 1) := by
      ext j
      simp only [mem_filter, mem_erase, mem_range, mem_Ioc]
      omega
    rw [this, Nat.card_Ioc]
  rw [hs, ← prod_mul_distrib]
  apply prod_pos
  intro j hj
  obtain ⟨hne, hj⟩ := mem_erase.mp hj
  rw [mem_range] at hj
  split_ifs with hij
  · have := hx (show i ∈ Set.Iic (n + 1) from hi) (show j ∈ Set.Iic (n + 1) from Nat.lt_succ_iff.mp hj) hij
    rw [neg_one_mul, ← inv_neg, neg_sub]
    exact inv_pos.mpr (sub_pos.mpr this)
  · have hji : j < i := by omega
    have := hx (show j ∈ Set.Iic (n + 1) from Nat.lt_succ_iff.mp hj) (show i ∈ Set.Iic (n + 1) from hi) hji
    rw [one_mul]
    exact inv_pos.mpr (sub_pos.mpr this)

theorem weight_ne_zero (n : ℕ) (x : ℕ → F) (hx : StrictMonoOn x (Set.Iic (n + 1))) (i : ℕ) (hi : i ≤ n + 1) :
    weight (n + 2) x i ≠ 0 := by
  intro h0
  have := weight_sign n x hx i hi
  rw [h0, mul_zero] at this
  exact lt_irrefl _ this

theorem abs_weight (n : ℕ) (x : ℕ → F) (hx : StrictMonoOn x (Set.Iic (n + 1))) (i : ℕ) (hi : i ≤ n + 1) :
    |weight (n + 2) x i| = (-1 : F) ^ (n + 1 - i) * weight (n + 2) x i := by
  rw [← abs_of_pos (weight_sign n x hx i hi), abs_mul, abs_pow, abs_neg, abs_one, one_pow, one_mul]

/-- `(−1)^i w_i` has the constant sign `(−1)^(n+1)` -/
theorem alt_mul_weight (n : ℕ) (x : ℕ → F) (hx : StrictMonoOn x (Set.Iic (n + 1))) (i : ℕ) (hi : i ≤ n + 1) :
    (-1 : F) ^ i * weight (n + 2) x i = (-1) ^ (n + 1) * |weight (n + 2) x i| := by
  rw [abs_weight n x hx i hi]
  have hp : (-1 : F) ^ (n + 1) = (-1) ^ (n + 1 - i) * (-1) ^ i := by
    rw [← pow_add]; congr 1; omega
  have h1 : (-1 : F) ^ (n + 1 - i) * (-1) ^ (n + 1 - i) = 1 := by rw [← mul_pow]; simp
  rw [hp]
  linear_combination (-((-1 : F) ^ i * weight (n + 2) x i)) * h1

theorem alt_sq (i : ℕ) : (-1 : F) ^ i * (-1) ^ i = 1 := by rw [← mul_pow]; simp

/-- `Σ |w_j| > 0` -/
theorem sumAbs_pos (n : ℕ) (x : ℕ → F) (hx : StrictMonoOn x (Set.Iic (n + 1))) :
    0 < ∑ j ∈ range (n + 2), |weight (n + 2) x j| := by
  apply Finset.sum_pos
  · intro i hi
    exact abs_pos.mpr (weight_ne_zero n x hx i (Nat.lt_succ_iff.mp (mem_range.mp hi)))
  · exact ⟨0, mem_range.mpr (by omega)⟩

/-- `Σ (−1)^i w_i = (−1)^(n+1) Σ |w_i| ≠ 0` -/
theorem sum_alt_weight (n : ℕ) (x : ℕ → F) (hx : StrictMonoOn x (Set.Iic (n + 1))) :
    ∑ i ∈ range (n + 2), weight (n + 2) x i * (-1) ^ i
      = (-1) ^ (n + 1) * ∑ i ∈ range (n + 2), |weight (n + 2) x i| := by
  rw [Finset.mul_sum]
  refine Finset.sum_congr rfl fun i hi => ?_
  rw [mul_comm, alt_mul_weight n x hx i (Nat.lt_succ_iff.mp (mem_range.mp hi))]

/-- **the levelling denominator never vanishes on an ordered reference** (Mathlib form) -/
theorem den_ne_zero (n : ℕ) (x : ℕ → F) (hx : StrictMonoOn x (Set.Iic (n + 1))) :
    eval (x (n + 1)) (Lagrange.interpolate (range (n + 1)) x (fun i => (-1 : F) ^ i)) + (-1) ^ n ≠ 0 := by
  intro hden
  have hinj1 := injOn_of_strictMonoOn n x hx (n + 1) (by omega)
  have hinj2 := injOn_of_strictMonoOn n x hx (n + 2) (by omega)
  set p1 := Lagrange.interpolate (range (n + 1)) x (fun i => (-1 : F) ^ i) with hp1
  have hA := sum_weight_mul_eval n x hinj2 p1 (natDegree_interpolate_le n x _ hinj1)
  have hlast : eval (x (n + 1)) p1 = (-1) ^ (n + 1) := by
    rw [pow_succ]; linear_combination hden
  have hS : ∑ i ∈ range (n + 2), weight (n + 2) x i * eval (x i) p1
      = ∑ i ∈ range (n + 2), weight (n + 2) x i * (-1) ^ i := by
    refine Finset.sum_congr rfl fun i hi => ?_
    rcases Nat.lt_or_ge i (n + 1) with hlt | hge
    · rw [hp1, Lagrange.eval_interpolate_at_node _ hinj1 (mem_range.mpr hlt)]
    · have : i = n + 1 := by have := mem_range.mp hi; omega
      subst this; rw [hlast]
  rw [hS, sum_alt_weight n x hx] at hA
  rcases mul_eq_zero.mp hA with h | h
  · exact pow_ne_zero _ (by norm_num) h
  · exact (sumAbs_pos n x hx).ne' h

/-- the same for the executable model term (`Lagr.eval`, `altSign`) -/
theorem den_ne_zero_model [DecidableEq F] (n : ℕ) (v : ℕ → F) (hx : StrictMonoOn v (Set.Iic (n + 1))) :
    Lagr.eval (n + 1) v altSign (v (n + 1)) + altSign n ≠ 0 := by
  have hinj1 := injOn_of_strictMonoOn n v hx (n + 1) (by omega)
  have hfun : (altSign : ℕ → F) = fun i => (-1 : F) ^ i := funext altSign_eq
  rw [eval_eq_interpolate (n + 1) v _ hinj1, altSign_eq, hfun]
  exact den_ne_zero n v hx

/-! ### the weighted-mean representation of the levelled error -/

/-- `λ_i = |w_i| / Σ_j |w_j|` -/
def lam (n : ℕ) (x : ℕ → F) (i : ℕ) : F :=
  |weight (n + 2) x i| / ∑ j ∈ range (n + 2), |weight (n + 2) x j|

theorem lam_pos (n : ℕ) (x : ℕ → F) (hx : StrictMonoOn x (Set.Iic (n + 1))) (i : ℕ) (hi : i ≤ n + 1) :
    0 < lam n x i :=
  div_pos (abs_pos.mpr (weight_ne_zero n x hx i hi)) (sumAbs_pos n x hx)

theorem lam_sum (n : ℕ) (x : ℕ → F) (hx : StrictMonoOn x (Set.Iic (n + 1))) :
    ∑ i ∈ range (n + 2), lam n x i = 1 := by
  unfold lam
  rw [← Finset.sum_div, div_self (sumAbs_pos n x hx).ne']

/-- key identity: if `(p, h)` is levelled on the reference (`y_i − p(x_i) = (−1)^i h`, `deg p ≤ n`) then for
every `q` of degree `≤ n`, `h Σ|w_i| = Σ |w_i| (−1)^i (y_i − q(x_i))` -/
theorem levelled_mul_sumAbs (n : ℕ) (x : ℕ → F) (hx : StrictMonoOn x (Set.Iic (n + 1))) (y : ℕ → F)
    (p : F[X]) (hp : p.natDegree ≤ n) (h : F)
    (hlev : ∀ i, i ≤ n + 1 → y i - p.eval (x i) = (-1) ^ i * h)
    (q : F[X]) (hq : q.natDegree ≤ n) :
    h * ∑ i ∈ range (n + 2), |weight (n + 2) x i|
      = ∑ i ∈ range (n + 2), |weight (n + 2) x i| * ((-1) ^ i * (y i - q.eval (x i))) := by
  have hinj2 := injOn_of_strictMonoOn n x hx (n + 2) (by omega)
  have hA := sum_weight_mul_eval n x hinj2 (p - q) ((natDegree_sub_le p q).trans (max_le hp hq))
  have hB : ∑ i ∈ range (n + 2), weight (n + 2) x i * (y i - q.eval (x i))
      = ∑ i ∈ range (n + 2), weight (n + 2) x i * ((-1) ^ i * h) := by
    have : ∀ i ∈ range (n + 2), weight (n + 2) x i * (y i - q.eval (x i))
        = weight (n + 2) x i * ((-1) ^ i * h) + weight (n + 2) x i * (p - q).eval (x i) := by
      intro i hi
      rw [← hlev i (Nat.lt_succ_iff.mp (mem_range.mp hi)), eval_sub]; ring
    rw [Finset.sum_congr rfl this, Finset.sum_add_distrib, hA, add_zero]
  have hL : ∑ i ∈ range (n + 2), weight (n + 2) x i * (y i - q.eval (x i))
      = (-1) ^ (n + 1) * ∑ i ∈ range (n + 2), |weight (n + 2) x i| * ((-1) ^ i * (y i - q.eval (x i))) := by
    rw [Finset.mul_sum]
    refine Finset.sum_congr rfl fun i hi => ?_
    have ha := alt_mul_weight n x hx i (Nat.lt_succ_iff.mp (mem_range.mp hi))
    have hs := alt_sq (F := F) i
    linear_combination ((-1) ^ i * (y i - q.eval (x i))) * ha - (weight (n + 2) x i * (y i - q.eval (x i))) * hs
  have hR : ∑ i ∈ range (n + 2), weight (n + 2) x i * ((-1) ^ i * h)
      = (-1) ^ (n + 1) * (h * ∑ i ∈ range (n + 2), |weight (n + 2) x i|) := by
    rw [Finset.mul_sum, Finset.mul_sum]
    refine Finset.sum_congr rfl fun i hi => ?_
    have ha := alt_mul_weight n x hx i (Nat.lt_succ_iff.mp (mem_range.mp hi))
    linear_combination h * ha
  have hne : ((-1 : F)) ^ (n + 1) ≠ 0 := pow_ne_zero _ (by norm_num)
  rw [hL, hR] at hB
  exact (mul_left_cancel₀ hne hB).symm

/-- **weighted-mean representation**: the levelled error of the reference is the `λ`-weighted mean of the
sign-corrected errors of *any* polynomial of degree `≤ n` -/
theorem weighted_mean_of_levelled (n : ℕ) (x : ℕ → F) (hx : StrictMonoOn x (Set.Iic (n + 1))) (y : ℕ → F)
    (p : F[X]) (hp : p.natDegree ≤ n) (h : F)
    (hlev : ∀ i, i ≤ n + 1 → y i - p.eval (x i) = (-1) ^ i * h)
    (q : F[X]) (hq : q.natDegree ≤ n) :
    h = ∑ i ∈ range (n + 2), lam n x i * ((-1) ^ i * (y i - q.eval (x i))) := by
  have key := levelled_mul_sumAbs n x hx y p hp h hlev q hq
  have hpos := sumAbs_pos n x hx
  unfold lam
  simp_rw [div_mul_eq_mul_div]
  rw [← Finset.sum_div, ← key, mul_div_assoc, div_self hpos.ne', mul_one]

/-- sign bookkeeping: `σ = ±1`, `σ (−1)^i e ≥ 0` ⇒ `(−1)^i e = σ |e|` -/
theorem alt_eq_sign_abs (σ e : F) (i : ℕ) (hσ : σ = 1 ∨ σ = -1) (h : 0 ≤ σ * (-1) ^ i * e) :
    (-1) ^ i * e = σ * |e| := by
  have habs : |(-1 : F) ^ i * e| = |e| := by
    rw [abs_mul, abs_pow, abs_neg, abs_one, one_pow, one_mul]
  rcases hσ with rfl | rfl
  · rw [one_mul, ← habs]
    rw [one_mul] at h
    exact (abs_of_nonneg h).symm
  · rw [← habs]
    have h' : (-1 : F) ^ i * e ≤ 0 := by linarith
    rw [abs_of_nonpos h']; ring

/-- **alternating errors**: if the errors `e_i = y_i − q(x_i)` of a degree-`≤ n` polynomial alternate in sign
along the ordered reference, the levelled error is `σ Σ λ_i |e_i|` -/
theorem levelled_of_alternating (n : ℕ) (x : ℕ → F) (hx : StrictMonoOn x (Set.Iic (n + 1))) (y : ℕ → F)
    (p : F[X]) (hp : p.natDegree ≤ n) (h : F)
    (hlev : ∀ i, i ≤ n + 1 → y i - p.eval (x i) = (-1) ^ i * h)
    (q : F[X]) (hq : q.natDegree ≤ n) (σ : F) (hσ : σ = 1 ∨ σ = -1)
    (halt : ∀ i, i ≤ n + 1 → 0 ≤ σ * (-1) ^ i * (y i - q.eval (x i))) :
    h = σ * ∑ i ∈ range (n + 2), lam n x i * |y i - q.eval (x i)| := by
  rw [weighted_mean_of_levelled n x hx y p hp h hlev q hq, Finset.mul_sum]
  refine Finset.sum_congr rfl fun i hi => ?_
  rw [alt_eq_sign_abs σ _ i hσ (halt i (Nat.lt_succ_iff.mp (mem_range.mp hi)))]
  ring

theorem abs_levelled_of_alternating (n : ℕ) (x : ℕ → F) (hx : StrictMonoOn x (Set.Iic (n + 1))) (y : ℕ → F)
    (p : F[X]) (hp : p.natDegree ≤ n) (h : F)
    (hlev : ∀ i, i ≤ n + 1 → y i - p.eval (x i) = (-1) ^ i * h)
    (q : F[X]) (hq : q.natDegree ≤ n) (σ : F) (hσ : σ = 1 ∨ σ = -1)
    (halt : ∀ i, i ≤ n + 1 → 0 ≤ σ * (-1) ^ i * (y i - q.eval (x i))) :
    |h| = ∑ i ∈ range (n + 2), lam n x i * |y i - q.eval (x i)| := by
  rw [levelled_of_alternating n x hx y p hp h hlev q hq σ hσ halt, abs_mul]
  have hσ1 : |σ| = 1 := by rcases hσ with rfl | rfl <;> simp
  rw [hσ1, one_mul]
  refine abs_of_nonneg (Finset.sum_nonneg fun i hi => ?_)
  exact mul_nonneg (lam_pos n x hx i (Nat.lt_succ_iff.mp (mem_range.mp hi))).le (abs_nonneg _)

/-- a `λ`-mean lies above any common lower bound of its terms … -/
theorem le_mean (n : ℕ) (x : ℕ → F) (hx : StrictMonoOn x (Set.Iic (n + 1))) (a : ℕ → F) (H : F)
    (hH : ∀ i, i ≤ n + 1 → H ≤ a i) : H ≤ ∑ i ∈ range (n + 2), lam n x i * a i := by
  calc H = ∑ i ∈ range (n + 2), lam n x i * H := by rw [← Finset.sum_mul, lam_sum n x hx, one_mul]
    _ ≤ _ := Finset.sum_le_sum fun i hi =>
      mul_le_mul_of_nonneg_left (hH i (Nat.lt_succ_iff.mp (mem_range.mp hi)))
        (lam_pos n x hx i (Nat.lt_succ_iff.mp (mem_range.mp hi))).le

/-- … strictly above as soon as one term is strictly above (all `λ_i > 0`) -/
theorem lt_mean (n : ℕ) (x : ℕ → F) (hx : StrictMonoOn x (Set.Iic (n + 1))) (a : ℕ → F) (H : F)
    (hH : ∀ i, i ≤ n + 1 → H ≤ a i) (hs : ∃ i, i ≤ n + 1 ∧ H < a i) :
    H < ∑ i ∈ range (n + 2), lam n x i * a i := by
  obtain ⟨k, hk, hlt⟩ := hs
  calc H = ∑ i ∈ range (n + 2), lam n x i * H := by rw [← Finset.sum_mul, lam_sum n x hx, one_mul]
    _ < _ := Finset.sum_lt_sum (fun i hi =>
      mul_le_mul_of_nonneg_left (hH i (Nat.lt_succ_iff.mp (mem_range.mp hi)))
        (lam_pos n x hx i (Nat.lt_succ_iff.mp (mem_range.mp hi))).le)
      ⟨k, mem_range.mpr (Nat.lt_succ_iff.mpr hk), mul_lt_mul_of_pos_left hlt (lam_pos n x hx k hk)⟩

theorem mean_le (n : ℕ) (x : ℕ → F) (hx : StrictMonoOn x (Set.Iic (n + 1))) (a : ℕ → F) (M : F)
    (hM : ∀ i, i ≤ n + 1 → a i ≤ M) : ∑ i ∈ range (n + 2), lam n x i * a i ≤ M := by
  have h1 : ∑ i ∈ range (n + 2), lam n x i * a i ≤ ∑ i ∈ range (n + 2), lam n x i * M :=
    Finset.sum_le_sum fun i hi =>
      mul_le_mul_of_nonneg_left (hM i (Nat.lt_succ_iff.mp (mem_range.mp hi)))
        (lam_pos n x hx i (Nat.lt_succ_iff.mp (mem_range.mp hi))).le
  rwa [← Finset.sum_mul, lam_sum n x hx, one_mul] at h1

theorem mean_lt (n : ℕ) (x : ℕ → F) (hx : StrictMonoOn x (Set.Iic (n + 1))) (a : ℕ → F) (M : F)
    (hM : ∀ i, i ≤ n + 1 → a i ≤ M) (hs : ∃ i, i ≤ n + 1 ∧ a i < M) :
    ∑ i ∈ range (n + 2), lam n x i * a i < M := by
  obtain ⟨k, hk, hlt⟩ := hs
  have h1 : ∑ i ∈ range (n + 2), lam n x i * a i < ∑ i ∈ range (n + 2), lam n x i * M :=
    Finset.sum_lt_sum (fun i hi =>
      mul_le_mul_of_nonneg_left (hM i (Nat.lt_succ_iff.mp (mem_range.mp hi)))
        (lam_pos n x hx i (Nat.lt_succ_iff.mp (mem_range.mp hi))).le)
      ⟨k, mem_range.mpr (Nat.lt_succ_iff.mpr hk), mul_lt_mul_of_pos_left hlt (lam_pos n x hx k hk)⟩
  rwa [← Finset.sum_mul, lam_sum n x hx, one_mul] at h1

/-- **exchange monotonicity, general form**: `(p, h)` levelled on the ordered reference `x`; `q` of degree `≤ n`
with sign-alternating errors of size `≥ H` on `x` ⇒ `|h| ≥ H`, strictly if one error is `> H`; and
`|h| ≤ M` if all are `≤ M`; so `min |e_i| ≤ |h| ≤ max |e_i|`. -/
theorem exchange_general (n : ℕ) (x : ℕ → F) (hx : StrictMonoOn x (Set.Iic (n + 1))) (y : ℕ → F)
    (p : F[X]) (hp : p.natDegree ≤ n) (h : F)
    (hlev : ∀ i, i ≤ n + 1 → y i - p.eval (x i) = (-1) ^ i * h)
    (q : F[X]) (hq : q.natDegree ≤ n) (σ : F) (hσ : σ = 1 ∨ σ = -1)
    (halt : ∀ i, i ≤ n + 1 → 0 ≤ σ * (-1) ^ i * (y i - q.eval (x i))) :
    (∀ H, (∀ i, i ≤ n + 1 → H ≤ |y i - q.eval (x i)|) → H ≤ |h|) ∧
    (∀ H, (∀ i, i ≤ n + 1 → H ≤ |y i - q.eval (x i)|) → (∃ i, i ≤ n + 1 ∧ H < |y i - q.eval (x i)|) → H < |h|) ∧
    (∀ M, (∀ i, i ≤ n + 1 → |y i - q.eval (x i)| ≤ M) → |h| ≤ M) ∧
    (∃ i, i ≤ n + 1 ∧ |y i - q.eval (x i)| ≤ |h|) ∧ (∃ i, i ≤ n + 1 ∧ |h| ≤ |y i - q.eval (x i)|) := by
  have habs := abs_levelled_of_alternating n x hx y p hp h hlev q hq σ hσ halt
  refine ⟨fun H hH => ?_, fun H hH hs => ?_, fun M hM => ?_, ?_, ?_⟩
  · rw [habs]; exact le_mean n x hx _ H hH
  · rw [habs]; exact lt_mean n x hx _ H hH hs
  · rw [habs]; exact mean_le n x hx _ M hM
  · by_contra hno
    push Not at hno
    have := lt_mean n x hx (fun i => |y i - q.eval (x i)|) |h| (fun i hi => (hno i hi).le)
      ⟨0, by omega, hno 0 (by omega)⟩
    rw [← habs] at this
    exact lt_irrefl _ this
  · by_contra hno
    push Not at hno
    have := mean_lt n x hx (fun i => |y i - q.eval (x i)|) |h| (fun i hi => (hno i hi).le)
      ⟨0, by omega, hno 0 (by omega)⟩
    rw [← habs] at this
    exact lt_irrefl _ this

/-- de la Vallée-Poussin from the weighted mean (no alternation of `q` needed): every polynomial of degree
`≤ n` errs by at least `|h|` at some reference point -/
theorem levelled_le_some_error (n : ℕ) (x : ℕ → F) (hx : StrictMonoOn x (Set.Iic (n + 1))) (y : ℕ → F)
    (p : F[X]) (hp : p.natDegree ≤ n) (h : F)
    (hlev : ∀ i, i ≤ n + 1 → y i - p.eval (x i) = (-1) ^ i * h)
    (q : F[X]) (hq : q.natDegree ≤ n) : ∃ i, i ≤ n + 1 ∧ |h| ≤ |y i - q.eval (x i)| := by
  by_contra hno
  push Not at hno
  have h1 : |h| ≤ ∑ i ∈ range (n + 2), lam n x i * |y i - q.eval (x i)| := by
    conv_lhs => rw [weighted_mean_of_levelled n x hx y p hp h hlev q hq]
    refine (Finset.abs_sum_le_sum_abs _ _).trans (le_of_eq (Finset.sum_congr rfl fun i hi => ?_))
    rw [abs_mul, abs_mul, abs_pow, abs_neg, abs_one, one_pow, one_mul,
      abs_of_pos (lam_pos n x hx i (Nat.lt_succ_iff.mp (mem_range.mp hi)))]
  have h2 := mean_lt n x hx (fun i => |y i - q.eval (x i)|) |h| (fun i hi => (hno i hi).le)
    ⟨0, by omega, hno 0 (by omega)⟩
  exact lt_irrefl _ (h1.trans_lt h2)

end Ord

/-! ### the executable model terms (`levelH`, `levelP`) over any ordered field -/
section Model
variable {F : Type} [Field F] [LinearOrder F] [IsStrictOrderedRing F] [DecidableEq F]

/-- the polynomial the model's `levelP` evaluates -/
noncomputable def levelPoly (n : ℕ) (v y : ℕ → F) : F[X] :=
  Lagrange.interpolate (range (n + 1)) v (levelVals n v y)

theorem levelP_eq_eval (n : ℕ) (v y : ℕ → F) (hv : Set.InjOn v (range (n + 1) : Finset ℕ)) (t : F) :
    levelP n v y t = (levelPoly n v y).eval t :=
  eval_eq_interpolate (n + 1) v _ hv t

theorem natDegree_levelPoly (n : ℕ) (v y : ℕ → F) (hv : Set.InjOn v (range (n + 1) : Finset ℕ)) :
    (levelPoly n v y).natDegree ≤ n := natDegree_interpolate_le n v _ hv

/-- `levelled_error_model` without the denominator hypothesis -/
theorem levelP_error_of_strictMono (n : ℕ) (v y : ℕ → F) (hx : StrictMonoOn v (Set.Iic (n + 1)))
    (i : ℕ) (hi : i ≤ n + 1) : y i - levelP n v y (v i) = altSign i * levelH n v y :=
  levelP_error n v y (injOn_of_strictMonoOn n v hx (n + 1) (by omega)) (den_ne_zero_model n v hx) i hi

theorem levelPoly_levelled (n : ℕ) (v y : ℕ → F) (hx : StrictMonoOn v (Set.Iic (n + 1))) (i : ℕ) (hi : i ≤ n + 1) :
    y i - (levelPoly n v y).eval (v i) = (-1) ^ i * levelH n v y := by
  rw [← levelP_eq_eval n v y (injOn_of_strictMonoOn n v hx (n + 1) (by omega)), ← altSign_eq]
  exact levelP_error_of_strictMono n v y hx i hi

/-- **weighted-mean representation of the model's `levelH`** -/
theorem levelH_weighted_mean (n : ℕ) (v y : ℕ → F) (hx : StrictMonoOn v (Set.Iic (n + 1)))
    (q : F[X]) (hq : q.natDegree ≤ n) :
    levelH n v y = ∑ i ∈ range (n + 2), lam n v i * (altSign i * (y i - q.eval (v i))) := by
  have hfun : (altSign : ℕ → F) = fun i => (-1 : F) ^ i := funext altSign_eq
  rw [hfun]
  exact weighted_mean_of_levelled n v hx y (levelPoly n v y)
    (natDegree_levelPoly n v y (injOn_of_strictMonoOn n v hx (n + 1) (by omega))) _
    (levelPoly_levelled n v y hx) q hq

/-- alternating errors of `q` on the ordered reference: `|levelH| = Σ λ_i |e_i|`, between min and max -/
theorem levelH_of_alternating (n : ℕ) (v y : ℕ → F) (hx : StrictMonoOn v (Set.Iic (n + 1)))
    (q : F[X]) (hq : q.natDegree ≤ n) (σ : F) (hσ : σ = 1 ∨ σ = -1)
    (halt : ∀ i, i ≤ n + 1 → 0 ≤ σ * altSign i * (y i - q.eval (v i))) :
    |levelH n v y| = ∑ i ∈ range (n + 2), lam n v i * |y i - q.eval (v i)| ∧
    (∀ H, (∀ i, i ≤ n + 1 → H ≤ |y i - q.eval (v i)|) → H ≤ |levelH n v y|) ∧
    (∀ H, (∀ i, i ≤ n + 1 → H ≤ |y i - q.eval (v i)|) → (∃ i, i ≤ n + 1 ∧ H < |y i - q.eval (v i)|) →
      H < |levelH n v y|) ∧
    (∀ M, (∀ i, i ≤ n + 1 → |y i - q.eval (v i)| ≤ M) → |levelH n v y| ≤ M) ∧
    (∃ i, i ≤ n + 1 ∧ |y i - q.eval (v i)| ≤ |levelH n v y|) ∧
    (∃ i, i ≤ n + 1 ∧ |levelH n v y| ≤ |y i - q.eval (v i)|) := by
  have halt' : ∀ i, i ≤ n + 1 → 0 ≤ σ * (-1) ^ i * (y i - q.eval (v i)) := by
    intro i hi; rw [← altSign_eq]; exact halt i hi
  have hdeg := natDegree_levelPoly n v y (injOn_of_strictMonoOn n v hx (n + 1) (by omega))
  exact ⟨abs_levelled_of_alternating n v hx y _ hdeg _ (levelPoly_levelled n v y hx) q hq σ hσ halt',
    exchange_general n v hx y _ hdeg _ (levelPoly_levelled n v y hx) q hq σ hσ halt'⟩

/-- **the exchange step cannot decrease the levelled error** (model terms).  `v` the old reference (only
distinctness of its first `n+1` points is used), `v'` the new, strictly increasing one; the old levelled
polynomial `levelP n v (f∘v)` has errors on `v'` that alternate in sign (condition 1 of the code's comment) and
are at least `|h_old|` in size (condition 2) ⇒ `|h_new| ≥ |h_old|`, strictly if one point strictly improved. -/
theorem exchange_increases_model (n : ℕ) (f : F → F) (v v' : ℕ → F)
    (hv : Set.InjOn v (range (n + 1) : Finset ℕ)) (hv' : StrictMonoOn v' (Set.Iic (n + 1)))
    (σ : F) (hσ : σ = 1 ∨ σ = -1)
    (halt : ∀ i, i ≤ n + 1 → 0 ≤ σ * altSign i * (f (v' i) - levelP n v (fun j => f (v j)) (v' i)))
    (hge : ∀ i, i ≤ n + 1 →
      |levelH n v (fun j => f (v j))| ≤ |f (v' i) - levelP n v (fun j => f (v j)) (v' i)|) :
    |levelH n v (fun j => f (v j))| ≤ |levelH n v' (fun j => f (v' j))| ∧
    ((∃ i, i ≤ n + 1 ∧ |levelH n v (fun j => f (v j))| < |f (v' i) - levelP n v (fun j => f (v j)) (v' i)|) →
      |levelH n v (fun j => f (v j))| < |levelH n v' (fun j => f (v' j))|) := by
  simp only [levelP_eq_eval n v _ hv] at halt hge ⊢
  obtain ⟨_, h1, h2, _⟩ := levelH_of_alternating n v' (fun j => f (v' j)) hv' (levelPoly n v (fun j => f (v j)))
    (natDegree_levelPoly n v _ hv) σ hσ halt
  exact ⟨h1 _ hge, fun hs => h2 _ hge hs⟩

/-- consecutive increase (what `checkAlt` tests) gives a strictly increasing reference -/
theorem strictMonoOn_of_succ {α : Type} [Preorder α] (n : ℕ) (x : ℕ → α) (h : ∀ i, i ≤ n → x i < x (i + 1)) :
    StrictMonoOn x (Set.Iic (n + 1)) := by
  intro i _ j hj hij
  simp only [Set.mem_Iic] at hj
  induction j, hij using Nat.le_induction with
  | base => exact h i (by omega)
  | succ k hk ih => exact (ih (by omega)).trans (h k (by omega))

/-- `levelPv_error` (the polynomial `checkAltLevel` certifies) with no denominator hypothesis: consecutive
increase of the reference list suffices -/
theorem levelPv_error_of_increasing (n : ℕ) (rs ym : List ℚ) (hinc : ∀ i, i ≤ n → getR rs i < getR rs (i + 1))
    (i : ℕ) (hi : i ≤ n + 1) :
    getR ym i - Lagr.eval (n + 1) (getR rs) (getR (levelPv n rs ym)) (getR rs i)
      = altSign i * levelH n (getR rs) (getR ym) := by
  have hx := strictMonoOn_of_succ n (getR rs) hinc
  exact levelPv_error n rs ym (injOn_of_strictMonoOn n _ hx (n + 1) (by omega)) (den_ne_zero_model n _ hx) i hi

end Model

/-! ### the ℝ / Mathlib form used by `Remez.levelled_error` -/
section Real
open Opda.Minimax

/-- `levelled_error` without the denominator hypothesis -/
theorem levelled_error_of_strictMono (n : ℕ) (v : ℕ → ℝ) (hx : StrictMonoOn v (Set.Iic (n + 1))) (f : ℝ → ℝ) :
    let p0 := Lagrange.interpolate (range (n+1)) v (fun i => f (v i))
    let p1 := Lagrange.interpolate (range (n+1)) v (fun i => (-1:ℝ)^i)
    let h := (eval (v (n+1)) p0 - f (v (n+1))) / (eval (v (n+1)) p1 + (-1)^n)
    let p := Lagrange.interpolate (range (n+1)) v (fun i => f (v i) - h * (-1)^i)
    ∀ i, i ≤ n+1 → f (v i) - eval (v i) p = (-1)^i * h :=
  Opda.Remez.levelled_error n v (injOn_of_strictMonoOn n v hx (n + 1) (by omega)) f (den_ne_zero n v hx)

/-- **weighted-mean representation** of the `h` of `levelled_error` (sign `s = +1` with the code's convention
`f(x_i) − p(x_i) = (−1)^i h`) -/
theorem weighted_mean_real (n : ℕ) (v : ℕ → ℝ) (hx : StrictMonoOn v (Set.Iic (n + 1))) (f : ℝ → ℝ)
    (q : ℝ[X]) (hq : q.natDegree ≤ n) :
    let p0 := Lagrange.interpolate (range (n+1)) v (fun i => f (v i))
    let p1 := Lagrange.interpolate (range (n+1)) v (fun i => (-1:ℝ)^i)
    let h := (eval (v (n+1)) p0 - f (v (n+1))) / (eval (v (n+1)) p1 + (-1)^n)
    h = ∑ i ∈ range (n + 2), lam n v i * ((-1) ^ i * (f (v i) - q.eval (v i))) := by
  intro p0 p1 h
  exact weighted_mean_of_levelled n v hx (fun i => f (v i)) _
    (natDegree_interpolate_le n v _ (injOn_of_strictMonoOn n v hx (n + 1) (by omega))) h
    (levelled_error_of_strictMono n v hx f) q hq

/-- **the exchange step cannot decrease the levelled error** (ℝ, Mathlib interpolants; `hOf v` is the code's `h`
on the reference `v`, `pOld` the levelled polynomial of the old reference) -/
theorem exchange_increases_real (n : ℕ) (f : ℝ → ℝ) (x x' : ℕ → ℝ)
    (hx : Set.InjOn x (range (n + 1) : Finset ℕ)) (hx' : StrictMonoOn x' (Set.Iic (n + 1))) :
    let hOf : (ℕ → ℝ) → ℝ := fun v =>
      (eval (v (n+1)) (Lagrange.interpolate (range (n+1)) v (fun i => f (v i))) - f (v (n+1)))
        / (eval (v (n+1)) (Lagrange.interpolate (range (n+1)) v (fun i => (-1:ℝ)^i)) + (-1)^n)
    let pOld := Lagrange.interpolate (range (n+1)) x (fun i => f (x i) - hOf x * (-1)^i)
    ∀ σ : ℝ, (σ = 1 ∨ σ = -1) →
      (∀ i, i ≤ n+1 → 0 ≤ σ * (-1)^i * (f (x' i) - eval (x' i) pOld)) →
      (∀ i, i ≤ n+1 → |hOf x| ≤ |f (x' i) - eval (x' i) pOld|) →
      |hOf x| ≤ |hOf x'| ∧
        ((∃ i, i ≤ n+1 ∧ |hOf x| < |f (x' i) - eval (x' i) pOld|) → |hOf x| < |hOf x'|) := by
  intro hOf pOld σ hσ halt hge
  obtain ⟨h1, h2, _⟩ := exchange_general n x' hx' (fun i => f (x' i)) _
    (natDegree_interpolate_le n x' _ (injOn_of_strictMonoOn n x' hx' (n + 1) (by omega))) (hOf x')
    (levelled_error_of_strictMono n x' hx' f) pOld (natDegree_interpolate_le n x _ hx) σ hσ halt
  exact ⟨h1 _ hge, fun hs => h2 _ hge hs⟩

/-- **the sandwich for the returned object**: reference strictly increasing inside `[a,b]`, `p`, `h` its levelled
polynomial and error ⇒ `|h| ≤ E_n(f;[a,b]) ≤ sup_{[a,b]} |f − p|` -/
theorem levelled_sandwich (n : ℕ) (f : ℝ → ℝ) (v : ℕ → ℝ) (hx : StrictMonoOn v (Set.Iic (n + 1)))
    (a b : ℝ) (ha : a ≤ v 0) (hb : v (n + 1) ≤ b) :
    let p0 := Lagrange.interpolate (range (n+1)) v (fun i => f (v i))
    let p1 := Lagrange.interpolate (range (n+1)) v (fun i => (-1:ℝ)^i)
    let h := (eval (v (n+1)) p0 - f (v (n+1))) / (eval (v (n+1)) p1 + (-1)^n)
    let p := Lagrange.interpolate (range (n+1)) v (fun i => f (v i) - h * (-1)^i)
    ENNReal.ofReal |h| ≤ minimaxErr n f a b ∧ minimaxErr n f a b ≤ supErr f p a b := by
  intro p0 p1 h p
  have hpdeg : p.natDegree ≤ n :=
    natDegree_interpolate_le n v _ (injOn_of_strictMonoOn n v hx (n + 1) (by omega))
  refine ⟨le_minimaxErr n f a b |h| fun q hq => ?_, iInf₂_le p hpdeg⟩
  obtain ⟨i, hi, hle⟩ := levelled_le_some_error n v hx (fun i => f (v i)) p hpdeg h
    (levelled_error_of_strictMono n v hx f) q hq
  have hmono := hx.monotoneOn
  refine ⟨v i, ha.trans (hmono (show (0 : ℕ) ∈ Set.Iic (n + 1) by simp) (show i ∈ Set.Iic (n + 1) from hi)
    (Nat.zero_le i)), (hmono (show i ∈ Set.Iic (n + 1) from hi)
      (show n + 1 ∈ Set.Iic (n + 1) from Set.mem_Iic.mpr (le_refl _)) hi).trans hb, hle⟩

end Real

end Opda.Exchange
