import OpdaModel.Approx
import OpdaProofs.Lagrange
import Mathlib.Algebra.Polynomial.Eval.Defs
import Mathlib.Algebra.Polynomial.Eval.Coeff
import Mathlib.Data.Nat.Choose.Sum
import Mathlib.Tactic

/-!
C18-T2: the binomial re-expansion `a'_i = Σ_{j≥i} C(j,i) b^{j−i} c^j a_j` performed by
`minimax_polynomial_coefficients` is composition of the coefficient polynomial with the affine map
`x ↦ c·(x + b)`; with the code's `c = m_inv`, `b = m·ta − a_orig` this is the map
`x ↦ ta + (x − a_orig)/m` taking the original interval to the transform interval.
-/
set_option linter.unusedSectionVars false

namespace Opda.Reexp
open Finset Opda.Lagr

theorem choose_eq (n k : ℕ) : choose n k = Nat.choose n k := by
  induction n generalizing k with
  | zero => cases k <;> simp [choose]
  | succ n ih =>
    cases k with
    | zero => simp [choose]
    | succ k => simp [choose, ih, Nat.choose_succ_succ]

section Ring
variable {R : Type} [CommRing R]

theorem powN_eq (x : R) (k : ℕ) : powN x k = x ^ k := by
  induction k with
  | zero => simp [powN]
  | succ k ih => simp [powN, ih, pow_succ]

theorem sumTo_eq' (n : ℕ) (f : ℕ → R) : sumTo n f = ∑ i ∈ range n, f i := by
  induction n with
  | zero => simp [sumTo]
  | succ n ih => simp [sumTo, ih, Finset.sum_range_succ]

/-- the code's sum over `j = i … N−1` is the full-range sum (binomials vanish below the diagonal) -/
theorem reexpand_eq (N : ℕ) (a : ℕ → R) (b c : R) (i : ℕ) (hi : i ≤ N) :
    reexpand N a b c i = ∑ j ∈ range N, (Nat.choose j i : R) * b ^ (j - i) * c ^ j * a j := by
  unfold reexpand
  rw [sumTo_eq']
  have hN : N = i + (N - i) := by omega
  conv_rhs => rw [hN, Finset.sum_range_add]
  have hz : ∑ j ∈ range i, (Nat.choose j i : R) * b ^ (j - i) * c ^ j * a j = 0 := by
    refine Finset.sum_eq_zero fun j hj => ?_
    rw [Nat.choose_eq_zero_of_lt (mem_range.mp hj)]; simp
  rw [hz, zero_add]
  refine Finset.sum_congr rfl fun k _ => ?_
  rw [choose_eq, powN_eq, powN_eq]

/-- **re-expansion = evaluation at the affine image**, in any commutative ring -/
theorem reexpand_sum (N : ℕ) (a : ℕ → R) (b c x : R) :
    ∑ i ∈ range N, reexpand N a b c i * x ^ i = ∑ j ∈ range N, a j * (c * (x + b)) ^ j := by
  have h1 : ∀ i ∈ range N, reexpand N a b c i * x ^ i
      = ∑ j ∈ range N, (Nat.choose j i : R) * b ^ (j - i) * c ^ j * a j * x ^ i := by
    intro i hi
    rw [reexpand_eq N a b c i (mem_range.mp hi).le, Finset.sum_mul]
  rw [Finset.sum_congr rfl h1, Finset.sum_comm]
  refine Finset.sum_congr rfl fun j hj => ?_
  have hj' : j + 1 ≤ N := mem_range.mp hj
  rw [mul_pow, add_pow]
  have hsub : ∑ i ∈ range (j + 1), x ^ i * b ^ (j - i) * (Nat.choose j i : R)
      = ∑ i ∈ range N, x ^ i * b ^ (j - i) * (Nat.choose j i : R) := by
    apply Finset.sum_subset (Finset.range_subset_range.mpr hj')
    intro i _ hi
    have : j < i := by
      have := mt mem_range.mpr hi
      omega
    rw [Nat.choose_eq_zero_of_lt this]; simp
  rw [hsub, Finset.mul_sum, Finset.mul_sum]
  refine Finset.sum_congr rfl fun i _ => ?_
  ring

end Ring

section Poly
variable {F : Type} [Field F]
open Polynomial

/-- polynomial with coefficients `a 0, …, a (N−1)` (constant term first) -/
noncomputable def polyOf (N : ℕ) (a : ℕ → F) : F[X] := ∑ j ∈ range N, C (a j) * X ^ j

theorem eval_polyOf (N : ℕ) (a : ℕ → F) (x : F) : (polyOf N a).eval x = ∑ j ∈ range N, a j * x ^ j := by
  simp [polyOf, eval_finsetSum]

theorem C_reexpand (N : ℕ) (a : ℕ → F) (b c : F) (i : ℕ) :
    C (reexpand N a b c i) = reexpand N (fun j => C (a j)) (C b) (C c) i := by
  unfold reexpand
  rw [sumTo_eq', sumTo_eq', map_sum]
  refine Finset.sum_congr rfl fun k _ => ?_
  rw [powN_eq, powN_eq, powN_eq, powN_eq]
  simp only [map_mul, map_pow, map_natCast]

/-- **T2**: the re-expanded coefficient vector is the coefficient vector of the composition with the
affine map `X ↦ c·(X + b)` -/
theorem polyOf_reexpand (N : ℕ) (a : ℕ → F) (b c : F) :
    polyOf N (reexpand N a b c) = (polyOf N a).comp (C c * (X + C b)) := by
  unfold polyOf
  simp only [C_reexpand]
  rw [reexpand_sum N (fun j => C (a j)) (C b) (C c) X]
  simp [comp, eval₂_finsetSum]

end Poly

section Field
variable {F : Type} [Field F]

/-- with the code's arithmetic (`m = (b0−a0)/(tb−ta)`, `c = 1/m`, `b = m·ta − a0`) the affine map is
`x ↦ ta + (x − a0)/m`, which sends `a0 ↦ ta` and `b0 ↦ tb`. -/
theorem affine_code (ta tb a0 b0 x : F) (h1 : tb - ta ≠ 0) (h2 : b0 - a0 ≠ 0) :
    let m := (b0 - a0) / (tb - ta)
    (1 / m) * (x + (m * ta - a0)) = ta + (x - a0) / m := by
  intro m
  have hm : m ≠ 0 := div_ne_zero h2 h1
  field_simp
  ring

theorem affine_code_endpoints (ta tb a0 b0 : F) (h1 : tb - ta ≠ 0) (h2 : b0 - a0 ≠ 0) :
    let m := (b0 - a0) / (tb - ta)
    ta + (a0 - a0) / m = ta ∧ ta + (b0 - a0) / m = tb := by
  intro m
  constructor
  · simp
  · show ta + (b0 - a0) / ((b0 - a0) / (tb - ta)) = tb
    field_simp
    ring

/-- evaluation form: the re-expanded polynomial at `x` equals the original at the transformed point -/
theorem reexpand_eval (N : ℕ) (a : ℕ → F) (ta tb a0 b0 x : F) (h1 : tb - ta ≠ 0) (h2 : b0 - a0 ≠ 0) :
    let m := (b0 - a0) / (tb - ta)
    ∑ i ∈ range N, reexpand N a (m * ta - a0) (1 / m) i * x ^ i
      = ∑ j ∈ range N, a j * (ta + (x - a0) / m) ^ j := by
  intro m
  rw [reexpand_sum, affine_code ta tb a0 b0 x h1 h2]

end Field

end Opda.Reexp
