import OpdaModel.NoisyFloat
import OpdaProofs.NoisyBisect
import OpdaProofs.NoisyLogic
import OpdaProofs.NoisyReal
import OpdaProofs.NoisyConv
import OpdaProofs.NoisyInv
import OpdaProofs.NormalSpec
import Mathlib.Probability.Moments.Basic
import Mathlib.Probability.Distributions.Gaussian.Real
import Mathlib.MeasureTheory.Integral.IntervalIntegral.Basic
import Mathlib.Analysis.SpecialFunctions.Pow.Real
import Mathlib.Tactic

/-!
C07, accuracy clause, **even `c`, exact real arithmetic** (series regime).

`NoisyConv.lean` proves that for `c = 2k`, `k ≥ 1`, the model's cdf over `ℝ` is the Gaussian mixture
`H(t) = mixture k s t = ∫₀¹ Φ((t − x)/s) d(x^k)`, `s = o/(b−a)` (convex: `cdf y = H((y−a)/(b−a))`; concave:
`cdf y = 1 − H((b−y)/(b−a))`).  Here:

* `mixture_mono`         : `H` is non-decreasing in `t`;
* `mixture_lipschitz`    : `H(t') − H(t) ≤ k (t' − t)` for `t ≤ t'` (the density `k x^{k−1}` of `X` is `≤ k` on `[0,1]`
                           and `∫₀¹ [Φ((t'−x)/s) − Φ((t−x)/s)] dx ≤ t' − t`);
* `Phi_neg_le_exp`       : the Chernoff bound `Φ(−t) ≤ exp(−t²/2)`, hence `Φ(−6) ≤ e^{−18} ≤ 2^{−18}`;
* `mixture_le_Phi`, `Phi_le_mixture` : the mixture at `t ≤ −6s` / `t ≥ 1 + 6s` is within `Φ(−6)` of `0` / `1`;
* `cdf_even_mono`, `cdf_even_lipschitz`, `cdf_even_tail_lo`, `cdf_even_tail_hi` : the same for the model's cdf;
* `cdf_ppfBisect_even`, `cdf_ppf_even` : `|cdf(ppf q) − q| ≤ k(1+12s)/2^30 + Φ(−6)` and, for `k ≤ 5`, `≤ 1e-5`.
-/
namespace Opda.Noisy
open MeasureTheory ProbabilityTheory intervalIntegral Real Set
open scoped NNReal ENNReal

/-! ### the standard normal distribution function: monotone, Chernoff tail -/

theorem Phi_monotone : Monotone Phi := fun x y h => by
  unfold Phi
  exact ENNReal.toReal_mono (measure_ne_top _ _) (measure_mono (Iic_subset_Iic.mpr h))

/-- **Chernoff bound for the standard normal**: `Φ(−t) ≤ exp(−t²/2)` for `t ≥ 0`. -/
theorem Phi_neg_le_exp (t : ℝ) (ht : 0 ≤ t) : Phi (-t) ≤ Real.exp (-(t ^ 2) / 2) := by
  have h := measure_le_le_exp_mul_mgf (μ := gaussianReal 0 1) (X := id) (t := -t) (-t)
    (neg_nonpos.mpr ht) (integrable_exp_mul_gaussianReal (-t))
  rw [mgf_id_gaussianReal] at h
  have e : Real.exp (- -t * -t) * Real.exp ((0:ℝ) * -t + ((1:ℝ≥0):ℝ) * (-t) ^ 2 / 2) = Real.exp (-(t ^ 2) / 2) := by
    rw [← Real.exp_add]; congr 1; simp; ring
  rw [e] at h
  exact h

theorem exp_neg_18_le : Real.exp (-18) ≤ 1 / 262144 := by
  have h2 : (2:ℝ) ≤ Real.exp 1 := by
    have := Real.add_one_le_exp (1:ℝ); linarith
  have h18 : (2:ℝ) ^ 18 ≤ Real.exp 18 := by
    have : Real.exp 18 = Real.exp 1 ^ 18 := by
      rw [← Real.exp_nat_mul]; norm_num
    rw [this]
    exact pow_le_pow_left₀ (by norm_num) h2 18
  rw [Real.exp_neg, ← one_div]
  apply one_div_le_one_div_of_le (by norm_num)
  linarith

/-- `Φ(−6) ≤ e^{−18} ≤ 2^{−18} < 3.82e-6` (the true value is `9.9e-10`) -/
theorem Phi_neg_six_le : Phi (-6) ≤ 1 / 262144 := by
  have := Phi_neg_le_exp 6 (by norm_num)
  have e : (-(6:ℝ) ^ 2 / 2) = -18 := by norm_num
  rw [e] at this
  exact this.trans exp_neg_18_le

/-! ### the mixture: monotone, `k`-Lipschitz, tails -/

section mixture
variable (k : ℕ) (s : ℝ)

theorem continuous_Phi_comp (t : ℝ) : Continuous fun x : ℝ => Phi ((t - x) / s) := by
  have := continuous_Phi; fun_prop

theorem weight_nonneg (hk : 1 ≤ k) (x : ℝ) (hx : 0 ≤ x) : 0 ≤ (k:ℝ) * x ^ ((k:ℝ) - 1) :=
  mul_nonneg (by positivity) (Real.rpow_nonneg hx _)

theorem weight_le (hk : 1 ≤ k) (x : ℝ) (hx0 : 0 ≤ x) (hx1 : x ≤ 1) : (k:ℝ) * x ^ ((k:ℝ) - 1) ≤ k := by
  have hk' : (1:ℝ) ≤ k := by exact_mod_cast hk
  have : x ^ ((k:ℝ) - 1) ≤ 1 := Real.rpow_le_one hx0 hx1 (by linarith)
  have hk0 : (0:ℝ) ≤ k := by linarith
  nlinarith

theorem weight_intervalIntegrable (hk : 1 ≤ k) :
    IntervalIntegrable (fun x : ℝ => (k:ℝ) * x ^ ((k:ℝ) - 1)) volume 0 1 := by
  have hk' : (1:ℝ) ≤ k := by exact_mod_cast hk
  exact (intervalIntegral.intervalIntegrable_rpow' (by linarith)).const_mul _

theorem weight_integral (hk : 1 ≤ k) : ∫ x in (0:ℝ)..1, (k:ℝ) * x ^ ((k:ℝ) - 1) = 1 := by
  have hk' : (1:ℝ) ≤ k := by exact_mod_cast hk
  have hp : (0:ℝ) < k := by linarith
  rw [intervalIntegral.integral_const_mul, integral_rpow (Or.inl (by linarith))]
  have : (k:ℝ) - 1 + 1 = k := by ring
  rw [this, Real.one_rpow, Real.zero_rpow hp.ne']
  field_simp
  ring

theorem mixture_integrand_integrable (hk : 1 ≤ k) (t : ℝ) :
    IntervalIntegrable (fun x : ℝ => Phi ((t - x) / s) * ((k:ℝ) * x ^ ((k:ℝ) - 1))) volume 0 1 :=
  (weight_intervalIntegrable k hk).continuousOn_mul (continuous_Phi_comp s t).continuousOn

/-- the mixture distribution function is non-decreasing -/
theorem mixture_mono (hk : 1 ≤ k) (hs : 0 < s) (t t' : ℝ) (h : t ≤ t') : mixture k s t ≤ mixture k s t' := by
  unfold mixture
  apply intervalIntegral.integral_mono_on zero_le_one (mixture_integrand_integrable k s hk t)
    (mixture_integrand_integrable k s hk t')
  intro x hx
  apply mul_le_mul_of_nonneg_right _ (weight_nonneg k hk x hx.1)
  apply Phi_monotone
  apply div_le_div_of_nonneg_right _ hs.le
  linarith

/-- `∫₀¹ [Φ((t'−x)/s) − Φ((t−x)/s)] dx ≤ t' − t`: the uniform law smoothed by the noise has a density `≤ 1` -/
theorem uniform_smoothed_lipschitz (t t' : ℝ) (h : t ≤ t') :
    ∫ x in (0:ℝ)..1, (Phi ((t' - x) / s) - Phi ((t - x) / s)) ≤ t' - t := by
  have hc : Continuous fun u : ℝ => Phi (u / s) := by
    have := continuous_Phi; fun_prop
  have hI : ∀ p q : ℝ, IntervalIntegrable (fun u : ℝ => Phi (u / s)) volume p q := fun p q =>
    hc.intervalIntegrable p q
  rw [intervalIntegral.integral_sub ((continuous_Phi_comp s t').intervalIntegrable _ _)
    ((continuous_Phi_comp s t).intervalIntegrable _ _)]
  have e1 : ∫ x in (0:ℝ)..1, Phi ((t' - x) / s) = ∫ u in (t' - 1)..(t' - 0), Phi (u / s) :=
    intervalIntegral.integral_comp_sub_left (fun u => Phi (u / s)) t'
  have e2 : ∫ x in (0:ℝ)..1, Phi ((t - x) / s) = ∫ u in (t - 1)..(t - 0), Phi (u / s) :=
    intervalIntegral.integral_comp_sub_left (fun u => Phi (u / s)) t
  rw [e1, e2, sub_zero, sub_zero]
  have a1 := intervalIntegral.integral_add_adjacent_intervals (hI (t - 1) t) (hI t t')
  have a2 := intervalIntegral.integral_add_adjacent_intervals (hI (t - 1) (t' - 1)) (hI (t' - 1) t')
  have u1 : ∫ u in t..t', Phi (u / s) ≤ ∫ _u in t..t', (1:ℝ) :=
    intervalIntegral.integral_mono_on h (hI _ _) (by simp) (fun u _ => Phi_le_one _)
  have u2 : 0 ≤ ∫ u in (t - 1)..(t' - 1), Phi (u / s) :=
    intervalIntegral.integral_nonneg (by linarith) (fun u _ => Phi_nonneg _)
  simp only [intervalIntegral.integral_const, smul_eq_mul, mul_one] at u1
  linarith

/-- **Lipschitz constant `k`** of the mixture distribution function: `H(t') − H(t) ≤ k (t' − t)` -/
theorem mixture_lipschitz (hk : 1 ≤ k) (hs : 0 < s) (t t' : ℝ) (h : t ≤ t') :
    mixture k s t' - mixture k s t ≤ k * (t' - t) := by
  unfold mixture
  rw [← intervalIntegral.integral_sub (mixture_integrand_integrable k s hk t')
    (mixture_integrand_integrable k s hk t)]
  have hd : Continuous fun x : ℝ => Phi ((t' - x) / s) - Phi ((t - x) / s) :=
    (continuous_Phi_comp s t').sub (continuous_Phi_comp s t)
  have hle : ∫ x in (0:ℝ)..1, (Phi ((t' - x) / s) * ((k:ℝ) * x ^ ((k:ℝ) - 1))
        - Phi ((t - x) / s) * ((k:ℝ) * x ^ ((k:ℝ) - 1)))
      ≤ ∫ x in (0:ℝ)..1, (k:ℝ) * (Phi ((t' - x) / s) - Phi ((t - x) / s)) := by
    apply intervalIntegral.integral_mono_on zero_le_one
      ((mixture_integrand_integrable k s hk t').sub (mixture_integrand_integrable k s hk t))
      ((hd.const_mul _).intervalIntegrable _ _)
    intro x hx
    have hg : 0 ≤ Phi ((t' - x) / s) - Phi ((t - x) / s) := by
      apply sub_nonneg.mpr
      apply Phi_monotone
      apply div_le_div_of_nonneg_right _ hs.le
      linarith
    have hw := weight_le k hk x hx.1 hx.2
    nlinarith
  refine hle.trans ?_
  rw [intervalIntegral.integral_const_mul]
  exact mul_le_mul_of_nonneg_left (uniform_smoothed_lipschitz s t t' h) (by positivity)

/-- lower tail: for `t ≤ −6s` the mixture is at most `Φ(−6)` -/
theorem mixture_le_Phi (hk : 1 ≤ k) (hs : 0 < s) (t : ℝ) (ht : t ≤ -6 * s) : mixture k s t ≤ Phi (-6) := by
  have hP : IntervalIntegrable (fun x : ℝ => Phi (-6) * ((k:ℝ) * x ^ ((k:ℝ) - 1))) volume 0 1 :=
    (weight_intervalIntegrable k hk).const_mul _
  have : mixture k s t ≤ ∫ x in (0:ℝ)..1, Phi (-6) * ((k:ℝ) * x ^ ((k:ℝ) - 1)) := by
    unfold mixture
    apply intervalIntegral.integral_mono_on zero_le_one (mixture_integrand_integrable k s hk t) hP
    intro x hx
    apply mul_le_mul_of_nonneg_right _ (weight_nonneg k hk x hx.1)
    apply Phi_monotone
    rw [div_le_iff₀ hs]
    linarith [hx.1]
  rw [intervalIntegral.integral_const_mul, weight_integral k hk, mul_one] at this
  exact this

/-- upper tail: for `t ≥ 1 + 6s` the mixture is at least `1 − Φ(−6)` -/
theorem Phi_le_mixture (hk : 1 ≤ k) (hs : 0 < s) (t : ℝ) (ht : 1 + 6 * s ≤ t) : 1 - Phi (-6) ≤ mixture k s t := by
  have hP : IntervalIntegrable (fun x : ℝ => Phi 6 * ((k:ℝ) * x ^ ((k:ℝ) - 1))) volume 0 1 :=
    (weight_intervalIntegrable k hk).const_mul _
  have : ∫ x in (0:ℝ)..1, Phi 6 * ((k:ℝ) * x ^ ((k:ℝ) - 1)) ≤ mixture k s t := by
    unfold mixture
    apply intervalIntegral.integral_mono_on zero_le_one hP (mixture_integrand_integrable k s hk t)
    intro x hx
    apply mul_le_mul_of_nonneg_right _ (weight_nonneg k hk x hx.1)
    apply Phi_monotone
    rw [le_div_iff₀ hs]
    linarith [hx.2]
  rw [intervalIntegral.integral_const_mul, weight_integral k hk, mul_one] at this
  have e : Phi 6 = 1 - Phi (-6) := by rw [Phi_neg]; ring
  rw [← e]; exact this

end mixture

/-! ### the model's cdf for even `c` (series regime, `ℝ`) -/

section model
variable (T : List (ℕ × List (Entry ℝ))) (ninf pinf : ℝ)

/-- **(i) monotone**: for even `c = 2k ≥ 2` the model's series-regime cdf over `ℝ` is non-decreasing on all of `ℝ`
(both shapes). -/
theorem cdf_even_mono (d : Params ℝ) (k : ℕ) (hk : 1 ≤ k) (hc : d.c = 2 * k) (hab : d.a ≤ d.b)
    (hp : pointMass (realFns T ninf pinf) d = false) (h : regime (realFns T ninf pinf) d = .nothing)
    (x y : ℝ) (hxy : x ≤ y) : cdf (realFns T ninf pinf) d x ≤ cdf (realFns T ninf pinf) d y := by
  obtain ⟨ho, hw⟩ := nothing_pos (realFns_lawful T ninf pinf) d hab h
  have hs : 0 < d.o / (d.b - d.a) := div_pos ho hw
  cases hcv : d.convex with
  | true =>
    rw [cdf_even_convex_eq_mixture T ninf pinf d k hk hc hcv hab hp h,
      cdf_even_convex_eq_mixture T ninf pinf d k hk hc hcv hab hp h]
    apply mixture_mono k _ hk hs
    apply div_le_div_of_nonneg_right _ hw.le
    linarith
  | false =>
    rw [cdf_even_concave_eq_mixture T ninf pinf d k hk hc hcv hab hp h,
      cdf_even_concave_eq_mixture T ninf pinf d k hk hc hcv hab hp h]
    have : mixture k (d.o / (d.b - d.a)) ((d.b - y) / (d.b - d.a))
        ≤ mixture k (d.o / (d.b - d.a)) ((d.b - x) / (d.b - d.a)) := by
      apply mixture_mono k _ hk hs
      apply div_le_div_of_nonneg_right _ hw.le
      linarith
    linarith

/-- **(ii) Lipschitz constant `k/(b−a) = c/(2(b−a))`** (the sup of the noise-free density): for `x ≤ y`,
`cdf y − cdf x ≤ k/(b−a) · (y − x)` (both shapes, every noise level of the series regime). -/
theorem cdf_even_lipschitz (d : Params ℝ) (k : ℕ) (hk : 1 ≤ k) (hc : d.c = 2 * k) (hab : d.a ≤ d.b)
    (hp : pointMass (realFns T ninf pinf) d = false) (h : regime (realFns T ninf pinf) d = .nothing)
    (x y : ℝ) (hxy : x ≤ y) :
    cdf (realFns T ninf pinf) d y - cdf (realFns T ninf pinf) d x ≤ (k:ℝ) / (d.b - d.a) * (y - x) := by
  obtain ⟨ho, hw⟩ := nothing_pos (realFns_lawful T ninf pinf) d hab h
  have hs : 0 < d.o / (d.b - d.a) := div_pos ho hw
  cases hcv : d.convex with
  | true =>
    rw [cdf_even_convex_eq_mixture T ninf pinf d k hk hc hcv hab hp h,
      cdf_even_convex_eq_mixture T ninf pinf d k hk hc hcv hab hp h]
    have hl := mixture_lipschitz k _ hk hs ((x - d.a) / (d.b - d.a)) ((y - d.a) / (d.b - d.a))
      (by apply div_le_div_of_nonneg_right _ hw.le; linarith)
    have e : (k:ℝ) * ((y - d.a) / (d.b - d.a) - (x - d.a) / (d.b - d.a)) = (k:ℝ) / (d.b - d.a) * (y - x) := by
      field_simp; ring
    rw [e] at hl; exact hl
  | false =>
    rw [cdf_even_concave_eq_mixture T ninf pinf d k hk hc hcv hab hp h,
      cdf_even_concave_eq_mixture T ninf pinf d k hk hc hcv hab hp h]
    have hl := mixture_lipschitz k _ hk hs ((d.b - y) / (d.b - d.a)) ((d.b - x) / (d.b - d.a))
      (by apply div_le_div_of_nonneg_right _ hw.le; linarith)
    have e : (k:ℝ) * ((d.b - x) / (d.b - d.a) - (d.b - y) / (d.b - d.a)) = (k:ℝ) / (d.b - d.a) * (y - x) := by
      field_simp; ring
    rw [e] at hl; linarith

/-- **(iv) lower tail**: the mass the bracket cuts off on the left, `cdf(a − 6o)`, is at most `Φ(−6)` -/
theorem cdf_even_tail_lo (d : Params ℝ) (k : ℕ) (hk : 1 ≤ k) (hc : d.c = 2 * k) (hab : d.a ≤ d.b)
    (hp : pointMass (realFns T ninf pinf) d = false) (h : regime (realFns T ninf pinf) d = .nothing) :
    cdf (realFns T ninf pinf) d (d.a - 6 * d.o) ≤ Phi (-6) := by
  obtain ⟨ho, hw⟩ := nothing_pos (realFns_lawful T ninf pinf) d hab h
  have hs : 0 < d.o / (d.b - d.a) := div_pos ho hw
  cases hcv : d.convex with
  | true =>
    rw [cdf_even_convex_eq_mixture T ninf pinf d k hk hc hcv hab hp h]
    apply mixture_le_Phi k _ hk hs
    apply le_of_eq; field_simp; ring
  | false =>
    rw [cdf_even_concave_eq_mixture T ninf pinf d k hk hc hcv hab hp h]
    have := Phi_le_mixture k _ hk hs ((d.b - (d.a - 6 * d.o)) / (d.b - d.a))
      (by apply le_of_eq; field_simp; ring)
    linarith

/-- **(iv) upper tail**: the mass the bracket cuts off on the right, `1 − cdf(b + 6o)`, is at most `Φ(−6)` -/
theorem cdf_even_tail_hi (d : Params ℝ) (k : ℕ) (hk : 1 ≤ k) (hc : d.c = 2 * k) (hab : d.a ≤ d.b)
    (hp : pointMass (realFns T ninf pinf) d = false) (h : regime (realFns T ninf pinf) d = .nothing) :
    1 - Phi (-6) ≤ cdf (realFns T ninf pinf) d (d.b + 6 * d.o) := by
  obtain ⟨ho, hw⟩ := nothing_pos (realFns_lawful T ninf pinf) d hab h
  have hs : 0 < d.o / (d.b - d.a) := div_pos ho hw
  cases hcv : d.convex with
  | true =>
    rw [cdf_even_convex_eq_mixture T ninf pinf d k hk hc hcv hab hp h]
    apply Phi_le_mixture k _ hk hs
    apply le_of_eq; field_simp; ring
  | false =>
    rw [cdf_even_concave_eq_mixture T ninf pinf d k hk hc hcv hab hp h]
    have := mixture_le_Phi k _ hk hs ((d.b - (d.b + 6 * d.o)) / (d.b - d.a))
      (by apply le_of_eq; field_simp; ring)
    linarith

/-- **accuracy of the bisection, even `c`, explicit bound**: for `q ∈ [0,1]`
`|cdf(ppfBisect q) − q| ≤ k·(1 + 12 o/(b−a))/2^30 + Φ(−6)` — the Lipschitz constant times the final bracket
width, plus the Gaussian mass beyond six standard deviations. -/
theorem cdf_ppfBisect_even (d : Params ℝ) (k : ℕ) (hk : 1 ≤ k) (hc : d.c = 2 * k) (hab : d.a ≤ d.b)
    (hp : pointMass (realFns T ninf pinf) d = false) (h : regime (realFns T ninf pinf) d = .nothing)
    (q : ℝ) (hq0 : 0 ≤ q) (hq1 : q ≤ 1) :
    |cdf (realFns T ninf pinf) d (ppfBisect (realFns T ninf pinf) d q) - q|
      ≤ (k:ℝ) * (1 + 12 * (d.o / (d.b - d.a))) / 2 ^ 30 + Phi (-6) := by
  obtain ⟨ho, hw⟩ := nothing_pos (realFns_lawful T ninf pinf) d hab h
  have hacc := ppfBisect_accuracy (realFns_lawful T ninf pinf) d hab ho.le ((k:ℝ) / (d.b - d.a)) q
    (fun x y _ hxy _ => cdf_even_mono T ninf pinf d k hk hc hab hp h x y hxy)
    (fun x y _ hxy _ => cdf_even_lipschitz T ninf pinf d k hk hc hab hp h x y hxy)
  have hlo := cdf_even_tail_lo T ninf pinf d k hk hc hab hp h
  have hhi := cdf_even_tail_hi T ninf pinf d k hk hc hab hp h
  have hP0 : 0 ≤ Phi (-6) := Phi_nonneg _
  have htail : max 0 (max (cdf (realFns T ninf pinf) d (d.a - 6 * d.o) - q)
      (q - cdf (realFns T ninf pinf) d (d.b + 6 * d.o))) ≤ Phi (-6) :=
    max_le hP0 (max_le (by linarith) (by linarith))
  have e : (k:ℝ) / (d.b - d.a) * ((d.b - d.a + 12 * d.o) / 2 ^ 30)
      = (k:ℝ) * (1 + 12 * (d.o / (d.b - d.a))) / 2 ^ 30 := by
    field_simp
  rw [e] at hacc
  linarith

/-- the same for `ppf` itself at `q ∈ (0,1)` (where `ppf` returns the bisection result) -/
theorem cdf_ppf_even_explicit (d : Params ℝ) (k : ℕ) (hk : 1 ≤ k) (hc : d.c = 2 * k) (hab : d.a ≤ d.b)
    (hp : pointMass (realFns T ninf pinf) d = false) (h : regime (realFns T ninf pinf) d = .nothing)
    (q : ℝ) (hq0 : 0 < q) (hq1 : q < 1) :
    |cdf (realFns T ninf pinf) d (ppf (realFns T ninf pinf) d q) - q|
      ≤ (k:ℝ) * (1 + 12 * (d.o / (d.b - d.a))) / 2 ^ 30 + Phi (-6) := by
  have hcl : clip q 0 1 = q := clip_of_mem q 0 1 hq0.le hq1.le
  rw [ppf_nothing (realFns_lawful T ninf pinf) d hab q hp h, hcl, if_neg hq0.ne', if_neg hq1.ne]
  exact cdf_ppfBisect_even T ninf pinf d k hk hc hab hp h q hq0.le hq1.le

/-- **C07 accuracy clause, even `c ≤ 100`, exact real arithmetic, series regime**: `|cdf(ppf q) − q| ≤ 1e-5`
for every `q ∈ (0,1)`; in fact `≤ (121 k + 4096)/2^30` (`≤ 4.4e-6` for `c ≤ 10`). -/
theorem cdf_ppf_even (d : Params ℝ) (k : ℕ) (hk : 1 ≤ k) (hk50 : k ≤ 50) (hc : d.c = 2 * k) (hab : d.a ≤ d.b)
    (hp : pointMass (realFns T ninf pinf) d = false) (h : regime (realFns T ninf pinf) d = .nothing)
    (q : ℝ) (hq0 : 0 < q) (hq1 : q < 1) :
    |cdf (realFns T ninf pinf) d (ppf (realFns T ninf pinf) d q) - q| ≤ 1e-5 := by
  obtain ⟨ho, hw⟩ := nothing_pos (realFns_lawful T ninf pinf) d hab h
  obtain ⟨_, h10⟩ := (regime_nothing_iff (realFns_lawful T ninf pinf) d).mp h
  have hs10 : d.o / (d.b - d.a) ≤ 10 := by
    rw [div_le_iff₀ hw]; exact h10.le
  have hs0 : 0 ≤ d.o / (d.b - d.a) := (div_pos ho hw).le
  have hk' : (k:ℝ) ≤ 50 := by exact_mod_cast hk50
  have hk0 : (0:ℝ) ≤ k := by positivity
  have hmain := cdf_ppf_even_explicit T ninf pinf d k hk hc hab hp h q hq0 hq1
  have h1 : (k:ℝ) * (1 + 12 * (d.o / (d.b - d.a))) ≤ 50 * 121 := by nlinarith
  have h2 : (k:ℝ) * (1 + 12 * (d.o / (d.b - d.a))) / 2 ^ 30 ≤ 50 * 121 / 2 ^ 30 :=
    div_le_div_of_nonneg_right h1 (by positivity)
  have h3 := Phi_neg_six_le
  refine hmain.trans ((add_le_add h2 h3).trans ?_)
  norm_num

/-- **normal regime (`o ≥ 10 (b−a)`), every `c`, both shapes, exact arithmetic**: the closed forms
`ppf q = mean + sd·Φ⁻¹(q)` and `cdf y = Φ((y − mean)/sd)` are exact inverses on `(0,1)`. -/
theorem cdf_ppf_normal (d : Params ℝ) (hab : d.a ≤ d.b)
    (hp : pointMass (realFns T ninf pinf) d = false) (h : regime (realFns T ninf pinf) d = .normal)
    (q : ℝ) (hq0 : 0 < q) (hq1 : q < 1) :
    cdf (realFns T ninf pinf) d (ppf (realFns T ninf pinf) d q) = q := by
  obtain ⟨h1, h2⟩ := (regime_normal_iff (realFns_lawful T ninf pinf) d).mp h
  have hw : 0 ≤ d.b - d.a := sub_nonneg.mpr hab
  have ho : 0 < d.o := by
    rcases (lt_or_eq_of_le (le_trans (by positivity) h1 : (0:ℝ) ≤ d.o)) with h | h
    · exact h
    · exfalso
      have hba : d.b - d.a = 0 := le_antisymm (by linarith) hw
      have : pointMass (realFns T ninf pinf) d = true :=
        (pointMass_iff (realFns_lawful T ninf pinf) d).mpr ⟨by linarith, h.symm⟩
      rw [hp] at this; exact Bool.false_ne_true this
  have hv : 0 < varOf (realFns T ninf pinf) d := by
    unfold varOf
    have hn : ∀ j : ℕ, (realFns T ninf pinf).n j = (j : ℝ) := fun _ => rfl
    simp only [hn]
    have : 0 < d.o * d.o := mul_pos ho ho
    have : (0:ℝ) ≤ (d.b - d.a) * (d.b - d.a) * ((4:ℕ):ℝ) * (d.c:ℝ)
        / ((((d.c:ℕ):ℝ) + ((2:ℕ):ℝ)) * (((d.c:ℕ):ℝ) + ((2:ℕ):ℝ)) * (((d.c:ℕ):ℝ) + ((4:ℕ):ℝ))) := by positivity
    linarith
  have hsd : 0 < Real.sqrt (varOf (realFns T ninf pinf) d) := Real.sqrt_pos.mpr hv
  rw [ppf_normal d q hp h, cdf_normal d _ hp h]
  show Phi ((meanOf _ d + Real.sqrt (varOf _ d) * PhiInv (clip q ((0:ℕ):ℝ) ((1:ℕ):ℝ)) - meanOf _ d)
    / Real.sqrt (varOf _ d)) = q
  simp only [Nat.cast_zero, Nat.cast_one]
  rw [clip_of_mem q 0 1 hq0.le hq1.le]
  have e : (meanOf (realFns T ninf pinf) d + Real.sqrt (varOf (realFns T ninf pinf) d) * PhiInv q
      - meanOf (realFns T ninf pinf) d) / Real.sqrt (varOf (realFns T ninf pinf) d) = PhiInv q := by
    field_simp; ring
  rw [e]
  exact Opda.Normal.Phi_PhiInv q hq0 hq1

/-- **C07 accuracy clause, even `c ≤ 100`, exact real arithmetic, all three regimes** (every `a ≤ b`, `o ≥ 0`
other than the point mass `a = b ∧ o = 0`, both shapes): `|cdf(ppf q) − q| ≤ 1e-5` for every `q ∈ (0,1)`. -/
theorem cdf_ppf_even_all (d : Params ℝ) (k : ℕ) (hk : 1 ≤ k) (hk50 : k ≤ 50) (hc : d.c = 2 * k) (hab : d.a ≤ d.b)
    (ho : 0 ≤ d.o) (hp : pointMass (realFns T ninf pinf) d = false) (q : ℝ) (hq0 : 0 < q) (hq1 : q < 1) :
    |cdf (realFns T ninf pinf) d (ppf (realFns T ninf pinf) d q) - q| ≤ 1e-5 := by
  cases h : regime (realFns T ninf pinf) d with
  | nothing => exact cdf_ppf_even T ninf pinf d k hk hk50 hc hab hp h q hq0 hq1
  | noiseless =>
    rw [cdf_ppf_noiseless T ninf pinf d hab ho (by omega) hp h q hq0.le hq1.le]; norm_num
  | normal =>
    rw [cdf_ppf_normal T ninf pinf d hab hp h q hq0 hq1]; norm_num

end model

end Opda.Noisy
