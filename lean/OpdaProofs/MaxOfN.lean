import Mathlib.Algebra.BigOperators.Ring.Finset
import Mathlib.Algebra.BigOperators.Pi
import Mathlib.Data.Fintype.BigOperators
import Mathlib.Data.Real.Basic
import Mathlib.Tactic

/-!
C04-T2': for a discrete distribution with atoms `y j` and weights `w j` (`j : Fin N`), the
probability (under the `n`-fold product weights) that all `n` draws are `≤ t` — i.e. that their
maximum is `≤ t` — is `F(t)^n`, `F(t) = Σ{w j : y j ≤ t}`.  This identifies the code's
`_ws_cumsum ** n` with the CDF of the best of `n` i.i.d. draws, for integer `n`.
-/
namespace Opda.MaxOfN
open Finset

theorem cdf_pow_eq_prob_all_le {N : ℕ} (y w : Fin N → ℝ) (t : ℝ) (n : ℕ) :
    (∑ j, if y j ≤ t then w j else 0) ^ n
      = ∑ g : Fin n → Fin N, if (∀ i, y (g i) ≤ t) then ∏ i, w (g i) else 0 := by
  classical
  have h := Finset.prod_univ_sum (fun _ : Fin n => (univ : Finset (Fin N)))
    (fun _ j => if y j ≤ t then w j else 0)
  simp only [prod_const, card_univ, Fintype.card_fin] at h
  rw [h, Fintype.piFinset_univ]
  apply sum_congr rfl
  intro g _
  rw [Finset.prod_ite_zero]
  simp

#print axioms cdf_pow_eq_prob_all_le
end Opda.MaxOfN
