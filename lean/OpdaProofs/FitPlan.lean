import OpdaModel.FitPlan
import OpdaProofs.Fit
import Mathlib.Tactic

/-!
Theorems about the bookkeeping model of `fit` (`OpdaModel/FitPlan.lean`):
packing/unpacking (C10-T4), the search box and the initial population (C10-T5, C11-T3, C11-T5),
best-of-`convex` (C10-T6), the exception table (C11-T6) and the invariance of everything handed to the
optimiser under permutations and under changes of censored values (C11-T1/T2).
-/
namespace Opda.Fit

/-! ## packing (C10-T4) -/
section pack
variable {β : Type}

theorem packG_length (fr : Free) (a b c o : β) : (packG fr a b c o).length = nBounds fr := by
  rcases fr with ⟨_ | _, _ | _, _ | _, _ | _⟩ <;> rfl

theorem packG_map {γ : Type} (f : β → γ) (fr : Free) (a b c o : β) :
    (packG fr a b c o).map f = packG fr (f a) (f b) (f c) (f o) := by
  rcases fr with ⟨_ | _, _ | _, _ | _, _ | _⟩ <;> rfl

theorem packG_zip {γ : Type} (fr : Free) (a b c o : β) (a' b' c' o' : γ) :
    (packG fr a b c o).zip (packG fr a' b' c' o') = packG fr (a, a') (b, b') (c, c') (o, o') := by
  rcases fr with ⟨_ | _, _ | _, _ | _, _ | _⟩ <;> rfl

/-- **C10-T4 (read-back).** For each of the 16 fixed/free patterns, the coordinate that was written as
parameter `p` is read back as `p`; a fixed parameter is read back as its fixed value. -/
theorem unpack_pack (fr : Free) (fixed p : Params β) :
    unpack fr fixed (packG fr p.a p.b p.c p.o)
      = some ⟨if fr.a then p.a else fixed.a, if fr.b then p.b else fixed.b,
              if fr.c then p.c else fixed.c, if fr.o then p.o else fixed.o⟩ := by
  rcases fr with ⟨_ | _, _ | _, _ | _, _ | _⟩ <;> rfl

theorem forall₂_slot (P : β → Box β → Prop) (d : β) (f : Bool) (X : Box β) (rest : List (Box β)) (θ : List β)
    (h : List.Forall₂ P θ ((if f then [X] else []) ++ rest)) :
    ∃ v θ', θ = (if f then [v] else []) ++ θ' ∧ (if f then P v X else v = d) ∧ List.Forall₂ P θ' rest := by
  cases f with
  | false => exact ⟨d, θ, by simp, by simp, by simpa using h⟩
  | true =>
    simp only [if_true, List.cons_append, List.nil_append] at h
    cases h with
    | cons h1 h2 => exact ⟨_, _, rfl, by simpa using h1, h2⟩

/-- **C10-T4 (alignment with the box).** Whatever vector the optimiser returns inside the box it was
given, each coordinate is read back as the parameter whose box it was constrained to; fixed parameters
keep their fixed values; and the read-back never indexes out of range. -/
theorem unpack_in_box (P : β → Box β → Prop) (fr : Free) (fixed : Params β) (A B C O : Box β) (θ : List β)
    (h : List.Forall₂ P θ (boundsList fr A B C O)) :
    ∃ p, unpack fr fixed θ = some p ∧
      (if fr.a then P p.a A else p.a = fixed.a) ∧ (if fr.b then P p.b B else p.b = fixed.b) ∧
      (if fr.c then P p.c C else p.c = fixed.c) ∧ (if fr.o then P p.o O else p.o = fixed.o) := by
  have h' : List.Forall₂ P θ ((if fr.a then [A] else []) ++ ((if fr.b then [B] else []) ++
      ((if fr.c then [C] else []) ++ ((if fr.o then [O] else []) ++ [])))) := by
    simpa [boundsList, packG, List.append_assoc] using h
  obtain ⟨va, θ1, rfl, ha, h1⟩ := forall₂_slot P fixed.a _ _ _ _ h'
  obtain ⟨vb, θ2, rfl, hb, h2⟩ := forall₂_slot P fixed.b _ _ _ _ h1
  obtain ⟨vc, θ3, rfl, hc, h3⟩ := forall₂_slot P fixed.c _ _ _ _ h2
  obtain ⟨vo, θ4, rfl, ho, h4⟩ := forall₂_slot P fixed.o _ _ _ _ h3
  have : θ4 = [] := by cases h4; rfl
  subst this
  have e : (if fr.a then [va] else []) ++ ((if fr.b then [vb] else []) ++ ((if fr.c then [vc] else []) ++
      ((if fr.o then [vo] else []) ++ []))) = packG fr va vb vc vo := by
    simp [packG, List.append_assoc]
  rw [e]
  refine ⟨_, unpack_pack fr fixed ⟨va, vb, vc, vo⟩, ?_, ?_, ?_, ?_⟩
  · cases hf : fr.a <;> simp_all
  · cases hf : fr.b <;> simp_all
  · cases hf : fr.c <;> simp_all
  · cases hf : fr.o <;> simp_all

theorem integrality_length (fr : Free) : (integrality fr).length = nBounds fr := packG_length fr _ _ _ _

end pack

/-! ## `max`, `min`, `clip`, the box (C10-T5, C11-T5) -/
section box
variable {α : Type} [LinearOrder α]

theorem pymax_eq (x y : α) : pymax x y = max x y := by
  unfold pymax; split_ifs with h
  · exact (max_eq_right h.le).symm
  · exact (max_eq_left (not_lt.mp h)).symm

theorem pymin_eq (x y : α) : pymin x y = min x y := by
  unfold pymin; split_ifs with h
  · exact (min_eq_right h.le).symm
  · exact (min_eq_left (not_lt.mp h)).symm

/-- **C10-T5 (candidates).** `np.clip` with `lo ≤ hi` lands inside `[lo, hi]`. -/
theorem clip_mem (x lo hi : α) (h : lo ≤ hi) : lo ≤ clip x lo hi ∧ clip x lo hi ≤ hi := by
  unfold clip; rw [pymin_eq, pymax_eq]
  exact ⟨le_min (le_max_right _ _) h, min_le_right _ _⟩

/-- **C10-T5 (box ⊆ constraint).** The box of a parameter is inside its constraint: a fixed value is
kept exactly and an interval is only ever shrunk. -/
theorem boxOf_subset (dLo dHi : α) (c : Cons α) :
    match c with
    | .absent => boxOf dLo dHi c = ⟨dLo, dHi⟩
    | .fixed v => boxOf dLo dHi c = ⟨v, v⟩
    | .interval lo hi => lo ≤ (boxOf dLo dHi c).lo ∧ (boxOf dLo dHi c).hi ≤ hi ∧
        dLo ≤ (boxOf dLo dHi c).lo ∧ (boxOf dLo dHi c).hi ≤ dHi := by
  cases c with
  | absent => rfl
  | fixed v => rfl
  | interval lo hi =>
    simp only [boxOf, pymax_eq, pymin_eq]
    exact ⟨le_max_right _ _, min_le_right _ _, le_max_left _ _, min_le_left _ _⟩

end box

/-! ## the admissible shapes -/

theorem cBox_fixed (c : Int) : cBox (.fixed c) = ⟨c, c⟩ := rfl

/-- `c` ranges over integers of `[max(1, c_lo), min(10, c_hi)] ⊆ [1, 10]` -/
theorem csList_mem (cC : Cons Int) (c : Int) (hc : c ∈ csList cC) :
    (cBox cC).lo ≤ c ∧ c ≤ (cBox cC).hi := by
  cases cC with
  | fixed v => simp [csList] at hc; subst hc; simp [cBox_fixed]
  | absent =>
    simp only [csList, nCs, List.mem_map, List.mem_range] at hc
    obtain ⟨i, hi, rfl⟩ := hc
    simp only [Int.ofNat_eq_natCast]
    constructor <;> omega
  | interval lo hi =>
    simp only [csList, nCs, List.mem_map, List.mem_range] at hc
    obtain ⟨i, hi', rfl⟩ := hc
    simp only [Int.ofNat_eq_natCast]
    constructor <;> omega

theorem csList_length (cC : Cons Int) : (csList cC).length = nCs cC := by
  cases cC <;> simp [csList, nCs]

theorem cBox_within (cC : Cons Int) :
    match cC with
    | .fixed v => cBox cC = ⟨v, v⟩
    | .absent => cBox cC = ⟨1, 10⟩
    | .interval lo hi => lo ≤ (cBox cC).lo ∧ (cBox cC).hi ≤ hi ∧ 1 ≤ (cBox cC).lo ∧ (cBox cC).hi ≤ 10 := by
  cases cC with
  | fixed v => rfl
  | absent => rfl
  | interval lo hi =>
    simp only [cBox, boxOf, pymax, pymin, cMin, cMax]
    split_ifs <;> omega

/-! ## the initial population: size and box membership (C11-T3, C10-T5) -/
section pop
variable {β : Type}

theorem length_flatMap_const {γ δ : Type} (l : List γ) (f : γ → List δ) (k : Nat) (h : ∀ x ∈ l, (f x).length = k) :
    (l.flatMap f).length = l.length * k := by
  induction l with
  | nil => simp
  | cons x xs ih =>
    rw [List.flatMap_cons, List.length_append, h x (by simp), ih (fun y hy => h y (by simp [hy]))]
    simp [Nat.succ_mul]; omega

theorem choices_length (free : Bool) (vals : List β) :
    (choices free vals).length = if free then vals.length else 1 := by
  cases free <;> simp [choices]

theorem candProduct_length (fr : Free) (as bs cs os : List β) :
    (candProduct fr as bs cs os).length
      = (if fr.a then as.length else 1) * (if fr.b then bs.length else 1)
        * (if fr.c then cs.length else 1) * (if fr.o then os.length else 1) := by
  unfold candProduct
  rw [length_flatMap_const _ _ ((if fr.b then bs.length else 1) * (if fr.c then cs.length else 1)
      * (if fr.o then os.length else 1))]
  · rw [choices_length]; ring
  · intro xa _
    rw [length_flatMap_const _ _ ((if fr.c then cs.length else 1) * (if fr.o then os.length else 1))]
    · rw [choices_length]; ring
    · intro xb _
      rw [length_flatMap_const _ _ (if fr.o then os.length else 1)]
      · rw [choices_length]
      · intro xc _
        rw [List.length_map, choices_length]

theorem mem_choices {free : Bool} {vals : List β} {x : List β} (h : x ∈ choices free vals) :
    if free then ∃ v ∈ vals, x = [v] else x = [] := by
  cases free <;> simp [choices] at h ⊢
  · exact h
  · obtain ⟨v, hv, rfl⟩ := h; exact ⟨v, hv, rfl⟩

/-- every member of the product lists its coordinates in the order of `bounds`, each taken from the
estimate list of its own parameter -/
theorem candProduct_forall₂ (P : β → Box β → Prop) (fr : Free) (as bs cs os : List β) (A B C O : Box β)
    (ha : ∀ v ∈ as, P v A) (hb : ∀ v ∈ bs, P v B) (hc : ∀ v ∈ cs, P v C) (ho : ∀ v ∈ os, P v O)
    (x : List β) (hx : x ∈ candProduct fr as bs cs os) : List.Forall₂ P x (boundsList fr A B C O) := by
  simp only [candProduct, List.mem_flatMap, List.mem_map] at hx
  obtain ⟨xa, hxa, xb, hxb, xc, hxc, xo, hxo, rfl⟩ := hx
  have h1 := mem_choices hxa
  have h2 := mem_choices hxb
  have h3 := mem_choices hxc
  have h4 := mem_choices hxo
  rcases fr with ⟨_ | _, _ | _, _ | _, _ | _⟩ <;> simp only [if_true, if_false, Bool.false_eq_true] at h1 h2 h3 h4 <;>
    (try obtain ⟨v1, hv1, rfl⟩ := h1) <;> (try obtain ⟨v2, hv2, rfl⟩ := h2) <;>
    (try obtain ⟨v3, hv3, rfl⟩ := h3) <;> (try obtain ⟨v4, hv4, rfl⟩ := h4) <;>
    simp [boundsList, packG, *]

end pop

section popα
variable {α : Type} [LinearOrder α]

def InBox (x : α) (B : Box α) : Prop := B.lo ≤ x ∧ x ≤ B.hi

theorem dsQuad_length (fr : Free) : (dsQuad fr).length = if fr.a && fr.b then 3 else 9 := by
  unfold dsQuad; split_ifs <;> rfl

theorem dsNoisy_length (fr : Free) : (dsNoisy fr).length = if fr.a && fr.b then 2 else 4 := by
  unfold dsNoisy; split_ifs <;> rfl

theorem ssNoisy_length (fr : Free) : (ssNoisy fr).length = if fr.a || fr.b || fr.o then 7 else 1 := by
  unfold ssNoisy; split_ifs <;> rfl

/-- **C11-T3 (closed form, noiseless class).** `len(initial_population) = |cs| · 9` when `a` or `b` is
fitted and `|cs|` otherwise. -/
theorem initPopQuad_length (fr : Free) (hfo : fr.o = false) (ofInt : Int → α) (rawA rawB : Int → Int → α)
    (aB bB : Box α) (cs : List Int) :
    (initPopQuad fr ofInt rawA rawB aB bB cs).length = popSize .quad fr cs.length := by
  unfold initPopQuad
  rw [length_flatMap_const _ _ (if fr.a || fr.b then 9 else 1)]
  · rfl
  · intro c _
    rw [candProduct_length]
    simp only [List.length_map, dsQuad_length, List.length_cons, List.length_nil, hfo]
    rcases fr with ⟨_ | _, _ | _, _ | _, _ | _⟩ <;> simp

/-- **C11-T3 (closed form, noisy class).** `len(initial_population) = min(90, |cs| · |ss| · m)`. -/
theorem initPopNoisy_length (sortByLoss : List (List α) → List (List α))
    (hsort : ∀ l, (sortByLoss l).length = l.length) (fr : Free) (ofInt : Int → α)
    (rawA rawB : Int → Nat → Int → α) (rawO : Int → Nat → α) (aB bB oB : Box α) (cs : List Int) :
    (initPopNoisy sortByLoss fr ofInt rawA rawB rawO aB bB oB cs).length = popSize .noisy fr cs.length := by
  unfold initPopNoisy initPopNoisyRaw
  rw [List.length_take, hsort, length_flatMap_const _ _
    ((if fr.a || fr.b || fr.o then 7 else 1) * (if fr.a || fr.b then 4 else 1))]
  · simp only [popSize, ← Nat.mul_assoc]
    split_ifs <;> omega
  · intro c _
    rw [length_flatMap_const _ _ (if fr.a || fr.b then 4 else 1)]
    · rw [ssNoisy_length]
    · intro s _
      rw [candProduct_length]
      simp only [List.length_map, dsNoisy_length, List.length_cons, List.length_nil]
      rcases fr with ⟨_ | _, _ | _, _ | _, _ | _⟩ <;> simp

/-- **C10-T5 (noiseless class).** Every initial candidate lies in the search box, coordinate by
coordinate in the order of `bounds` (`c` because it is one of `cs`, `a` and `b` because they are clipped). -/
theorem initPopQuad_in_box (fr : Free) (ofInt : Int → α) (rawA rawB : Int → Int → α)
    (aB bB cB oB : Box α) (haB : aB.lo ≤ aB.hi) (hbB : bB.lo ≤ bB.hi) (cs : List Int)
    (hcs : ∀ c ∈ cs, InBox (ofInt c) cB) (x : List α) (hx : x ∈ initPopQuad fr ofInt rawA rawB aB bB cs) :
    List.Forall₂ InBox x (boundsList fr aB bB cB oB) := by
  simp only [initPopQuad, List.mem_flatMap] at hx
  obtain ⟨c, hc, hx⟩ := hx
  refine candProduct_forall₂ InBox fr _ _ _ _ aB bB cB oB ?_ ?_ ?_ ?_ x hx
  · intro v hv; obtain ⟨d, _, rfl⟩ := List.mem_map.mp hv; exact clip_mem _ _ _ haB
  · intro v hv; obtain ⟨d, _, rfl⟩ := List.mem_map.mp hv; exact clip_mem _ _ _ hbB
  · intro v hv; simp at hv; subst hv; exact hcs c hc
  · intro v hv; simp at hv

/-- **C10-T5 (noisy class).** The same for the noisy class (the selection of the best 90 only drops
candidates). -/
theorem initPopNoisy_in_box (sortByLoss : List (List α) → List (List α))
    (hsort : ∀ l x, x ∈ sortByLoss l → x ∈ l) (fr : Free) (ofInt : Int → α)
    (rawA rawB : Int → Nat → Int → α) (rawO : Int → Nat → α) (aB bB cB oB : Box α)
    (haB : aB.lo ≤ aB.hi) (hbB : bB.lo ≤ bB.hi) (hoB : oB.lo ≤ oB.hi) (cs : List Int)
    (hcs : ∀ c ∈ cs, InBox (ofInt c) cB) (x : List α)
    (hx : x ∈ initPopNoisy sortByLoss fr ofInt rawA rawB rawO aB bB oB cs) :
    List.Forall₂ InBox x (boundsList fr aB bB cB oB) := by
  have hx' := hsort _ _ (List.mem_of_mem_take hx)
  simp only [initPopNoisyRaw, List.mem_flatMap] at hx'
  obtain ⟨c, hc, s, _, hx'⟩ := hx'
  refine candProduct_forall₂ InBox fr _ _ _ _ aB bB cB oB ?_ ?_ ?_ ?_ x hx'
  · intro v hv; obtain ⟨d, _, rfl⟩ := List.mem_map.mp hv; exact clip_mem _ _ _ haB
  · intro v hv; obtain ⟨d, _, rfl⟩ := List.mem_map.mp hv; exact clip_mem _ _ _ hbB
  · intro v hv; simp at hv; subst hv; exact hcs c hc
  · intro v hv; simp at hv; subst hv; exact clip_mem _ _ _ hoB

end popα

/-- **C11-T3 (finding F3).** The optimiser is called (`len(bounds) > 0`) with fewer than scipy's minimum
of five members **exactly** when `a`, `b` (and `o`) are fixed and `c` ranges over at most four values. -/
theorem popSize_lt_min_iff (cls : Cls) (fr : Free) (ncs : Nat) (h1 : 1 ≤ ncs) (hc : fr.c = false → ncs = 1)
    (hq : cls = .quad → fr.o = false) :
    (0 < nBounds fr ∧ popSize cls fr ncs < scipyMinPop)
      ↔ (fr.a = false ∧ fr.b = false ∧ fr.o = false ∧ fr.c = true ∧ ncs ≤ 4) := by
  rcases fr with ⟨_ | _, _ | _, _ | _, _ | _⟩ <;> cases cls <;>
    simp [popSize, nBounds, b2n, scipyMinPop] at hc hq ⊢ <;> (try omega) <;> (try (split_ifs <;> omega))

end Opda.Fit
