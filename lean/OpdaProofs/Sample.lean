import OpdaModel.Sample
import OpdaProofs.RealInst
import OpdaProofs.QuadLaw
import OpdaProofs.QuadInv
import OpdaProofs.Emp
import OpdaProofs.InverseTransform
import Mathlib.MeasureTheory.Measure.Lebesgue.Basic
import Mathlib.MeasureTheory.Group.Convolution
import Mathlib.Probability.Independence.Basic
import Mathlib.Probability.Distributions.Gaussian.Real
import Mathlib.Tactic

/-!
C13: the law of what the three `sample` methods compute from the generator's primitives.

* `quad_galois` + `inverse_transform` ⇒ `P[ppf(U) ≤ y] = cdf(y)` for the noiseless class;
* `pick_volume`: `P[ys[searchsortedRight(cumsum w / Σw, U)] ∈ A] = Σ{w_i : y_i ∈ A} / Σw` for every event `A`
  (so every atom gets its weight, and `P[· ≤ y]` is the class's cdf);
* `noisy_law`: quadratic part + independent normal ⇒ the law is the convolution with `N(0, o²)`.
-/
namespace Opda.Sample
open MeasureTheory Set Opda.Emp

/-! ## noiseless class -/

/-- Galois law of the quadratic class: for `0 < u ≤ 1`, `ppf u ≤ y ↔ u ≤ cdf y`. -/
theorem quad_galois (d : Opda.Quad.Params ℝ) (hab : d.a < d.b) (hc : 0 < d.c) (y u : ℝ) (hu0 : 0 < u) (hu1 : u ≤ 1) :
    Opda.Quad.ppf d u ≤ y ↔ u ≤ Opda.Quad.cdf d y := by
  constructor
  · intro h
    have := Opda.Quad.cdf_mono d hab hc h
    rwa [Opda.Quad.cdf_ppf d hab hc u hu0.le hu1] at this
  · intro h
    rcases lt_or_ge y d.a with hya | hya
    · rw [Opda.Quad.cdf_below d hab hc y hya.le] at h
      exact absurd h (not_le.mpr hu0)
    · rcases le_or_gt y d.b with hyb | hyb
      · have := Opda.Quad.ppf_mono d hab.le hc h
        rwa [Opda.Quad.ppf_cdf d hab hc y hya hyb] at this
      · exact ((Opda.Quad.ppf_mem d hab.le hc u).2.trans hyb.le)

/-- numpy's `uniform`/`random` return values in `[0,1)`, the Galois law lives on `(0,1]`: the two events
differ by a subset of `{0, 1}`, which is null. -/
theorem volume_Ico_eq_Ioc (p : ℝ → Prop) :
    volume {u : ℝ | u ∈ Ico (0:ℝ) 1 ∧ p u} = volume {u : ℝ | u ∈ Ioc (0:ℝ) 1 ∧ p u} := by
  apply le_antisymm
  · calc volume {u : ℝ | u ∈ Ico (0:ℝ) 1 ∧ p u}
        ≤ volume ({u : ℝ | u ∈ Ioc (0:ℝ) 1 ∧ p u} ∪ {0}) := by
          apply measure_mono
          rintro u ⟨⟨h0, h1⟩, hp⟩
          rcases eq_or_lt_of_le h0 with h | h
          · right; exact h.symm
          · left; exact ⟨⟨h, h1.le⟩, hp⟩
      _ ≤ volume {u : ℝ | u ∈ Ioc (0:ℝ) 1 ∧ p u} + volume ({0} : Set ℝ) := measure_union_le _ _
      _ = volume {u : ℝ | u ∈ Ioc (0:ℝ) 1 ∧ p u} := by rw [Real.volume_singleton, add_zero]
  · calc volume {u : ℝ | u ∈ Ioc (0:ℝ) 1 ∧ p u}
        ≤ volume ({u : ℝ | u ∈ Ico (0:ℝ) 1 ∧ p u} ∪ {1}) := by
          apply measure_mono
          rintro u ⟨⟨h0, h1⟩, hp⟩
          rcases eq_or_lt_of_le h1 with h | h
          · right; exact h
          · left; exact ⟨⟨h0.le, h⟩, hp⟩
      _ ≤ volume {u : ℝ | u ∈ Ico (0:ℝ) 1 ∧ p u} + volume ({1} : Set ℝ) := measure_union_le _ _
      _ = volume {u : ℝ | u ∈ Ico (0:ℝ) 1 ∧ p u} := by rw [Real.volume_singleton, add_zero]

/-- law of `QuadraticDistribution.sample`: for `U` uniform on `[0,1)`, `P[ppf(U) ≤ y] = cdf(y)` -/
theorem quad_sample_law (d : Opda.Quad.Params ℝ) (hab : d.a < d.b) (hc : 0 < d.c) (y : ℝ) :
    volume {u : ℝ | u ∈ Ico (0:ℝ) 1 ∧ quadSample d u ≤ y} = ENNReal.ofReal (Opda.Quad.cdf d y) := by
  rw [volume_Ico_eq_Ioc]
  exact Opda.Sampling.inverse_transform (Opda.Quad.ppf d) (Opda.Quad.cdf d) y
    (Opda.Quad.cdf_mem d hab hc y).1 (Opda.Quad.cdf_mem d hab hc y).2
    (fun u h0 h1 => quad_galois d hab hc y u h0 h1)

/-! ## empirical class through its quantile function -/

section emp
variable {E : Type} [LinearOrder E] [OrderBot E] [OrderTop E]

theorem weightLE_le_total {E : Type} [LinearOrder E] (y : E) (obs : List (E × ℝ)) (hn : NonNeg obs) :
    weightLE y obs ≤ total obs := by
  induction obs with
  | nil => simp [weightLE, total]
  | cons p rest ih =>
    obtain ⟨u, x⟩ := p
    have hx : 0 ≤ x := hn (u, x) List.mem_cons_self
    have := ih (fun q hq => hn q (List.mem_cons_of_mem _ hq))
    simp only [weightLE, total]
    split_ifs <;> linarith

theorem cdf_support_mem (a b y : E) (obs : List (E × ℝ)) (hn : NonNeg obs) (htot : 0 < total obs) :
    0 ≤ cdf (support ⊥ ⊤ a b obs) y ∧ cdf (support ⊥ ⊤ a b obs) y ≤ 1 := by
  rw [cdf_support]
  exact ⟨div_nonneg (weightLE_nonneg y obs hn) htot.le, (div_le_one htot).mpr (weightLE_le_total y obs hn)⟩

/-- inverse-transform sampling through the empirical `ppf`: `P[ppf(U) ≤ y] = cdf(y)` for `y ≥ a` -/
theorem emp_ppf_sample_law (a b y : E) (obs : List (E × ℝ)) (hn : NonNeg obs) (htot : 0 < total obs) (hay : a ≤ y) :
    volume {u : ℝ | u ∈ Ioc (0:ℝ) 1 ∧ ppf a (support ⊥ ⊤ a b obs) u ≤ y}
      = ENNReal.ofReal (cdf (support ⊥ ⊤ a b obs) y) :=
  Opda.Sampling.inverse_transform (ppf a (support ⊥ ⊤ a b obs)) (cdf (support ⊥ ⊤ a b obs)) y
    (cdf_support_mem a b y obs hn htot).1 (cdf_support_mem a b y obs hn htot).2
    (fun u h0 h1 => ppf_le_iff a b y obs hn htot u h0 h1 hay)

end emp

/-! ## `generator.choice(ys, p=ws)` -/

section choice
variable {E : Type}

/-- total weight of the observations in the event `p` -/
def weightP (p : E → Prop) [DecidablePred p] : List (E × ℝ) → ℝ
  | [] => 0
  | (u, x) :: rest => (if p u then x else 0) + weightP p rest

theorem weightP_nonneg (p : E → Prop) [DecidablePred p] (l : List (E × ℝ)) (hn : ∀ q ∈ l, 0 ≤ q.2) :
    0 ≤ weightP p l := by
  induction l with
  | nil => simp [weightP]
  | cons q rest ih =>
    obtain ⟨u, x⟩ := q
    have hx : 0 ≤ x := hn (u, x) List.mem_cons_self
    have := ih (fun q hq => hn q (List.mem_cons_of_mem _ hq))
    simp only [weightP]
    split_ifs <;> linarith

theorem weightP_eq_weightEq [LinearOrder E] (v : E) (l : List (E × ℝ)) : weightP (fun y => y = v) l = weightEq v l := by
  induction l with
  | nil => rfl
  | cons q rest ih => obtain ⟨u, x⟩ := q; simp only [weightP, weightEq, ih]

theorem weightP_eq_weightLE [LinearOrder E] (y : E) (l : List (E × ℝ)) : weightP (fun v => v ≤ y) l = weightLE y l := by
  induction l with
  | nil => rfl
  | cons q rest ih => obtain ⟨u, x⟩ := q; simp only [weightP, weightLE, ih]

/-- beyond the last running weight the search falls off the end -/
theorem pickAux_none (tot : ℝ) (htot : 0 < tot) (u : ℝ) (l : List (E × ℝ)) (hn : ∀ q ∈ l, 0 ≤ q.2) (acc : ℝ)
    (h : (acc + total l) / tot ≤ u) : pickAux tot u acc l = none := by
  induction l generalizing acc with
  | nil => rfl
  | cons q rest ih =>
    obtain ⟨y, w⟩ := q
    have hrest : 0 ≤ total rest := by
      have := weightP_nonneg (fun _ => True) rest (fun q hq => hn q (List.mem_cons_of_mem _ hq))
      have e : weightP (fun _ : E => True) rest = total rest := by
        clear this ih h hn
        induction rest with
        | nil => rfl
        | cons q r ih => obtain ⟨a, b⟩ := q; simp only [weightP, total, ih, if_true]
      rwa [e] at this
    simp only [total] at h
    have h1 : (acc + w) / tot ≤ u := by
      refine le_trans ?_ h
      exact div_le_div_of_nonneg_right (by linarith) htot.le
    simp only [pickAux, if_neg (not_lt.mpr h1)]
    exact ih (fun q hq => hn q (List.mem_cons_of_mem _ hq)) (acc + w) (by rw [add_assoc]; exact h)

/-- **every event gets its weight**: the set of `u ≥ acc/tot` at which the search returns an observation
in `p` is measurable and has Lebesgue measure `Σ{w_i : p y_i} / tot`. -/
theorem pickAux_volume (p : E → Prop) [DecidablePred p] (tot : ℝ) (htot : 0 < tot) (l : List (E × ℝ))
    (hn : ∀ q ∈ l, 0 ≤ q.2) (acc : ℝ) :
    MeasurableSet {u : ℝ | acc / tot ≤ u ∧ ∃ v, pickAux tot u acc l = some v ∧ p v}
      ∧ volume {u : ℝ | acc / tot ≤ u ∧ ∃ v, pickAux tot u acc l = some v ∧ p v}
          = ENNReal.ofReal (weightP p l / tot) := by
  induction l generalizing acc with
  | nil =>
    have : {u : ℝ | acc / tot ≤ u ∧ ∃ v, pickAux (E := E) tot u acc [] = some v ∧ p v} = ∅ := by
      ext u; simp [pickAux]
    rw [this]
    simp [weightP]
  | cons q rest ih =>
    obtain ⟨y, w⟩ := q
    have hw : 0 ≤ w := hn (y, w) List.mem_cons_self
    have hn' : ∀ q ∈ rest, 0 ≤ q.2 := fun q hq => hn q (List.mem_cons_of_mem _ hq)
    obtain ⟨hBm, hBv⟩ := ih hn' (acc + w)
    set B : Set ℝ := {u : ℝ | (acc + w) / tot ≤ u ∧ ∃ v, pickAux tot u (acc + w) rest = some v ∧ p v} with hB
    set A : Set ℝ := {u : ℝ | acc / tot ≤ u ∧ u < (acc + w) / tot ∧ p y} with hA
    have hle : acc / tot ≤ (acc + w) / tot := div_le_div_of_nonneg_right (by linarith) htot.le
    have hsplit : {u : ℝ | acc / tot ≤ u ∧ ∃ v, pickAux tot u acc ((y, w) :: rest) = some v ∧ p v} = A ∪ B := by
      ext u
      simp only [pickAux, mem_ofPred_eq, mem_union, hA, hB]
      constructor
      · rintro ⟨h0, v, hv, hp⟩
        by_cases hlt : u < (acc + w) / tot
        · rw [if_pos hlt] at hv
          cases hv
          exact Or.inl ⟨h0, hlt, hp⟩
        · rw [if_neg hlt] at hv
          exact Or.inr ⟨not_lt.mp hlt, v, hv, hp⟩
      · rintro (⟨h0, hlt, hp⟩ | ⟨hge, v, hv, hp⟩)
        · exact ⟨h0, y, by rw [if_pos hlt], hp⟩
        · exact ⟨hle.trans hge, v, by rw [if_neg (not_lt.mpr hge)]; exact hv, hp⟩
    have hAeq : A = if p y then Ico (acc / tot) ((acc + w) / tot) else ∅ := by
      ext u
      by_cases hp : p y
      · simp only [hA, hp, and_true, if_true, mem_ofPred_eq, mem_Ico]
      · simp only [hA, hp, and_false, if_false, mem_ofPred_eq, mem_empty_iff_false]
    have hAm : MeasurableSet A := by
      rw [hAeq]; split_ifs
      · exact measurableSet_Ico
      · exact MeasurableSet.empty
    have hAv : volume A = ENNReal.ofReal ((if p y then w else 0) / tot) := by
      rw [hAeq]
      split_ifs
      · rw [Real.volume_Ico]; congr 1; field_simp; ring
      · simp
    have hdisj : Disjoint A B := by
      rw [Set.disjoint_left]
      rintro u ⟨_, hlt, _⟩ ⟨hge, _⟩
      exact absurd hlt (not_lt.mpr hge)
    rw [hsplit]
    refine ⟨hAm.union hBm, ?_⟩
    rw [measure_union hdisj hBm, hAv, hBv, ← ENNReal.ofReal_add]
    · simp only [weightP]; congr 1; ring
    · apply div_nonneg _ htot.le; split_ifs <;> linarith
    · exact div_nonneg (weightP_nonneg p rest hn') htot.le

/-- law of `generator.choice(ys, p=ws)`: for `U` uniform on `[0,1)` and every event `p`,
`P[pick(U) ∈ p] = Σ{w_i : p y_i} / Σ w_i`. -/
theorem pick_volume (p : E → Prop) [DecidablePred p] (obs : List (E × ℝ)) (hn : ∀ q ∈ obs, 0 ≤ q.2)
    (htot : 0 < total obs) :
    volume {u : ℝ | u ∈ Ico (0:ℝ) 1 ∧ ∃ v, pick obs u = some v ∧ p v}
      = ENNReal.ofReal (weightP p obs / total obs) := by
  have key := (pickAux_volume p (total obs) htot obs hn 0).2
  rw [← key]
  congr 1
  ext u
  simp only [mem_ofPred_eq, mem_Ico, zero_div, pick]
  constructor
  · rintro ⟨⟨h0, _⟩, h⟩; exact ⟨h0, h⟩
  · rintro ⟨h0, v, hv, hp⟩
    refine ⟨⟨h0, ?_⟩, v, hv, hp⟩
    by_contra hge
    have := pickAux_none (total obs) htot u obs hn 0 (by rw [zero_add, div_self htot.ne']; exact not_lt.mp hge)
    rw [this] at hv; cases hv

/-- inside `[acc/tot, (acc+Σw)/tot)` the search never falls off the end (numpy's index is in range) … -/
theorem pickAux_isSome (tot : ℝ) (u : ℝ) (l : List (E × ℝ)) (acc : ℝ)
    (h0 : acc / tot ≤ u) (h : u < (acc + total l) / tot) : ∃ v, pickAux tot u acc l = some v := by
  induction l generalizing acc with
  | nil =>
    simp only [total, add_zero] at h
    exact absurd h (not_lt.mpr h0)
  | cons q rest ih =>
    obtain ⟨y, w⟩ := q
    by_cases hlt : u < (acc + w) / tot
    · exact ⟨y, by simp only [pickAux, if_pos hlt]⟩
    · simp only [pickAux, if_neg hlt]
      exact ih (acc + w) (not_lt.mp hlt) (by simp only [total] at h; rw [add_assoc]; exact h)

/-- … and what it returns is an observation with positive weight -/
theorem pickAux_support (tot : ℝ) (htot : 0 < tot) (u : ℝ) (l : List (E × ℝ)) (acc : ℝ) (h0 : acc / tot ≤ u) (v : E)
    (hv : pickAux tot u acc l = some v) : ∃ q ∈ l, q.1 = v ∧ 0 < q.2 := by
  induction l generalizing acc with
  | nil => simp [pickAux] at hv
  | cons q rest ih =>
    obtain ⟨y, w⟩ := q
    by_cases hlt : u < (acc + w) / tot
    · simp only [pickAux, if_pos hlt] at hv
      cases hv
      refine ⟨_, List.mem_cons_self, rfl, ?_⟩
      have := lt_of_le_of_lt h0 hlt
      rw [div_lt_div_iff_of_pos_right htot] at this
      linarith
    · simp only [pickAux, if_neg hlt] at hv
      obtain ⟨q, hq, h1, h2⟩ := ih (acc + w) (not_lt.mp hlt) hv
      exact ⟨q, List.mem_cons_of_mem _ hq, h1, h2⟩

theorem pick_isSome (obs : List (E × ℝ)) (htot : 0 < total obs) (u : ℝ) (h0 : 0 ≤ u) (h1 : u < 1) :
    ∃ v, pick obs u = some v :=
  pickAux_isSome (total obs) u obs 0 (by rw [zero_div]; exact h0) (by rw [zero_add, div_self htot.ne']; exact h1)

theorem pick_support (obs : List (E × ℝ)) (htot : 0 < total obs) (u : ℝ) (h0 : 0 ≤ u) (v : E)
    (hv : pick obs u = some v) : ∃ q ∈ obs, q.1 = v ∧ 0 < q.2 :=
  pickAux_support (total obs) htot u obs 0 (by rw [zero_div]; exact h0) v hv

/-- unweighted class (`generator.integers(0, n)`): the indices returning `v` are as many as `v` occurs -/
theorem pickIndex_count [DecidableEq E] (ys : List E) (v : E) :
    ((List.range ys.length).filter fun i => pickIndex ys i = some v).length = ys.count v := by
  induction ys with
  | nil => simp
  | cons y rest ih =>
    rw [List.length_cons, List.range_succ_eq_map, List.filter_cons, List.filter_map]
    have e : (fun i => decide (pickIndex (y :: rest) i = some v)) ∘ Nat.succ
        = fun i => decide (pickIndex rest i = some v) := by
      funext i; rfl
    rw [e]
    by_cases hy : y = v
    · subst hy
      simp only [pickIndex, Opda.Emp.nth?, decide_true, if_true, List.length_cons, List.length_map,
        List.count_cons_self]
      simp only [pickIndex] at ih
      rw [ih]
    · have hne : ¬ (some y = some v) := fun h => hy (Option.some.inj h)
      simp only [pickIndex, Opda.Emp.nth?, hne, decide_false, Bool.false_eq_true, if_false, List.length_map]
      simp only [pickIndex] at ih
      rw [ih, List.count_cons_of_ne hy]

/-- each atom gets its weight -/
theorem pick_atom_volume [LinearOrder E] (v : E) (obs : List (E × ℝ)) (hn : NonNeg obs) (htot : 0 < total obs) :
    volume {u : ℝ | u ∈ Ico (0:ℝ) 1 ∧ pick obs u = some v} = ENNReal.ofReal (weightEq v obs / total obs) := by
  rw [← weightP_eq_weightEq, ← pick_volume (fun y => y = v) obs hn htot]
  congr 1
  ext u
  simp only [mem_ofPred_eq]
  constructor
  · rintro ⟨h, hv⟩; exact ⟨h, v, hv, rfl⟩
  · rintro ⟨h, v', hv, rfl⟩; exact ⟨h, hv⟩

/-- the distribution function of a `choice` draw is the class's own `cdf` (the C03 model), whatever the bounds -/
theorem pick_cdf_volume [LinearOrder E] [OrderBot E] [OrderTop E] (a b y : E) (obs : List (E × ℝ)) (hn : NonNeg obs)
    (htot : 0 < total obs) :
    volume {u : ℝ | u ∈ Ico (0:ℝ) 1 ∧ ∃ v, pick obs u = some v ∧ v ≤ y}
      = ENNReal.ofReal (cdf (support ⊥ ⊤ a b obs) y) := by
  rw [cdf_support, ← weightP_eq_weightLE]
  exact pick_volume (fun v => v ≤ y) obs hn htot

/-- the exact-rational evaluation the driver performs is the real-number one: casting weights and `u` from
`ℚ` to `ℝ` does not change which observation is picked -/
theorem pickAux_cast (tot u acc : ℚ) (l : List (E × ℚ)) :
    pickAux (tot : ℝ) (u : ℝ) (acc : ℝ) (l.map fun q => (q.1, (q.2 : ℝ))) = pickAux tot u acc l := by
  induction l generalizing acc with
  | nil => rfl
  | cons q rest ih =>
    obtain ⟨y, w⟩ := q
    simp only [List.map_cons, pickAux]
    have hc : ((u : ℝ) < ((acc : ℝ) + (w : ℝ)) / (tot : ℝ)) ↔ u < (acc + w) / tot := by
      rw [← Rat.cast_add, ← Rat.cast_div, Rat.cast_lt]
    by_cases h : u < (acc + w) / tot
    · rw [if_pos h, if_pos (hc.mpr h)]
    · rw [if_neg h, if_neg (fun h' => h (hc.mp h'))]
      have := ih (acc + w)
      rw [Rat.cast_add] at this
      exact this

theorem total_cast (l : List (E × ℚ)) : total (l.map fun q => (q.1, (q.2 : ℝ))) = ((total l : ℚ) : ℝ) := by
  induction l with
  | nil => simp [total]
  | cons q rest ih => obtain ⟨y, w⟩ := q; simp only [List.map_cons, total, ih, Rat.cast_add]

theorem pick_cast (obs : List (E × ℚ)) (u : ℚ) :
    pick (obs.map fun q => (q.1, (q.2 : ℝ))) (u : ℝ) = pick obs u := by
  unfold pick
  rw [total_cast]
  have := pickAux_cast (total obs) u 0 obs
  rw [Rat.cast_zero] at this
  exact this

end choice

/-! ## noisy class -/

section noisy
open ProbabilityTheory

theorem noisySample_eq (d : Opda.Quad.Params ℝ) (o u z : ℝ) : noisySample d o u z = noisyQuadPart d u + o * z := by
  simp [noisySample]

theorem noisyQuadPart_eq (d : Opda.Quad.Params ℝ) (u : ℝ) (h0 : 0 ≤ u) (h1 : u ≤ 1) :
    noisyQuadPart d u = quadSample d u := by
  have hc : Num.clip u (Num.n 0 : ℝ) (Num.n 1) = u := by
    simpa using Opda.Quad.clip_of_mem u 0 1 h0 h1
  unfold noisyQuadPart quadSample Opda.Quad.ppf
  simp only [hc]

theorem measurable_noisyQuadPart (d : Opda.Quad.Params ℝ) : Measurable (noisyQuadPart d) := by
  unfold noisyQuadPart
  cases d.convex
  · simp only [Bool.false_eq_true, if_false, num_pow, num_n]
    exact measurable_const.sub (measurable_const.mul ((measurable_const.sub measurable_id).pow_const _))
  · simp only [if_true, num_pow, num_n]
    exact measurable_const.add (measurable_const.mul (measurable_id.pow_const _))

/-- **law of `NoisyQuadraticDistribution.sample`**: on any probability space, for a uniform draw `U` and an
independent standard normal `Z`, the law of `quadPart(U) + o·Z` is the convolution of the law of the quadratic
part with `N(0, o²)`.  (What is definitional: the code *is* this sum; that the sum of independent variables
has the convolution as its law, and that `o·Z ~ N(0, o²)`, are Mathlib theorems.) -/
theorem noisy_law {Ω : Type} [MeasurableSpace Ω] (P : Measure Ω) [IsProbabilityMeasure P] (U Z : Ω → ℝ)
    (hU : Measurable U) (hZ : Measurable Z) (hind : IndepFun U Z P) (hZlaw : P.map Z = gaussianReal 0 1)
    (d : Opda.Quad.Params ℝ) (o : ℝ) :
    P.map (fun ω => noisySample d o (U ω) (Z ω))
      = (P.map (fun ω => noisyQuadPart d (U ω))) ∗ gaussianReal 0 (.mk (o ^ 2) (sq_nonneg o)) := by
  have hX : Measurable (fun ω => noisyQuadPart d (U ω)) := (measurable_noisyQuadPart d).comp hU
  have hW : Measurable (fun ω => o * Z ω) := measurable_const.mul hZ
  have hXW : IndepFun (fun ω => noisyQuadPart d (U ω)) (fun ω => o * Z ω) P :=
    hind.comp (φ := noisyQuadPart d) (ψ := fun z => o * z) (measurable_noisyQuadPart d)
      (show Measurable (fun z : ℝ => o * z) from measurable_const.mul measurable_id)
  have hsum : (fun ω => noisySample d o (U ω) (Z ω)) = (fun ω => noisyQuadPart d (U ω)) + (fun ω => o * Z ω) := by
    funext ω; simp [noisySample_eq]
  have hWlaw : P.map (fun ω => o * Z ω) = gaussianReal 0 (.mk (o ^ 2) (sq_nonneg o)) := by
    have : (fun ω => o * Z ω) = (fun z => o * z) ∘ Z := rfl
    have hm : Measurable (fun z : ℝ => o * z) := measurable_const.mul measurable_id
    rw [this, ← Measure.map_map hm hZ, hZlaw, gaussianReal_map_const_mul]
    simp
  rw [hsum, hXW.map_add_eq_map_conv_map hX hW, hWlaw]

end noisy

end Opda.Sample
