import OpdaModel.Experiments
import OpdaProofs.RealInst
import OpdaProofs.QuadLaw
import OpdaProofs.Small
import Mathlib.Analysis.SpecialFunctions.Gamma.Basic
import Mathlib.Analysis.SpecialFunctions.Pow.Real
import Mathlib.Algebra.BigOperators.Group.List.Basic
import Mathlib.Tactic

/-! C20: the algebra of `ellipse_volume` / `get_approximation_parameters` on the polymorphic model at `ℝ`,
and the order theory of the running maximum and the bookkeeping of `Simulation.run`. -/
namespace Opda.Exp
open Opda Opda.Num

/-- the real reading of the two constants: `π` and Euler's `Γ` -/
noncomputable instance : Consts ℝ where
  pi := Real.pi
  gamma := Real.Gamma

@[simp] theorem consts_pi : (Consts.pi : ℝ) = Real.pi := rfl
@[simp] theorem consts_gamma (x : ℝ) : (Consts.gamma x : ℝ) = Real.Gamma x := rfl

/-! ### `ellipse_volume` -/

theorem prod_eq (xs : List ℝ) : prod xs = xs.prod := by
  unfold prod
  rw [List.prod_eq_foldl]
  simp

/-- volume coefficient of the unit `d`-ball, `π^{d/2} / Γ(d/2 + 1)` -/
noncomputable def ballCoeff (d : ℕ) : ℝ := Real.pi ^ ((d : ℝ) / 2) / Real.Gamma ((d : ℝ) / 2 + 1)

theorem unitBall_eq (d : ℕ) : (unitBall d : ℝ) = ballCoeff d := by
  unfold unitBall ballCoeff
  simp

theorem ballCoeff_pos (d : ℕ) : 0 < ballCoeff d := by
  unfold ballCoeff
  apply div_pos (Real.rpow_pos_of_pos Real.pi_pos _)
  exact Real.Gamma_pos_of_pos (by positivity)

/-- the model's `ellipse_volume` is the stated formula -/
theorem ellipseVolume_eq (cs : List ℝ) :
    ellipseVolume cs = Real.pi ^ ((cs.length : ℝ) / 2) / Real.Gamma ((cs.length : ℝ) / 2 + 1) * cs.prod := by
  unfold ellipseVolume
  rw [unitBall_eq, prod_eq]
  rfl

theorem ellipseVolume_perm {cs cs' : List ℝ} (h : cs.Perm cs') : ellipseVolume cs = ellipseVolume cs' := by
  rw [ellipseVolume_eq, ellipseVolume_eq, h.prod_eq, h.length_eq]

/-- homogeneous of degree one in each axis: scaling the axis at any position by `t` scales the volume by `t` -/
theorem ellipseVolume_scale_axis (l₁ l₂ : List ℝ) (c t : ℝ) :
    ellipseVolume (l₁ ++ (t * c) :: l₂) = t * ellipseVolume (l₁ ++ c :: l₂) := by
  rw [ellipseVolume_eq, ellipseVolume_eq]
  simp only [List.length_append, List.length_cons, List.prod_append, List.prod_cons]
  ring

/-- the same with the axis addressed by its index -/
theorem ellipseVolume_scale_index (cs : List ℝ) (i : ℕ) (hi : i < cs.length) (t : ℝ) :
    ellipseVolume (cs.set i (t * cs[i])) = t * ellipseVolume cs := by
  have h1 : cs.set i (t * cs[i]) = cs.take i ++ (t * cs[i]) :: cs.drop (i + 1) := List.set_eq_take_append_cons_drop.trans (by simp [hi])
  have h2 : cs = cs.take i ++ cs[i] :: cs.drop (i + 1) := by
    conv_lhs => rw [← List.take_append_drop i cs, List.drop_eq_getElem_cons hi]
  rw [h1, ellipseVolume_scale_axis, ← h2]

/-- jointly homogeneous of degree `d` -/
theorem ellipseVolume_scale_all (cs : List ℝ) (t : ℝ) :
    ellipseVolume (cs.map (t * ·)) = t ^ cs.length * ellipseVolume cs := by
  rw [ellipseVolume_eq, ellipseVolume_eq, List.length_map]
  have : (cs.map (t * ·)).prod = t ^ cs.length * cs.prod := by
    induction cs with
    | nil => simp
    | cons c cs ih => simp only [List.map_cons, List.prod_cons, ih, List.length_cons]; ring
  rw [this]; ring

theorem list_prod_pos {xs : List ℝ} (h : ∀ x ∈ xs, 0 < x) : 0 < xs.prod := by
  induction xs with
  | nil => simp
  | cons x xs ih =>
    rw [List.prod_cons]
    exact mul_pos (h x (by simp)) (ih fun y hy => h y (by simp [hy]))

theorem ellipseVolume_pos {cs : List ℝ} (h : ∀ c ∈ cs, 0 < c) : 0 < ellipseVolume cs := by
  rw [ellipseVolume_eq]
  exact mul_pos (ballCoeff_pos cs.length) (list_prod_pos h)

theorem ellipseVolume_nil : ellipseVolume ([] : List ℝ) = 1 := by
  rw [ellipseVolume_eq]; simp

/-! ### `get_approximation_parameters` -/

theorem axes_eq (eigs : List ℝ) : axes eigs = eigs.map fun l => Real.sqrt (2 / -l) := by
  unfold axes
  apply List.map_congr_left
  intro l _
  simp only [num_n, num_pow, Nat.cast_one, Nat.cast_ofNat]
  rw [Real.sqrt_eq_rpow, div_neg, neg_div]

theorem axes_pos {eigs : List ℝ} (h : ∀ l ∈ eigs, l < 0) : ∀ c ∈ axes eigs, 0 < c := by
  rw [axes_eq]
  intro c hc
  obtain ⟨l, hl, rfl⟩ := List.mem_map.mp hc
  exact Real.sqrt_pos.mpr (div_pos two_pos (neg_pos.mpr (h l hl)))

theorem boxVolume_eq (bounds : List (ℝ × ℝ)) : boxVolume bounds = (bounds.map fun p => p.2 - p.1).prod := by
  unfold boxVolume; rw [prod_eq]

theorem boxVolume_pos {bounds : List (ℝ × ℝ)} (h : ∀ p ∈ bounds, p.1 < p.2) : 0 < boxVolume bounds := by
  rw [boxVolume_eq]
  apply list_prod_pos
  intro x hx
  obtain ⟨p, hp, rfl⟩ := List.mem_map.mp hx
  exact sub_pos.mpr (h p hp)

theorem omega_pos {eigs : List ℝ} {bounds : List (ℝ × ℝ)} (hneg : ∀ l ∈ eigs, l < 0)
    (hb : ∀ p ∈ bounds, p.1 < p.2) : 0 < omega eigs bounds :=
  div_pos (ellipseVolume_pos (axes_pos hneg)) (boxVolume_pos hb)

/-- the returned triple, spelled out over `ℝ` -/
theorem approxParams_eq (yMax : ℝ) (eigs : List ℝ) (bounds : List (ℝ × ℝ)) :
    approxParams yMax eigs bounds
      = (yMax - (1 / omega eigs bounds) ^ ((2 : ℝ) / (bounds.length : ℝ)), yMax, bounds.length) := by
  unfold approxParams
  simp

theorem approxParams_b (yMax : ℝ) (eigs : List ℝ) (bounds : List (ℝ × ℝ)) :
    (approxParams yMax eigs bounds).2.1 = yMax := rfl

theorem approxParams_c (yMax : ℝ) (eigs : List ℝ) (bounds : List (ℝ × ℝ)) :
    (approxParams yMax eigs bounds).2.2 = bounds.length := rfl

theorem approxParams_a_lt_b (yMax : ℝ) {eigs : List ℝ} {bounds : List (ℝ × ℝ)} (hneg : ∀ l ∈ eigs, l < 0)
    (hb : ∀ p ∈ bounds, p.1 < p.2) : (approxParams yMax eigs bounds).1 < yMax := by
  rw [approxParams_eq]
  have : 0 < (1 / omega eigs bounds) ^ ((2 : ℝ) / (bounds.length : ℝ)) :=
    Real.rpow_pos_of_pos (one_div_pos.mpr (omega_pos hneg hb)) _
  simp only
  linarith

theorem approxDist_a (yMax : ℝ) (eigs : List ℝ) (bounds : List (ℝ × ℝ)) :
    (approxDist yMax eigs bounds).a = (approxParams yMax eigs bounds).1 := rfl
theorem approxDist_b (yMax : ℝ) (eigs : List ℝ) (bounds : List (ℝ × ℝ)) :
    (approxDist yMax eigs bounds).b = yMax := rfl
theorem approxDist_c (yMax : ℝ) (eigs : List ℝ) (bounds : List (ℝ × ℝ)) :
    (approxDist yMax eigs bounds).c = bounds.length := rfl
theorem approxDist_convex (yMax : ℝ) (eigs : List ℝ) (bounds : List (ℝ × ℝ)) :
    (approxDist yMax eigs bounds).convex = false := rfl

/-- the concave cdf inside its support: `1 − ((b−y)/(b−a))^{c/2}` -/
theorem cdf_concave_inside (d : Quad.Params ℝ) (hcv : d.convex = false) (hab : d.a < d.b) {y : ℝ}
    (hya : d.a ≤ y) (hyb : y ≤ d.b) :
    Quad.cdf d y = 1 - ((d.b - y) / (d.b - d.a)) ^ ((d.c : ℝ) / 2) := by
  unfold Quad.cdf
  simp only [Quad.eq_false_of_ne _ _ (ne_of_lt hab), Bool.false_eq_true, if_false, hcv, num_n, num_pow,
    Nat.cast_one, Nat.cast_ofNat, Quad.clip_of_mem _ _ _ hya hyb]

/-- **C20-T2 on the model**: with `K = ellipse_volume((-2/λ)^{1/2})` (the volume of the level ellipsoid at depth one)
and the box volume as the code computes them, the uniform-search tail `K·(b−y)^{d/2}/vol(box)` is the concave
quadratic tail `1 − cdf(y)` of the returned parameters, for every `y ∈ [a, b]`. -/
theorem tail_exact_model (yMax : ℝ) (eigs : List ℝ) (bounds : List (ℝ × ℝ)) (hd : 0 < bounds.length)
    (hneg : ∀ l ∈ eigs, l < 0) (hb : ∀ p ∈ bounds, p.1 < p.2) (y : ℝ)
    (hya : (approxParams yMax eigs bounds).1 ≤ y) (hyb : y ≤ yMax) :
    ellipseVolume (axes eigs) * (yMax - y) ^ ((bounds.length : ℝ) / 2) / boxVolume bounds
      = 1 - Quad.cdf (approxDist yMax eigs bounds) y := by
  have hK := ellipseVolume_pos (axes_pos hneg)
  have hbox := boxVolume_pos hb
  have hab := approxParams_a_lt_b yMax hneg hb
  have key := Opda.Small.tail_exact (ellipseVolume (axes eigs)) (boxVolume bounds) yMax y bounds.length hd hK hbox hyb
  simp only at key
  rw [approxParams_eq] at hya hab
  simp only at hya hab
  unfold omega at hya hab
  rw [key, cdf_concave_inside _ rfl (by rw [approxDist_a, approxDist_b, approxParams_eq]; exact hab)
    (by rw [approxDist_a, approxParams_eq]; exact hya) (by rw [approxDist_b]; exact hyb)]
  rw [approxDist_a, approxDist_b, approxDist_c, approxParams_eq]
  simp only [omega]
  ring

/-! ### running maximum -/

section Cummax
variable {β : Type} [LinearOrder β]

omit [LinearOrder β] in
theorem length_cummax (mx : β → β → β) (l : List β) : (cummax mx l).length = l.length := by
  cases l with
  | nil => rfl
  | cons x xs => simp [cummax, List.length_scanl]

theorem cummax_cons (x : β) (xs : List β) : cummax max (x :: xs) = List.scanl max x xs := rfl

/-- entry `i` of the running maximum is the fold of `max` over the prefix of length `i + 1` -/
theorem getElem_cummax (x : β) (xs : List β) (i : ℕ) (hi : i < (cummax max (x :: xs)).length) :
    (cummax max (x :: xs))[i] = (xs.take i).foldl max x := by
  simp only [cummax_cons]
  rw [List.getElem_scanl]

theorem foldl_max_ge_init (x : β) (l : List β) : x ≤ l.foldl max x := by
  induction l generalizing x with
  | nil => exact le_rfl
  | cons a l ih => exact le_trans (le_max_left x a) (ih (max x a))

theorem foldl_max_ge_mem (x : β) (l : List β) : ∀ a ∈ l, a ≤ l.foldl max x := by
  induction l generalizing x with
  | nil => intro a h; cases h
  | cons b l ih =>
    intro a ha
    rcases List.mem_cons.mp ha with rfl | h
    · exact le_trans (le_max_right x a) (foldl_max_ge_init _ l)
    · exact ih (max x b) a h

theorem foldl_max_mem (x : β) (l : List β) : l.foldl max x ∈ x :: l := by
  induction l generalizing x with
  | nil => simp
  | cons b l ih =>
    have := ih (max x b)
    rcases List.mem_cons.mp this with h | h
    · rw [List.foldl_cons, h]
      rcases max_choice x b with h' | h' <;> simp [h']
    · simp [h]

theorem foldl_max_mono_take (x : β) (l : List β) (i j : ℕ) (hij : i ≤ j) :
    (l.take i).foldl max x ≤ (l.take j).foldl max x := by
  obtain ⟨k, rfl⟩ := Nat.exists_eq_add_of_le hij
  rw [List.take_add, List.foldl_append]
  exact foldl_max_ge_init _ _

/-- every entry of the prefix `l[0..i]` is below the running maximum at `i` … -/
theorem cummax_ge (l : List β) (i j : ℕ) (hi : i < l.length) (hji : j ≤ i) :
    l[j] ≤ (cummax max l)[i]'(by rw [length_cummax]; exact hi) := by
  cases l with
  | nil => simp at hi
  | cons x xs =>
    rw [getElem_cummax]
    cases j with
    | zero => exact foldl_max_ge_init x _
    | succ j =>
      simp only [List.length_cons] at hi
      have hj : j < (xs.take i).length := by rw [List.length_take]; omega
      have : xs[j] = (xs.take i)[j] := by rw [List.getElem_take]
      simp only [List.getElem_cons_succ]
      rw [this]
      exact foldl_max_ge_mem x _ _ (List.getElem_mem hj)

/-- … and the running maximum at `i` is one of them: it *is* the maximum of the prefix -/
theorem cummax_attained (l : List β) (i : ℕ) (hi : i < l.length) :
    ∃ j, ∃ hj : j ≤ i, (cummax max l)[i]'(by rw [length_cummax]; exact hi) = l[j] := by
  cases l with
  | nil => simp at hi
  | cons x xs =>
    rw [getElem_cummax]
    simp only [List.length_cons] at hi
    rcases List.mem_cons.mp (foldl_max_mem x (xs.take i)) with h | h
    · exact ⟨0, Nat.zero_le _, by rw [h]; rfl⟩
    · obtain ⟨k, hk, hk'⟩ := List.getElem_of_mem h
      have hk2 : k < i := by rw [List.length_take] at hk; omega
      refine ⟨k + 1, hk2, ?_⟩
      rw [← hk', List.getElem_take]
      rfl

theorem cummax_mono (l : List β) (i j : ℕ) (hij : i ≤ j) (hj : j < l.length) :
    (cummax max l)[i]'(by rw [length_cummax]; omega) ≤ (cummax max l)[j]'(by rw [length_cummax]; exact hj) := by
  cases l with
  | nil => simp at hj
  | cons x xs =>
    rw [getElem_cummax, getElem_cummax]
    exact foldl_max_mono_take x xs i j hij

theorem cummax_zero (l : List β) (h : 0 < l.length) :
    (cummax max l)[0]'(by rw [length_cummax]; exact h) = l[0] := by
  cases l with
  | nil => simp at h
  | cons x xs => rw [getElem_cummax]; rfl

/-- the recurrence `np.maximum.accumulate` is defined by -/
theorem cummax_succ (l : List β) (i : ℕ) (hi : i + 1 < l.length) :
    (cummax max l)[i + 1]'(by rw [length_cummax]; exact hi)
      = max ((cummax max l)[i]'(by rw [length_cummax]; omega)) l[i + 1] := by
  cases l with
  | nil => simp at hi
  | cons x xs =>
    simp only [List.length_cons] at hi
    have hi' : i < xs.length := by omega
    rw [getElem_cummax, getElem_cummax, List.take_add_one, List.foldl_append]
    simp [List.getElem?_eq_getElem hi']

/-- the last entry is the overall maximum -/
theorem cummax_getLast (l : List β) (h : l ≠ []) :
    ∃ hc : cummax max l ≠ [], (∀ x ∈ l, x ≤ (cummax max l).getLast hc) ∧ (cummax max l).getLast hc ∈ l := by
  cases l with
  | nil => exact absurd rfl h
  | cons x xs =>
    refine ⟨by rw [cummax_cons]; exact List.scanl_ne_nil, ?_⟩
    simp only [cummax_cons, List.getLast_scanl]
    constructor
    · intro a ha
      rcases List.mem_cons.mp ha with rfl | h'
      · exact foldl_max_ge_init _ _
      · exact foldl_max_ge_mem x xs a h'
    · exact foldl_max_mem x xs

end Cummax

/-! ### `Simulation.run` bookkeeping -/

section SimBook
variable {α γ : Type} [Add α] [Sub α] [Mul α]

theorem length_scalePoint (bounds : List (α × α)) (u : List α) (h : u.length = bounds.length) :
    (scalePoint bounds u).length = bounds.length := by
  unfold scalePoint; simp [h]

theorem length_scalePoint_le (bounds : List (α × α)) (u : List α) :
    (scalePoint bounds u).length = min bounds.length u.length := by
  unfold scalePoint; simp

theorem getElem_scalePoint (bounds : List (α × α)) (u : List α) (i : ℕ) (h1 : i < bounds.length) (h2 : i < u.length) :
    (scalePoint bounds u)[i]'(by rw [length_scalePoint_le]; omega)
      = bounds[i].1 + (bounds[i].2 - bounds[i].1) * u[i] := by
  simp only [scalePoint, List.getElem_zipWith]

variable (nSamples : ℕ) (func : List α → γ) (mx : γ → γ → γ) (bounds : List (α × α)) (us : List (List (List α)))

theorem simRun_ns : (simRun nSamples func mx bounds us).ns = (List.range nSamples).map (· + 1) := rfl

theorem simRun_ns_getElem (j : ℕ) (hj : j < (simRun nSamples func mx bounds us).ns.length) :
    (simRun nSamples func mx bounds us).ns[j] = j + 1 := by
  simp [simRun]

theorem simRun_ns_length : (simRun nSamples func mx bounds us).ns.length = nSamples := by simp [simRun]

theorem simRun_xss_length : (simRun nSamples func mx bounds us).xss.length = us.length := by simp [simRun]

theorem simRun_yss_length : (simRun nSamples func mx bounds us).yss.length = us.length := by simp [simRun]

theorem simRun_cummax_length :
    (simRun nSamples func mx bounds us).yssCummax.length = us.length := by simp [simRun]

/-- `yss = func(xss)` entrywise -/
theorem simRun_yss : (simRun nSamples func mx bounds us).yss
    = (simRun nSamples func mx bounds us).xss.map fun trial => trial.map func := rfl

/-- `xs`, `ys` are the first trial -/
theorem simRun_xs : (simRun nSamples func mx bounds us).xs = (simRun nSamples func mx bounds us).xss.headD [] := rfl
theorem simRun_ys : (simRun nSamples func mx bounds us).ys = (simRun nSamples func mx bounds us).yss.headD [] := rfl

/-- `yss_cummax` is the running maximum of each trial (along the sample axis) -/
theorem simRun_cummax : (simRun nSamples func mx bounds us).yssCummax
    = (simRun nSamples func mx bounds us).yss.map (cummax mx) := rfl

/-- what the driver evaluates (`exp.sim`) is the bookkeeping of `simRun` on the evaluated `yss` -/
theorem simBook_eq : simBook nSamples mx (simRun nSamples func mx bounds us).yss
    = ((simRun nSamples func mx bounds us).ns, (simRun nSamples func mx bounds us).ys,
       (simRun nSamples func mx bounds us).yssCummax) := rfl

/-- shapes: with `us` of shape `(n_trials, n_samples, n_dims)` and `n_dims = len(bounds)`, every trial of `xss`, `yss`,
`yss_cummax` has `n_samples` entries and every point `n_dims` coordinates -/
theorem simRun_shapes (nDims : ℕ) (hbl : bounds.length = nDims)
    (hus : ∀ trial ∈ us, trial.length = nSamples ∧ ∀ u ∈ trial, u.length = nDims) :
    (∀ t ∈ (simRun nSamples func mx bounds us).xss, t.length = nSamples ∧ ∀ x ∈ t, x.length = nDims)
      ∧ (∀ t ∈ (simRun nSamples func mx bounds us).yss, t.length = nSamples)
      ∧ (∀ t ∈ (simRun nSamples func mx bounds us).yssCummax, t.length = nSamples) := by
  refine ⟨?_, ?_, ?_⟩
  · intro t ht
    simp only [simRun, List.mem_map] at ht
    obtain ⟨trial, htr, rfl⟩ := ht
    refine ⟨by simp [(hus trial htr).1], ?_⟩
    intro x hx
    obtain ⟨u, hu, rfl⟩ := List.mem_map.mp hx
    rw [length_scalePoint _ _ (by rw [(hus trial htr).2 u hu, hbl]), hbl]
  · intro t ht
    simp only [simRun, List.mem_map] at ht
    obtain ⟨_, ⟨trial, htr, rfl⟩, rfl⟩ := ht
    simp [(hus trial htr).1]
  · intro t ht
    simp only [simRun, List.mem_map] at ht
    obtain ⟨_, ⟨_, ⟨trial, htr, rfl⟩, rfl⟩, rfl⟩ := ht
    rw [length_cummax]
    simp [(hus trial htr).1]

/-- `y_min ≤ yss ≤ y_max` *given* that the black-box optima are optimal on the box -/
theorem simRun_yss_between [Preorder γ] (yMin yMax : γ) (inBox : List α → Prop)
    (hopt : ∀ x, inBox x → yMin ≤ func x ∧ func x ≤ yMax)
    (hin : ∀ trial ∈ (simRun nSamples func mx bounds us).xss, ∀ x ∈ trial, inBox x) :
    ∀ trial ∈ (simRun nSamples func mx bounds us).yss, ∀ v ∈ trial, yMin ≤ v ∧ v ≤ yMax := by
  intro trial ht v hv
  rw [simRun_yss] at ht
  obtain ⟨xt, hxt, rfl⟩ := List.mem_map.mp ht
  obtain ⟨x, hx, rfl⟩ := List.mem_map.mp hv
  exact hopt x (hin xt hxt x hx)

end SimBook

section SimOrder
variable {α γ : Type} [Field α] [LinearOrder α] [IsStrictOrderedRing α]

/-- a coordinate `lo + (hi − lo)·t` with `t ∈ [0,1]` stays inside `[lo, hi]` -/
theorem scale_mem (lo hi t : α) (h : lo ≤ hi) (h0 : 0 ≤ t) (h1 : t ≤ 1) :
    lo ≤ lo + (hi - lo) * t ∧ lo + (hi - lo) * t ≤ hi := by
  have hd : 0 ≤ hi - lo := sub_nonneg.mpr h
  constructor
  · nlinarith [mul_nonneg hd h0]
  · nlinarith [mul_le_mul_of_nonneg_left h1 hd]

/-- every coordinate of a sampled point lies between its bounds -/
theorem scalePoint_mem (bounds : List (α × α)) (u : List α) (hb : ∀ p ∈ bounds, p.1 ≤ p.2)
    (hu : ∀ t ∈ u, 0 ≤ t ∧ t ≤ 1) (i : ℕ) (hi : i < (scalePoint bounds u).length) (hib : i < bounds.length) :
    bounds[i].1 ≤ (scalePoint bounds u)[i] ∧ (scalePoint bounds u)[i] ≤ bounds[i].2 := by
  have h2 : i < u.length := by rw [length_scalePoint_le] at hi; omega
  rw [getElem_scalePoint bounds u i hib h2]
  exact scale_mem _ _ _ (hb _ (List.getElem_mem hib)) (hu _ (List.getElem_mem h2)).1 (hu _ (List.getElem_mem h2)).2

/-- every sampled point lies in the box when the generator's uniforms lie in `[0,1]` -/
theorem simRun_in_bounds (nSamples : ℕ) (func : List α → γ) (mx : γ → γ → γ) (bounds : List (α × α))
    (us : List (List (List α))) (hb : ∀ p ∈ bounds, p.1 ≤ p.2)
    (hus : ∀ trial ∈ us, ∀ u ∈ trial, ∀ t ∈ u, 0 ≤ t ∧ t ≤ (1 : α)) :
    ∀ trial ∈ (simRun nSamples func mx bounds us).xss, ∀ x ∈ trial, ∀ (i : ℕ) (hi : i < x.length) (hib : i < bounds.length),
      bounds[i].1 ≤ x[i] ∧ x[i] ≤ bounds[i].2 := by
  intro trial ht x hx i hi hib
  simp only [simRun, List.mem_map] at ht
  obtain ⟨tr, htr, rfl⟩ := ht
  obtain ⟨u, hu, rfl⟩ := List.mem_map.mp hx
  exact scalePoint_mem bounds u hb (hus tr htr u hu) i hi hib

end SimOrder

end Opda.Exp
