import OpdaModel.Emp
import Mathlib.Algebra.Order.Field.Basic
import Mathlib.Order.BoundedOrder.Basic
import Mathlib.Tactic

namespace Opda.Emp
variable {E α : Type} [LinearOrder E] [Field α] [LinearOrder α] [IsStrictOrderedRing α]

/-! ## Spec-level quantities -/

/-- total weight of entries with value ≤ y -/
def weightLE (y : E) : List (E × α) → α
  | [] => 0
  | (u, x) :: rest => (if u ≤ y then x else 0) + weightLE y rest

/-- total weight of entries with value = y -/
def weightEq (y : E) : List (E × α) → α
  | [] => 0
  | (u, x) :: rest => (if u = y then x else 0) + weightEq y rest

/-- strictly increasing values -/
def Sorted : List (E × α) → Prop
  | [] => True
  | (u, _) :: rest => (∀ p ∈ rest, u < p.1) ∧ Sorted rest

def NonNeg (l : List (E × α)) : Prop := ∀ p ∈ l, 0 ≤ p.2

/-! ## insertAtom / atoms -/

theorem insertAtom_lt {v u : E} {w x : α} {tl : List (E × α)} (h : v < u) :
    insertAtom v w ((u, x) :: tl) = (v, w) :: (u, x) :: tl := by
  simp [insertAtom, h]

theorem insertAtom_eq {v : E} {w x : α} {tl : List (E × α)} :
    insertAtom v w ((v, x) :: tl) = (v, x + w) :: tl := by
  simp [insertAtom]

theorem insertAtom_gt {v u : E} {w x : α} {tl : List (E × α)} (h1 : ¬ v < u) (h2 : v ≠ u) :
    insertAtom v w ((u, x) :: tl) = (u, x) :: insertAtom v w tl := by
  simp [insertAtom, h1, h2]

/-- three-way case split used everywhere below -/
theorem insertAtom_cases (v : E) (w : α) (u : E) (x : α) (tl : List (E × α)) :
    (v < u ∧ insertAtom v w ((u, x) :: tl) = (v, w) :: (u, x) :: tl)
    ∨ (v = u ∧ insertAtom v w ((u, x) :: tl) = (u, x + w) :: tl)
    ∨ (u < v ∧ insertAtom v w ((u, x) :: tl) = (u, x) :: insertAtom v w tl) := by
  rcases lt_trichotomy v u with h | h | h
  · exact Or.inl ⟨h, insertAtom_lt h⟩
  · subst h; exact Or.inr (Or.inl ⟨rfl, insertAtom_eq⟩)
  · exact Or.inr (Or.inr ⟨h, insertAtom_gt (not_lt.mpr h.le) (ne_of_gt h)⟩)

theorem mem_insertAtom {v : E} {w : α} {l : List (E × α)} {p : E × α} (hp : p ∈ insertAtom v w l) :
    p.1 = v ∨ ∃ p' ∈ l, p'.1 = p.1 := by
  induction l with
  | nil => simp [insertAtom] at hp; left; rw [hp]
  | cons hd tl ih =>
    obtain ⟨u, x⟩ := hd
    rcases insertAtom_cases v w u x tl with ⟨_, he⟩ | ⟨_, he⟩ | ⟨_, he⟩ <;> rw [he] at hp
    · rcases List.mem_cons.mp hp with rfl | hp
      · left; rfl
      · right; exact ⟨p, hp, rfl⟩
    · rcases List.mem_cons.mp hp with rfl | hp
      · right; exact ⟨(u, x), by simp, rfl⟩
      · right; exact ⟨p, by simp [hp], rfl⟩
    · rcases List.mem_cons.mp hp with rfl | hp
      · right; exact ⟨(u, x), by simp, rfl⟩
      · rcases ih hp with h | ⟨p', hp', he'⟩
        · left; exact h
        · right; exact ⟨p', by simp [hp'], he'⟩

theorem sorted_insertAtom (v : E) (w : α) (l : List (E × α)) (hs : Sorted l) : Sorted (insertAtom v w l) := by
  induction l with
  | nil => simp [insertAtom, Sorted]
  | cons hd tl ih =>
    obtain ⟨u, x⟩ := hd
    obtain ⟨hlt, hs'⟩ := hs
    rcases insertAtom_cases v w u x tl with ⟨h, he⟩ | ⟨h, he⟩ | ⟨h, he⟩ <;> rw [he]
    · refine ⟨?_, hlt, hs'⟩
      intro p hp
      rcases List.mem_cons.mp hp with rfl | hp
      · exact h
      · exact lt_trans h (hlt p hp)
    · exact ⟨hlt, hs'⟩
    · refine ⟨?_, ih hs'⟩
      intro p hp
      rcases mem_insertAtom hp with h' | ⟨p', hp', he'⟩
      · rw [h']; exact h
      · rw [← he']; exact hlt p' hp'

theorem sorted_atoms (obs : List (E × α)) : Sorted (atoms obs) := by
  induction obs with
  | nil => simp [atoms, Sorted]
  | cons o tl ih => exact sorted_insertAtom _ _ _ ih

theorem nonNeg_insertAtom (v : E) (w : α) (hw : 0 ≤ w) (l : List (E × α)) (hl : NonNeg l) :
    NonNeg (insertAtom v w l) := by
  induction l with
  | nil => intro p hp; simp [insertAtom] at hp; rw [hp]; exact hw
  | cons hd tl ih =>
    obtain ⟨u, x⟩ := hd
    have hx : 0 ≤ x := hl (u, x) (by simp)
    have htl : NonNeg tl := fun p hp => hl p (by simp [hp])
    rcases insertAtom_cases v w u x tl with ⟨_, he⟩ | ⟨_, he⟩ | ⟨_, he⟩ <;> rw [he] <;> intro p hp
    · rcases List.mem_cons.mp hp with rfl | hp
      · exact hw
      · exact hl p hp
    · rcases List.mem_cons.mp hp with rfl | hp
      · exact add_nonneg hx hw
      · exact htl p hp
    · rcases List.mem_cons.mp hp with rfl | hp
      · exact hx
      · exact ih htl p hp

theorem nonNeg_atoms (obs : List (E × α)) (h : NonNeg obs) : NonNeg (atoms obs) := by
  induction obs with
  | nil => intro p hp; simp [atoms] at hp
  | cons o tl ih =>
    exact nonNeg_insertAtom _ _ (h o (by simp)) _ (ih (fun p hp => h p (by simp [hp])))

theorem weightLE_insertAtom (y v : E) (w : α) (l : List (E × α)) :
    weightLE y (insertAtom v w l) = (if v ≤ y then w else 0) + weightLE y l := by
  induction l with
  | nil => simp [insertAtom, weightLE]
  | cons hd tl ih =>
    obtain ⟨u, x⟩ := hd
    rcases insertAtom_cases v w u x tl with ⟨_, he⟩ | ⟨h, he⟩ | ⟨_, he⟩ <;> rw [he]
    · simp [weightLE]
    · subst h
      by_cases hvy : v ≤ y <;> simp [weightLE, hvy]; ring
    · simp only [weightLE, ih]; ring

theorem weightEq_insertAtom (y v : E) (w : α) (l : List (E × α)) :
    weightEq y (insertAtom v w l) = (if v = y then w else 0) + weightEq y l := by
  induction l with
  | nil => simp [insertAtom, weightEq]
  | cons hd tl ih =>
    obtain ⟨u, x⟩ := hd
    rcases insertAtom_cases v w u x tl with ⟨_, he⟩ | ⟨h, he⟩ | ⟨_, he⟩ <;> rw [he]
    · simp [weightEq]
    · subst h
      by_cases hvy : v = y <;> simp [weightEq, hvy]; ring
    · simp only [weightEq, ih]; ring

theorem total_insertAtom (v : E) (w : α) (l : List (E × α)) : total (insertAtom v w l) = w + total l := by
  induction l with
  | nil => simp [insertAtom, total]
  | cons hd tl ih =>
    obtain ⟨u, x⟩ := hd
    rcases insertAtom_cases v w u x tl with ⟨_, he⟩ | ⟨_, he⟩ | ⟨_, he⟩ <;> rw [he]
    · simp [total]
    · simp only [total]; ring
    · simp only [total, ih]; ring

theorem weightLE_atoms (y : E) (obs : List (E × α)) : weightLE y (atoms obs) = weightLE y obs := by
  induction obs with
  | nil => rfl
  | cons o tl ih =>
    obtain ⟨v, w⟩ := o
    show weightLE y (insertAtom v w (atoms tl)) = _
    rw [weightLE_insertAtom, ih]; rfl

theorem weightEq_atoms (y : E) (obs : List (E × α)) : weightEq y (atoms obs) = weightEq y obs := by
  induction obs with
  | nil => rfl
  | cons o tl ih =>
    obtain ⟨v, w⟩ := o
    show weightEq y (insertAtom v w (atoms tl)) = _
    rw [weightEq_insertAtom, ih]; rfl

theorem total_atoms (obs : List (E × α)) : total (atoms obs) = total obs := by
  induction obs with
  | nil => rfl
  | cons o tl ih =>
    obtain ⟨v, w⟩ := o
    show total (insertAtom v w (atoms tl)) = _
    rw [total_insertAtom, ih]; rfl


/-! ## cumulative sums and searchsorted -/

/-- sum of the first `k` weights -/
def prefixSum : Nat → List (E × α) → α
  | 0, _ => 0
  | _, [] => 0
  | k+1, (_, x) :: rest => x + prefixSum k rest

theorem nth?_cumAux (k : Nat) (acc : α) (l : List (E × α)) :
    nth? k (cumAux acc l) = (nth? k l).map (fun p => (p.1, acc + prefixSum (k+1) l)) := by
  induction l generalizing k acc with
  | nil => simp [cumAux, nth?]
  | cons hd tl ih =>
    obtain ⟨u, x⟩ := hd
    cases k with
    | zero => simp [cumAux, nth?, prefixSum]
    | succ k =>
      simp only [cumAux, nth?, ih]
      cases h : nth? k tl with
      | none => simp
      | some p =>
        simp only [Option.map_some]
        congr 2
        simp only [prefixSum]; ring

theorem nth?_map {β γ : Type} (f : β → γ) (k : Nat) (l : List β) : nth? k (l.map f) = (nth? k l).map f := by
  induction l generalizing k with
  | nil => simp [nth?]
  | cons hd tl ih => cases k <;> simp [nth?, ih]

/-- all entries of `l` lie strictly above `y` ⇒ nothing is counted -/
theorem weightLE_eq_zero_of_all_gt (y : E) (l : List (E × α)) (h : ∀ p ∈ l, y < p.1) : weightLE y l = 0 := by
  induction l with
  | nil => rfl
  | cons hd tl ih =>
    obtain ⟨u, x⟩ := hd
    have hu : ¬ u ≤ y := not_le.mpr (h (u, x) (by simp))
    simp [weightLE, hu, ih (fun p hp => h p (List.mem_cons_of_mem _ hp))]

theorem prefixSum_ssRight (y : E) (l : List (E × α)) (hs : Sorted l) :
    prefixSum (ssRight y l) l = weightLE y l := by
  induction l with
  | nil => simp [ssRight, prefixSum, weightLE]
  | cons hd tl ih =>
    obtain ⟨u, x⟩ := hd
    obtain ⟨hlt, hs'⟩ := hs
    by_cases hu : u ≤ y
    · simp only [ssRight, hu, if_true, weightLE]
      rw [Nat.add_comm, prefixSum, ih hs']
    · simp only [ssRight, hu, if_false, weightLE, prefixSum]
      rw [weightLE_eq_zero_of_all_gt y tl (fun p hp => lt_trans (not_le.mp hu) (hlt p hp))]; ring

theorem ssRight_le_length (y : E) (l : List (E × α)) : ssRight y l ≤ l.length := by
  induction l with
  | nil => simp [ssRight]
  | cons hd tl ih =>
    obtain ⟨u, x⟩ := hd
    simp only [ssRight, List.length_cons]
    split_ifs <;> omega

theorem nth?_lt_length {β : Type} (k : Nat) (l : List β) (h : k < l.length) : ∃ p, nth? k l = some p := by
  induction l generalizing k with
  | nil => simp at h
  | cons hd tl ih =>
    cases k with
    | zero => exact ⟨hd, rfl⟩
    | succ k => simpa [nth?] using ih k (by simpa using h)

/-- **T1 (core)**: on a strictly sorted support whose least atom is ≤ y,
`_ws_cumsum[searchsorted(_ys, y, 'right') − 1]` is the weight of the atoms ≤ y, normalised. -/
theorem cdf_eq_weightLE (supp : List (E × α)) (hs : Sorted supp) (y : E)
    (hhead : ∃ u x tl, supp = (u, x) :: tl ∧ u ≤ y) :
    cdf supp y = weightLE y supp / total supp := by
  obtain ⟨u, x, tl, rfl, hu⟩ := hhead
  have hk : ssRight y ((u, x) :: tl) = (ssRight y tl) + 1 := by simp [ssRight, hu, Nat.add_comm]
  have hlen : ssRight y tl < ((u, x) :: tl).length := by
    have := ssRight_le_length y tl; simp; omega
  obtain ⟨p, hp⟩ := nth?_lt_length _ _ hlen
  unfold cdf cumN cum
  rw [hk]
  simp only [pyIndexPred, nth?_map, nth?_cumAux, hp, Option.map_some]
  rw [zero_add, ← hk, prefixSum_ssRight y _ hs]

/-! ## the padded support -/

variable [OrderBot E] [OrderTop E]

theorem sorted_support (a b : E) (obs : List (E × α)) : Sorted (support ⊥ ⊤ a b obs) := by
  unfold support
  exact sorted_insertAtom _ _ _ (sorted_insertAtom _ _ _ (sorted_insertAtom _ _ _
    (sorted_insertAtom _ _ _ (sorted_atoms obs))))

theorem nonNeg_support (a b : E) (obs : List (E × α)) (h : NonNeg obs) : NonNeg (support ⊥ ⊤ a b obs) := by
  unfold support
  exact nonNeg_insertAtom _ _ le_rfl _ (nonNeg_insertAtom _ _ le_rfl _ (nonNeg_insertAtom _ _ le_rfl _
    (nonNeg_insertAtom _ _ le_rfl _ (nonNeg_atoms obs h))))

theorem weightLE_support (a b y : E) (obs : List (E × α)) :
    weightLE y (support ⊥ ⊤ a b obs) = weightLE y obs := by
  unfold support
  simp only [weightLE_insertAtom, weightLE_atoms, ite_self, zero_add]

theorem weightEq_support (a b y : E) (obs : List (E × α)) :
    weightEq y (support ⊥ ⊤ a b obs) = weightEq y obs := by
  unfold support
  simp only [weightEq_insertAtom, weightEq_atoms, ite_self, zero_add]

theorem total_support (a b : E) (obs : List (E × α)) : total (support ⊥ ⊤ a b obs) = total obs := by
  unfold support
  simp only [total_insertAtom, total_atoms, zero_add]

/-- the head of a sorted list containing ⊥ is ⊥ -/
theorem head_insertAtom_bot (w : α) (l : List (E × α)) :
    ∃ x tl, insertAtom (⊥ : E) w l = ((⊥ : E), x) :: tl := by
  cases l with
  | nil => exact ⟨w, [], rfl⟩
  | cons hd tl =>
    obtain ⟨u, x⟩ := hd
    rcases insertAtom_cases (⊥ : E) w u x tl with ⟨_, he⟩ | ⟨h, he⟩ | ⟨h, _⟩
    · exact ⟨w, (u, x) :: tl, he⟩
    · subst h; exact ⟨x + w, tl, he⟩
    · exact absurd h (not_lt_bot)

/-- **C03-T1**: for every list of (value, weight) observations, every bound pair and every query,
the model's cdf is the total weight of the observations ≤ y divided by the total weight. -/
theorem cdf_support (a b y : E) (obs : List (E × α)) :
    cdf (support ⊥ ⊤ a b obs) y = weightLE y obs / total obs := by
  have hs := sorted_support (α := α) a b obs
  obtain ⟨x, tl, he⟩ := head_insertAtom_bot (E := E) (0 : α)
    (insertAtom a 0 (insertAtom b 0 (insertAtom ⊤ 0 (atoms obs))))
  have hsupp : support ⊥ ⊤ a b obs = ((⊥ : E), x) :: tl := he
  rw [cdf_eq_weightLE _ hs y ⟨⊥, x, tl, hsupp, bot_le⟩, weightLE_support, total_support]


/-! ## pmf -/

theorem ssLeft_spec (y : E) (l : List (E × α)) (hs : Sorted l) :
    (match nth? (ssLeft y l) l with
      | some (u, x) => if u = y then x else 0
      | none => 0) = weightEq y l := by
  induction l with
  | nil => simp [ssLeft, nth?, weightEq]
  | cons hd tl ih =>
    obtain ⟨u, x⟩ := hd
    obtain ⟨hlt, hs'⟩ := hs
    by_cases hu : u < y
    · have hne : u ≠ y := ne_of_lt hu
      simp only [ssLeft, hu, if_true, weightEq, hne, if_false, zero_add]
      rw [Nat.add_comm]
      simpa [nth?] using ih hs'
    · have hz : weightEq y tl = 0 := by
        clear ih
        induction tl with
        | nil => rfl
        | cons hd' tl' ih' =>
          obtain ⟨u', x'⟩ := hd'
          have h1 : u < u' := hlt (u', x') (by simp)
          have hne : u' ≠ y := by
            intro h; subst h; exact hu h1
          simp only [weightEq, hne, if_false, zero_add]
          exact ih' (fun p hp => hlt p (by simp [hp])) hs'.2
      simp only [ssLeft, hu, if_false, nth?, weightEq, hz, add_zero]

/-- **C03-T2**: pmf is the normalised weight of the observations equal to y. -/
theorem pmf_support (a b y : E) (obs : List (E × α)) :
    pmf (support ⊥ ⊤ a b obs) y = weightEq y obs / total obs := by
  have hs := sorted_support (α := α) a b obs
  have h := ssLeft_spec y _ hs
  rw [weightEq_support] at h
  unfold pmf
  rw [total_support]
  cases hn : nth? (ssLeft y (support ⊥ ⊤ a b obs)) (support ⊥ ⊤ a b obs) with
  | none => rw [hn] at h; simp only at h ⊢; rw [← h]; simp
  | some p =>
    obtain ⟨u, x⟩ := p
    rw [hn] at h
    simp only at h ⊢
    rw [← h]
    split_ifs <;> simp

/-! ## ppf: Galois connection with cdf -/

/-- direct recursion equal to `firstReach q (cumN supp)` -/
def reach (q tot : α) : α → List (E × α) → Option E
  | _, [] => none
  | acc, (u, x) :: rest => if q ≤ (acc + x) / tot then some u else reach q tot (acc + x) rest

theorem firstReach_cumAux (q tot acc : α) (l : List (E × α)) :
    firstReach q ((cumAux acc l).map (fun p => (p.1, p.2 / tot))) = reach q tot acc l := by
  induction l generalizing acc with
  | nil => rfl
  | cons hd tl ih =>
    obtain ⟨u, x⟩ := hd
    simp only [cumAux, List.map_cons, firstReach, reach, ih]

theorem weightLE_nonneg (y : E) (l : List (E × α)) (h : NonNeg l) : 0 ≤ weightLE y l := by
  induction l with
  | nil => simp [weightLE]
  | cons hd tl ih =>
    obtain ⟨u, x⟩ := hd
    have hx : 0 ≤ x := h (u, x) (by simp)
    have := ih (fun p hp => h p (by simp [hp]))
    simp only [weightLE]
    split_ifs <;> linarith

/-- key lemma: if the level `q` was not reached before this sub-list, it is reached at an atom ≤ y
iff the cumulative weight up to y reaches q. -/
theorem reach_le_iff (q tot : α) (htot : 0 < tot) (y : E) (acc : α) (l : List (E × α))
    (hs : Sorted l) (hn : NonNeg l) (hacc : acc / tot < q) :
    (∃ u, reach q tot acc l = some u ∧ u ≤ y) ↔ q ≤ (acc + weightLE y l) / tot := by
  induction l generalizing acc with
  | nil =>
    simp only [reach, weightLE, add_zero]
    constructor
    · rintro ⟨u, h, _⟩; cases h
    · intro h; exact absurd h (not_le.mpr hacc)
  | cons hd tl ih =>
    obtain ⟨u, x⟩ := hd
    obtain ⟨hlt, hs'⟩ := hs
    have hx : 0 ≤ x := hn (u, x) (by simp)
    have hn' : NonNeg tl := fun p hp => hn p (by simp [hp])
    by_cases huy : u ≤ y
    · simp only [weightLE, huy, if_true]
      by_cases hq : q ≤ (acc + x) / tot
      · simp only [reach, hq, if_true]
        constructor
        · intro _
          have h0 := weightLE_nonneg y tl hn'
          calc q ≤ (acc + x) / tot := hq
            _ ≤ (acc + (x + weightLE y tl)) / tot := by
                apply div_le_div_of_nonneg_right _ htot.le; linarith
        · intro _; exact ⟨u, rfl, huy⟩
      · simp only [reach, hq, if_false]
        rw [ih (acc + x) hs' hn' (not_le.mp hq)]
        rw [add_assoc]
    · have hz : weightLE y tl = 0 :=
        weightLE_eq_zero_of_all_gt y tl (fun p hp => lt_trans (not_le.mp huy) (hlt p hp))
      simp only [weightLE, huy, if_false, hz, add_zero]
      constructor
      · rintro ⟨u', h, hu'⟩
        exfalso
        by_cases hq : q ≤ (acc + x) / tot
        · simp only [reach, hq, if_true, Option.some.injEq] at h
          subst h; exact huy hu'
        · simp only [reach, hq, if_false] at h
          have := (ih (acc + x) hs' hn' (not_le.mp hq)).mp ⟨u', h, hu'⟩
          rw [hz, add_zero] at this
          exact hq this
      · intro h; exact absurd h (not_le.mpr hacc)

theorem reach_isSome_of_le_total (q tot : α) (htot : 0 < tot) (acc : α) (l : List (E × α))
    (hl : l ≠ []) (h : q ≤ (acc + total l) / tot) (hn : NonNeg l) : ∃ u, reach q tot acc l = some u := by
  induction l generalizing acc with
  | nil => exact absurd rfl hl
  | cons hd tl ih =>
    obtain ⟨u, x⟩ := hd
    by_cases hq : q ≤ (acc + x) / tot
    · exact ⟨u, by simp [reach, hq]⟩
    · simp only [reach, hq, if_false]
      cases tl with
      | nil => simp only [total, add_zero] at h; exact absurd h hq
      | cons hd' tl' =>
        apply ih (acc + x) (by simp)
        · simpa [total, add_assoc] using h
        · exact fun p hp => hn p (by simp [hp])

/-- **C03-T4 (Galois law)**: for the padded support of any observation list with non-negative
weights and positive total weight, any lower bound `a`, any level `0 < q ≤ 1` and any `y ≥ a`:
`ppf q ≤ y ↔ q ≤ cdf y`. -/
theorem ppf_le_iff (a b y : E) (obs : List (E × α)) (hn : NonNeg obs) (htot : 0 < total obs)
    (q : α) (hq0 : 0 < q) (hq1 : q ≤ 1) (hay : a ≤ y) :
    ppf a (support ⊥ ⊤ a b obs) q ≤ y ↔ q ≤ cdf (support ⊥ ⊤ a b obs) y := by
  have hs := sorted_support (α := α) a b obs
  have hnn := nonNeg_support a b obs hn
  have htot' : 0 < total (support ⊥ ⊤ a b obs) := by rw [total_support]; exact htot
  rw [cdf_support]
  set supp := support ⊥ ⊤ a b obs with hsupp
  have hreach : firstReach q (cumN supp) = reach q (total supp) 0 supp := by
    unfold cumN cum; exact firstReach_cumAux q (total supp) 0 supp
  have hne : supp ≠ [] := by
    obtain ⟨x, tl, he⟩ := head_insertAtom_bot (E := E) (0 : α)
      (insertAtom a 0 (insertAtom b 0 (insertAtom ⊤ 0 (atoms obs))))
    intro h
    have : supp = ((⊥ : E), x) :: tl := he
    rw [h] at this; cases this
  obtain ⟨u, hu⟩ := reach_isSome_of_le_total q (total supp) htot' 0 supp hne
    (by rw [zero_add, div_self htot'.ne']; exact hq1) hnn
  have key := reach_le_iff q (total supp) htot' y 0 supp hs hnn (by rw [zero_div]; exact hq0)
  have hte : total supp = total obs := total_support a b obs
  rw [zero_add, weightLE_support] at key
  rw [← hte, ← key]
  unfold ppf
  rw [hreach, hu]
  simp only
  constructor
  · intro h
    refine ⟨u, rfl, ?_⟩
    split_ifs at h with hlt
    · exact le_trans hlt.le hay
    · exact h
  · rintro ⟨u', h', hu'⟩
    cases h'
    split_ifs
    · exact hay
    · exact hu'

#print axioms cdf_support
#print axioms pmf_support
#print axioms ppf_le_iff
end Opda.Emp
