import OpdaProofs.EmpAvg
import Mathlib.Analysis.SpecialFunctions.Pow.Real
/-!
C04: the quantile tuning curve — which term it is, monotone in `n`, and the minimise/maximise duality under negation
(with the tie exclusion, and a witness that the exclusion is necessary).  Also the `rpow` instances of the monotonicity of
the average curve.
-/
set_option linter.unusedSectionVars false
namespace Opda.Emp

section duality
variable {E α : Type} [LinearOrder E] [Field α] [LinearOrder α] [IsStrictOrderedRing α]

/-- `#{≤ ν z}` in the sample and `#{< z}` in the mirrored sample partition the total weight -/
theorem weightLE_add_weightLT_mapObs (ν : E → E) (hν : StrictAnti ν) (hinv : ∀ x, ν (ν x) = x) (z : E)
    (obs : List (E × α)) : weightLE (ν z) obs + weightLT z (mapObs ν obs) = total obs := by
  induction obs with
  | nil => simp [mapObs, weightLE, weightLT, total]
  | cons hd tl ih =>
    obtain ⟨u, x⟩ := hd
    simp only [mapObs, List.map_cons, weightLE, weightLT, total] at ih ⊢
    have hiff : ν u < z ↔ ¬ u ≤ ν z := by
      rw [not_le]
      constructor
      · intro h; have := hν h; rwa [hinv] at this
      · intro h; have := hν h; rwa [hinv] at this
    by_cases h : u ≤ ν z
    · have h' : ¬ ν u < z := fun hh => (hiff.mp hh) h
      simp only [h, h', if_true, if_false]; linarith
    · have h' : ν u < z := hiff.mpr h
      simp only [h, h', if_true, if_false]; linarith

theorem weightLT_add_weightLE_mapObs (ν : E → E) (hν : StrictAnti ν) (hinv : ∀ x, ν (ν x) = x) (z : E)
    (obs : List (E × α)) : weightLT (ν z) obs + weightLE z (mapObs ν obs) = total obs := by
  induction obs with
  | nil => simp [mapObs, weightLE, weightLT, total]
  | cons hd tl ih =>
    obtain ⟨u, x⟩ := hd
    simp only [mapObs, List.map_cons, weightLE, weightLT, total] at ih ⊢
    have hiff : ν u ≤ z ↔ ¬ u < ν z := by
      rw [not_lt]
      constructor
      · intro h; have := hν.antitone h; rwa [hinv] at this
      · intro h; have := hν.antitone h; rwa [hinv] at this
    by_cases h : u < ν z
    · have h' : ¬ ν u ≤ z := fun hh => (hiff.mp hh) h
      simp only [h, h', if_true, if_false]; linarith
    · have h' : ν u ≤ z := hiff.mpr h
      simp only [h, h', if_true, if_false]; linarith

theorem weightLE_le_weightLT (l : List (E × α)) (hn : NonNeg l) (z y : E) (h : z < y) :
    weightLE z l ≤ weightLT y l := by
  induction l with
  | nil => simp [weightLE, weightLT]
  | cons hd tl ih =>
    obtain ⟨u, x⟩ := hd
    have hx : 0 ≤ x := hn (u, x) (by simp)
    have := ih (fun p hp => hn p (List.mem_cons_of_mem _ hp))
    simp only [weightLE, weightLT]
    by_cases h1 : u ≤ z
    · simp only [h1, lt_of_le_of_lt h1 h, if_true]; linarith
    · by_cases h2 : u < y
      · simp only [h1, h2, if_true, if_false]; linarith
      · simp only [h1, h2, if_false]; linarith

theorem weightLE_mono' (l : List (E × α)) (hn : NonNeg l) (y y' : E) (h : y ≤ y') :
    weightLE y l ≤ weightLE y' l := by
  induction l with
  | nil => simp [weightLE]
  | cons hd tl ih =>
    obtain ⟨u, x⟩ := hd
    have hx : 0 ≤ x := hn (u, x) (by simp)
    have := ih (fun p hp => hn p (List.mem_cons_of_mem _ hp))
    simp only [weightLE]
    by_cases h1 : u ≤ y
    · simp only [h1, le_trans h1 h, if_true]; linarith
    · by_cases h2 : u ≤ y'
      · simp only [h1, h2, if_true, if_false]; linarith
      · simp only [h1, h2, if_false]; linarith

theorem weightLE_nonneg' (y : E) (l : List (E × α)) (h : NonNeg l) : 0 ≤ weightLE y l := by
  induction l with
  | nil => simp [weightLE]
  | cons hd tl ih =>
    obtain ⟨u, x⟩ := hd
    have hx : 0 ≤ x := h (u, x) (by simp)
    have := ih (fun p hp => h p (by simp [hp]))
    simp only [weightLE]
    split_ifs <;> linarith

/-- the weight strictly below `y` is 0 or the weight `≤` the largest observation below `y` -/
theorem weightLT_eq_zero_or_weightLE (l : List (E × α)) (hn : NonNeg l) (y : E) :
    weightLT y l = 0 ∨ ∃ p ∈ l, p.1 < y ∧ weightLT y l = weightLE p.1 l := by
  induction l with
  | nil => left; rfl
  | cons hd tl ih =>
    obtain ⟨u, x⟩ := hd
    have hx : 0 ≤ x := hn (u, x) (by simp)
    have hn' : NonNeg tl := fun p hp => hn p (List.mem_cons_of_mem _ hp)
    by_cases hu : u < y
    · right
      rcases ih hn' with h0 | ⟨p, hp, hpy, he⟩
      · refine ⟨(u, x), by simp, hu, ?_⟩
        have h1 := weightLE_le_weightLT tl hn' u y hu
        have h2 := weightLE_nonneg' u tl hn'
        simp only [weightLT, weightLE, hu, le_refl, if_true, h0]
        linarith
      · rcases le_or_gt u p.1 with hup | hpu
        · refine ⟨p, List.mem_cons_of_mem _ hp, hpy, ?_⟩
          simp only [weightLT, weightLE, hu, hup, if_true, he]
        · refine ⟨(u, x), by simp, hu, ?_⟩
          have h1 := weightLE_le_weightLT tl hn' u y hu
          have h2 := weightLE_mono' tl hn' p.1 u hpu.le
          simp only [weightLT, weightLE, hu, le_refl, if_true]
          linarith
    · rcases ih hn' with h0 | ⟨p, hp, hpy, he⟩
      · left; simp only [weightLT, hu, if_false, h0, add_zero]
      · right
        refine ⟨p, List.mem_cons_of_mem _ hp, hpy, ?_⟩
        have : ¬ u ≤ p.1 := fun h => hu (lt_of_le_of_lt h hpy)
        simp only [weightLT, weightLE, hu, this, if_false, he]

theorem nonNeg_mapObs {E' : Type} (ν : E → E') (obs : List (E × α)) (hn : NonNeg obs) : NonNeg (mapObs ν obs) := by
  intro p hp
  obtain ⟨q, hq, rfl⟩ := List.mem_map.mp hp
  exact hn q hq

variable [OrderBot E] [OrderTop E]

/-- **quantile duality** (at the level of `ppf`): with `ν` an order-reversing involution of the value type (negation),
`ppf_{ys;[a,b]}(l) = ν (ppf_{ν ys;[ν b, ν a]}(1 − l))` for `0 < l < 1`, *provided `l` is not exactly a value of the cdf*. -/
theorem ppf_mirror (ν : E → E) (hν : StrictAnti ν) (hinv : ∀ x, ν (ν x) = x)
    (a b : E) (obs : List (E × α)) (hn : NonNeg obs) (htot : 0 < total obs)
    (hbounds : ∀ p ∈ obs, a ≤ p.1 ∧ p.1 ≤ b)
    (l : α) (hl0 : 0 < l) (hl1 : l < 1) (hnotie : ∀ y, cdf (support ⊥ ⊤ a b obs) y ≠ l) :
    ppf a (support ⊥ ⊤ a b obs) l
      = ν (ppf (ν b) (support ⊥ ⊤ (ν b) (ν a) (mapObs ν obs)) (1 - l)) := by
  set Q := ppf a (support ⊥ ⊤ a b obs) l with hQ
  set Q' := ppf (ν b) (support ⊥ ⊤ (ν b) (ν a) (mapObs ν obs)) (1 - l) with hQ'
  have hn' : NonNeg (mapObs ν obs) := nonNeg_mapObs ν obs hn
  have htot' : 0 < total (mapObs ν obs) := by rw [total_mapObs]; exact htot
  have G := fun y hay => ppf_le_iff a b y obs hn htot l hl0 hl1.le hay
  have G' := fun z hbz => ppf_le_iff (ν b) (ν a) z (mapObs ν obs) hn' htot' (1 - l) (by linarith) (by linarith) hbz
  have haQ : a ≤ Q := le_ppf _ _ _
  have hbQ' : ν b ≤ Q' := le_ppf _ _ _
  have hT : total obs ≠ 0 := htot.ne'
  apply le_antisymm
  · -- `Q ≤ ν Q'` (holds even at ties)
    have hQ'a : Q' ≤ ν a := by
      have hba : ν b ≤ ν a := by
        cases obs with
        | nil => simp [total] at htot
        | cons p _ => exact hν.antitone (le_trans (hbounds p (by simp)).1 (hbounds p (by simp)).2)
      rw [G' (ν a) hba, cdf_eq_one_of_all_le _ _ _ htot' (ν a)]
      · linarith
      · intro p hp
        obtain ⟨q, hq, rfl⟩ := List.mem_map.mp hp
        exact hν.antitone (hbounds q hq).1
    have haνQ' : a ≤ ν Q' := by have := hν.antitone hQ'a; rwa [hinv] at this
    rw [G (ν Q') haνQ', cdf_support]
    have hW := weightLE_add_weightLT_mapObs ν hν hinv Q' obs
    rw [le_div_iff₀ htot]
    rcases weightLT_eq_zero_or_weightLE (mapObs ν obs) hn' Q' with h0 | ⟨p, hp, hpQ', he⟩
    · rw [h0, add_zero] at hW; rw [hW]; nlinarith
    · have hbp : ν b ≤ p.1 := by
        obtain ⟨q, hq, rfl⟩ := List.mem_map.mp hp
        exact hν.antitone (hbounds q hq).2
      have hlt : ¬ (1 - l ≤ cdf (support ⊥ ⊤ (ν b) (ν a) (mapObs ν obs)) p.1) := by
        rw [← G' p.1 hbp]; exact not_le.mpr hpQ'
      rw [cdf_support, total_mapObs, not_le, div_lt_iff₀ htot] at hlt
      rw [he] at hW
      nlinarith
  · -- `ν Q' ≤ Q` (this is where a tie breaks the duality)
    by_contra hcon
    have hlt : Q < ν Q' := not_le.mp hcon
    have h1 : l ≤ cdf (support ⊥ ⊤ a b obs) Q := (G Q haQ).mp le_rfl
    have h2 : 1 - l ≤ cdf (support ⊥ ⊤ (ν b) (ν a) (mapObs ν obs)) Q' := (G' Q' hbQ').mp le_rfl
    rw [cdf_support, total_mapObs, le_div_iff₀ htot] at h2
    have hW := weightLT_add_weightLE_mapObs ν hν hinv Q' obs
    have h3 := weightLE_le_weightLT obs hn Q (ν Q') hlt
    apply hnotie Q
    apply le_antisymm _ h1
    rw [cdf_support, div_le_iff₀ htot]
    nlinarith

end duality

/-! ## the quantile tuning curve over `ℝ` -/

section qtc
variable {E : Type} [LinearOrder E] [OrderBot E] [OrderTop E]

/-- `quantile_tuning_curve(n, q, minimize=False) = ppf(q ** (1/n))` -/
noncomputable def qtcMax (a : E) (supp : List (E × ℝ)) (q n : ℝ) : E := ppf a supp (q ^ (1 / n))
/-- `quantile_tuning_curve(n, q, minimize=True) = ppf(1 - (1 - q) ** (1/n))` -/
noncomputable def qtcMin (a : E) (supp : List (E × ℝ)) (q n : ℝ) : E := ppf a supp (1 - (1 - q) ^ (1 / n))

theorem level_max_mem (q n : ℝ) (hq0 : 0 ≤ q) (hq1 : q ≤ 1) (hn : 0 < n) :
    0 ≤ q ^ (1 / n) ∧ q ^ (1 / n) ≤ 1 :=
  ⟨Real.rpow_nonneg hq0 _, Real.rpow_le_one hq0 hq1 (by positivity)⟩

/-- `q^(1/n)` is non-decreasing in `n` for `q ∈ [0,1]` -/
theorem level_max_mono (q n m : ℝ) (hq0 : 0 ≤ q) (hq1 : q ≤ 1) (hn : 0 < n) (hnm : n ≤ m) :
    q ^ (1 / n) ≤ q ^ (1 / m) :=
  Real.rpow_le_rpow_of_exponent_ge' hq0 hq1 (one_div_nonneg.mpr (le_trans hn.le hnm)) (one_div_le_one_div_of_le hn hnm)

/-- **the maximise quantile curve is non-decreasing in `n`** (every real `0 < n ≤ m`, every `q ∈ [0,1]`). -/
theorem qtcMax_mono_n (a b : E) (obs : List (E × ℝ)) (hnn : NonNeg obs) (htot : 0 < total obs)
    (q n m : ℝ) (hq0 : 0 ≤ q) (hq1 : q ≤ 1) (hn : 0 < n) (hnm : n ≤ m) :
    qtcMax a (support ⊥ ⊤ a b obs) q n ≤ qtcMax a (support ⊥ ⊤ a b obs) q m :=
  ppf_mono_closed a b obs hnn htot _ _ (level_max_mem q n hq0 hq1 hn).1 (level_max_mono q n m hq0 hq1 hn hnm)
    (level_max_mem q m hq0 hq1 (lt_of_lt_of_le hn hnm)).2

/-- **the minimise quantile curve is non-increasing in `n`**. -/
theorem qtcMin_anti_n (a b : E) (obs : List (E × ℝ)) (hnn : NonNeg obs) (htot : 0 < total obs)
    (q n m : ℝ) (hq0 : 0 ≤ q) (hq1 : q ≤ 1) (hn : 0 < n) (hnm : n ≤ m) :
    qtcMin a (support ⊥ ⊤ a b obs) q m ≤ qtcMin a (support ⊥ ⊤ a b obs) q n := by
  have h0 : 0 ≤ 1 - q := by linarith
  have h1 : 1 - q ≤ 1 := by linarith
  have hm := level_max_mem (1 - q) m h0 h1 (lt_of_lt_of_le hn hnm)
  have hn' := level_max_mem (1 - q) n h0 h1 hn
  have hmono := level_max_mono (1 - q) n m h0 h1 hn hnm
  exact ppf_mono_closed a b obs hnn htot _ _ (by linarith [hm.2]) (by linarith) (by linarith [hn'.1])

/-- **quantile-curve duality**: `qtc_min(ys, q) = −qtc_max(−ys, 1−q)` with bounds `(−b, −a)`, for `0 < q < 1`, `n > 0`,
away from exact ties between the level `1 − (1−q)^(1/n)` and a value of the cdf. -/
theorem qtc_min_max_duality (ν : E → E) (hν : StrictAnti ν) (hinv : ∀ x, ν (ν x) = x)
    (a b : E) (obs : List (E × ℝ)) (hnn : NonNeg obs) (htot : 0 < total obs)
    (hbounds : ∀ p ∈ obs, a ≤ p.1 ∧ p.1 ≤ b) (q n : ℝ) (hq0 : 0 < q) (hq1 : q < 1) (hn : 0 < n)
    (hnotie : ∀ y, cdf (support ⊥ ⊤ a b obs) y ≠ 1 - (1 - q) ^ (1 / n)) :
    qtcMin a (support ⊥ ⊤ a b obs) q n
      = ν (qtcMax (ν b) (support ⊥ ⊤ (ν b) (ν a) (mapObs ν obs)) (1 - q) n) := by
  have hpos : 0 < (1 - q) ^ (1 / n) := Real.rpow_pos_of_pos (by linarith) _
  have hlt : (1 - q) ^ (1 / n) < 1 := Real.rpow_lt_one (by linarith) (by linarith) (by positivity)
  unfold qtcMin qtcMax
  rw [ppf_mirror ν hν hinv a b obs hnn htot hbounds _ (by linarith) (by linarith) hnotie]
  congr 3
  ring

end qtc

/-! ## `rpow` / `pow` instances of the monotonicity of the average curve -/

/-- **average curve, maximise, real `0 < n ≤ m`**: non-decreasing in `n`. -/
theorem average_mono_max_rpow (obs : List (ℝ × ℝ)) (hnn : NonNeg obs) (htot : 0 < total obs)
    (n m : ℝ) (hn : 0 < n) (hnm : n ≤ m) :
    avgSum (bestWeights (fun x => x ^ n) false (withPrev (cumN (atoms obs))))
      ≤ avgSum (bestWeights (fun x => x ^ m) false (withPrev (cumN (atoms obs)))) := by
  have hm : 0 < m := lt_of_lt_of_le hn hnm
  apply average_mono_max (fun x => x ^ n) (fun x => x ^ m) obs hnn htot
  · intro x hx0 hx1; exact Real.rpow_le_rpow_of_exponent_ge' hx0 hx1 hn.le hnm
  · simp only [Real.zero_rpow hn.ne', Real.zero_rpow hm.ne']
  · simp only [Real.one_rpow]

/-- **average curve, minimise, real `0 < n ≤ m`**: non-increasing in `n`. -/
theorem average_mono_min_rpow (obs : List (ℝ × ℝ)) (hnn : NonNeg obs) (htot : 0 < total obs)
    (n m : ℝ) (hn : 0 < n) (hnm : n ≤ m) :
    avgSum (bestWeights (fun x => x ^ m) true (withPrev (cumN (atoms obs))))
      ≤ avgSum (bestWeights (fun x => x ^ n) true (withPrev (cumN (atoms obs)))) := by
  have hm : 0 < m := lt_of_lt_of_le hn hnm
  apply average_mono_min (fun x => x ^ n) (fun x => x ^ m) obs hnn htot
  · intro x hx0 hx1; exact Real.rpow_le_rpow_of_exponent_ge' hx0 hx1 hn.le hnm
  · simp only [Real.zero_rpow hn.ne', Real.zero_rpow hm.ne']
  · simp only [Real.one_rpow]

/-- the same for natural exponents in any ordered field (what the driver evaluates in `ℚ`) -/
theorem average_mono_max_pow {α : Type} [Field α] [LinearOrder α] [IsStrictOrderedRing α]
    (obs : List (α × α)) (hnn : NonNeg obs) (htot : 0 < total obs) (n m : ℕ) (hn : 0 < n) (hnm : n ≤ m) :
    avgSum (bestWeights (fun x => x ^ n) false (withPrev (cumN (atoms obs))))
      ≤ avgSum (bestWeights (fun x => x ^ m) false (withPrev (cumN (atoms obs)))) := by
  have hm : 0 < m := lt_of_lt_of_le hn hnm
  apply average_mono_max (fun x => x ^ n) (fun x => x ^ m) obs hnn htot
  · intro x hx0 hx1; exact pow_le_pow_of_le_one hx0 hx1 hnm
  · simp only [zero_pow hn.ne', zero_pow hm.ne']
  · simp only [one_pow]

theorem average_mono_min_pow {α : Type} [Field α] [LinearOrder α] [IsStrictOrderedRing α]
    (obs : List (α × α)) (hnn : NonNeg obs) (htot : 0 < total obs) (n m : ℕ) (hn : 0 < n) (hnm : n ≤ m) :
    avgSum (bestWeights (fun x => x ^ m) true (withPrev (cumN (atoms obs))))
      ≤ avgSum (bestWeights (fun x => x ^ n) true (withPrev (cumN (atoms obs)))) := by
  have hm : 0 < m := lt_of_lt_of_le hn hnm
  apply average_mono_min (fun x => x ^ n) (fun x => x ^ m) obs hnn htot
  · intro x hx0 hx1; exact pow_le_pow_of_le_one hx0 hx1 hnm
  · simp only [zero_pow hn.ne', zero_pow hm.ne']
  · simp only [one_pow]

end Opda.Emp
