import OpdaModel.SortFirst
import Mathlib.Data.List.Perm.Basic
import Mathlib.Order.Defs.LinearOrder
import Mathlib.Tactic

/-!
# C16-T4: `sort_by_first` — the outputs are the inputs rearranged by one permutation that sorts the first

The model (`OpdaModel/SortFirst.lean`) computes `sorting = argsort(first)` (stable merge sort of the
index list) and gathers every array at `sorting`, exactly like the code.  `argsort_perm`: `sorting` is a
permutation of `0..n−1`; `first_sorted`: the gathered first array is sorted; `gather_perm`/`rows_perm`:
every array, and the list of rows across the arrays, is rearranged by that one permutation.
-/
namespace Opda.SortFirstP
open Opda.SortFirst

variable {κ : Type}

theorem argsort_perm (le : κ → κ → Bool) (d : κ) (keys : List κ) :
    (argsort le d keys).Perm (List.range keys.length) := by
  unfold argsort; exact List.mergeSort_perm _ _

theorem argsort_sorted (le : κ → κ → Bool)
    (htrans : ∀ a b c, le a b = true → le b c = true → le a c = true)
    (htotal : ∀ a b, (le a b || le b a) = true) (d : κ) (keys : List κ) :
    List.Pairwise (fun p q => le p q = true) (gather d keys (argsort le d keys)) := by
  unfold gather argsort
  rw [List.pairwise_map]
  exact List.pairwise_mergeSort (le := fun i j => le (keys.getD i d) (keys.getD j d))
    (fun a b c => htrans _ _ _) (fun a b => htotal _ _) _

theorem map_getD_range (d : κ) (l : List κ) : (List.range l.length).map (fun i => l.getD i d) = l := by
  apply List.ext_getElem
  · simp
  · intro i h1 h2
    simp [List.getD_eq_getElem?_getD, List.getElem?_eq_getElem h2]

/-- every array of the right length comes back as a permutation of itself … -/
theorem gather_perm (le : κ → κ → Bool) (d : κ) (keys col : List κ) (hlen : col.length = keys.length) :
    (gather d col (argsort le d keys)).Perm col := by
  have h := (argsort_perm le d keys).map (fun i => col.getD i d)
  rw [← hlen, map_getD_range] at h
  exact h

/-- … and it is **one** permutation for all of them: the list of rows (tuples across the arrays) of
the output is the list of rows of the input, rearranged by the index permutation `argsort`. -/
theorem rows_perm (le : κ → κ → Bool) (d : κ) (keys : List κ) (cols : List (List κ)) :
    ((argsort le d keys).map fun i => cols.map fun c => c.getD i d).Perm
      ((List.range keys.length).map fun i => cols.map fun c => c.getD i d) :=
  (argsort_perm le d keys).map _

theorem sortByFirst_nil (le : κ → κ → Bool) (d : κ) : sortByFirst le d [] = .arrays [] := rfl

theorem sortByFirst_unequal (le : κ → κ → Bool) (d : κ) (first : List κ) (rest : List (List κ))
    (h : ∃ c ∈ rest, c.length ≠ first.length) : sortByFirst le d (first :: rest) = .valueError := by
  unfold sortByFirst
  have : rest.any (fun c => c.length != first.length) = true := by
    rw [List.any_eq_true]
    obtain ⟨c, hc, hne⟩ := h
    exact ⟨c, hc, by simpa using hne⟩
  simp [this]

theorem sortByFirst_equal (le : κ → κ → Bool) (d : κ) (first : List κ) (rest : List (List κ))
    (h : ∀ c ∈ rest, c.length = first.length) :
    sortByFirst le d (first :: rest)
      = .arrays ((first :: rest).map fun c => gather d c (argsort le d first)) := by
  unfold sortByFirst
  have : rest.any (fun c => c.length != first.length) = false := by
    rw [List.any_eq_false]
    intro c hc
    simpa using h c hc
  simp [this]

section linear
variable [LinearOrder κ]

/-- with the order's own `≤` the first output array is sorted -/
theorem first_sorted (d : κ) (keys : List κ) :
    List.Pairwise (· ≤ ·) (gather d keys (argsort (fun a b => decide (a ≤ b)) d keys)) := by
  have := argsort_sorted (fun a b : κ => decide (a ≤ b))
    (fun a b c h1 h2 => by simp only [decide_eq_true_eq] at *; exact le_trans h1 h2)
    (fun a b => by simp only [Bool.or_eq_true, decide_eq_true_eq]; exact le_total a b) d keys
  simpa using this
end linear

#print axioms rows_perm
#print axioms first_sorted
end Opda.SortFirstP
