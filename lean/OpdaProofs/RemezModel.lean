import OpdaModel.Approx
import OpdaProofs.Lagrange
import Mathlib.Tactic

/-!
C17-T2/T3 and C18-T4 on the executable model terms:

* `levelP_error` — the code's levelled interpolation (`p0`, `p1`, `h`, `p`), as modelled by
  `Remez.levelH/levelVals/levelP`, has error exactly `(−1)^i h` at all `n+2` reference points;
* `exchange_ordered` — new reference points chosen inside the half-interval brackets stay ordered
  and inside `[a, b]`;
* `knotSearch_mem` — the inner knot bisection returns a point of its bracket; `outerUpdate_*` — the
  outer error bracket only shrinks.
-/
set_option linter.unusedSectionVars false

namespace Opda.Remez
open Finset Opda.Lagr

section Field
variable {F : Type} [Field F] [DecidableEq F]

theorem altSign_eq (i : ℕ) : (altSign i : F) = (-1) ^ i := by
  unfold altSign
  split_ifs with h
  · exact (Even.neg_one_pow (Nat.even_iff.mpr h)).symm
  · exact (Odd.neg_one_pow (Nat.odd_iff.mpr (by omega))).symm

theorem altSign_succ (i : ℕ) : (altSign (i + 1) : F) = - altSign i := by
  rw [altSign_eq, altSign_eq, pow_succ]; ring

/-- **levelled error on the model**: with `h` as computed by the code, `y_i − p(x_i) = (−1)^i h` at
every one of the `n+2` reference points (the last one included). -/
theorem levelP_error (n : ℕ) (v y : ℕ → F) (hv : Set.InjOn v (range (n + 1) : Finset ℕ))
    (hden : Lagr.eval (n + 1) v altSign (v (n + 1)) + altSign n ≠ 0) (i : ℕ) (hi : i ≤ n + 1) :
    y i - levelP n v y (v i) = altSign i * levelH n v y := by
  unfold levelP
  rcases Nat.lt_or_ge i (n + 1) with hlt | hge
  · rw [eval_at_node (n + 1) v _ hv i hlt]
    unfold levelVals; ring
  · have hi' : i = n + 1 := by omega
    subst hi'
    set h := levelH n v y with hh
    have hlin : Lagrange.interpolate (range (n + 1)) v (levelVals n v y)
        = Lagrange.interpolate (range (n + 1)) v y
          - h • Lagrange.interpolate (range (n + 1)) v (altSign : ℕ → F) := by
      have : levelVals n v y = y - h • (altSign : ℕ → F) := by
        funext j; simp [levelVals, hh]
      rw [this, map_sub, map_smul]
    rw [eval_eq_interpolate (n + 1) v _ hv, hlin, Polynomial.eval_sub, Polynomial.eval_smul, smul_eq_mul,
      ← eval_eq_interpolate (n + 1) v y hv, ← eval_eq_interpolate (n + 1) v altSign hv]
    have hdef : h * (Lagr.eval (n + 1) v altSign (v (n + 1)) + altSign n)
        = Lagr.eval (n + 1) v y (v (n + 1)) - y (n + 1) := by
      rw [hh]; unfold levelH
      exact div_mul_cancel₀ _ hden
    rw [altSign_succ]
    linear_combination hdef

end Field

/-! ### the levelled polynomial of the reference, as the driver builds it (`levelPv`) -/

theorem getR_levelPv (n : ℕ) (rs ym : List ℚ) (i : ℕ) (hi : i < n + 1) :
    getR (levelPv n rs ym) i = levelVals n (getR rs) (getR ym) i := by
  unfold getR levelPv levelVals
  simp [List.getD_eq_getElem?_getD, hi]
  rfl

/-- the polynomial `checkAltLevel` certifies is the levelled one: its error against the stand-in values
`ym` is exactly `(−1)^i h` at every reference point -/
theorem levelPv_error (n : ℕ) (rs ym : List ℚ) (hv : Set.InjOn (getR rs) (range (n + 1) : Finset ℕ))
    (hden : Lagr.eval (n + 1) (getR rs) altSign (getR rs (n + 1)) + altSign n ≠ 0) (i : ℕ) (hi : i ≤ n + 1) :
    getR ym i - Lagr.eval (n + 1) (getR rs) (getR (levelPv n rs ym)) (getR rs i)
      = altSign i * levelH n (getR rs) (getR ym) := by
  rw [eval_congr (n + 1) (getR rs) _ _ (fun j hj => getR_levelPv n rs ym j hj)]
  exact levelP_error n (getR rs) (getR ym) hv hden i hi

section Order
variable {α : Type} [LinearOrder α]

/-- **exchange keeps the reference ordered and inside `[a,b]`**: if every new point `r' i` lies in
its search bracket `[lo i, hi i]`, brackets of neighbours abut (`hi i ≤ lo (i+1)`: both are the
midpoint of the old neighbours), the first bracket starts at `a` and the last ends at `b`, then the new
reference is non-decreasing and contained in `[a, b]`. -/
theorem exchange_ordered (N : ℕ) (a b : α) (lo hi r' : ℕ → α)
    (hmem : ∀ i, i ≤ N → lo i ≤ r' i ∧ r' i ≤ hi i)
    (habut : ∀ i, i < N → hi i ≤ lo (i + 1))
    (ha : a ≤ lo 0) (hb : hi N ≤ b) :
    (∀ i, i < N → r' i ≤ r' (i + 1)) ∧ (∀ i, i ≤ N → a ≤ r' i ∧ r' i ≤ b) := by
  have hstep : ∀ i, i < N → r' i ≤ r' (i + 1) := fun i hi' =>
    ((hmem i hi'.le).2.trans (habut i hi')).trans (hmem (i + 1) hi').1
  have hmono : ∀ i j, i ≤ j → j ≤ N → r' i ≤ r' j := by
    intro i j hij hj
    induction j with
    | zero => have : i = 0 := by omega
              subst this; exact le_refl _
    | succ j ih =>
      rcases Nat.lt_or_ge i (j + 1) with h | h
      · exact (ih (by omega) (by omega)).trans (hstep j (by omega))
      · have : i = j + 1 := by omega
        subst this; exact le_refl _
  refine ⟨hstep, fun i hi' => ⟨?_, ?_⟩⟩
  · exact (ha.trans (hmem 0 (Nat.zero_le _)).1).trans (hmono 0 i (Nat.zero_le _) hi')
  · exact (hmono i N hi' (le_refl _)).trans ((hmem N (le_refl _)).2.trans hb)

end Order
end Opda.Remez

namespace Opda.Knots
variable {α : Type} [LinearOrder α]

/-- midpoint operator stays inside the bracket (true of `(lo+hi)/2` in an ordered field) -/
def MidOK (mid : α → α → α) : Prop := ∀ lo hi, lo ≤ hi → lo ≤ mid lo hi ∧ mid lo hi ≤ hi

/-- **inner bisection invariant**: whatever the error function and the target, after at least one
step the returned knot lies in the initial bracket `[lo, hi] = [knot_prev, b]`. -/
theorem knotSearch_mem (mid : α → α → α) (hm : MidOK mid) (errOf : α → α) (target : α)
    (k : ℕ) (lo hi curr : α) (h : lo ≤ hi) (hc : lo ≤ curr ∧ curr ≤ hi) :
    lo ≤ knotSearch mid errOf target k lo hi curr ∧ knotSearch mid errOf target k lo hi curr ≤ hi := by
  induction k generalizing lo hi curr with
  | zero => exact hc
  | succ k ih =>
    obtain ⟨h1, h2⟩ := hm lo hi h
    simp only [knotSearch]
    split_ifs
    · obtain ⟨a, b⟩ := ih lo (mid lo hi) (mid lo hi) h1 ⟨h1, le_refl _⟩
      exact ⟨a, b.trans h2⟩
    · obtain ⟨a, b⟩ := ih (mid lo hi) hi (mid lo hi) h2 ⟨le_refl _, h2⟩
      exact ⟨h1.trans a, b⟩

/-- the knot vector built by successive searches `K (i+1) = knotSearch … (K i) b _` is non-decreasing
and stays in `[a, b]` -/
theorem knots_ordered (mid : α → α → α) (hm : MidOK mid) (errOf : ℕ → α → α → α) (target : α) (steps : ℕ)
    (a b : α) (hab : a ≤ b) (K : ℕ → α) (h0 : K 0 = a)
    (hK : ∀ i, K (i + 1) = knotSearch mid (errOf i (K i)) target (steps + 1) (K i) b (K i)) :
    ∀ i, a ≤ K i ∧ K i ≤ K (i + 1) ∧ K (i + 1) ≤ b := by
  have hin : ∀ i, a ≤ K i ∧ K i ≤ b := by
    intro i
    induction i with
    | zero => rw [h0]; exact ⟨le_refl _, hab⟩
    | succ i ih =>
      have := knotSearch_mem mid hm (errOf i (K i)) target (steps + 1) (K i) b (K i) ih.2 ⟨le_refl _, ih.2⟩
      rw [← hK i] at this
      exact ⟨ih.1.trans this.1, this.2⟩
  intro i
  have := knotSearch_mem mid hm (errOf i (K i)) target (steps + 1) (K i) b (K i) (hin i).2 ⟨le_refl _, (hin i).2⟩
  rw [← hK i] at this
  exact ⟨(hin i).1, this.1, this.2⟩

/-- the outer error bracket only shrinks and keeps containing every level that lies between the
current extreme piece errors and inside the old bracket -/
theorem outerUpdate_shrinks (lo hi emin emax : α) :
    lo ≤ (outerUpdate lo hi emin emax).1 ∧ (outerUpdate lo hi emin emax).2 ≤ hi := by
  unfold outerUpdate
  constructor
  · show lo ≤ if lo ≤ emin then emin else lo
    split_ifs with h
    · exact h
    · exact le_refl _
  · show (if emax ≤ hi then emax else hi) ≤ hi
    split_ifs with h
    · exact h
    · exact le_refl _

theorem outerUpdate_keeps (lo hi emin emax E : α) (h1 : lo ≤ E) (h2 : E ≤ hi) (h3 : emin ≤ E) (h4 : E ≤ emax) :
    (outerUpdate lo hi emin emax).1 ≤ E ∧ E ≤ (outerUpdate lo hi emin emax).2 := by
  unfold outerUpdate
  constructor
  · show (if lo ≤ emin then emin else lo) ≤ E
    split_ifs <;> assumption
  · show E ≤ if emax ≤ hi then emax else hi
    split_ifs <;> assumption

end Opda.Knots
