import OpdaModel.EmpCurves
import OpdaProofs.EmpStep
/-!
C03, last clause: the `mean` / `variance` attributes (`Opda.Emp.moments`) are the weighted moments of the sample and
equal the moments of the step distribution `Σ_v pmf(v)·g(v)` over the merged atoms `v`.
-/
set_option linter.unusedSectionVars false
namespace Opda.Emp
variable {α : Type} [Field α] [LinearOrder α] [IsStrictOrderedRing α]

theorem foldl_add_eq_sum {β : Type} (f : β → α) (l : List β) (a : α) :
    l.foldl (fun acc p => acc + f p) a = a + (l.map f).sum := by
  induction l generalizing a with
  | nil => simp
  | cons hd tl ih => simp only [List.foldl_cons, ih, List.map_cons, List.sum_cons]; ring

/-- **unweighted moments**: `np.mean`, `np.var` (population variance). -/
theorem moments_none (ys : List α) :
    moments ys none
      = (ys.sum / (ys.length : α),
         (ys.map fun y => (y - ys.sum / (ys.length : α)) * (y - ys.sum / (ys.length : α))).sum / (ys.length : α)) := by
  have h1 : ys.foldl (· + ·) 0 = ys.sum := by
    have := foldl_add_eq_sum (fun y : α => y) ys 0
    simpa using this
  unfold moments
  simp only [h1]
  congr 2
  have := foldl_add_eq_sum (fun y : α => (y - ys.sum / (ys.length : α)) * (y - ys.sum / (ys.length : α))) ys 0
  simpa using this

/-- the `where=ws>0` filter drops only zero terms when the weights are non-negative -/
theorem sum_filter_pos (g : α → α) (l : List (α × α)) (h : ∀ p ∈ l, 0 ≤ p.2) :
    ((l.filter fun p => 0 < p.2).map fun p => p.2 * g p.1).sum = (l.map fun p => p.2 * g p.1).sum := by
  induction l with
  | nil => rfl
  | cons hd tl ih =>
    have ih' := ih (fun p hp => h p (List.mem_cons_of_mem _ hp))
    by_cases hpos : 0 < hd.2
    · rw [List.filter_cons_of_pos (by simpa using hpos)]
      simp only [List.map_cons, List.sum_cons, ih']
    · have hz : hd.2 = 0 := le_antisymm (not_lt.mp hpos) (h hd (by simp))
      rw [List.filter_cons_of_neg (by simpa using hpos)]
      simp only [List.map_cons, List.sum_cons, ih', hz, zero_mul, zero_add]

/-- **weighted moments**: `Σ_i w_i y_i` and `Σ_i w_i (y_i − mean)²` over *all* `i`. -/
theorem moments_some (ys ws : List α) (hw : ∀ w ∈ ws, 0 ≤ w) :
    moments ys (some ws)
      = (((ys.zip ws).map fun p => p.2 * p.1).sum,
         ((ys.zip ws).map fun p => p.2 * ((p.1 - ((ys.zip ws).map fun p => p.2 * p.1).sum)
            * (p.1 - ((ys.zip ws).map fun p => p.2 * p.1).sum))).sum) := by
  have hnn : ∀ p ∈ ys.zip ws, 0 ≤ p.2 := fun p hp => hw p.2 (List.of_mem_zip hp).2
  unfold moments
  simp only [foldl_add_eq_sum, zero_add]
  rw [sum_filter_pos (fun y => y) _ hnn]
  congr 1
  exact sum_filter_pos (fun y => (y - _) * (y - _)) _ hnn

/-- the unweighted branch is the weighted branch at `ws = (1/N, …, 1/N)` -/
theorem moments_none_eq_uniform (ys : List α) (hne : ys ≠ []) :
    moments ys none = moments ys (some (List.replicate ys.length (1 / (ys.length : α)))) := by
  have hN : (ys.length : α) ≠ 0 := by
    have : 0 < ys.length := List.length_pos_iff.mpr hne
    exact_mod_cast this.ne'
  have hpos : (0 : α) ≤ 1 / (ys.length : α) := by positivity
  rw [moments_none, moments_some _ _ (fun w hw => by rw [List.eq_of_mem_replicate hw]; exact hpos)]
  have hzip : ∀ (l : List α) (c : α), l.zip (List.replicate l.length c) = l.map fun y => (y, c) := by
    intro l c
    induction l with
    | nil => rfl
    | cons hd tl ih => simp [List.replicate_succ, ih]
  have hsum : ∀ (l : List α) (c : α) (g : α → α),
      ((l.map fun y => (y, c)).map fun p => p.2 * g p.1).sum = (l.map g).sum * c := by
    intro l c g
    induction l with
    | nil => simp
    | cons hd tl ih => simp only [List.map_cons, List.sum_cons, ih]; ring
  rw [hzip]
  have e1 := hsum ys (1 / (ys.length : α)) (fun y => y)
  simp only [List.map_id'] at e1
  rw [e1]
  have e2 := hsum ys (1 / (ys.length : α))
    (fun y => (y - ys.sum * (1 / (ys.length : α))) * (y - ys.sum * (1 / (ys.length : α))))
  rw [e2]
  simp only [mul_one_div]

/-! ## moments of the step distribution -/

theorem sum_insertAtom (g : α → α) (v w : α) (l : List (α × α)) :
    ((insertAtom v w l).map fun p => p.2 * g p.1).sum = w * g v + (l.map fun p => p.2 * g p.1).sum := by
  induction l with
  | nil => simp [insertAtom]
  | cons hd tl ih =>
    obtain ⟨u, x⟩ := hd
    rcases insertAtom_cases v w u x tl with ⟨_, he⟩ | ⟨h, he⟩ | ⟨_, he⟩ <;> rw [he]
    · simp
    · subst h; simp only [List.map_cons, List.sum_cons]; ring
    · simp only [List.map_cons, List.sum_cons, ih]; ring

/-- merging duplicates does not change any weighted sum -/
theorem sum_atoms (g : α → α) (obs : List (α × α)) :
    ((atoms obs).map fun p => p.2 * g p.1).sum = (obs.map fun p => p.2 * g p.1).sum := by
  induction obs with
  | nil => rfl
  | cons o tl ih =>
    obtain ⟨v, w⟩ := o
    show ((insertAtom v w (atoms tl)).map _).sum = _
    rw [sum_insertAtom, ih]; rfl

variable {E : Type} [LinearOrder E]

/-- in a strictly sorted list the weight attached to a value is its `weightEq` -/
theorem weightEq_of_mem_sorted (l : List (E × α)) (hs : Sorted l) (p : E × α) (hp : p ∈ l) :
    weightEq p.1 l = p.2 := by
  induction l with
  | nil => simp at hp
  | cons hd tl ih =>
    obtain ⟨u, x⟩ := hd
    obtain ⟨hlt, hs'⟩ := hs
    rcases List.mem_cons.mp hp with rfl | hp'
    · simp [weightEq, weightEq_eq_zero_of_all_gt _ tl hlt]
    · have hne : u ≠ p.1 := ne_of_lt (hlt p hp')
      simp [weightEq, hne, ih hs' hp']

theorem weightEq_of_mem_atoms (obs : List (E × α)) (p : E × α) (hp : p ∈ atoms obs) :
    weightEq p.1 obs = p.2 := by
  rw [← weightEq_atoms, weightEq_of_mem_sorted _ (sorted_atoms obs) p hp]

theorem weightEq_map_injective (ι : α → E) (hι : Function.Injective ι) (v : α) (obs : List (α × α)) :
    weightEq (ι v) (obs.map fun p => (ι p.1, p.2)) = weightEq v obs := by
  induction obs with
  | nil => rfl
  | cons hd tl ih =>
    obtain ⟨u, x⟩ := hd
    simp only [List.map_cons, weightEq, ih, hι.eq_iff]

theorem total_map_fst {E' : Type} (f : E' → E) (obs : List (E' × α)) :
    total (obs.map fun p => (f p.1, p.2)) = total obs := by
  induction obs with
  | nil => rfl
  | cons hd tl ih => obtain ⟨u, x⟩ := hd; simp only [List.map_cons, total, ih]

variable [OrderBot E] [OrderTop E]

/-- **expectation under the step distribution**: for the constructor's `pmf`, `Σ_{atoms v} pmf(v)·g(v)` is the
normalised weighted sum over the raw observations.  `ι` embeds the finite values into the extended value type
(`Ext.fin`, `Real.toEReal`, …). -/
theorem sum_atoms_pmf (ι : α → E) (hι : Function.Injective ι) (a b : E) (g : α → α) (obs : List (α × α)) :
    ((atoms obs).map fun p => pmf (support ⊥ ⊤ a b (obs.map fun p => (ι p.1, p.2))) (ι p.1) * g p.1).sum
      = (obs.map fun p => p.2 / total obs * g p.1).sum := by
  have h1 : ((atoms obs).map fun p => pmf (support ⊥ ⊤ a b (obs.map fun p => (ι p.1, p.2))) (ι p.1) * g p.1)
      = (atoms obs).map fun p => p.2 * (g p.1 / total obs) := by
    apply List.map_congr_left
    intro p hp
    rw [pmf_support, weightEq_map_injective ι hι, total_map_fst, weightEq_of_mem_atoms obs p hp]; ring
  rw [h1, sum_atoms (fun v => g v / total obs)]
  congr 1
  apply List.map_congr_left
  intro p _; ring

/-- **mean and variance are the moments of the step distribution (weighted case, `Σ w = 1`)**. -/
theorem moments_some_eq_step (ι : α → E) (hι : Function.Injective ι) (a b : E) (ys ws : List α)
    (hw : ∀ w ∈ ws, 0 ≤ w) (htot : total (ys.zip ws) = 1) :
    moments ys (some ws)
      = (((atoms (ys.zip ws)).map fun p =>
            pmf (support ⊥ ⊤ a b ((ys.zip ws).map fun p => (ι p.1, p.2))) (ι p.1) * p.1).sum,
         ((atoms (ys.zip ws)).map fun p =>
            pmf (support ⊥ ⊤ a b ((ys.zip ws).map fun p => (ι p.1, p.2))) (ι p.1)
              * ((p.1 - (moments ys (some ws)).1) * (p.1 - (moments ys (some ws)).1))).sum) := by
  rw [sum_atoms_pmf ι hι a b (fun y => y), sum_atoms_pmf ι hι a b (fun y => (y - _) * (y - _))]
  rw [moments_some ys ws hw]
  simp only [htot, div_one]

/-- **mean and variance are the moments of the step distribution (unweighted case)**: the observations enter the
constructor with weight 1 each (as in the driver), `pmf` is then `count/N`. -/
theorem moments_none_eq_step (ι : α → E) (hι : Function.Injective ι) (a b : E) (ys : List α) :
    moments ys none
      = (((atoms (ys.map fun y => (y, (1 : α)))).map fun p =>
            pmf (support ⊥ ⊤ a b (ys.map fun y => (ι y, (1 : α)))) (ι p.1) * p.1).sum,
         ((atoms (ys.map fun y => (y, (1 : α)))).map fun p =>
            pmf (support ⊥ ⊤ a b (ys.map fun y => (ι y, (1 : α)))) (ι p.1)
              * ((p.1 - (moments ys none).1) * (p.1 - (moments ys none).1))).sum) := by
  have hmap : (ys.map fun y => (ι y, (1 : α))) = (ys.map fun y => (y, (1 : α))).map fun p => (ι p.1, p.2) := by
    simp
  have htot : total (ys.map fun y => (y, (1 : α))) = (ys.length : α) := by
    clear hmap
    induction ys with
    | nil => simp [total]
    | cons hd tl ih => simp only [List.map_cons, total, ih, List.length_cons]; push_cast; ring
  have aux : ∀ (l : List α) (n : α) (g : α → α),
      ((l.map fun y => (y, (1 : α))).map fun p => p.2 / n * g p.1).sum = (l.map g).sum / n := by
    intro l n g
    induction l with
    | nil => simp
    | cons hd tl ih => simp only [List.map_cons, List.sum_cons, ih]; ring
  rw [hmap, sum_atoms_pmf ι hι a b (fun y => y),
    sum_atoms_pmf ι hι a b (fun y => (y - (moments ys none).1) * (y - (moments ys none).1)), htot]
  have e1 := aux ys (ys.length : α) (fun y => y)
  have e2 := aux ys (ys.length : α) (fun y => (y - (moments ys none).1) * (y - (moments ys none).1))
  beta_reduce at e1 e2
  rw [e1, e2, moments_none]
  simp

end Opda.Emp
