import OpdaModel.Band
import OpdaProofs.Emp
import Mathlib.Tactic

namespace Opda.Band
open Opda.Emp
variable {E α : Type} [LinearOrder E] [Field α] [LinearOrder α] [IsStrictOrderedRing α]

/-- weakly increasing -/
def WSorted : List E → Prop
  | [] => True
  | u :: rest => (∀ v ∈ rest, u ≤ v) ∧ WSorted rest

/-- number of leading entries ≤ t (for a sorted list: the number of entries ≤ t) -/
def countLE (t : E) : List E → Nat
  | [] => 0
  | u :: rest => if u ≤ t then 1 + countLE t rest else 0

def sumFirst : Nat → List α → α
  | 0, _ => 0
  | _, [] => 0
  | k+1, x :: rest => x + sumFirst k rest

theorem weightLE_zip_sorted (t : E) (s : List E) (d : List α) (hs : WSorted s) :
    weightLE t (s.zip d) = sumFirst (countLE t s) d := by
  induction s generalizing d with
  | nil => simp [weightLE, countLE, sumFirst]
  | cons u rest ih =>
    obtain ⟨hle, hs'⟩ := hs
    cases d with
    | nil => simp only [List.zip_nil_right, weightLE, countLE]; split_ifs <;> simp [sumFirst]
             <;> (cases h : (1 + countLE t rest) <;> simp [sumFirst])
    | cons x d' =>
      by_cases hu : u ≤ t
      · simp only [List.zip_cons_cons, weightLE, hu, if_true, countLE]
        rw [Nat.add_comm, sumFirst, ih d' hs']
      · simp only [List.zip_cons_cons, weightLE, hu, if_false, countLE, sumFirst, zero_add]
        -- everything after u is ≥ u > t
        have : ∀ p ∈ rest.zip d', t < p.1 := by
          intro p hp
          have := (List.of_mem_zip hp).1
          exact lt_of_lt_of_le (not_le.mp hu) (hle p.1 this)
        exact weightLE_eq_zero_of_all_gt t _ this

/-- telescoping: the first `k` differences sum to (level k−1) − prev; all of them to 1 − prev. -/
theorem sumFirst_diffsAux (prev : α) (levels : List α) (k : Nat) (hk : k ≤ levels.length) :
    sumFirst k (diffsAux prev levels) = (if k = 0 then prev else levels.getD (k-1) 0) - prev := by
  induction levels generalizing prev k with
  | nil =>
    have : k = 0 := by simpa using hk
    subst this; simp [sumFirst]
  | cons l rest ih =>
    cases k with
    | zero => simp [sumFirst]
    | succ k =>
      simp only [diffsAux, sumFirst]
      rw [ih l k (by simpa using hk)]
      cases k with
      | zero => simp
      | succ k => simp

theorem sumFirst_diffsAux_all (prev : α) (levels : List α) (k : Nat) (hk : levels.length < k) :
    sumFirst k (diffsAux prev levels) = 1 - prev := by
  induction levels generalizing prev k with
  | nil =>
    cases k with
    | zero => simp at hk
    | succ k => cases k <;> simp [diffsAux, sumFirst]
  | cons l rest ih =>
    cases k with
    | zero => simp at hk
    | succ k =>
      simp only [diffsAux, sumFirst]
      rw [ih l k (by simpa using hk)]; ring

theorem total_eq_weightLE_of_all_le (t : E) (l : List (E × α)) (h : ∀ p ∈ l, p.1 ≤ t) :
    total l = weightLE t l := by
  induction l with
  | nil => rfl
  | cons hd tl ih =>
    obtain ⟨u, x⟩ := hd
    have hu : u ≤ t := h (u, x) (by simp)
    simp only [total, weightLE, hu, if_true, ih (fun p hp => h p (by simp [hp]))]

theorem length_diffsAux (prev : α) (levels : List α) : (diffsAux prev levels).length = levels.length + 1 := by
  induction levels generalizing prev with
  | nil => rfl
  | cons l rest ih => simp [diffsAux, ih]

theorem countLE_le_length (t : E) (s : List E) : countLE t s ≤ s.length := by
  induction s with
  | nil => simp [countLE]
  | cons u rest ih => simp only [countLE, List.length_cons]; split_ifs <;> omega

/-- **C02-T1 (list form)**: the weight a band distribution puts on `(−∞, t]` is the level indexed by
the number of extended sample points `≤ t` (minus one): 0 if none, `levels[k−1]` for
`1 ≤ k ≤ |levels|`, and 1 beyond. `s` is the sorted extended sample `[a] ++ ys ++ [b]`. -/
theorem band_weightLE (t : E) (s : List E) (levels : List α) (hs : WSorted s) :
    weightLE t (s.zip (diffs levels)) =
      (if countLE t s = 0 then 0
       else if countLE t s ≤ levels.length then levels.getD (countLE t s - 1) 0 else 1) := by
  rw [weightLE_zip_sorted t s _ hs]
  unfold diffs
  by_cases h0 : countLE t s = 0
  · simp [h0, sumFirst]
  · by_cases hk : countLE t s ≤ levels.length
    · rw [sumFirst_diffsAux 0 levels _ hk]; simp [h0, hk]
    · rw [sumFirst_diffsAux_all 0 levels _ (not_le.mp hk)]; simp [h0, hk]

#print axioms band_weightLE
end Opda.Band
