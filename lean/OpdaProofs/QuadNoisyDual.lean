import OpdaModel.NoisyFloat
import OpdaProofs.NoisyLogic
import Mathlib.Algebra.Order.Field.Basic
import Mathlib.Tactic

/-!
C09 (noisy class): reflection duality and location–scale equivariance of the polymorphic model
`Opda.Noisy.{cdf, pdf, ppf}` (`OpdaModel/NoisyFloat.lean`, the term the driver evaluates at `Float`),
over an arbitrary linearly ordered field and for an **arbitrary** record `F : Fns α` of transcendental
functions — in particular for any partial-moment machinery (table, Chebyshev fallback, recursions):
the quantities the series regime is computed from (`locOf`, the scale `o/(b−a)`, the `point`) are
identical / negated for `D` at `y` and `D'` at `−y` and invariant under the affine map, so the
internals drop out.  What is assumed about `F` is explicit: `Lawful F` (numerals, `==`), `Symm F`
(`Φ(−x) = 1 − Φ(x)`, `φ(−x) = φ(x)`), `SymmPpf F` (`Φ⁻¹(1−q) = −Φ⁻¹(q)`, `−inf = −(+inf)`; only `ppf`) and, for the `normal`
regime under rescaling, `SqrtScale F` (`√(k²v) = k√v`).
-/
set_option linter.unusedSectionVars false

namespace Opda.Noisy

variable {α : Type} [Field α] [LinearOrder α] [IsStrictOrderedRing α] {F : Fns α}

/-- the mirrored distribution `(−b, −a, c, o, ¬convex)` -/
def reflect (d : Params α) : Params α :=
  { a := -d.b, b := -d.a, c := d.c, o := d.o, convex := !d.convex }

/-- the standard member `(0, 1, c, o/(b−a), convex)` of the location–scale family of `d` -/
def std0 (d : Params α) : Params α :=
  { a := 0, b := 1, c := d.c, o := d.o / (d.b - d.a), convex := d.convex }

/-- the argument of `Φ` in the series regime (`point` in the source) -/
def pointOf (d : Params α) (y : α) : α := if d.convex then (y - d.b) / d.o else (y - d.a) / d.o

/-- the scale of the series regime (`scale` in the source) -/
def scaleOf (d : Params α) : α := d.o / (d.b - d.a)

structure Symm (F : Fns α) : Prop where
  cdf_neg : ∀ x, F.normalCdf (-x) = 1 - F.normalCdf x
  pdf_neg : ∀ x, F.normalPdf (-x) = F.normalPdf x

/-- what `ppf` needs in addition: the black box `normal_ppf` is odd about `1/2`, and `−inf = −(+inf)` -/
structure SymmPpf (F : Fns α) : Prop where
  ppf_compl : ∀ q, F.normalPpf (1 - q) = - F.normalPpf q
  inf_neg : F.negInf = - F.posInf

structure SqrtScale (F : Fns α) : Prop where
  sqrt_scale : ∀ k v : α, 0 < k → F.sqrt (k * k * v) = k * F.sqrt v

/-! ### the arguments of the series regime -/

/-- `loc` is identical for `D` at `y` and `D'` at `−y` -/
theorem locOf_reflect (d : Params α) (y : α) : locOf (reflect d) (-y) = locOf d y := by
  unfold locOf reflect
  cases d.convex <;> simp <;> ring_nf

/-- `scale` is identical for `D` and `D'` -/
theorem scaleOf_reflect (d : Params α) : scaleOf (reflect d) = scaleOf d := by
  unfold scaleOf reflect; simp; ring_nf

/-- `point` is negated -/
theorem pointOf_reflect (d : Params α) (y : α) : pointOf (reflect d) (-y) = - pointOf d y := by
  unfold pointOf reflect
  cases d.convex <;> simp <;> ring

/-- `loc`, `scale`, `point` are invariant under `y = a + (b−a) z`, `o = s (b−a)` -/
theorem locOf_affine (d : Params α) (hab : d.a < d.b) (z : α) :
    locOf d (d.a + (d.b - d.a) * z) = locOf (std0 d) z := by
  have hne : d.b - d.a ≠ 0 := (sub_pos.mpr hab).ne'
  unfold locOf std0
  cases d.convex <;> simp <;> field_simp <;> ring

theorem scaleOf_affine (d : Params α) : scaleOf d = scaleOf (std0 d) := by
  unfold scaleOf std0; simp

theorem pointOf_affine (d : Params α) (hab : d.a < d.b) (ho : d.o ≠ 0) (z : α) :
    pointOf d (d.a + (d.b - d.a) * z) = pointOf (std0 d) z := by
  have hne : d.b - d.a ≠ 0 := (sub_pos.mpr hab).ne'
  unfold pointOf std0
  cases d.convex <;> simp <;> field_simp <;> ring

theorem cdfRaw_eq (d : Params α) (y : α) :
    cdfRaw F d y = if d.convex then F.normalCdf (pointOf d y) + partialMoment F (locOf d y) (scaleOf d) (d.c : Int)
      else F.normalCdf (pointOf d y) - partialMoment F (locOf d y) (scaleOf d) (d.c : Int) := by
  unfold cdfRaw pointOf scaleOf
  cases d.convex <;> simp

theorem pdfRaw_eq (d : Params α) (y : α) :
    pdfRaw F d y = F.n d.c / (F.n 2 * (d.b - d.a)) * partialMoment F (locOf d y) (scaleOf d) ((d.c : Int) - 2) := rfl

/-! ### regime, point mass, moments under the two maps -/

theorem regime_reflect (d : Params α) : regime F (reflect d) = regime F d := by
  unfold regime reflect
  have : (-d.a - -d.b : α) = d.b - d.a := by ring
  simp only [this]

theorem pointMass_false (hF : Lawful F) (d : Params α) (hab : d.a < d.b) : pointMass F d = false := by
  rw [Bool.eq_false_iff, Ne, pointMass_iff hF]; intro h; exact (ne_of_lt hab) h.1

theorem reflect_lt (d : Params α) (hab : d.a < d.b) : (reflect d).a < (reflect d).b := by
  unfold reflect; simp; exact hab

theorem std0_lt (d : Params α) : (std0 d).a < (std0 d).b := by unfold std0; simp

theorem meanOf_reflect (hF : Lawful F) (d : Params α) : meanOf F (reflect d) = - meanOf F d := by
  have hc : (d.c : α) + 2 ≠ 0 := by positivity
  unfold meanOf reflect
  cases d.convex <;> simp [hF.n_cast] <;> field_simp <;> ring

theorem varOf_reflect (d : Params α) : varOf F (reflect d) = varOf F d := by
  unfold varOf reflect
  have : (-d.a - -d.b : α) = d.b - d.a := by ring
  simp only [this]

theorem regime_affine (d : Params α) (hab : d.a < d.b) : regime F (std0 d) = regime F d := by
  have hw : 0 < d.b - d.a := sub_pos.mpr hab
  unfold regime std0
  simp only [sub_zero, mul_one]
  have e1 : (d.o / (d.b - d.a) < F.lit 1 1000000) ↔ (d.o < F.lit 1 1000000 * (d.b - d.a)) := div_lt_iff₀ hw
  have e2 : (d.o / (d.b - d.a) < F.n 10) ↔ (d.o < F.n 10 * (d.b - d.a)) := div_lt_iff₀ hw
  by_cases h1 : d.o < F.lit 1 1000000 * (d.b - d.a)
  · rw [if_pos h1, if_pos (e1.mpr h1)]
  · rw [if_neg h1, if_neg (fun h => h1 (e1.mp h))]
    by_cases h2 : d.o < F.n 10 * (d.b - d.a)
    · rw [if_pos h2, if_pos (e2.mpr h2)]
    · rw [if_neg h2, if_neg (fun h => h2 (e2.mp h))]

theorem meanOf_affine (hF : Lawful F) (d : Params α) :
    meanOf F d = d.a + (d.b - d.a) * meanOf F (std0 d) := by
  have hc : (d.c : α) + 2 ≠ 0 := by positivity
  unfold meanOf std0
  cases d.convex <;> simp [hF.n_cast] <;> field_simp

theorem varOf_affine (hF : Lawful F) (d : Params α) (hab : d.a < d.b) :
    varOf F d = (d.b - d.a) * (d.b - d.a) * varOf F (std0 d) := by
  have hne : d.b - d.a ≠ 0 := (sub_pos.mpr hab).ne'
  have hc : (d.c : α) + 2 ≠ 0 := by positivity
  have hc4 : (d.c : α) + 4 ≠ 0 := by positivity
  unfold varOf std0
  simp [hF.n_cast]
  field_simp

/-! ### clip -/

theorem clip_neg (x lo hi : α) (h : lo ≤ hi) : clip (-x) (-hi) (-lo) = -clip x lo hi := by
  unfold clip
  by_cases h1 : x < lo
  · have h2 : ¬ (-x < -hi) := by push Not; linarith
    have h3 : -lo < -x := by linarith
    simp [h1, h2, h3]
  · by_cases h2 : hi < x
    · have : -x < -hi := by linarith
      simp [h1, h2, this]
    · have h3 : ¬ (-x < -hi) := by push Not; linarith [not_lt.mp h2]
      have h4 : ¬ (-lo < -x) := by push Not; linarith [not_lt.mp h1]
      simp [h1, h2, h3, h4]

theorem clip_one_sub (x : α) : clip (1 - x) 0 1 = 1 - clip x 0 1 := by
  unfold clip
  by_cases h1 : x < 0
  · have h2 : ¬ (1 - x < 0) := by push Not; linarith
    have h3 : 1 < 1 - x := by linarith
    simp [h1, h2, h3]
  · by_cases h2 : 1 < x
    · have : 1 - x < 0 := by linarith
      simp [h1, h2, this]
    · have h3 : ¬ (1 - x < 0) := by push Not; linarith [not_lt.mp h2]
      have h4 : ¬ (1 < 1 - x) := by push Not; linarith [not_lt.mp h1]
      simp [h1, h2, h3, h4]

theorem clip_affine (a b z : α) (hab : a < b) : clip (a + (b - a) * z) a b = a + (b - a) * clip z 0 1 := by
  have hba : 0 < b - a := sub_pos.mpr hab
  unfold clip
  by_cases h1 : z < 0
  · have : a + (b - a) * z < a := by nlinarith
    simp [h1, this]
  · by_cases h2 : 1 < z
    · have h3 : ¬ (a + (b - a) * z < a) := by push Not; nlinarith [not_lt.mp h1]
      have h4 : b < a + (b - a) * z := by nlinarith
      simp [h1, h2, h3, h4]
    · have h3 : ¬ (a + (b - a) * z < a) := by push Not; nlinarith [not_lt.mp h1]
      have h4 : ¬ (b < a + (b - a) * z) := by push Not; nlinarith [not_lt.mp h2]
      simp [h1, h2, h3, h4]

/-! ### reflection of cdf and pdf -/

theorem cdfRaw_reflect (hS : Symm F) (d : Params α) (y : α) :
    cdfRaw F (reflect d) (-y) = 1 - cdfRaw F d y := by
  rw [cdfRaw_eq, cdfRaw_eq, locOf_reflect, scaleOf_reflect, pointOf_reflect, hS.cdf_neg]
  unfold reflect
  cases d.convex <;> simp <;> ring

/-- **`D.cdf(y) = 1 − D'.cdf(−y)`**, every regime, any `F` -/
theorem cdf_reflect (hF : Lawful F) (hS : Symm F) (d : Params α) (hab : d.a < d.b) (y : α) :
    cdf F d y = 1 - cdf F (reflect d) (-y) := by
  have hp := pointMass_false hF d hab
  have hp' := pointMass_false hF (reflect d) (reflect_lt d hab)
  have hr := regime_reflect (F := F) d
  cases h : regime F d
  · rw [cdf_noiseless d y hp h, cdf_noiseless (reflect d) (-y) hp' (hr.trans h)]
    unfold reflect
    simp only [clip_neg y d.a d.b hab.le, hF.n_cast]
    cases d.convex <;> simp <;> (congr 1; ring)
  · rw [cdf_nothing d y hp h, cdf_nothing (reflect d) (-y) hp' (hr.trans h), cdfRaw_reflect hS,
      hF.n_cast, hF.n_cast]
    push_cast
    rw [clip_one_sub]; ring
  · rw [cdf_normal d y hp h, cdf_normal (reflect d) (-y) hp' (hr.trans h), meanOf_reflect hF, varOf_reflect]
    have : (-y - -meanOf F d) / F.sqrt (varOf F d) = -((y - meanOf F d) / F.sqrt (varOf F d)) := by ring
    rw [this, hS.cdf_neg]; ring

theorem pdfRaw_reflect (d : Params α) (y : α) : pdfRaw F (reflect d) (-y) = pdfRaw F d y := by
  rw [pdfRaw_eq, pdfRaw_eq, locOf_reflect, scaleOf_reflect]
  unfold reflect
  have : (-d.a - -d.b : α) = d.b - d.a := by ring
  simp only [this]

/-- **`D.pdf(y) = D'.pdf(−y)`** -/
theorem pdf_reflect (hF : Lawful F) (hS : Symm F) (d : Params α) (hab : d.a < d.b) (y : α) :
    pdf F d y = pdf F (reflect d) (-y) := by
  have hp := pointMass_false hF d hab
  have hp' := pointMass_false hF (reflect d) (reflect_lt d hab)
  have hr := regime_reflect (F := F) d
  cases h : regime F d
  · rw [pdf_noiseless d y hp h, pdf_noiseless (reflect d) (-y) hp' (hr.trans h)]
    unfold reflect
    have e0 : (-d.a - -d.b : α) = d.b - d.a := by ring
    have e1 : (-y - -d.b : α) = d.b - y := by ring
    have e2 : (-d.a - -y : α) = y - d.a := by ring
    have hc : (-y < -d.b ∨ -d.a < -y) ↔ (y < d.a ∨ d.b < y) := by
      constructor <;> (rintro (h | h) <;> [right; left] <;> linarith)
    simp only [e0, e1, e2, hc]
    cases d.convex <;> simp
  · rw [pdf_nothing d y hp h, pdf_nothing (reflect d) (-y) hp' (hr.trans h), pdfRaw_reflect]
  · rw [pdf_normal d y hp h, pdf_normal (reflect d) (-y) hp' (hr.trans h), meanOf_reflect hF, varOf_reflect]
    have : (-y - -meanOf F d) / F.sqrt (varOf F d) = -((y - meanOf F d) / F.sqrt (varOf F d)) := by ring
    rw [this, hS.pdf_neg]

/-! ### location–scale equivariance of cdf and pdf -/

theorem cdfRaw_affine (d : Params α) (hab : d.a < d.b) (ho : d.o ≠ 0) (z : α) :
    cdfRaw F d (d.a + (d.b - d.a) * z) = cdfRaw F (std0 d) z := by
  rw [cdfRaw_eq, cdfRaw_eq, locOf_affine d hab, scaleOf_affine d, pointOf_affine d hab ho]
  rfl

/-- **`D.cdf(a + (b−a) z) = D₀.cdf(z)`** -/
theorem cdf_affine (hF : Lawful F) (hQ : SqrtScale F) (d : Params α) (hab : d.a < d.b) (z : α) :
    cdf F d (d.a + (d.b - d.a) * z) = cdf F (std0 d) z := by
  have hw : 0 < d.b - d.a := sub_pos.mpr hab
  have hp := pointMass_false hF d hab
  have hp' := pointMass_false hF (std0 d) (std0_lt d)
  have hr := regime_affine (F := F) d hab
  cases h : regime F d
  · rw [cdf_noiseless d _ hp h, cdf_noiseless (std0 d) z hp' (hr.trans h), clip_affine _ _ z hab]
    unfold std0
    have e1 : (d.a + (d.b - d.a) * clip z 0 1 - d.a) / (d.b - d.a) = (clip z 0 1 - 0) / (1 - 0) := by
      field_simp; ring
    have e2 : (d.b - (d.a + (d.b - d.a) * clip z 0 1)) / (d.b - d.a) = (1 - clip z 0 1) / (1 - 0) := by
      field_simp; ring
    simp only [e1, e2]
  · have ho : d.o ≠ 0 := (nothing_pos hF d hab.le h).1.ne'
    rw [cdf_nothing d _ hp h, cdf_nothing (std0 d) z hp' (hr.trans h), cdfRaw_affine d hab ho]
  · rw [cdf_normal d _ hp h, cdf_normal (std0 d) z hp' (hr.trans h), meanOf_affine hF d, varOf_affine hF d hab,
      hQ.sqrt_scale _ _ hw]
    congr 1
    by_cases hs : F.sqrt (varOf F (std0 d)) = 0
    · simp [hs]
    · field_simp; ring

theorem pdfRaw_affine (hF : Lawful F) (d : Params α) (hab : d.a < d.b) (z : α) :
    (d.b - d.a) * pdfRaw F d (d.a + (d.b - d.a) * z) = pdfRaw F (std0 d) z := by
  have hne : d.b - d.a ≠ 0 := (sub_pos.mpr hab).ne'
  rw [pdfRaw_eq, pdfRaw_eq, locOf_affine d hab, scaleOf_affine d]
  unfold std0
  simp only [sub_zero, hF.n_cast]
  field_simp

/-- **`(b−a)·D.pdf(a + (b−a) z) = D₀.pdf(z)`** -/
theorem pdf_affine (hF : Lawful F) (hQ : SqrtScale F) (d : Params α) (hab : d.a < d.b) (z : α) :
    (d.b - d.a) * pdf F d (d.a + (d.b - d.a) * z) = pdf F (std0 d) z := by
  have hw : 0 < d.b - d.a := sub_pos.mpr hab
  have hp := pointMass_false hF d hab
  have hp' := pointMass_false hF (std0 d) (std0_lt d)
  have hr := regime_affine (F := F) d hab
  cases h : regime F d
  · rw [pdf_noiseless d _ hp h, pdf_noiseless (std0 d) z hp' (hr.trans h)]
    have hc : (d.a + (d.b - d.a) * z < d.a ∨ d.b < d.a + (d.b - d.a) * z) ↔ (z < (std0 d).a ∨ (std0 d).b < z) := by
      unfold std0; simp only
      constructor
      · rintro (h | h)
        · left; by_contra hc; push Not at hc; nlinarith
        · right; by_contra hc; push Not at hc; nlinarith
      · rintro (h | h)
        · left; nlinarith
        · right; nlinarith
    by_cases hout : z < (std0 d).a ∨ (std0 d).b < z
    · rw [if_pos hout, if_pos (hc.mpr hout), hF.n_cast]; simp
    · rw [if_neg hout, if_neg (fun h => hout (hc.mp h))]
      unfold std0
      have e1 : (d.a + (d.b - d.a) * z - d.a) / (d.b - d.a) = (z - 0) / (1 - 0) := by field_simp; ring
      have e2 : (d.b - (d.a + (d.b - d.a) * z)) / (d.b - d.a) = (1 - z) / (1 - 0) := by field_simp; ring
      simp only [e1, e2, hF.n_cast]
      cases d.convex <;> simp <;> field_simp
  · rw [pdf_nothing d _ hp h, pdf_nothing (std0 d) z hp' (hr.trans h), ← pdfRaw_affine hF d hab z, hF.n_cast]
    push_cast
    by_cases hneg : pdfRaw F d (d.a + (d.b - d.a) * z) < 0
    · have : (d.b - d.a) * pdfRaw F d (d.a + (d.b - d.a) * z) < 0 := mul_neg_of_pos_of_neg hw hneg
      rw [if_pos hneg, if_pos this]; ring
    · have : ¬ ((d.b - d.a) * pdfRaw F d (d.a + (d.b - d.a) * z) < 0) := by
        push Not; exact mul_nonneg hw.le (not_lt.mp hneg)
      rw [if_neg hneg, if_neg this]
  · rw [pdf_normal d _ hp h, pdf_normal (std0 d) z hp' (hr.trans h), meanOf_affine hF d, varOf_affine hF d hab,
      hQ.sqrt_scale _ _ hw]
    have e : (d.a + (d.b - d.a) * z - (d.a + (d.b - d.a) * meanOf F (std0 d))) / ((d.b - d.a) * F.sqrt (varOf F (std0 d)))
        = (z - meanOf F (std0 d)) / F.sqrt (varOf F (std0 d)) := by
      by_cases hs : F.sqrt (varOf F (std0 d)) = 0
      · simp [hs]
      · field_simp; ring
    rw [e]
    by_cases hs : F.sqrt (varOf F (std0 d)) = 0
    · simp [hs]
    · field_simp

/-! ### ppf: the bisection grids are mirror images / affine images -/

/-- no visited midpoint has `f(mid) = q` exactly (a tie is the only place where the `<` of the code
breaks the mirror symmetry: `D` moves `hi`, `D'` moves `hi'`) -/
def NoTie (f : α → α) (mid : α → α → α) (q : α) : Nat → α × α → Prop
  | 0, _ => True
  | k+1, (lo, hi) =>
    f (mid lo hi) ≠ q ∧
      NoTie f mid q k (if f (mid lo hi) < q then (mid lo hi, hi) else (lo, mid lo hi))

theorem midpoint_neg (F : Fns α) (lo hi : α) : midpoint F (-hi) (-lo) = - midpoint F lo hi := by
  unfold midpoint; ring

theorem bisect_reflect (f g : α → α) (q : α) (hfg : ∀ m, g (-m) = 1 - f m) (k : Nat) (lo hi : α)
    (hnt : NoTie f (midpoint F) q k (lo, hi)) :
    bisect g (midpoint F) (1 - q) k (-hi, -lo)
      = (-(bisect f (midpoint F) q k (lo, hi)).2, -(bisect f (midpoint F) q k (lo, hi)).1) := by
  induction k generalizing lo hi with
  | zero => simp [bisect]
  | succ k ih =>
    obtain ⟨hne, hrest⟩ := hnt
    simp only [bisect, midpoint_neg, hfg]
    by_cases h : f (midpoint F lo hi) < q
    · have h' : ¬ (1 - f (midpoint F lo hi) < 1 - q) := by push Not; linarith
      rw [if_pos h] at hrest
      rw [if_pos h, if_neg h']
      exact ih _ _ hrest
    · have hgt : q < f (midpoint F lo hi) := lt_of_le_of_ne (not_lt.mp h) (Ne.symm hne)
      have h' : 1 - f (midpoint F lo hi) < 1 - q := by linarith
      rw [if_neg h] at hrest
      rw [if_neg h, if_pos h']
      exact ih _ _ hrest

theorem midpoint_affine (hF : Lawful F) (A B lo hi : α) :
    midpoint F (A + B * lo) (A + B * hi) = A + B * midpoint F lo hi := by
  unfold midpoint; rw [hF.n_cast]; push_cast; ring

theorem bisect_affine (hF : Lawful F) (f g : α → α) (q A B : α) (hfg : ∀ z, f (A + B * z) = g z) (k : Nat)
    (lo hi : α) :
    bisect f (midpoint F) q k (A + B * lo, A + B * hi)
      = (A + B * (bisect g (midpoint F) q k (lo, hi)).1, A + B * (bisect g (midpoint F) q k (lo, hi)).2) := by
  induction k generalizing lo hi with
  | zero => simp [bisect]
  | succ k ih =>
    simp only [bisect, midpoint_affine hF, hfg]
    by_cases h : g (midpoint F lo hi) < q
    · rw [if_pos h, if_pos h]; exact ih _ _
    · rw [if_neg h, if_neg h]; exact ih _ _

/-- **`D.ppf(q) = −D'.ppf(1 − q)`** for `q ∈ [0,1]`, provided no bisection midpoint hits `q` exactly -/
theorem ppf_reflect (hF : Lawful F) (hS : Symm F) (hP : SymmPpf F) (d : Params α) (hab : d.a < d.b) (q : α)
    (hq0 : 0 ≤ q) (hq1 : q ≤ 1)
    (hnt : NoTie (cdf F d) (midpoint F) q 30 (d.a - F.n 6 * d.o, d.b + F.n 6 * d.o)) :
    ppf F d q = - ppf F (reflect d) (1 - q) := by
  have hp := pointMass_false hF d hab
  have hp' := pointMass_false hF (reflect d) (reflect_lt d hab)
  have hr := regime_reflect (F := F) d
  have hc : clip q (F.n 0) (F.n 1) = q := by
    rw [hF.n_cast, hF.n_cast]; push_cast; exact clip_of_mem q 0 1 hq0 hq1
  have hc' : clip (1 - q) (F.n 0) (F.n 1) = 1 - q := by
    rw [hF.n_cast, hF.n_cast]; push_cast; exact clip_of_mem (1 - q) 0 1 (by linarith) (by linarith)
  unfold ppf
  simp only [hc, hc', hp, hp', Bool.false_eq_true, if_false, hr]
  cases h : regime F d
  · simp only
    unfold reflect
    simp only [hF.n_cast]
    cases d.convex <;> simp <;> ring
  · simp only
    have ho := clip_branch_unreachable hF d hab.le h
    have ho' : F.eq (reflect d).o (F.n 0) = false := ho
    rw [ho, ho']
    simp only [Bool.false_eq_true, if_false]
    have e0 : F.eq (1 - q) (F.n 0) = F.eq q (F.n 1) := by
      rw [Bool.eq_iff_iff, hF.eq_iff, hF.eq_iff, hF.n_cast, hF.n_cast]; push_cast
      constructor <;> intro h <;> linarith
    have e1 : F.eq (1 - q) (F.n 1) = F.eq q (F.n 0) := by
      rw [Bool.eq_iff_iff, hF.eq_iff, hF.eq_iff, hF.n_cast, hF.n_cast]; push_cast
      constructor <;> intro h <;> linarith
    rw [e0, e1]
    by_cases hz : F.eq q (F.n 0) = true
    · have hone : F.eq q (F.n 1) = false := by
        apply hF.eq_false
        rw [(hF.eq_iff _ _).mp hz, hF.n_cast, hF.n_cast]; norm_num
      rw [if_pos hz, hone]
      simp only [Bool.false_eq_true, if_false, if_pos hz, hP.inf_neg]
    · rw [if_neg hz]
      by_cases hone : F.eq q (F.n 1) = true
      · rw [if_pos hone, if_pos hone, hP.inf_neg]; ring
      · rw [if_neg hone, if_neg hone, if_neg hz]
        -- the bisection proper
        unfold ppfBisect
        have hgrid : ((reflect d).a - F.n 6 * (reflect d).o, (reflect d).b + F.n 6 * (reflect d).o)
            = (-(d.b + F.n 6 * d.o), -(d.a - F.n 6 * d.o)) := by
          unfold reflect; simp only; congr 1 <;> ring
        have hfg : ∀ m, cdf F (reflect d) (-m) = 1 - cdf F d m := by
          intro m; rw [cdf_reflect hF hS d hab m]; ring
        rw [hgrid, bisect_reflect (F := F) (cdf F d) (cdf F (reflect d)) q hfg 30 _ _ hnt]
        simp only
        rw [midpoint_neg, neg_neg]
  · simp only
    rw [meanOf_reflect hF, varOf_reflect, hP.ppf_compl]; ring

/-- **`D.ppf(q) = a + (b−a)·D₀.ppf(q)`** for `q ∈ (0,1)` (at `q ∈ {0,1}` the series regime returns `∓inf`) -/
theorem ppf_affine (hF : Lawful F) (hQ : SqrtScale F) (d : Params α) (hab : d.a < d.b) (q : α)
    (hq0 : 0 < q) (hq1 : q < 1) :
    ppf F d q = d.a + (d.b - d.a) * ppf F (std0 d) q := by
  have hw : 0 < d.b - d.a := sub_pos.mpr hab
  have hp := pointMass_false hF d hab
  have hp' := pointMass_false hF (std0 d) (std0_lt d)
  have hr := regime_affine (F := F) d hab
  have hc : clip q (F.n 0) (F.n 1) = q := by
    rw [hF.n_cast, hF.n_cast]; push_cast; exact clip_of_mem q 0 1 hq0.le hq1.le
  have hz : F.eq q (F.n 0) = false := by apply hF.eq_false; rw [hF.n_cast]; push_cast; exact hq0.ne'
  have hone : F.eq q (F.n 1) = false := by apply hF.eq_false; rw [hF.n_cast]; push_cast; exact hq1.ne
  unfold ppf
  simp only [hc, hp, hp', Bool.false_eq_true, if_false, hr]
  cases h : regime F d
  · simp only
    unfold std0
    cases d.convex <;> simp <;> ring
  · simp only
    have ho := clip_branch_unreachable hF d hab.le h
    have ho' := clip_branch_unreachable hF (std0 d) (std0_lt d).le (hr.trans h)
    rw [ho, ho', hz, hone]
    simp only [Bool.false_eq_true, if_false]
    unfold ppfBisect
    have hgrid : (d.a - F.n 6 * d.o, d.b + F.n 6 * d.o)
        = (d.a + (d.b - d.a) * ((std0 d).a - F.n 6 * (std0 d).o), d.a + (d.b - d.a) * ((std0 d).b + F.n 6 * (std0 d).o)) := by
      unfold std0; simp only; congr 1 <;> (field_simp; ring)
    rw [hgrid, bisect_affine hF (cdf F d) (cdf F (std0 d)) q d.a (d.b - d.a) (cdf_affine hF hQ d hab) 30]
    simp only
    rw [midpoint_affine hF]
  · simp only
    rw [meanOf_affine hF d, varOf_affine hF d hab, hQ.sqrt_scale _ _ hw]; ring

end Opda.Noisy
