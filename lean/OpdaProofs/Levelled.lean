import Mathlib.LinearAlgebra.Lagrange
import Mathlib.Data.Real.Basic
import Mathlib.Tactic

/-!
C17-T2: step 1 of the Remez exchange as coded (`p0`, `p1`, `h`, `p`) produces a polynomial whose
error is levelled: `f(x_i) − p(x_i) = (−1)^i h` at **all** `n+2` reference points.
-/
namespace Opda.Remez
open Polynomial Finset

theorem levelled_error (n : ℕ) (v : ℕ → ℝ) (hv : Set.InjOn v (range (n+1) : Finset ℕ))
    (f : ℝ → ℝ)
    (hden : eval (v (n+1)) (Lagrange.interpolate (range (n+1)) v (fun i => (-1:ℝ)^i)) + (-1)^n ≠ 0) :
    let p0 := Lagrange.interpolate (range (n+1)) v (fun i => f (v i))
    let p1 := Lagrange.interpolate (range (n+1)) v (fun i => (-1:ℝ)^i)
    let h := (eval (v (n+1)) p0 - f (v (n+1))) / (eval (v (n+1)) p1 + (-1)^n)
    let p := Lagrange.interpolate (range (n+1)) v (fun i => f (v i) - h * (-1)^i)
    ∀ i, i ≤ n+1 → f (v i) - eval (v i) p = (-1)^i * h := by
  intro p0 p1 h p i hi
  rcases Nat.lt_or_ge i (n+1) with hlt | hge
  · -- interpolation nodes
    have hmem : i ∈ range (n+1) := mem_range.mpr hlt
    show f (v i) - eval (v i) (Lagrange.interpolate (range (n+1)) v (fun i => f (v i) - h * (-1)^i)) = _
    rw [Lagrange.eval_interpolate_at_node _ hv hmem]
    ring
  · have hi' : i = n+1 := by omega
    subst hi'
    -- linearity: p = p0 − h • p1
    have hlin : p = p0 - h • p1 := by
      show Lagrange.interpolate (range (n+1)) v (fun i => f (v i) - h * (-1)^i) = _
      have : (fun i => f (v i) - h * (-1:ℝ)^i) = (fun i => f (v i)) - h • (fun i => (-1:ℝ)^i) := by
        ext i; simp
      rw [this, map_sub, map_smul]
    rw [hlin, eval_sub, eval_smul, smul_eq_mul]
    have hh : h * (eval (v (n+1)) p1 + (-1)^n) = eval (v (n+1)) p0 - f (v (n+1)) := by
      show (eval (v (n+1)) p0 - f (v (n+1))) / (eval (v (n+1)) p1 + (-1)^n) * _ = _
      exact div_mul_cancel₀ _ hden
    rw [pow_succ]
    linarith [hh]

#print axioms levelled_error
end Opda.Remez
