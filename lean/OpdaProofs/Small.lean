import Mathlib.Analysis.SpecialFunctions.Pow.Real
import Mathlib.Tactic

/-! Small theorems: C02-T5 (quantile functions are antitone in the CDF order),
C15-T1 (equal-tailed interval / coverage duality), C20-T2 (tail exactness algebra). -/
namespace Opda.Small

/-- **C02-T5**: if `F ≤ G` pointwise and both quantile functions satisfy the Galois law above `a`,
then `Q_G ≤ Q_F`: the upper CDF band gives the lower tuning-curve band, for every level, and for
*any* pair of distribution functions (not only empirical ones). -/
theorem quantile_antitone {E α : Type} [Preorder E] [Preorder α]
    (a : E) (F G : E → α) (QF QG : α → E)
    (hF : ∀ q y, a ≤ y → (QF q ≤ y ↔ q ≤ F y)) (hG : ∀ q y, a ≤ y → (QG q ≤ y ↔ q ≤ G y))
    (hle : ∀ y, F y ≤ G y) (haF : ∀ q, a ≤ QF q) (q : α) : QG q ≤ QF q := by
  have h1 : q ≤ F (QF q) := (hF q (QF q) (haF q)).mp le_rfl
  exact (hG q (QF q) (haF q)).mpr (le_trans h1 (hle _))

/-- **C15-T1**: equal-tailed interval and its coverage function, for any distribution function `G`
with a two-sided inverse `Ginv` on `[0,1]`. -/
theorem equal_tailed (G Ginv : ℝ → ℝ) (hmono : StrictMono G)
    (hinv : ∀ p, 0 ≤ p → p ≤ 1 → G (Ginv p) = p) (c : ℝ) (hc0 : 0 ≤ c) (hc1 : c ≤ 1) :
    let x := Ginv ((1 - c) / 2)
    let y := Ginv ((1 + c) / 2)
    G y - G x = c ∧ G x = 1 - G y ∧ x ≤ y
      ∧ (∀ t, (x ≤ t ∧ t ≤ y) ↔ 2 * |1 / 2 - G t| ≤ c)
      ∧ 2 * |1 / 2 - G x| = c ∧ 2 * |1 / 2 - G y| = c := by
  intro x y
  have hx : G x = (1 - c) / 2 := hinv _ (by linarith) (by linarith)
  have hy : G y = (1 + c) / 2 := hinv _ (by linarith) (by linarith)
  refine ⟨by rw [hx, hy]; ring, by rw [hx, hy]; ring, ?_, ?_, ?_, ?_⟩
  · exact hmono.le_iff_le.mp (by rw [hx, hy]; linarith)
  · intro t
    rw [← hmono.le_iff_le (a := x), ← hmono.le_iff_le (a := t) (b := y), hx, hy]
    constructor
    · rintro ⟨h1, h2⟩
      have : |1 / 2 - G t| ≤ c / 2 := abs_le.mpr ⟨by linarith, by linarith⟩
      linarith
    · intro h
      have : |1 / 2 - G t| ≤ c / 2 := by linarith
      obtain ⟨h1, h2⟩ := abs_le.mp this
      exact ⟨by linarith, by linarith⟩
  · rw [hx]
    have : (1:ℝ) / 2 - (1 - c) / 2 = c / 2 := by ring
    rw [this, abs_of_nonneg (by linarith)]; ring
  · rw [hy]
    have : (1:ℝ) / 2 - (1 + c) / 2 = -(c / 2) := by ring
    rw [this, abs_neg, abs_of_nonneg (by linarith)]; ring

/-- **C20-T2** (algebra): if the volume of the level set `{f ≥ y}` is `K·(b−y)^(d/2)` (ellipsoid) and
`ω = K / box`, then with `a = b − (1/ω)^(2/d)` the uniform-search tail `vol{f ≥ y}/box` equals the
concave quadratic tail `((b−y)/(b−a))^(d/2)`. -/
theorem tail_exact (K box b y : ℝ) (d : ℕ) (hd : 0 < d) (hK : 0 < K) (hbox : 0 < box) (hy : y ≤ b) :
    let ω := K / box
    let a := b - (1 / ω) ^ ((2 : ℝ) / d)
    K * (b - y) ^ ((d : ℝ) / 2) / box = ((b - y) / (b - a)) ^ ((d : ℝ) / 2) := by
  intro ω a
  have hω : 0 < ω := div_pos hK hbox
  have hd' : (0 : ℝ) < d := by exact_mod_cast hd
  have hba : b - a = (1 / ω) ^ ((2 : ℝ) / d) := by simp [a]
  have hinv : 0 ≤ 1 / ω := by positivity
  have hpow : (b - a) ^ ((d : ℝ) / 2) = 1 / ω := by
    rw [hba, ← Real.rpow_mul hinv]
    have : (2 : ℝ) / d * (d / 2) = 1 := by field_simp
    rw [this, Real.rpow_one]
  have hba0 : 0 ≤ b - a := by rw [hba]; positivity
  rw [Real.div_rpow (by linarith) hba0, hpow]
  simp only [ω]
  field_simp

#print axioms quantile_antitone
#print axioms equal_tailed
#print axioms tail_exact
end Opda.Small
