import OpdaProofs.BetaCheck

/-!
# Soundness of `beta.hdcov` (C15): the exact bisection bracket of the coverage of the smallest
highest-density interval containing `x`

`hdCoverageBracket a b x steps` bisects, in exact rational arithmetic, for the point `y*` on the other
side of the mode where the density falls to `f x`, and returns `(G l − G x, G h − G x)` for the final
bracket `[l,h] ∋ y*` (mirror image right of the mode).  These theorems say that the returned pair
brackets `G y* − G x` for the end `y*` of the level set `{f ≥ f x}` — by `hd_level_set` the coverage of
the smallest highest-density interval containing `x` — whatever the number of steps.
-/
namespace Opda.BetaCheck
open Opda.BetaBinom Opda.CP Opda.BetaBinomP Opda.BetaCdf Opda.Hdi Set

/-- generic invariant of the exact bisection `partnerLoop`: whatever the branch predicate, the left
end keeps a property established when it moves and so does the right end -/
theorem partnerLoop_inv (a b : ℕ) (t : ℚ) (incr : Bool) (A B : ℚ → Prop)
    (hA : ∀ z, (decide (dens a b z < t) == incr) = true → A z)
    (hB : ∀ z, (decide (dens a b z < t) == incr) = false → B z) :
    ∀ (steps : ℕ) (lo hi : ℚ), lo ≤ hi → A lo → B hi →
      lo ≤ (partnerLoop a b t incr steps lo hi).1
        ∧ (partnerLoop a b t incr steps lo hi).1 ≤ (partnerLoop a b t incr steps lo hi).2
        ∧ (partnerLoop a b t incr steps lo hi).2 ≤ hi
        ∧ A (partnerLoop a b t incr steps lo hi).1 ∧ B (partnerLoop a b t incr steps lo hi).2 := by
  intro steps
  induction steps with
  | zero => intro lo hi h a0 b0; exact ⟨le_rfl, h, le_rfl, a0, b0⟩
  | succ s ih =>
    intro lo hi h a0 b0
    have h1 : lo ≤ (lo + hi) / 2 := by linarith
    have h2 : (lo + hi) / 2 ≤ hi := by linarith
    simp only [partnerLoop]
    by_cases hc : (decide (dens a b ((lo + hi) / 2) < t) == incr) = true
    · rw [if_pos hc]
      obtain ⟨p1, p2, p3, p4, p5⟩ := ih ((lo + hi) / 2) hi h2 (hA _ hc) b0
      exact ⟨h1.trans p1, p2, p3, p4, p5⟩
    · rw [if_neg hc]
      have hc' : (decide (dens a b ((lo + hi) / 2) < t) == incr) = false := by simpa using hc
      obtain ⟨p1, p2, p3, p4, p5⟩ := ih lo ((lo + hi) / 2) h1 a0 (hB _ hc')
      exact ⟨p1, p2, p3.trans h2, p4, p5⟩

/-- **soundness of `beta.hdcov`, `x` left of the mode**: if `y*` is the right end of the level set
`{f ≥ f x}` (density `≥ f x` on `[mode, y*]`, `< f x` beyond), the exact bracket returned by
`hdCoverageBracket` contains `G y* − G x`, the coverage of the smallest highest-density interval
containing `x`. -/
theorem hdCoverageBracket_sound_left (a b : ℕ) (ha : 0 < a) (hb : 0 < b) (hab : 2 < a + b) (x : ℚ) (steps : ℕ)
    (hx0 : 0 ≤ x) (hxm : x < modeQ a b) (ystar : ℝ)
    (hy0 : ((modeQ a b : ℚ) : ℝ) ≤ ystar) (hy1 : ystar ≤ 1)
    (hin : ∀ s : ℝ, ((modeQ a b : ℚ) : ℝ) ≤ s → s ≤ ystar → g (a - 1) (b - 1) (x : ℝ) ≤ g (a - 1) (b - 1) s)
    (hout : ∀ s : ℝ, ystar < s → s ≤ 1 → g (a - 1) (b - 1) s < g (a - 1) (b - 1) (x : ℝ)) :
    (((hdCoverageBracket a b x steps).1 : ℚ) : ℝ) ≤ G a b ystar - G a b (x : ℝ)
      ∧ G a b ystar - G a b (x : ℝ) ≤ (((hdCoverageBracket a b x steps).2 : ℚ) : ℝ) := by
  set m := modeQ a b with hm
  set t := dens a b x with ht
  have hm0 : 0 ≤ m := hx0.trans hxm.le
  have hm1 : m ≤ 1 := by
    have : ((m : ℚ) : ℝ) ≤ 1 := hy0.trans hy1
    exact_mod_cast this
  have hx1 : x ≤ 1 := hxm.le.trans hm1
  -- loop invariant
  have inv := partnerLoop_inv a b t false (fun z => t ≤ dens a b z) (fun z => dens a b z < t ∨ z = 1)
    (fun z hz => by
      have : ¬ dens a b z < t := by simpa using hz
      exact not_lt.mp this)
    (fun z hz => by
      have : dens a b z < t := by simpa using hz
      exact Or.inl this)
    steps m 1 hm1
    (by
      -- t = f x ≤ f m (x ≤ m, increasing up to the mode)
      have hpos : 0 < (a - 1) + (b - 1) := by omega
      have hmode := modeQ_cast a b ha hb
      have := g_mono (a - 1) (b - 1) hpos ⟨by exact_mod_cast hx0, by rw [← hmode]; exact_mod_cast hxm.le⟩
        ⟨by exact_mod_cast hm0, by rw [← hmode]⟩ (by exact_mod_cast hxm.le : (x : ℝ) ≤ (m : ℝ))
      rw [← dens_cast, ← dens_cast] at this
      exact_mod_cast this)
    (Or.inr rfl)
  obtain ⟨i1, i2, i3, i4, i5⟩ := inv
  set l := (partnerLoop a b t false steps m 1).1 with hl
  set h := (partnerLoop a b t false steps m 1).2 with hh
  have hbr : hdCoverageBracket a b x steps = (betaCdf a b l - betaCdf a b x, betaCdf a b h - betaCdf a b x) := by
    unfold hdCoverageBracket
    simp only []
    rw [if_pos hxm]
  rw [hbr]
  simp only []
  have hl0 : 0 ≤ l := hm0.trans i1
  have hh1 : h ≤ 1 := i3
  have hl1 : l ≤ 1 := i2.trans i3
  have hh0 : 0 ≤ h := hl0.trans i2
  push_cast
  rw [betaCdf_cast a b l hl0 hl1, betaCdf_cast a b h hh0 hh1, betaCdf_cast a b x hx0 hx1]
  -- l ≤ y* ≤ h
  have hly : (l : ℝ) ≤ ystar := by
    by_contra hcon
    have hlt : ystar < (l : ℝ) := not_le.mp hcon
    have h1 := hout (l : ℝ) hlt (by exact_mod_cast hl1)
    have h2 : g (a - 1) (b - 1) (x : ℝ) ≤ g (a - 1) (b - 1) (l : ℝ) := by
      rw [← dens_cast, ← dens_cast]; exact_mod_cast i4
    linarith
  have hyh : ystar ≤ (h : ℝ) := by
    rcases i5 with hlt | h1eq
    · by_contra hcon
      have hlt' : (h : ℝ) < ystar := not_le.mp hcon
      have hmh : ((m : ℚ) : ℝ) ≤ (h : ℝ) := by exact_mod_cast (i1.trans i2)
      have h1 := hin (h : ℝ) hmh hlt'.le
      have h2 : g (a - 1) (b - 1) (h : ℝ) < g (a - 1) (b - 1) (x : ℝ) := by
        rw [← dens_cast, ← dens_cast]; exact_mod_cast hlt
      linarith
    · rw [h1eq]; exact_mod_cast hy1
  have hxr0 : (0 : ℝ) ≤ (x : ℝ) := by exact_mod_cast hx0
  constructor
  · have := G_mono a b (l : ℝ) ystar (by exact_mod_cast hl0) hly hy1
    linarith
  · have := G_mono a b ystar (h : ℝ) (le_trans (by exact_mod_cast hm0) hy0) hyh (by exact_mod_cast hh1)
    linarith

/-- **soundness of `beta.hdcov`, `x` right of the mode** (mirror image) -/
theorem hdCoverageBracket_sound_right (a b : ℕ) (ha : 0 < a) (hb : 0 < b) (hab : 2 < a + b) (x : ℚ) (steps : ℕ)
    (hx1 : x ≤ 1) (hmx : modeQ a b < x) (ystar : ℝ)
    (hy0 : 0 ≤ ystar) (hy1 : ystar ≤ ((modeQ a b : ℚ) : ℝ))
    (hin : ∀ s : ℝ, ystar ≤ s → s ≤ ((modeQ a b : ℚ) : ℝ) → g (a - 1) (b - 1) (x : ℝ) ≤ g (a - 1) (b - 1) s)
    (hout : ∀ s : ℝ, 0 ≤ s → s < ystar → g (a - 1) (b - 1) s < g (a - 1) (b - 1) (x : ℝ)) :
    (((hdCoverageBracket a b x steps).1 : ℚ) : ℝ) ≤ G a b (x : ℝ) - G a b ystar
      ∧ G a b (x : ℝ) - G a b ystar ≤ (((hdCoverageBracket a b x steps).2 : ℚ) : ℝ) := by
  set m := modeQ a b with hm
  set t := dens a b x with ht
  have hm0 : 0 ≤ m := by
    have : (0 : ℝ) ≤ ((m : ℚ) : ℝ) := hy0.trans hy1
    exact_mod_cast this
  have hm1 : m ≤ 1 := hmx.le.trans hx1
  have hx0 : 0 ≤ x := hm0.trans hmx.le
  have inv := partnerLoop_inv a b t true (fun z => dens a b z < t ∨ z = 0) (fun z => t ≤ dens a b z)
    (fun z hz => by
      have : dens a b z < t := by simpa using hz
      exact Or.inl this)
    (fun z hz => by
      have : ¬ dens a b z < t := by simpa using hz
      exact not_lt.mp this)
    steps 0 m hm0 (Or.inr rfl)
    (by
      have hpos : 0 < (a - 1) + (b - 1) := by omega
      have hmode := modeQ_cast a b ha hb
      have := g_anti (a - 1) (b - 1) hpos ⟨by rw [← hmode], by exact_mod_cast hm1⟩
        ⟨by rw [← hmode]; exact_mod_cast hmx.le, by exact_mod_cast hx1⟩ (by exact_mod_cast hmx.le : (m : ℝ) ≤ (x : ℝ))
      rw [← dens_cast, ← dens_cast] at this
      exact_mod_cast this)
  obtain ⟨i1, i2, i3, i4, i5⟩ := inv
  set l := (partnerLoop a b t true steps 0 m).1 with hl
  set h := (partnerLoop a b t true steps 0 m).2 with hh
  have hbr : hdCoverageBracket a b x steps = (betaCdf a b x - betaCdf a b h, betaCdf a b x - betaCdf a b l) := by
    unfold hdCoverageBracket
    simp only []
    rw [if_neg (not_lt.mpr hmx.le), if_pos hmx]
  rw [hbr]
  simp only []
  have hl0 : 0 ≤ l := i1
  have hh1 : h ≤ 1 := i3.trans hm1
  have hl1 : l ≤ 1 := i2.trans hh1
  have hh0 : 0 ≤ h := hl0.trans i2
  push_cast
  rw [betaCdf_cast a b l hl0 hl1, betaCdf_cast a b h hh0 hh1, betaCdf_cast a b x hx0 hx1]
  have hly : (l : ℝ) ≤ ystar := by
    rcases i4 with hlt | h0eq
    · by_contra hcon
      have hlt' : ystar < (l : ℝ) := not_le.mp hcon
      have hlm : (l : ℝ) ≤ ((m : ℚ) : ℝ) := by exact_mod_cast (i2.trans i3)
      have h1 := hin (l : ℝ) hlt'.le hlm
      have h2 : g (a - 1) (b - 1) (l : ℝ) < g (a - 1) (b - 1) (x : ℝ) := by
        rw [← dens_cast, ← dens_cast]; exact_mod_cast hlt
      linarith
    · rw [h0eq]; exact_mod_cast hy0
  have hyh : ystar ≤ (h : ℝ) := by
    by_contra hcon
    have hlt : (h : ℝ) < ystar := not_le.mp hcon
    have h1 := hout (h : ℝ) (by exact_mod_cast hh0) hlt
    have h2 : g (a - 1) (b - 1) (x : ℝ) ≤ g (a - 1) (b - 1) (h : ℝ) := by
      rw [← dens_cast, ← dens_cast]; exact_mod_cast i5
    linarith
  constructor
  · have := G_mono a b ystar (h : ℝ) hy0 hyh (by exact_mod_cast hh1)
    linarith
  · have := G_mono a b (l : ℝ) ystar (by exact_mod_cast hl0) hly (hy1.trans (by exact_mod_cast hm1))
    linarith

#print axioms hdCoverageBracket_sound_left
#print axioms hdCoverageBracket_sound_right
end Opda.BetaCheck
