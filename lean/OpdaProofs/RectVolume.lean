import OpdaProofs.RectProb
import Mathlib.MeasureTheory.Constructions.Pi
import Mathlib.MeasureTheory.Measure.Lebesgue.Basic
import Mathlib.Data.Rat.Cast.Order
import Mathlib.Data.Fin.Tuple.Sort
import Mathlib.Order.Interval.Finset.Fin
import Mathlib.Tactic

/-!
# `Opda.RectProb.coverage` is the volume of the rectangle event for uniform order statistics (C01, stage 3)
-/
namespace Opda.RectProbP
open Finset Opda.RectProb MeasureTheory Set

/-! ## the break points -/

theorem mem_insertPt (x y : ℚ) : ∀ l : List ℚ, y ∈ insertPt x l ↔ y = x ∨ y ∈ l := by
  intro l
  induction l with
  | nil => simp [insertPt]
  | cons z zs ih =>
    unfold insertPt
    split_ifs with h1 h2
    · simp
    · subst h2; simp
    · simp only [List.mem_cons, ih]; tauto

theorem pairwise_insertPt (x : ℚ) : ∀ l : List ℚ, l.Pairwise (· < ·) → (insertPt x l).Pairwise (· < ·) := by
  intro l
  induction l with
  | nil => intro _; simp [insertPt]
  | cons z zs ih =>
    intro h
    rw [List.pairwise_cons] at h
    obtain ⟨hz, hzs⟩ := h
    unfold insertPt
    split_ifs with h1 h2
    · refine List.pairwise_cons.mpr ⟨?_, List.pairwise_cons.mpr ⟨hz, hzs⟩⟩
      intro w hw
      rcases List.mem_cons.mp hw with rfl | hw
      · exact h1
      · exact lt_trans h1 (hz w hw)
    · exact List.pairwise_cons.mpr ⟨hz, hzs⟩
    · have hzx : z < x := lt_of_le_of_ne (not_lt.mp h1) (fun h => h2 h.symm)
      refine List.pairwise_cons.mpr ⟨?_, ih hzs⟩
      intro w hw
      rcases (mem_insertPt x w zs).mp hw with rfl | hw
      · exact hzx
      · exact hz w hw

theorem mem_foldr_insertPt (y : ℚ) : ∀ L : List ℚ, y ∈ L.foldr insertPt [1] ↔ y = 1 ∨ y ∈ L := by
  intro L
  induction L with
  | nil => simp
  | cons x xs ih => simp only [List.foldr_cons, mem_insertPt, ih, List.mem_cons]; tauto

theorem pairwise_foldr_insertPt : ∀ L : List ℚ, (L.foldr insertPt [1]).Pairwise (· < ·) := by
  intro L
  induction L with
  | nil => simp
  | cons x xs ih => exact pairwise_insertPt x _ ih

theorem mem_points (alpha beta : List ℚ) (y : ℚ) :
    y ∈ points alpha beta ↔ y = 0 ∨ y = 1 ∨ (y ∈ alpha ++ beta ∧ 0 < y ∧ y < 1) := by
  unfold points
  rw [List.mem_cons, mem_foldr_insertPt, List.mem_filter]
  simp only [Bool.and_eq_true, decide_eq_true_eq]

theorem points_pairwise (alpha beta : List ℚ) : (points alpha beta).Pairwise (· < ·) := by
  unfold points
  refine List.pairwise_cons.mpr ⟨?_, pairwise_foldr_insertPt _⟩
  intro y hy
  rcases (mem_foldr_insertPt y _).mp hy with rfl | hy
  · exact zero_lt_one
  · have := (List.mem_filter.mp hy).2
    simp only [Bool.and_eq_true, decide_eq_true_eq] at this
    exact this.1

theorem points_range (alpha beta : List ℚ) (y : ℚ) (hy : y ∈ points alpha beta) : 0 ≤ y ∧ y ≤ 1 := by
  rcases (mem_points alpha beta y).mp hy with rfl | rfl | ⟨_, h0, h1⟩
  · exact ⟨le_rfl, zero_le_one⟩
  · exact ⟨zero_le_one, le_rfl⟩
  · exact ⟨h0.le, h1.le⟩

theorem mem_points_of_mem (alpha beta : List ℚ) (y : ℚ) (hy : y ∈ alpha ++ beta) (h0 : 0 ≤ y) (h1 : y ≤ 1) :
    y ∈ points alpha beta := by
  rw [mem_points]
  rcases eq_or_lt_of_le h0 with h | h
  · left; exact h.symm
  · rcases eq_or_lt_of_le h1 with h' | h'
    · right; left; exact h'
    · right; right; exact ⟨hy, h, h'⟩

theorem points_length_pos (alpha beta : List ℚ) : 0 < (points alpha beta).length := by
  unfold points; simp

theorem points_zero (alpha beta : List ℚ) : (points alpha beta)[0]'(points_length_pos alpha beta) = 0 := by
  unfold points; simp

/-! ## the cells as subsets of `ℝ` -/
section cellsR
variable (alpha beta : List ℚ)

/-- break point `k` as a real number -/
def q (k : Fin (points alpha beta).length) : ℝ := (((points alpha beta)[k] : ℚ) : ℝ)

/-- left end of cell `k` as a real number -/
def lft (k : Fin (points alpha beta).length) : ℝ := ((cellLeft (points alpha beta) k : ℚ) : ℝ)

/-- cell `k` = `(q₍ₖ₋₁₎, qₖ]` (`(0, 0] = ∅` for `k = 0`) -/
def cell (k : Fin (points alpha beta).length) : Set ℝ := Ioc (lft alpha beta k) (q alpha beta k)

theorem q_mono {k k' : Fin (points alpha beta).length} (h : k ≤ k') : q alpha beta k ≤ q alpha beta k' := by
  unfold q
  rcases eq_or_lt_of_le h with rfl | hlt
  · exact le_rfl
  · have := (List.pairwise_iff_getElem.mp (points_pairwise alpha beta)) k.val k'.val k.isLt k'.isLt hlt
    exact_mod_cast this.le

theorem q_range (k : Fin (points alpha beta).length) : 0 ≤ q alpha beta k ∧ q alpha beta k ≤ 1 := by
  have := points_range alpha beta _ (List.getElem_mem k.isLt)
  unfold q
  exact ⟨by exact_mod_cast this.1, by exact_mod_cast this.2⟩

theorem q_zero (k : Fin (points alpha beta).length) (hk : k.val = 0) : q alpha beta k = 0 := by
  unfold q
  have : (points alpha beta)[k] = 0 := by
    have := points_zero alpha beta
    simp only [Fin.getElem_fin, hk]; exact this
  rw [this]; simp

theorem lft_zero (k : Fin (points alpha beta).length) (hk : k.val = 0) : lft alpha beta k = 0 := by
  simp [lft, cellLeft, hk]

theorem lft_succ (k : Fin (points alpha beta).length) (hk : k.val ≠ 0) :
    lft alpha beta k = q alpha beta ⟨k.val - 1, by omega⟩ := by
  have hlt : k.val - 1 < (points alpha beta).length := by omega
  simp [lft, q, cellLeft, hk, List.getElem?_eq_getElem hlt]

theorem lft_nonneg (k : Fin (points alpha beta).length) : 0 ≤ lft alpha beta k := by
  by_cases hk : k.val = 0
  · rw [lft_zero alpha beta k hk]
  · rw [lft_succ alpha beta k hk]; exact (q_range alpha beta _).1

theorem cell_subset (k : Fin (points alpha beta).length) : cell alpha beta k ⊆ Ioc 0 1 := by
  intro t ht
  exact ⟨lt_of_le_of_lt (lft_nonneg alpha beta k) ht.1, le_trans ht.2 (q_range alpha beta k).2⟩

/-- a point of cell `m` is `≤ qₖ` iff `m ≤ k` -/
theorem cell_le_iff {t : ℝ} {m : Fin (points alpha beta).length} (ht : t ∈ cell alpha beta m)
    (k : Fin (points alpha beta).length) : t ≤ q alpha beta k ↔ m ≤ k := by
  constructor
  · intro htk
    by_contra hmk
    have hkm : k < m := not_le.mp hmk
    have hm0 : m.val ≠ 0 := by
      have : k.val < m.val := hkm
      omega
    have h1 := lft_succ alpha beta m hm0
    have h2 : q alpha beta k ≤ q alpha beta ⟨m.val - 1, by omega⟩ := by
      apply q_mono
      have : k.val < m.val := hkm
      exact Fin.le_def.mpr (by simp only []; omega)
    have := ht.1
    rw [h1] at this
    linarith
  · intro hmk
    exact le_trans ht.2 (q_mono alpha beta hmk)

/-- every point of `(0,1]` lies in a cell -/
theorem exists_cell {t : ℝ} (ht : t ∈ Ioc (0 : ℝ) 1) : ∃ m, t ∈ cell alpha beta m := by
  -- some break point is `1`
  have h1 : (1 : ℚ) ∈ points alpha beta := (mem_points alpha beta 1).mpr (Or.inr (Or.inl rfl))
  obtain ⟨i1, hi1, he1⟩ := List.getElem_of_mem h1
  have hne : (univ.filter fun k : Fin (points alpha beta).length => t ≤ q alpha beta k).Nonempty := by
    refine ⟨⟨i1, hi1⟩, ?_⟩
    rw [Finset.mem_filter]
    refine ⟨Finset.mem_univ _, ?_⟩
    simp only [q, Fin.getElem_fin, he1]
    simpa using ht.2
  set m := (univ.filter fun k : Fin (points alpha beta).length => t ≤ q alpha beta k).min' hne with hm
  have hmem := Finset.min'_mem _ hne
  rw [← hm] at hmem
  have htm : t ≤ q alpha beta m := (Finset.mem_filter.mp hmem).2
  have hm0 : m.val ≠ 0 := by
    intro h0
    have := q_zero alpha beta m h0
    linarith [ht.1]
  refine ⟨m, ?_, htm⟩
  rw [lft_succ alpha beta m hm0]
  by_contra hle
  have hle : t ≤ q alpha beta ⟨m.val - 1, by omega⟩ := not_lt.mp hle
  have hin : (⟨m.val - 1, by omega⟩ : Fin (points alpha beta).length)
      ∈ univ.filter fun k : Fin (points alpha beta).length => t ≤ q alpha beta k := by
    rw [Finset.mem_filter]; exact ⟨Finset.mem_univ _, hle⟩
  have := Finset.min'_le _ _ hin
  rw [← hm] at this
  have : m.val ≤ m.val - 1 := this
  omega

/-- a level in `[0,1]` is a break point -/
theorem exists_q_eq (y : ℚ) (hy : y ∈ alpha ++ beta) (h0 : 0 ≤ y) (h1 : y ≤ 1) :
    ∃ k, q alpha beta k = (y : ℝ) := by
  obtain ⟨i, hi, he⟩ := List.getElem_of_mem (mem_points_of_mem alpha beta y hy h0 h1)
  exact ⟨⟨i, hi⟩, by simp [q, he]⟩

theorem q_sub_lft (k : Fin (points alpha beta).length) :
    q alpha beta k - lft alpha beta k
      = ((((points alpha beta)[k] - cellLeft (points alpha beta) k : ℚ)) : ℝ) := by
  simp [q, lft]

theorem lft_le_q (k : Fin (points alpha beta).length) : lft alpha beta k ≤ q alpha beta k := by
  by_cases hk : k.val = 0
  · rw [lft_zero alpha beta k hk]; exact (q_range alpha beta k).1
  · rw [lft_succ alpha beta k hk]
    apply q_mono
    exact Fin.mk_le_of_le_val (by simp)

end cellsR

/-! ## boxes and the rectangle event -/
section boxes
variable (alpha beta : List ℚ)

/-- the box of all samples whose `j`-th point lies in cell `g j` -/
def Box (g : Fin alpha.length → Fin (points alpha beta).length) : Set (Fin alpha.length → ℝ) :=
  Set.pi Set.univ fun j => cell alpha beta (g j)

/-- the assignment is allowed (the condition of `coverage_eq_sum_points`) -/
def Allowed (g : Fin alpha.length → Fin (points alpha beta).length) : Prop :=
  ∀ k : Fin (points alpha beta).length, okAt alpha beta (points alpha beta)[k] #{j | g j ≤ k} = true

instance (g : Fin alpha.length → Fin (points alpha beta).length) : Decidable (Allowed alpha beta g) := by
  unfold Allowed; infer_instance

/-- the rectangle event with both constraints written with `≤`-counts -/
def EvLe : Set (Fin alpha.length → ℝ) :=
  {u | (∀ i (h : i < alpha.length), #{j | u j ≤ ((alpha[i] : ℚ) : ℝ)} ≤ i)
      ∧ (∀ i (h : i < beta.length), i + 1 ≤ #{j | u j ≤ ((beta[i] : ℚ) : ℝ)})}

/-- the rectangle event `αᵢ ≤ U₍ᵢ₎ ≤ βᵢ ∀ i` in count form: fewer than `i+1` points lie strictly below `αᵢ`, at least
`i+1` points lie at or below `βᵢ` -/
def Ev : Set (Fin alpha.length → ℝ) :=
  {u | (∀ i (h : i < alpha.length), #{j | u j < ((alpha[i] : ℚ) : ℝ)} ≤ i)
      ∧ (∀ i (h : i < beta.length), i + 1 ≤ #{j | u j ≤ ((beta[i] : ℚ) : ℝ)})}

def Cube : Set (Fin alpha.length → ℝ) := Set.pi Set.univ fun _ => Ioc (0 : ℝ) 1

variable {alpha beta}

theorem count_box {u : Fin alpha.length → ℝ} {g : Fin alpha.length → Fin (points alpha beta).length}
    (hu : u ∈ Box alpha beta g) (k : Fin (points alpha beta).length) :
    #{j | u j ≤ q alpha beta k} = #{j | g j ≤ k} := by
  congr 1
  ext j
  simp only [Finset.mem_filter, Finset.mem_univ, true_and]
  exact cell_le_iff alpha beta (hu j (Set.mem_univ j)) k

theorem box_subset_cube (g : Fin alpha.length → Fin (points alpha beta).length) :
    Box alpha beta g ⊆ Cube alpha := by
  intro u hu j hj
  exact cell_subset alpha beta (g j) (hu j hj)

theorem box_disjoint {g g' : Fin alpha.length → Fin (points alpha beta).length} (h : g ≠ g') :
    Disjoint (Box alpha beta g) (Box alpha beta g') := by
  rw [Set.disjoint_left]
  intro u hu hu'
  apply h
  funext j
  have h1 := hu j (Set.mem_univ j)
  have h2 := hu' j (Set.mem_univ j)
  exact le_antisymm ((cell_le_iff alpha beta h1 (g' j)).mp h2.2) ((cell_le_iff alpha beta h2 (g j)).mp h1.2)

theorem box_subset_evLe (hα : ∀ x ∈ alpha, 0 ≤ x ∧ x ≤ 1) (hβ : ∀ x ∈ beta, 0 ≤ x ∧ x ≤ 1)
    {g : Fin alpha.length → Fin (points alpha beta).length} (hg : Allowed alpha beta g) :
    Box alpha beta g ⊆ EvLe alpha beta := by
  intro u hu
  refine ⟨fun i h => ?_, fun i h => ?_⟩
  · have hmem : alpha[i] ∈ alpha := List.getElem_mem h
    obtain ⟨k, hk⟩ := exists_q_eq alpha beta alpha[i] (List.mem_append_left _ hmem) (hα _ hmem).1 (hα _ hmem).2
    rw [← hk, count_box hu k]
    have hq : (points alpha beta)[k] = alpha[i] := by
      have : (((points alpha beta)[k] : ℚ) : ℝ) = ((alpha[i] : ℚ) : ℝ) := hk
      exact_mod_cast this
    exact ((okAt_iff alpha beta _ _).mp (hg k)).2 i h hq.le
  · have hmem : beta[i] ∈ beta := List.getElem_mem h
    obtain ⟨k, hk⟩ := exists_q_eq alpha beta beta[i] (List.mem_append_right _ hmem) (hβ _ hmem).1 (hβ _ hmem).2
    rw [← hk, count_box hu k]
    have hq : (points alpha beta)[k] = beta[i] := by
      have : (((points alpha beta)[k] : ℚ) : ℝ) = ((beta[i] : ℚ) : ℝ) := hk
      exact_mod_cast this
    exact ((okAt_iff alpha beta _ _).mp (hg k)).1 i h hq.ge

theorem evLe_inter_cube_subset :
    EvLe alpha beta ∩ Cube alpha ⊆ ⋃ g ∈ (Finset.univ.filter (Allowed alpha beta)), Box alpha beta g := by
  rintro u ⟨⟨hA, hB⟩, hc⟩
  have hex : ∀ j, ∃ m, u j ∈ cell alpha beta m := fun j => exists_cell alpha beta (hc j (Set.mem_univ j))
  choose g hg using hex
  have hu : u ∈ Box alpha beta g := fun j _ => hg j
  refine Set.mem_iUnion₂.mpr ⟨g, ?_, hu⟩
  rw [Finset.mem_filter]
  refine ⟨Finset.mem_univ _, fun k => ?_⟩
  rw [okAt_iff, ← count_box hu k]
  refine ⟨fun i h hle => ?_, fun i h hle => ?_⟩
  · refine le_trans (hB i h) (Finset.card_le_card ?_)
    intro j hj
    simp only [Finset.mem_filter, Finset.mem_univ, true_and] at hj ⊢
    refine le_trans hj ?_
    unfold q
    exact_mod_cast hle
  · refine le_trans (Finset.card_le_card ?_) (hA i h)
    intro j hj
    simp only [Finset.mem_filter, Finset.mem_univ, true_and] at hj ⊢
    refine le_trans hj ?_
    unfold q
    exact_mod_cast hle

/-- **the rectangle event, inside the unit cube, is the disjoint union of the boxes of the allowed assignments** -/
theorem evLe_inter_cube (hα : ∀ x ∈ alpha, 0 ≤ x ∧ x ≤ 1) (hβ : ∀ x ∈ beta, 0 ≤ x ∧ x ≤ 1) :
    EvLe alpha beta ∩ Cube alpha = ⋃ g ∈ (Finset.univ.filter (Allowed alpha beta)), Box alpha beta g := by
  refine Set.Subset.antisymm evLe_inter_cube_subset ?_
  intro u hu
  obtain ⟨g, hg, hug⟩ := Set.mem_iUnion₂.mp hu
  exact ⟨box_subset_evLe hα hβ (Finset.mem_filter.mp hg).2 hug, box_subset_cube g hug⟩

end boxes

/-! ## measure -/
section measure
variable {alpha beta : List ℚ}

/-- the law of `n` independent uniforms on `[0,1]` -/
noncomputable def unifPi (n : ℕ) : Measure (Fin n → ℝ) :=
  Measure.pi fun _ : Fin n => (volume : Measure ℝ).restrict (Icc 0 1)

theorem unifPi_eq (n : ℕ) :
    unifPi n = (volume : Measure (Fin n → ℝ)).restrict (Set.pi Set.univ fun _ => Ioc (0 : ℝ) 1) := by
  unfold unifPi
  rw [volume_pi, Measure.restrict_pi_pi]
  congr 1
  funext _
  exact (Measure.restrict_congr_set Ioc_ae_eq_Icc).symm

theorem measurableSet_box (g : Fin alpha.length → Fin (points alpha beta).length) :
    MeasurableSet (Box alpha beta g) :=
  MeasurableSet.univ_pi fun _ => measurableSet_Ioc

theorem volume_box (g : Fin alpha.length → Fin (points alpha beta).length) :
    volume (Box alpha beta g)
      = ENNReal.ofReal (∏ j, ((((points alpha beta)[g j] - cellLeft (points alpha beta) (g j) : ℚ)) : ℝ)) := by
  unfold Box
  rw [volume_pi_pi, ENNReal.ofReal_prod_of_nonneg]
  · refine Finset.prod_congr rfl fun j _ => ?_
    unfold cell
    rw [Real.volume_Ioc, q_sub_lft]
  · intro j _
    rw [← q_sub_lft]
    exact sub_nonneg.mpr (lft_le_q alpha beta (g j))

/-- the `≤`-form of the event has probability `coverage` -/
theorem unifPi_evLe (hα : ∀ x ∈ alpha, 0 ≤ x ∧ x ≤ 1) (hβ : ∀ x ∈ beta, 0 ≤ x ∧ x ≤ 1) :
    unifPi alpha.length (EvLe alpha beta) = ENNReal.ofReal ((coverage alpha beta : ℚ) : ℝ) := by
  rw [unifPi_eq, Measure.restrict_apply' (MeasurableSet.univ_pi fun _ => measurableSet_Ioc)]
  have := evLe_inter_cube hα hβ
  unfold Cube at this
  rw [this, measure_biUnion_finset (fun g _ g' _ h => box_disjoint h) (fun g _ => measurableSet_box g)]
  simp_rw [volume_box]
  rw [← ENNReal.ofReal_sum_of_nonneg]
  · congr 1
    rw [coverage_eq_sum_points, Finset.sum_filter, Rat.cast_sum]
    refine Finset.sum_congr rfl fun g _ => ?_
    by_cases h : Allowed alpha beta g
    · rw [if_pos h]; unfold Allowed at h; rw [if_pos h, Rat.cast_prod]
    · rw [if_neg h]; unfold Allowed at h; rw [if_neg h, Rat.cast_zero]
  · intro g _
    refine Finset.prod_nonneg fun j _ => ?_
    rw [← q_sub_lft]
    exact sub_nonneg.mpr (lft_le_q alpha beta (g j))

/-- almost surely no sample point sits on a level, so `<`-counts and `≤`-counts agree -/
theorem ev_ae_eq_evLe : Ev alpha beta =ᵐ[unifPi alpha.length] EvLe alpha beta := by
  have hae : ∀ᵐ u ∂(unifPi alpha.length), ∀ (j : Fin alpha.length) (i : Fin alpha.length),
      u j ≠ ((alpha[i] : ℚ) : ℝ) := by
    rw [ae_all_iff]; intro j
    rw [ae_all_iff]; intro i
    exact Measure.ae_eval_ne _ j _
  filter_upwards [hae] with u hu
  have hcount : ∀ i (h : i < alpha.length),
      #{j | u j < ((alpha[i] : ℚ) : ℝ)} = #{j | u j ≤ ((alpha[i] : ℚ) : ℝ)} := by
    intro i h
    congr 1
    ext j
    simp only [Finset.mem_filter, Finset.mem_univ, true_and]
    exact ⟨le_of_lt, fun hle => lt_of_le_of_ne hle (hu j ⟨i, h⟩)⟩
  apply propext
  show u ∈ Ev alpha beta ↔ u ∈ EvLe alpha beta
  unfold Ev EvLe
  simp only [Set.mem_ofPred_eq]
  constructor
  · rintro ⟨hA, hB⟩; exact ⟨fun i h => hcount i h ▸ hA i h, hB⟩
  · rintro ⟨hA, hB⟩; exact ⟨fun i h => (hcount i h).symm ▸ hA i h, hB⟩

/-- **stage 3**: for `n` independent uniforms on `[0,1]` the probability of the rectangle event
`{αᵢ ≤ U₍ᵢ₎ ≤ βᵢ ∀ i}` (count form) is `coverage α β` -/
theorem unifPi_ev (hα : ∀ x ∈ alpha, 0 ≤ x ∧ x ≤ 1) (hβ : ∀ x ∈ beta, 0 ≤ x ∧ x ≤ 1) :
    unifPi alpha.length (Ev alpha beta) = ENNReal.ofReal ((coverage alpha beta : ℚ) : ℝ) := by
  rw [measure_congr ev_ae_eq_evLe, unifPi_evLe hα hβ]

end measure

/-! ## order statistics: sorted-sample form ⇔ count form -/
section orderstat
variable {n : ℕ}

/-- the `i`-th (0-based) order statistic of a sample: the sample composed with its sorting permutation -/
noncomputable def orderStat (u : Fin n → ℝ) (i : Fin n) : ℝ := u (Tuple.sort u i)

theorem orderStat_mono (u : Fin n → ℝ) : Monotone (orderStat u) := Tuple.monotone_sort u

theorem count_comp_perm (u : Fin n → ℝ) (σ : Equiv.Perm (Fin n)) (p : ℝ → Prop) [DecidablePred p] :
    #{j | p (u (σ j))} = #{j | p (u j)} :=
  Finset.card_equiv σ (by simp)

/-- for a sorted sample: `y i ≤ t` iff more than `i` sample points are `≤ t` -/
theorem sorted_le_iff (y : Fin n → ℝ) (hy : Monotone y) (i : Fin n) (t : ℝ) :
    y i ≤ t ↔ i.val < #{j | y j ≤ t} := by
  constructor
  · intro h
    have hsub : Finset.Iic i ⊆ Finset.univ.filter fun j => y j ≤ t := by
      intro j hj
      rw [Finset.mem_filter]
      exact ⟨Finset.mem_univ _, le_trans (hy (Finset.mem_Iic.mp hj)) h⟩
    have := Finset.card_le_card hsub
    rw [Fin.card_Iic] at this
    omega
  · intro h
    by_contra hlt
    have hlt : t < y i := not_le.mp hlt
    have hsub : (Finset.univ.filter fun j => y j ≤ t) ⊆ Finset.Iio i := by
      intro j hj
      rw [Finset.mem_filter] at hj
      rw [Finset.mem_Iio]
      by_contra hij
      exact absurd (le_trans (hy (not_lt.mp hij)) hj.2) (not_le.mpr hlt)
    have := Finset.card_le_card hsub
    rw [Fin.card_Iio] at this
    omega

/-- for a sorted sample: `t ≤ y i` iff at most `i` sample points are `< t` -/
theorem sorted_ge_iff (y : Fin n → ℝ) (hy : Monotone y) (i : Fin n) (t : ℝ) :
    t ≤ y i ↔ #{j | y j < t} ≤ i.val := by
  constructor
  · intro h
    have hsub : (Finset.univ.filter fun j => y j < t) ⊆ Finset.Iio i := by
      intro j hj
      rw [Finset.mem_filter] at hj
      rw [Finset.mem_Iio]
      by_contra hij
      exact absurd (lt_of_le_of_lt (le_trans h (hy (not_lt.mp hij))) hj.2) (lt_irrefl _)
    have := Finset.card_le_card hsub
    rwa [Fin.card_Iio] at this
  · intro h
    by_contra hlt
    have hlt : y i < t := not_le.mp hlt
    have hsub : Finset.Iic i ⊆ Finset.univ.filter fun j => y j < t := by
      intro j hj
      rw [Finset.mem_filter]
      exact ⟨Finset.mem_univ _, lt_of_le_of_lt (hy (Finset.mem_Iic.mp hj)) hlt⟩
    have := Finset.card_le_card hsub
    rw [Fin.card_Iic] at this
    omega

/-- `U₍ᵢ₎ ≤ t` iff at least `i + 1` points of the (unsorted) sample are `≤ t` -/
theorem orderStat_le_iff (u : Fin n → ℝ) (i : Fin n) (t : ℝ) :
    orderStat u i ≤ t ↔ i.val + 1 ≤ #{j | u j ≤ t} := by
  rw [sorted_le_iff (orderStat u) (orderStat_mono u) i t]
  unfold orderStat
  rw [count_comp_perm u (Tuple.sort u) (fun x => x ≤ t)]
  exact Iff.rfl

/-- `t ≤ U₍ᵢ₎` iff at most `i` points of the (unsorted) sample are `< t` -/
theorem le_orderStat_iff (u : Fin n → ℝ) (i : Fin n) (t : ℝ) :
    t ≤ orderStat u i ↔ #{j | u j < t} ≤ i.val := by
  rw [sorted_ge_iff (orderStat u) (orderStat_mono u) i t]
  unfold orderStat
  rw [count_comp_perm u (Tuple.sort u) (fun x => x < t)]

end orderstat

/-- the rectangle event written with order statistics is the count form `Ev` -/
theorem rect_eq_ev (alpha beta : List ℚ) (hlen : beta.length = alpha.length) :
    {u : Fin alpha.length → ℝ | ∀ i : Fin alpha.length,
        ((alpha[i] : ℚ) : ℝ) ≤ orderStat u i ∧ orderStat u i ≤ ((beta[i.val]'(hlen.symm ▸ i.isLt) : ℚ) : ℝ)}
      = Ev alpha beta := by
  ext u
  simp only [Set.mem_ofPred_eq, Ev, le_orderStat_iff, orderStat_le_iff]
  constructor
  · intro h
    exact ⟨fun i hi => (h ⟨i, hi⟩).1, fun i hi => (h ⟨i, hlen ▸ hi⟩).2⟩
  · rintro ⟨hA, hB⟩ i
    exact ⟨hA i i.isLt, hB i (by rw [hlen]; exact i.isLt)⟩

/-- **stage 3, order-statistic form**: `P[αᵢ ≤ U₍ᵢ₎ ≤ βᵢ ∀ i] = coverage α β` for `n` independent uniforms -/
theorem unifPi_rect (alpha beta : List ℚ) (hlen : beta.length = alpha.length)
    (hα : ∀ x ∈ alpha, 0 ≤ x ∧ x ≤ 1) (hβ : ∀ x ∈ beta, 0 ≤ x ∧ x ≤ 1) :
    unifPi alpha.length {u : Fin alpha.length → ℝ | ∀ i : Fin alpha.length,
        ((alpha[i] : ℚ) : ℝ) ≤ orderStat u i ∧ orderStat u i ≤ ((beta[i.val]'(hlen.symm ▸ i.isLt) : ℚ) : ℝ)}
      = ENNReal.ofReal ((coverage alpha beta : ℚ) : ℝ) := by
  rw [rect_eq_ev alpha beta hlen, unifPi_ev hα hβ]

end Opda.RectProbP
