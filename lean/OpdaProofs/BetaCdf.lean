import OpdaProofs.BetaBinom
import Mathlib.Analysis.Calculus.Deriv.Mul
import Mathlib.Analysis.Calculus.Deriv.Add
import Mathlib.MeasureTheory.Integral.IntervalIntegral.FundThmCalculus
import Mathlib.Tactic

/-!
# C15-T0: the binomial tail polynomial is the Beta distribution function

`d/dp P[Bin(n,p) ≥ k+1] = n · P[Bin(n−1,p) = k] = n·C(n−1,k)·p^k (1−p)^{n−1−k}` (the derivative
telescopes), which for `a = k+1`, `b = n−k` is the Beta(a,b) density `p^{a−1}(1−p)^{b−1}/B(a,b)` with
`1/B(a,b) = n·C(n−1,a−1)`; by the fundamental theorem of calculus the tail is its integral, and the
total mass is `tail n (k+1) 1 − tail n (k+1) 0 = 1`, so the constant *is* the normaliser.
-/
namespace Opda.BetaCdf
open Opda.CP Opda.BetaBinomP

theorem continuous_tail (n k : ℕ) : Continuous (fun p : ℝ => tail n k p) := by
  induction n generalizing k with
  | zero => cases k <;> simp only [tail] <;> exact continuous_const
  | succ n ih => cases k with
    | zero => simp only [tail_zero]; exact continuous_const
    | succ k =>
      simp only [tail]
      exact (continuous_id.mul (ih k)).add ((continuous_const.sub continuous_id).mul (ih (k+1)))

theorem continuous_pmf (n k : ℕ) : Continuous (fun p : ℝ => pmf n k p) :=
  (continuous_tail n k).sub (continuous_tail n (k+1))

/-- derivative of the binomial tail in `p`: `d/dp P[Bin(n,p) ≥ k+1] = n · P[Bin(n−1,p) = k]` -/
noncomputable def dtail (n : ℕ) : ℕ → ℝ → ℝ
  | 0, _ => 0
  | k+1, p => (n : ℝ) * pmf (n - 1) k p

theorem hasDerivAt_tail (n k : ℕ) (p : ℝ) : HasDerivAt (fun p : ℝ => tail n k p) (dtail n k p) p := by
  induction n generalizing k with
  | zero =>
    cases k with
    | zero => simp only [tail, dtail]; exact hasDerivAt_const p 1
    | succ k => simp only [tail, dtail, Nat.cast_zero, zero_mul]; exact hasDerivAt_const p 0
  | succ n ih =>
    cases k with
    | zero => simp only [tail_zero, dtail]; exact hasDerivAt_const p 1
    | succ k =>
      have h1 := (hasDerivAt_id' p).mul (ih k)
      have h2 := ((hasDerivAt_const p (1:ℝ)).sub (hasDerivAt_id' p)).mul (ih (k+1))
      have h := h1.add h2
      simp only [tail]
      refine h.congr_deriv ?_
      simp only [dtail, Nat.add_sub_cancel]
      cases k with
      | zero =>
        simp only [dtail, tail_zero]
        cases n with
        | zero => simp [pmf, tail]
        | succ m =>
          have := pmf_succ_zero m p
          simp only [Nat.add_sub_cancel]
          simp only [pmf, tail_zero] at this ⊢
          push_cast
          simp only [Pi.sub_apply]
          linear_combination (-(m:ℝ) - 1) * this
      | succ k' =>
        simp only [dtail]
        cases n with
        | zero => simp [pmf, tail]
        | succ m =>
          have := pmf_succ_succ m k' p
          simp only [Nat.add_sub_cancel]
          simp only [pmf] at this ⊢
          push_cast
          simp only [Pi.sub_apply]
          linear_combination (-(m:ℝ) - 1) * this


theorem continuous_dtail (n k : ℕ) : Continuous (fun p : ℝ => dtail n k p) := by
  cases k with
  | zero => simp only [dtail]; exact continuous_const
  | succ k => simp only [dtail]; exact continuous_const.mul (continuous_pmf (n - 1) k)

/-- closed form of the derivative: the Beta(k+1, n−k) density -/
theorem dtail_succ_eq (n k : ℕ) (p : ℝ) :
    dtail n (k+1) p = (n : ℝ) * (Nat.choose (n - 1) k : ℝ) * p ^ k * (1 - p) ^ (n - 1 - k) := by
  simp only [dtail, pmf_eq]; ring

/-- derivative of the tail in closed form -/
theorem hasDerivAt_tail_succ (n k : ℕ) (x : ℝ) :
    HasDerivAt (fun p : ℝ => tail n (k+1) p)
      ((n : ℝ) * (Nat.choose (n - 1) k : ℝ) * x ^ k * (1 - x) ^ (n - 1 - k)) x := by
  rw [← dtail_succ_eq]; exact hasDerivAt_tail n (k+1) x

/-- **the binomial tail is the integral of the Beta density** -/
theorem integral_dtail (n k : ℕ) (u v : ℝ) :
    ∫ x in u..v, dtail n k x = tail n k v - tail n k u :=
  intervalIntegral.integral_eq_sub_of_hasDerivAt (fun x _ => hasDerivAt_tail n k x)
    ((continuous_dtail n k).intervalIntegrable _ _)

theorem tail_at_zero (n k : ℕ) : tail n (k+1) 0 = 0 := by
  induction n generalizing k with
  | zero => rfl
  | succ n ih => simp only [tail]; rw [ih k]; ring

theorem tail_at_one (n k : ℕ) (h : k ≤ n) : tail n k 1 = 1 := by
  induction n generalizing k with
  | zero => have : k = 0 := by omega
            subst this; rfl
  | succ n ih => cases k with
    | zero => simp
    | succ k => simp only [tail]; rw [ih k (by omega)]; ring

/-- the density integrates to one over `[0,1]`: `n·C(n−1,k)` is the normalising constant `1/B(k+1,n−k)` -/
theorem integral_dtail_unit (n k : ℕ) (h : k + 1 ≤ n) : ∫ x in (0:ℝ)..1, dtail n (k+1) x = 1 := by
  rw [integral_dtail, tail_at_one n (k+1) h, tail_at_zero]; ring

theorem dtail_nonneg (n k : ℕ) (p : ℝ) (h0 : 0 ≤ p) (h1 : p ≤ 1) : 0 ≤ dtail n k p := by
  cases k with
  | zero => simp [dtail]
  | succ k => simp only [dtail]; exact mul_nonneg (Nat.cast_nonneg n) (pmf_nonneg _ _ p h0 h1)

#print axioms integral_dtail
end Opda.BetaCdf
