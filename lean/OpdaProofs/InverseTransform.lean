import Mathlib.MeasureTheory.Measure.Lebesgue.Basic
import Mathlib.Tactic

/-!
C13-T1: inverse-transform sampling.  If a quantile function `Q` and a distribution function `F`
satisfy the Galois law on levels in `(0,1]` (C03-T4, C05-T2), then for `U` uniform on `(0,1]`
the event `Q(U) ≤ y` has probability `F(y)`.
-/
namespace Opda.Sampling
open MeasureTheory Set

theorem inverse_transform {E : Type} [Preorder E] (Q : ℝ → E) (F : E → ℝ) (y : E)
    (hF0 : 0 ≤ F y) (hF1 : F y ≤ 1)
    (hgal : ∀ u, 0 < u → u ≤ 1 → (Q u ≤ y ↔ u ≤ F y)) :
    volume {u : ℝ | u ∈ Ioc (0:ℝ) 1 ∧ Q u ≤ y} = ENNReal.ofReal (F y) := by
  have hset : {u : ℝ | u ∈ Ioc (0:ℝ) 1 ∧ Q u ≤ y} = Ioc 0 (F y) := by
    ext u
    simp only [mem_setOf_eq, mem_Ioc]
    constructor
    · rintro ⟨⟨h0, h1⟩, hq⟩
      exact ⟨h0, (hgal u h0 h1).mp hq⟩
    · rintro ⟨h0, hle⟩
      have h1 : u ≤ 1 := le_trans hle hF1
      exact ⟨⟨h0, h1⟩, (hgal u h0 h1).mpr hle⟩
  rw [hset, Real.volume_Ioc, sub_zero]

#print axioms inverse_transform
end Opda.Sampling
