import OpdaProofs.RealInst
import Mathlib.Probability.CDF
import Mathlib.Probability.Distributions.Gaussian.Real
import Mathlib.Topology.Order.LeftRightLim
import Mathlib.MeasureTheory.Integral.IntervalIntegral.FundThmCalculus
import Mathlib.Tactic

/-!
# C16-T5: the standard normal helpers over ℝ

`Phi x = γ(−∞,x]` for the standard Gaussian measure `γ` (`OpdaProofs/RealInst.lean`), `phiStd` its
density, `PhiInv q = inf {x | q ≤ Φ x}`.  Proved here: `Φ` is continuous, strictly increasing, with
limits `0` and `1`, `0 < Φ < 1`; `Φ(Φ⁻¹ q) = q` on `(0,1)`, `Φ⁻¹(Φ x) = x`, the Galois law; no real
number attains level `1` and every real number exceeds level `0` (the `±∞` end points of `normal_ppf`);
`Φ' = φ`, `φ(x) = (2π)^{-1/2} e^{−x²/2}`, `Φ(0) = ½` and **`Φ(x) = ½(1 + erf(x/√2))`** with `erf`
defined by its integral — the formulas `normal_pdf` and `normal_cdf` evaluate.
-/
namespace Opda.Normal
open MeasureTheory ProbabilityTheory Set Filter Topology

local notation "γ" => gaussianReal 0 1

theorem one_ne_zero' : (1 : NNReal) ≠ 0 := one_ne_zero

/-- `Φ` is the distribution function of the standard Gaussian measure -/
theorem Phi_eq_cdf (x : ℝ) : Phi x = cdf γ x := by
  rw [cdf_eq_real]; rfl

theorem Phi_mono : Monotone Phi := fun x y h => by
  rw [Phi_eq_cdf, Phi_eq_cdf]; exact monotone_cdf γ h

theorem Phi_nonneg (x : ℝ) : 0 ≤ Phi x := by rw [Phi_eq_cdf]; exact cdf_nonneg γ x
theorem Phi_le_one (x : ℝ) : Phi x ≤ 1 := by rw [Phi_eq_cdf]; exact cdf_le_one γ x

theorem tendsto_Phi_atBot : Tendsto Phi atBot (𝓝 0) := by
  have : Phi = cdf γ := funext Phi_eq_cdf
  rw [this]; exact tendsto_cdf_atBot γ

theorem tendsto_Phi_atTop : Tendsto Phi atTop (𝓝 1) := by
  have : Phi = cdf γ := funext Phi_eq_cdf
  rw [this]; exact tendsto_cdf_atTop γ

theorem Phi_sub (x y : ℝ) (h : x ≤ y) : Phi y - Phi x = (γ (Ioc x y)).toReal := by
  unfold Phi
  have hsub : Iic x ⊆ Iic y := Iic_subset_Iic.mpr h
  have : Ioc x y = Iic y \ Iic x := by
    ext z; simp only [mem_Ioc, Set.mem_sdiff, mem_Iic, not_le]; tauto
  rw [this, measure_sdiff hsub measurableSet_Iic.nullMeasurableSet (measure_ne_top _ _),
    ENNReal.toReal_sub_of_le (measure_mono hsub) (measure_ne_top _ _)]

theorem Phi_strictMono : StrictMono Phi := by
  intro x y hxy
  have h := Phi_sub x y hxy.le
  have hpos : 0 < (γ (Ioc x y)).toReal := by
    apply ENNReal.toReal_pos _ (measure_ne_top _ _)
    intro h0
    have := gaussianReal_absolutelyContinuous' 0 one_ne_zero' h0
    rw [Real.volume_Ioc] at this
    have : y - x ≤ 0 := by simpa using this
    linarith
  linarith

theorem Phi_pos (x : ℝ) : 0 < Phi x := lt_of_le_of_lt (Phi_nonneg (x - 1)) (Phi_strictMono (by linarith))
theorem Phi_lt_one (x : ℝ) : Phi x < 1 := lt_of_lt_of_le (Phi_strictMono (by linarith : x < x + 1)) (Phi_le_one _)

theorem Phi_continuous : Continuous Phi := by
  have hfun : Phi = cdf γ := funext Phi_eq_cdf
  rw [hfun, continuous_iff_continuousAt]
  intro x
  rw [(monotone_cdf γ).continuousAt_iff_leftLim_eq_rightLim, (cdf γ).rightLim_eq]
  have h1 := (cdf γ).measure_singleton x
  rw [measure_cdf γ] at h1
  have := nullSingletonClass_gaussianReal (μ := 0) one_ne_zero'
  rw [measure_singleton] at h1
  have h2 : cdf γ x - Function.leftLim (cdf γ) x ≤ 0 := by
    have := h1.symm
    rwa [ENNReal.ofReal_eq_zero] at this
  have h3 : Function.leftLim (cdf γ) x ≤ cdf γ x := (monotone_cdf γ).leftLim_le le_rfl
  linarith

/-- every level in `(0,1)` is attained exactly once -/
theorem exists_Phi_eq (q : ℝ) (h0 : 0 < q) (h1 : q < 1) : ∃ x, Phi x = q := by
  have hlo : ∃ a, Phi a ≤ q := by
    have := (tendsto_Phi_atBot.eventually (gt_mem_nhds h0)).exists
    obtain ⟨a, ha⟩ := this; exact ⟨a, ha.le⟩
  have hhi : ∃ b, q ≤ Phi b := by
    have := (tendsto_Phi_atTop.eventually (lt_mem_nhds h1)).exists
    obtain ⟨b, hb⟩ := this; exact ⟨b, hb.le⟩
  exact mem_range_of_exists_le_of_exists_ge Phi_continuous hlo hhi

/-- **`Φ ∘ Φ⁻¹ = id` on `(0,1)`** for the generalised inverse `Φ⁻¹ q = inf {x | q ≤ Φ x}` -/
theorem Phi_PhiInv (q : ℝ) (h0 : 0 < q) (h1 : q < 1) : Phi (PhiInv q) = q := by
  obtain ⟨x0, hx0⟩ := exists_Phi_eq q h0 h1
  have hset : {x | q ≤ Phi x} = Ici x0 := by
    ext x
    simp only [mem_ofPred_eq, mem_Ici]
    rw [← hx0]
    exact Phi_strictMono.le_iff_le
  unfold PhiInv
  rw [hset, csInf_Ici, hx0]

theorem PhiInv_Phi (x : ℝ) : PhiInv (Phi x) = x := by
  have hset : {y | Phi x ≤ Phi y} = Ici x := by
    ext y; simp only [mem_ofPred_eq, mem_Ici]; exact Phi_strictMono.le_iff_le
  unfold PhiInv
  rw [hset, csInf_Ici]

/-- Galois law of the quantile function on `(0,1)` -/
theorem PhiInv_le_iff (q x : ℝ) (h0 : 0 < q) (h1 : q < 1) : PhiInv q ≤ x ↔ q ≤ Phi x := by
  conv_rhs => rw [← Phi_PhiInv q h0 h1]
  exact Phi_strictMono.le_iff_le.symm

/-- end points of `normal_ppf`: no real number has `Φ x ≥ 1` (so the quantile at `1` is `+∞`), and every
real number has `Φ x > 0` (so the quantile at `0` is `−∞`). -/
theorem ppf_one_unattained : {x : ℝ | 1 ≤ Phi x} = ∅ := by
  ext x; simp only [mem_ofPred_eq, mem_empty_iff_false, iff_false, not_le]; exact Phi_lt_one x

theorem ppf_zero_unbounded : {x : ℝ | 0 ≤ Phi x} = univ := by
  ext x; simp only [mem_ofPred_eq, mem_univ, iff_true]; exact Phi_nonneg x


/-! ### `Φ(x) = ½ (1 + erf(x/√2))` with `erf` defined by its integral -/

/-- the error function, *defined* by its integral (Mathlib has no `erf`) -/
noncomputable def erfR (x : ℝ) : ℝ := 2 / Real.sqrt Real.pi * ∫ t in (0:ℝ)..x, Real.exp (-t ^ 2)

theorem gamma_Ioc (a b : ℝ) (h : a ≤ b) :
    (γ (Ioc a b)).toReal = ∫ t in a..b, gaussianPDFReal 0 1 t := by
  rw [gaussianReal_apply_eq_integral 0 one_ne_zero', intervalIntegral.integral_of_le h,
    ENNReal.toReal_ofReal]
  exact setIntegral_nonneg measurableSet_Ioc fun t _ => gaussianPDFReal_nonneg 0 1 t

theorem Phi_sub_integral (a b : ℝ) : Phi b - Phi a = ∫ t in a..b, gaussianPDFReal 0 1 t := by
  rcases le_total a b with h | h
  · rw [Phi_sub a b h, gamma_Ioc a b h]
  · rw [intervalIntegral.integral_symm, ← gamma_Ioc b a h, ← Phi_sub b a h]; ring

theorem Phi_zero : Phi 0 = 1 / 2 := by
  have hmap : Measure.map (fun x : ℝ => -x) γ = γ := by
    have := gaussianReal_map_neg (μ := 0) (v := 1)
    simpa using this
  have h1 : γ (Ici 0) = γ (Iic 0) := by
    conv_lhs => rw [← hmap]
    rw [Measure.map_apply measurable_neg measurableSet_Ici]
    congr 1
    ext x; simp
  have := nullSingletonClass_gaussianReal (μ := 0) one_ne_zero'
  have h2 : γ (Ioi 0) = γ (Ici 0) := measure_congr Ioi_ae_eq_Ici
  have h3 : γ (Ioi 0) = 1 - γ (Iic 0) := by
    rw [← compl_Iic, prob_compl_eq_one_sub measurableSet_Iic]
  have h4 : γ (Iic 0) = 1 - γ (Iic 0) := by
    calc γ (Iic 0) = γ (Ici 0) := h1.symm
      _ = γ (Ioi 0) := h2.symm
      _ = 1 - γ (Iic 0) := h3
  unfold Phi
  have hfin : γ (Iic 0) ≠ ⊤ := measure_ne_top _ _
  have h5 : (γ (Iic 0)).toReal = 1 - (γ (Iic 0)).toReal := by
    have := congrArg ENNReal.toReal h4
    rwa [ENNReal.toReal_sub_of_le prob_le_one ENNReal.one_ne_top, ENNReal.toReal_one] at this
  linarith

/-- the standard normal density in closed form -/
theorem pdf_closed (t : ℝ) :
    gaussianPDFReal 0 1 t = (Real.sqrt (2 * Real.pi))⁻¹ * Real.exp (-(t / Real.sqrt 2) ^ 2) := by
  rw [gaussianPDFReal_def]
  simp only [NNReal.coe_one, mul_one, sub_zero]
  congr 2
  rw [div_pow, Real.sq_sqrt (by norm_num : (0:ℝ) ≤ 2)]
  ring

/-- **`Φ(x) = ½ (1 + erf(x/√2))`** — the formula `normal_cdf` evaluates -/
theorem Phi_eq_erf (x : ℝ) : Phi x = (1 + erfR (x / Real.sqrt 2)) / 2 := by
  have h := Phi_sub_integral 0 x
  rw [Phi_zero] at h
  have hs2 : Real.sqrt 2 ≠ 0 := by positivity
  have hsub : ∫ t in (0:ℝ)..x, gaussianPDFReal 0 1 t
      = (Real.sqrt (2 * Real.pi))⁻¹ * (Real.sqrt 2 * ∫ s in (0:ℝ)..x / Real.sqrt 2, Real.exp (-s ^ 2)) := by
    simp_rw [pdf_closed]
    rw [intervalIntegral.integral_const_mul]
    congr 1
    have := intervalIntegral.integral_comp_div (a := 0) (b := x) (fun s => Real.exp (-s ^ 2)) hs2
    simpa using this
  rw [hsub] at h
  unfold erfR
  have hpi : Real.sqrt (2 * Real.pi) = Real.sqrt 2 * Real.sqrt Real.pi :=
    Real.sqrt_mul (by norm_num) _
  have hsp : Real.sqrt Real.pi ≠ 0 := by positivity
  rw [hpi] at h
  have : Phi x = 1 / 2 + (Real.sqrt 2 * Real.sqrt Real.pi)⁻¹
      * (Real.sqrt 2 * ∫ s in (0:ℝ)..x / Real.sqrt 2, Real.exp (-s ^ 2)) := by linarith
  rw [this]
  field_simp

/-- the density `normal_pdf` evaluates: `(2π)^{-1/2} · exp(−x²/2)` -/
theorem phiStd_closed (x : ℝ) : phiStd x = (Real.sqrt (2 * Real.pi))⁻¹ * Real.exp (-0.5 * x ^ 2) := by
  unfold phiStd
  rw [gaussianPDFReal_def]
  simp only [NNReal.coe_one, mul_one, sub_zero]
  congr 2
  ring

theorem continuous_phiStd : Continuous phiStd := by
  have : phiStd = fun x => (Real.sqrt (2 * Real.pi))⁻¹ * Real.exp (-0.5 * x ^ 2) := funext phiStd_closed
  rw [this]; fun_prop

/-- `Φ' = φ`: the distribution function is the integral of the density -/
theorem hasDerivAt_Phi (x : ℝ) : HasDerivAt Phi (phiStd x) x := by
  have h : ∀ y, Phi y = Phi 0 + ∫ t in (0:ℝ)..y, phiStd t := fun y => by
    have := Phi_sub_integral 0 y
    unfold phiStd; linarith
  have hfun : Phi = fun y => Phi 0 + ∫ t in (0:ℝ)..y, phiStd t := funext h
  rw [hfun]
  exact (intervalIntegral.integral_hasDerivAt_right (continuous_phiStd.intervalIntegrable _ _)
    (continuous_phiStd.stronglyMeasurableAtFilter _ _) continuous_phiStd.continuousAt).const_add _

#print axioms Phi_PhiInv
#print axioms Phi_eq_erf
#print axioms hasDerivAt_Phi
end Opda.Normal
