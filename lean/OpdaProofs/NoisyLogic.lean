import OpdaModel.NoisyFloat
import OpdaProofs.NoisyBisect
import Mathlib.Algebra.Order.Field.Basic
import Mathlib.Tactic

/-!
C06/C07: decision logic of the polymorphic model `Opda.Noisy` over an arbitrary linearly ordered field,
with the transcendental functions as *arbitrary* parameters (the record `F : Fns α`).  Everything here
is about the very terms the driver evaluates at `Float` (`Opda.Noisy.cdf`, `pdf`, `ppf`, `regime`,
`pointMass`, `bisect`); what is assumed about `F` is stated explicitly:

* `Lawful F`   — numerals are numerals and `F.eq` is equality (true of the `ℝ` instance; at `Float`
                 this is IEEE `==` on non-NaN values);
* `RangeOK F`  — `Φ ∈ [0,1]`, `φ ≥ 0`, `√ ≥ 0`, `x^k ∈ [0,1]` on `[0,1]`, `x^k ≥ 0` on `x ≥ 0`
                 (only needed for the closed-form regimes; the series regime needs nothing).
-/
set_option linter.unusedSectionVars false

namespace Opda.Noisy

variable {α : Type} [Field α] [LinearOrder α] [IsStrictOrderedRing α]

structure Lawful (F : Fns α) : Prop where
  n_cast : ∀ k : ℕ, F.n k = (k : α)
  eq_iff : ∀ x y : α, F.eq x y = true ↔ x = y

structure RangeOK (F : Fns α) : Prop where
  cdf01 : ∀ x, 0 ≤ F.normalCdf x ∧ F.normalCdf x ≤ 1
  pdf0 : ∀ x, 0 ≤ F.normalPdf x
  sqrt0 : ∀ x, 0 ≤ F.sqrt x
  pow01 : ∀ x k, 0 ≤ x → x ≤ 1 → 0 ≤ k → 0 ≤ F.pow x k ∧ F.pow x k ≤ 1
  pow0 : ∀ x k, 0 ≤ x → 0 ≤ F.pow x k
  posInf0 : 0 ≤ F.posInf

/-! ### small facts -/

theorem clip_mem (x lo hi : α) (h : lo ≤ hi) : lo ≤ clip x lo hi ∧ clip x lo hi ≤ hi := by
  unfold clip
  split_ifs with h1 h2
  · exact ⟨le_refl _, h⟩
  · exact ⟨h, le_refl _⟩
  · exact ⟨not_lt.mp h1, not_lt.mp h2⟩

theorem clip_mono (x y lo hi : α) (h : lo ≤ hi) (hxy : x ≤ y) : clip x lo hi ≤ clip y lo hi := by
  unfold clip
  split_ifs <;> first | exact le_refl _ | exact h | linarith

theorem clip_of_mem (x lo hi : α) (h1 : lo ≤ x) (h2 : x ≤ hi) : clip x lo hi = x := by
  unfold clip; rw [if_neg (not_lt.mpr h1), if_neg (not_lt.mpr h2)]

theorem clip_of_le (x lo hi : α) (h : lo ≤ hi) (hx : x ≤ lo) : clip x lo hi = lo := by
  unfold clip
  rcases lt_or_eq_of_le hx with h1 | h1
  · rw [if_pos h1]
  · subst h1; rw [if_neg (lt_irrefl _), if_neg (not_lt.mpr h)]

theorem clip_of_ge (x lo hi : α) (h : lo ≤ hi) (hx : hi ≤ x) : clip x lo hi = hi := by
  unfold clip
  rw [if_neg (not_lt.mpr (h.trans hx))]
  rcases lt_or_eq_of_le hx with h1 | h1
  · rw [if_pos h1]
  · rw [if_neg (by rw [h1]; exact lt_irrefl _), h1]

variable {F : Fns α}

theorem Lawful.lit (hF : Lawful F) (p q : ℕ) : F.lit p q = (p : α) / (q : α) := by
  unfold Fns.lit; rw [hF.n_cast, hF.n_cast]

theorem Lawful.eq_false (hF : Lawful F) {x y : α} (h : x ≠ y) : F.eq x y = false := by
  rw [Bool.eq_false_iff]; intro h'; exact h ((hF.eq_iff _ _).mp h')

theorem Lawful.eq_self (hF : Lawful F) (x : α) : F.eq x x = true := (hF.eq_iff _ _).mpr rfl

/-! ### regimes -/

theorem pointMass_iff (hF : Lawful F) (d : Params α) : pointMass F d = true ↔ d.a = d.b ∧ d.o = 0 := by
  unfold pointMass
  rw [Bool.and_eq_true, hF.eq_iff, hF.eq_iff, hF.n_cast]; simp

theorem regime_noiseless_iff (hF : Lawful F) (d : Params α) :
    regime F d = .noiseless ↔ d.o < 1 / 1000000 * (d.b - d.a) := by
  unfold regime
  rw [hF.lit, hF.n_cast]
  split_ifs <;> simp_all

theorem regime_nothing_iff (hF : Lawful F) (d : Params α) :
    regime F d = .nothing ↔ 1 / 1000000 * (d.b - d.a) ≤ d.o ∧ d.o < 10 * (d.b - d.a) := by
  unfold regime
  rw [hF.lit, hF.n_cast]
  split_ifs with h1 h2 <;> simp_all

theorem regime_normal_iff (hF : Lawful F) (d : Params α) :
    regime F d = .normal ↔ 1 / 1000000 * (d.b - d.a) ≤ d.o ∧ 10 * (d.b - d.a) ≤ d.o := by
  unfold regime
  rw [hF.lit, hF.n_cast]
  split_ifs with h1 h2 <;> simp_all

/-- in the series regime the noise is strictly positive and the support has positive width -/
theorem nothing_pos (hF : Lawful F) (d : Params α) (hab : d.a ≤ d.b) (h : regime F d = .nothing) :
    0 < d.o ∧ 0 < d.b - d.a := by
  obtain ⟨h1, h2⟩ := (regime_nothing_iff hF d).mp h
  have hw : 0 ≤ d.b - d.a := sub_nonneg.mpr hab
  have ho : 0 ≤ d.o := le_trans (by positivity) h1
  have hw' : 0 < d.b - d.a := by
    by_contra hc
    have : d.b - d.a = 0 := le_antisymm (not_lt.mp hc) hw
    rw [this] at h2; linarith
  exact ⟨lt_of_lt_of_le (by positivity) h1, hw'⟩

/-- **C07-T3, last clause**: the `if o == 0: clip` line after the bisection can never fire -/
theorem clip_branch_unreachable (hF : Lawful F) (d : Params α) (hab : d.a ≤ d.b)
    (h : regime F d = .nothing) : F.eq d.o (F.n 0) = false := by
  apply hF.eq_false
  rw [hF.n_cast]
  exact_mod_cast (nothing_pos hF d hab h).1.ne'

/-- with `a = b` and `o > 0` the regime is `normal` -/
theorem regime_degenerate (hF : Lawful F) (d : Params α) (hab : d.a = d.b) (ho : 0 < d.o) :
    regime F d = .normal ∧ pointMass F d = false := by
  constructor
  · rw [regime_normal_iff hF, hab]; simp [ho.le]
  · rw [Bool.eq_false_iff, Ne, pointMass_iff hF]; intro h; exact ho.ne' h.2

/-! ### cdf / pdf: unfolding by regime -/

theorem cdf_point (d : Params α) (y : α) (hp : pointMass F d = true) :
    cdf F d y = if y < d.a then F.n 0 else F.n 1 := by
  unfold cdf; rw [if_pos hp]

theorem pdf_point (d : Params α) (y : α) (hp : pointMass F d = true) :
    pdf F d y = if F.eq y d.a then F.posInf else F.n 0 := by
  unfold pdf; rw [if_pos hp]

theorem cdf_nothing (d : Params α) (y : α) (hp : pointMass F d = false) (h : regime F d = .nothing) :
    cdf F d y = clip (cdfRaw F d y) (F.n 0) (F.n 1) := by
  unfold cdf; rw [if_neg (by simp [hp]), h]

theorem cdf_normal (d : Params α) (y : α) (hp : pointMass F d = false) (h : regime F d = .normal) :
    cdf F d y = F.normalCdf ((y - meanOf F d) / F.sqrt (varOf F d)) := by
  unfold cdf; rw [if_neg (by simp [hp]), h]

theorem cdf_noiseless (d : Params α) (y : α) (hp : pointMass F d = false) (h : regime F d = .noiseless) :
    cdf F d y = if d.convex then F.pow ((clip y d.a d.b - d.a) / (d.b - d.a)) (F.n d.c / F.n 2)
      else F.n 1 - F.pow ((d.b - clip y d.a d.b) / (d.b - d.a)) (F.n d.c / F.n 2) := by
  unfold cdf; rw [if_neg (by simp [hp]), h]

theorem pdf_nothing (d : Params α) (y : α) (hp : pointMass F d = false) (h : regime F d = .nothing) :
    pdf F d y = if pdfRaw F d y < F.n 0 then F.n 0 else pdfRaw F d y := by
  unfold pdf; rw [if_neg (by simp [hp]), h]

theorem pdf_normal (d : Params α) (y : α) (hp : pointMass F d = false) (h : regime F d = .normal) :
    pdf F d y = F.normalPdf ((y - meanOf F d) / F.sqrt (varOf F d)) / F.sqrt (varOf F d) := by
  unfold pdf; rw [if_neg (by simp [hp]), h]

theorem pdf_noiseless (d : Params α) (y : α) (hp : pointMass F d = false) (h : regime F d = .noiseless) :
    pdf F d y = if y < d.a ∨ d.b < y then F.n 0
      else if d.convex then
        F.n d.c / (F.n 2 * (d.b - d.a)) * F.pow ((y - d.a) / (d.b - d.a)) (F.n d.c / F.n 2 - F.n 1)
      else
        F.n d.c / (F.n 2 * (d.b - d.a)) * F.pow ((d.b - y) / (d.b - d.a)) (F.n d.c / F.n 2 - F.n 1) := by
  unfold pdf; rw [if_neg (by simp [hp]), h]

/-! ### C06-T1: ranges -/

/-- in the series regime the final clips alone give the range, whatever the transcendental functions,
the table and the Chebyshev branch return -/
theorem cdf_range_series (hF : Lawful F) (d : Params α) (y : α)
    (hp : pointMass F d = false) (h : regime F d = .nothing) : 0 ≤ cdf F d y ∧ cdf F d y ≤ 1 := by
  rw [cdf_nothing d y hp h, hF.n_cast, hF.n_cast]
  simpa using clip_mem (cdfRaw F d y) (0:α) 1 zero_le_one

theorem pdf_nonneg_series (hF : Lawful F) (d : Params α) (y : α)
    (hp : pointMass F d = false) (h : regime F d = .nothing) : 0 ≤ pdf F d y := by
  rw [pdf_nothing d y hp h, hF.n_cast]
  split_ifs with h1
  · simp
  · simpa using not_lt.mp h1

/-- `0 ≤ cdf ≤ 1` in every regime -/
theorem cdf_range (hF : Lawful F) (hR : RangeOK F) (d : Params α) (hab : d.a ≤ d.b) (ho : 0 ≤ d.o) (y : α) :
    0 ≤ cdf F d y ∧ cdf F d y ≤ 1 := by
  cases hp : pointMass F d
  · cases h : regime F d
    · -- noiseless: b − a > 0
      have hlt := (regime_noiseless_iff hF d).mp h
      have hw : 0 < d.b - d.a := by
        by_contra hc
        have : d.b - d.a = 0 := le_antisymm (not_lt.mp hc) (sub_nonneg.mpr hab)
        rw [this] at hlt; linarith
      obtain ⟨c1, c2⟩ := clip_mem y d.a d.b hab
      have hk : (0:α) ≤ F.n d.c / F.n 2 := by rw [hF.n_cast, hF.n_cast]; positivity
      rw [cdf_noiseless d y hp h]
      split_ifs
      · exact hR.pow01 _ _ (div_nonneg (by linarith) hw.le) ((div_le_one hw).mpr (by linarith)) hk
      · obtain ⟨p0, p1⟩ := hR.pow01 ((d.b - clip y d.a d.b) / (d.b - d.a)) _
          (div_nonneg (by linarith) hw.le) ((div_le_one hw).mpr (by linarith)) hk
        rw [hF.n_cast]; push_cast
        constructor <;> linarith
    · exact cdf_range_series hF d y hp h
    · rw [cdf_normal d y hp h]; exact hR.cdf01 _
  · rw [cdf_point d y hp, hF.n_cast, hF.n_cast]
    split_ifs <;> simp

/-- `pdf ≥ 0` in every regime -/
theorem pdf_nonneg (hF : Lawful F) (hR : RangeOK F) (d : Params α) (hab : d.a ≤ d.b) (ho : 0 ≤ d.o) (y : α) :
    0 ≤ pdf F d y := by
  cases hp : pointMass F d
  · cases h : regime F d
    · have hlt := (regime_noiseless_iff hF d).mp h
      have hw : 0 < d.b - d.a := by
        by_contra hc
        have : d.b - d.a = 0 := le_antisymm (not_lt.mp hc) (sub_nonneg.mpr hab)
        rw [this] at hlt; linarith
      have hc0 : (0:α) ≤ F.n d.c / (F.n 2 * (d.b - d.a)) := by
        rw [hF.n_cast, hF.n_cast]; positivity
      rw [pdf_noiseless d y hp h]
      split_ifs with h1 h2
      · rw [hF.n_cast]; simp
      · have hy : d.a ≤ y := by
          by_contra hc; exact h1 (Or.inl (not_le.mp hc))
        exact mul_nonneg hc0 (hR.pow0 _ _ (div_nonneg (by linarith) hw.le))
      · have hy : y ≤ d.b := by
          by_contra hc; exact h1 (Or.inr (not_le.mp hc))
        exact mul_nonneg hc0 (hR.pow0 _ _ (div_nonneg (by linarith) hw.le))
    · exact pdf_nonneg_series hF d y hp h
    · rw [pdf_normal d y hp h]; exact div_nonneg (hR.pdf0 _) (hR.sqrt0 _)
  · rw [pdf_point d y hp, hF.n_cast]
    split_ifs
    · exact hR.posInf0
    · simp

/-- value when `np.isinf(loc)` (i.e. `y = ±∞`): the partial moment is replaced by `0`, so the series
branch returns `clip (Φ(point))` -/
theorem cdf_infinite_loc (hF : Lawful F) (d : Params α) (y : α) (hp : pointMass F d = false)
    (h : regime F d = .nothing) (hinf : F.isInf (locOf d y) = true) :
    cdf F d y = clip (F.normalCdf (if d.convex then (y - d.b) / d.o else (y - d.a) / d.o)) 0 1 := by
  rw [cdf_nothing d y hp h, hF.n_cast, hF.n_cast]
  unfold cdfRaw partialMoment
  simp only [hinf, if_true, hF.n_cast]
  split_ifs <;> simp

theorem pdf_infinite_loc (hF : Lawful F) (d : Params α) (y : α) (hp : pointMass F d = false)
    (h : regime F d = .nothing) (hinf : F.isInf (locOf d y) = true) : pdf F d y = 0 := by
  rw [pdf_nothing d y hp h, hF.n_cast]
  unfold pdfRaw partialMoment
  simp only [hinf, if_true, hF.n_cast]
  simp

/-! ### C06-T6: degenerate supports -/

/-- `a = b`, `o > 0`: the law is exactly `Normal(a, o²)` as computed through `F` -/
theorem cdf_degenerate_normal (hF : Lawful F) (d : Params α) (hab : d.a = d.b) (ho : 0 < d.o) (y : α) :
    cdf F d y = F.normalCdf ((y - d.a) / F.sqrt (d.o * d.o)) := by
  obtain ⟨hr, hp⟩ := regime_degenerate hF d hab ho
  rw [cdf_normal d y hp hr]
  have hm : meanOf F d = d.a := by unfold meanOf; rw [hab]; split_ifs <;> simp
  have hv : varOf F d = d.o * d.o := by unfold varOf; rw [hab]; simp
  rw [hm, hv]

theorem pdf_degenerate_normal (hF : Lawful F) (d : Params α) (hab : d.a = d.b) (ho : 0 < d.o) (y : α) :
    pdf F d y = F.normalPdf ((y - d.a) / F.sqrt (d.o * d.o)) / F.sqrt (d.o * d.o) := by
  obtain ⟨hr, hp⟩ := regime_degenerate hF d hab ho
  rw [pdf_normal d y hp hr]
  have hm : meanOf F d = d.a := by unfold meanOf; rw [hab]; split_ifs <;> simp
  have hv : varOf F d = d.o * d.o := by unfold varOf; rw [hab]; simp
  rw [hm, hv]

/-- `a = b`, `o = 0`: point mass at `a` -/
theorem cdf_point_mass (hF : Lawful F) (d : Params α) (hab : d.a = d.b) (ho : d.o = 0) (y : α) :
    cdf F d y = if y < d.a then 0 else 1 := by
  rw [cdf_point d y ((pointMass_iff hF d).mpr ⟨hab, ho⟩), hF.n_cast, hF.n_cast]; simp

theorem pdf_point_mass (hF : Lawful F) (d : Params α) (hab : d.a = d.b) (ho : d.o = 0) (y : α) :
    pdf F d y = if y = d.a then F.posInf else 0 := by
  rw [pdf_point d y ((pointMass_iff hF d).mpr ⟨hab, ho⟩), hF.n_cast]
  by_cases h : y = d.a
  · rw [if_pos h, if_pos ((hF.eq_iff _ _).mpr h)]
  · rw [if_neg h, hF.eq_false h]; simp

/-! ### C07: ppf -/

theorem midpoint_eq (hF : Lawful F) : midpoint F = fun lo hi : α => (lo + hi) / 2 := by
  funext lo hi; unfold midpoint; rw [hF.n_cast]; norm_num

theorem bracket_le (hF : Lawful F) (d : Params α) (hab : d.a ≤ d.b) (ho : 0 ≤ d.o) :
    d.a - F.n 6 * d.o ≤ d.b + F.n 6 * d.o := by
  rw [hF.n_cast]; push_cast; nlinarith

/-- the bisection branch as an instance of `Bisect.run` -/
theorem ppfBisect_eq (hF : Lawful F) (d : Params α) (q : α) :
    ppfBisect F d q =
      ((Bisect.run (cdf F d) (fun lo hi => (lo + hi) / 2) q 30 (d.a - 6 * d.o, d.b + 6 * d.o)).1
        + (Bisect.run (cdf F d) (fun lo hi => (lo + hi) / 2) q 30 (d.a - 6 * d.o, d.b + 6 * d.o)).2) / 2 := by
  unfold ppfBisect
  rw [bisect_eq_run, midpoint_eq hF, hF.n_cast]
  norm_num

/-- **C07-T1** for the term the driver runs: the result of the 30-step bisection is non-decreasing in
`q` for an *arbitrary* cdf (arbitrary `pow`, `Φ`, `φ`, `cos`, table, …) — no monotonicity assumed. -/
theorem ppfBisect_mono (hF : Lawful F) (d : Params α) (hab : d.a ≤ d.b) (ho : 0 ≤ d.o) (q q' : α)
    (hq : q ≤ q') : ppfBisect F d q ≤ ppfBisect F d q' := by
  rw [ppfBisect_eq hF, ppfBisect_eq hF]
  have hb : d.a - 6 * d.o ≤ d.b + 6 * d.o := by nlinarith
  exact Bisect.result_monotone (cdf F d) (fun lo hi => (lo + hi) / 2) midOK_half q q' hq 30 _ _ hb

/-- **C07-T2**: bracket invariant and width with the code's constants (6σ on either side, 30 steps) -/
theorem ppfBisect_bracket (hF : Lawful F) (d : Params α) (hab : d.a ≤ d.b) (ho : 0 ≤ d.o) (q : α) :
    let br := bisect (cdf F d) (midpoint F) q 30 (d.a - F.n 6 * d.o, d.b + F.n 6 * d.o)
    d.a - 6 * d.o ≤ br.1 ∧ br.1 ≤ ppfBisect F d q ∧ ppfBisect F d q ≤ br.2 ∧ br.2 ≤ d.b + 6 * d.o
      ∧ br.2 - br.1 = (d.b - d.a + 12 * d.o) / 2 ^ 30 := by
  intro br
  have hb : d.a - 6 * d.o ≤ d.b + 6 * d.o := by nlinarith
  have hbr : br = Bisect.run (cdf F d) (fun lo hi => (lo + hi) / 2) q 30 (d.a - 6 * d.o, d.b + 6 * d.o) := by
    show bisect _ _ _ _ _ = _
    rw [bisect_eq_run, midpoint_eq hF, hF.n_cast]; norm_num
  have hin := Bisect.run_inside (cdf F d) (fun lo hi => (lo + hi) / 2) midOK_half q 30 _ _ hb
  have hw := run_width (cdf F d) q 30 (d.a - 6 * d.o) (d.b + 6 * d.o)
  rw [← hbr] at hin hw
  obtain ⟨h1, h2, h3⟩ := hin
  obtain ⟨m1, m2⟩ := midOK_half br.1 br.2 h2
  have hp : ppfBisect F d q = (br.1 + br.2) / 2 := by rw [ppfBisect_eq hF, ← hbr]
  refine ⟨h1, ?_, ?_, h3, ?_⟩
  · rw [hp]; exact m1
  · rw [hp]; exact m2
  · rw [hw]; ring

/-- **C07-T2'** (conditional accuracy) for the model's own cdf: if `cdf F d` is monotone and
`L`-Lipschitz on the bracket then `|cdf(ppf q) − q| ≤ L (b−a+12o)/2^30 + (how far q lies outside
[cdf(a−6o), cdf(b+6o)])`. -/
theorem ppfBisect_accuracy (hF : Lawful F) (d : Params α) (hab : d.a ≤ d.b) (ho : 0 ≤ d.o) (L q : α)
    (hmono : ∀ x y, d.a - 6 * d.o ≤ x → x ≤ y → y ≤ d.b + 6 * d.o → cdf F d x ≤ cdf F d y)
    (hlip : ∀ x y, d.a - 6 * d.o ≤ x → x ≤ y → y ≤ d.b + 6 * d.o → cdf F d y - cdf F d x ≤ L * (y - x)) :
    |cdf F d (ppfBisect F d q) - q| ≤ L * ((d.b - d.a + 12 * d.o) / 2 ^ 30)
      + max 0 (max (cdf F d (d.a - 6 * d.o) - q) (q - cdf F d (d.b + 6 * d.o))) := by
  have hb : d.a - 6 * d.o ≤ d.b + 6 * d.o := by nlinarith
  have := run_accuracy (cdf F d) L q 30 _ _ hb hmono hlip
  rw [ppfBisect_eq hF]
  have e : d.b + 6 * d.o - (d.a - 6 * d.o) = d.b - d.a + 12 * d.o := by ring
  rw [e] at this
  exact this

/-- unfolding `ppf` by regime -/
theorem ppf_point (d : Params α) (q : α) (hp : pointMass F d = true) : ppf F d q = d.a := by
  unfold ppf; simp only [hp, if_true]

theorem ppf_noiseless (d : Params α) (q : α) (hp : pointMass F d = false) (h : regime F d = .noiseless) :
    ppf F d q = if d.convex then d.a + (d.b - d.a) * F.pow (clip q (F.n 0) (F.n 1)) (F.n 2 / F.n d.c)
      else d.b - (d.b - d.a) * F.pow (F.n 1 - clip q (F.n 0) (F.n 1)) (F.n 2 / F.n d.c) := by
  unfold ppf; simp only [hp, h]; simp

theorem ppf_normal (d : Params α) (q : α) (hp : pointMass F d = false) (h : regime F d = .normal) :
    ppf F d q = meanOf F d + F.sqrt (varOf F d) * F.normalPpf (clip q (F.n 0) (F.n 1)) := by
  unfold ppf; simp only [hp, h]; simp

theorem ppf_nothing (hF : Lawful F) (d : Params α) (hab : d.a ≤ d.b) (q : α) (hp : pointMass F d = false)
    (h : regime F d = .nothing) :
    ppf F d q = if clip q 0 1 = 0 then F.negInf else if clip q 0 1 = 1 then F.posInf
      else ppfBisect F d (clip q 0 1) := by
  unfold ppf
  simp only [hp, h, clip_branch_unreachable hF d hab h]
  simp only [hF.n_cast, Nat.cast_zero, Nat.cast_one]
  by_cases h0 : clip q 0 1 = 0
  · simp [h0, hF.eq_self]
  · by_cases h1 : clip q 0 1 = 1
    · simp [h1, hF.eq_self, hF.eq_false (zero_ne_one (α := α)).symm]
    · simp [h0, h1, hF.eq_false h0, hF.eq_false h1]

/-- **C07-T3**: `ppf(0) = −∞`, `ppf(1) = +∞` when the noise is modelled by the series -/
theorem ppf_endpoints_series (hF : Lawful F) (d : Params α) (hab : d.a ≤ d.b) (hp : pointMass F d = false)
    (h : regime F d = .nothing) : ppf F d 0 = F.negInf ∧ ppf F d 1 = F.posInf := by
  rw [ppf_nothing hF d hab 0 hp h, ppf_nothing hF d hab 1 hp h]
  rw [clip_of_mem (0:α) 0 1 (le_refl _) zero_le_one, clip_of_mem (1:α) 0 1 zero_le_one (le_refl _)]
  simp

/-- **C07-T3**: `ppf(0) = a`, `ppf(1) = b` in the noiseless regime (which contains `o = 0 < b − a`),
for any `pow` with `0^k = 0` and `1^k = 1` -/
theorem ppf_endpoints_noiseless (hF : Lawful F) (d : Params α) (hp : pointMass F d = false)
    (h : regime F d = .noiseless) (hp0 : F.pow 0 (F.n 2 / F.n d.c) = 0) (hp1 : F.pow 1 (F.n 2 / F.n d.c) = 1) :
    ppf F d 0 = d.a ∧ ppf F d 1 = d.b := by
  rw [ppf_noiseless d 0 hp h, ppf_noiseless d 1 hp h]
  simp only [hF.n_cast, Nat.cast_zero, Nat.cast_one, Nat.cast_ofNat] at *
  rw [clip_of_mem (0:α) 0 1 (le_refl _) zero_le_one, clip_of_mem (1:α) 0 1 zero_le_one (le_refl _)]
  split_ifs <;> simp [hp0, hp1]

/-- `o = 0 < b − a` lies in the noiseless regime -/
theorem regime_zero_noise (hF : Lawful F) (d : Params α) (hab : d.a < d.b) (ho : d.o = 0) :
    regime F d = .noiseless ∧ pointMass F d = false := by
  constructor
  · rw [regime_noiseless_iff hF, ho]
    have : 0 < d.b - d.a := sub_pos.mpr hab
    positivity
  · rw [Bool.eq_false_iff, Ne, pointMass_iff hF]; intro h; exact hab.ne h.1

/-- **C07-T1, whole method**: in the series regime `ppf` is non-decreasing on all of its domain, including
the two explicit end-point values, as soon as they lie outside the bracket (`−∞ ≤ a−6o`, `b+6o ≤ +∞`). -/
theorem ppf_mono_series (hF : Lawful F) (d : Params α) (hab : d.a ≤ d.b) (hp : pointMass F d = false)
    (h : regime F d = .nothing) (hneg : F.negInf ≤ d.a - 6 * d.o) (hpos : d.b + 6 * d.o ≤ F.posInf)
    (q q' : α) (hq : q ≤ q') : ppf F d q ≤ ppf F d q' := by
  have ho : 0 ≤ d.o := (nothing_pos hF d hab h).1.le
  rw [ppf_nothing hF d hab q hp h, ppf_nothing hF d hab q' hp h]
  have hc := clip_mono q q' (0:α) 1 zero_le_one hq
  obtain ⟨a0, a1⟩ := clip_mem q (0:α) 1 zero_le_one
  obtain ⟨b0, b1⟩ := clip_mem q' (0:α) 1 zero_le_one
  have hin : ∀ x, F.negInf ≤ ppfBisect F d x ∧ ppfBisect F d x ≤ F.posInf := by
    intro x
    obtain ⟨i1, i2, i3, i4, _⟩ := ppfBisect_bracket hF d hab ho x
    exact ⟨hneg.trans (i1.trans i2), (i3.trans i4).trans hpos⟩
  have hnp : F.negInf ≤ F.posInf := (hin 0).1.trans (hin 0).2
  by_cases e0 : clip q 0 1 = 0
  · rw [if_pos e0]
    split_ifs
    · exact le_refl _
    · exact hnp
    · exact (hin _).1
  · have e0' : clip q' 0 1 ≠ 0 := fun e => e0 (le_antisymm (by rw [e] at hc; exact hc) a0)
    rw [if_neg e0, if_neg e0']
    by_cases e1' : clip q' 0 1 = 1
    · rw [if_pos e1']
      split_ifs
      · exact le_refl _
      · exact (hin _).2
    · have e1 : clip q 0 1 ≠ 1 := fun e => e1' (le_antisymm b1 (by rw [e] at hc; exact hc))
      rw [if_neg e1, if_neg e1']
      exact ppfBisect_mono hF d hab ho _ _ hc

end Opda.Noisy
