import OpdaProofs.EmpQtc
import OpdaProofs.ExtInst
/-!
C04: the quantile duality on the driver's value type `Ext` (negation `Ext.neg`), and a concrete sample showing that the
tie exclusion of `ppf_mirror` cannot be dropped.
-/
namespace Opda.Emp
open Opda.Wire

theorem ext_neg_strictAnti : StrictAnti Ext.neg := by
  intro x y h
  rw [Ext.lt_iff] at h ⊢
  cases x <;> cases y <;> simp_all [Ext.lt, Ext.neg]

theorem ext_neg_neg (x : Ext) : Ext.neg (Ext.neg x) = x := by
  cases x <;> simp [Ext.neg]

/-- at an exact tie between the level and a cdf value the duality fails, all other hypotheses holding -/
theorem ppf_mirror_fails_at_tie :
    let obs : List (Ext × ℚ) := [(Ext.fin 0, 1), (Ext.fin 1, 1)]
    NonNeg obs ∧ 0 < total obs ∧ (∀ p ∈ obs, Ext.fin 0 ≤ p.1 ∧ p.1 ≤ Ext.fin 1)
      ∧ cdf (support ⊥ ⊤ (Ext.fin 0) (Ext.fin 1) obs) (Ext.fin 0) = 1 / 2
      ∧ ppf (Ext.fin 0) (support ⊥ ⊤ (Ext.fin 0) (Ext.fin 1) obs) (1 / 2) = Ext.fin 0
      ∧ Ext.neg (ppf (Ext.neg (Ext.fin 1)) (support ⊥ ⊤ (Ext.neg (Ext.fin 1)) (Ext.neg (Ext.fin 0))
          (mapObs Ext.neg obs)) (1 - 1 / 2)) = Ext.fin 1 := by
  intro obs
  have hnn : NonNeg obs := by
    intro p hp
    simp only [obs, List.mem_cons, List.not_mem_nil, or_false] at hp
    rcases hp with rfl | rfl <;> norm_num
  have htot : 0 < total obs := by norm_num [obs, total]
  have hnn' : NonNeg (mapObs Ext.neg obs) := nonNeg_mapObs _ _ hnn
  have htot' : 0 < total (mapObs Ext.neg obs) := by rw [total_mapObs]; exact htot
  refine ⟨hnn, htot, ?_, ?_, ?_, ?_⟩
  · intro p hp
    simp only [obs, List.mem_cons, List.not_mem_nil, or_false] at hp
    rcases hp with rfl | rfl <;> simp [Ext.le_iff, Ext.lt]
  · rw [cdf_support]; norm_num [obs, weightLE, total, Ext.le_iff, Ext.lt]
  · apply le_antisymm _ (le_ppf _ _ _)
    rw [ppf_le_iff _ _ _ obs hnn htot _ (by norm_num) (by norm_num) le_rfl, cdf_support]
    norm_num [obs, weightLE, total, Ext.le_iff, Ext.lt]
  · have : ppf (Ext.neg (Ext.fin 1)) (support ⊥ ⊤ (Ext.neg (Ext.fin 1)) (Ext.neg (Ext.fin 0))
        (mapObs Ext.neg obs)) (1 - 1 / 2) = Ext.neg (Ext.fin 1) := by
      apply le_antisymm _ (le_ppf _ _ _)
      rw [ppf_le_iff _ _ _ _ hnn' htot' _ (by norm_num) (by norm_num) le_rfl, cdf_support]
      norm_num [obs, mapObs, weightLE, total, Ext.le_iff, Ext.lt, Ext.neg]
    rw [this]; simp [Ext.neg]

/-- `ppf_mirror` for the terms the driver evaluates (`Ext` values, `ℚ` weights, `Ext.neg`) -/
theorem ppf_mirror_ext (a b : Ext) (obs : List (Ext × ℚ)) (hn : NonNeg obs) (htot : 0 < total obs)
    (hbounds : ∀ p ∈ obs, a ≤ p.1 ∧ p.1 ≤ b)
    (l : ℚ) (hl0 : 0 < l) (hl1 : l < 1) (hnotie : ∀ y, cdf (support Ext.negInf Ext.posInf a b obs) y ≠ l) :
    ppf a (support Ext.negInf Ext.posInf a b obs) l
      = Ext.neg (ppf (Ext.neg b) (support Ext.negInf Ext.posInf (Ext.neg b) (Ext.neg a) (mapObs Ext.neg obs)) (1 - l)) :=
  ppf_mirror (E := Ext) Ext.neg ext_neg_strictAnti ext_neg_neg a b obs hn htot hbounds l hl0 hl1 hnotie

end Opda.Emp
