import Lean
/-!
`#opda_audit ns` lists every theorem of the *current file* whose name starts with `ns`, together with
the axioms its proof depends on (`Lean.collectAxioms`, the function behind `#print axioms`).
The check script parses these lines; anything outside {propext, Classical.choice, Quot.sound}
(in particular `sorryAx`, `Lean.ofReduceBool` and `Lean.trustCompiler`) fails the audit.
-/
open Lean Elab Command

namespace Opda.Audit

def allowed : List Name := [``propext, ``Classical.choice, ``Quot.sound]

elab "#opda_audit " ns:ident : command => do
  let env ← getEnv
  let nsName := ns.getId
  let mut names : Array Name := #[]
  for (n, ci) in env.constants.map₂.toList do
    if nsName.isPrefixOf n && !n.isInternalDetail then
      match ci with
      | .thmInfo _ => names := names.push n
      | _ => pure ()
  let sorted := names.qsort (fun a b => a.toString < b.toString)
  for n in sorted do
    let axs ← liftCoreM (collectAxioms n)
    let bad := axs.filter fun a => !allowed.contains a
    let axsS := ", ".intercalate (axs.toList.map toString)
    let verdict := if bad.isEmpty then "ok" else "BAD"
    logInfo m!"OBLIGATION {n} axioms=[{axsS}] {verdict}"

end Opda.Audit
