import OpdaModel.PolyCheck
import Mathlib.Analysis.SpecialFunctions.Pow.Real
import Mathlib.Analysis.SpecialFunctions.Sqrt
import Mathlib.Tactic

/-!
C19-T2 / C17-T4 / C18-T3: soundness of the integer Taylor-shift range checker and the bridge from
the integer certificate to `|p(x) − x^(m2/2)| ≤ bound` on a whole knot interval.
-/
namespace Opda.PolyCheck

/-- evaluation of an integer coefficient list (low degree first) at a real point -/
def evalR : List Int → ℝ → ℝ
  | [], _ => 0
  | c :: p, s => (c : ℝ) + s * evalR p s

/-- evaluation of a rational coefficient list at a real point -/
def evalQ : List ℚ → ℝ → ℝ
  | [], _ => 0
  | c :: p, s => (c : ℝ) + s * evalQ p s

theorem evalR_mulLin (s0 : Int) (q : List Int) (carry : Int) (u : ℝ) :
    evalR (mulLin s0 q carry) u = (carry : ℝ) + ((s0 : ℝ) + u) * evalR q u := by
  induction q generalizing carry with
  | nil => simp [mulLin, evalR]
  | cons x xs ih => simp only [mulLin, evalR, ih]; push_cast; ring

theorem evalR_shift (s0 : Int) (p : List Int) (u : ℝ) :
    evalR (shift s0 p) u = evalR p ((s0 : ℝ) + u) := by
  induction p with
  | nil => simp [shift, evalR]
  | cons c p ih =>
    simp only [shift]
    have h := evalR_mulLin s0 (shift s0 p) 0 u
    generalize hm : mulLin s0 (shift s0 p) 0 = m at h
    cases m with
    | nil => cases hq : shift s0 p <;> simp [hq, mulLin] at hm
    | cons hd tl =>
      simp only [evalR] at h ⊢
      rw [ih] at h
      push_cast at h ⊢
      linarith

theorem bound_spec (R : Int) (hR : 0 ≤ R) (A : List Int) (u : ℝ) (hu : |u| ≤ R) :
    |evalR A u| ≤ (bound R A : ℝ) := by
  induction A with
  | nil => simp [evalR, bound]
  | cons a as ih =>
    simp only [evalR, bound]
    push_cast
    calc |(a:ℝ) + u * evalR as u| ≤ |(a:ℝ)| + |u * evalR as u| := abs_add_le _ _
      _ = |(a:ℝ)| + |u| * |evalR as u| := by rw [abs_mul]
      _ ≤ |(a:ℝ)| + (R:ℝ) * (bound R as : ℝ) := by
          have := mul_le_mul hu ih (abs_nonneg _) (by exact_mod_cast hR)
          linarith
      _ = _ := by congr 1

theorem checkIv_sound (C : List Int) (B l r : Int) (h : checkIv C B l r = true)
    (s : ℝ) (hl : (l:ℝ) ≤ s) (hr : s ≤ (r:ℝ)) : |evalR C s| ≤ (B:ℝ) := by
  simp only [checkIv, Bool.and_eq_true, decide_eq_true_eq] at h
  obtain ⟨⟨hlr, hmR⟩, hb⟩ := h
  set m := (l + r) / 2 with hm
  set R := r - m with hRdef
  have hR0 : 0 ≤ R := by omega
  have hu : |s - (m:ℝ)| ≤ (R:ℝ) := by
    rw [abs_le]
    constructor
    · have : ((m - l : Int) : ℝ) ≤ (R : ℝ) := by exact_mod_cast hmR
      push_cast at this; linarith
    · have : ((R : Int) : ℝ) = (r:ℝ) - (m:ℝ) := by rw [hRdef]; push_cast; ring
      linarith
  have h1 := bound_spec R hR0 (shift m C) (s - m) hu
  rw [evalR_shift] at h1
  have : (m:ℝ) + (s - m) = s := by ring
  rw [this] at h1
  exact h1.trans (by exact_mod_cast hb)

/-- soundness of the subdivision certificate: every real `s` between the first and the last cut -/
theorem checkAll_sound (C : List Int) (B : Int) (l : Int) (rest : List Int) (hne : rest ≠ [])
    (h : checkAll C B (l :: rest) = true) (s : ℝ) (hl : (l:ℝ) ≤ s)
    (hr : s ≤ ((rest.getLast hne : Int) : ℝ)) : |evalR C s| ≤ (B:ℝ) := by
  induction rest generalizing l with
  | nil => exact absurd rfl hne
  | cons c2 rest2 ih =>
    simp only [checkAll, Bool.and_eq_true] at h
    by_cases hs : s ≤ (c2:ℝ)
    · exact checkIv_sound C B l c2 h.1 s hl hs
    · cases rest2 with
      | nil =>
        simp only [List.getLast_singleton] at hr
        exact absurd hr hs
      | cons c3 rest3 =>
        have hne' : (c3 :: rest3) ≠ [] := by simp
        apply ih c2 hne' h.2 (le_of_lt (not_le.mp hs))
        simpa [List.getLast_cons hne'] using hr

/-! ### bridge to `p(x) − x^(m2/2)` -/

theorem evalQ_interleave (cs : List ℚ) (t : ℝ) : evalQ (interleave cs) t = evalQ cs (t^2) := by
  induction cs with
  | nil => rfl
  | cons c rest ih => simp only [interleave, evalQ, ih]; push_cast; ring

theorem evalQ_subAt (k : ℕ) (l : List ℚ) (t : ℝ) : evalQ (subAt k l) t = evalQ l t - t^k := by
  induction k generalizing l with
  | zero => cases l <;> simp [subAt, evalQ] <;> ring
  | succ k ih =>
    cases l with
    | nil => simp only [subAt, evalQ, ih]; push_cast; simp [evalQ]; ring
    | cons c rest => simp only [subAt, evalQ, ih]; ring

theorem evalQ_gOf (cs : List ℚ) (m2 : ℕ) (t : ℝ) : evalQ (gOf cs m2) t = evalQ cs (t^2) - t^m2 := by
  unfold gOf; rw [evalQ_subAt, evalQ_interleave]

theorem evalQ_scaled (D : ℕ) (gq : List ℚ) (s : ℝ) :
    evalQ (scaled D gq) s = (2:ℝ)^((gq.length - 1) * D) * evalQ gq (s / 2^D) := by
  induction gq with
  | nil => simp [scaled, evalQ]
  | cons g rest ih =>
    simp only [scaled, evalQ, ih, List.length_cons, Nat.add_sub_cancel]
    push_cast
    cases rest with
    | nil => simp [evalQ]
    | cons g' rest' =>
      simp only [List.length_cons, Nat.add_sub_cancel]
      have h2 : (2:ℝ)^D ≠ 0 := pow_ne_zero _ (by norm_num)
      rw [show (rest'.length + 1) * D = rest'.length * D + D by ring, pow_add]
      field_simp

theorem evalR_of_scaleOK (D P : ℕ) (gq : List ℚ) (C : List Int) (h : scaleOK D P gq C = true) (s : ℝ) :
    evalR C s = (2:ℝ)^P * evalQ (scaled D gq) s := by
  simp only [scaleOK, decide_eq_true_eq] at h
  generalize scaled D gq = sg at h
  induction C generalizing sg with
  | nil =>
    cases sg with
    | nil => simp [evalR, evalQ]
    | cons a b => simp at h
  | cons c C ih =>
    cases sg with
    | nil => simp at h
    | cons a b =>
      simp only [List.map_cons, List.cons.injEq] at h
      obtain ⟨h1, h2⟩ := h
      simp only [evalR, evalQ, ih b h2]
      have : (c : ℝ) = (a : ℝ) * (2:ℝ)^P := by
        have := congrArg (fun q : ℚ => (q : ℝ)) h1
        simpa using this
      rw [this]; ring

theorem sqrt_pow_eq_rpow (x : ℝ) (hx : 0 ≤ x) (m2 : ℕ) : (Real.sqrt x)^m2 = x ^ ((m2 : ℝ) / 2) := by
  rw [Real.sqrt_eq_rpow, ← Real.rpow_natCast, ← Real.rpow_mul hx]
  congr 1; ring

/-- the bridge from a bound on the scaled integer polynomial over `[sl, sh]` (in `s = √x · 2^D`) to the bound on the piece -/
theorem piece_bound_of_range (cs : List ℚ) (m2 D P : ℕ) (C : List Int) (B sl sh : Int)
    (klo khi Bq : ℚ)
    (hscale : scaleOK D P (gOf cs m2) C = true)
    (hrange : ∀ s : ℝ, (sl : ℝ) ≤ s → s ≤ (sh : ℝ) → |evalR C s| ≤ (B : ℝ))
    (hsl0 : 0 ≤ sl) (hsl : ((sl : ℚ))^2 ≤ klo * 4^D)
    (hsh0 : 0 ≤ sh) (hsh : khi * 4^D ≤ ((sh : Int) : ℚ)^2)
    (hB : (B : ℚ) ≤ Bq * 2^(P + ((gOf cs m2).length - 1) * D))
    (x : ℝ) (hx1 : (klo : ℝ) ≤ x) (hx2 : x ≤ (khi : ℝ)) :
    |evalQ cs x - x ^ ((m2 : ℝ) / 2)| ≤ (Bq : ℝ) := by
  -- reals
  have hsl' : ((sl : ℝ))^2 ≤ (klo : ℝ) * 4^D := by exact_mod_cast hsl
  have hsh' : (khi : ℝ) * 4^D ≤ ((sh : Int) : ℝ)^2 := by exact_mod_cast hsh
  have hB' : (B : ℝ) ≤ (Bq : ℝ) * 2^(P + ((gOf cs m2).length - 1) * D) := by exact_mod_cast hB
  have h4 : (0:ℝ) < 4^D := by positivity
  have hklo : (0:ℝ) ≤ klo := by
    have : (0:ℝ) ≤ (klo : ℝ) * 4^D := le_trans (sq_nonneg _) hsl'
    exact nonneg_of_mul_nonneg_left this h4
  have hx0 : 0 ≤ x := le_trans hklo hx1
  set t := Real.sqrt x with ht
  have ht0 : 0 ≤ t := Real.sqrt_nonneg x
  have htt : t^2 = x := Real.sq_sqrt hx0
  set s := t * 2^D with hs
  have hs0 : 0 ≤ s := by positivity
  have hss : s^2 = x * 4^D := by
    rw [hs, mul_pow, htt, ← pow_mul, mul_comm D 2, pow_mul]; norm_num
  have hlow : (sl : ℝ) ≤ s := by
    have : (sl:ℝ)^2 ≤ s^2 := by rw [hss]; exact le_trans hsl' (by nlinarith)
    exact (pow_le_pow_iff_left₀ (by exact_mod_cast hsl0) hs0 (by norm_num)).mp this
  have hhigh : s ≤ ((sh : Int) : ℝ) := by
    have : s^2 ≤ ((sh : Int) : ℝ)^2 := by rw [hss]; exact le_trans (by nlinarith) hsh'
    exact (pow_le_pow_iff_left₀ hs0 (by exact_mod_cast hsh0) (by norm_num)).mp this
  have hmain := hrange s hlow hhigh
  rw [evalR_of_scaleOK D P _ C hscale, evalQ_scaled] at hmain
  have hsd : s / 2^D = t := by rw [hs]; field_simp
  rw [hsd, evalQ_gOf, htt, sqrt_pow_eq_rpow x hx0 m2] at hmain
  set K : ℝ := 2^(P + ((gOf cs m2).length - 1) * D) with hK
  have hKpos : 0 < K := by positivity
  have hfac : (2:ℝ)^P * (2^(((gOf cs m2).length - 1) * D) * (evalQ cs x - x ^ ((m2:ℝ)/2)))
      = K * (evalQ cs x - x ^ ((m2:ℝ)/2)) := by rw [hK, pow_add]; ring
  rw [hfac, abs_mul, abs_of_pos hKpos] at hmain
  have : K * |evalQ cs x - x ^ ((m2:ℝ)/2)| ≤ (Bq : ℝ) * K := le_trans hmain hB'
  have := le_of_mul_le_mul_left (by linarith [mul_comm (Bq:ℝ) K] : K * |evalQ cs x - x ^ ((m2:ℝ)/2)| ≤ K * (Bq:ℝ)) hKpos
  exact this


/-- **Piece bound**: from an accepted certificate to a bound that holds for *every* real `x` in the
knot interval `[klo, khi]`:  `|p(x) − x^(m2/2)| ≤ Bq`. -/
theorem piece_bound (cs : List ℚ) (m2 D P : ℕ) (C : List Int) (B sl : Int) (rest : List Int)
    (hne : rest ≠ []) (klo khi Bq : ℚ)
    (hscale : scaleOK D P (gOf cs m2) C = true)
    (hcert : checkAll C B (sl :: rest) = true)
    (hsl0 : 0 ≤ sl) (hsl : ((sl : ℚ))^2 ≤ klo * 4^D)
    (hsh0 : 0 ≤ rest.getLast hne) (hsh : khi * 4^D ≤ ((rest.getLast hne : Int) : ℚ)^2)
    (hB : (B : ℚ) ≤ Bq * 2^(P + ((gOf cs m2).length - 1) * D))
    (x : ℝ) (hx1 : (klo : ℝ) ≤ x) (hx2 : x ≤ (khi : ℝ)) :
    |evalQ cs x - x ^ ((m2 : ℝ) / 2)| ≤ (Bq : ℝ) :=
  piece_bound_of_range cs m2 D P C B sl (rest.getLast hne) klo khi Bq hscale
    (fun s h1 h2 => checkAll_sound C B sl rest hne hcert s h1 h2) hsl0 hsl hsh0 hsh hB x hx1 hx2

#print axioms piece_bound
end Opda.PolyCheck
