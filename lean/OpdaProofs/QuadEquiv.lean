import OpdaModel.Quadratic
import OpdaProofs.RealInst
import OpdaProofs.QuadDual
import OpdaProofs.QuadLaw
import OpdaProofs.QuadPdf
import Mathlib.Tactic

/-! C09 (noiseless class): reflection of pdf and both tuning curves; location–scale equivariance of
every method, by unfolding the polymorphic model at `ℝ`. -/
namespace Opda.Quad
open Opda Opda.Num

/-- the standard member `(0, 1, c, convex)` of the location–scale family of `d` -/
def std0 (d : Params ℝ) : Params ℝ := { a := 0, b := 1, c := d.c, convex := d.convex }

/-! ### reflection -/

/-- `D.pdf(y) = D'.pdf(−y)` -/
theorem pdf_reflect (d : Params ℝ) (hab : d.a < d.b) (y : ℝ) : pdf d y = pdf (reflect d) (-y) := by
  have hne : d.a ≠ d.b := ne_of_lt hab
  have hne' : -d.b ≠ -d.a := by intro h; exact hne (by linarith)
  unfold pdf pdfInside reflect
  simp only [eq_false_of_ne _ _ hne, eq_false_of_ne _ _ hne', Bool.false_eq_true, if_false]
  by_cases h1 : y < d.a
  · have : -d.a < -y := by linarith
    have h3 : ¬ (-y < -d.b) := by push Not; linarith
    simp [h1, this, h3]
  · by_cases h2 : d.b < y
    · have : -y < -d.b := by linarith
      simp [h1, h2, this]
    · have h3 : ¬ (-y < -d.b) := by push Not; linarith [not_lt.mp h2]
      have h4 : ¬ (-d.a < -y) := by push Not; linarith [not_lt.mp h1]
      simp only [h1, h2, h3, h4, if_false]
      cases d.convex <;> simp <;> ring_nf

theorem level_compl (m : Bool) (q nn : ℝ) : level (!m) (1 - q) nn = 1 - level m q nn := by
  unfold level
  cases m <;> simp

/-- every tuning curve of `D` for `minimize = m` at level `q` is minus the curve of `D'` for
`minimize = ¬m` at level `1 − q`; `minimize = None` on both sides is the same statement because
`D'.convex = ¬D.convex` -/
theorem qtc_reflect (d : Params ℝ) (nn q : ℝ) (m : Bool)
    (h0 : 0 ≤ level m q nn) (h1 : level m q nn ≤ 1) :
    quantileTuningCurve d nn q (some m) = - quantileTuningCurve (reflect d) nn (1 - q) (some (!m)) := by
  unfold quantileTuningCurve
  simp only [Option.getD_some]
  rw [level_compl, ppf_reflect d _ h0 h1]

theorem qtc_reflect_none (d : Params ℝ) (nn q : ℝ)
    (h0 : 0 ≤ level d.convex q nn) (h1 : level d.convex q nn ≤ 1) :
    quantileTuningCurve d nn q none = - quantileTuningCurve (reflect d) nn (1 - q) none := by
  have := qtc_reflect d nn q d.convex h0 h1
  unfold quantileTuningCurve at *
  simpa [reflect] using this

theorem avg_reflect (d : Params ℝ) (nn : ℝ) (m : Bool) :
    averageTuningCurve d nn (some m) = - averageTuningCurve (reflect d) nn (some (!m)) := by
  unfold averageTuningCurve reflect
  cases d.convex <;> cases m <;> simp <;> ring

theorem avg_reflect_none (d : Params ℝ) (nn : ℝ) :
    averageTuningCurve d nn none = - averageTuningCurve (reflect d) nn none := by
  unfold averageTuningCurve reflect
  cases d.convex <;> simp <;> ring

/-! ### location–scale equivariance -/

theorem clip_affine (a b z : ℝ) (hab : a < b) : clip (a + (b - a) * z) a b = a + (b - a) * clip z 0 1 := by
  have hba : 0 < b - a := sub_pos.mpr hab
  unfold clip
  by_cases h1 : z < 0
  · have : a + (b - a) * z < a := by nlinarith
    simp [h1, this]
  · by_cases h2 : 1 < z
    · have h3 : ¬ (a + (b - a) * z < a) := by push Not; nlinarith [not_lt.mp h1]
      have h4 : b < a + (b - a) * z := by nlinarith
      simp [h1, h2, h3, h4]
    · have h3 : ¬ (a + (b - a) * z < a) := by push Not; nlinarith [not_lt.mp h1]
      have h4 : ¬ (b < a + (b - a) * z) := by push Not; nlinarith [not_lt.mp h2]
      simp [h1, h2, h3, h4]

/-- `D.cdf(a + (b−a) z) = D₀.cdf(z)` -/
theorem cdf_affine (d : Params ℝ) (hab : d.a < d.b) (z : ℝ) :
    cdf d (d.a + (d.b - d.a) * z) = cdf (std0 d) z := by
  have hba : d.b - d.a ≠ 0 := (sub_pos.mpr hab).ne'
  unfold cdf std0
  simp only [eq_false_of_ne _ _ (ne_of_lt hab), eq_false_of_ne (0:ℝ) 1 (by norm_num), Bool.false_eq_true,
    if_false, clip_affine _ _ z hab]
  cases d.convex <;> simp <;> (congr 1; field_simp; try ring)

/-- `(b−a)·D.pdf(a + (b−a) z) = D₀.pdf(z)` -/
theorem pdf_affine (d : Params ℝ) (hab : d.a < d.b) (z : ℝ) :
    (d.b - d.a) * pdf d (d.a + (d.b - d.a) * z) = pdf (std0 d) z := by
  have hba : 0 < d.b - d.a := sub_pos.mpr hab
  unfold pdf pdfInside std0
  simp only [eq_false_of_ne _ _ (ne_of_lt hab), eq_false_of_ne (0:ℝ) 1 (by norm_num), Bool.false_eq_true,
    if_false]
  by_cases h1 : z < 0
  · have : d.a + (d.b - d.a) * z < d.a := by nlinarith
    simp [h1, this]
  · by_cases h2 : 1 < z
    · have h3 : ¬ (d.a + (d.b - d.a) * z < d.a) := by push Not; nlinarith [not_lt.mp h1]
      have h4 : d.b < d.a + (d.b - d.a) * z := by nlinarith
      simp [h1, h2, h3, h4]
    · have h3 : ¬ (d.a + (d.b - d.a) * z < d.a) := by push Not; nlinarith [not_lt.mp h1]
      have h4 : ¬ (d.b < d.a + (d.b - d.a) * z) := by push Not; nlinarith [not_lt.mp h2]
      simp only [h1, h2, h3, h4, if_false]
      have e1 : (d.a + (d.b - d.a) * z - d.a) / (d.b - d.a) = z := by field_simp; ring
      have e2 : (d.b - (d.a + (d.b - d.a) * z)) / (d.b - d.a) = 1 - z := by field_simp; ring
      cases d.convex <;> simp [e1, e2] <;> field_simp

/-- `D.ppf(q) = a + (b−a)·D₀.ppf(q)` (hence also `sample`, which is `ppf` of a uniform draw) -/
theorem ppf_affine (d : Params ℝ) (q : ℝ) : ppf d q = d.a + (d.b - d.a) * ppf (std0 d) q := by
  unfold ppf std0
  cases d.convex <;> simp <;> ring

theorem qtc_affine (d : Params ℝ) (nn q : ℝ) (mn : Option Bool) :
    quantileTuningCurve d nn q mn = d.a + (d.b - d.a) * quantileTuningCurve (std0 d) nn q mn := by
  unfold quantileTuningCurve
  rw [ppf_affine]
  rfl

theorem avg_affine (d : Params ℝ) (nn : ℝ) (mn : Option Bool) :
    averageTuningCurve d nn mn = d.a + (d.b - d.a) * averageTuningCurve (std0 d) nn mn := by
  unfold averageTuningCurve std0
  cases d.convex <;> cases (mn.getD _) <;> simp <;> ring

end Opda.Quad
