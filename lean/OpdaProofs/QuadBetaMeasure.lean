import OpdaModel.Quadratic
import OpdaProofs.RealInst
import OpdaProofs.QuadLaw
import OpdaProofs.QuadInv
import OpdaProofs.QuadPdf
import OpdaProofs.QuadBeta
import Mathlib.Probability.Distributions.Beta
import Mathlib.Analysis.SpecialFunctions.Integrals.Basic
import Mathlib.Tactic

/-! C05-T3 stated with Mathlib's own Beta distribution `ProbabilityTheory.betaMeasure`. -/
namespace Opda.Quad
open Opda Opda.Num MeasureTheory intervalIntegral Set ProbabilityTheory

theorem beta_right_one (α : ℝ) (hα : 0 < α) : ProbabilityTheory.beta α 1 = 1 / α := by
  unfold ProbabilityTheory.beta
  rw [Real.Gamma_one, Real.Gamma_add_one hα.ne']
  have := (Real.Gamma_pos_of_pos hα).ne'
  field_simp

theorem beta_left_one (α : ℝ) (hα : 0 < α) : ProbabilityTheory.beta 1 α = 1 / α := by
  unfold ProbabilityTheory.beta
  rw [Real.Gamma_one, add_comm, Real.Gamma_add_one hα.ne']
  have := (Real.Gamma_pos_of_pos hα).ne'
  field_simp

theorem betaPDF_right_one (α : ℝ) (hα : 0 < α) :
    betaPDF α 1 = (Ioo (0:ℝ) 1).indicator (fun t => ENNReal.ofReal (α * t ^ (α - 1))) := by
  funext x
  rw [betaPDF_eq]
  by_cases h : 0 < x ∧ x < 1
  · rw [if_pos h, indicator_of_mem (show x ∈ Ioo (0:ℝ) 1 from h), beta_right_one α hα]
    congr 1
    simp
  · rw [if_neg h, indicator_of_notMem (show x ∉ Ioo (0:ℝ) 1 from h)]
    simp

theorem betaPDF_left_one (α : ℝ) (hα : 0 < α) :
    betaPDF 1 α = (Ioo (0:ℝ) 1).indicator (fun t => ENNReal.ofReal (α * (1 - t) ^ (α - 1))) := by
  funext x
  rw [betaPDF_eq]
  by_cases h : 0 < x ∧ x < 1
  · rw [if_pos h, indicator_of_mem (show x ∈ Ioo (0:ℝ) 1 from h), beta_left_one α hα]
    congr 1
    simp
  · rw [if_neg h, indicator_of_notMem (show x ∉ Ioo (0:ℝ) 1 from h)]
    simp

/-- mass of `(-∞, z]` under a density `1_{(0,1)}·g` with `g ≥ 0` integrable on `(0,z]` -/
theorem withDensity_indicator_Iic (g : ℝ → ℝ) (z : ℝ) (hz0 : 0 ≤ z) (hz1 : z ≤ 1)
    (hg : IntervalIntegrable g volume 0 z) (hnn : ∀ t ∈ Ioc (0:ℝ) z, 0 ≤ g t) :
    (volume.withDensity ((Ioo (0:ℝ) 1).indicator (fun t => ENNReal.ofReal (g t)))) (Iic z)
      = ENNReal.ofReal (∫ t in (0:ℝ)..z, g t) := by
  rw [withDensity_apply _ measurableSet_Iic, ← lintegral_indicator measurableSet_Iic,
    indicator_indicator, lintegral_indicator (measurableSet_Iic.inter measurableSet_Ioo)]
  have hset : (Iic z ∩ Ioo (0:ℝ) 1 : Set ℝ) =ᵐ[volume] Ioc 0 z := by
    have h1 : (Iic z ∩ Ioo (0:ℝ) 1 : Set ℝ) =ᵐ[volume] (Iic z ∩ Ioc (0:ℝ) 1 : Set ℝ) :=
      (ae_eq_refl _).inter Ioo_ae_eq_Ioc
    have h2 : (Iic z ∩ Ioc (0:ℝ) 1 : Set ℝ) = Ioc 0 z := by
      ext x; simp only [mem_inter_iff, mem_Iic, mem_Ioc]
      constructor
      · rintro ⟨h, h0, _⟩; exact ⟨h0, h⟩
      · rintro ⟨h0, h⟩; exact ⟨h, h0, h.trans hz1⟩
    rw [← h2]; exact h1
  rw [setLIntegral_congr hset, integral_of_le hz0,
    ofReal_integral_eq_lintegral_ofReal ((intervalIntegrable_iff_integrableOn_Ioc_of_le hz0).mp hg)
      (ae_restrict_of_forall_mem measurableSet_Ioc hnn)]

/-- `Beta(α, 1)` distribution function on `[0,1]` is `z ↦ z^α` -/
theorem betaMeasure_right_one_Iic (α : ℝ) (hα : 0 < α) (z : ℝ) (hz0 : 0 ≤ z) (hz1 : z ≤ 1) :
    betaMeasure α 1 (Iic z) = ENNReal.ofReal (z ^ α) := by
  unfold betaMeasure
  rw [betaPDF_right_one α hα,
    withDensity_indicator_Iic (fun t => α * t ^ (α - 1)) z hz0 hz1
      ((intervalIntegrable_rpow' (by linarith)).const_mul _)
      (fun t ht => mul_nonneg hα.le (Real.rpow_nonneg ht.1.le _))]
  rw [intervalIntegral.integral_const_mul, integral_rpow (Or.inl (by linarith))]
  have h1 : α - 1 + 1 = α := by ring
  rw [h1, Real.zero_rpow hα.ne']
  congr 1; field_simp; ring

/-- `Beta(1, α)` distribution function on `[0,1]` is `z ↦ 1 − (1−z)^α` -/
theorem betaMeasure_left_one_Iic (α : ℝ) (hα : 0 < α) (z : ℝ) (hz0 : 0 ≤ z) (hz1 : z ≤ 1) :
    betaMeasure 1 α (Iic z) = ENNReal.ofReal (1 - (1 - z) ^ α) := by
  unfold betaMeasure
  have hint : IntervalIntegrable (fun t : ℝ => α * (1 - t) ^ (α - 1)) volume 0 z := by
    have h := (intervalIntegrable_rpow' (a := 1 - 0) (b := 1 - z) (r := α - 1) (by linarith))
    have h' := h.comp_sub_left 1
    simp only [sub_sub_cancel] at h'
    exact h'.const_mul α
  rw [betaPDF_left_one α hα,
    withDensity_indicator_Iic (fun t => α * (1 - t) ^ (α - 1)) z hz0 hz1 hint
      (fun t ht => mul_nonneg hα.le (Real.rpow_nonneg (by linarith [ht.2]) _))]
  rw [intervalIntegral.integral_const_mul,
    integral_comp_sub_left (fun s => s ^ (α - 1)) 1, integral_rpow (Or.inl (by linarith))]
  have h1 : α - 1 + 1 = α := by ring
  rw [h1, sub_zero, Real.one_rpow]
  congr 1; field_simp

/-- outside `[0,1]` the distribution function of a density supported on `(0,1)` is that of the clipped point -/
theorem withDensity_indicator_Iic_clip (f : ℝ → ENNReal) (z : ℝ) :
    (volume.withDensity ((Ioo (0:ℝ) 1).indicator f)) (Iic z)
      = (volume.withDensity ((Ioo (0:ℝ) 1).indicator f)) (Iic (clip z 0 1)) := by
  rw [withDensity_apply _ measurableSet_Iic, withDensity_apply _ measurableSet_Iic,
    ← lintegral_indicator measurableSet_Iic, ← lintegral_indicator measurableSet_Iic,
    indicator_indicator, indicator_indicator]
  have hset : (Iic z ∩ Ioo (0:ℝ) 1 : Set ℝ) = Iic (clip z 0 1) ∩ Ioo (0:ℝ) 1 := by
    ext x
    simp only [mem_inter_iff, mem_Iic, mem_Ioo]
    unfold clip
    split_ifs with h1 h2
    · constructor
      · rintro ⟨h, h0, _⟩; linarith
      · rintro ⟨h, h0, _⟩; linarith
    · constructor
      · rintro ⟨_, h0, h3⟩; exact ⟨h3.le, h0, h3⟩
      · rintro ⟨_, h0, h3⟩; exact ⟨by linarith, h0, h3⟩
    · rfl
  rw [hset]

theorem clip_std (d : Params ℝ) (hab : d.a < d.b) (y : ℝ) :
    clip ((y - d.a) / (d.b - d.a)) 0 1 = std d y := by
  have hba : 0 < d.b - d.a := sub_pos.mpr hab
  unfold std clip
  by_cases h1 : y < d.a
  · have : (y - d.a) / (d.b - d.a) < 0 := div_neg_of_neg_of_pos (by linarith) hba
    simp [h1, this]
  · by_cases h2 : d.b < y
    · have h3 : ¬ (y - d.a) / (d.b - d.a) < 0 := by
        push Not; exact div_nonneg (by linarith) hba.le
      have h4 : 1 < (y - d.a) / (d.b - d.a) := by rw [lt_div_iff₀ hba]; linarith
      simp [h1, h2, h3, h4, div_self hba.ne']
    · have h3 : ¬ (y - d.a) / (d.b - d.a) < 0 := by
        push Not; exact div_nonneg (by linarith) hba.le
      have h4 : ¬ 1 < (y - d.a) / (d.b - d.a) := by
        push Not; rw [div_le_one hba]; linarith
      simp [h1, h2, h3, h4]

/-- **T3**: the convex cdf is the `Beta(c/2, 1)` distribution function at `(y − a)/(b − a)` -/
theorem cdf_eq_betaMeasure_convex (d : Params ℝ) (hab : d.a < d.b) (hc : 0 < d.c) (hcv : d.convex = true)
    (y : ℝ) : betaMeasure ((d.c:ℝ) / 2) 1 (Iic ((y - d.a) / (d.b - d.a))) = ENNReal.ofReal (cdf d y) := by
  have hc' : (0:ℝ) < d.c := by exact_mod_cast hc
  have hα : (0:ℝ) < (d.c:ℝ) / 2 := by positivity
  obtain ⟨h0, h1⟩ := std_mem d hab y
  have hclip : betaMeasure ((d.c:ℝ) / 2) 1 (Iic ((y - d.a) / (d.b - d.a)))
      = betaMeasure ((d.c:ℝ) / 2) 1 (Iic (std d y)) := by
    unfold betaMeasure
    rw [betaPDF_right_one _ hα, withDensity_indicator_Iic_clip, clip_std d hab]
  rw [hclip, betaMeasure_right_one_Iic _ hα _ h0 h1]
  congr 1
  unfold cdf std
  simp only [eq_false_of_ne _ _ (ne_of_lt hab), Bool.false_eq_true, if_false, num_n, num_pow,
    Nat.cast_one, Nat.cast_ofNat, hcv, if_true]

/-- **T3**: the concave cdf is the `Beta(1, c/2)` distribution function at `(y − a)/(b − a)` -/
theorem cdf_eq_betaMeasure_concave (d : Params ℝ) (hab : d.a < d.b) (hc : 0 < d.c) (hcv : d.convex = false)
    (y : ℝ) : betaMeasure 1 ((d.c:ℝ) / 2) (Iic ((y - d.a) / (d.b - d.a))) = ENNReal.ofReal (cdf d y) := by
  have hc' : (0:ℝ) < d.c := by exact_mod_cast hc
  have hα : (0:ℝ) < (d.c:ℝ) / 2 := by positivity
  have hba : 0 < d.b - d.a := sub_pos.mpr hab
  obtain ⟨h0, h1⟩ := std_mem d hab y
  have hclip : betaMeasure 1 ((d.c:ℝ) / 2) (Iic ((y - d.a) / (d.b - d.a)))
      = betaMeasure 1 ((d.c:ℝ) / 2) (Iic (std d y)) := by
    unfold betaMeasure
    rw [betaPDF_left_one _ hα, withDensity_indicator_Iic_clip, clip_std d hab]
  rw [hclip, betaMeasure_left_one_Iic _ hα _ h0 h1]
  congr 1
  have h2 : 1 - std d y = (d.b - clip y d.a d.b) / (d.b - d.a) := by
    unfold std; field_simp; ring
  rw [h2]
  unfold cdf
  simp only [eq_false_of_ne _ _ (ne_of_lt hab), Bool.false_eq_true, if_false, num_n, num_pow,
    Nat.cast_one, Nat.cast_ofNat, hcv]

end Opda.Quad
