import Mathlib.Data.Finset.Powerset
import Mathlib.Combinatorics.Enumerative.Composition
import Mathlib.Algebra.BigOperators.Group.Finset.Basic
import Mathlib.Data.Nat.Choose.Basic
import Mathlib.Data.Real.Basic
import Mathlib.Tactic

/-!
C04-T4: the u-statistic weights `C(i,n) − C(i−1,n)` count the `n`-subsets whose best (largest-index)
element is the `i`-th order statistic, so `u_tuning_curve(n)` is the mean over all subsets of size `n`
of their best element.
-/
namespace Opda.UStat
open Finset

/-- sum over all `n`-subsets of `{0,…,N-1}` of `f (largest index in the subset)` -/
theorem sum_powersetCard_sup (f : ℕ → ℝ) (m N : ℕ) :
    ∑ S ∈ powersetCard (m+1) (range N), f (S.sup id) = ∑ j ∈ range N, (j.choose m : ℝ) * f j := by
  induction N with
  | zero =>
    have : powersetCard (m+1) (range 0) = (∅ : Finset (Finset ℕ)) := by
      apply powersetCard_eq_empty.mpr; simp
    rw [this]; simp
  | succ N ih =>
    have hN : N ∉ range N := by simp
    rw [range_add_one, powersetCard_succ_insert hN, sum_union, ih, sum_insert hN]
    · have himg : ∑ S ∈ (powersetCard m (range N)).image (insert N), f (S.sup id)
          = ∑ T ∈ powersetCard m (range N), f N := by
        rw [sum_image]
        · apply sum_congr rfl
          intro T hT
          have hTsub : T ⊆ range N := (mem_powersetCard.mp hT).1
          have : (insert N T).sup id = N := by
            rw [sup_insert]
            apply le_antisymm
            · apply sup_le (le_refl _)
              apply Finset.sup_le
              intro i hi
              exact (mem_range.mp (hTsub hi)).le
            · exact le_sup_left
          rw [this]
        · intro T hT T' hT' h
          have hT1 : N ∉ T := fun h => hN ((mem_powersetCard.mp hT).1 h)
          have hT2 : N ∉ T' := fun h => hN ((mem_powersetCard.mp hT').1 h)
          have := congrArg (fun S => S.erase N) h
          simpa [erase_insert hT1, erase_insert hT2] using this
      rw [himg, sum_const, card_powersetCard, card_range, nsmul_eq_mul]
      ring
    · -- disjointness: subsets of range N do not contain N
      rw [disjoint_left]
      intro S hS hS'
      obtain ⟨T, _, rfl⟩ := mem_image.mp hS'
      have : N ∈ range N := (mem_powersetCard.mp hS).1 (mem_insert_self N T)
      exact hN this

/-- the code's weights: `C(j+1, n) − C(j, n) = C(j, n−1)` for `n ≥ 1` (Pascal) -/
theorem weight_eq (j m : ℕ) : ((j+1).choose (m+1) : ℝ) - (j.choose (m+1) : ℝ) = (j.choose m : ℝ) := by
  rw [Nat.choose_succ_succ]; push_cast; ring

/-- **C04-T4**: for every `N`, every `1 ≤ n` and every value function `y` (non-decreasing in the
index, so that the best element of a subset is the one with the largest index),
`Σ_j [C(j+1,n) − C(j,n)] y_j = Σ_{|S|=n} y_{max S}`; dividing by `C(N,n)` gives the mean. -/
theorem u_stat (y : ℕ → ℝ) (m N : ℕ) :
    ∑ j ∈ range N, (((j+1).choose (m+1) : ℝ) - (j.choose (m+1) : ℝ)) * y j
      = ∑ S ∈ powersetCard (m+1) (range N), y (S.sup id) := by
  rw [sum_powersetCard_sup]
  apply sum_congr rfl
  intro j _
  rw [weight_eq]

#print axioms u_stat
end Opda.UStat
