import OpdaModel.NoisyFloat
import OpdaProofs.RealInst
import OpdaProofs.NoisyLogic
import OpdaProofs.NoisyReal
import OpdaProofs.QuadNoisyDual
import Mathlib.Probability.Distributions.Gaussian.Real
import Mathlib.Tactic

/-! The real instance `realFns` of the noisy model satisfies the symmetry hypotheses of C09:
`Φ(−x) = 1 − Φ(x)` (from `gaussianReal_map_neg` and absolute continuity), `φ(−x) = φ(x)`,
`√(k² v) = k √v`. -/
namespace Opda.Noisy
open MeasureTheory ProbabilityTheory Real
open scoped NNReal ENNReal

theorem Phi_neg (x : ℝ) : Phi (-x) = 1 - Phi x := by
  have h1 : (1:ℝ≥0) ≠ 0 := one_ne_zero
  have hmap : (gaussianReal 0 1).map (fun y => -y) = gaussianReal 0 1 := by
    rw [gaussianReal_map_neg]; simp
  have hA : gaussianReal 0 1 (Set.Iic (-x)) = gaussianReal 0 1 (Set.Ici x) := by
    conv_lhs => rw [← hmap]
    rw [Measure.map_apply (by fun_prop) measurableSet_Iic]
    congr 1; ext y; simp
  have hnull : gaussianReal 0 1 {x} = 0 := (gaussianReal_absolutelyContinuous 0 h1) (measure_singleton x)
  have hB : gaussianReal 0 1 (Set.Ici x) = 1 - gaussianReal 0 1 (Set.Iio x) := by
    rw [← Set.compl_Iio, prob_compl_eq_one_sub measurableSet_Iio]
  have hC : gaussianReal 0 1 (Set.Iio x) = gaussianReal 0 1 (Set.Iic x) :=
    measure_congr (Iio_ae_eq_Iic' hnull)
  unfold Phi
  rw [hA, hB, hC, ENNReal.toReal_sub_of_le prob_le_one ENNReal.one_ne_top]
  simp

theorem phiStd_neg (x : ℝ) : phiStd (-x) = phiStd x := by
  rw [phiStd_eq, phiStd_eq]; congr 2; ring

/-- the real instance is symmetric in `Φ` and `φ` -/
theorem realFns_symm (T : List (ℕ × List (Entry ℝ))) (ninf pinf : ℝ) : Symm (realFns T ninf pinf) :=
  { cdf_neg := Phi_neg
    pdf_neg := phiStd_neg }

/-- `Φ⁻¹(1−q) = −Φ⁻¹(q)` (only used by `ppf` in the `normal` regime) stays a hypothesis — it is the symmetry
of the black box `scipy.special.ndtri` -/
theorem realFns_symmPpf (T : List (ℕ × List (Entry ℝ))) (pinf : ℝ)
    (hppf : ∀ q, PhiInv (1 - q) = - PhiInv q) : SymmPpf (realFns T (-pinf) pinf) :=
  { ppf_compl := hppf
    inf_neg := rfl }

theorem realFns_sqrtScale (T : List (ℕ × List (Entry ℝ))) (ninf pinf : ℝ) : SqrtScale (realFns T ninf pinf) :=
  { sqrt_scale := fun k v hk => by
      show Real.sqrt (k * k * v) = k * Real.sqrt v
      rw [Real.sqrt_mul (mul_self_nonneg k), Real.sqrt_mul_self hk.le] }

end Opda.Noisy
