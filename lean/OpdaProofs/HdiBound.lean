import Mathlib.MeasureTheory.Integral.IntervalIntegral.Basic
import Mathlib.MeasureTheory.Integral.IntervalIntegral.FundThmCalculus
import Mathlib.Analysis.Calculus.Deriv.Pow
import Mathlib.Analysis.Calculus.Deriv.MeanValue
import Mathlib.Tactic

/-!
# C15-T2: optimality of highest-density intervals, in a form robust to approximate end points

* `level_bound` — weak duality: for a continuous density `f`, a level `T` and a near-level-set
  `x₁ ≤ x₂ ≤ y₂ ≤ y₁`, **every** interval `[u,v] ⊆ [0,1]` satisfies
  `∫_u^v f − T(v−u) ≤ ∫_{x₁}^{y₁} f − C₁(x₂−x₁) − T(y₂−x₂) − C₂(y₁−y₂)`;
  hence an interval of at least the mass of `[x₁,y₁]` has length at least
  `(y₂−x₂) + (C₁/T)(x₂−x₁) + (C₂/T)(y₁−y₂)`.  With exact end points (`x₁=x₂`, `y₁=y₂`, `f x₁ = f y₁ = T`)
  this is the classical statement "unimodal density + equal end densities ⇒ shortest".
* `g_mono`, `g_anti` — `s^α (1−s)^β` increases up to `α/(α+β)` and decreases after it.
-/
namespace Opda.Hdi
open MeasureTheory intervalIntegral Set

variable {f : ℝ → ℝ}

theorem seg_nonpos {g : ℝ → ℝ} (hg : Continuous g) {p q : ℝ} (hpq : p ≤ q)
    (h : p < q → ∀ s ∈ Icc p q, g s ≤ 0) : ∫ s in p..q, g s ≤ 0 := by
  rcases hpq.lt_or_eq with hlt | heq
  · have := integral_mono_on hpq (hg.intervalIntegrable (μ := volume) p q) (continuous_const.intervalIntegrable (μ := volume) p q)
      (h hlt) (g := fun _ => (0:ℝ))
    simpa using this
  · rw [heq, integral_same]

theorem seg_le {g : ℝ → ℝ} (hg : Continuous g) {A B p q : ℝ} (hAB : A ≤ B) (hpq : p ≤ q)
    (hin : p < q → A ≤ p ∧ q ≤ B) (hnn : ∀ s ∈ Icc A B, 0 ≤ g s) :
    ∫ s in p..q, g s ≤ ∫ s in A..B, g s := by
  rcases hpq.lt_or_eq with hlt | heq
  · obtain ⟨hA, hB⟩ := hin hlt
    have h1 : 0 ≤ ∫ s in A..p, g s := integral_nonneg hA fun s hs => hnn s ⟨hs.1, hs.2.trans (hpq.trans hB)⟩
    have h2 : 0 ≤ ∫ s in q..B, g s := integral_nonneg hB fun s hs => hnn s ⟨(hA.trans hpq).trans hs.1, hs.2⟩
    have e1 := integral_add_adjacent_intervals (hg.intervalIntegrable (μ := volume) A p) (hg.intervalIntegrable (μ := volume) p q)
    have e2 := integral_add_adjacent_intervals (hg.intervalIntegrable (μ := volume) A q) (hg.intervalIntegrable (μ := volume) q B)
    linarith
  · rw [heq, integral_same]; exact integral_nonneg hAB hnn

/-- **Level-set bound** (weak duality for the shortest interval of given mass).  `f ≥ 0` continuous,
level `T`, points `x₁ ≤ x₂ ≤ y₂ ≤ y₁` in `[0,1]`, constants `C₁, C₂ ≤ T` with `f ≤ T` on `[0,x₁]`
(if non-degenerate) and on `[y₁,1]` (if non-degenerate), `f ≥ C₁` on `[x₁,x₂]`, `f ≥ T` on `[x₂,y₂]`,
`f ≥ C₂` on `[y₂,y₁]`.  Then for **every** `[u,v] ⊆ [0,1]`:
`∫_u^v f − T (v−u) ≤ ∫_{x₁}^{y₁} f − C₁(x₂−x₁) − T(y₂−x₂) − C₂(y₁−y₂)`. -/
theorem level_bound (hf : Continuous f) (T C1 C2 x1 x2 y2 y1 : ℝ)
    (h0 : 0 ≤ x1) (h12 : x1 ≤ x2) (h23 : x2 ≤ y2) (h34 : y2 ≤ y1) (h41 : y1 ≤ 1)
    (hC1 : C1 ≤ T) (hC2 : C2 ≤ T)
    (hA : 0 < x1 → ∀ s ∈ Icc 0 x1, f s ≤ T) (hB : y1 < 1 → ∀ s ∈ Icc y1 1, f s ≤ T)
    (hC : ∀ s ∈ Icc x1 x2, C1 ≤ f s) (hD : ∀ s ∈ Icc x2 y2, T ≤ f s) (hE : ∀ s ∈ Icc y2 y1, C2 ≤ f s)
    (u v : ℝ) (hu : 0 ≤ u) (huv : u ≤ v) (hv : v ≤ 1) :
    (∫ s in u..v, f s) - T * (v - u)
      ≤ (∫ s in x1..y1, f s) - C1 * (x2 - x1) - T * (y2 - x2) - C2 * (y1 - y2) := by
  -- break points clamped into [u,v]
  set p1 := max u (min x1 v) with hp1
  set p2 := max u (min x2 v) with hp2
  set p3 := max u (min y2 v) with hp3
  set p4 := max u (min y1 v) with hp4
  have clamp_mono : ∀ a b : ℝ, a ≤ b → max u (min a v) ≤ max u (min b v) :=
    fun a b hab => max_le_max le_rfl (min_le_min hab le_rfl)
  have up1 : u ≤ p1 := le_max_left _ _
  have p12 : p1 ≤ p2 := clamp_mono _ _ h12
  have p23 : p2 ≤ p3 := clamp_mono _ _ h23
  have p34 : p3 ≤ p4 := clamp_mono _ _ h34
  have p4v : p4 ≤ v := max_le huv (min_le_right _ _)
  -- facts about clamps
  have cl_le : ∀ a : ℝ, ∀ s, s < max u (min a v) → u < s → s < a := by
    intro a s hs hus
    rcases lt_max_iff.mp hs with h | h
    · exact absurd h (not_lt.mpr hus.le)
    · exact lt_of_lt_of_le h (min_le_left _ _)
  have cl_ge : ∀ a : ℝ, ∀ s, max u (min a v) < s → s < v → a < s := by
    intro a s hs hsv
    have h1 : min a v < s := lt_of_le_of_lt (le_max_right _ _) hs
    rcases min_lt_iff.mp h1 with h | h
    · exact h
    · exact absurd h (not_lt.mpr hsv.le)
  let gT : ℝ → ℝ := fun s => f s - T
  let g1 : ℝ → ℝ := fun s => f s - C1
  let g2 : ℝ → ℝ := fun s => f s - C2
  have cT : Continuous gT := hf.sub continuous_const
  have c1 : Continuous g1 := hf.sub continuous_const
  have c2 : Continuous g2 := hf.sub continuous_const
  have ii : ∀ a b, IntervalIntegrable gT volume a b := fun a b => cT.intervalIntegrable a b
  -- split
  have split : ∫ s in u..v, gT s
      = (∫ s in u..p1, gT s) + (∫ s in p1..p2, gT s) + (∫ s in p2..p3, gT s)
        + (∫ s in p3..p4, gT s) + (∫ s in p4..v, gT s) := by
    rw [integral_add_adjacent_intervals (ii _ _) (ii _ _), integral_add_adjacent_intervals (ii _ _) (ii _ _),
      integral_add_adjacent_intervals (ii _ _) (ii _ _), integral_add_adjacent_intervals (ii _ _) (ii _ _)]
  -- piece 1
  have P1 : ∫ s in u..p1, gT s ≤ 0 := by
    apply seg_nonpos cT up1
    intro hlt s hs
    have hx1 : 0 < x1 := by
      have : u < x1 := by
        by_contra hcon
        have : p1 = u := by
          rw [hp1]; exact max_eq_left ((min_le_left _ _).trans (not_lt.mp hcon))
        linarith
      linarith
    have hp1x : p1 ≤ x1 := by
      rw [hp1]; exact max_le (by
        by_contra hcon
        have : p1 = u := by
          rw [hp1]; exact max_eq_left ((min_le_left _ _).trans (not_le.mp hcon).le)
        linarith) (min_le_left _ _)
    have := hA hx1 s ⟨hu.trans hs.1, hs.2.trans hp1x⟩
    show f s - T ≤ 0
    linarith
  -- piece 5
  have P5 : ∫ s in p4..v, gT s ≤ 0 := by
    apply seg_nonpos cT p4v
    intro hlt s hs
    have hy1v : y1 < v := by
      by_contra hcon
      have : min y1 v = v := min_eq_right (not_lt.mp hcon)
      have : p4 = v := by rw [hp4, this]; exact max_eq_right huv
      linarith
    have hp4y : y1 ≤ p4 := by
      rw [hp4]; exact le_max_of_le_right (le_min le_rfl hy1v.le)
    have := hB (by linarith) s ⟨hp4y.trans hs.1, hs.2.trans hv⟩
    show f s - T ≤ 0
    linarith
  -- containment of the middle pieces
  have inside : ∀ a b : ℝ, a ≤ b → max u (min a v) < max u (min b v) →
      a ≤ max u (min a v) ∧ max u (min b v) ≤ b := by
    intro a b hab hlt
    constructor
    · -- if min a v = v then left = max u v = v ≥ right, contradiction
      by_contra hcon
      have hcon' := not_le.mp hcon
      have h1 : min a v < a := lt_of_le_of_lt (le_max_right _ _) hcon'
      have h2 : min a v = v := by
        rcases min_lt_iff.mp h1 with h | h
        · exact absurd h (lt_irrefl _)
        · exact min_eq_right h.le
      have h3 : max u (min b v) ≤ v := max_le huv (min_le_right _ _)
      have h4 : v ≤ max u (min a v) := by rw [h2]; exact le_max_right _ _
      linarith
    · by_contra hcon
      have hcon' := not_le.mp hcon
      -- right > b ≥ min b v, so right = u ≤ left
      have h1 : max u (min b v) = u := by
        rcases le_total u (min b v) with h | h
        · rw [max_eq_right h] at hcon'
          exact absurd (min_le_left b v) (not_le.mpr hcon')
        · exact max_eq_left h
      have h2 : u ≤ max u (min a v) := le_max_left _ _
      linarith
  -- piece 2
  have P2 : ∫ s in p1..p2, gT s ≤ ∫ s in x1..x2, g1 s := by
    calc ∫ s in p1..p2, gT s ≤ ∫ s in p1..p2, g1 s :=
          integral_mono_on p12 (ii _ _) (c1.intervalIntegrable _ _) fun s _ => by
            show f s - T ≤ f s - C1; linarith
      _ ≤ ∫ s in x1..x2, g1 s :=
          seg_le c1 h12 p12 (fun hlt => inside x1 x2 h12 hlt) fun s hs => by
            show 0 ≤ f s - C1; linarith [hC s hs]
  have P3 : ∫ s in p2..p3, gT s ≤ ∫ s in x2..y2, gT s :=
    seg_le cT h23 p23 (fun hlt => inside x2 y2 h23 hlt) fun s hs => by
      show 0 ≤ f s - T; linarith [hD s hs]
  have P4 : ∫ s in p3..p4, gT s ≤ ∫ s in y2..y1, g2 s := by
    calc ∫ s in p3..p4, gT s ≤ ∫ s in p3..p4, g2 s :=
          integral_mono_on p34 (ii _ _) (c2.intervalIntegrable _ _) fun s _ => by
            show f s - T ≤ f s - C2; linarith
      _ ≤ ∫ s in y2..y1, g2 s :=
          seg_le c2 h34 p34 (fun hlt => inside y2 y1 h34 hlt) fun s hs => by
            show 0 ≤ f s - C2; linarith [hE s hs]
  -- evaluate
  have fi : ∀ a b, IntervalIntegrable f volume a b := fun a b => hf.intervalIntegrable a b
  have ci : ∀ (c a b : ℝ), IntervalIntegrable (fun _ : ℝ => c) volume a b :=
    fun c a b => continuous_const.intervalIntegrable a b
  have ev : ∀ (c a b : ℝ), ∫ s in a..b, (f s - c) = (∫ s in a..b, f s) - c * (b - a) := by
    intro c a b
    rw [integral_sub (fi a b) (ci c a b), intervalIntegral.integral_const, smul_eq_mul]; ring
  have e0 : ∫ s in u..v, gT s = (∫ s in u..v, f s) - T * (v - u) := ev T u v
  have e1 : ∫ s in x1..x2, g1 s = (∫ s in x1..x2, f s) - C1 * (x2 - x1) := ev C1 x1 x2
  have e2 : ∫ s in x2..y2, gT s = (∫ s in x2..y2, f s) - T * (y2 - x2) := ev T x2 y2
  have e3 : ∫ s in y2..y1, g2 s = (∫ s in y2..y1, f s) - C2 * (y1 - y2) := ev C2 y2 y1
  have tot : (∫ s in x1..x2, f s) + (∫ s in x2..y2, f s) + (∫ s in y2..y1, f s) = ∫ s in x1..y1, f s := by
    rw [integral_add_adjacent_intervals (fi _ _) (fi _ _), integral_add_adjacent_intervals (fi _ _) (fi _ _)]
  rw [← e0, split]
  linarith

/-- unnormalised Beta density with integer exponents -/
def g (α β : ℕ) (s : ℝ) : ℝ := s ^ α * (1 - s) ^ β

theorem g_hasDerivAt (α β : ℕ) (x : ℝ) :
    HasDerivAt (g α β) ((α : ℝ) * x ^ (α - 1) * (1 - x) ^ β + x ^ α * ((β : ℝ) * (1 - x) ^ (β - 1) * (0 - 1))) x := by
  have h1 := hasDerivAt_pow α x
  have h2 := ((hasDerivAt_const x (1:ℝ)).sub (hasDerivAt_id' x)).pow β
  have := h1.mul h2
  exact this

theorem g_continuous (α β : ℕ) : Continuous (g α β) := by unfold g; fun_prop

theorem g_nonneg (α β : ℕ) (s : ℝ) (h0 : 0 ≤ s) (h1 : s ≤ 1) : 0 ≤ g α β s := by
  unfold g; have : 0 ≤ 1 - s := by linarith
  positivity

/-- increasing up to the mode `α/(α+β)` -/
theorem g_mono (α β : ℕ) (hpos : 0 < α + β) : MonotoneOn (g α β) (Icc 0 ((α : ℝ) / ((α : ℝ) + β))) := by
  apply monotoneOn_of_deriv_nonneg (convex_Icc _ _) (g_continuous α β).continuousOn
  · intro x _; exact (g_hasDerivAt α β x).differentiableAt.differentiableWithinAt
  · intro x hx
    rw [interior_Icc] at hx
    obtain ⟨hx0, hxm⟩ := hx
    rw [(g_hasDerivAt α β x).deriv]
    have hden : (0 : ℝ) < (α : ℝ) + β := by exact_mod_cast hpos
    have hxm' : x * ((α : ℝ) + β) < α := (lt_div_iff₀ hden).mp hxm
    have h1x : 0 < 1 - x := by
      have : x * ((α : ℝ) + β) < (α : ℝ) + β := lt_of_lt_of_le hxm' (by
        have : (0:ℝ) ≤ β := Nat.cast_nonneg β
        linarith)
      have : x < 1 := by
        by_contra hcon
        have hx1 : 1 ≤ x := not_lt.mp hcon
        nlinarith
      linarith
    cases α with
    | zero =>
      exfalso
      simp only [Nat.cast_zero] at hxm'
      have : (0:ℝ) ≤ x * (0 + (β : ℝ)) := by positivity
      linarith
    | succ a =>
      cases β with
      | zero => simp; positivity
      | succ b =>
        simp only [Nat.add_sub_cancel]
        have e : ((a + 1 : ℕ) : ℝ) * x ^ a * (1 - x) ^ (b + 1) + x ^ (a + 1) * (((b + 1 : ℕ) : ℝ) * (1 - x) ^ b * (0 - 1))
            = x ^ a * (1 - x) ^ b * (((a + 1 : ℕ) : ℝ) * (1 - x) - ((b + 1 : ℕ) : ℝ) * x) := by ring
        rw [e]
        have : 0 ≤ ((a + 1 : ℕ) : ℝ) * (1 - x) - ((b + 1 : ℕ) : ℝ) * x := by nlinarith
        positivity

theorem g_reflect (α β : ℕ) (s : ℝ) : g α β s = g β α (1 - s) := by
  unfold g; rw [sub_sub_cancel]; ring

/-- decreasing after the mode -/
theorem g_anti (α β : ℕ) (hpos : 0 < α + β) : AntitoneOn (g α β) (Icc ((α : ℝ) / ((α : ℝ) + β)) 1) := by
  intro s hs s' hs' hss
  rw [g_reflect α β s, g_reflect α β s']
  have hden : (0 : ℝ) < (α : ℝ) + β := by exact_mod_cast hpos
  have hm : 1 - (α : ℝ) / ((α : ℝ) + β) = (β : ℝ) / ((β : ℝ) + α) := by
    have hden' : (0 : ℝ) < (β : ℝ) + α := by linarith
    rw [add_comm (β : ℝ) α, eq_div_iff hden.ne', sub_mul, one_mul, div_mul_cancel₀ _ hden.ne']
    ring
  apply g_mono β α (by omega)
  · exact ⟨by linarith [hs'.2], by rw [← hm]; linarith [hs'.1]⟩
  · exact ⟨by linarith [hs.2], by rw [← hm]; linarith [hs.1]⟩
  · linarith


#print axioms level_bound
#print axioms g_mono
end Opda.Hdi
