import OpdaModel.NoisyFloat
import OpdaProofs.NoisyLogic
import OpdaProofs.NoisyReal
import OpdaProofs.NoisySmooth
import Mathlib.MeasureTheory.Integral.IntervalIntegral.IntegrationByParts
import Mathlib.MeasureTheory.Integral.IntervalIntegral.FundThmCalculus
import Mathlib.Analysis.SpecialFunctions.Pow.Deriv
import Mathlib.Analysis.SpecialFunctions.Integrals.Basic
import Mathlib.Analysis.SpecialFunctions.Integrability.Basic
import Mathlib.Probability.Distributions.Gaussian.Real
import Mathlib.Tactic

/-!
C06-T2 (stage 3): the convolution identity behind the code's formula.

For `X` on `[0, 1]` with distribution function `x ↦ x^p` (`p = c/2`; the normalised noise-free law) and
independent noise `s·N`, conditioning on `X` gives the *mixture form* of the law of `X + s·N`:

    H(t) = ∫₀¹ Φ((t − x)/s) · p x^{p−1} dx .

Integration by parts (`u = Φ((t−x)/s)`, `v = x^p`) turns it into the formula the implementation evaluates,

    H(t) = Φ((t − 1)/s) + ∫₀¹ x^p dN(t, s²)(x) ,

for every real `p ≥ 1` (`c ≥ 2`).  Together with `partialMomentInt_eq` this gives, for even `c`, that the
model over `ℝ` returns exactly `H` (convex shape) in the series regime: Model = Spec.
-/
namespace Opda.Noisy
open MeasureTheory ProbabilityTheory intervalIntegral Real Set
open scoped NNReal ENNReal

theorem hasDerivAt_Phi (x : ℝ) : HasDerivAt Phi (phiStd x) x := by
  have h : ∀ y, Phi y = Phi 0 + ∫ t in (0:ℝ)..y, phiStd t := by
    intro y; rw [← Phi_sub]; ring
  have hd : HasDerivAt (fun y => ∫ t in (0:ℝ)..y, phiStd t) (phiStd x) x :=
    intervalIntegral.integral_hasDerivAt_right (continuous_phiStd.intervalIntegrable _ _)
      (continuous_phiStd.stronglyMeasurableAtFilter _ _) continuous_phiStd.continuousAt
  have := hd.const_add (Phi 0)
  exact this.congr_of_eventuallyEq (Filter.Eventually.of_forall h)

theorem continuous_Phi : Continuous Phi :=
  continuous_iff_continuousAt.mpr fun x => (hasDerivAt_Phi x).continuousAt

theorem phiStd_neg (x : ℝ) : phiStd (-x) = phiStd x := by
  rw [phiStd_eq, phiStd_eq]; congr 2; ring

/-- the mixture form of the law of `X + s·N` at `t` -/
noncomputable def mixture (p s t : ℝ) : ℝ := ∫ x in (0:ℝ)..1, Phi ((t - x) / s) * (p * x ^ (p - 1))

/-- **C06-T2 `conv_identity`** for every `p = c/2 > 0` (so also `c = 1`, where the density `½ x^{−½}` of the
noise-free law is singular at `0`) -/
theorem conv_identity (p s t : ℝ) (hp : 0 < p) (hs : 0 < s) :
    mixture p s t = Phi ((t - 1) / s) + ∫ x in (0:ℝ)..1, x ^ p * dens t s x := by
  unfold mixture
  have hcP : Continuous fun x : ℝ => Phi ((t - x) / s) := by
    have := continuous_Phi; fun_prop
  have hu : ∀ x ∈ Ioo (min (0:ℝ) 1) (max 0 1), HasDerivAt (fun x => Phi ((t - x) / s)) (-dens t s x) x := by
    intro x _
    have h1 : HasDerivAt (fun x : ℝ => (t - x) / s) (-1 / s) x := by
      have := ((hasDerivAt_id x).const_sub t).div_const s
      simpa using this
    have h2 := (hasDerivAt_Phi ((t - x) / s)).comp x h1
    refine h2.congr_deriv ?_
    unfold dens
    have : (x - t) / s = -((t - x) / s) := by field_simp; ring
    rw [this, phiStd_neg]; field_simp
  have hv : ∀ x ∈ Ioo (min (0:ℝ) 1) (max 0 1), HasDerivAt (fun x : ℝ => x ^ p) (p * x ^ (p - 1)) x := by
    intro x hx
    have hx0 : 0 < x := by
      have := hx.1; simpa using this
    exact Real.hasDerivAt_rpow_const (Or.inl hx0.ne')
  have hu' : IntervalIntegrable (fun x => -dens t s x) volume 0 1 :=
    (continuous_dens t s).neg.intervalIntegrable _ _
  have hv' : IntervalIntegrable (fun x : ℝ => p * x ^ (p - 1)) volume 0 1 :=
    (intervalIntegral.intervalIntegrable_rpow' (by linarith)).const_mul p
  have := intervalIntegral.integral_mul_deriv_eq_deriv_mul_of_hasDerivAt
    (u := fun x => Phi ((t - x) / s)) (v := fun x : ℝ => x ^ p)
    hcP.continuousOn (Real.continuous_rpow_const hp.le).continuousOn hu hv hu' hv'
  rw [this]
  have h0 : (0:ℝ) ^ p = 0 := Real.zero_rpow hp.ne'
  simp only [Real.one_rpow, mul_one, h0, mul_zero, sub_zero, neg_mul]
  rw [intervalIntegral.integral_neg, sub_neg_eq_add]
  congr 1
  exact intervalIntegral.integral_congr (fun x _ => mul_comm _ _)

/-- the mixture is a probability: `0 ≤ H ≤ 1` -/
theorem mixture_mem (p s t : ℝ) (hp : 0 < p) : 0 ≤ mixture p s t ∧ mixture p s t ≤ 1 := by
  unfold mixture
  have hcP : Continuous fun x : ℝ => Phi ((t - x) / s) := by
    have := continuous_Phi; fun_prop
  have hw : ∀ x ∈ Icc (0:ℝ) 1, 0 ≤ p * x ^ (p - 1) := fun x hx =>
    mul_nonneg hp.le (Real.rpow_nonneg hx.1 _)
  have hv' : IntervalIntegrable (fun x : ℝ => p * x ^ (p - 1)) volume 0 1 :=
    (intervalIntegral.intervalIntegrable_rpow' (by linarith)).const_mul p
  have htot : ∫ x in (0:ℝ)..1, p * x ^ (p - 1) = 1 := by
    rw [intervalIntegral.integral_const_mul, integral_rpow (Or.inl (by linarith))]
    have : p - 1 + 1 = p := by ring
    rw [this, Real.one_rpow, Real.zero_rpow hp.ne']
    field_simp
    ring
  have hint : IntervalIntegrable (fun x : ℝ => Phi ((t - x) / s) * (p * x ^ (p - 1))) volume 0 1 :=
    hv'.continuousOn_mul hcP.continuousOn
  constructor
  · apply intervalIntegral.integral_nonneg zero_le_one
    intro x hx
    exact mul_nonneg (Phi_nonneg _) (hw x hx)
  · refine le_trans ?_ htot.le
    apply intervalIntegral.integral_mono_on zero_le_one hint hv'
    intro x hx
    have := Phi_le_one ((t - x) / s)
    nlinarith [hw x hx]

variable (T : List (ℕ × List (Entry ℝ))) (ninf pinf : ℝ)

/-- **Model = Spec, even `c`, convex shape, series regime**: over `ℝ` the model's cdf *is* the mixture
`∫₀¹ Φ((loc − x)/scale) d(x^{c/2})`, the law of `Z + E` at `y` in normalised coordinates. -/
theorem cdf_even_convex_eq_mixture (d : Params ℝ) (k : ℕ) (hk : 1 ≤ k) (hc : d.c = 2 * k) (hcv : d.convex = true)
    (hab : d.a ≤ d.b) (hp : pointMass (realFns T ninf pinf) d = false)
    (h : regime (realFns T ninf pinf) d = .nothing) (y : ℝ) :
    cdf (realFns T ninf pinf) d y = mixture k (d.o / (d.b - d.a)) ((y - d.a) / (d.b - d.a)) := by
  obtain ⟨ho, hw⟩ := nothing_pos (realFns_lawful T ninf pinf) d hab h
  have hs : 0 < d.o / (d.b - d.a) := div_pos ho hw
  have hk' : (1:ℝ) ≤ k := by exact_mod_cast hk
  rw [cdf_even T ninf pinf d k hc hab hp h y]
  simp only [hcv, if_true]
  have hloc : locOf d y = (y - d.a) / (d.b - d.a) := by unfold locOf; simp [hcv]
  have hpt : (y - d.b) / d.o = ((y - d.a) / (d.b - d.a) - 1) / (d.o / (d.b - d.a)) := by
    field_simp; ring
  have hm := conv_identity k (d.o / (d.b - d.a)) ((y - d.a) / (d.b - d.a)) (by linarith) hs
  have hg : gmom ((y - d.a) / (d.b - d.a)) (d.o / (d.b - d.a)) 0 1 k
      = ∫ x in (0:ℝ)..1, x ^ (k:ℝ) * dens ((y - d.a) / (d.b - d.a)) (d.o / (d.b - d.a)) x := by
    unfold gmom
    exact intervalIntegral.integral_congr (fun x _ => by simp only [Real.rpow_natCast])
  rw [hloc, hpt, hg, ← hm]
  obtain ⟨m0, m1⟩ := mixture_mem k (d.o / (d.b - d.a)) ((y - d.a) / (d.b - d.a)) (by linarith)
  exact clip_of_mem _ 0 1 m0 m1


/-- symmetry of the standard normal: `Φ(−z) = 1 − Φ(z)` -/
theorem Phi_neg (z : ℝ) : Phi (-z) = 1 - Phi z := by
  have h1 : (1 : ℝ≥0) ≠ 0 := one_ne_zero
  have := nullSingletonClass_gaussianReal (μ := 0) h1
  have hm : (gaussianReal 0 1).map (fun x => -x) = gaussianReal 0 1 := by
    have := gaussianReal_map_neg (μ := 0) (v := 1)
    simpa using this
  have e1 : (gaussianReal 0 1) (Iic (-z)) = (gaussianReal 0 1) (Ici z) := by
    conv_lhs => rw [← hm]
    rw [Measure.map_apply measurable_neg measurableSet_Iic]
    congr 1
    ext x; simp
  have e2 : (gaussianReal 0 1) (Ici z) = 1 - (gaussianReal 0 1) (Iio z) := by
    rw [← compl_Iio, prob_compl_eq_one_sub measurableSet_Iio]
  have e3 : (gaussianReal 0 1) (Iio z) = (gaussianReal 0 1) (Iic z) := measure_congr Iio_ae_eq_Iic
  unfold Phi
  rw [e1, e2, e3, ENNReal.toReal_sub_of_le prob_le_one ENNReal.one_ne_top]
  simp

/-- **Model = Spec, even `c`, concave shape, series regime**: `cdf = 1 − H((b−y)/(b−a))`, the law of
`b − (b−a)X + E` at `y` (`P[b − wX + oN ≤ y] = 1 − P[X + sN' < (b−y)/w]`, `N' = −N`). -/
theorem cdf_even_concave_eq_mixture (d : Params ℝ) (k : ℕ) (hk : 1 ≤ k) (hc : d.c = 2 * k) (hcv : d.convex = false)
    (hab : d.a ≤ d.b) (hp : pointMass (realFns T ninf pinf) d = false)
    (h : regime (realFns T ninf pinf) d = .nothing) (y : ℝ) :
    cdf (realFns T ninf pinf) d y = 1 - mixture k (d.o / (d.b - d.a)) ((d.b - y) / (d.b - d.a)) := by
  obtain ⟨ho, hw⟩ := nothing_pos (realFns_lawful T ninf pinf) d hab h
  have hs : 0 < d.o / (d.b - d.a) := div_pos ho hw
  have hk' : (1:ℝ) ≤ k := by exact_mod_cast hk
  rw [cdf_even T ninf pinf d k hc hab hp h y]
  simp only [hcv, Bool.false_eq_true, if_false]
  have hloc : locOf d y = (d.b - y) / (d.b - d.a) := by unfold locOf; simp [hcv]
  have hpt : (y - d.a) / d.o = -(((d.b - y) / (d.b - d.a) - 1) / (d.o / (d.b - d.a))) := by
    field_simp; ring
  have hm := conv_identity k (d.o / (d.b - d.a)) ((d.b - y) / (d.b - d.a)) (by linarith) hs
  have hg : gmom ((d.b - y) / (d.b - d.a)) (d.o / (d.b - d.a)) 0 1 k
      = ∫ x in (0:ℝ)..1, x ^ (k:ℝ) * dens ((d.b - y) / (d.b - d.a)) (d.o / (d.b - d.a)) x := by
    unfold gmom
    exact intervalIntegral.integral_congr (fun x _ => by simp only [Real.rpow_natCast])
  rw [hloc, hpt, Phi_neg, hg]
  have e : 1 - Phi (((d.b - y) / (d.b - d.a) - 1) / (d.o / (d.b - d.a)))
        - ∫ x in (0:ℝ)..1, x ^ (k:ℝ) * dens ((d.b - y) / (d.b - d.a)) (d.o / (d.b - d.a)) x
      = 1 - mixture k (d.o / (d.b - d.a)) ((d.b - y) / (d.b - d.a)) := by rw [hm]; ring
  rw [e]
  obtain ⟨m0, m1⟩ := mixture_mem k (d.o / (d.b - d.a)) ((d.b - y) / (d.b - d.a)) (by linarith)
  exact clip_of_mem _ 0 1 (by linarith) (by linarith)


/-- **odd `c` (including `c = 1`), convex shape, series regime**: if the selected pieces tile `[0, 1]` and each polynomial is
within `ε` of `x^{c/2}` on its piece (C19 certifies `ε ≤ 1.02·max_error` for the shipped table), the model's
cdf over `ℝ` is within `ε` of the Spec `H(loc)`.  (This is the *provable* uniform bound; the implementation's
real accuracy, 2.5e-5, is better than `ε` for some entries and is a numerical fact.) -/
theorem cdf_odd_convex_error (d : Params ℝ) (k : ℕ) (hc : d.c = 2 * k + 1) (hcv : d.convex = true)
    (hab : d.a ≤ d.b) (hp : pointMass (realFns T ninf pinf) d = false)
    (h : regime (realFns T ninf pinf) d = .nothing) (y ε : ℝ) (hε0 : 0 ≤ ε)
    (hchain : ChainFrom 0
      (((approxCoeffs (realFns T ninf pinf) (locOf d y) (d.o / (d.b - d.a)) ((2 * k + 1 : ℕ) : ℤ)).1.zip
        (approxCoeffs (realFns T ninf pinf) (locOf d y) (d.o / (d.b - d.a)) ((2 * k + 1 : ℕ) : ℤ)).1.tail).zip
        (approxCoeffs (realFns T ninf pinf) (locOf d y) (d.o / (d.b - d.a)) ((2 * k + 1 : ℕ) : ℤ)).2) 1)
    (hε : ∀ pc ∈ (((approxCoeffs (realFns T ninf pinf) (locOf d y) (d.o / (d.b - d.a)) ((2 * k + 1 : ℕ) : ℤ)).1.zip
        (approxCoeffs (realFns T ninf pinf) (locOf d y) (d.o / (d.b - d.a)) ((2 * k + 1 : ℕ) : ℤ)).1.tail).zip
        (approxCoeffs (realFns T ninf pinf) (locOf d y) (d.o / (d.b - d.a)) ((2 * k + 1 : ℕ) : ℤ)).2),
      ∀ x ∈ Set.Icc pc.1.1 pc.1.2, |x ^ (((2 * k + 1 : ℕ) : ℝ) / 2) - polyEval pc.2 0 x| ≤ ε) :
    |cdf (realFns T ninf pinf) d y
        - mixture (((2 * k + 1 : ℕ) : ℝ) / 2) (d.o / (d.b - d.a)) ((y - d.a) / (d.b - d.a))| ≤ ε := by
  obtain ⟨ho, hw⟩ := nothing_pos (realFns_lawful T ninf pinf) d hab h
  have hs : 0 < d.o / (d.b - d.a) := div_pos ho hw
  have hp1 : (0:ℝ) < ((2 * k + 1 : ℕ) : ℝ) / 2 := by positivity
  have hloc : locOf d y = (y - d.a) / (d.b - d.a) := by unfold locOf; simp [hcv]
  have hpt : (y - d.b) / d.o = ((y - d.a) / (d.b - d.a) - 1) / (d.o / (d.b - d.a)) := by
    field_simp; ring
  have hm := conv_identity (((2 * k + 1 : ℕ) : ℝ) / 2) (d.o / (d.b - d.a)) ((y - d.a) / (d.b - d.a)) hp1 hs
  obtain ⟨m0, m1⟩ := mixture_mem (((2 * k + 1 : ℕ) : ℝ) / 2) (d.o / (d.b - d.a)) ((y - d.a) / (d.b - d.a)) hp1
  have hcont : Continuous fun x : ℝ => x ^ (((2 * k + 1 : ℕ) : ℝ) / 2) := Real.continuous_rpow_const hp1.le
  have herr := chain_error_le (locOf d y) (d.o / (d.b - d.a)) ε hs hε0 _ hcont 0 1 _ hchain hε
  rw [cdf_nothing d y hp h]
  unfold cdfRaw
  simp only [hcv, if_true]
  rw [hc, partialMoment_odd T ninf pinf _ _ hs k]
  show |clip _ ((0:ℕ):ℝ) ((1:ℕ):ℝ) - _| ≤ ε
  simp only [Nat.cast_zero, Nat.cast_one]
  have hclipm := clip_of_mem _ 0 1 m0 m1
  rw [← hclipm]
  refine (clip_lipschitz _ _ 0 1 zero_le_one).trans ?_
  show |Phi ((y - d.b) / d.o) + _ - _| ≤ ε
  rw [hm, hpt, hloc] at *
  rw [abs_sub_comm] at herr
  have e : ∀ A B C : ℝ, A + B - (A + C) = B - C := by intros; ring
  rw [e]
  exact herr


/-- the mixture form of the *density* of `X + s·N` at `t`: `h(t) = ∫₀¹ dN(t, s²)(x) · p x^{p−1} dx` -/
noncomputable def mixtureDensity (p s t : ℝ) : ℝ := ∫ x in (0:ℝ)..1, dens t s x * (p * x ^ (p - 1))

/-- **Model = Spec for the density, even `c ≥ 2`** (series regime, both shapes): `(b−a)·pdf(y) = h(loc)`, the
mixture density with `p = c/2` — the final clip at `0` never acts. -/
theorem pdf_even_eq_mixtureDensity (d : Params ℝ) (k : ℕ) (hc : d.c = 2 * k + 2) (hab : d.a ≤ d.b)
    (hp : pointMass (realFns T ninf pinf) d = false) (h : regime (realFns T ninf pinf) d = .nothing) (y : ℝ) :
    (d.b - d.a) * pdf (realFns T ninf pinf) d y = mixtureDensity (k + 1) (d.o / (d.b - d.a)) (locOf d y) := by
  obtain ⟨ho, hw⟩ := nothing_pos (realFns_lawful T ninf pinf) d hab h
  have hs : 0 < d.o / (d.b - d.a) := div_pos ho hw
  rw [pdf_even T ninf pinf d k hc hab hp h y]
  have hg0 : 0 ≤ gmom (locOf d y) (d.o / (d.b - d.a)) 0 1 k := by
    unfold gmom
    apply intervalIntegral.integral_nonneg zero_le_one
    intro x hx
    exact mul_nonneg (pow_nonneg hx.1 k) (dens_nonneg _ _ hs x)
  have hc0 : (0:ℝ) ≤ (d.c : ℝ) / (2 * (d.b - d.a)) := by positivity
  rw [max_eq_right (mul_nonneg hc0 hg0)]
  unfold mixtureDensity gmom
  have e : ∀ x : ℝ, dens (locOf d y) (d.o / (d.b - d.a)) x * (((k:ℝ) + 1) * x ^ ((k:ℝ) + 1 - 1))
      = ((k:ℝ) + 1) * (x ^ k * dens (locOf d y) (d.o / (d.b - d.a)) x) := by
    intro x
    have : (k:ℝ) + 1 - 1 = (k:ℝ) := by ring
    rw [this, Real.rpow_natCast]; ring
  simp only [e]
  rw [intervalIntegral.integral_const_mul, hc]
  push_cast
  field_simp

end Opda.Noisy
