import OpdaModel.Approx
import OpdaProofs.DVP
import OpdaProofs.Lagrange
import OpdaProofs.PolyQ
import Mathlib.Topology.Instances.ENNReal.Lemmas
import Mathlib.Tactic

/-!
C17 Spec: the minimax (best uniform) error of degree-`n` polynomial approximation of `f` on `[l, r]`,
as an extended non-negative real (so that no boundedness side conditions are needed), with its order
properties; and soundness of the de la Vallée-Poussin alternation checker `Remez.checkAlt`.
-/
namespace Opda.Minimax
open Polynomial

/-- `sup_{x ∈ [l,r]} |f x − q x|` -/
noncomputable def supErr (f : ℝ → ℝ) (q : ℝ[X]) (l r : ℝ) : ENNReal :=
  ⨆ x ∈ Set.Icc l r, ENNReal.ofReal |f x - q.eval x|

/-- `E_n(f; [l,r]) = inf_{deg q ≤ n} sup_{x ∈ [l,r]} |f x − q x|` -/
noncomputable def minimaxErr (n : ℕ) (f : ℝ → ℝ) (l r : ℝ) : ENNReal :=
  ⨅ q : ℝ[X], ⨅ _ : q.natDegree ≤ n, supErr f q l r

theorem le_supErr (f : ℝ → ℝ) (q : ℝ[X]) (l r x : ℝ) (hx : x ∈ Set.Icc l r) :
    ENNReal.ofReal |f x - q.eval x| ≤ supErr f q l r :=
  le_iSup₂ (f := fun x (_ : x ∈ Set.Icc l r) => ENNReal.ofReal |f x - q.eval x|) x hx

/-- lower bounds: a witness point for every competitor -/
theorem le_minimaxErr (n : ℕ) (f : ℝ → ℝ) (l r e : ℝ)
    (h : ∀ q : ℝ[X], q.natDegree ≤ n → ∃ x, l ≤ x ∧ x ≤ r ∧ e ≤ |f x - q.eval x|) :
    ENNReal.ofReal e ≤ minimaxErr n f l r := by
  refine le_iInf₂ fun q hq => ?_
  obtain ⟨x, h1, h2, he⟩ := h q hq
  exact (ENNReal.ofReal_le_ofReal he).trans (le_supErr f q l r x ⟨h1, h2⟩)

/-- upper bounds: one polynomial with a uniform bound -/
theorem minimaxErr_le (n : ℕ) (f : ℝ → ℝ) (l r B : ℝ) (p : ℝ[X]) (hp : p.natDegree ≤ n)
    (h : ∀ x, l ≤ x → x ≤ r → |f x - p.eval x| ≤ B) :
    minimaxErr n f l r ≤ ENNReal.ofReal B :=
  iInf₂_le_of_le p hp (iSup₂_le fun x hx => ENNReal.ofReal_le_ofReal (h x hx.1 hx.2))

/-- the minimax error grows with the interval (sup over a superset) -/
theorem minimaxErr_mono_interval (n : ℕ) (f : ℝ → ℝ) (l r l' r' : ℝ) (hl : l' ≤ l) (hr : r ≤ r') :
    minimaxErr n f l r ≤ minimaxErr n f l' r' := by
  refine iInf₂_mono fun q _ => ?_
  exact biSup_mono fun x hx => Set.Icc_subset_Icc hl hr hx

/-- the minimax error is non-increasing in the degree (inf over a superset) -/
theorem minimaxErr_antitone_degree (n m : ℕ) (hnm : n ≤ m) (f : ℝ → ℝ) (l r : ℝ) :
    minimaxErr m f l r ≤ minimaxErr n f l r :=
  le_iInf₂ fun q hq => iInf₂_le q (hq.trans hnm)

/-- a polynomial of degree `≤ n` is fitted exactly -/
theorem minimaxErr_poly (n : ℕ) (p : ℝ[X]) (hp : p.natDegree ≤ n) (l r : ℝ) :
    minimaxErr n (fun x => p.eval x) l r = 0 := by
  refine le_antisymm ?_ bot_le
  have := minimaxErr_le n (fun x => p.eval x) l r 0 p hp (fun x _ _ => by simp)
  simpa using this

end Opda.Minimax

namespace Opda.Remez
open Polynomial Opda.Lagr Finset

theorem neg_one_pow_eq (i : ℕ) : ((-1 : ℝ)) ^ i = if i % 2 = 0 then 1 else -1 := by
  split_ifs with h
  · exact Even.neg_one_pow (Nat.even_iff.mpr h)
  · exact Odd.neg_one_pow (Nat.odd_iff.mpr (by omega))

theorem natDegree_interpolate_le (n : ℕ) (v r : ℕ → ℝ) (hv : Set.InjOn v (range (n + 1) : Finset ℕ)) :
    (Lagrange.interpolate (range (n + 1)) v r).natDegree ≤ n := by
  by_cases h0 : Lagrange.interpolate (range (n + 1)) v r = 0
  · rw [h0]; simp
  · have := degree_lt (n + 1) v r hv
    have h2 := (Polynomial.natDegree_lt_iff_degree_lt h0).mpr this
    omega

set_option linter.unusedSimpArgs false in
/-- **Soundness of the alternation checker** (de la Vallée-Poussin): if `checkAlt` accepts the code's
reference `rs`, the defining values `pv` of its polynomial and rational enclosures `flo ≤ f(r_i) ≤ fhi`,
then for **every** real function `f` inside the enclosures and **every** real polynomial `q` of degree
`≤ n` there is a point of `[a,b]` where `|f − q| ≥ e`. -/
theorem checkAlt_sound (n : ℕ) (a b : ℚ) (rs pv flo fhi : List ℚ) (e : ℚ) (sgn : Bool)
    (h : checkAlt n a b rs pv flo fhi e sgn = true)
    (f : ℝ → ℝ)
    (hf : ∀ i, i < n + 2 → ((getR flo i : ℚ) : ℝ) ≤ f (getR rs i) ∧ f (getR rs i) ≤ ((getR fhi i : ℚ) : ℝ))
    (q : ℝ[X]) (hq : q.natDegree ≤ n) :
    ∃ x : ℝ, (a : ℝ) ≤ x ∧ x ≤ (b : ℝ) ∧ (e : ℝ) ≤ |f x - q.eval x| := by
  simp only [checkAlt, Bool.and_eq_true, decide_eq_true_eq] at h
  obtain ⟨⟨⟨⟨_, ha⟩, hb⟩, hinc⟩, halt⟩ := h
  rw [allTo_iff] at hinc halt
  -- the reference as a strictly increasing family of reals
  let x : Fin (n + 2) → ℝ := fun i => ((getR rs i : ℚ) : ℝ)
  have hx : StrictMono x := by
    apply Fin.strictMono_iff_lt_succ.mpr
    intro i
    have := hinc i i.isLt
    simp only [decide_eq_true_eq] at this
    show ((getR rs (i.castSucc : Fin (n+2)) : ℚ) : ℝ) < ((getR rs (i.succ : Fin (n+2)) : ℚ) : ℝ)
    simp only [Fin.val_castSucc, Fin.val_succ]
    exact_mod_cast this
  have hmonoQ : ∀ i j, i < j → j < n + 2 → getR rs i < getR rs j := by
    intro i j hij hj
    have h3 : ((getR rs i : ℚ) : ℝ) < ((getR rs j : ℚ) : ℝ) :=
      hx (a := ⟨i, by omega⟩) (b := ⟨j, hj⟩) (by simpa using hij)
    exact_mod_cast h3
  have hv : Set.InjOn (getR rs) (range (n + 1) : Finset ℕ) := by
    intro i hi j hj hij
    simp only [coe_range, Set.mem_Iio] at hi hj
    by_contra hne
    rcases Nat.lt_or_gt_of_ne hne with hlt | hgt
    · exact absurd hij (ne_of_lt (hmonoQ i j hlt (by omega)))
    · exact absurd hij.symm (ne_of_lt (hmonoQ j i hgt (by omega)))
  -- the polynomial defined by the code's output
  set P : ℝ[X] := Lagrange.interpolate (range (n + 1)) (fun i => ((getR rs i : ℚ) : ℝ))
    (fun i => ((getR pv i : ℚ) : ℝ)) with hP
  have hPdeg : P.natDegree ≤ n :=
    natDegree_interpolate_le n _ (fun i => ((getR pv i : ℚ) : ℝ)) (cast_injOn (n + 1) _ hv)
  set σ : ℝ := if sgn then 1 else -1 with hσdef
  have hσ : |σ| = 1 := by rw [hσdef]; split_ifs <;> simp
  have hdvp := dvp n f P q hPdeg hq x hx (e : ℝ) σ ?_ hσ
  · obtain ⟨i, hi⟩ := hdvp
    refine ⟨x i, ?_, ?_, hi⟩
    · have h0 : x 0 ≤ x i := hx.monotone (Fin.zero_le i)
      have : (a : ℝ) ≤ x 0 := by
        show (a : ℝ) ≤ ((getR rs ((0 : Fin (n+2)) : ℕ) : ℚ) : ℝ)
        simp only [Fin.val_zero]; exact_mod_cast ha
      linarith
    · have h1 : x i ≤ x (Fin.last (n + 1)) := hx.monotone (Fin.le_last i)
      have : x (Fin.last (n + 1)) ≤ (b : ℝ) := by
        show ((getR rs ((Fin.last (n+1) : Fin (n+2)) : ℕ) : ℚ) : ℝ) ≤ (b : ℝ)
        simp only [Fin.val_last]; exact_mod_cast hb
      linarith
  · intro i
    have hPi : P.eval (x i) = ((Lagr.eval (n + 1) (getR rs) (getR pv) (getR rs i) : ℚ) : ℝ) := by
      rw [cast_eval_eq_interpolate (n + 1) (getR rs) (getR pv) hv]
    have hc := halt i i.isLt
    obtain ⟨hf1, hf2⟩ := hf i i.isLt
    show (e : ℝ) ≤ σ * (-1) ^ (i : ℕ) * (f (x i) - P.eval (x i))
    rw [hPi, neg_one_pow_eq, hσdef]
    show (e : ℝ) ≤ _ * _ * (f ((getR rs i : ℚ) : ℝ) - _)
    by_cases hpar : (i : ℕ) % 2 = 0 <;> cases sgn <;>
      simp only [hpar, beq_self_eq_true, if_true, if_false, decide_eq_true_eq, Bool.false_eq_true,
        beq_iff_eq, decide_true, decide_false, reduceCtorEq, Bool.true_eq_false, beq_eq_false_iff_ne,
        ne_eq, not_true_eq_false, not_false_eq_true] at hc ⊢
    all_goals
      have hc' := hc
      first
        | (have hcR : (e : ℝ) ≤ ((getR flo i : ℚ) : ℝ) - ((Lagr.eval (n + 1) (getR rs) (getR pv) (getR rs i) : ℚ) : ℝ) := by
              exact_mod_cast hc'
           linarith)
        | (have hcR : (e : ℝ) ≤ ((Lagr.eval (n + 1) (getR rs) (getR pv) (getR rs i) : ℚ) : ℝ) - ((getR fhi i : ℚ) : ℝ) := by
              exact_mod_cast hc'
           linarith)

/-- the checker's verdict as a bound on the true minimax error -/
theorem checkAlt_minimax (n : ℕ) (a b : ℚ) (rs pv flo fhi : List ℚ) (e : ℚ) (sgn : Bool)
    (h : checkAlt n a b rs pv flo fhi e sgn = true) (f : ℝ → ℝ)
    (hf : ∀ i, i < n + 2 → ((getR flo i : ℚ) : ℝ) ≤ f (getR rs i) ∧ f (getR rs i) ≤ ((getR fhi i : ℚ) : ℝ)) :
    ENNReal.ofReal (e : ℝ) ≤ Opda.Minimax.minimaxErr n f a b :=
  Opda.Minimax.le_minimaxErr n f a b e fun q hq => checkAlt_sound n a b rs pv flo fhi e sgn h f hf q hq

/-- **the two certificates together pin the true minimax error**: with an accepted alternation
certificate (threshold `e`) and an accepted continuum upper-bound certificate (bound `B`) for the same
interpolant, `e ≤ E_n(f;[a,b]) ≤ B` for the polynomial `f` with coefficients `cf`. -/
theorem sandwich_poly (n : ℕ) (a b : ℚ) (rs pv flo fhi cf : List ℚ) (e B : ℚ) (sgn : Bool) (depth S : ℕ)
    (hv : Set.InjOn (getR rs) (range (n + 1) : Finset ℕ))
    (halt : checkAlt n a b rs pv flo fhi e sgn = true)
    (hf : ∀ i, i < n + 2 → ((getR flo i : ℚ) : ℝ) ≤ Opda.PolyCheck.evalQ cf (getR rs i)
        ∧ Opda.PolyCheck.evalQ cf (getR rs i) ≤ ((getR fhi i : ℚ) : ℝ))
    (hub : Opda.PolyQ.certPoly (n + 1) (getR rs) (getR pv) cf B a b depth S = true) :
    ENNReal.ofReal (e : ℝ) ≤ Opda.Minimax.minimaxErr n (Opda.PolyCheck.evalQ cf) a b
      ∧ Opda.Minimax.minimaxErr n (Opda.PolyCheck.evalQ cf) a b ≤ ENNReal.ofReal (B : ℝ) := by
  refine ⟨checkAlt_minimax n a b rs pv flo fhi e sgn halt _ hf, ?_⟩
  exact Opda.Minimax.minimaxErr_le n _ a b B _
    (natDegree_interpolate_le n _ (fun i => ((getR pv i : ℚ) : ℝ)) (cast_injOn (n + 1) _ hv))
    (fun x h1 h2 => Opda.PolyQ.certPoly_sound (n + 1) (getR rs) (getR pv) cf B a b depth S hv hub x h1 h2)

end Opda.Remez
