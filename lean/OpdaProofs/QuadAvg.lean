import OpdaModel.Quadratic
import OpdaProofs.RealInst
import OpdaProofs.QuadLaw
import OpdaProofs.QuadInv
import OpdaProofs.QuadPdf
import Mathlib.Probability.Distributions.Beta
import Mathlib.Analysis.SpecialFunctions.Integrals.Basic
import Mathlib.Tactic

/-! C08-T2: the closed forms of `QuadraticDistribution.average_tuning_curve` are the expectations of the
best of `n` draws (`n > 0` real): with `W = U^{2/c}`,
`E[max W] = ∫₀¹ u^{2/c} · n u^{n−1} du = n/(n + 2/c)` and
`E[min W] = ∫₀¹ u^{2/c} · n (1−u)^{n−1} du = Γ(n+1) Γ(1+2/c) / Γ(n+1+2/c)`. -/
namespace Opda.Quad
open Opda Opda.Num MeasureTheory intervalIntegral Set

/-- real Beta integral: `∫₀¹ x^{a−1}(1−x)^{b−1} dx = Γ(a)Γ(b)/Γ(a+b)` -/
theorem real_betaIntegral (a b : ℝ) (ha : 0 < a) (hb : 0 < b) :
    ∫ x in (0:ℝ)..1, x ^ (a - 1) * (1 - x) ^ (b - 1) = Real.Gamma a * Real.Gamma b / Real.Gamma (a + b) := by
  have hbeta := ProbabilityTheory.beta_eq_betaIntegralReal a b ha hb
  unfold ProbabilityTheory.beta at hbeta
  rw [hbeta, Complex.betaIntegral, intervalIntegral.integral_of_le zero_le_one,
    intervalIntegral.integral_of_le zero_le_one, ← RCLike.re_to_complex, ← integral_re]
  · refine setIntegral_congr_fun measurableSet_Ioc fun x ⟨hx1, hx2⟩ => ?_
    norm_cast
    rw [← Complex.ofReal_cpow, ← Complex.ofReal_cpow, RCLike.re_to_complex, Complex.re_mul_ofReal,
      Complex.ofReal_re]
    all_goals linarith
  · have := Complex.betaIntegral_convergent (u := (a:ℂ)) (v := (b:ℂ)) (by simpa) (by simpa)
    rwa [intervalIntegrable_iff_integrableOn_Ioc_of_le zero_le_one] at this

/-- `E[max of n draws of W]`, `W = U^{2/c}`: density of the maximum of `n` uniforms is `n u^{n−1}` -/
noncomputable def EmaxW (c : ℕ) (n : ℝ) : ℝ := ∫ u in (0:ℝ)..1, u ^ ((2:ℝ) / c) * (n * u ^ (n - 1))

/-- `E[min of n draws of W]`: density of the minimum of `n` uniforms is `n (1−u)^{n−1}` -/
noncomputable def EminW (c : ℕ) (n : ℝ) : ℝ := ∫ u in (0:ℝ)..1, u ^ ((2:ℝ) / c) * (n * (1 - u) ^ (n - 1))

theorem EmaxW_eq (c : ℕ) (hc : 0 < c) (n : ℝ) (hn : 0 < n) : EmaxW c n = n / (n + 2 / c) := by
  have hc' : (0:ℝ) < c := by exact_mod_cast hc
  have hβ : (0:ℝ) < 2 / c := by positivity
  unfold EmaxW
  have hcongr : ∀ u ∈ Ioc (0:ℝ) 1, u ^ ((2:ℝ) / c) * (n * u ^ (n - 1)) = n * u ^ ((2:ℝ) / c + n - 1) := by
    intro u hu
    rw [show (2:ℝ) / c + n - 1 = (2:ℝ) / c + (n - 1) by ring, Real.rpow_add hu.1]; ring
  rw [intervalIntegral.integral_of_le zero_le_one, setIntegral_congr_fun measurableSet_Ioc hcongr,
    ← intervalIntegral.integral_of_le zero_le_one, intervalIntegral.integral_const_mul,
    integral_rpow (Or.inl (by linarith))]
  have h1 : (2:ℝ) / c + n - 1 + 1 ≠ 0 := by linarith
  rw [Real.one_rpow, Real.zero_rpow h1, show (2:ℝ) / c + n - 1 + 1 = n + 2 / c by ring, sub_zero, mul_one_div]

theorem EminW_eq (c : ℕ) (hc : 0 < c) (n : ℝ) (hn : 0 < n) :
    EminW c n = Real.Gamma (n + 1) * Real.Gamma (1 + 2 / c) / Real.Gamma (n + 1 + 2 / c) := by
  have hc' : (0:ℝ) < c := by exact_mod_cast hc
  have hβ : (0:ℝ) < 2 / c := by positivity
  unfold EminW
  have hcongr : ∀ u ∈ uIcc (0:ℝ) 1, u ^ ((2:ℝ) / c) * (n * (1 - u) ^ (n - 1))
      = n * (u ^ ((1 + (2:ℝ) / c) - 1) * (1 - u) ^ (n - 1)) := by
    intro u _
    rw [show (1 + (2:ℝ) / c) - 1 = (2:ℝ) / c by ring]; ring
  rw [integral_congr hcongr, intervalIntegral.integral_const_mul,
    real_betaIntegral (1 + 2 / c) n (by linarith) hn, Real.Gamma_add_one hn.ne']
  have e : 1 + (2:ℝ) / c + n = n + 1 + 2 / c := by ring
  rw [e]
  have hG : Real.Gamma (n + 1 + 2 / c) ≠ 0 := (Real.Gamma_pos_of_pos (by linarith)).ne'
  field_simp

/-- the exponential of log-gammas in the source is the Gamma ratio -/
theorem expLogGamma_eq (c : ℕ) (hc : 0 < c) (n : ℝ) (hn : 0 < n) :
    Real.exp (Real.log (Real.Gamma (n + 1)) + Real.log (Real.Gamma (((c:ℝ) + 2) / c))
        - Real.log (Real.Gamma (n + ((c:ℝ) + 2) / c)))
      = Real.Gamma (n + 1) * Real.Gamma (1 + 2 / c) / Real.Gamma (n + 1 + 2 / c) := by
  have hc' : (0:ℝ) < c := by exact_mod_cast hc
  have hβ : (0:ℝ) < 2 / c := by positivity
  have e1 : ((c:ℝ) + 2) / c = 1 + 2 / c := by field_simp
  have e2 : n + (1 + (2:ℝ) / c) = n + 1 + 2 / c := by ring
  rw [e1, e2]
  have h1 := Real.Gamma_pos_of_pos (show (0:ℝ) < n + 1 by linarith)
  have h2 := Real.Gamma_pos_of_pos (show (0:ℝ) < 1 + 2 / c by linarith)
  have h3 := Real.Gamma_pos_of_pos (show (0:ℝ) < n + 1 + 2 / c by linarith)
  rw [Real.exp_sub, Real.exp_add, Real.exp_log h1, Real.exp_log h2, Real.exp_log h3]

/-- **C08-T2**: the four closed-form branches are the expectations of the best of `n` draws of
`a + (b−a) W` (convex) resp. `b − (b−a) W` (concave) -/
theorem avg_is_expectation (d : Params ℝ) (hc : 0 < d.c) (nn : ℝ) (hn : 0 < nn) (mn : Option Bool) :
    averageTuningCurve d nn mn =
      if d.convex then
        (if mn.getD d.convex then d.a + (d.b - d.a) * EminW d.c nn else d.a + (d.b - d.a) * EmaxW d.c nn)
      else
        (if mn.getD d.convex then d.b - (d.b - d.a) * EmaxW d.c nn else d.b - (d.b - d.a) * EminW d.c nn) := by
  have hg := expLogGamma_eq d.c hc nn hn
  rw [EminW_eq d.c hc nn hn, EmaxW_eq d.c hc nn hn, ← hg]
  unfold averageTuningCurve
  simp only [num_n, num_exp, Nat.cast_one, Nat.cast_ofNat]
  have hlg : ∀ x : ℝ, (Num.logGamma x : ℝ) = Real.log (Real.Gamma x) := fun _ => rfl
  simp only [hlg]
  cases d.convex <;> cases (mn.getD _) <;> simp <;> ring

theorem EmaxW_mem (c : ℕ) (hc : 0 < c) (n : ℝ) (hn : 0 < n) : 0 ≤ EmaxW c n ∧ EmaxW c n ≤ 1 := by
  have hc' : (0:ℝ) < c := by exact_mod_cast hc
  have hβ : (0:ℝ) < 2 / c := by positivity
  rw [EmaxW_eq c hc n hn]
  exact ⟨by positivity, (div_le_one (by linarith)).mpr (by linarith)⟩

/-- `E[max W]` is increasing in `n` -/
theorem EmaxW_mono (c : ℕ) (hc : 0 < c) (n n' : ℝ) (hn : 0 < n) (hnn : n ≤ n') : EmaxW c n ≤ EmaxW c n' := by
  have hc' : (0:ℝ) < c := by exact_mod_cast hc
  have hβ : (0:ℝ) < 2 / c := by positivity
  rw [EmaxW_eq c hc n hn, EmaxW_eq c hc n' (by linarith), div_le_div_iff₀ (by linarith) (by linarith)]
  nlinarith

/-- the same expectation written with the survival function: `E[min W] = ∫₀¹ β u^{β−1} (1−u)^n du`, `β = 2/c` -/
theorem EminW_alt (c : ℕ) (hc : 0 < c) (n : ℝ) (hn : 0 < n) :
    EminW c n = ∫ u in (0:ℝ)..1, (2:ℝ) / c * (u ^ ((2:ℝ) / c - 1) * (1 - u) ^ (n + 1 - 1)) := by
  have hc' : (0:ℝ) < c := by exact_mod_cast hc
  have hβ : (0:ℝ) < 2 / c := by positivity
  rw [EminW_eq c hc n hn, intervalIntegral.integral_const_mul, real_betaIntegral (2 / c) (n + 1) hβ (by linarith),
    add_comm (1:ℝ) (2 / c), Real.Gamma_add_one hβ.ne']
  have e : (2:ℝ) / c + (n + 1) = n + 1 + 2 / c := by ring
  rw [e]
  have hG : Real.Gamma (n + 1 + 2 / c) ≠ 0 := (Real.Gamma_pos_of_pos (by linarith)).ne'
  field_simp

theorem intervalIntegrable_surv (β n : ℝ) (hβ : 0 < β) (hn : 0 ≤ n) :
    IntervalIntegrable (fun u : ℝ => β * (u ^ (β - 1) * (1 - u) ^ n)) volume 0 1 := by
  have h1 : IntervalIntegrable (fun u : ℝ => u ^ (β - 1)) volume 0 1 := intervalIntegrable_rpow' (by linarith)
  have h2 : ContinuousOn (fun u : ℝ => (1 - u) ^ n) (uIcc (0:ℝ) 1) :=
    ((Real.continuous_rpow_const hn).comp (continuous_const.sub continuous_id)).continuousOn
  exact (h1.mul_continuousOn h2).const_mul β

theorem EminW_mem (c : ℕ) (hc : 0 < c) (n : ℝ) (hn : 0 < n) : 0 ≤ EminW c n ∧ EminW c n ≤ 1 := by
  have hc' : (0:ℝ) < c := by exact_mod_cast hc
  have hβ : (0:ℝ) < 2 / c := by positivity
  constructor
  · rw [EminW_eq c hc n hn]
    have h1 := Real.Gamma_pos_of_pos (show (0:ℝ) < n + 1 by linarith)
    have h2 := Real.Gamma_pos_of_pos (show (0:ℝ) < 1 + 2 / c by linarith)
    have h3 := Real.Gamma_pos_of_pos (show (0:ℝ) < n + 1 + 2 / c by linarith)
    positivity
  · rw [EminW_alt c hc n hn]
    have hone : ∫ u in (0:ℝ)..1, (2:ℝ) / c * u ^ ((2:ℝ) / c - 1) = 1 := by
      rw [intervalIntegral.integral_const_mul, integral_rpow (Or.inl (by linarith))]
      have h1 : (2:ℝ) / c - 1 + 1 ≠ 0 := by linarith
      rw [Real.one_rpow, Real.zero_rpow h1]
      field_simp
      ring
    have key : ∫ u in (0:ℝ)..1, (2:ℝ) / c * (u ^ ((2:ℝ) / c - 1) * (1 - u) ^ (n + 1 - 1))
        ≤ ∫ u in (0:ℝ)..1, (2:ℝ) / c * u ^ ((2:ℝ) / c - 1) := by
      apply intervalIntegral.integral_mono_on zero_le_one
      · simpa using intervalIntegrable_surv (2 / c) n hβ hn.le
      · exact (intervalIntegrable_rpow' (by linarith)).const_mul _
      · intro u hu
        have h0 : 0 ≤ u ^ ((2:ℝ) / c - 1) := Real.rpow_nonneg hu.1 _
        have h1 : (1 - u) ^ (n + 1 - 1) ≤ 1 := Real.rpow_le_one (by linarith [hu.2]) (by linarith [hu.1]) (by linarith)
        have h2 : 0 ≤ (1 - u) ^ (n + 1 - 1) := Real.rpow_nonneg (by linarith [hu.2]) _
        have : u ^ ((2:ℝ) / c - 1) * (1 - u) ^ (n + 1 - 1) ≤ u ^ ((2:ℝ) / c - 1) := by nlinarith
        exact mul_le_mul_of_nonneg_left this hβ.le
    rw [hone] at key
    exact key

/-- `E[min W]` is decreasing in `n` -/
theorem EminW_anti (c : ℕ) (hc : 0 < c) (n n' : ℝ) (hn : 0 < n) (hnn : n ≤ n') : EminW c n' ≤ EminW c n := by
  have hc' : (0:ℝ) < c := by exact_mod_cast hc
  have hβ : (0:ℝ) < 2 / c := by positivity
  have hn' : 0 < n' := by linarith
  rw [EminW_alt c hc n hn, EminW_alt c hc n' hn']
  apply intervalIntegral.integral_mono_on zero_le_one
  · simpa using intervalIntegrable_surv (2 / c) n' hβ hn'.le
  · simpa using intervalIntegrable_surv (2 / c) n hβ hn.le
  · intro u hu
    have h0 : 0 ≤ u ^ ((2:ℝ) / c - 1) := Real.rpow_nonneg hu.1 _
    have h1 : (1 - u) ^ (n' + 1 - 1) ≤ (1 - u) ^ (n + 1 - 1) :=
      Real.rpow_le_rpow_of_exponent_ge' (by linarith [hu.2]) (by linarith [hu.1]) (by linarith) (by linarith)
    exact mul_le_mul_of_nonneg_left (mul_le_mul_of_nonneg_left h1 h0) hβ.le

/-- **monotone in `n` in the direction of optimisation and inside `[a,b]`** -/
theorem avg_mem (d : Params ℝ) (hab : d.a ≤ d.b) (hc : 0 < d.c) (nn : ℝ) (hn : 0 < nn) (mn : Option Bool) :
    d.a ≤ averageTuningCurve d nn mn ∧ averageTuningCurve d nn mn ≤ d.b := by
  have hw : 0 ≤ d.b - d.a := sub_nonneg.mpr hab
  obtain ⟨x0, x1⟩ := EmaxW_mem d.c hc nn hn
  obtain ⟨m0, m1⟩ := EminW_mem d.c hc nn hn
  rw [avg_is_expectation d hc nn hn mn]
  split_ifs <;> constructor <;> nlinarith

/-- maximising curves are non-decreasing in `n`, minimising curves non-increasing -/
theorem avg_mono (d : Params ℝ) (hab : d.a ≤ d.b) (hc : 0 < d.c) (n n' : ℝ) (hn : 0 < n) (hnn : n ≤ n')
    (m : Bool) :
    if m then averageTuningCurve d n' (some m) ≤ averageTuningCurve d n (some m)
    else averageTuningCurve d n (some m) ≤ averageTuningCurve d n' (some m) := by
  have hw : 0 ≤ d.b - d.a := sub_nonneg.mpr hab
  have hx := EmaxW_mono d.c hc n n' hn hnn
  have hm := EminW_anti d.c hc n n' hn hnn
  rw [avg_is_expectation d hc n hn, avg_is_expectation d hc n' (by linarith)]
  simp only [Option.getD_some]
  cases m <;> cases d.convex <;> simp <;> nlinarith

/-- the level handed to `ppf` is a probability -/
theorem level_mem (m : Bool) (q nn : ℝ) (hq0 : 0 ≤ q) (hq1 : q ≤ 1) (hn : 0 < nn) :
    0 ≤ level m q nn ∧ level m q nn ≤ 1 := by
  have he : (0:ℝ) ≤ 1 / nn := by positivity
  unfold level
  simp only [num_n, num_pow, Nat.cast_one]
  cases m
  · simp only [Bool.false_eq_true, if_false]
    exact ⟨Real.rpow_nonneg hq0 _, Real.rpow_le_one hq0 hq1 he⟩
  · simp only [if_true]
    have h0 : 0 ≤ (1 - q) ^ (1 / nn) := Real.rpow_nonneg (by linarith) _
    have h1 : (1 - q) ^ (1 / nn) ≤ 1 := Real.rpow_le_one (by linarith) (by linarith) he
    constructor <;> linarith

/-- `q^{1/n}` resp. `1 − (1−q)^{1/n}` -/
theorem level_eq (m : Bool) (q nn : ℝ) :
    level m q nn = if m then 1 - (1 - q) ^ (1 / nn) else q ^ (1 / nn) := by
  unfold level; simp

end Opda.Quad
