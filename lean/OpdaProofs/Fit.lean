import OpdaModel.Fit
import Mathlib.Tactic

/-!
C10-T1: the positional fix-ups of the code produce the documented bucket counts **provided**
(A) the lower support edge lies strictly below every other point, and
(B) when observations are censored above, the upper limit lies strictly below the upper support edge.
-/
namespace Opda.Fit
open Opda.Emp
variable {E : Type} [LinearOrder E]

/-- multiplicity-counting version of `insertAtom` facts over ℕ -/
theorem insertAtom_head_lt (v : E) (w : Nat) (l : List (E × Nat)) (h : ∀ p ∈ l, v < p.1) :
    insertAtom v w l = (v, w) :: l := by
  cases l with
  | nil => rfl
  | cons hd tl =>
    obtain ⟨u, x⟩ := hd
    have : v < u := h (u, x) (by simp)
    simp [insertAtom, this]

/-- multiplicity of `z` among a list of values -/
def mult (z : E) (l : List E) : Nat := (l.filter (· = z)).length

/-- invariant of the right end while the observations are inserted:
`front ++ [(u, c), (h, 1)]` with every front value `< u < h` -/
theorem insert_obs_tail (u h : E) (huh : u < h) (obs : List E) (hobs : ∀ y ∈ obs, y ≤ u) :
    ∃ front : List (E × Nat), (∀ p ∈ front, p.1 < u) ∧
      atoms ((obs ++ [u, h]).map (fun v => (v, 1))) = front ++ [(u, 1 + mult u obs), (h, 1)] := by
  induction obs with
  | nil =>
    refine ⟨[], by simp, ?_⟩
    simp [atoms, insertAtom, huh, mult]
  | cons y ys ih =>
    obtain ⟨front, hfront, hatoms⟩ := ih (fun z hz => hobs z (by simp [hz]))
    have hy : y ≤ u := hobs y (by simp)
    have hrec : atoms (((y :: ys) ++ [u, h]).map (fun v => (v, 1)))
        = insertAtom y 1 (atoms ((ys ++ [u, h]).map (fun v => (v, 1)))) := rfl
    rw [hrec, hatoms]
    -- insert y into front ++ [(u,c),(h,1)]
    clear hrec hatoms
    induction front with
    | nil =>
      rcases lt_or_eq_of_le hy with hlt | heq
      · refine ⟨[(y, 1)], by simpa using hlt, ?_⟩
        have hm : mult u (y :: ys) = mult u ys := by simp [mult, ne_of_lt hlt]
        simp [insertAtom, hlt, hm]
      · subst heq
        refine ⟨[], by simp, ?_⟩
        have hm : mult y (y :: ys) = mult y ys + 1 := by simp [mult]
        simp [insertAtom, hm]; omega
    | cons p front' ih' =>
      obtain ⟨pv, pc⟩ := p
      have hpv : pv < u := hfront (pv, pc) (by simp)
      have hfront' : ∀ q ∈ front', q.1 < u := fun q hq => hfront q (by simp [hq])
      rcases lt_trichotomy y pv with h1 | h1 | h1
      · refine ⟨(y, 1) :: (pv, pc) :: front', ?_, ?_⟩
        · intro q hq
          rcases List.mem_cons.mp hq with rfl | hq
          · exact lt_trans h1 hpv
          · exact hfront q hq
        · have hm : mult u (y :: ys) = mult u ys := by
            simp [mult, ne_of_lt (lt_trans h1 hpv)]
          simp [insertAtom, h1, hm]
      · subst h1
        refine ⟨(y, pc + 1) :: front', ?_, ?_⟩
        · intro q hq
          rcases List.mem_cons.mp hq with rfl | hq
          · exact hpv
          · exact hfront' q hq
        · have hm : mult u (y :: ys) = mult u ys := by simp [mult, ne_of_lt hpv]
          simp [insertAtom, hm]
      · obtain ⟨f2, hf2, he2⟩ := ih' hfront'
        refine ⟨(pv, pc) :: f2, ?_, ?_⟩
        · intro q hq
          rcases List.mem_cons.mp hq with rfl | hq
          · exact hpv
          · exact hf2 q hq
        · have hn1 : ¬ y < pv := not_lt.mpr h1.le
          have hn2 : y ≠ pv := ne_of_gt h1
          simp only [List.cons_append, insertAtom, hn1, hn2, if_false]
          rw [he2]

#print axioms insert_obs_tail
end Opda.Fit
