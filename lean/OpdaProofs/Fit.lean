import OpdaModel.Fit
import Mathlib.Tactic

/-!
C10-T1/T2: the positional fix-ups of the code (`ks = counts[1:]`, `ks[0] = n_lower`, `ks[-2] -= 1`,
`ks[-1] = n_upper + 1`) produce the documented bucket counts **provided**
(A) the lower support edge lies strictly below every other point, and
(B) when observations are censored above, the upper limit lies strictly below the upper support edge.

Route: `np.unique(…, return_counts=True)` (= `atoms` at multiplicity 1) is *the* strictly increasing list
of the distinct points, each with its multiplicity (`unique_spec`); under A and B its first element is the
lower edge, the next one the lower limit (if present) and its last two are the upper limit (if present) and
the upper edge, which is where the positional fix-ups land.
-/
namespace Opda.Fit
open Opda.Emp
variable {E : Type} [LinearOrder E]

/-! ## `np.unique` with counts -/

/-- total multiplicity recorded for the value `z` -/
def cnt (z : E) : List (E × Nat) → Nat
  | [] => 0
  | (u, x) :: rest => (if u = z then x else 0) + cnt z rest

def StrictSorted (l : List (E × Nat)) : Prop := l.Pairwise (fun p q => p.1 < q.1)

theorem insertAtomN_cases (v : E) (w : Nat) (u : E) (x : Nat) (tl : List (E × Nat)) :
    (v < u ∧ insertAtom v w ((u, x) :: tl) = (v, w) :: (u, x) :: tl)
    ∨ (v = u ∧ insertAtom v w ((u, x) :: tl) = (u, x + w) :: tl)
    ∨ (u < v ∧ insertAtom v w ((u, x) :: tl) = (u, x) :: insertAtom v w tl) := by
  rcases lt_trichotomy v u with h | h | h
  · exact Or.inl ⟨h, by simp [insertAtom, h]⟩
  · subst h; exact Or.inr (Or.inl ⟨rfl, by simp [insertAtom]⟩)
  · exact Or.inr (Or.inr ⟨h, by simp [insertAtom, not_lt.mpr h.le, ne_of_gt h]⟩)

theorem cnt_insertAtom (z v : E) (w : Nat) (l : List (E × Nat)) :
    cnt z (insertAtom v w l) = (if v = z then w else 0) + cnt z l := by
  induction l with
  | nil => simp [insertAtom, cnt]
  | cons hd tl ih =>
    obtain ⟨u, x⟩ := hd
    rcases insertAtomN_cases v w u x tl with ⟨_, he⟩ | ⟨h, he⟩ | ⟨_, he⟩ <;> rw [he]
    · simp [cnt]
    · subst h; by_cases hz : v = z <;> simp [cnt, hz]; omega
    · simp only [cnt, ih]; omega

theorem cnt_atoms (z : E) (l : List (E × Nat)) : cnt z (atoms l) = cnt z l := by
  induction l with
  | nil => rfl
  | cons hd tl ih =>
    obtain ⟨u, x⟩ := hd
    show cnt z (insertAtom u x (atoms tl)) = _
    rw [cnt_insertAtom, ih]; rfl

theorem mem_fst_insertAtom (z v : E) (w : Nat) (l : List (E × Nat)) :
    z ∈ (insertAtom v w l).map Prod.fst ↔ z = v ∨ z ∈ l.map Prod.fst := by
  induction l with
  | nil => simp [insertAtom]
  | cons hd tl ih =>
    obtain ⟨u, x⟩ := hd
    rcases insertAtomN_cases v w u x tl with ⟨_, he⟩ | ⟨h, he⟩ | ⟨_, he⟩ <;> rw [he]
    · simp
    · subst h; simp
    · simp only [List.map_cons, List.mem_cons, ih]; tauto

theorem mem_fst_atoms (z : E) (l : List (E × Nat)) : z ∈ (atoms l).map Prod.fst ↔ z ∈ l.map Prod.fst := by
  induction l with
  | nil => simp [atoms]
  | cons hd tl ih =>
    obtain ⟨u, x⟩ := hd
    show z ∈ (insertAtom u x (atoms tl)).map Prod.fst ↔ _
    rw [mem_fst_insertAtom, ih]; simp

theorem strictSorted_insertAtom (v : E) (w : Nat) (l : List (E × Nat)) (hs : StrictSorted l) :
    StrictSorted (insertAtom v w l) := by
  induction l with
  | nil => simp [insertAtom, StrictSorted]
  | cons hd tl ih =>
    obtain ⟨u, x⟩ := hd
    have hs' : StrictSorted tl := (List.pairwise_cons.mp hs).2
    have hlt : ∀ p ∈ tl, u < p.1 := (List.pairwise_cons.mp hs).1
    rcases insertAtomN_cases v w u x tl with ⟨h, he⟩ | ⟨h, he⟩ | ⟨h, he⟩ <;> rw [he]
    · refine List.pairwise_cons.mpr ⟨?_, hs⟩
      intro p hp
      rcases List.mem_cons.mp hp with rfl | hp
      · exact h
      · exact lt_trans h (hlt p hp)
    · exact List.pairwise_cons.mpr ⟨hlt, hs'⟩
    · refine List.pairwise_cons.mpr ⟨?_, ih hs'⟩
      intro p hp
      have : p.1 ∈ (insertAtom v w tl).map Prod.fst := List.mem_map_of_mem (f := Prod.fst) hp
      rcases (mem_fst_insertAtom p.1 v w tl).mp this with h1 | h1
      · simpa [h1] using h
      · obtain ⟨q, hq, hq1⟩ := List.mem_map.mp h1
        simpa [← hq1] using hlt q hq

theorem strictSorted_atoms (l : List (E × Nat)) : StrictSorted (atoms l) := by
  induction l with
  | nil => simp [atoms, StrictSorted]
  | cons hd tl ih => exact strictSorted_insertAtom hd.1 hd.2 _ ih

theorem cnt_eq_zero_of_not_mem (z : E) (l : List (E × Nat)) (h : z ∉ l.map Prod.fst) : cnt z l = 0 := by
  induction l with
  | nil => rfl
  | cons hd tl ih =>
    obtain ⟨u, x⟩ := hd
    simp only [List.map_cons, List.mem_cons, not_or] at h
    simp [cnt, ih h.2, Ne.symm h.1]

theorem cnt_of_mem_sorted (l : List (E × Nat)) (hs : StrictSorted l) (p : E × Nat) (hp : p ∈ l) :
    cnt p.1 l = p.2 := by
  induction l with
  | nil => simp at hp
  | cons hd tl ih =>
    obtain ⟨u, x⟩ := hd
    have hs' : StrictSorted tl := (List.pairwise_cons.mp hs).2
    have hlt : ∀ q ∈ tl, u < q.1 := (List.pairwise_cons.mp hs).1
    rcases List.mem_cons.mp hp with rfl | hp
    · have : u ∉ tl.map Prod.fst := by
        intro hm
        obtain ⟨q, hq, hq1⟩ := List.mem_map.mp hm
        exact absurd (hlt q hq) (by simp [hq1])
      simp [cnt, cnt_eq_zero_of_not_mem u tl this]
    · have hne : u ≠ p.1 := ne_of_lt (hlt p hp)
      simp [cnt, hne, ih hs' hp]

theorem cnt_points (z : E) (pts : List E) : cnt z (pts.map fun v => (v, 1)) = mult z pts := by
  induction pts with
  | nil => rfl
  | cons y ys ih =>
    by_cases h : y = z
    · simp [cnt, mult, h] at ih ⊢; omega
    · simp [cnt, mult, h] at ih ⊢; exact ih

/-- **`np.unique(pts, return_counts=True)`**: the values are strictly increasing, they are exactly the
members of `pts`, and each count is the multiplicity in `pts`. -/
theorem unique_spec (pts : List E) :
    let U := uniqueCounts (pts.map fun v => (v, 1))
    (U.map Prod.fst).Pairwise (· < ·) ∧ (∀ z, z ∈ U.map Prod.fst ↔ z ∈ pts) ∧
      U.map Prod.snd = (U.map Prod.fst).map fun z => mult z pts := by
  intro U
  have hs : StrictSorted U := strictSorted_atoms _
  refine ⟨?_, ?_, ?_⟩
  · exact List.pairwise_map.mpr hs
  · intro z
    show z ∈ (atoms _).map Prod.fst ↔ _
    rw [mem_fst_atoms]; simp
  · rw [List.map_map]
    apply List.map_congr_left
    intro p hp
    have := cnt_of_mem_sorted U hs p hp
    show p.2 = mult p.1 pts
    rw [← this]
    show cnt p.1 (atoms _) = _
    rw [cnt_atoms, cnt_points]

/-! ## strictly increasing lists: first and last elements -/

theorem sorted_head_eq {l : List E} (hs : l.Pairwise (· < ·)) {m : E} (hm : m ∈ l) (hmin : ∀ x ∈ l, m ≤ x) :
    ∃ t, l = m :: t := by
  cases l with
  | nil => simp at hm
  | cons h t =>
    refine ⟨t, ?_⟩
    have h1 : m ≤ h := hmin h (by simp)
    rcases List.mem_cons.mp hm with rfl | hmt
    · rfl
    · have : h < m := (List.pairwise_cons.mp hs).1 m hmt
      exact absurd (lt_of_lt_of_le this h1) (lt_irrefl _)

theorem sorted_last_eq {l : List E} (hs : l.Pairwise (· < ·)) {M : E} (hM : M ∈ l) (hmax : ∀ x ∈ l, x ≤ M) :
    ∃ t, l = t ++ [M] ∧ ∀ x ∈ t, x < M := by
  induction l with
  | nil => simp at hM
  | cons h t ih =>
    have hs' := (List.pairwise_cons.mp hs).2
    have hlt := (List.pairwise_cons.mp hs).1
    cases t with
    | nil =>
      have : M = h := by simpa using hM
      subst this
      exact ⟨[], by simp, by simp⟩
    | cons h2 t2 =>
      have hMt : M ∈ h2 :: t2 := by
        rcases List.mem_cons.mp hM with rfl | hMt
        · have : h2 ≤ M := hmax h2 (by simp)
          exact absurd (lt_of_lt_of_le (hlt h2 (by simp)) this) (lt_irrefl _)
        · exact hMt
      obtain ⟨t', ht', hlt'⟩ := ih hs' hMt (fun x hx => hmax x (List.mem_cons_of_mem _ hx))
      refine ⟨h :: t', by rw [ht']; rfl, ?_⟩
      intro x hx
      rcases List.mem_cons.mp hx with rfl | hx
      · exact hlt M hMt
      · exact hlt' x hx

/-! ## the fix-ups on explicit shapes -/

theorem fixTail?_append (v : Nat) (xs : List Nat) (x y : Nat) :
    fixTail? v (xs ++ [x, y]) = some (xs ++ [x - 1, v]) := by
  induction xs with
  | nil => rfl
  | cons a xs ih =>
    cases xs with
    | nil => simp [fixTail?]
    | cons b xs' =>
      cases xs' with
      | nil => simp [fixTail?]
      | cons c xs'' =>
        have : fixTail? v (a :: b :: c :: (xs'' ++ [x, y])) =
            (fixTail? v (b :: c :: (xs'' ++ [x, y]))).map (a :: ·) := rfl
        simp only [List.cons_append] at ih ⊢
        rw [this, ih]; rfl

theorem fixTail?_isSome_iff (v : Nat) (l : List Nat) : (fixTail? v l).isSome ↔ 2 ≤ l.length := by
  induction l with
  | nil => simp [fixTail?]
  | cons a l ih =>
    cases l with
    | nil => simp [fixTail?]
    | cons b l' =>
      cases l' with
      | nil => simp [fixTail?]
      | cons c l'' =>
        have : fixTail? v (a :: b :: c :: l'') = (fixTail? v (b :: c :: l'')).map (a :: ·) := rfl
        rw [this, Option.isSome_map, ih]; simp

theorem setHead?_isSome_iff (v : Nat) (l : List Nat) : (setHead? v l).isSome ↔ 1 ≤ l.length := by
  cases l <;> simp [setHead?]

/-! ## the documented counts along a strictly increasing edge list -/

section spec
variable (ll : Option E) (obs : List E) (lu : Option E) (edgeHi : E) (nLower nUpper : Nat)

/-- the part of `specCount` that does not look at the left end of the bucket -/
def specNoPrev (z : E) : Nat :=
  mult z obs + (if ll = some z then nLower else 0) + (if z = edgeHi then 1 else 0)

theorem specCount_eq (zPrev z : E) :
    specCount ll obs lu edgeHi nLower nUpper zPrev z
      = specNoPrev ll obs edgeHi nLower z + (if lu = some zPrev then nUpper else 0) := by
  unfold specCount specNoPrev; omega

theorem ksSpecOpen_no_upper (zp : E) (L : List E) (h : ∀ x ∈ zp :: L, lu ≠ some x) :
    ksSpecOpen ll obs lu edgeHi nLower nUpper (zp :: L) = L.map (specNoPrev ll obs edgeHi nLower) := by
  induction L generalizing zp with
  | nil => rfl
  | cons z rest ih =>
    show specCount ll obs lu edgeHi nLower nUpper zp z :: ksSpecOpen ll obs lu edgeHi nLower nUpper (z :: rest) = _
    rw [ih z (fun x hx => h x (List.mem_cons_of_mem _ hx)), specCount_eq]
    simp [h zp (by simp)]

theorem ksSpecOpen_upper (u hE : E) (hlu : lu = some u) (zp : E) (xs : List E)
    (hne : ∀ x ∈ zp :: xs, x ≠ u) :
    ksSpecOpen ll obs lu edgeHi nLower nUpper (zp :: (xs ++ [u, hE]))
      = (xs ++ [u]).map (specNoPrev ll obs edgeHi nLower) ++ [specNoPrev ll obs edgeHi nLower hE + nUpper] := by
  induction xs generalizing zp with
  | nil =>
    show [specCount ll obs lu edgeHi nLower nUpper zp u, specCount ll obs lu edgeHi nLower nUpper u hE] = _
    have h1 : ¬ u = zp := fun h => hne zp (by simp) h.symm
    simp [specCount_eq, h1, hlu]
  | cons z rest ih =>
    show specCount ll obs lu edgeHi nLower nUpper zp z
        :: ksSpecOpen ll obs lu edgeHi nLower nUpper (z :: (rest ++ [u, hE])) = _
    rw [ih z (fun x hx => hne x (List.mem_cons_of_mem _ hx)), specCount_eq]
    have h1 : lu ≠ some zp := by
      rw [hlu]; intro h; exact hne zp (by simp) (Option.some.inj h).symm
    simp [h1]

end spec

/-! ## C10-T1 -/

theorem mult_cons (z y : E) (l : List E) : mult z (y :: l) = (if y = z then 1 else 0) + mult z l := by
  by_cases h : y = z <;> simp [mult, h]; omega

theorem mult_append (z : E) (l₁ l₂ : List E) : mult z (l₁ ++ l₂) = mult z l₁ + mult z l₂ := by
  simp [mult]

theorem mult_eq_zero_of_not_mem (z : E) (l : List E) (h : z ∉ l) : mult z l = 0 := by
  simp only [mult, List.length_eq_zero_iff, List.filter_eq_nil_iff]
  intro a ha; simpa using fun h' : a = z => h (h' ▸ ha)

theorem mult_optionToList (z : E) (o : Option E) : mult z o.toList = if o = some z then 1 else 0 := by
  cases o with
  | none => simp [mult]
  | some x => by_cases h : x = z <;> simp [mult, h]

/-- the data facts the censoring step guarantees (`lo < y ≤ hi` for the observed `y`, `lo < hi`), plus
the side conditions (A) and (B) -/
structure BucketHyps (edgeLo : E) (ll : Option E) (obs : List E) (lu : Option E) (edgeHi : E) : Prop where
  /-- (A) the lower support edge lies strictly below every other point -/
  sideA : ∀ p ∈ ll.toList ++ obs ++ lu.toList ++ [edgeHi], edgeLo < p
  /-- (B) the upper limit lies strictly below the upper support edge -/
  sideB : ∀ u, lu = some u → u < edgeHi
  obs_gt_ll : ∀ l, ll = some l → ∀ y ∈ obs, l < y
  obs_le_lu : ∀ u, lu = some u → ∀ y ∈ obs, y ≤ u
  ll_lt_lu : ∀ l u, ll = some l → lu = some u → l < u
  ll_lt_hi : ∀ l, ll = some l → l < edgeHi
  obs_le_hi : ∀ y ∈ obs, y ≤ edgeHi

theorem sideA_sideB_of_hyps {edgeLo : E} {ll : Option E} {obs : List E} {lu : Option E} {edgeHi : E}
    (h : BucketHyps edgeLo ll obs lu edgeHi) :
    sideA edgeLo ll obs lu edgeHi = true ∧ sideB lu edgeHi = true := by
  constructor
  · simp only [sideA, List.all_eq_true, decide_eq_true_eq]
    exact h.sideA
  · cases hlu : lu with
    | none => rfl
    | some u => simpa [sideB] using h.sideB u hlu

/-- the count `np.unique` records for a point other than the lower edge -/
def rawCount (ll : Option E) (obs : List E) (lu : Option E) (edgeHi : E) (z : E) : Nat :=
  (if ll = some z then 1 else 0) + mult z obs + (if lu = some z then 1 else 0) + (if z = edgeHi then 1 else 0)

/-- what (A) and the data facts give before any fix-up: the edge list is `edgeLo :: zs'`, `zs'` is the
strictly increasing list of the other points, `counts[1:]` are their multiplicities, the upper edge is the
largest point, and the closed left-most bucket adds nothing. -/
theorem bucket_prefix (edgeLo : E) (ll : Option E) (obs : List E) (lu : Option E)
    (edgeHi : E) (nLower nUpper : Nat) (H : BucketHyps edgeLo ll obs lu edgeHi) :
    ∃ zs' : List E, zsModel edgeLo ll obs lu edgeHi = edgeLo :: zs' ∧ zs'.Pairwise (· < ·) ∧
      (∀ x ∈ zs', edgeLo < x) ∧ (∀ z, z ∈ zs' ↔ z ∈ ll.toList ++ obs ++ lu.toList ++ [edgeHi]) ∧
      ((uniqueCounts (points edgeLo ll obs lu edgeHi)).map Prod.snd).tail = zs'.map (rawCount ll obs lu edgeHi) ∧
      (∀ closedLeft, ksSpec closedLeft ll obs lu edgeHi nLower nUpper (edgeLo :: zs')
        = ksSpecOpen ll obs lu edgeHi nLower nUpper (edgeLo :: zs')) ∧
      edgeHi ∈ zs' ∧ (∀ x ∈ zs', x ≤ edgeHi) := by
  set R : List E := ll.toList ++ obs ++ lu.toList ++ [edgeHi] with hR
  have hpts : pointValues edgeLo ll obs lu edgeHi = edgeLo :: R := rfl
  obtain ⟨hsorted, hmem, hcounts⟩ := unique_spec (pointValues edgeLo ll obs lu edgeHi)
  set U := uniqueCounts ((pointValues edgeLo ll obs lu edgeHi).map fun v => (v, 1)) with hU
  set zs := U.map Prod.fst with hzs
  have hmin : ∀ x ∈ zs, edgeLo ≤ x := by
    intro x hx
    have hx' : x ∈ edgeLo :: R := hpts ▸ (hmem x).mp hx
    rcases List.mem_cons.mp hx' with rfl | hx
    · exact le_refl _
    · exact le_of_lt (H.sideA x hx)
  obtain ⟨zs', hzs'⟩ := sorted_head_eq hsorted ((hmem edgeLo).mpr (by rw [hpts]; simp)) hmin
  have hsorted' : zs'.Pairwise (· < ·) := by rw [hzs'] at hsorted; exact (List.pairwise_cons.mp hsorted).2
  have hlo_lt : ∀ x ∈ zs', edgeLo < x := by rw [hzs'] at hsorted; exact (List.pairwise_cons.mp hsorted).1
  have hmem' : ∀ z, z ∈ zs' ↔ z ∈ R := by
    intro z
    constructor
    · intro hz
      have : z ∈ edgeLo :: R := hpts ▸ (hmem z).mp (by rw [hzs']; exact List.mem_cons_of_mem _ hz)
      rcases List.mem_cons.mp this with rfl | h
      · exact absurd (hlo_lt _ hz) (lt_irrefl _)
      · exact h
    · intro hz
      have : z ∈ zs := (hmem z).mpr (by rw [hpts]; exact List.mem_cons_of_mem _ hz)
      rw [hzs'] at this
      rcases List.mem_cons.mp this with rfl | h
      · exact absurd (H.sideA _ hz) (lt_irrefl _)
      · exact h
  refine ⟨zs', hzs', hsorted', hlo_lt, hmem', ?_, ?_, ?_, ?_⟩
  · have : (U.map Prod.snd).tail = zs'.map fun z => mult z (pointValues edgeLo ll obs lu edgeHi) := by
      rw [hcounts, hzs']; rfl
    show (U.map Prod.snd).tail = _
    rw [this]
    apply List.map_congr_left
    intro z hz
    have hne : edgeLo ≠ z := ne_of_lt (hlo_lt z hz)
    rw [hpts, mult_cons, hR, mult_append, mult_append, mult_append, mult_optionToList, mult_optionToList]
    have : mult z [edgeHi] = if z = edgeHi then 1 else 0 := by
      by_cases h : edgeHi = z
      · subst h; simp [mult]
      · have h' : ¬ z = edgeHi := fun h'' => h h''.symm
        simp [mult, h, h']
    rw [this]; simp [hne, rawCount]
  · intro closedLeft
    have hex : closedExtra obs edgeLo = 0 := by
      apply mult_eq_zero_of_not_mem
      intro hm
      exact absurd (H.sideA edgeLo (by simp [hm])) (lt_irrefl _)
    cases closedLeft with
    | false => rfl
    | true =>
      show addHead (closedExtra obs edgeLo) _ = _
      rw [hex]
      cases ksSpecOpen ll obs lu edgeHi nLower nUpper (edgeLo :: zs') <;> simp [addHead]
  · exact (hmem' edgeHi).mpr (by simp [hR])
  · intro x hx
    have := (hmem' x).mp hx
    simp only [hR, List.mem_append, Option.mem_toList, List.mem_singleton] at this
    rcases this with ((h | h) | h) | h
    · exact le_of_lt (H.ll_lt_hi x h)
    · exact H.obs_le_hi x h
    · exact le_of_lt (H.sideB x h)
    · exact le_of_eq h

/-- with right-censored observations (and (B)) the edge list ends with the upper limit and the upper
edge: `zs' = pre ++ xs ++ [u, edgeHi]` where `pre` is the lower limit if present -/
theorem tail_shape {L : List E} (hs : L.Pairwise (· < ·)) {u hE : E} (hu : u ∈ L) (hh : hE ∈ L) (huh : u < hE)
    (hmax : ∀ x ∈ L, x ≤ hE) (hmax' : ∀ x ∈ L, x ≠ hE → x ≤ u) :
    ∃ xs, L = xs ++ [u, hE] ∧ ∀ x ∈ xs, x < u := by
  obtain ⟨t1, ht1, hlt1⟩ := sorted_last_eq hs hh hmax
  have hu1 : u ∈ t1 := by
    rw [ht1] at hu
    rcases List.mem_append.mp hu with h | h
    · exact h
    · exact absurd huh (by simp at h; simp [h])
  have hs1 : t1.Pairwise (· < ·) := by rw [ht1] at hs; exact (List.pairwise_append.mp hs).1
  have hmax1 : ∀ x ∈ t1, x ≤ u := fun x hx =>
    hmax' x (by rw [ht1]; simp [hx]) (ne_of_lt (hlt1 x hx))
  obtain ⟨xs, hxs, hltx⟩ := sorted_last_eq hs1 hu1 hmax1
  exact ⟨xs, by rw [ht1, hxs]; simp, hltx⟩

/-- **C10-T1.** Under the side conditions (A) and (B) the code's positional fix-ups never index out of
range and produce exactly the documented bucket counts along the edges `zs` (whether or not the left-most
bucket is closed: under (A) no observation sits on the lower edge). -/
theorem buckets_model_eq_spec (closedLeft : Bool) (edgeLo : E) (ll : Option E) (obs : List E) (lu : Option E)
    (edgeHi : E) (nLower nUpper : Nat) (H : BucketHyps edgeLo ll obs lu edgeHi) :
    ksModel? edgeLo ll obs lu edgeHi nLower nUpper
      = some (ksSpec closedLeft ll obs lu edgeHi nLower nUpper (zsModel edgeLo ll obs lu edgeHi)) := by
  rcases ll with _ | l <;> rcases lu with _ | u
  · -- no limits: every count is already the documented one
    obtain ⟨zs', hz, _, _, _, hks, hcl, _, _⟩ := bucket_prefix edgeLo none obs none edgeHi nLower nUpper H
    simp only [ksModel?]
    rw [hz, hcl, hks]
    simp only [Option.isSome_none, Bool.false_eq_true, if_false, Option.bind_some]
    rw [ksSpecOpen_no_upper _ _ _ _ _ _ _ _ (by simp)]
    congr 1
    apply List.map_congr_left
    intro z _
    simp [specNoPrev, rawCount]
  · -- right-censored only
    obtain ⟨zs', hz, hs, hlo, hmem, hks, hcl, hhi, hmax⟩ :=
      bucket_prefix edgeLo none obs (some u) edgeHi nLower nUpper H
    have huh : u < edgeHi := H.sideB u rfl
    obtain ⟨xs, hshape, hltx⟩ := tail_shape hs ((hmem u).mpr (by simp)) hhi huh hmax (by
      intro x hx hne
      have := (hmem x).mp hx
      simp only [Option.toList_none, Option.toList_some, List.nil_append, List.mem_append, List.mem_singleton] at this
      rcases this with (h | h) | h
      · exact H.obs_le_lu u rfl x h
      · exact le_of_eq h
      · exact absurd h hne)
    have hhi_obs : mult edgeHi obs = 0 := by
      apply mult_eq_zero_of_not_mem
      intro hm
      exact absurd (lt_of_le_of_lt (H.obs_le_lu u rfl _ hm) huh) (lt_irrefl _)
    simp only [ksModel?]
    rw [hz, hcl, hks, hshape]
    simp only [Option.isSome_none, Option.isSome_some, Bool.false_eq_true, if_false, if_true, Option.bind_some]
    rw [List.map_append, List.map_cons, List.map_cons, List.map_nil, fixTail?_append]
    rw [ksSpecOpen_upper none obs (some u) edgeHi nLower nUpper u edgeHi rfl edgeLo xs (by
      intro x hx
      rcases List.mem_cons.mp hx with rfl | hx
      · exact ne_of_lt (hlo u (by rw [hshape]; simp))
      · exact ne_of_lt (hltx x hx))]
    simp only [List.map_append, List.map_cons, List.map_nil, List.append_assoc, List.cons_append,
      List.nil_append]
    congr 2
    · apply List.map_congr_left
      intro z hz'
      have hzu : z ≠ u := ne_of_lt (hltx z hz')
      have hzh : z ≠ edgeHi := ne_of_lt (lt_trans (hltx z hz') huh)
      simp [specNoPrev, rawCount, hzu.symm, hzh]
    · have e1 : rawCount none obs (some u) edgeHi u - 1 = specNoPrev none obs edgeHi nLower u := by
        simp [specNoPrev, rawCount, ne_of_lt huh]
      have e2 : nUpper + 1 = specNoPrev none obs edgeHi nLower edgeHi + nUpper := by
        simp [specNoPrev, hhi_obs]; omega
      rw [e1, e2]
  · -- left-censored only
    obtain ⟨zs', hz, hs, hlo, hmem, hks, hcl, hhi, hmax⟩ :=
      bucket_prefix edgeLo (some l) obs none edgeHi nLower nUpper H
    have hl_mem : l ∈ zs' := (hmem l).mpr (by simp)
    have hminl : ∀ x ∈ zs', l ≤ x := by
      intro x hx
      have := (hmem x).mp hx
      simp only [Option.toList_none, Option.toList_some, List.append_nil, List.mem_append, List.mem_singleton,
        List.mem_cons, List.not_mem_nil, or_false] at this
      rcases this with (h | h) | h
      · exact le_of_eq h.symm
      · exact le_of_lt (H.obs_gt_ll l rfl x h)
      · exact h ▸ le_of_lt (H.ll_lt_hi l rfl)
    obtain ⟨L2, hL2⟩ := sorted_head_eq hs hl_mem hminl
    have hl_lt : ∀ x ∈ L2, l < x := by rw [hL2] at hs; exact (List.pairwise_cons.mp hs).1
    have hl_obs : mult l obs = 0 := by
      apply mult_eq_zero_of_not_mem
      intro hm
      exact absurd (H.obs_gt_ll l rfl l hm) (lt_irrefl _)
    have hl_ne_hi : l ≠ edgeHi := ne_of_lt (H.ll_lt_hi l rfl)
    simp only [ksModel?]
    rw [hz, hcl, hks, hL2]
    simp only [Option.isSome_none, Option.isSome_some, Bool.false_eq_true, if_false, if_true,
      List.map_cons, setHead?, Option.bind_some]
    rw [ksSpecOpen_no_upper _ _ _ _ _ _ _ _ (by simp)]
    rw [List.map_cons]
    congr 1
    congr 1
    · simp [specNoPrev, hl_obs, hl_ne_hi]
    · apply List.map_congr_left
      intro z hz'
      have hzl : z ≠ l := ne_of_gt (hl_lt z hz')
      simp [specNoPrev, rawCount, hzl.symm]
  · -- censored on both sides
    obtain ⟨zs', hz, hs, hlo, hmem, hks, hcl, hhi, hmax⟩ :=
      bucket_prefix edgeLo (some l) obs (some u) edgeHi nLower nUpper H
    have huh : u < edgeHi := H.sideB u rfl
    have hlu' : l < u := H.ll_lt_lu l u rfl rfl
    have hl_mem : l ∈ zs' := (hmem l).mpr (by simp)
    have hminl : ∀ x ∈ zs', l ≤ x := by
      intro x hx
      have := (hmem x).mp hx
      simp only [Option.toList_some, List.mem_append, List.mem_singleton,
        List.mem_cons, List.not_mem_nil, or_false] at this
      rcases this with ((h | h) | h) | h
      · exact le_of_eq h.symm
      · exact le_of_lt (H.obs_gt_ll l rfl x h)
      · exact h ▸ le_of_lt hlu'
      · exact h ▸ le_of_lt (H.ll_lt_hi l rfl)
    obtain ⟨L2, hL2⟩ := sorted_head_eq hs hl_mem hminl
    have hsL2 : L2.Pairwise (· < ·) := by rw [hL2] at hs; exact (List.pairwise_cons.mp hs).2
    have hl_lt : ∀ x ∈ L2, l < x := by rw [hL2] at hs; exact (List.pairwise_cons.mp hs).1
    have hl_obs : mult l obs = 0 := by
      apply mult_eq_zero_of_not_mem
      intro hm
      exact absurd (H.obs_gt_ll l rfl l hm) (lt_irrefl _)
    have hl_ne_hi : l ≠ edgeHi := ne_of_lt (H.ll_lt_hi l rfl)
    have hmemL2 : ∀ x, x ∈ L2 → x ∈ zs' := fun x hx => by rw [hL2]; simp [hx]
    have hu2 : u ∈ L2 := by
      have : u ∈ zs' := (hmem u).mpr (by simp)
      rw [hL2] at this
      rcases List.mem_cons.mp this with h | h
      · exact absurd h (ne_of_gt hlu')
      · exact h
    have hh2 : edgeHi ∈ L2 := by
      rw [hL2] at hhi
      rcases List.mem_cons.mp hhi with h | h
      · exact absurd h.symm hl_ne_hi
      · exact h
    obtain ⟨xs, hshape, hltx⟩ := tail_shape hsL2 hu2 hh2 huh (fun x hx => hmax x (hmemL2 x hx)) (by
      intro x hx hne
      have := (hmem x).mp (hmemL2 x hx)
      simp only [Option.toList_some, List.mem_append, List.mem_singleton,
        List.mem_cons, List.not_mem_nil, or_false] at this
      rcases this with ((h | h) | h) | h
      · exact absurd (hl_lt x hx) (by simp [h])
      · exact H.obs_le_lu u rfl x h
      · exact le_of_eq h
      · exact absurd h hne)
    have hhi_obs : mult edgeHi obs = 0 := by
      apply mult_eq_zero_of_not_mem
      intro hm
      exact absurd (lt_of_le_of_lt (H.obs_le_lu u rfl _ hm) huh) (lt_irrefl _)
    simp only [ksModel?]
    rw [hz, hcl, hks, hL2, hshape]
    simp only [Option.isSome_some, if_true, List.map_cons, setHead?, Option.bind_some]
    rw [List.map_append, List.map_cons, List.map_cons, List.map_nil, ← List.cons_append, fixTail?_append]
    have hne : ∀ x ∈ edgeLo :: (l :: xs), x ≠ u := by
      intro x hx
      rcases List.mem_cons.mp hx with rfl | hx
      · exact ne_of_lt (hlo u (hmemL2 u hu2))
      · rcases List.mem_cons.mp hx with rfl | hx
        · exact ne_of_lt hlu'
        · exact ne_of_lt (hltx x hx)
    rw [← List.cons_append, ksSpecOpen_upper (some l) obs (some u) edgeHi nLower nUpper u edgeHi rfl edgeLo (l :: xs) hne]
    simp only [List.map_append, List.map_cons, List.map_nil, List.append_assoc, List.cons_append,
      List.nil_append]
    have e0 : nLower = specNoPrev (some l) obs edgeHi nLower l := by
      simp [specNoPrev, hl_obs, hl_ne_hi]
    have e1 : rawCount (some l) obs (some u) edgeHi u - 1 = specNoPrev (some l) obs edgeHi nLower u := by
      simp [specNoPrev, rawCount, ne_of_lt huh, ne_of_lt hlu']
    have e2 : nUpper + 1 = specNoPrev (some l) obs edgeHi nLower edgeHi + nUpper := by
      simp [specNoPrev, hhi_obs, hl_ne_hi]; omega
    rw [e1, e2, ← e0]
    congr 3
    apply List.map_congr_left
    intro z hz'
    have hz2 : z ∈ L2 := by rw [hshape]; simp [hz']
    have hzl : z ≠ l := ne_of_gt (hl_lt z hz2)
    have hzu : z ≠ u := ne_of_lt (hltx z hz')
    have hzh : z ≠ edgeHi := ne_of_lt (lt_trans (hltx z hz') huh)
    simp [specNoPrev, rawCount, hzl.symm, hzu.symm, hzh]

/-! ## C10-T2: the counts sum to `n + 1` -/

theorem sumNat_eq_sum (l : List Nat) : sumNat l = l.sum := by
  induction l with
  | nil => rfl
  | cons x xs ih => simp [sumNat, ih]

theorem sum_map_ite_eq (Z : List E) (hn : Z.Nodup) (a : E) (c : Nat) :
    (Z.map fun z => if z = a then c else 0).sum = if a ∈ Z then c else 0 := by
  induction Z with
  | nil => simp
  | cons z Z ih =>
    have hn' := (List.nodup_cons.mp hn)
    rw [List.map_cons, List.sum_cons, ih hn'.2]
    by_cases h : z = a
    · subst h; simp [hn'.1]
    · have : ¬ a = z := fun h' => h h'.symm
      simp [h, this]

theorem sum_map_mult (Z : List E) (hn : Z.Nodup) (obs : List E) (h : ∀ y ∈ obs, y ∈ Z) :
    (Z.map fun z => mult z obs).sum = obs.length := by
  induction obs with
  | nil => simp [mult]
  | cons y ys ih =>
    have e : (fun z => mult z (y :: ys)) = fun z => (if z = y then 1 else 0) + mult z ys := by
      funext z; rw [mult_cons]; by_cases h' : y = z
      · subst h'; simp
      · have : ¬ z = y := fun h'' => h' h''.symm
        simp [h', this]
    rw [e, List.sum_map_add, sum_map_ite_eq Z hn y 1, ih (fun y' hy' => h y' (List.mem_cons_of_mem _ hy'))]
    simp [h y (by simp)]; omega

/-- the right-censored counts along an edge list: `n_upper` for every bucket that starts at the upper limit -/
def sumUpper (lu : Option E) (nUpper : Nat) : List E → Nat
  | [] => 0
  | [_] => 0
  | zp :: z :: rest => (if lu = some zp then nUpper else 0) + sumUpper lu nUpper (z :: rest)

theorem sum_ksSpecOpen (ll : Option E) (obs : List E) (lu : Option E) (edgeHi : E) (nLower nUpper : Nat)
    (l : List E) :
    (ksSpecOpen ll obs lu edgeHi nLower nUpper l).sum
      = (l.tail.map (specNoPrev ll obs edgeHi nLower)).sum + sumUpper lu nUpper l := by
  induction l with
  | nil => rfl
  | cons zp l ih =>
    cases l with
    | nil => rfl
    | cons z rest =>
      show (specCount ll obs lu edgeHi nLower nUpper zp z
          :: ksSpecOpen ll obs lu edgeHi nLower nUpper (z :: rest)).sum = _
      rw [List.sum_cons, ih, specCount_eq]
      simp [sumUpper]; omega

theorem sumUpper_of_not_mem (u : E) (nUpper : Nat) (l : List E) (h : u ∉ l) : sumUpper (some u) nUpper l = 0 := by
  induction l with
  | nil => rfl
  | cons zp l ih =>
    cases l with
    | nil => rfl
    | cons z rest =>
      simp only [List.mem_cons, not_or] at h
      have : ¬ u = zp := h.1
      simp only [sumUpper, Option.some.injEq, this, if_false, Nat.zero_add]
      exact ih (by simp [h.2.1, h.2.2])

theorem sumUpper_of_mem (u : E) (nUpper : Nat) (l : List E) (hs : l.Pairwise (· < ·)) (hu : u ∈ l)
    (hnl : ∃ y ∈ l, u < y) : sumUpper (some u) nUpper l = nUpper := by
  induction l with
  | nil => simp at hu
  | cons zp l ih =>
    have hlt := (List.pairwise_cons.mp hs).1
    have hs' := (List.pairwise_cons.mp hs).2
    cases l with
    | nil =>
      obtain ⟨y, hy, huy⟩ := hnl
      simp at hu hy; subst hu hy; exact absurd huy (lt_irrefl _)
    | cons z rest =>
      by_cases h : u = zp
      · subst h
        have : u ∉ z :: rest := fun hm => absurd (hlt u hm) (lt_irrefl _)
        simp [sumUpper, sumUpper_of_not_mem u nUpper _ this]
      · have hu' : u ∈ z :: rest := by
          rcases List.mem_cons.mp hu with h' | h'
          · exact absurd h' h
          · exact h'
        have hnl' : ∃ y ∈ z :: rest, u < y := by
          obtain ⟨y, hy, huy⟩ := hnl
          rcases List.mem_cons.mp hy with rfl | hy
          · exact absurd (lt_trans huy (hlt u hu')) (lt_irrefl _)
          · exact ⟨y, hy, huy⟩
        simp only [sumUpper, Option.some.injEq, h, if_false, Nat.zero_add]
        exact ih hs' hu' hnl'

/-- **C10-T2.** Under (A) and (B) the model's counts sum to `n_lower + #observed + n_upper + 1 = n + 1`
(the censored counts enter only when the corresponding limit point is present, i.e. when they are
positive). -/
theorem sum_ks_eq (edgeLo : E) (ll : Option E) (obs : List E) (lu : Option E)
    (edgeHi : E) (nLower nUpper : Nat) (H : BucketHyps edgeLo ll obs lu edgeHi) :
    ∃ ks, ksModel? edgeLo ll obs lu edgeHi nLower nUpper = some ks ∧
      sumNat ks = (if ll.isSome then nLower else 0) + obs.length + (if lu.isSome then nUpper else 0) + 1 := by
  refine ⟨_, buckets_model_eq_spec false edgeLo ll obs lu edgeHi nLower nUpper H, ?_⟩
  obtain ⟨zs', hz, hs, hlo, hmem, _, _, hhi, hmax⟩ := bucket_prefix edgeLo ll obs lu edgeHi nLower nUpper H
  have hnodup : zs'.Nodup := hs.imp (fun h => ne_of_lt h)
  have hsfull : (edgeLo :: zs').Pairwise (· < ·) := List.pairwise_cons.mpr ⟨hlo, hs⟩
  rw [hz, sumNat_eq_sum]
  show (ksSpecOpen ll obs lu edgeHi nLower nUpper (edgeLo :: zs')).sum = _
  rw [sum_ksSpecOpen, List.tail_cons]
  have hfun : specNoPrev ll obs edgeHi nLower
      = fun z => mult z obs + ((if ll = some z then nLower else 0) + (if z = edgeHi then 1 else 0)) := by
    funext z; unfold specNoPrev; omega
  rw [hfun, List.sum_map_add, List.sum_map_add, sum_map_mult zs' hnodup obs (fun y hy => (hmem y).mpr (by simp [hy])),
    sum_map_ite_eq zs' hnodup edgeHi 1]
  have hl : (zs'.map fun z => if ll = some z then nLower else 0).sum = if ll.isSome then nLower else 0 := by
    cases hll : ll with
    | none => simp
    | some l =>
      have : (fun z => if some l = some z then nLower else 0) = fun z => if z = l then nLower else 0 := by
        funext z; by_cases h : z = l
        · subst h; simp
        · have : ¬ l = z := fun h' => h h'.symm
          simp [h, this]
      rw [this, sum_map_ite_eq zs' hnodup l nLower]
      simp [(hmem l).mpr (by simp [hll])]
  have hu : sumUpper lu nUpper (edgeLo :: zs') = if lu.isSome then nUpper else 0 := by
    cases hlu : lu with
    | none =>
      have : ∀ l : List E, sumUpper none nUpper l = 0 := by
        intro l
        induction l with
        | nil => rfl
        | cons a l ih => cases l with
          | nil => rfl
          | cons b r => simp [sumUpper, ih]
      simp [this]
    | some u =>
      have hum : u ∈ zs' := (hmem u).mpr (by simp [hlu])
      rw [sumUpper_of_mem u nUpper _ hsfull (List.mem_cons_of_mem _ hum)
        ⟨edgeHi, List.mem_cons_of_mem _ hhi, H.sideB u hlu⟩]
      simp
  rw [hl, hu]
  simp [hhi]; omega

/-! ## C11-T4 / finding F2: when the positional fix-ups index out of range -/

/-- `ks[0] = …` / `ks[-2] -= 1` raise `IndexError` exactly when the count array after `ks[1:]` is too
short: no entry with left-censored observations, or fewer than two entries (= fewer than two buckets)
with right-censored observations. -/
theorem ksModel?_isSome_iff (edgeLo : E) (ll : Option E) (obs : List E) (lu : Option E) (edgeHi : E)
    (nLower nUpper : Nat) :
    (ksModel? edgeLo ll obs lu edgeHi nLower nUpper).isSome ↔
      (ll.isSome → 2 ≤ (zsModel edgeLo ll obs lu edgeHi).length) ∧
      (lu.isSome → 3 ≤ (zsModel edgeLo ll obs lu edgeHi).length) := by
  simp only [ksModel?, zsModel]
  set U := uniqueCounts (points edgeLo ll obs lu edgeHi)
  have hlen : (U.map Prod.snd).tail.length = (U.map Prod.fst).length - 1 := by simp
  generalize (U.map Prod.snd).tail = ks at hlen
  generalize (U.map Prod.fst).length = m at hlen
  cases ll with
  | none =>
    cases lu with
    | none => simp
    | some u =>
      simp only [Option.isSome_none, Option.isSome_some, Bool.false_eq_true, if_false, if_true, Option.bind_some,
        fixTail?_isSome_iff, false_imp_iff, true_imp_iff, true_and]
      omega
  | some l =>
    cases ks with
    | nil =>
      simp only [Option.isSome_some, if_true, setHead?, Option.bind_none, Option.isSome_none, true_imp_iff]
      simp at hlen
      constructor
      · intro h; exact absurd h (by simp)
      · intro h; omega
    | cons k ks' =>
      simp only [Option.isSome_some, if_true, setHead?, Option.bind_some, true_imp_iff]
      simp at hlen
      cases lu with
      | none => simp; omega
      | some u =>
        simp only [Option.isSome_some, if_true, fixTail?_isSome_iff, true_imp_iff, List.length_cons]
        omega

end Opda.Fit
