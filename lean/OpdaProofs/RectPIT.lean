import OpdaProofs.RectBand
import Mathlib.Probability.CDF
import Mathlib.Probability.Distributions.Gaussian.Real

/-!
# The probability integral transform, and the coverage of the band for EVERY continuous distribution (C01)

`ν` a probability measure on `ℝ` with continuous distribution function `F t = ν (-∞, t]`:
* `pit_map`: the law of `F(Y)`, `Y ∼ ν`, is the uniform law on `[0,1]`;
* `pit_pi`: for `n` independent draws the vector `(F(Y₁), …, F(Yₙ))` is `n` independent uniforms;
* `cdfPi_band`: the probability that the band with level tables `L`, `U` contains `F` everywhere is `coverage α β`.
-/
namespace Opda.RectProbP
open Opda.RectProb Opda.Band MeasureTheory Set Filter Topology
open scoped Finset

/-- the distribution function of a measure on `ℝ` -/
noncomputable def cdfOf (ν : Measure ℝ) (t : ℝ) : ℝ := (ν (Iic t)).toReal

section pit
variable (ν : Measure ℝ) [IsProbabilityMeasure ν]

theorem cdfOf_eq_cdf : cdfOf ν = ⇑(ProbabilityTheory.cdf ν) := by
  funext t
  rw [ProbabilityTheory.cdf_eq_real]
  rfl

theorem cdfOf_mono : Monotone (cdfOf ν) := by
  rw [cdfOf_eq_cdf]; exact ProbabilityTheory.monotone_cdf ν

omit [IsProbabilityMeasure ν] in
theorem cdfOf_nonneg (t : ℝ) : 0 ≤ cdfOf ν t := ENNReal.toReal_nonneg

theorem cdfOf_le_one (t : ℝ) : cdfOf ν t ≤ 1 := by
  rw [cdfOf_eq_cdf]; exact ProbabilityTheory.cdf_le_one ν t

theorem ofReal_cdfOf (t : ℝ) : ENNReal.ofReal (cdfOf ν t) = ν (Iic t) :=
  ENNReal.ofReal_toReal (measure_ne_top ν _)

theorem cdfOf_tendsto_atBot : Tendsto (cdfOf ν) atBot (𝓝 0) := by
  rw [cdfOf_eq_cdf]; exact ProbabilityTheory.tendsto_cdf_atBot ν

theorem cdfOf_tendsto_atTop : Tendsto (cdfOf ν) atTop (𝓝 1) := by
  rw [cdfOf_eq_cdf]; exact ProbabilityTheory.tendsto_cdf_atTop ν

variable {ν}

/-- for `t < 1` a non-empty sub-level set of a continuous distribution function is a half-line `(-∞, s]` -/
theorem sublevel_eq_Iic (hF : Continuous (cdfOf ν)) {t : ℝ} (ht1 : t < 1)
    (hne : {y | cdfOf ν y ≤ t}.Nonempty) :
    ∃ s, {y | cdfOf ν y ≤ t} = Iic s ∧ cdfOf ν s ≤ t := by
  have hclosed : IsClosed {y | cdfOf ν y ≤ t} := isClosed_le hF continuous_const
  have hbdd : BddAbove {y | cdfOf ν y ≤ t} := by
    obtain ⟨b, hb⟩ := ((cdfOf_tendsto_atTop ν).eventually (lt_mem_nhds ht1)).exists
    refine ⟨b, fun y hy => ?_⟩
    by_contra hlt
    exact absurd (lt_of_lt_of_le hb (le_trans (cdfOf_mono ν (not_le.mp hlt).le) hy)) (lt_irrefl _)
  have hmem := hclosed.csSup_mem hne hbdd
  refine ⟨sSup {y | cdfOf ν y ≤ t}, ?_, hmem⟩
  ext y
  constructor
  · intro hy; exact le_csSup hbdd hy
  · intro hy; exact le_trans (cdfOf_mono ν hy) hmem

/-- **probability integral transform, pointwise form**: `ν {y | F y ≤ t} = t` for `t ∈ [0,1)` -/
theorem measure_sublevel (hF : Continuous (cdfOf ν)) {t : ℝ} (ht0 : 0 ≤ t) (ht1 : t < 1) :
    ν {y | cdfOf ν y ≤ t} = ENNReal.ofReal t := by
  by_cases hne : {y | cdfOf ν y ≤ t}.Nonempty
  · obtain ⟨s, hs, hle⟩ := sublevel_eq_Iic hF ht1 hne
    rw [hs, ← ofReal_cdfOf]
    congr 1
    apply le_antisymm hle
    rcases ht0.eq_or_lt with rfl | hpos
    · exact cdfOf_nonneg ν s
    · -- intermediate value theorem: some point has `F = t`
      have h1 : ∃ a, cdfOf ν a ≤ t :=
        ((cdfOf_tendsto_atBot ν).eventually (gt_mem_nhds hpos)).exists.imp fun _ h => le_of_lt h
      have h2 : ∃ b, t ≤ cdfOf ν b :=
        ((cdfOf_tendsto_atTop ν).eventually (lt_mem_nhds ht1)).exists.imp fun _ h => le_of_lt h
      obtain ⟨x, hx⟩ := mem_range_of_exists_le_of_exists_ge hF h1 h2
      have hxs : x ∈ Iic s := by rw [← hs]; exact le_of_eq hx
      rw [← hx]
      exact cdfOf_mono ν hxs
  · rw [Set.not_nonempty_iff_eq_empty] at hne
    rw [hne, measure_empty]
    rcases ht0.eq_or_lt with rfl | hpos
    · simp
    · exfalso
      obtain ⟨a, ha⟩ := ((cdfOf_tendsto_atBot ν).eventually (gt_mem_nhds hpos)).exists
      have : a ∈ {y | cdfOf ν y ≤ t} := le_of_lt ha
      rw [hne] at this
      exact this

/-- **probability integral transform**: if the distribution function `F` of the probability measure `ν` is continuous,
the law of `F(Y)`, `Y ∼ ν`, is the uniform law on `[0,1]` -/
theorem pit_map (hF : Continuous (cdfOf ν)) :
    ν.map (cdfOf ν) = (volume : Measure ℝ).restrict (Icc 0 1) := by
  have : IsProbabilityMeasure (ν.map (cdfOf ν)) :=
    Measure.isProbabilityMeasure_map hF.measurable.aemeasurable
  apply Measure.ext_of_Iic
  intro t
  rw [Measure.map_apply hF.measurable measurableSet_Iic, Measure.restrict_apply measurableSet_Iic]
  show ν {y | cdfOf ν y ≤ t} = _
  rcases lt_or_ge t 0 with hneg | ht0
  · have h1 : {y | cdfOf ν y ≤ t} = ∅ := by
      ext y; simp only [Set.mem_ofPred_eq, Set.mem_empty_iff_false, iff_false, not_le]
      exact lt_of_lt_of_le hneg (cdfOf_nonneg ν y)
    have h2 : Iic t ∩ Icc (0 : ℝ) 1 = ∅ := by
      ext y; simp only [Set.mem_inter_iff, Set.mem_Iic, Set.mem_Icc, Set.mem_empty_iff_false, iff_false]
      intro h; linarith [h.1, h.2.1]
    rw [h1, h2, measure_empty, measure_empty]
  · rcases lt_or_ge t 1 with ht1 | ht1
    · have h2 : Iic t ∩ Icc (0 : ℝ) 1 = Icc 0 t := by
        ext y; simp only [Set.mem_inter_iff, Set.mem_Iic, Set.mem_Icc]
        constructor
        · intro h; exact ⟨h.2.1, h.1⟩
        · intro h; exact ⟨h.2, h.1, le_trans h.2 ht1.le⟩
      rw [measure_sublevel hF ht0 ht1, h2, Real.volume_Icc, sub_zero]
    · have h1 : {y | cdfOf ν y ≤ t} = univ := by
        ext y; simp only [Set.mem_ofPred_eq, Set.mem_univ, iff_true]
        exact le_trans (cdfOf_le_one ν y) ht1
      have h2 : Iic t ∩ Icc (0 : ℝ) 1 = Icc 0 1 := by
        ext y; simp only [Set.mem_inter_iff, Set.mem_Iic, Set.mem_Icc]
        constructor
        · intro h; exact h.2
        · intro h; exact ⟨le_trans h.2 ht1, h⟩
      rw [h1, h2, measure_univ, Real.volume_Icc, sub_zero, ENNReal.ofReal_one]

/-- `ν {y | F y ≤ t} = t` for every `t ∈ [0,1]` -/
theorem measure_sublevel_Icc (hF : Continuous (cdfOf ν)) {t : ℝ} (ht0 : 0 ≤ t) (ht1 : t ≤ 1) :
    ν {y | cdfOf ν y ≤ t} = ENNReal.ofReal t := by
  rcases ht1.lt_or_eq with h | rfl
  · exact measure_sublevel hF ht0 h
  · have h1 : {y | cdfOf ν y ≤ 1} = univ := by
      ext y; simp only [Set.mem_ofPred_eq, Set.mem_univ, iff_true]
      exact cdfOf_le_one ν y
    rw [h1, measure_univ, ENNReal.ofReal_one]

/-- **product form**: for `n` independent draws from `ν`, `(F(Y₁), …, F(Yₙ))` is distributed as `n` independent uniforms -/
theorem pit_pi (hF : Continuous (cdfOf ν)) (n : ℕ) :
    (Measure.pi fun _ : Fin n => ν).map (fun y i => cdfOf ν (y i)) = unifPi n := by
  have hsf : ∀ _ : Fin n, SigmaFinite (ν.map (cdfOf ν)) := fun _ => by rw [pit_map hF]; infer_instance
  rw [Measure.pi_map_pi (μ := fun _ : Fin n => ν) (f := fun _ => cdfOf ν)
    (fun _ => hF.measurable.aemeasurable)]
  unfold unifPi
  congr 1
  funext _
  exact pit_map hF

end pit

/-! ## measurability of the rectangle event -/
section meas

theorem measurable_count {n : ℕ} (p : ℝ → Prop) [DecidablePred p] (hp : MeasurableSet {x | p x}) :
    Measurable (fun u : Fin n → ℝ => #{j | p (u j)}) := by
  simp_rw [Finset.card_filter]
  refine Finset.measurable_sum _ fun j _ => ?_
  exact Measurable.ite (hp.preimage (measurable_pi_apply j)) measurable_const measurable_const

theorem measurableSet_Ev (alpha beta : List ℚ) : MeasurableSet (Ev alpha beta) := by
  unfold Ev
  rw [Set.ofPred_and]
  apply MeasurableSet.inter
  · simp only [Set.ofPred_forall]
    refine MeasurableSet.iInter fun i => MeasurableSet.iInter fun h => ?_
    exact measurableSet_le (measurable_count (fun x => x < ((alpha[i] : ℚ) : ℝ))
      (measurableSet_lt measurable_id measurable_const)) measurable_const
  · simp only [Set.ofPred_forall]
    refine MeasurableSet.iInter fun i => MeasurableSet.iInter fun h => ?_
    exact measurableSet_le measurable_const (measurable_count (fun x => x ≤ ((beta[i] : ℚ) : ℝ))
      (measurableSet_le measurable_id measurable_const))

end meas

/-! ## the band event for a general distribution function -/
section band

/-- the event "the band with level tables `L`, `U` built on the sample contains `F` at every `t`" -/
def BandEvF (n : ℕ) (F : ℝ → ℝ) (L U : ℕ → ℝ) : Set (Fin n → ℝ) :=
  {y | ∀ t k, IsCount n (sortedSeq y) t k → L k ≤ F t ∧ F t ≤ U k}

/-- a non-decreasing map commutes with taking order statistics -/
theorem orderStat_comp_mono {n : ℕ} {F : ℝ → ℝ} (hmono : Monotone F) (y : Fin n → ℝ) (i : Fin n) :
    orderStat (F ∘ y) i = F (orderStat y i) := by
  have hm : Monotone ((F ∘ y) ∘ Tuple.sort y) := fun a b hab => hmono (Tuple.monotone_sort y hab)
  have := (Tuple.comp_sort_eq_comp_iff_monotone (f := F ∘ y) (σ := Tuple.sort y)).mpr hm
  exact (congr_fun this i).symm

theorem bandF_iff_rect {n : ℕ} (L U : ℕ → ℝ) (hL0 : L 0 ≤ 0) (hUn : 1 ≤ U n)
    (F : ℝ → ℝ) (hmono : Monotone F) (hcont : Continuous F) (h0 : ∀ t, 0 ≤ F t) (h1 : ∀ t, F t ≤ 1)
    (y : Fin n → ℝ) (hinj : Function.Injective y) :
    y ∈ BandEvF n F L U ↔ ∀ i : Fin n, L (i.val + 1) ≤ orderStat (F ∘ y) i ∧ orderStat (F ∘ y) i ≤ U i.val := by
  have hstrict : StrictMono (orderStat y) :=
    (orderStat_mono y).strictMono_of_injective (hinj.comp (Tuple.sort y).injective)
  have hy : ∀ i j, i < j → j < n → sortedSeq y i < sortedSeq y j := by
    intro i j hij hj
    unfold sortedSeq
    rw [dif_pos (lt_trans hij hj), dif_pos hj]
    exact hstrict (by exact hij)
  have hbox := band_contains_iff_box n (sortedSeq y) hy L U F hmono hcont h0 h1 hL0 hUn
  unfold BandEvF
  rw [Set.mem_ofPred_eq, hbox]
  constructor
  · intro h i
    have := h i.val i.isLt
    unfold sortedSeq at this
    rw [dif_pos i.isLt] at this
    rw [orderStat_comp_mono hmono]
    exact this
  · intro h i hi
    unfold sortedSeq
    rw [dif_pos hi, ← orderStat_comp_mono hmono]
    exact h ⟨i, hi⟩

variable {ν : Measure ℝ} [IsProbabilityMeasure ν]

/-- almost surely the transformed sample `F(Yⱼ)` has no ties (hence the sample has none) -/
theorem ae_injective_cdf (hF : Continuous (cdfOf ν)) (n : ℕ) :
    ∀ᵐ y ∂(Measure.pi fun _ : Fin n => ν), Function.Injective (fun i => cdfOf ν (y i)) := by
  have hf : Measurable (fun (y : Fin n → ℝ) i => cdfOf ν (y i)) :=
    measurable_pi_lambda _ fun i => hF.measurable.comp (measurable_pi_apply i)
  have h := ae_injective n
  rw [← pit_pi hF n] at h
  exact ae_of_ae_map hf.aemeasurable h

/-- **coverage of the band for every continuous distribution**: for `n` independent draws from a probability measure
`ν` with continuous distribution function `F`, the probability that the band given by level tables `L`, `U` (with
`L 0 ≤ 0`, `1 ≤ U n`, `L (i+1) = αᵢ`, `U i = βᵢ`) contains `F` at every `t` is `coverage α β` -/
theorem cdfPi_band (hF : Continuous (cdfOf ν)) (alpha beta : List ℚ) (hlen : beta.length = alpha.length)
    (hα : ∀ x ∈ alpha, 0 ≤ x ∧ x ≤ 1) (hβ : ∀ x ∈ beta, 0 ≤ x ∧ x ≤ 1)
    (L U : ℕ → ℝ) (hL0 : L 0 ≤ 0) (hUn : 1 ≤ U alpha.length)
    (hL : ∀ i (h : i < alpha.length), L (i + 1) = ((alpha[i] : ℚ) : ℝ))
    (hU : ∀ i (h : i < beta.length), U i = ((beta[i] : ℚ) : ℝ)) :
    (Measure.pi fun _ : Fin alpha.length => ν) (BandEvF alpha.length (cdfOf ν) L U)
      = ENNReal.ofReal ((coverage alpha beta : ℚ) : ℝ) := by
  have hf : Measurable (fun (y : Fin alpha.length → ℝ) i => cdfOf ν (y i)) :=
    measurable_pi_lambda _ fun i => hF.measurable.comp (measurable_pi_apply i)
  rw [← unifPi_rect alpha beta hlen hα hβ, ← pit_pi hF alpha.length,
    Measure.map_apply hf (by rw [rect_eq_ev alpha beta hlen]; exact measurableSet_Ev alpha beta)]
  apply measure_congr
  filter_upwards [ae_injective_cdf hF alpha.length] with y hinjF
  have hinj : Function.Injective y := fun a b hab => hinjF (by simp only [hab])
  apply propext
  rw [show (BandEvF alpha.length (cdfOf ν) L U y) = (y ∈ BandEvF alpha.length (cdfOf ν) L U) from rfl,
    bandF_iff_rect L U hL0 hUn (cdfOf ν) (cdfOf_mono ν) hF (cdfOf_nonneg ν) (cdfOf_le_one ν) y hinj]
  show _ ↔ ∀ i : Fin alpha.length, _
  refine forall_congr' fun i => ?_
  rw [hL i.val i.isLt, hU i.val (by rw [hlen]; exact i.isLt)]
  rfl

end band

/-! ## which measures qualify: exactly the atomless ones -/
section atomless
variable (ν : Measure ℝ) [IsProbabilityMeasure ν]

/-- a probability measure without atoms has a continuous distribution function -/
theorem cdfOf_continuous_of_nullSingleton [NullSingletonClass ν] : Continuous (cdfOf ν) := by
  rw [cdfOf_eq_cdf]
  refine continuous_iff_continuousAt.mpr fun x => ?_
  rw [(ProbabilityTheory.cdf ν).mono.continuousAt_iff_leftLim_eq_rightLim, (ProbabilityTheory.cdf ν).rightLim_eq]
  have h := (ProbabilityTheory.cdf ν).measure_singleton x
  rw [ProbabilityTheory.measure_cdf, measure_singleton, eq_comm, ENNReal.ofReal_eq_zero] at h
  exact le_antisymm ((ProbabilityTheory.cdf ν).mono.leftLim_le le_rfl) (by linarith)

/-- conversely a continuous distribution function means no atoms -/
theorem nullSingleton_of_cdfOf_continuous (hF : Continuous (cdfOf ν)) : NullSingletonClass ν := by
  refine ⟨fun x => ?_⟩
  rw [cdfOf_eq_cdf] at hF
  have h := (ProbabilityTheory.cdf ν).measure_singleton x
  rw [ProbabilityTheory.measure_cdf] at h
  rw [h, ENNReal.ofReal_eq_zero, sub_nonpos]
  have := ((ProbabilityTheory.cdf ν).mono.continuousAt_iff_leftLim_eq_rightLim).mp (hF.continuousAt (x := x))
  rw [(ProbabilityTheory.cdf ν).rightLim_eq] at this
  exact this.ge

/-- non-vacuity: the standard normal law has a continuous distribution function -/
theorem gaussian_cdfOf_continuous : Continuous (cdfOf (ProbabilityTheory.gaussianReal 0 1)) := by
  have := ProbabilityTheory.nullSingletonClass_gaussianReal (μ := 0) (v := 1) one_ne_zero
  exact cdfOf_continuous_of_nullSingleton _

end atomless

end Opda.RectProbP
