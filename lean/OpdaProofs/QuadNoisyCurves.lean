import OpdaModel.NoisyFloat
import OpdaModel.QuadNoisy
import OpdaProofs.NoisyLogic
import OpdaProofs.QuadNoisyDual
import OpdaProofs.QuadTrap
import Mathlib.Tactic

/-! C09 (noisy class): both tuning curves under reflection and under the affine map. -/
set_option linter.unusedSectionVars false

namespace Opda.Noisy
open Opda.TrapLoop

section field
variable {α : Type} [Field α] [LinearOrder α] [IsStrictOrderedRing α] {F : Fns α}

theorem level_compl (hF : Lawful F) (m : Bool) (q nn : α) : level F (!m) (1 - q) nn = 1 - level F m q nn := by
  unfold level
  cases m <;> simp [hF.n_cast]

/-- every quantile curve of `D` (`minimize = m`, level `q`) is minus the curve of `D'` (`minimize = ¬m`,
level `1 − q`), provided no bisection midpoint hits the level exactly -/
theorem qtc_reflect (hF : Lawful F) (hS : Symm F) (hP : SymmPpf F) (d : Params α) (hab : d.a < d.b)
    (nn q : α) (m : Bool) (h0 : 0 ≤ level F m q nn) (h1 : level F m q nn ≤ 1)
    (hnt : NoTie (cdf F d) (midpoint F) (level F m q nn) 30 (d.a - F.n 6 * d.o, d.b + F.n 6 * d.o)) :
    quantileTuningCurve F d nn q (some m) = - quantileTuningCurve F (reflect d) nn (1 - q) (some (!m)) := by
  unfold quantileTuningCurve
  simp only [Option.getD_some]
  rw [level_compl hF, ppf_reflect hF hS hP d hab _ h0 h1 hnt]

/-- with `minimize = None` on both sides (`D'.convex = ¬D.convex`) -/
theorem qtc_reflect_none (hF : Lawful F) (hS : Symm F) (hP : SymmPpf F) (d : Params α) (hab : d.a < d.b)
    (nn q : α) (h0 : 0 ≤ level F d.convex q nn) (h1 : level F d.convex q nn ≤ 1)
    (hnt : NoTie (cdf F d) (midpoint F) (level F d.convex q nn) 30 (d.a - F.n 6 * d.o, d.b + F.n 6 * d.o)) :
    quantileTuningCurve F d nn q none = - quantileTuningCurve F (reflect d) nn (1 - q) none := by
  have := qtc_reflect hF hS hP d hab nn q d.convex h0 h1 hnt
  unfold quantileTuningCurve at *
  simpa [reflect] using this

/-- `D.qtc = a + (b−a)·D₀.qtc` for levels strictly inside `(0,1)` -/
theorem qtc_affine (hF : Lawful F) (hQ : SqrtScale F) (d : Params α) (hab : d.a < d.b) (nn q : α)
    (mn : Option Bool) (h0 : 0 < level F (mn.getD d.convex) q nn) (h1 : level F (mn.getD d.convex) q nn < 1) :
    quantileTuningCurve F d nn q mn = d.a + (d.b - d.a) * quantileTuningCurve F (std0 d) nn q mn := by
  unfold quantileTuningCurve
  rw [ppf_affine hF hQ d hab _ h0 h1]
  rfl

end field

/-! ### the integrated average curve (over `ℝ`, any lawful `F`) -/

theorem n_eq_cast {F : Fns ℝ} (hF : Lawful F) : F.n = TrapLoop.cast := funext hF.n_cast

theorem intLo_reflect (F : Fns ℝ) (d : Params ℝ) : intLo F (reflect d) = - intHi F d := by
  unfold intLo intHi reflect; ring

theorem intHi_reflect (F : Fns ℝ) (d : Params ℝ) : intHi F (reflect d) = - intLo F d := by
  unfold intLo intHi reflect; ring

/-- **reflection of the integrated curve**: at every refinement level `i` the value the code would
return for `D'` (`minimize = ¬m`) is minus the value for `D` (`minimize = m`), with no side condition.
(The two loops may still stop at different `i` by rounding, which is why the property allows 2e-4 of
the scale.) -/
theorem avg_reflect {F : Fns ℝ} (hF : Lawful F) (hS : Symm F) (d : Params ℝ) (hab : d.a < d.b) (m : Bool)
    (nn : ℝ) (i : ℕ) :
    valueRep F.n F.pow (cdf F (reflect d)) (!m) nn (intLo F (reflect d)) (intHi F (reflect d)) i
      = - valueRep F.n F.pow (cdf F d) m nn (intLo F d) (intHi F d) i := by
  rw [intLo_reflect, intHi_reflect, n_eq_cast hF]
  apply valueRep_reflect
  intro x; rw [cdf_reflect hF hS d hab x]; ring

/-- LEGACY (pre-867c66b integrand, with the `1[y>0]` term): reflection needed "no grid point is exactly `0`" -/
theorem avgLegacy_reflect {F : Fns ℝ} (hF : Lawful F) (hS : Symm F) (d : Params ℝ) (hab : d.a < d.b) (m : Bool)
    (nn : ℝ) (i : ℕ)
    (h0 : ∀ k : ℕ, k ≤ 2^i → intHi F d - k * Trap.h (intLo F d) (intHi F d) i ≠ 0) :
    valueCur F.n F.pow (cdf F (reflect d)) (!m) nn (intLo F (reflect d)) (intHi F (reflect d)) i
      = - valueCur F.n F.pow (cdf F d) m nn (intLo F d) (intHi F d) i := by
  rw [intLo_reflect, intHi_reflect, n_eq_cast hF]
  apply valueCur_reflect
  · intro x; rw [cdf_reflect hF hS d hab x]; ring
  · exact h0

theorem intLo_affine {F : Fns ℝ} (d : Params ℝ) (hab : d.a < d.b) :
    intLo F d = d.a + (d.b - d.a) * intLo F (std0 d) := by
  have hne : d.b - d.a ≠ 0 := (sub_pos.mpr hab).ne'
  unfold intLo std0; simp only; field_simp; ring

theorem intHi_affine {F : Fns ℝ} (d : Params ℝ) (hab : d.a < d.b) :
    intHi F d = d.a + (d.b - d.a) * intHi F (std0 d) := by
  have hne : d.b - d.a ≠ 0 := (sub_pos.mpr hab).ne'
  unfold intHi std0; simp only; field_simp; ring

/-- **location–scale equivariance of the code's integrated curve** (integrate `1 − Fⁿ` resp. `(1−F)ⁿ` from
`lo`): at every refinement level the value for `D` is `a + (b−a)` times the value for `D₀` -/
theorem avgRep_affine {F : Fns ℝ} (hF : Lawful F) (hQ : SqrtScale F) (d : Params ℝ) (hab : d.a < d.b)
    (m : Bool) (nn : ℝ) (i : ℕ) :
    valueRep F.n F.pow (cdf F d) m nn (intLo F d) (intHi F d) i
      = d.a + (d.b - d.a) * valueRep F.n F.pow (cdf F (std0 d)) m nn (intLo F (std0 d)) (intHi F (std0 d)) i := by
  rw [intLo_affine d hab, intHi_affine d hab, n_eq_cast hF]
  exact valueRep_affine F.pow (cdf F d) (cdf F (std0 d)) d.a (d.b - d.a) (cdf_affine hF hQ d hab) m nn _ _ i

/-- the repair 867c66b is conservative: the legacy integrand (with `1[y>0]`) gave the same value as the code's
whenever `0` is not inside the integration range of the instance: `0 < a − 6o` or `b + 6o ≤ 0`.
(`D₀ = (0, 1, c, s)` never satisfies this — its range is `[−6s, 1+6s] ∋ 0` — and there the legacy values
were not location–scale equivariant: finding F4.) -/
theorem avgCur_eq_avgRep_partial {F : Fns ℝ} (hF : Lawful F) (d : Params ℝ) (hab : d.a ≤ d.b) (ho : 0 ≤ d.o)
    (m : Bool) (nn : ℝ) (i : ℕ) (h : 0 < intLo F d ∨ intHi F d ≤ 0) :
    valueCur F.n F.pow (cdf F d) m nn (intLo F d) (intHi F d) i
      = valueRep F.n F.pow (cdf F d) m nn (intLo F d) (intHi F d) i := by
  have hlh : intLo F d ≤ intHi F d := by
    unfold intLo intHi; rw [hF.n_cast]; push_cast; nlinarith
  rw [n_eq_cast hF]
  exact valueCur_eq_valueRep_partial F.pow (cdf F d) m nn _ _ i hlh h

/-- LEGACY: two instances of the same family whose integration ranges both avoid `0` -/
theorem avgCur_shift_partial {F : Fns ℝ} (hF : Lawful F) (hQ : SqrtScale F) (d : Params ℝ) (hab : d.a < d.b)
    (ho : 0 ≤ d.o) (t : ℝ) (m : Bool) (nn : ℝ) (i : ℕ)
    (h : 0 < intLo F d ∨ intHi F d ≤ 0) (h' : 0 < intLo F d + t ∨ intHi F d + t ≤ 0) :
    valueCur F.n F.pow (cdf F { d with a := d.a + t, b := d.b + t }) m nn
        (intLo F { d with a := d.a + t, b := d.b + t }) (intHi F { d with a := d.a + t, b := d.b + t }) i
      = t + valueCur F.n F.pow (cdf F d) m nn (intLo F d) (intHi F d) i := by
  set d' : Params ℝ := { d with a := d.a + t, b := d.b + t } with hd'
  have hab' : d'.a < d'.b := by simp [hd']; exact hab
  have hlo : intLo F d' = intLo F d + t := by unfold intLo; simp [hd']; ring
  have hhi : intHi F d' = intHi F d + t := by unfold intHi; simp [hd']; ring
  have hs : std0 d' = std0 d := by unfold std0; simp [hd']
  have hba : d'.b - d'.a = d.b - d.a := by simp [hd']
  rw [avgCur_eq_avgRep_partial hF d' hab'.le ho m nn i (by rw [hlo, hhi]; exact h'),
    avgCur_eq_avgRep_partial hF d hab.le ho m nn i h,
    avgRep_affine hF hQ d' hab' m nn i, avgRep_affine hF hQ d hab m nn i, hs, hba]
  simp [hd']; ring

end Opda.Noisy
