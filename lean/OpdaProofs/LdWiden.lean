import OpdaProofs.BandCor
import OpdaProofs.BetaHdV
import Mathlib.Algebra.Order.Floor.Ring
import Mathlib.Logic.Function.Basic
import Mathlib.Data.List.GetD
import Mathlib.Tactic
/-!
C02: "raising the confidence (same seed) never narrows the band" for the two `ld` methods.

`_ld_band_weights(n, confidence, kind, generator)` simulates the statistics `ts` (they depend on `n`, `kind` and the
generator state only — with the same seed they are the *same* array for every confidence), takes
`critical_value = np.quantile(ts, confidence)`, and the level tables are

    lo = clip([0] ++ [ℓ_k(critical_value) : k = 1..n]),   hi = clip([u_k(critical_value) : k = 1..n] ++ [1])

`(ℓ_k(v), u_k(v)) = interval(k, n+1−k, v)` the equal-tailed / highest-density interval of coverage `v` of Beta(k, n+1−k).
The clause therefore reduces to three monotonicity facts, proved here:

1. `npQuantile_mono` — the quantile of a fixed sample is non-decreasing in the level (numpy's default "linear" rule);
2. `band_widens_of_levels` — level-wise widening of the tables is widening of the band cdfs at every `t`;
3. `et_nested_of_monotoneOn` (equal-tailed: any non-decreasing quantile function; `betaQuantile` is one) and
   `hdLoEnd_antitoneOn` / `hdHiEnd_monotoneOn` (highest density: the interval is the level set `{x | hdcov x ≤ v}`, which grows with `v`).

`ld_band_widens` combines them for arbitrary end-point functions, `ld_et_band_widens` / `ld_hd_band_widens` are the two
instances with nothing left abstract.
-/
set_option linter.unusedSectionVars false
namespace Opda.LdWiden
open Set Opda.Emp Opda.Band Opda.BetaCheck Opda.LdStat Opda.BetaHdV

/-! ## 1. `np.quantile(ts, c)` is monotone in `c` -/

section quantile
variable {α : Type} [Field α] [LinearOrder α] [IsStrictOrderedRing α] [FloorRing α]

/-- piecewise-linear interpolation of a sequence at the real position `h ≥ 0` -/
def interp (f : ℕ → α) (h : α) : α := f ⌊h⌋₊ + (h - (⌊h⌋₊ : α)) * (f (⌊h⌋₊ + 1) - f ⌊h⌋₊)

theorem interp_bounds (f : ℕ → α) (hf : Monotone f) {h : α} (h0 : 0 ≤ h) :
    f ⌊h⌋₊ ≤ interp f h ∧ interp f h ≤ f (⌊h⌋₊ + 1) := by
  have h1 : (⌊h⌋₊ : α) ≤ h := Nat.floor_le h0
  have h2 : h < (⌊h⌋₊ : α) + 1 := Nat.lt_floor_add_one h
  have h3 : f ⌊h⌋₊ ≤ f (⌊h⌋₊ + 1) := hf (Nat.le_succ _)
  unfold interp
  constructor
  · nlinarith [mul_nonneg (sub_nonneg.2 h1) (sub_nonneg.2 h3)]
  · nlinarith [mul_nonneg (sub_nonneg.2 h2.le) (sub_nonneg.2 h3)]

/-- piecewise-linear interpolation of a non-decreasing sequence is non-decreasing -/
theorem interp_mono (f : ℕ → α) (hf : Monotone f) {h h' : α} (h0 : 0 ≤ h) (hh : h ≤ h') :
    interp f h ≤ interp f h' := by
  have h0' : 0 ≤ h' := h0.trans hh
  have hj : ⌊h⌋₊ ≤ ⌊h'⌋₊ := Nat.floor_le_floor hh
  rcases hj.eq_or_lt with e | lt
  · have h3 : f ⌊h⌋₊ ≤ f (⌊h⌋₊ + 1) := hf (Nat.le_succ _)
    unfold interp
    rw [← e]
    nlinarith [mul_nonneg (sub_nonneg.2 hh) (sub_nonneg.2 h3)]
  · exact (interp_bounds f hf h0).2.trans ((hf (Nat.succ_le_of_lt lt)).trans (interp_bounds f hf h0').1)

/-- the interpolation `s[j] + (h − j)(s[min(j+1, N−1)] − s[j])`, `j = ⌊h⌋`, at the virtual index `h` -/
def npQuantileAt (s : List α) (h : α) : α :=
  s.getD ⌊h⌋₊ 0 + (h - (⌊h⌋₊ : α)) * (s.getD (min (⌊h⌋₊ + 1) (s.length - 1)) 0 - s.getD ⌊h⌋₊ 0)

/-- **numpy's default `np.quantile(s, c)`** (`method="linear"`, the documented rule) for a *sorted* non-empty sample `s`
of length `N` and `c ∈ [0,1]`: virtual index `h = (N−1)c`, `j = ⌊h⌋`, value `s[j] + (h − j)(s[min(j+1,N−1)] − s[j])`.
(numpy sorts/partitions its argument first; `s` here is the sorted array.  That numpy computes this rule stays
compared by the harness.) -/
def npQuantile (s : List α) (c : α) : α := npQuantileAt s (((s.length : α) - 1) * c)

/-- the sample read with the index clamped to the last position -/
def clampIdx (s : List α) (i : ℕ) : α := s.getD (min i (s.length - 1)) 0

theorem getElem_le_of_le (s : List α) (hs : s.Pairwise (· ≤ ·)) {i k : ℕ} (hik : i ≤ k) (hk : k < s.length) :
    s[i]'(lt_of_le_of_lt hik hk) ≤ s[k] := by
  rcases hik.eq_or_lt with rfl | lt
  · exact le_rfl
  · exact List.pairwise_iff_getElem.mp hs i k _ hk lt

theorem clampIdx_mono (s : List α) (hs : s.Pairwise (· ≤ ·)) (hne : s ≠ []) : Monotone (clampIdx s) := by
  intro i k hik
  have hN : 0 < s.length := List.length_pos_iff.mpr hne
  have hi : min i (s.length - 1) < s.length := by omega
  have hk : min k (s.length - 1) < s.length := by omega
  show s.getD (min i (s.length - 1)) 0 ≤ s.getD (min k (s.length - 1)) 0
  rw [List.getD_eq_getElem _ _ hi, List.getD_eq_getElem _ _ hk]
  exact getElem_le_of_le s hs (by omega) hk

theorem cast_length_sub_one (s : List α) (hne : s ≠ []) : (s.length : α) - 1 = ((s.length - 1 : ℕ) : α) := by
  have hN : 1 ≤ s.length := List.length_pos_iff.mpr hne
  rw [Nat.cast_sub hN, Nat.cast_one]

theorem pos_nonneg (s : List α) (hne : s ≠ []) {c : α} (hc0 : 0 ≤ c) : 0 ≤ ((s.length : α) - 1) * c := by
  rw [cast_length_sub_one s hne]; exact mul_nonneg (Nat.cast_nonneg _) hc0

theorem floor_le_pred (s : List α) (hne : s ≠ []) {c : α} (hc1 : c ≤ 1) :
    ⌊((s.length : α) - 1) * c⌋₊ ≤ s.length - 1 := by
  apply Nat.floor_le_of_le
  rw [cast_length_sub_one s hne]
  exact mul_le_of_le_one_right (Nat.cast_nonneg _) hc1

/-- for `c ≤ 1` the rule is the interpolation of the clamped sequence -/
theorem npQuantile_eq_interp (s : List α) (hne : s ≠ []) {c : α} (hc1 : c ≤ 1) :
    npQuantile s c = interp (clampIdx s) (((s.length : α) - 1) * c) := by
  have hj := floor_le_pred s hne hc1
  unfold npQuantile npQuantileAt interp clampIdx
  rw [min_eq_left hj]

/-- **the quantile of a fixed sorted sample is non-decreasing in the level** -/
theorem npQuantile_mono (s : List α) (hs : s.Pairwise (· ≤ ·)) (hne : s ≠ []) {c c' : α}
    (hc0 : 0 ≤ c) (hcc : c ≤ c') (hc1 : c' ≤ 1) : npQuantile s c ≤ npQuantile s c' := by
  rw [npQuantile_eq_interp s hne (hcc.trans hc1), npQuantile_eq_interp s hne hc1]
  refine interp_mono _ (clampIdx_mono s hs hne) (pos_nonneg s hne hc0) ?_
  rw [cast_length_sub_one s hne]
  exact mul_le_mul_of_nonneg_left hcc (Nat.cast_nonneg _)

/-- level 0 is the smallest value -/
theorem npQuantile_zero (s : List α) : npQuantile s 0 = s.getD 0 0 := by
  simp [npQuantile, npQuantileAt]

/-- level 1 is the largest value -/
theorem npQuantile_one (s : List α) (hne : s ≠ []) : npQuantile s 1 = s.getD (s.length - 1) 0 := by
  unfold npQuantile npQuantileAt
  rw [mul_one, cast_length_sub_one s hne, Nat.floor_natCast]
  simp

/-- the value lies between the smallest and the largest sample value -/
theorem npQuantile_mem (s : List α) (hs : s.Pairwise (· ≤ ·)) (hne : s ≠ []) {c : α} (hc0 : 0 ≤ c) (hc1 : c ≤ 1) :
    s.getD 0 0 ≤ npQuantile s c ∧ npQuantile s c ≤ s.getD (s.length - 1) 0 := by
  constructor
  · rw [← npQuantile_zero s]; exact npQuantile_mono s hs hne le_rfl hc0 hc1
  · rw [← npQuantile_one s hne]; exact npQuantile_mono s hs hne hc0 hc1 le_rfl

/-- a sample of numbers in `[lo, hi]` has its quantiles in `[lo, hi]` -/
theorem npQuantile_mem_of_forall (s : List α) (hs : s.Pairwise (· ≤ ·)) (hne : s ≠ []) {lo hi : α}
    (hb : ∀ x ∈ s, lo ≤ x ∧ x ≤ hi) {c : α} (hc0 : 0 ≤ c) (hc1 : c ≤ 1) :
    lo ≤ npQuantile s c ∧ npQuantile s c ≤ hi := by
  have hN : 0 < s.length := List.length_pos_iff.mpr hne
  obtain ⟨h1, h2⟩ := npQuantile_mem s hs hne hc0 hc1
  rw [List.getD_eq_getElem _ _ hN] at h1
  rw [List.getD_eq_getElem _ _ (show s.length - 1 < s.length by omega)] at h2
  exact ⟨(hb _ (List.getElem_mem _)).1.trans h1, h2.trans (hb _ (List.getElem_mem _)).2⟩

end quantile

/-! ## 2. level-wise widening is band widening -/

section band
variable {E α : Type} [LinearOrder E] [OrderBot E] [OrderTop E] [Field α] [LinearOrder α] [IsStrictOrderedRing α]

/-- **level-wise widening ⇒ band widening**: same sample, same bounds; if the lower table decreases and the upper table
increases at every index, the lower band cdf decreases and the upper band cdf increases at every `t` (the band cdf at
`t` is the level indexed by the count of extended sample points `≤ t`, and the count does not depend on the levels). -/
theorem band_widens_of_levels (a b : E) (ys : List E) (lo lo' hi hi' : List α) (t : E)
    (hlo : lo.length = ys.length + 1) (hlo' : lo'.length = ys.length + 1)
    (hhi : hi.length = ys.length + 1) (hhi' : hi'.length = ys.length + 1)
    (hL : ∀ i, lo'.getD i 0 ≤ lo.getD i 0) (hU : ∀ i, hi.getD i 0 ≤ hi'.getD i 0) :
    cdf (support ⊥ ⊤ a b (bandObs a b ys lo')) t ≤ cdf (support ⊥ ⊤ a b (bandObs a b ys lo)) t
      ∧ cdf (support ⊥ ⊤ a b (bandObs a b ys hi)) t ≤ cdf (support ⊥ ⊤ a b (bandObs a b ys hi')) t :=
  ⟨band_cdf_le_of_levels_le a b ys lo' lo t hlo' hlo hL, band_cdf_le_of_levels_le a b ys hi hi' t hhi hhi' hU⟩

/-! ### the `ld` level tables as functions of the critical value -/

/-- `clip([0] ++ [ℓ_k(v) : k = 1..n], 0, 1)` (`clip 0 = 0`): the lower table of `_ld_band_weights`, `ℓ_k(v)` the lower
end point of `interval(k, n+1−k, v)` -/
def ldLo (l : ℕ → α → α) (n : ℕ) (v : α) : List α :=
  (List.range (n + 1)).map fun k : ℕ => if k = 0 then 0 else clip01 (l k v)

/-- `clip([u_k(v) : k = 1..n] ++ [1], 0, 1)` (`clip 1 = 1`): the upper table, index `k` holds `u_{k+1}(v)` -/
def ldHi (u : ℕ → α → α) (n : ℕ) (v : α) : List α :=
  (List.range (n + 1)).map fun k : ℕ => if k = n then 1 else clip01 (u (k + 1) v)

theorem ldLo_length (l : ℕ → α → α) (n : ℕ) (v : α) : (ldLo l n v).length = n + 1 := by simp [ldLo]
theorem ldHi_length (u : ℕ → α → α) (n : ℕ) (v : α) : (ldHi u n v).length = n + 1 := by simp [ldHi]

theorem ldLo_anti (l : ℕ → α → α) (n : ℕ) {v v' : α} (h : ∀ k, 1 ≤ k → k ≤ n → l k v' ≤ l k v) (i : ℕ) :
    (ldLo l n v').getD i 0 ≤ (ldLo l n v).getD i 0 := by
  unfold ldLo
  rw [getD_map_range, getD_map_range]
  split_ifs with h1 h2
  · exact le_rfl
  · exact clip01_mono (h i (by omega) (by omega))
  · exact le_rfl

theorem ldHi_mono (u : ℕ → α → α) (n : ℕ) {v v' : α} (h : ∀ k, 1 ≤ k → k ≤ n → u k v ≤ u k v') (i : ℕ) :
    (ldHi u n v).getD i 0 ≤ (ldHi u n v').getD i 0 := by
  unfold ldHi
  rw [getD_map_range, getD_map_range]
  split_ifs with h1 h2
  · exact le_rfl
  · exact clip01_mono (h (i + 1) (by omega) (by omega))
  · exact le_rfl

/-- **combination, arbitrary end-point functions**: the same sorted simulated statistics `ts ⊆ [0,1]`, `0 ≤ c ≤ c' ≤ 1`,
lower end points non-increasing and upper end points non-decreasing in the coverage on `[0,1]` ⇒ the band of `c'`
contains the band of `c` at every `t`. -/
theorem ld_band_widens [FloorRing α] (l u : ℕ → α → α) (a b : E) (ys : List E) (t : E) (ts : List α)
    (hsorted : ts.Pairwise (· ≤ ·)) (hne : ts ≠ []) (hunit : ∀ x ∈ ts, 0 ≤ x ∧ x ≤ 1)
    (hl : ∀ k, 1 ≤ k → k ≤ ys.length → AntitoneOn (l k) (Icc 0 1))
    (hu : ∀ k, 1 ≤ k → k ≤ ys.length → MonotoneOn (u k) (Icc 0 1))
    {c c' : α} (hc0 : 0 ≤ c) (hcc : c ≤ c') (hc1 : c' ≤ 1) :
    cdf (support ⊥ ⊤ a b (bandObs a b ys (ldLo l ys.length (npQuantile ts c')))) t
        ≤ cdf (support ⊥ ⊤ a b (bandObs a b ys (ldLo l ys.length (npQuantile ts c)))) t
      ∧ cdf (support ⊥ ⊤ a b (bandObs a b ys (ldHi u ys.length (npQuantile ts c)))) t
        ≤ cdf (support ⊥ ⊤ a b (bandObs a b ys (ldHi u ys.length (npQuantile ts c')))) t := by
  have hv : npQuantile ts c ≤ npQuantile ts c' := npQuantile_mono ts hsorted hne hc0 hcc hc1
  have hm : npQuantile ts c ∈ Icc (0 : α) 1 := npQuantile_mem_of_forall ts hsorted hne hunit hc0 (hcc.trans hc1)
  have hm' : npQuantile ts c' ∈ Icc (0 : α) 1 := npQuantile_mem_of_forall ts hsorted hne hunit (hc0.trans hcc) hc1
  exact band_widens_of_levels a b ys _ _ _ _ t (ldLo_length _ _ _) (ldLo_length _ _ _) (ldHi_length _ _ _)
    (ldHi_length _ _ _) (ldLo_anti l _ fun k h1 h2 => hl k h1 h2 hm hm' hv)
    (ldHi_mono u _ fun k h1 h2 => hu k h1 h2 hm hm' hv)

end band

/-! ## 3. equal-tailed intervals are nested in the coverage -/

section et
variable {α β : Type} [Field α] [LinearOrder α] [IsStrictOrderedRing α] [Preorder β]

/-- the equal-tailed interval of coverage `c` is `[Q((1−c)/2), Q((1+c)/2)]`; for any quantile function `Q` that is
non-decreasing on `[0,1]` the intervals are nested in `c ∈ [0,1]` -/
theorem et_nested_of_monotoneOn (Q : α → β) (hQ : MonotoneOn Q (Icc 0 1)) {c c' : α}
    (hc0 : 0 ≤ c) (hcc : c ≤ c') (hc1 : c' ≤ 1) :
    Q ((1 - c') / 2) ≤ Q ((1 - c) / 2) ∧ Q ((1 + c) / 2) ≤ Q ((1 + c') / 2) := by
  have h2 : (0 : α) < 2 := two_pos
  refine ⟨hQ ⟨?_, ?_⟩ ⟨?_, ?_⟩ ?_, hQ ⟨?_, ?_⟩ ⟨?_, ?_⟩ ?_⟩ <;>
    first
      | (apply div_nonneg <;> linarith)
      | (rw [div_le_one h2]; linarith)
      | (apply div_le_div_of_nonneg_right <;> linarith)

/-- the same for a quantile function non-decreasing everywhere (no restriction on the coverages) -/
theorem et_nested_of_monotone (Q : α → β) (hQ : Monotone Q) {c c' : α} (hcc : c ≤ c') :
    Q ((1 - c') / 2) ≤ Q ((1 - c) / 2) ∧ Q ((1 + c) / 2) ≤ Q ((1 + c') / 2) := by
  have h2 : (0 : α) ≤ 2 := zero_le_two
  exact ⟨hQ (div_le_div_of_nonneg_right (by linarith) h2), hQ (div_le_div_of_nonneg_right (by linarith) h2)⟩

end et

/-- **the Beta(a,b) quantile function** on `[0,1]`: the inverse of the distribution function `G a b` there -/
noncomputable def betaQuantile (a b : ℕ) (p : ℝ) : ℝ := Function.invFunOn (G a b) (Icc 0 1) p

/-- it is the `beta.ppf` of the specification: a point of `[0,1]` where the distribution function takes the value `p` -/
theorem betaQuantile_spec (a b : ℕ) (ha : 0 < a) (hb : 0 < b) {p : ℝ} (hp : p ∈ Icc (0 : ℝ) 1) :
    betaQuantile a b p ∈ Icc (0 : ℝ) 1 ∧ G a b (betaQuantile a b p) = p := by
  have hsurj : p ∈ G a b '' Icc 0 1 := by
    have h := intermediate_value_Icc (zero_le_one' ℝ) (continuous_G a b).continuousOn
    rw [G_zero a b ha, G_one a b hb] at h
    exact h hp
  exact ⟨Function.invFunOn_mem hsurj, Function.invFunOn_eq hsurj⟩

/-- and it is the only one -/
theorem betaQuantile_unique (a b : ℕ) (ha : 0 < a) (hb : 0 < b) {p x : ℝ} (hx : x ∈ Icc (0 : ℝ) 1) (h : G a b x = p) :
    betaQuantile a b p = x := by
  have hp : p ∈ Icc (0 : ℝ) 1 := by
    rw [← h, ← G_zero a b ha, ← G_one a b hb]
    exact ⟨(G_strictMonoOn a b ha hb).monotoneOn (left_mem_Icc.2 zero_le_one) hx hx.1,
      (G_strictMonoOn a b ha hb).monotoneOn hx (right_mem_Icc.2 zero_le_one) hx.2⟩
  obtain ⟨hm, he⟩ := betaQuantile_spec a b ha hb hp
  exact (G_strictMonoOn a b ha hb).injOn hm hx (he.trans h.symm)

/-- **the Beta quantile function is non-decreasing on `[0,1]`** (the distribution function is strictly increasing) -/
theorem betaQuantile_monotoneOn (a b : ℕ) (ha : 0 < a) (hb : 0 < b) : MonotoneOn (betaQuantile a b) (Icc 0 1) := by
  intro p hp p' hp' hpp
  obtain ⟨hm, he⟩ := betaQuantile_spec a b ha hb hp
  obtain ⟨hm', he'⟩ := betaQuantile_spec a b ha hb hp'
  exact ((G_strictMonoOn a b ha hb).le_iff_le hm hm').mp (by rw [he, he']; exact hpp)

/-- `beta_equal_tailed_interval(a, b, v) = (ppf((1−v)/2), ppf((1+v)/2))` -/
noncomputable def etLoEnd (a b : ℕ) (v : ℝ) : ℝ := betaQuantile a b ((1 - v) / 2)
noncomputable def etHiEnd (a b : ℕ) (v : ℝ) : ℝ := betaQuantile a b ((1 + v) / 2)

theorem etLoEnd_antitoneOn (a b : ℕ) (ha : 0 < a) (hb : 0 < b) : AntitoneOn (etLoEnd a b) (Icc 0 1) :=
  fun _ hv _ hv' h => (et_nested_of_monotoneOn _ (betaQuantile_monotoneOn a b ha hb) hv.1 h hv'.2).1

theorem etHiEnd_monotoneOn (a b : ℕ) (ha : 0 < a) (hb : 0 < b) : MonotoneOn (etHiEnd a b) (Icc 0 1) :=
  fun _ hv _ hv' h => (et_nested_of_monotoneOn _ (betaQuantile_monotoneOn a b ha hb) hv.1 h hv'.2).2

/-! ## 3'. highest-density intervals are nested in the coverage

`hdcov a b x` (OpdaProofs/BetaHdV) is the coverage of the smallest highest-density interval of Beta(a,b) containing `x`: the
mass of the density level set through `x`.  The highest-density interval of coverage `v` is the set of points whose
smallest HD interval has coverage at most `v`, `{x ∈ [0,1] | hdcov x ≤ v}`; it grows with `v` by definition, and by the
V shape of `hdcov` (strictly decreasing up to the mode, strictly increasing after it) it is order-connected with the two
points where `hdcov = v` as its least and greatest elements. -/

/-- the highest-density region of coverage `v`: `{x ∈ [0,1] | hdcov a b x ≤ v}` -/
def hdSet (a b : ℕ) (v : ℝ) : Set ℝ := {x | x ∈ Icc (0 : ℝ) 1 ∧ hdcov a b x ≤ v}

/-- lower / upper end point of `beta_highest_density_interval(a, b, v)` -/
noncomputable def hdLoEnd (a b : ℕ) (v : ℝ) : ℝ := sInf (hdSet a b v)
noncomputable def hdHiEnd (a b : ℕ) (v : ℝ) : ℝ := sSup (hdSet a b v)

theorem hdSet_mono (a b : ℕ) {v v' : ℝ} (h : v ≤ v') : hdSet a b v ⊆ hdSet a b v' := fun _ hx => ⟨hx.1, hx.2.trans h⟩

theorem hdSet_bddBelow (a b : ℕ) (v : ℝ) : BddBelow (hdSet a b v) := ⟨0, fun _ hx => hx.1.1⟩
theorem hdSet_bddAbove (a b : ℕ) (v : ℝ) : BddAbove (hdSet a b v) := ⟨1, fun _ hx => hx.1.2⟩

theorem mode_mem_unit (a b : ℕ) : mode a b ∈ Icc (0 : ℝ) 1 := ⟨mode_nonneg a b, mode_le_one a b⟩

theorem hdcov_mode (a b : ℕ) (hab : 2 < a + b) (ha : 0 < a) (hb : 0 < b) : hdcov a b (mode (a - 1) (b - 1)) = 0 := by
  rw [hdcov_of_mem a b (mode_mem_unit _ _), hdcovRaw_mode a b hab ha hb]

/-- the mode belongs to every region of coverage `v ≥ 0` -/
theorem mode_mem_hdSet (a b : ℕ) (hab : 2 < a + b) (ha : 0 < a) (hb : 0 < b) {v : ℝ} (hv : 0 ≤ v) :
    mode (a - 1) (b - 1) ∈ hdSet a b v := ⟨mode_mem_unit _ _, (hdcov_mode a b hab ha hb).trans_le hv⟩

/-- **the lower end point does not increase with the coverage** -/
theorem hdLoEnd_antitoneOn (a b : ℕ) (hab : 2 < a + b) (ha : 0 < a) (hb : 0 < b) : AntitoneOn (hdLoEnd a b) (Icc 0 1) :=
  fun _ hv _ _ h => csInf_le_csInf (hdSet_bddBelow a b _) ⟨_, mode_mem_hdSet a b hab ha hb hv.1⟩ (hdSet_mono a b h)

/-- **the upper end point does not decrease with the coverage** -/
theorem hdHiEnd_monotoneOn (a b : ℕ) (hab : 2 < a + b) (ha : 0 < a) (hb : 0 < b) : MonotoneOn (hdHiEnd a b) (Icc 0 1) :=
  fun _ hv _ _ h => csSup_le_csSup (hdSet_bddAbove a b _) ⟨_, mode_mem_hdSet a b hab ha hb hv.1⟩ (hdSet_mono a b h)

/-- the region is an interval: with two of its points it contains everything in between (V shape) -/
theorem hdSet_ordConnected (a b : ℕ) (hab : 2 < a + b) (ha : 0 < a) (hb : 0 < b) (v : ℝ) : (hdSet a b v).OrdConnected := by
  refine ⟨fun x hx z hz y hy => ?_⟩
  have hy01 : y ∈ Icc (0 : ℝ) 1 := ⟨hx.1.1.trans hy.1, hy.2.trans hz.1.2⟩
  refine ⟨hy01, ?_⟩
  rcases le_total y (mode (a - 1) (b - 1)) with hym | hym
  · exact ((hdcov_strictAntiOn a b hab ha hb).antitoneOn ⟨hx.1.1, hy.1.trans hym⟩ ⟨hy01.1, hym⟩ hy.1).trans hx.2
  · exact ((hdcov_strictMonoOn a b hab ha hb).monotoneOn ⟨hym, hy01.2⟩ ⟨hym.trans hy.2, hz.1.2⟩ hy.2).trans hz.2

/-- **the lower end point is the point left of the mode where the coverage function takes the value `v`** (what the
code's root search looks for) -/
theorem hdLoEnd_eq_of_hdcov_eq (a b : ℕ) (hab : 2 < a + b) (ha : 0 < a) (hb : 0 < b) {v x : ℝ}
    (hx : x ∈ Icc 0 (mode (a - 1) (b - 1))) (h : hdcov a b x = v) : hdLoEnd a b v = x := by
  have hm1 := mode_le_one (a - 1) (b - 1)
  refine IsLeast.csInf_eq ⟨⟨⟨hx.1, hx.2.trans hm1⟩, h.le⟩, fun t ht => ?_⟩
  by_contra hlt
  have hlt' : t < x := not_le.mp hlt
  have := hdcov_strictAntiOn a b hab ha hb ⟨ht.1.1, hlt'.le.trans hx.2⟩ hx hlt'
  linarith [ht.2]

/-- **the upper end point is the point right of the mode where the coverage function takes the value `v`** -/
theorem hdHiEnd_eq_of_hdcov_eq (a b : ℕ) (hab : 2 < a + b) (ha : 0 < a) (hb : 0 < b) {v y : ℝ}
    (hy : y ∈ Icc (mode (a - 1) (b - 1)) 1) (h : hdcov a b y = v) : hdHiEnd a b v = y := by
  have hm0 := mode_nonneg (a - 1) (b - 1)
  refine IsGreatest.csSup_eq ⟨⟨⟨hm0.trans hy.1, hy.2⟩, h.le⟩, fun t ht => ?_⟩
  by_contra hlt
  have hlt' : y < t := not_le.mp hlt
  have := hdcov_strictMonoOn a b hab ha hb hy ⟨hy.1.trans hlt'.le, ht.1.2⟩ hlt'
  linarith [ht.2]

/-- **the region of coverage `v` is the density level set of mass `v`** (`a, b ≥ 2`): if `x` left of the mode has
`hdcov x = v` — i.e. `[x, partnerR x] = {f ≥ f x}` has mass `v` — then the end points are `x` and `partnerR x`, the two
points of equal density the code's search returns. -/
theorem hd_ends_eq_level_set (a b : ℕ) (ha : 2 ≤ a) (hb : 2 ≤ b) {v x : ℝ}
    (hx : x ∈ Icc 0 (mode (a - 1) (b - 1))) (h : hdcov a b x = v) :
    hdLoEnd a b v = x ∧ hdHiEnd a b v = partnerR (a - 1) (b - 1) x
      ∧ G a b (partnerR (a - 1) (b - 1) x) - G a b x = v := by
  have hab : 2 < a + b := by omega
  have hpos : 0 < (a - 1) + (b - 1) := by omega
  have hp := (partnerR_mem (a - 1) (b - 1) hpos hx).1
  have hback : x = partnerL (a - 1) (b - 1) (partnerR (a - 1) (b - 1) x) :=
    partnerL_unique (a - 1) (b - 1) (by omega) hp hx (g_partnerR (a - 1) (b - 1) (by omega) hx).symm
  have hm1 := mode_le_one (a - 1) (b - 1)
  have hm0 := mode_nonneg (a - 1) (b - 1)
  have hvx : hdcov a b x = G a b (partnerR (a - 1) (b - 1) x) - G a b x :=
    (hdcov_of_mem a b ⟨hx.1, hx.2.trans hm1⟩).trans (hdcovRaw_left a b hx.2)
  have hvy : hdcov a b (partnerR (a - 1) (b - 1) x) = v := by
    rw [hdcov_of_mem a b ⟨hm0.trans hp.1, hp.2⟩, hdcovRaw_right' a b hab (by omega) (by omega) hp.1, ← hback, ← hvx, h]
  exact ⟨hdLoEnd_eq_of_hdcov_eq a b hab (by omega) (by omega) hx h,
    hdHiEnd_eq_of_hdcov_eq a b hab (by omega) (by omega) hp hvy, hvx.symm.trans h⟩

/-! ## 4. `ld_equal_tailed` -/

section main
variable {E : Type} [LinearOrder E] [OrderBot E] [OrderTop E]

/-- **ld_equal_tailed, same seed: raising the confidence never narrows the band.**  `ts`: the sorted simulated
statistics (values of a coverage function, in `[0,1]`), the same list for both confidences; critical values
`np.quantile(ts, c)`; tables `clip([0] ++ ppf_k((1−v)/2))`, `clip(ppf_k((1+v)/2) ++ [1])` with `ppf_k` the quantile
function of Beta(k, n+1−k). -/
theorem ld_et_band_widens (a b : E) (ys : List E) (t : E) (ts : List ℝ)
    (hsorted : ts.Pairwise (· ≤ ·)) (hne : ts ≠ []) (hunit : ∀ x ∈ ts, 0 ≤ x ∧ x ≤ 1)
    {c c' : ℝ} (hc0 : 0 ≤ c) (hcc : c ≤ c') (hc1 : c' ≤ 1) :
    cdf (support ⊥ ⊤ a b (bandObs a b ys
          (ldLo (fun k => etLoEnd k (ys.length + 1 - k)) ys.length (npQuantile ts c')))) t
        ≤ cdf (support ⊥ ⊤ a b (bandObs a b ys
          (ldLo (fun k => etLoEnd k (ys.length + 1 - k)) ys.length (npQuantile ts c)))) t
      ∧ cdf (support ⊥ ⊤ a b (bandObs a b ys
          (ldHi (fun k => etHiEnd k (ys.length + 1 - k)) ys.length (npQuantile ts c)))) t
        ≤ cdf (support ⊥ ⊤ a b (bandObs a b ys
          (ldHi (fun k => etHiEnd k (ys.length + 1 - k)) ys.length (npQuantile ts c')))) t :=
  ld_band_widens _ _ a b ys t ts hsorted hne hunit
    (fun k h1 h2 => etLoEnd_antitoneOn k _ (by omega) (by omega))
    (fun k h1 h2 => etHiEnd_monotoneOn k _ (by omega) (by omega)) hc0 hcc hc1

/-- **ld_highest_density, same seed: raising the confidence never narrows the band** (`n ≥ 2`: for `n = 1` the law is
Beta(1,1), which has no highest-density interval).  Tables `clip([0] ++ lo_k(v))`, `clip(hi_k(v) ++ [1])` with
`[lo_k(v), hi_k(v)]` the highest-density region of coverage `v` of Beta(k, n+1−k). -/
theorem ld_hd_band_widens (a b : E) (ys : List E) (t : E) (ts : List ℝ) (hn : 2 ≤ ys.length)
    (hsorted : ts.Pairwise (· ≤ ·)) (hne : ts ≠ []) (hunit : ∀ x ∈ ts, 0 ≤ x ∧ x ≤ 1)
    {c c' : ℝ} (hc0 : 0 ≤ c) (hcc : c ≤ c') (hc1 : c' ≤ 1) :
    cdf (support ⊥ ⊤ a b (bandObs a b ys
          (ldLo (fun k => hdLoEnd k (ys.length + 1 - k)) ys.length (npQuantile ts c')))) t
        ≤ cdf (support ⊥ ⊤ a b (bandObs a b ys
          (ldLo (fun k => hdLoEnd k (ys.length + 1 - k)) ys.length (npQuantile ts c)))) t
      ∧ cdf (support ⊥ ⊤ a b (bandObs a b ys
          (ldHi (fun k => hdHiEnd k (ys.length + 1 - k)) ys.length (npQuantile ts c)))) t
        ≤ cdf (support ⊥ ⊤ a b (bandObs a b ys
          (ldHi (fun k => hdHiEnd k (ys.length + 1 - k)) ys.length (npQuantile ts c')))) t :=
  ld_band_widens _ _ a b ys t ts hsorted hne hunit
    (fun k h1 h2 => hdLoEnd_antitoneOn k _ (by omega) (by omega) (by omega))
    (fun k h1 h2 => hdHiEnd_monotoneOn k _ (by omega) (by omega) (by omega)) hc0 hcc hc1

end main

end Opda.LdWiden
