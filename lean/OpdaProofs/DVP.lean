import Mathlib.LinearAlgebra.Lagrange
import Mathlib.Topology.Algebra.Polynomial
import Mathlib.Topology.Order.IntermediateValue
import Mathlib.Tactic

open Polynomial

/-- A real polynomial of degree ≤ n whose values strictly alternate in sign on n+2
increasing points is impossible. -/
theorem alt_sign_absurd (n : ℕ) (r : ℝ[X]) (hr : r.natDegree ≤ n)
    (x : Fin (n+2) → ℝ) (hx : StrictMono x) (σ : ℝ)
    (halt : ∀ i : Fin (n+2), 0 < σ * (-1)^(i:ℕ) * r.eval (x i)) : False := by
  -- roots between consecutive points
  have hroot : ∀ i : Fin (n+1), ∃ z, x i.castSucc < z ∧ z < x i.succ ∧ r.eval z = 0 := by
    intro i
    have h1 := halt i.castSucc
    have h2 := halt i.succ
    have hlt : x i.castSucc < x i.succ := hx (Fin.castSucc_lt_succ)
    have hcont : ContinuousOn (fun t => σ * (-1)^(i:ℕ) * r.eval t) (Set.Icc (x i.castSucc) (x i.succ)) :=
      (continuous_const.mul r.continuous).continuousOn
    have h2' : σ * (-1)^(i:ℕ) * r.eval (x i.succ) < 0 := by
      have : σ * (-1)^((i.succ : Fin (n+2)):ℕ) * r.eval (x i.succ)
          = -(σ * (-1)^(i:ℕ) * r.eval (x i.succ)) := by
        simp [Fin.val_succ, pow_succ]
      linarith [this ▸ h2]
    have h1' : 0 < σ * (-1)^(i:ℕ) * r.eval (x i.castSucc) := by simpa using h1
    have := intermediate_value_Ioo' hlt.le hcont
    obtain ⟨z, hz, hz0⟩ := this ⟨h2', h1'⟩
    refine ⟨z, hz.1, hz.2, ?_⟩
    have hne : σ * (-1)^(i:ℕ) ≠ 0 := by
      intro h0; simp [h0] at h1'
    exact (mul_eq_zero.mp hz0).resolve_left hne
  choose z hz1 hz2 hz0 using hroot
  have hzmono : StrictMono z := by
    apply Fin.strictMono_iff_lt_succ.mpr
    intro i
    calc z i.castSucc < x i.castSucc.succ := hz2 _
      _ = x i.succ.castSucc := by rfl
      _ < z i.succ := hz1 _
  have hzero : r = 0 := by
    apply Polynomial.eq_zero_of_degree_lt_of_eval_index_eq_zero (s := Finset.univ) (v := z)
      (hzmono.injective.injOn)
    · calc r.degree ≤ (r.natDegree : WithBot ℕ) := degree_le_natDegree
        _ ≤ (n : WithBot ℕ) := by exact_mod_cast hr
        _ < ((n+1 : ℕ) : WithBot ℕ) := by exact_mod_cast Nat.lt_succ_self n
        _ = (Finset.univ : Finset (Fin (n+1))).card := by simp
    · intro i _; exact hz0 i
  have := halt 0
  simp [hzero] at this

/-- de la Vallée-Poussin lower bound. -/
theorem dvp (n : ℕ) (f : ℝ → ℝ) (p q : ℝ[X]) (hp : p.natDegree ≤ n) (hq : q.natDegree ≤ n)
    (x : Fin (n+2) → ℝ) (hx : StrictMono x) (e σ : ℝ)
    (halt : ∀ i : Fin (n+2), e ≤ σ * (-1)^(i:ℕ) * (f (x i) - p.eval (x i))) (hσ : |σ| = 1) :
    ∃ i, e ≤ |f (x i) - q.eval (x i)| := by
  by_contra hcon
  push Not at hcon
  apply alt_sign_absurd n (q - p) ((natDegree_sub_le _ _).trans (max_le hq hp)) x hx σ
  intro i
  have h1 := halt i
  have h2 := hcon i
  have hs : |σ * (-1)^(i:ℕ)| = 1 := by simp [abs_mul, hσ]
  have h3 : σ * (-1)^(i:ℕ) * (f (x i) - q.eval (x i)) ≤ |f (x i) - q.eval (x i)| := by
    calc _ ≤ |σ * (-1)^(i:ℕ) * (f (x i) - q.eval (x i))| := le_abs_self _
      _ = _ := by rw [abs_mul, hs, one_mul]
  simp only [eval_sub]
  nlinarith

#print axioms dvp
