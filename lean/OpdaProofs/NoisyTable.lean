import OpdaProofs.TableSpec
import OpdaProofs.TableMoments
import OpdaProofs.NoisyConv
import OpdaGen.CertAll
/-!
C06 ∘ C19: the end-to-end accuracy of the model's cdf / pdf over `ℝ` **with the shipped table**.

`Props/C06.lean` proves, for an arbitrary table, that the odd-`c` cdf is within `ε` of the Spec whenever the selected
pieces tile `[0,1]` and are `ε`-accurate; `Props/C19.lean` proves that every piece of every entry of the table
regenerated from `_approximations.json` (`Opda.Gen.tableQ`) is `1.02·max_error`-accurate on its knot interval.  This
file joins them: `castTable` turns a rational table into the table the real instance reads, `tableLookup_castTable`
shows that the code's selection rule then returns the cast of the entry chosen by `selectR`, `zip_eq_piecesOf` that the
pieces the recursion walks through are C19's `piecesOf`, and the hypotheses `hchain` / `hε` of the conditional theorems
follow from `structOK` / `PieceBound` (`chain_of_lookup`, `eps_of_lookup`).  Everything up to the last section is
stated for an arbitrary rational table with those two certificates; the last section instantiates it with
`Opda.Gen.tableQ`, `Opda.Gen.Cert.struct_ok`, `Opda.Gen.Cert.table_bound`.
-/
namespace Opda.Noisy
open Opda.Table Opda.Gen Opda.PolyCheck
open MeasureTheory intervalIntegral Real Set

/-! ## the rational table as the real instance reads it -/

/-- one entry, every rational read as the real number it is (`max_error` is dropped: the algorithm never reads it) -/
noncomputable def castEntry (e : EntryQ) : Noisy.Entry ℝ :=
  { minScale := (e.minScale : ℝ)
    knots := e.knots.map (fun q : ℚ => (q : ℝ))
    coeffs := e.coeffs.map (fun cs => cs.map (fun q : ℚ => (q : ℝ))) }

/-- a rational table, cast entry by entry (same rows, same order, same keys) -/
noncomputable def castTable (T : List (ℕ × List EntryQ)) : List (ℕ × List (Noisy.Entry ℝ)) :=
  T.map fun p => (p.1, p.2.map castEntry)

/-- the code's selection rule at a **real** scale: the first entry with `min_scale ≤ scale` -/
noncomputable def selectR (es : List EntryQ) (σ : ℝ) : Option EntryQ :=
  es.find? fun e => decide ((e.minScale : ℝ) ≤ σ)

/-- at a rational scale `selectR` is C19's `select` -/
theorem selectR_cast (es : List EntryQ) (q : ℚ) : selectR es (q : ℝ) = select es q := by
  unfold selectR select
  congr 1
  funext e
  simp only [Rat.cast_le]

/-- the row of exponent `m/2`: the first row whose key is `m` (the code's dictionary lookup) -/
def rowOf (T : List (ℕ × List EntryQ)) (m : ℕ) : Option (ℕ × List EntryQ) := T.find? fun p => p.1 == m

theorem rowOf_mem {T : List (ℕ × List EntryQ)} {m : ℕ} {row : ℕ × List EntryQ} (h : rowOf T m = some row) :
    row ∈ T ∧ row.1 = m := by
  unfold rowOf at h
  exact ⟨List.mem_of_find?_eq_some h, by simpa using List.find?_some h⟩

theorem rowOf_isSome {T : List (ℕ × List EntryQ)} {m : ℕ} (h : ∃ row ∈ T, row.1 = m) : ∃ row, rowOf T m = some row := by
  obtain ⟨row, hrow, hm⟩ := h
  have : (rowOf T m).isSome = true := by
    unfold rowOf
    rw [List.find?_isSome]
    exact ⟨row, hrow, by simpa using hm⟩
  exact Option.isSome_iff_exists.mp this

/-- **lookup**: on the cast table the model's `tableLookup` returns the cast of the entry `selectR` picks in the row of
key `m` (and `none` exactly when there is no such row or no entry with `min_scale ≤ σ`). -/
theorem tableLookup_castTable (T : List (ℕ × List EntryQ)) (ninf pinf σ : ℝ) (m : ℕ) :
    tableLookup (realFns (castTable T) ninf pinf) σ (m : ℤ)
      = ((rowOf T m).bind fun row => selectR row.2 σ).map castEntry := by
  unfold tableLookup
  rw [if_neg (by omega)]
  have ht : (realFns (castTable T) ninf pinf).table = castTable T := rfl
  rw [ht]
  rw [Int.toNat_natCast]
  unfold castTable rowOf
  rw [List.find?_map]
  cases hrow : T.find? (fun p => p.1 == m) with
  | none =>
    have : List.find? ((fun p : ℕ × List (Noisy.Entry ℝ) => p.1 == m) ∘ fun p : ℕ × List EntryQ => (p.1, p.2.map castEntry)) T
        = none := hrow
    rw [this]; rfl
  | some row =>
    have : List.find? ((fun p : ℕ × List (Noisy.Entry ℝ) => p.1 == m) ∘ fun p : ℕ × List EntryQ => (p.1, p.2.map castEntry)) T
        = some row := hrow
    rw [this]
    show (row.2.map castEntry).find? (fun e : Noisy.Entry ℝ => decide ¬ (σ < e.minScale)) = (selectR row.2 σ).map castEntry
    rw [List.find?_map]
    unfold selectR
    congr 1
    apply List.find?_congr
    intro e _
    show decide _ = decide _
    apply decide_eq_decide.mpr
    simp [castEntry, not_lt]

/-- a well-formed row has an entry for every scale `σ ≥ 0` -/
theorem selectR_isSome (row : ℕ × List EntryQ) (h : rowOK row = true) (σ : ℝ) (hσ : 0 ≤ σ) :
    ∃ e, selectR row.2 σ = some e ∧ e ∈ row.2 ∧ (e.minScale : ℝ) ≤ σ := by
  unfold rowOK at h
  simp only [Bool.and_eq_true, decide_eq_true_eq] at h
  obtain ⟨⟨_, _⟩, hlast⟩ := h
  have hmem0 : (0 : ℚ) ∈ row.2.map (·.minScale) := getLast?_mem _ _ hlast
  obtain ⟨e0, he0, hz⟩ := List.mem_map.mp hmem0
  have hsome : (selectR row.2 σ).isSome = true := by
    unfold selectR
    rw [List.find?_isSome]
    exact ⟨e0, he0, by simp only [hz]; simpa using hσ⟩
  obtain ⟨e, he⟩ := Option.isSome_iff_exists.mp hsome
  refine ⟨e, he, ?_, ?_⟩
  · unfold selectR at he; exact List.mem_of_find?_eq_some he
  · unfold selectR at he
    simpa using List.find?_some he

/-- the pieces the recursion walks through (`zip(knots, knots[1:], coeffs)`) are C19's `piecesOf` -/
theorem zip_eq_piecesOf : ∀ (knots : List ℚ) (coeffs : List (List ℚ)),
    (((knots.map (fun q : ℚ => (q : ℝ))).zip (knots.map (fun q : ℚ => (q : ℝ))).tail).zip
        (coeffs.map (fun cs => cs.map (fun q : ℚ => (q : ℝ))))) = piecesOf knots coeffs
  | [], _ => by simp [piecesOf]
  | [_], _ => by simp [piecesOf]
  | _ :: _ :: _, [] => by simp [piecesOf]
  | lo :: hi :: ks, cs :: css => by
    have ih := zip_eq_piecesOf (hi :: ks) css
    simp only [List.map_cons, List.tail_cons, List.zip_cons_cons, piecesOf] at ih ⊢
    rw [ih]

/-! ## the conditional theorems that were still missing: concave cdf, density for odd `c ≥ 3` -/

section conditional
variable (T : List (ℕ × List (Noisy.Entry ℝ))) (ninf pinf : ℝ)

/-- the pieces `partialFractional` walks through for the order `m2/2` -/
noncomputable def selectedPieces (F : Fns ℝ) (μ σ : ℝ) (m2 : ℤ) : List ((ℝ × ℝ) × List ℝ) :=
  ((approxCoeffs F μ σ m2).1.zip (approxCoeffs F μ σ m2).1.tail).zip (approxCoeffs F μ σ m2).2

/-- odd order: the model's partial moment is within `ε` of `∫₀¹ x^{(2k+1)/2} dN(μ, σ²)` when the selected pieces tile
`[0,1]` and are `ε`-accurate -/
theorem partialMoment_odd_error (μ σ : ℝ) (hσ : 0 < σ) (k : ℕ) (ε : ℝ) (hε0 : 0 ≤ ε)
    (hchain : ChainFrom 0 (selectedPieces (realFns T ninf pinf) μ σ ((2 * k + 1 : ℕ) : ℤ)) 1)
    (hε : ∀ pc ∈ selectedPieces (realFns T ninf pinf) μ σ ((2 * k + 1 : ℕ) : ℤ),
      ∀ x ∈ Set.Icc pc.1.1 pc.1.2, |x ^ (((2 * k + 1 : ℕ) : ℝ) / 2) - polyEval pc.2 0 x| ≤ ε) :
    |(∫ x in (0:ℝ)..1, x ^ (((2 * k + 1 : ℕ) : ℝ) / 2) * dens μ σ x)
        - partialMoment (realFns T ninf pinf) μ σ ((2 * k + 1 : ℕ) : ℤ)| ≤ ε := by
  have hp1 : (0:ℝ) < ((2 * k + 1 : ℕ) : ℝ) / 2 := by positivity
  have hcont : Continuous fun x : ℝ => x ^ (((2 * k + 1 : ℕ) : ℝ) / 2) := Real.continuous_rpow_const hp1.le
  rw [partialMoment_odd T ninf pinf μ σ hσ k]
  exact chain_error_le μ σ ε hσ hε0 _ hcont 0 1 _ hchain hε

/-- **odd `c`, concave shape, series regime** (the analogue of `cdf_odd_convex_error`): if the selected pieces tile
`[0, 1]` and each polynomial is within `ε` of `x^{c/2}` on its piece, the model's cdf over `ℝ` is within `ε` of the Spec
`1 − H((b−y)/(b−a))`, the law of `b − (b−a)X + E` at `y`. -/
theorem cdf_odd_concave_error (d : Params ℝ) (k : ℕ) (hc : d.c = 2 * k + 1) (hcv : d.convex = false)
    (hab : d.a ≤ d.b) (hp : pointMass (realFns T ninf pinf) d = false)
    (h : regime (realFns T ninf pinf) d = .nothing) (y ε : ℝ) (hε0 : 0 ≤ ε)
    (hchain : ChainFrom 0
      (((approxCoeffs (realFns T ninf pinf) (locOf d y) (d.o / (d.b - d.a)) ((2 * k + 1 : ℕ) : ℤ)).1.zip
        (approxCoeffs (realFns T ninf pinf) (locOf d y) (d.o / (d.b - d.a)) ((2 * k + 1 : ℕ) : ℤ)).1.tail).zip
        (approxCoeffs (realFns T ninf pinf) (locOf d y) (d.o / (d.b - d.a)) ((2 * k + 1 : ℕ) : ℤ)).2) 1)
    (hε : ∀ pc ∈ (((approxCoeffs (realFns T ninf pinf) (locOf d y) (d.o / (d.b - d.a)) ((2 * k + 1 : ℕ) : ℤ)).1.zip
        (approxCoeffs (realFns T ninf pinf) (locOf d y) (d.o / (d.b - d.a)) ((2 * k + 1 : ℕ) : ℤ)).1.tail).zip
        (approxCoeffs (realFns T ninf pinf) (locOf d y) (d.o / (d.b - d.a)) ((2 * k + 1 : ℕ) : ℤ)).2),
      ∀ x ∈ Set.Icc pc.1.1 pc.1.2, |x ^ (((2 * k + 1 : ℕ) : ℝ) / 2) - polyEval pc.2 0 x| ≤ ε) :
    |cdf (realFns T ninf pinf) d y
        - (1 - mixture (((2 * k + 1 : ℕ) : ℝ) / 2) (d.o / (d.b - d.a)) ((d.b - y) / (d.b - d.a)))| ≤ ε := by
  obtain ⟨ho, hw⟩ := nothing_pos (realFns_lawful T ninf pinf) d hab h
  have hs : 0 < d.o / (d.b - d.a) := div_pos ho hw
  have hp1 : (0:ℝ) < ((2 * k + 1 : ℕ) : ℝ) / 2 := by positivity
  have hloc : locOf d y = (d.b - y) / (d.b - d.a) := by unfold locOf; simp [hcv]
  have hpt : (y - d.a) / d.o = -(((d.b - y) / (d.b - d.a) - 1) / (d.o / (d.b - d.a))) := by
    field_simp; ring
  have hm := conv_identity (((2 * k + 1 : ℕ) : ℝ) / 2) (d.o / (d.b - d.a)) ((d.b - y) / (d.b - d.a)) hp1 hs
  obtain ⟨m0, m1⟩ := mixture_mem (((2 * k + 1 : ℕ) : ℝ) / 2) (d.o / (d.b - d.a)) ((d.b - y) / (d.b - d.a)) hp1
  have herr := partialMoment_odd_error T ninf pinf (locOf d y) (d.o / (d.b - d.a)) hs k ε hε0 hchain hε
  rw [cdf_nothing d y hp h]
  unfold cdfRaw
  simp only [hcv, Bool.false_eq_true, if_false]
  rw [hc]
  show |clip _ ((0:ℕ):ℝ) ((1:ℕ):ℝ) - _| ≤ ε
  simp only [Nat.cast_zero, Nat.cast_one]
  have hclipm := clip_of_mem (1 - mixture (((2 * k + 1 : ℕ) : ℝ) / 2) (d.o / (d.b - d.a)) ((d.b - y) / (d.b - d.a))) 0 1
    (by linarith) (by linarith)
  rw [← hclipm]
  refine (clip_lipschitz _ _ 0 1 zero_le_one).trans ?_
  show |Phi ((y - d.a) / d.o) - _ - _| ≤ ε
  rw [hpt, Phi_neg, hm]
  rw [hloc] at herr ⊢
  have e : ∀ A B C : ℝ, 1 - A - B - (1 - (A + C)) = C - B := by intros; ring
  rw [e]
  exact herr

/-- **density, odd `c = 2k+3 ≥ 3`, both shapes, series regime**: `pdf` uses the partial moment of order `(c−2)/2 = (2k+1)/2`;
if the pieces selected for *that* order tile `[0,1]` and are `ε`-accurate, then `(b−a)·pdf(y)` is within `(c/2)·ε` of the
mixture density `h(loc) = ∫₀¹ dN(loc, scale²)(x) d(x^{c/2})` (the clip at `0` can only help, `h ≥ 0`). -/
theorem pdf_odd_error (d : Params ℝ) (k : ℕ) (hc : d.c = 2 * k + 3) (hab : d.a ≤ d.b)
    (hp : pointMass (realFns T ninf pinf) d = false) (h : regime (realFns T ninf pinf) d = .nothing) (y ε : ℝ)
    (hε0 : 0 ≤ ε)
    (hchain : ChainFrom 0
      (selectedPieces (realFns T ninf pinf) (locOf d y) (d.o / (d.b - d.a)) ((2 * k + 1 : ℕ) : ℤ)) 1)
    (hε : ∀ pc ∈ selectedPieces (realFns T ninf pinf) (locOf d y) (d.o / (d.b - d.a)) ((2 * k + 1 : ℕ) : ℤ),
      ∀ x ∈ Set.Icc pc.1.1 pc.1.2, |x ^ (((2 * k + 1 : ℕ) : ℝ) / 2) - polyEval pc.2 0 x| ≤ ε) :
    |(d.b - d.a) * pdf (realFns T ninf pinf) d y
        - mixtureDensity (((2 * k + 3 : ℕ) : ℝ) / 2) (d.o / (d.b - d.a)) (locOf d y)|
      ≤ ((2 * k + 3 : ℕ) : ℝ) / 2 * ε := by
  obtain ⟨ho, hw⟩ := nothing_pos (realFns_lawful T ninf pinf) d hab h
  have hs : 0 < d.o / (d.b - d.a) := div_pos ho hw
  have herr := partialMoment_odd_error T ninf pinf (locOf d y) (d.o / (d.b - d.a)) hs k ε hε0 hchain hε
  rw [pdf_nothing d y hp h]
  unfold pdfRaw
  have e : ((d.c : ℕ) : ℤ) - 2 = ((2 * k + 1 : ℕ) : ℤ) := by rw [hc]; push_cast; ring
  rw [e]
  have e2 : (realFns T ninf pinf).n d.c / ((realFns T ninf pinf).n 2 * (d.b - d.a))
      = (((2 * k + 3 : ℕ) : ℝ) / 2) / (d.b - d.a) := by
    show ((d.c : ℕ) : ℝ) / (((2:ℕ):ℝ) * (d.b - d.a)) = _
    rw [hc]; push_cast; field_simp
  rw [e2]
  show |(d.b - d.a) * (if _ < ((0:ℕ):ℝ) then ((0:ℕ):ℝ) else _) - _| ≤ _
  simp only [Nat.cast_zero]
  generalize partialMoment (realFns T ninf pinf) (locOf d y) (d.o / (d.b - d.a)) ((2 * k + 1 : ℕ) : ℤ) = P at herr ⊢
  have hp0 : (0:ℝ) < ((2 * k + 3 : ℕ) : ℝ) / 2 := by positivity
  have hmd : mixtureDensity (((2 * k + 3 : ℕ) : ℝ) / 2) (d.o / (d.b - d.a)) (locOf d y)
      = ((2 * k + 3 : ℕ) : ℝ) / 2
        * ∫ x in (0:ℝ)..1, x ^ (((2 * k + 1 : ℕ) : ℝ) / 2) * dens (locOf d y) (d.o / (d.b - d.a)) x := by
    unfold mixtureDensity
    rw [← intervalIntegral.integral_const_mul]
    apply intervalIntegral.integral_congr
    intro x _
    have : ((2 * k + 3 : ℕ) : ℝ) / 2 - 1 = ((2 * k + 1 : ℕ) : ℝ) / 2 := by push_cast; ring
    simp only [this]; ring
  rw [hmd]
  have hG0 : 0 ≤ ∫ x in (0:ℝ)..1, x ^ (((2 * k + 1 : ℕ) : ℝ) / 2) * dens (locOf d y) (d.o / (d.b - d.a)) x :=
    intervalIntegral.integral_nonneg zero_le_one
      (fun x hx => mul_nonneg (Real.rpow_nonneg hx.1 _) (dens_nonneg _ _ hs x))
  generalize (∫ x in (0:ℝ)..1, x ^ (((2 * k + 1 : ℕ) : ℝ) / 2) * dens (locOf d y) (d.o / (d.b - d.a)) x) = G
    at herr hG0 ⊢
  generalize ((2 * k + 3 : ℕ) : ℝ) / 2 = p at hp0 ⊢
  have habs := abs_le.mp herr
  split_ifs with hneg
  · have hP : P < 0 := by
      by_contra hc'
      have : 0 ≤ p / (d.b - d.a) * P := mul_nonneg (div_nonneg hp0.le hw.le) (not_lt.mp hc')
      linarith
    rw [mul_zero, zero_sub, abs_neg, abs_of_nonneg (mul_nonneg hp0.le hG0)]
    exact mul_le_mul_of_nonneg_left (by linarith [habs.2]) hp0.le
  · have : (d.b - d.a) * (p / (d.b - d.a) * P) - p * G = p * (P - G) := by field_simp
    rw [this, abs_mul, abs_of_pos hp0, abs_sub_comm]
    exact mul_le_mul_of_nonneg_left herr hp0.le

end conditional

/-! ## the hypotheses of the conditional theorems, discharged for a certified rational table -/

section certified
variable (T : List (ℕ × List EntryQ)) (hs : structOK T = true)
  (hb : ∀ t ∈ allPieces T, PieceBound T t.1 t.2.1 t.2.2)
include hs

theorem entryOK_of_mem (row : ℕ × List EntryQ) (hrow : row ∈ T) (e : EntryQ) (he : e ∈ row.2) :
    rowOK row = true ∧ entryOK e = true := by
  have hrowOK : rowOK row = true := by
    unfold structOK at hs; exact List.all_eq_true.mp hs row hrow
  refine ⟨hrowOK, ?_⟩
  unfold rowOK at hrowOK
  simp only [Bool.and_eq_true] at hrowOK
  exact List.all_eq_true.mp hrowOK.1.1 e he

/-- `hchain` for an entry of a well-formed table: its pieces tile `[0, 1]` -/
theorem entry_chain (row : ℕ × List EntryQ) (hrow : row ∈ T) (e : EntryQ) (he : e ∈ row.2) :
    ChainFrom 0 (piecesOf e.knots e.coeffs) 1 := by
  have heOK := (entryOK_of_mem T hs row hrow e he).2
  unfold entryOK at heOK
  simp only [Bool.and_eq_true, decide_eq_true_eq] at heOK
  obtain ⟨⟨⟨⟨hinc, hhead⟩, hlast⟩, hlen⟩, _⟩ := heOK
  simpa using chain_piecesOf e.knots e.coeffs 0 1 hinc hhead hlast hlen

theorem slack_maxError_nonneg (row : ℕ × List EntryQ) (hrow : row ∈ T) (e : EntryQ) (he : e ∈ row.2) :
    (0:ℝ) ≤ ((slack * e.maxError : ℚ) : ℝ) := by
  have heOK := (entryOK_of_mem T hs row hrow e he).2
  unfold entryOK at heOK
  simp only [Bool.and_eq_true, decide_eq_true_eq] at heOK
  have : (0:ℚ) ≤ slack * e.maxError := mul_nonneg (by unfold slack; norm_num) heOK.2.le
  exact_mod_cast this

include hb

omit hs in
/-- `hε` for an entry of a certified table: every piece is within `1.02·max_error` of `x^(key/2)` on its knot interval -/
theorem entry_eps (row : ℕ × List EntryQ) (hrow : row ∈ T) (e : EntryQ) (he : e ∈ row.2) :
    ∀ pc ∈ piecesOf e.knots e.coeffs, ∀ x ∈ Set.Icc pc.1.1 pc.1.2,
      |x ^ ((row.1 : ℝ) / 2) - polyEval pc.2 0 x| ≤ ((slack * e.maxError : ℚ) : ℝ) := by
  obtain ⟨ri, hri⟩ := List.getElem?_of_mem hrow
  obtain ⟨ei, hei⟩ := List.getElem?_of_mem he
  intro pc hpc x hx
  obtain ⟨pi, lo, hi, cs, hlo, hhi, hcs, rfl⟩ := mem_piecesOf e.knots e.coeffs pc hpc
  have hpi : pi < e.coeffs.length := (List.getElem?_eq_some_iff.mp hcs).1
  have hmem := mem_allPieces T ri ei pi row e hri hei hpi
  obtain ⟨m2, cs', klo, khi, me, hpiece, hbound⟩ := hb (ri, ei, pi) hmem
  unfold piece? at hpiece
  rw [hri] at hpiece; simp only [] at hpiece
  rw [hei] at hpiece; simp only [] at hpiece
  rw [hcs, hlo, hhi] at hpiece
  simp only [Option.some.injEq, Prod.mk.injEq] at hpiece
  obtain ⟨rfl, rfl, rfl, rfl, rfl⟩ := hpiece
  rw [polyEval_eq_evalQ, abs_sub_comm]
  exact hbound x hx.1 hx.2

omit hb

/-- every key present in the table and every scale `σ ≥ 0` select exactly one row and one entry of it -/
theorem lookup_exists (m : ℕ) (hm : ∃ row ∈ T, row.1 = m) (σ : ℝ) (hσ : 0 ≤ σ) :
    ∃ row e, rowOf T m = some row ∧ selectR row.2 σ = some e ∧ row ∈ T ∧ row.1 = m ∧ e ∈ row.2 := by
  obtain ⟨row, hrow⟩ := rowOf_isSome hm
  obtain ⟨hmem, hkey⟩ := rowOf_mem hrow
  have hrowOK : rowOK row = true := by
    unfold structOK at hs; exact List.all_eq_true.mp hs row hmem
  obtain ⟨e, he, hemem, _⟩ := selectR_isSome row hrowOK σ hσ
  exact ⟨row, e, hrow, he, hmem, hkey, hemem⟩

omit hs

/-- on the cast table the pieces the recursion walks through are the selected entry's `piecesOf` -/
theorem selectedPieces_castTable (ninf pinf μ σ : ℝ) (m : ℕ) (row : ℕ × List EntryQ) (e : EntryQ)
    (hrow : rowOf T m = some row) (he : selectR row.2 σ = some e) :
    selectedPieces (realFns (castTable T) ninf pinf) μ σ (m : ℤ) = piecesOf e.knots e.coeffs := by
  have hl : tableLookup (realFns (castTable T) ninf pinf) σ (m : ℤ) = some (castEntry e) := by
    rw [tableLookup_castTable, hrow]; simp [he]
  have ha : approxCoeffs (realFns (castTable T) ninf pinf) μ σ (m : ℤ)
      = ((castEntry e).knots, (castEntry e).coeffs) := by
    unfold approxCoeffs; rw [hl]
  unfold selectedPieces
  rw [ha]
  exact zip_eq_piecesOf e.knots e.coeffs

end certified

/-! ## end to end, for any certified rational table -/

/-- the largest recorded `max_error` of a row -/
def rowMaxError (row : ℕ × List EntryQ) : ℚ := row.2.foldr (fun e m => max e.maxError m) 0

theorem le_foldr_maxError (l : List EntryQ) (e : EntryQ) (he : e ∈ l) :
    e.maxError ≤ l.foldr (fun e m => max e.maxError m) 0 := by
  induction l with
  | nil => simp at he
  | cons a t ih =>
    simp only [List.foldr_cons]
    rcases List.mem_cons.mp he with rfl | h
    · exact le_max_left _ _
    · exact (ih h).trans (le_max_right _ _)

theorem le_rowMaxError (row : ℕ × List EntryQ) (e : EntryQ) (he : e ∈ row.2) : e.maxError ≤ rowMaxError row :=
  le_foldr_maxError row.2 e he

theorem slack_cast (q : ℚ) : ((slack * q : ℚ) : ℝ) = 1.02 * (q : ℝ) := by
  unfold slack; push_cast; norm_num

/-- the Spec of the cdf in both shapes: the mixture form of the law of `a + (b−a)X + E` resp. `b − (b−a)X + E` at `y`,
`X` on `[0,1]` with distribution function `x^{c/2}` -/
noncomputable def cdfSpec (d : Params ℝ) (y : ℝ) : ℝ :=
  if d.convex then mixture ((d.c : ℝ) / 2) (d.o / (d.b - d.a)) ((y - d.a) / (d.b - d.a))
  else 1 - mixture ((d.c : ℝ) / 2) (d.o / (d.b - d.a)) ((d.b - y) / (d.b - d.a))

section endToEnd
variable (T : List (ℕ × List EntryQ)) (hs : structOK T = true)
  (hb : ∀ t ∈ allPieces T, PieceBound T t.1 t.2.1 t.2.2) (ninf pinf : ℝ)
include hs hb

/-- the two hypotheses of the conditional theorems hold for the cast of a certified table, at every location and every
scale `σ ≥ 0`, for every key `m` present in the table, with `ε = 1.02·max_error` of the selected entry -/
theorem selected_chain_eps (m : ℕ) (row : ℕ × List EntryQ) (e : EntryQ) (μ σ : ℝ)
    (hrow : rowOf T m = some row) (he : selectR row.2 σ = some e) :
    ChainFrom 0 (selectedPieces (realFns (castTable T) ninf pinf) μ σ (m : ℤ)) 1
      ∧ ∀ pc ∈ selectedPieces (realFns (castTable T) ninf pinf) μ σ (m : ℤ), ∀ x ∈ Set.Icc pc.1.1 pc.1.2,
          |x ^ ((m : ℝ) / 2) - polyEval pc.2 0 x| ≤ ((slack * e.maxError : ℚ) : ℝ) := by
  obtain ⟨hmem, hkey⟩ := rowOf_mem hrow
  have hemem : e ∈ row.2 := by unfold selectR at he; exact List.mem_of_find?_eq_some he
  rw [selectedPieces_castTable T ninf pinf μ σ m row e hrow he]
  refine ⟨entry_chain T hs row hmem e hemem, ?_⟩
  have := entry_eps T hb row hmem e hemem
  rw [hkey] at this
  exact this

/-- **cdf, odd `c` present in the table, both shapes, series regime, no hypothesis on the pieces left**: the scale
`o/(b−a)` selects an entry `e` of the row of key `c`, and at every `y` the model's cdf is within `1.02·max_error(e)` of the
Spec. -/
theorem cdf_odd_castTable (d : Params ℝ) (k : ℕ) (hc : d.c = 2 * k + 1) (hab : d.a ≤ d.b)
    (hp : pointMass (realFns (castTable T) ninf pinf) d = false)
    (h : regime (realFns (castTable T) ninf pinf) d = .nothing) (hkey : ∃ row ∈ T, row.1 = d.c) :
    ∃ row e, rowOf T d.c = some row ∧ selectR row.2 (d.o / (d.b - d.a)) = some e ∧
      ∀ y : ℝ, |cdf (realFns (castTable T) ninf pinf) d y - cdfSpec d y| ≤ 1.02 * (e.maxError : ℝ) := by
  obtain ⟨ho, hw⟩ := nothing_pos (realFns_lawful (castTable T) ninf pinf) d hab h
  have hσ : 0 ≤ d.o / (d.b - d.a) := (div_pos ho hw).le
  obtain ⟨row, e, hrow, he, hmem, _, hemem⟩ := lookup_exists T hs d.c hkey _ hσ
  refine ⟨row, e, hrow, he, fun y => ?_⟩
  rw [← slack_cast]
  have hε0 := slack_maxError_nonneg T hs row hmem e hemem
  rw [hc] at hrow
  obtain ⟨h1, h2⟩ := selected_chain_eps T hs hb ninf pinf (2 * k + 1) row e (locOf d y) _ hrow he
  have hcr : ((d.c : ℕ) : ℝ) / 2 = ((2 * k + 1 : ℕ) : ℝ) / 2 := by rw [hc]
  unfold cdfSpec
  rw [hcr]
  cases hcv : d.convex with
  | true =>
    simp only [if_true]
    exact cdf_odd_convex_error (castTable T) ninf pinf d k hc hcv hab hp h y _ hε0 h1 h2
  | false =>
    simp only [Bool.false_eq_true, if_false]
    exact cdf_odd_concave_error (castTable T) ninf pinf d k hc hcv hab hp h y _ hε0 h1 h2

/-- the uniform form: `1.02 ·` the largest `max_error` of the row, whatever the scale -/
theorem cdf_odd_castTable_uniform (d : Params ℝ) (k : ℕ) (hc : d.c = 2 * k + 1) (hab : d.a ≤ d.b)
    (hp : pointMass (realFns (castTable T) ninf pinf) d = false)
    (h : regime (realFns (castTable T) ninf pinf) d = .nothing)
    (row : ℕ × List EntryQ) (hrow : rowOf T d.c = some row) (y : ℝ) :
    |cdf (realFns (castTable T) ninf pinf) d y - cdfSpec d y| ≤ 1.02 * (rowMaxError row : ℝ) := by
  obtain ⟨hmem, hkey⟩ := rowOf_mem hrow
  obtain ⟨row', e, hrow', he, hy⟩ := cdf_odd_castTable T hs hb ninf pinf d k hc hab hp h ⟨row, hmem, hkey⟩
  rw [hrow] at hrow'
  obtain rfl := Option.some.inj hrow'
  have hemem : e ∈ row.2 := by unfold selectR at he; exact List.mem_of_find?_eq_some he
  have : (e.maxError : ℝ) ≤ (rowMaxError row : ℝ) := by exact_mod_cast le_rowMaxError row e hemem
  exact (hy y).trans (by linarith)

/-- **density, odd `c ≥ 3` with `c − 2` present in the table, both shapes, series regime**: the scale selects an entry `e`
of the row of key `c − 2` (the order of the moment the density needs), and `(b−a)·pdf(y)` is within
`(c/2)·1.02·max_error(e)` of the mixture density at every `y`. -/
theorem pdf_odd_castTable (d : Params ℝ) (k : ℕ) (hc : d.c = 2 * k + 3) (hab : d.a ≤ d.b)
    (hp : pointMass (realFns (castTable T) ninf pinf) d = false)
    (h : regime (realFns (castTable T) ninf pinf) d = .nothing) (hkey : ∃ row ∈ T, row.1 = d.c - 2) :
    ∃ row e, rowOf T (d.c - 2) = some row ∧ selectR row.2 (d.o / (d.b - d.a)) = some e ∧
      ∀ y : ℝ, |(d.b - d.a) * pdf (realFns (castTable T) ninf pinf) d y
            - mixtureDensity ((d.c : ℝ) / 2) (d.o / (d.b - d.a)) (locOf d y)|
          ≤ (d.c : ℝ) / 2 * (1.02 * (e.maxError : ℝ)) := by
  obtain ⟨ho, hw⟩ := nothing_pos (realFns_lawful (castTable T) ninf pinf) d hab h
  have hσ : 0 ≤ d.o / (d.b - d.a) := (div_pos ho hw).le
  obtain ⟨row, e, hrow, he, hmem, _, hemem⟩ := lookup_exists T hs (d.c - 2) hkey _ hσ
  refine ⟨row, e, hrow, he, fun y => ?_⟩
  rw [← slack_cast]
  have hε0 := slack_maxError_nonneg T hs row hmem e hemem
  have hc2 : d.c - 2 = 2 * k + 1 := by omega
  rw [hc2] at hrow
  obtain ⟨h1, h2⟩ := selected_chain_eps T hs hb ninf pinf (2 * k + 1) row e (locOf d y) _ hrow he
  have hcr : ((d.c : ℕ) : ℝ) = ((2 * k + 3 : ℕ) : ℝ) := by rw [hc]
  rw [hcr]
  exact pdf_odd_error (castTable T) ninf pinf d k hc hab hp h y _ hε0 h1 h2

theorem pdf_odd_castTable_uniform (d : Params ℝ) (k : ℕ) (hc : d.c = 2 * k + 3) (hab : d.a ≤ d.b)
    (hp : pointMass (realFns (castTable T) ninf pinf) d = false)
    (h : regime (realFns (castTable T) ninf pinf) d = .nothing)
    (row : ℕ × List EntryQ) (hrow : rowOf T (d.c - 2) = some row) (y : ℝ) :
    |(d.b - d.a) * pdf (realFns (castTable T) ninf pinf) d y
        - mixtureDensity ((d.c : ℝ) / 2) (d.o / (d.b - d.a)) (locOf d y)|
      ≤ (d.c : ℝ) / 2 * (1.02 * (rowMaxError row : ℝ)) := by
  obtain ⟨hmem, hkey⟩ := rowOf_mem hrow
  obtain ⟨row', e, hrow', he, hy⟩ := pdf_odd_castTable T hs hb ninf pinf d k hc hab hp h ⟨row, hmem, hkey⟩
  rw [hrow] at hrow'
  obtain rfl := Option.some.inj hrow'
  have hemem : e ∈ row.2 := by unfold selectR at he; exact List.mem_of_find?_eq_some he
  have : (e.maxError : ℝ) ≤ (rowMaxError row : ℝ) := by exact_mod_cast le_rowMaxError row e hemem
  have hc0 : (0:ℝ) ≤ (d.c : ℝ) / 2 := by positivity
  exact (hy y).trans (mul_le_mul_of_nonneg_left (by linarith) hc0)

end endToEnd

/-! ## the shipped table -/

/-- **the shipped table as the real instance reads it**: `Opda.Gen.tableQ` (regenerated from `_approximations.json`
on every run, every double as the exact rational it denotes), cast to `ℝ` -/
noncomputable def tableR : List (ℕ × List (Noisy.Entry ℝ)) := castTable Opda.Gen.tableQ

theorem cdf_odd_shipped (ninf pinf : ℝ) (d : Params ℝ) (k : ℕ) (hc : d.c = 2 * k + 1) (hab : d.a ≤ d.b)
    (hp : pointMass (realFns tableR ninf pinf) d = false) (h : regime (realFns tableR ninf pinf) d = .nothing)
    (hkey : ∃ row ∈ tableQ, row.1 = d.c) :
    ∃ row e, rowOf tableQ d.c = some row ∧ selectR row.2 (d.o / (d.b - d.a)) = some e ∧
      ∀ y : ℝ, |cdf (realFns tableR ninf pinf) d y - cdfSpec d y| ≤ 1.02 * (e.maxError : ℝ) :=
  cdf_odd_castTable tableQ Opda.Gen.Cert.struct_ok Opda.Gen.Cert.table_bound ninf pinf d k hc hab hp h hkey

theorem cdf_odd_shipped_uniform (ninf pinf : ℝ) (d : Params ℝ) (k : ℕ) (hc : d.c = 2 * k + 1) (hab : d.a ≤ d.b)
    (hp : pointMass (realFns tableR ninf pinf) d = false) (h : regime (realFns tableR ninf pinf) d = .nothing)
    (row : ℕ × List EntryQ) (hrow : rowOf tableQ d.c = some row) (y : ℝ) :
    |cdf (realFns tableR ninf pinf) d y - cdfSpec d y| ≤ 1.02 * (rowMaxError row : ℝ) :=
  cdf_odd_castTable_uniform tableQ Opda.Gen.Cert.struct_ok Opda.Gen.Cert.table_bound ninf pinf d k hc hab hp h row hrow y

theorem pdf_odd_shipped (ninf pinf : ℝ) (d : Params ℝ) (k : ℕ) (hc : d.c = 2 * k + 3) (hab : d.a ≤ d.b)
    (hp : pointMass (realFns tableR ninf pinf) d = false) (h : regime (realFns tableR ninf pinf) d = .nothing)
    (hkey : ∃ row ∈ tableQ, row.1 = d.c - 2) :
    ∃ row e, rowOf tableQ (d.c - 2) = some row ∧ selectR row.2 (d.o / (d.b - d.a)) = some e ∧
      ∀ y : ℝ, |(d.b - d.a) * pdf (realFns tableR ninf pinf) d y
            - mixtureDensity ((d.c : ℝ) / 2) (d.o / (d.b - d.a)) (locOf d y)|
          ≤ (d.c : ℝ) / 2 * (1.02 * (e.maxError : ℝ)) :=
  pdf_odd_castTable tableQ Opda.Gen.Cert.struct_ok Opda.Gen.Cert.table_bound ninf pinf d k hc hab hp h hkey

theorem pdf_odd_shipped_uniform (ninf pinf : ℝ) (d : Params ℝ) (k : ℕ) (hc : d.c = 2 * k + 3) (hab : d.a ≤ d.b)
    (hp : pointMass (realFns tableR ninf pinf) d = false) (h : regime (realFns tableR ninf pinf) d = .nothing)
    (row : ℕ × List EntryQ) (hrow : rowOf tableQ (d.c - 2) = some row) (y : ℝ) :
    |(d.b - d.a) * pdf (realFns tableR ninf pinf) d y
        - mixtureDensity ((d.c : ℝ) / 2) (d.o / (d.b - d.a)) (locOf d y)|
      ≤ (d.c : ℝ) / 2 * (1.02 * (rowMaxError row : ℝ)) :=
  pdf_odd_castTable_uniform tableQ Opda.Gen.Cert.struct_ok Opda.Gen.Cert.table_bound ninf pinf d k hc hab hp h row hrow y

theorem shipped_keys_check : ([1, 3, 5, 7, 9].all fun m => (rowOf tableQ m).isSome) = true := by decide +kernel

/-- the shipped table has a row for every odd `c ≤ 9` (keys are `2·exponent`): these are the `c` (cdf) and `c − 2`
(pdf) the end-to-end theorems cover.  (Stated as an implication so that it survives additional rows.) -/
theorem shipped_key_present (m : ℕ) (hm : m ∈ [1, 3, 5, 7, 9]) : ∃ row ∈ tableQ, row.1 = m := by
  have h := List.all_eq_true.mp shipped_keys_check m hm
  obtain ⟨row, hrow⟩ := Option.isSome_iff_exists.mp h
  exact ⟨row, (rowOf_mem hrow).1, (rowOf_mem hrow).2⟩

theorem shipped_small_rows_check :
    ([7, 9].all fun m => match rowOf tableQ m with
      | some row => decide (slack * rowMaxError row ≤ 25 / 1000000)
      | none => false) = true := by decide +kernel

/-- **`c ∈ {7, 9}`: the property's own 2.5e-5** — every entry of the rows of key 7 and 9 of the shipped table records
`1.02·max_error ≤ 2.5e-5`, so in exact real arithmetic the model's cdf is within 2.5e-5 of the Spec at every `y`, for
both shapes and every scale of the series regime. -/
theorem cdf_c7_c9_shipped (ninf pinf : ℝ) (d : Params ℝ) (hc : d.c = 7 ∨ d.c = 9) (hab : d.a ≤ d.b)
    (hp : pointMass (realFns tableR ninf pinf) d = false) (h : regime (realFns tableR ninf pinf) d = .nothing)
    (y : ℝ) : |cdf (realFns tableR ninf pinf) d y - cdfSpec d y| ≤ 2.5e-5 := by
  have hm : d.c ∈ [7, 9] := by rcases hc with h | h <;> simp [h]
  have hchk := List.all_eq_true.mp shipped_small_rows_check d.c hm
  obtain ⟨k, hk⟩ : ∃ k, d.c = 2 * k + 1 := by rcases hc with h | h <;> [exact ⟨3, h⟩; exact ⟨4, h⟩]
  cases hrow : rowOf tableQ d.c with
  | none => rw [hrow] at hchk; simp at hchk
  | some row =>
    rw [hrow] at hchk
    simp only [decide_eq_true_eq] at hchk
    have hR : (((slack * rowMaxError row : ℚ)) : ℝ) ≤ ((25 / 1000000 : ℚ) : ℝ) := by exact_mod_cast hchk
    rw [slack_cast] at hR
    refine (cdf_odd_shipped_uniform ninf pinf d k hk hab hp h row hrow y).trans (hR.trans ?_)
    push_cast; norm_num

theorem shipped_row7_check :
    (match rowOf tableQ 7 with
      | some row => decide (9 / 2 * (slack * rowMaxError row) ≤ 1 / 10000)
      | none => false) = true := by decide +kernel

/-- **`c = 9`: the property's own 1e-4 for the density** — the row of key `c − 2 = 7` of the shipped table records
`(9/2)·1.02·max_error ≤ 1e-4`, so in exact real arithmetic `(b−a)·pdf(y)` is within `1e-4` (`≤ 1e-4·max(1, v)`) of the
mixture density at every `y`, both shapes, every scale of the series regime. -/
theorem pdf_c9_shipped (ninf pinf : ℝ) (d : Params ℝ) (hc : d.c = 9) (hab : d.a ≤ d.b)
    (hp : pointMass (realFns tableR ninf pinf) d = false) (h : regime (realFns tableR ninf pinf) d = .nothing)
    (y : ℝ) :
    |(d.b - d.a) * pdf (realFns tableR ninf pinf) d y
        - mixtureDensity ((d.c : ℝ) / 2) (d.o / (d.b - d.a)) (locOf d y)| ≤ 1e-4 := by
  have hchk := shipped_row7_check
  have hc2 : d.c - 2 = 7 := by omega
  cases hrow : rowOf tableQ 7 with
  | none => rw [hrow] at hchk; simp at hchk
  | some row =>
    rw [hrow] at hchk
    simp only [decide_eq_true_eq] at hchk
    have hR : ((9 / 2 * (slack * rowMaxError row) : ℚ) : ℝ) ≤ ((1 / 10000 : ℚ) : ℝ) := by exact_mod_cast hchk
    rw [Rat.cast_mul, slack_cast] at hR
    have hrow' : rowOf tableQ (d.c - 2) = some row := by rw [hc2]; exact hrow
    refine (pdf_odd_shipped_uniform ninf pinf d 3 (by omega) hab hp h row hrow' y).trans ?_
    rw [hc]
    refine le_trans (le_of_eq ?_) (hR.trans (by push_cast; norm_num))
    push_cast; ring

end Opda.Noisy
