import OpdaProofs.Experiments
import OpdaProofs.ExtInst
import OpdaModel.Drv.Exp
/-! C20: the terms the driver evaluates for `exp.sim` are the ones the running-maximum theorems are about. -/
namespace Opda.Exp
open Opda.Wire

/-- the driver's `extMax` is the `max` of the linear order on `Ext` -/
theorem extMax_eq_max : Opda.Drv.Exp.extMax = (max : Ext → Ext → Ext) := by
  funext x y
  unfold Opda.Drv.Exp.extMax
  rw [max_def]

/-- the running maximum the driver computes (`exp.sim`), row by row -/
theorem driver_cummax (l : List Ext) : cummax Opda.Drv.Exp.extMax l = cummax max l := by rw [extMax_eq_max]

end Opda.Exp
