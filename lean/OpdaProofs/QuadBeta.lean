import OpdaModel.Quadratic
import OpdaProofs.RealInst
import OpdaProofs.QuadLaw
import OpdaProofs.QuadInv
import OpdaProofs.QuadPdf
import OpdaProofs.InverseTransform
import Mathlib.Tactic

/-! C05-T3: the class describes `a + (b−a)·U^{2/c}` (convex) resp. `b − (b−a)·U^{2/c}` (concave), and
its cdf is the location–scale `Beta(c/2, 1)` resp. `Beta(1, c/2)` distribution function. -/
namespace Opda.Quad
open Opda Opda.Num MeasureTheory intervalIntegral Set

/-- Galois law between `ppf` and `cdf` on levels in `(0,1]` -/
theorem ppf_le_iff (d : Params ℝ) (hab : d.a < d.b) (hc : 0 < d.c) (u : ℝ) (hu0 : 0 < u) (hu1 : u ≤ 1)
    (y : ℝ) : ppf d u ≤ y ↔ u ≤ cdf d y := by
  constructor
  · intro h
    rw [← cdf_ppf d hab hc u hu0.le hu1]
    exact cdf_mono d hab hc h
  · intro h
    rcases lt_or_ge y d.a with hya | hya
    · rw [cdf_below d hab hc y hya.le] at h; linarith
    · rcases le_or_gt d.b y with hyb | hyb
      · exact (ppf_mem d hab.le hc u).2.trans hyb
      · rw [← ppf_cdf d hab hc y hya hyb.le]
        exact ppf_mono d hab.le hc h

/-- **T3 (law)**: for `U` uniform on `(0,1]`, `P[ppf U ≤ y] = cdf y` -/
theorem law (d : Params ℝ) (hab : d.a < d.b) (hc : 0 < d.c) (y : ℝ) :
    volume {u : ℝ | u ∈ Ioc (0:ℝ) 1 ∧ ppf d u ≤ y} = ENNReal.ofReal (cdf d y) :=
  Opda.Sampling.inverse_transform (ppf d) (cdf d) y (cdf_mem d hab hc y).1 (cdf_mem d hab hc y).2
    (fun u h0 h1 => ppf_le_iff d hab hc u h0 h1 y)

/-- convex: `P[a + (b−a)·U^{2/c} ≤ y] = cdf y` -/
theorem law_convex (d : Params ℝ) (hab : d.a < d.b) (hc : 0 < d.c) (hcv : d.convex = true) (y : ℝ) :
    volume {u : ℝ | u ∈ Ioc (0:ℝ) 1 ∧ d.a + (d.b - d.a) * u ^ ((2:ℝ) / d.c) ≤ y}
      = ENNReal.ofReal (cdf d y) := by
  rw [← law d hab hc y]
  congr 1
  ext u
  simp only [mem_ofPred_eq, mem_Ioc]
  constructor <;> rintro ⟨⟨h0, h1⟩, h⟩ <;> refine ⟨⟨h0, h1⟩, ?_⟩
  · unfold ppf
    simpa [hcv, clip_of_mem u 0 1 h0.le h1] using h
  · unfold ppf at h
    simpa [hcv, clip_of_mem u 0 1 h0.le h1] using h

/-- concave: `P[b − (b−a)·U^{2/c} ≤ y] = cdf y` (for `U` uniform on `[0,1)`) -/
theorem law_concave (d : Params ℝ) (hab : d.a < d.b) (hc : 0 < d.c) (hcv : d.convex = false) (y : ℝ) :
    volume {u : ℝ | u ∈ Ico (0:ℝ) 1 ∧ d.b - (d.b - d.a) * u ^ ((2:ℝ) / d.c) ≤ y}
      = ENNReal.ofReal (cdf d y) := by
  obtain ⟨hF0, hF1⟩ := cdf_mem d hab hc y
  have hset : {u : ℝ | u ∈ Ico (0:ℝ) 1 ∧ d.b - (d.b - d.a) * u ^ ((2:ℝ) / d.c) ≤ y}
      = Ico (1 - cdf d y) 1 := by
    ext u
    simp only [mem_ofPred_eq, mem_Ico]
    have key : ∀ (h0 : 0 ≤ u) (h1 : u < 1),
        (d.b - (d.b - d.a) * u ^ ((2:ℝ) / d.c) ≤ y ↔ 1 - u ≤ cdf d y) := by
      intro h0 h1
      rw [← ppf_le_iff d hab hc (1 - u) (by linarith) (by linarith) y]
      unfold ppf
      simp [hcv, clip_of_mem (1 - u) 0 1 (by linarith) (by linarith)]
    constructor
    · rintro ⟨⟨h0, h1⟩, h⟩
      exact ⟨by linarith [(key h0 h1).mp h], h1⟩
    · rintro ⟨h, h1⟩
      have h0 : 0 ≤ u := by linarith
      exact ⟨⟨h0, h1⟩, (key h0 h1).mpr (by linarith)⟩
  rw [hset, Real.volume_Ico]
  congr 1; ring

/-- standardised argument `(clip(y) − a)/(b − a) ∈ [0,1]` -/
noncomputable def std (d : Params ℝ) (y : ℝ) : ℝ := (clip y d.a d.b - d.a) / (d.b - d.a)

theorem std_mem (d : Params ℝ) (hab : d.a < d.b) (y : ℝ) : 0 ≤ std d y ∧ std d y ≤ 1 := by
  have hba : 0 < d.b - d.a := sub_pos.mpr hab
  obtain ⟨l, u⟩ := clip_mem y d.a d.b hab.le
  unfold std
  exact ⟨div_nonneg (by linarith) hba.le, (div_le_one hba).mpr (by linarith)⟩

/-- **T3 (Beta(c/2, 1))**: convex cdf `= ∫₀^z α t^{α−1} dt`, `α = c/2`, `z = (y−a)/(b−a)` clipped to `[0,1]` -/
theorem cdf_eq_beta_convex (d : Params ℝ) (hab : d.a < d.b) (hc : 0 < d.c) (hcv : d.convex = true) (y : ℝ) :
    cdf d y = ∫ t in (0:ℝ)..(std d y), ((d.c:ℝ) / 2) * t ^ ((d.c:ℝ) / 2 - 1) := by
  have hc' : (0:ℝ) < d.c := by exact_mod_cast hc
  have hα : (0:ℝ) < (d.c:ℝ) / 2 := by positivity
  rw [intervalIntegral.integral_const_mul, integral_rpow (Or.inl (by linarith))]
  have h1 : (d.c:ℝ) / 2 - 1 + 1 = (d.c:ℝ) / 2 := by ring
  rw [h1, Real.zero_rpow hα.ne']
  unfold cdf std
  simp only [eq_false_of_ne _ _ (ne_of_lt hab), Bool.false_eq_true, if_false, num_n, num_pow,
    Nat.cast_one, Nat.cast_ofNat, hcv, if_true]
  field_simp
  ring

/-- **T3 (Beta(1, c/2))**: concave cdf `= ∫₀^z α (1−t)^{α−1} dt` -/
theorem cdf_eq_beta_concave (d : Params ℝ) (hab : d.a < d.b) (hc : 0 < d.c) (hcv : d.convex = false) (y : ℝ) :
    cdf d y = ∫ t in (0:ℝ)..(std d y), ((d.c:ℝ) / 2) * (1 - t) ^ ((d.c:ℝ) / 2 - 1) := by
  have hc' : (0:ℝ) < d.c := by exact_mod_cast hc
  have hα : (0:ℝ) < (d.c:ℝ) / 2 := by positivity
  have hba : 0 < d.b - d.a := sub_pos.mpr hab
  rw [intervalIntegral.integral_const_mul,
    integral_comp_sub_left (fun s => s ^ ((d.c:ℝ) / 2 - 1)) 1, integral_rpow (Or.inl (by linarith))]
  have h1 : (d.c:ℝ) / 2 - 1 + 1 = (d.c:ℝ) / 2 := by ring
  rw [h1, sub_zero, Real.one_rpow]
  have h2 : 1 - std d y = (d.b - clip y d.a d.b) / (d.b - d.a) := by
    unfold std; field_simp; ring
  rw [h2]
  unfold cdf
  simp only [eq_false_of_ne _ _ (ne_of_lt hab), Bool.false_eq_true, if_false, num_n, num_pow,
    Nat.cast_one, Nat.cast_ofNat, hcv]
  field_simp

end Opda.Quad
