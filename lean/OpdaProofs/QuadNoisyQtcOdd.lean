import OpdaModel.NoisyFloat
import OpdaModel.QuadNoisy
import OpdaProofs.NoisyLogic
import OpdaProofs.NoisyReal
import OpdaProofs.NoisyAccuracy
import OpdaProofs.BisectRobust
import OpdaProofs.QuadNoisyQtc
import Mathlib.Analysis.SpecialFunctions.Pow.Real
import Mathlib.Tactic

/-!
C08 (noisy class), the clause "`F(quantile_tuning_curve(n, q)) = level(n, q)` to 2e-5", **unconditional, exact real
arithmetic**: `quantile_tuning_curve` is `ppf` at the level of the best of `n` draws (`rfl`), that level lies strictly inside
`(0,1)` for `q ∈ (0,1)` and every real `n > 0` (`rpow`), and C07's accuracy theorems for `ppf` (`cdf_ppf_even_all`: even
`c ≤ 100`, every regime; `cdf_ppf_odd_tolerance`: `c = 9`, `c = 5` with `s < 1/5`, `c = 3` with `s < 1/50`, series regime,
shipped table) give `|cdf(qtc) − level| ≤ 1e-5 ≤ 2e-5`.
-/
namespace Opda.Noisy

section level
variable (T : List (ℕ × List (Entry ℝ))) (ninf pinf : ℝ)

/-- the level at the real instance, written with `rpow` -/
theorem level_real (m : Bool) (q nn : ℝ) :
    level (realFns T ninf pinf) m q nn = if m then 1 - (1 - q) ^ (1 / nn) else q ^ (1 / nn) := by
  unfold level
  show (if m = true then ((1:ℕ):ℝ) - Real.rpow (((1:ℕ):ℝ) - q) (((1:ℕ):ℝ) / nn)
      else Real.rpow q (((1:ℕ):ℝ) / nn)) = _
  simp only [Nat.cast_one]
  rfl

/-- **the level of the best of `n` draws is strictly inside `(0,1)`** for `q ∈ (0,1)` and every real `n > 0`, both
directions -/
theorem level_real_mem (m : Bool) (q nn : ℝ) (hq0 : 0 < q) (hq1 : q < 1) (hn : 0 < nn) :
    0 < level (realFns T ninf pinf) m q nn ∧ level (realFns T ninf pinf) m q nn < 1 := by
  rw [level_real]
  have he : 0 < 1 / nn := one_div_pos.mpr hn
  cases m
  · simp only [Bool.false_eq_true, if_false]
    exact ⟨Real.rpow_pos_of_pos hq0 _, Real.rpow_lt_one hq0.le hq1 he⟩
  · simp only [if_true]
    have h1 : 0 < 1 - q := by linarith
    have h2 : 1 - q < 1 := by linarith
    have := Real.rpow_pos_of_pos h1 (1 / nn)
    have := Real.rpow_lt_one h1.le h2 he
    constructor <;> linarith

end level

section even
variable (T : List (ℕ × List (Entry ℝ))) (ninf pinf : ℝ)

/-- **C08 quantile clause, even `c = 2k ≤ 100`, every regime, exact real arithmetic**: for every `a ≤ b`, `o ≥ 0` other
than the point mass, both shapes, both directions (and `None ↦ convex`), every real `n > 0`, every `q ∈ (0,1)`:
`|cdf(quantile_tuning_curve(n, q, minimize)) − level| ≤ 2e-5` (the bound obtained is C07's `1e-5`). -/
theorem qtc_hits_level_even (d : Params ℝ) (k : ℕ) (hk : 1 ≤ k) (hk50 : k ≤ 50) (hc : d.c = 2 * k) (hab : d.a ≤ d.b)
    (ho : 0 ≤ d.o) (hp : pointMass (realFns T ninf pinf) d = false) (nn q : ℝ) (mn : Option Bool)
    (hn : 0 < nn) (hq0 : 0 < q) (hq1 : q < 1) :
    |cdf (realFns T ninf pinf) d (quantileTuningCurve (realFns T ninf pinf) d nn q mn)
        - level (realFns T ninf pinf) (mn.getD d.convex) q nn| ≤ 2e-5 := by
  obtain ⟨h0, h1⟩ := level_real_mem T ninf pinf (mn.getD d.convex) q nn hq0 hq1 hn
  have := cdf_ppf_even_all T ninf pinf d k hk hk50 hc hab ho hp _ h0 h1
  unfold quantileTuningCurve
  refine this.trans (by norm_num)

end even

section odd
open Opda.Gen Opda.Table
variable (ninf pinf : ℝ)

/-- **C08 quantile clause, odd `c`, where C07's proved bound reaches the tolerance** (series regime, shipped table, exact
real arithmetic): `c = 9` at every scale of the regime, `c = 5` with `o/(b−a) < 1/5`, `c = 3` with `o/(b−a) < 1/50`; both
shapes, both directions, every real `n > 0`, every `q ∈ (0,1)`: `|cdf(quantile_tuning_curve(n, q, minimize)) − level| ≤ 2e-5`. -/
theorem qtc_hits_level_odd (d : Params ℝ) (hab : d.a ≤ d.b)
    (hp : pointMass (realFns tableR ninf pinf) d = false) (h : regime (realFns tableR ninf pinf) d = .nothing)
    (hcs : d.c = 9 ∨ (d.c = 5 ∧ d.o / (d.b - d.a) < 1 / 5) ∨ (d.c = 3 ∧ d.o / (d.b - d.a) < 1 / 50))
    (nn q : ℝ) (mn : Option Bool) (hn : 0 < nn) (hq0 : 0 < q) (hq1 : q < 1) :
    |cdf (realFns tableR ninf pinf) d (quantileTuningCurve (realFns tableR ninf pinf) d nn q mn)
        - level (realFns tableR ninf pinf) (mn.getD d.convex) q nn| ≤ 2e-5 := by
  obtain ⟨h0, h1⟩ := level_real_mem tableR ninf pinf (mn.getD d.convex) q nn hq0 hq1 hn
  have := cdf_ppf_odd_tolerance ninf pinf d hab hp h hcs _ h0 h1
  unfold quantileTuningCurve
  refine this.trans (by norm_num)

end odd

end Opda.Noisy
