import OpdaModel.EmpCurves
import OpdaProofs.Emp
import OpdaProofs.UStat
import Mathlib.Data.Nat.Choose.Basic
import Mathlib.Tactic
/-!
Lemmas about the tuning-curve part of the empirical model (`OpdaModel/EmpCurves.lean`).
-/
namespace Opda.Emp
open Finset

/-! ### the multiplicative binomial used by the executable model is `Nat.choose` -/

theorem chooseFast_succ (n k : ℕ) : chooseFast n (k + 1) = chooseFast n k * (n - k) / (k + 1) := by
  unfold chooseFast
  rw [List.range_succ, List.foldl_append]
  rfl

theorem chooseFast_eq_choose (n k : ℕ) : chooseFast n k = n.choose k := by
  induction k with
  | zero => simp [chooseFast]
  | succ k ih =>
    rw [chooseFast_succ, ih]
    apply Nat.div_eq_of_eq_mul_left (Nat.succ_pos k)
    exact (Nat.choose_succ_right_eq n k).symm

/-! ### U-statistic weights -/

/-- the weight the model gives to the `(j+1)`-th smallest observation -/
noncomputable def uWeightAt (n N j : ℕ) : ℝ :=
  ((((j + 1).choose (min n N) : ℕ) : ℝ) - ((j.choose (min n N) : ℕ) : ℝ)) / ((N.choose (min n N) : ℕ) : ℝ)

theorem uWeights_eq (n N : ℕ) : uWeights (α := ℝ) n N = (List.range N).map (uWeightAt n N) := by
  unfold uWeights uWeightAt
  simp only [chooseFast_eq_choose]

/-- **U-statistic**: with the observations sorted increasingly (`y` non-decreasing in the index), the weighted sum
the model computes is the mean over all subsets of size `min n N` of their best (largest-index) element. -/
theorem u_curve_eq_subset_mean (y : ℕ → ℝ) (n N : ℕ) (hn : 1 ≤ n) (hN : 1 ≤ N) :
    ∑ j ∈ range N, uWeightAt n N j * y j
      = (∑ S ∈ powersetCard (min n N) (range N), y (S.sup id)) / ((N.choose (min n N) : ℕ) : ℝ) := by
  obtain ⟨m, hm⟩ : ∃ m, min n N = m + 1 := ⟨min n N - 1, by omega⟩
  rw [hm, ← Opda.UStat.u_stat y m N, Finset.sum_div]
  apply Finset.sum_congr rfl
  intro j _
  unfold uWeightAt
  rw [hm]
  ring

/-! ### best-of-n weights telescope -/

section
variable {E α : Type} [Field α]

/-- prefix sums of the best-of-`n` weights telescope: the first `k` atoms carry `pw F_k − pw prev₀`. -/
theorem bestWeights_total (pw : α → α) (prev : α) (l : List (E × α)) :
    total (bestWeights pw false (withPrevAux prev l))
      = (match l.getLast? with | some p => pw p.2 | none => pw prev) - pw prev := by
  induction l generalizing prev with
  | nil => simp [withPrevAux, bestWeights, total]
  | cons p rest ih =>
    obtain ⟨u, c⟩ := p
    simp only [withPrevAux, bestWeights, List.map_cons, total] at ih ⊢
    rw [ih c]
    cases rest with
    | nil => simp
    | cons q rest' =>
      have hp : (q :: rest').getLast? = some ((q :: rest').getLast (by simp)) :=
        List.getLast?_eq_some_getLast (by simp)
      simp only [List.getLast?_cons_cons, hp, Bool.false_eq_true, if_false, if_true]; ring

theorem bestWeights_total_min (pw : α → α) (prev : α) (l : List (E × α)) :
    total (bestWeights pw true (withPrevAux prev l))
      = pw (1 - prev) - (match l.getLast? with | some p => pw (1 - p.2) | none => pw (1 - prev)) := by
  induction l generalizing prev with
  | nil => simp [withPrevAux, bestWeights, total]
  | cons p rest ih =>
    obtain ⟨u, c⟩ := p
    simp only [withPrevAux, bestWeights, List.map_cons, total] at ih ⊢
    rw [ih c]
    cases rest with
    | nil => simp
    | cons q rest' =>
      have hp : (q :: rest').getLast? = some ((q :: rest').getLast (by simp)) :=
        List.getLast?_eq_some_getLast (by simp)
      simp only [List.getLast?_cons_cons, hp, Bool.false_eq_true, if_false, if_true]; ring
end

/-! ### V-statistic weights telescope to 1 -/

theorem vWeights_sum (pw : ℝ → ℝ) (N : ℕ) (hN : 0 < N) (h0 : pw 0 = 0) (h1 : pw 1 = 1) :
    ((vWeights pw N).sum) = 1 := by
  unfold vWeights
  have key : ∀ M : ℕ, ((List.range M).map fun i : ℕ =>
      pw (((i + 1 : ℕ) : ℝ) / (N : ℝ)) - pw ((i : ℝ) / (N : ℝ))).sum = pw ((M : ℝ) / (N : ℝ)) - pw 0 := by
    intro M
    induction M with
    | zero => simp
    | succ M ih =>
      rw [List.range_succ, List.map_append, List.sum_append, ih]
      simp
  rw [key N, h0, div_self (by exact_mod_cast hN.ne'), h1]; ring

/-- prefix form: the `k` smallest observations carry V-weight `pw (k/N) − pw 0`, i.e. (with `pw x = xⁿ`) the V-statistic
weights are the law whose cdf is `Fⁿ` with `F` the unweighted empirical cdf — the same law whose atoms the average curve
weights by `F_jⁿ − F_{j−1}ⁿ` (`bestWeights_total`); the two curves are expectations of one distribution. -/
theorem vWeights_prefix (pw : ℝ → ℝ) (N k : ℕ) (hk : k ≤ N) :
    ((vWeights pw N).take k).sum = pw ((k : ℝ) / (N : ℝ)) - pw 0 := by
  unfold vWeights
  rw [← List.map_take, List.take_range, min_eq_left hk]
  induction k with
  | zero => simp
  | succ k ih =>
    rw [List.range_succ, List.map_append, List.sum_append, ih (by omega)]
    simp

/-! ### naive curve -/

section
variable {E : Type} [LinearOrder E]

/-- the naive curve is the running maximum (minimum) of the observations in the given order, frozen after `N` -/
theorem naive_max (n : ℕ) (y : E) (ys : List E) :
    naive false n (y :: ys) = some ((ys.take (n - 1)).foldl max y) := by
  show some _ = some _
  congr 1
  apply List.foldl_ext
  intro acc v _
  show (if false = true then _ else _) = _
  rcases lt_or_ge acc v with h | h
  · simp [h, max_eq_right (le_of_lt h)]
  · simp [not_lt.mpr h, max_eq_left h]

theorem naive_min (n : ℕ) (y : E) (ys : List E) :
    naive true n (y :: ys) = some ((ys.take (n - 1)).foldl min y) := by
  show some _ = some _
  congr 1
  apply List.foldl_ext
  intro acc v _
  show (if true = true then _ else _) = _
  rcases lt_or_ge v acc with h | h
  · simp [h, min_eq_right (le_of_lt h)]
  · simp [not_lt.mpr h, min_eq_left h]

theorem foldl_max_le_foldl_max_append (y : E) (l1 l2 : List E) :
    l1.foldl max y ≤ (l1 ++ l2).foldl max y := by
  rw [List.foldl_append]
  generalize l1.foldl max y = z
  induction l2 generalizing z with
  | nil => simp
  | cons v rest ih => exact le_trans (le_max_left z v) (ih (max z v))

theorem foldl_min_append_le (y : E) (l1 l2 : List E) :
    (l1 ++ l2).foldl min y ≤ l1.foldl min y := by
  rw [List.foldl_append]
  generalize l1.foldl min y = z
  induction l2 generalizing z with
  | nil => simp
  | cons v rest ih => exact le_trans (ih (min z v)) (min_le_left z v)

end

end Opda.Emp
