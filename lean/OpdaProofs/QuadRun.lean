import OpdaModel.QuadTrap
import OpdaProofs.Trapezoid
import OpdaProofs.QuadTrap
import Mathlib.Tactic

/-!
C08-T3 for the whole loop: whatever `runCapped` returns is (i) the list of composite trapezoid sums on
`2^i` panels of the integrands, (ii) at a round `i > 3`, (iii) at which every integrand's
`|T_i − T_{i−1}|` is at most `3·atol`.  Nothing more follows from the stopping rule (see
`OpdaProofs/QuadStop.lean` for the witness that it is not an error bound).
-/
namespace Opda.TrapLoop
open Opda.Trap

theorem stops_iff (i : ℕ) (err atol : ℝ) : stops i err atol = true ↔ 3 < i ∧ err ≤ atol := by
  unfold stops; simp

theorem le_maxL (l : List ℝ) (x : ℝ) (hx : x ∈ l) : x ≤ maxL cast l := by
  unfold maxL
  have gen : ∀ (l : List ℝ) (m : ℝ), m ≤ l.foldl (fun m x => if m < x then x else m) m ∧
      ∀ x ∈ l, x ≤ l.foldl (fun m x => if m < x then x else m) m := by
    intro l
    induction l with
    | nil => intro m; simp
    | cons y t ih =>
      intro m
      simp only [List.foldl_cons, List.mem_cons]
      obtain ⟨h1, h2⟩ := ih (if m < y then y else m)
      refine ⟨le_trans ?_ h1, ?_⟩
      · split_ifs with h <;> [exact h.le; exact le_rfl]
      · rintro x (rfl | hx)
        · refine le_trans ?_ h1
          split_ifs with h <;> [exact le_rfl; exact not_lt.mp h]
        · exact h2 x hx
  exact (gen l (cast 0)).2 x hx

theorem absd_eq (x y : ℝ) : absd x y = |x - y| := by
  unfold absd
  split_ifs with h
  · rw [abs_of_neg (by linarith)]; ring
  · rw [abs_of_nonneg (by linarith)]

theorem iter_succ_of_pos (g : ℝ → ℝ) (lo hi : ℝ) (i : ℕ) (hi1 : 1 ≤ i) :
    step cast g lo i (iter cast g lo hi (i - 1)) = iter cast g lo hi i := by
  obtain ⟨k, rfl⟩ : ∃ k, i = k + 1 := ⟨i - 1, by omega⟩
  simp [iter]

/-- invariant-carrying specification of the loop -/
theorem runFrom_spec (gs : List (ℝ → ℝ)) (lo hi atol : ℝ) (fuel : ℕ) :
    ∀ (i : ℕ) (errs : List ℝ) (r : ℕ × List ℝ × List ℝ), 1 ≤ i →
      runFrom cast gs lo atol fuel i (gs.map fun g => iter cast g lo hi (i - 1)) errs = some r →
      i ≤ r.1 ∧ 3 < r.1 ∧ r.2.1 = gs.map (fun g => (iter cast g lo hi r.1).2) ∧
        ∀ g ∈ gs, |(iter cast g lo hi r.1).2 - (iter cast g lo hi (r.1 - 1)).2| ≤ 3 * atol := by
  induction fuel with
  | zero => intro i errs r _ h; simp [runFrom] at h
  | succ fuel ih =>
    intro i errs r hi1 h
    have hsts : List.zipWith (fun g st => step cast g lo i st) gs (gs.map fun g => iter cast g lo hi (i - 1))
        = gs.map fun g => iter cast g lo hi i := by
      rw [List.zipWith_map_right, List.zipWith_self]
      apply List.map_congr_left
      intro g _
      exact iter_succ_of_pos g lo hi i hi1
    have herr : List.zipWith (fun (s s' : ℝ × ℝ) => absd s'.2 s.2) (gs.map fun g => iter cast g lo hi (i - 1))
        (gs.map fun g => iter cast g lo hi i)
        = gs.map fun g => absd (iter cast g lo hi i).2 (iter cast g lo hi (i - 1)).2 := by
      rw [List.zipWith_map, List.zipWith_self]
    simp only [runFrom, hsts, herr] at h
    split_ifs at h with hs
    · -- stopped at round i
      obtain ⟨h3, hlt⟩ := (stops_iff _ _ _).mp hs
      have hr : r = (i, (gs.map fun g => iter cast g lo hi i).map (·.2), ((maxL cast (gs.map fun g =>
          absd (iter cast g lo hi i).2 (iter cast g lo hi (i - 1)).2) / cast 3) :: errs).reverse) :=
        (Option.some.inj h).symm
      subst hr
      refine ⟨le_rfl, h3, by simp [List.map_map, Function.comp_def], ?_⟩
      intro g hg
      have hmem : absd (iter cast g lo hi i).2 (iter cast g lo hi (i - 1)).2 ∈
          gs.map (fun g => absd (iter cast g lo hi i).2 (iter cast g lo hi (i - 1)).2) :=
        List.mem_map.mpr ⟨g, hg, rfl⟩
      have hle := le_maxL _ _ hmem
      rw [absd_eq] at hle
      have h3' : (cast 3 : ℝ) = 3 := by simp [cast]
      rw [h3'] at hlt
      have : maxL cast (gs.map fun g => absd (iter cast g lo hi i).2 (iter cast g lo hi (i - 1)).2) ≤ 3 * atol := by
        rw [div_le_iff₀ (by norm_num : (0:ℝ) < 3)] at hlt; linarith
      exact le_trans hle this
    · have hnext := ih (i + 1) _ r (by omega) (by simpa using h)
      exact ⟨by omega, hnext.2.1, hnext.2.2.1, hnext.2.2.2⟩

/-- **C08-T3 + the `_partial` guarantee** for the loop as run (`runCapped`, any round budget) -/
theorem runCapped_spec (gs : List (ℝ → ℝ)) (lo hi atol : ℝ) (rounds : ℕ) (r : ℕ × List ℝ × List ℝ)
    (h : runCapped cast gs lo hi atol rounds = some r) :
    3 < r.1 ∧ r.2.1 = gs.map (fun g => Trap.trap g lo hi r.1) ∧
      ∀ g ∈ gs, |Trap.trap g lo hi r.1 - Trap.trap g lo hi (r.1 - 1)| ≤ 3 * atol := by
  unfold runCapped at h
  have h0 : (gs.map fun g => (hi - lo, init cast g lo hi)) = gs.map fun g => iter cast g lo hi (1 - 1) := by
    apply List.map_congr_left; intro g _; simp [iter]
  rw [h0] at h
  obtain ⟨_, h3, hT, herr⟩ := runFrom_spec gs lo hi atol rounds 1 [] r le_rfl h
  refine ⟨h3, ?_, ?_⟩
  · rw [hT]; apply List.map_congr_left; intro g _; exact iter_eq_trap g lo hi r.1
  · intro g hg
    have := herr g hg
    rwa [iter_eq_trap, iter_eq_trap] at this

theorem maxL_nonneg (l : List ℝ) : 0 ≤ maxL cast l := by
  unfold maxL
  have gen : ∀ (l : List ℝ) (m : ℝ), m ≤ l.foldl (fun m x => if m < x then x else m) m := by
    intro l
    induction l with
    | nil => intro m; simp
    | cons y t ih =>
      intro m
      simp only [List.foldl_cons]
      refine le_trans ?_ (ih _)
      split_ifs with h <;> [exact h.le; exact le_rfl]
  simpa [cast] using gen l (cast 0)

/-- with a **negative** tolerance the rule `err ≤ atol` can never hold (`err ≥ 0`): the loop exhausts any
round budget (`IntegrationError`).  (Before fd4085d the test was strict and this already happened for
`atol = 0`, i.e. for the point mass `a = b, o = 0` — finding F5.) -/
theorem runFrom_none_of_atol_neg (gs : List (ℝ → ℝ)) (lo atol : ℝ) (hat : atol < 0) (fuel : ℕ) :
    ∀ (i : ℕ) (sts : List (ℝ × ℝ)) (errs : List ℝ), runFrom cast gs lo atol fuel i sts errs = none := by
  induction fuel with
  | zero => intro i sts errs; simp [runFrom]
  | succ fuel ih =>
    intro i sts errs
    simp only [runFrom]
    rw [if_neg]
    · exact ih _ _ _
    · rw [stops_iff]
      rintro ⟨_, hlt⟩
      have h3 : (cast 3 : ℝ) = 3 := by simp [cast]
      rw [h3] at hlt
      have := maxL_nonneg (List.zipWith (fun (s s' : ℝ × ℝ) => absd s'.2 s.2) sts
        (List.zipWith (fun g st => step cast g lo i st) gs sts))
      have : 0 ≤ maxL cast (List.zipWith (fun (s s' : ℝ × ℝ) => absd s'.2 s.2) sts
        (List.zipWith (fun g st => step cast g lo i st) gs sts)) / 3 := div_nonneg this (by norm_num)
      linarith

theorem maxL_zero (l : List ℝ) (h : ∀ x ∈ l, x = 0) : maxL cast l = 0 := by
  unfold maxL
  have gen : ∀ (l : List ℝ), (∀ x ∈ l, x = 0) → l.foldl (fun m x => if m < x then x else m) (0:ℝ) = 0 := by
    intro l
    induction l with
    | nil => intro _; rfl
    | cons y t ih =>
      intro h
      have hy : y = 0 := h y (by simp)
      simp only [List.foldl_cons, hy, lt_self_iff_false, if_false]
      exact ih (fun x hx => h x (by simp [hx]))
  simpa [cast] using gen l h

/-- **stationary integrands stop at the first permitted round**: if every refinement leaves every
trapezoid sum unchanged (`T_i = T_{i−1}` for `i = 1..4`) and `atol ≥ 0`, the loop returns at round 4
whenever the budget allows 4 rounds.  (With `err < atol` and `atol = 0` it never returned: F5.) -/
theorem runFrom_stationary (gs : List (ℝ → ℝ)) (lo hi atol : ℝ) (hat : 0 ≤ atol)
    (hst : ∀ g ∈ gs, ∀ i : ℕ, 1 ≤ i → i ≤ 4 → (iter cast g lo hi i).2 = (iter cast g lo hi (i - 1)).2)
    (fuel : ℕ) :
    ∀ (i : ℕ) (errs : List ℝ), 1 ≤ i → i ≤ 4 → 4 < i + fuel →
      ∃ errs', runFrom cast gs lo atol fuel i (gs.map fun g => iter cast g lo hi (i - 1)) errs
        = some (4, gs.map (fun g => (iter cast g lo hi 4).2), errs') := by
  induction fuel with
  | zero => intro i errs _ h4 hf; omega
  | succ fuel ih =>
    intro i errs hi1 hi4 hf
    have hsts : List.zipWith (fun g st => step cast g lo i st) gs (gs.map fun g => iter cast g lo hi (i - 1))
        = gs.map fun g => iter cast g lo hi i := by
      rw [List.zipWith_map_right, List.zipWith_self]
      apply List.map_congr_left
      intro g _
      exact iter_succ_of_pos g lo hi i hi1
    have herr : List.zipWith (fun (s s' : ℝ × ℝ) => absd s'.2 s.2) (gs.map fun g => iter cast g lo hi (i - 1))
        (gs.map fun g => iter cast g lo hi i)
        = gs.map fun g => absd (iter cast g lo hi i).2 (iter cast g lo hi (i - 1)).2 := by
      rw [List.zipWith_map, List.zipWith_self]
    have hzero : maxL cast (gs.map fun g => absd (iter cast g lo hi i).2 (iter cast g lo hi (i - 1)).2) = 0 := by
      apply maxL_zero
      intro x hx
      obtain ⟨g, hg, rfl⟩ := List.mem_map.mp hx
      rw [absd_eq, hst g hg i hi1 hi4]; simp
    simp only [runFrom, hsts, herr, hzero]
    by_cases h4 : i = 4
    · subst h4
      have : stops 4 ((0:ℝ) / cast 3) atol = true := by
        rw [stops_iff]; exact ⟨by norm_num, by simpa using hat⟩
      rw [if_pos this]
      refine ⟨(0 / cast 3 :: errs).reverse, ?_⟩
      simp only [List.map_map, Function.comp_def]
    · have : ¬ (stops i ((0:ℝ) / cast 3) atol = true) := by
        rw [stops_iff]; rintro ⟨h3, _⟩; omega
      rw [if_neg this]
      have := ih (i + 1) (((0:ℝ) / cast 3) :: errs) (by omega) (by omega) (by omega)
      simpa using this

theorem runCapped_stationary (gs : List (ℝ → ℝ)) (lo hi atol : ℝ) (hat : 0 ≤ atol)
    (hst : ∀ g ∈ gs, ∀ i : ℕ, 1 ≤ i → i ≤ 4 → Trap.trap g lo hi i = Trap.trap g lo hi (i - 1))
    (rounds : ℕ) (hr : 4 ≤ rounds) :
    ∃ errs', runCapped cast gs lo hi atol rounds = some (4, gs.map (fun g => Trap.trap g lo hi 4), errs') := by
  unfold runCapped
  have h0 : (gs.map fun g => (hi - lo, init cast g lo hi)) = gs.map fun g => iter cast g lo hi (1 - 1) := by
    apply List.map_congr_left; intro g _; simp [iter]
  rw [h0]
  obtain ⟨e, he⟩ := runFrom_stationary gs lo hi atol hat
    (fun g hg i h1 h4 => by rw [iter_eq_trap, iter_eq_trap]; exact hst g hg i h1 h4) rounds 1 [] le_rfl (by norm_num)
    (by omega)
  refine ⟨e, ?_⟩
  rw [he]
  have : gs.map (fun g => (iter cast g lo hi 4).2) = gs.map (fun g => Trap.trap g lo hi 4) := by
    apply List.map_congr_left; intro g _; exact iter_eq_trap g lo hi 4
  rw [this]

end Opda.TrapLoop
