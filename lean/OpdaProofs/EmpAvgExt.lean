import OpdaModel.Drv.Emp
import OpdaProofs.EmpAvg
import OpdaProofs.EmpDrv
import OpdaProofs.BandMore
import OpdaProofs.ExtInst
import Mathlib.Tactic
/-!
C04: `v_tuning_curve = average_tuning_curve` for unweighted samples whose observations may be `±∞` (values in `Ext`), on
the terms the driver evaluates (`OpdaModel/Drv/Emp.lean`, ops `v` and `avg`).

`EmpAvg.lean` proves the identity for finite observations (`avgSum = Σ value·weight` in one ordered field).  Here the value
enters through an arbitrary functional `φ : E → α` (`phiSum φ l = Σ φ(value)·weight`), for any linearly ordered value type:
tied observations have equal `φ`, so a tied block's V-weights telescope to the atom's best-of-n weight exactly as before
(`v_eq_average_phi_max/min`).  The driver's extended-value sum `wsum` is a function of three such sums — the finite part
(`φ = ` the finite value, `0` at `±∞`), the weight carried by `+∞` and the weight carried by `−∞` — *provided all weights are
non-negative* (`wsum_of_nonneg`), which holds on both sides when `pw` is non-decreasing on `[0,1]` (true of `x ↦ xⁿ`).
For a `pw` that is not monotone the identity is false: the V-weights of a tied block at `+∞` may be `+1, −1` (reply `nan`)
while the merged atom has weight `0` (reply finite).
-/
set_option linter.unusedSectionVars false
namespace Opda.Emp
open Opda.Wire Opda.Drv.Emp

section generic
variable {E α : Type} [LinearOrder E] [Field α] [LinearOrder α] [IsStrictOrderedRing α]

/-- `Σ_j φ(value_j) · weight_j` -/
def phiSum (φ : E → α) (l : List (E × α)) : α := (l.map fun p => φ p.1 * p.2).sum

theorem phiSum_nil (φ : E → α) : phiSum φ ([] : List (E × α)) = 0 := rfl

theorem phiSum_cons (φ : E → α) (p : E × α) (l : List (E × α)) :
    phiSum φ (p :: l) = φ p.1 * p.2 + phiSum φ l := by
  simp [phiSum]

theorem bestWeights_false' (pw : α → α) (tr : List (E × α × α)) :
    bestWeights pw false tr = tr.map fun t => (t.1, pw t.2.1 - pw t.2.2) := by
  unfold bestWeights
  apply List.map_congr_left
  rintro ⟨u, c, p⟩ _; simp

theorem bestWeights_true' (pw : α → α) (tr : List (E × α × α)) :
    bestWeights pw true tr = tr.map fun t => (t.1, pw (1 - t.2.2) - pw (1 - t.2.1)) := by
  unfold bestWeights
  apply List.map_congr_left
  rintro ⟨u, c, p⟩ _; simp

theorem bestWeights_true_eq_false' (pw : α → α) (tr : List (E × α × α)) :
    bestWeights pw true tr = bestWeights (fun x => -pw (1 - x)) false tr := by
  rw [bestWeights_true', bestWeights_false']
  apply List.map_congr_left
  intro t _; simp only [Prod.mk.injEq, true_and]; ring

/-- `Σ_j φ(v_j) (pw((acc + x_1 + … + x_j)/tot) − pw((acc + x_1 + … + x_{j−1})/tot))` -/
def avgAuxPhi (φ : E → α) (pw : α → α) (tot : α) : α → List (E × α) → α
  | _, [] => 0
  | acc, (v, x) :: rest => φ v * (pw ((acc + x) / tot) - pw (acc / tot)) + avgAuxPhi φ pw tot (acc + x) rest

theorem phiSum_bestWeights_aux (φ : E → α) (pw : α → α) (tot acc : α) (l : List (E × α)) :
    phiSum φ (bestWeights pw false (withPrevAux (acc / tot) ((cumAux acc l).map fun p => (p.1, p.2 / tot))))
      = avgAuxPhi φ pw tot acc l := by
  induction l generalizing acc with
  | nil => simp [cumAux, withPrevAux, bestWeights, phiSum, avgAuxPhi]
  | cons hd tl ih =>
    obtain ⟨v, x⟩ := hd
    have := ih (acc + x)
    rw [bestWeights_false'] at this ⊢
    simp only [cumAux, List.map_cons, withPrevAux, phiSum, List.sum_cons, avgAuxPhi] at this ⊢
    rw [this]

theorem phi_max_eq_avgAuxPhi (φ : E → α) (pw : α → α) (l : List (E × α)) :
    phiSum φ (bestWeights pw false (withPrev (cumN l))) = avgAuxPhi φ pw (total l) 0 l := by
  have := phiSum_bestWeights_aux φ pw (total l) 0 l
  rw [zero_div] at this
  exact this

theorem phi_min_eq_avgAuxPhi (φ : E → α) (pw : α → α) (l : List (E × α)) :
    phiSum φ (bestWeights pw true (withPrev (cumN l))) = avgAuxPhi φ (fun x => -pw (1 - x)) (total l) 0 l := by
  rw [bestWeights_true_eq_false', phi_max_eq_avgAuxPhi]

/-- merging an observation into the head of the atom list (tied block) telescopes -/
theorem avgAuxPhi_insertAtom_head (φ : E → α) (pw : α → α) (tot acc : α) (v : E) (w : α) (l : List (E × α))
    (hle : ∀ p ∈ l, v ≤ p.1) :
    avgAuxPhi φ pw tot acc (insertAtom v w l) = avgAuxPhi φ pw tot acc ((v, w) :: l) := by
  cases l with
  | nil => rfl
  | cons hd tl =>
    obtain ⟨u, x⟩ := hd
    rcases insertAtom_cases v w u x tl with ⟨_, he⟩ | ⟨h, he⟩ | ⟨h, _⟩
    · rw [he]
    · subst h
      rw [he]
      simp only [avgAuxPhi]
      have e1 : acc + (x + w) = acc + w + x := by ring
      rw [e1]; ring
    · exact absurd (hle (u, x) (by simp)) (not_le.mpr h)

/-- on a weakly sorted observation list, merging ties does not change the sum -/
theorem avgAuxPhi_atoms_of_sorted (φ : E → α) (pw : α → α) (tot acc : α) (obs : List (E × α))
    (hs : obs.Pairwise fun p q => p.1 ≤ q.1) : avgAuxPhi φ pw tot acc (atoms obs) = avgAuxPhi φ pw tot acc obs := by
  induction obs generalizing acc with
  | nil => rfl
  | cons o tl ih =>
    obtain ⟨v, w⟩ := o
    rw [List.pairwise_cons] at hs
    show avgAuxPhi φ pw tot acc (insertAtom v w (atoms tl)) = _
    rw [avgAuxPhi_insertAtom_head φ pw tot acc v w _ ?_]
    · simp only [avgAuxPhi, ih _ hs.2]
    · intro p hp
      obtain ⟨p', hp', he⟩ := mem_atoms hp
      rw [← he]; exact hs.1 p' hp'

theorem avgAuxPhi_unit (φ : E → α) (pw : α → α) (N k : ℕ) (s : List E) :
    avgAuxPhi φ pw (N : α) (k : α) (s.map fun y => (y, (1 : α)))
      = phiSum φ (s.zip ((List.range' k s.length).map (vWeightAt pw N))) := by
  induction s generalizing k with
  | nil => simp [avgAuxPhi, phiSum]
  | cons y tl ih =>
    have := ih (k + 1)
    simp only [List.map_cons, avgAuxPhi, List.length_cons, List.range'_succ, List.zip_cons_cons, phiSum,
      List.sum_cons, vWeightAt] at this ⊢
    push_cast at this ⊢
    rw [this]

theorem total_unit' (s : List E) : total (s.map fun y => (y, (1 : α))) = (s.length : α) := by
  induction s with
  | nil => simp [total]
  | cons hd tl ih => simp only [List.map_cons, total, ih, List.length_cons]; push_cast; ring

/-- **V-statistic = average curve (maximise) through any functional `φ` of the value**, any linearly ordered value type -/
theorem v_eq_average_phi_max (φ : E → α) (pw : α → α) (ys s : List E) (hperm : s.Perm ys)
    (hsorted : s.Pairwise (· ≤ ·)) :
    phiSum φ (s.zip (vWeights pw ys.length))
      = phiSum φ (bestWeights pw false (withPrev (cumN (atoms (ys.map fun y => (y, (1 : α))))))) := by
  have hp : (s.map fun y => (y, (1 : α))).Perm (ys.map fun y => (y, (1 : α))) := hperm.map _
  rw [← atoms_perm hp, phi_max_eq_avgAuxPhi, total_atoms, total_unit']
  have hs' : (s.map fun y => (y, (1 : α))).Pairwise fun p q => p.1 ≤ q.1 := by
    rw [List.pairwise_map]; exact hsorted
  rw [avgAuxPhi_atoms_of_sorted _ _ _ _ _ hs']
  have := avgAuxPhi_unit φ pw s.length 0 s
  rw [Nat.cast_zero] at this
  rw [this, hperm.length_eq, vWeights_eq_map, List.range_eq_range']

theorem avgAuxPhi_append (φ : E → α) (pw : α → α) (tot acc : α) (L M : List (E × α)) :
    avgAuxPhi φ pw tot acc (L ++ M) = avgAuxPhi φ pw tot acc L + avgAuxPhi φ pw tot (acc + total L) M := by
  induction L generalizing acc with
  | nil => simp [avgAuxPhi, total]
  | cons hd tl ih =>
    obtain ⟨v, x⟩ := hd
    simp only [List.cons_append, avgAuxPhi, ih, total]
    rw [show acc + x + total tl = acc + (x + total tl) by ring]; ring

/-- the reversed list summed from the other end is the survival form -/
theorem avgAuxPhi_reverse (φ : E → α) (pw : α → α) (tot : α) (htot : tot ≠ 0) (l : List (E × α)) (acc acc' : α)
    (h : acc' + total l + acc = tot) :
    avgAuxPhi φ pw tot acc' l.reverse = avgAuxPhi φ (fun x => -pw (1 - x)) tot acc l := by
  induction l generalizing acc with
  | nil => simp [avgAuxPhi]
  | cons hd tl ih =>
    obtain ⟨u, x⟩ := hd
    simp only [total] at h
    rw [List.reverse_cons, avgAuxPhi_append, ih (acc + x) (by rw [← h]; ring), total_reverse]
    simp only [avgAuxPhi]
    have e1 : (acc' + total tl + x) / tot = 1 - acc / tot := by
      rw [eq_sub_iff_add_eq, ← add_div, div_eq_one_iff_eq htot, ← h]; ring
    have e2 : (acc' + total tl) / tot = 1 - (acc + x) / tot := by
      rw [eq_sub_iff_add_eq, ← add_div, div_eq_one_iff_eq htot, ← h]; ring
    rw [e1, e2]; ring

/-- **V-statistic = average curve (minimise) through any functional `φ`**: the same V-weights against the sample sorted in
decreasing order, the survival form of the best-of-n weights on the atoms -/
theorem v_eq_average_phi_min (φ : E → α) (pw : α → α) (ys s : List E) (hne : ys ≠ []) (hperm : s.Perm ys)
    (hsorted : s.Pairwise (· ≤ ·)) :
    phiSum φ (s.reverse.zip (vWeights pw ys.length))
      = phiSum φ (bestWeights pw true (withPrev (cumN (atoms (ys.map fun y => (y, (1 : α))))))) := by
  have hlen : s.length = ys.length := hperm.length_eq
  have hN : ((s.length : ℕ) : α) ≠ 0 := by
    have : 0 < s.length := by rw [hlen]; exact List.length_pos_iff.mpr hne
    exact_mod_cast this.ne'
  have hp : (s.map fun y => (y, (1 : α))).Perm (ys.map fun y => (y, (1 : α))) := hperm.map _
  have hs' : (s.map fun y => (y, (1 : α))).Pairwise fun p q => p.1 ≤ q.1 := by
    rw [List.pairwise_map]; exact hsorted
  rw [← atoms_perm hp, phi_min_eq_avgAuxPhi, total_atoms, total_unit', avgAuxPhi_atoms_of_sorted _ _ _ _ _ hs']
  rw [← avgAuxPhi_reverse φ pw (s.length : α) hN (s.map fun y => (y, (1 : α))) 0 0 (by rw [total_unit']; ring)]
  rw [← List.map_reverse]
  have := avgAuxPhi_unit φ pw s.length 0 s.reverse
  rw [Nat.cast_zero] at this
  rw [this, List.length_reverse, ← hlen, vWeights_eq_map, List.range_eq_range']

/-! ### zero-weight entries, signs -/

theorem phiSum_dropZero (φ : E → α) (l : List (E × α)) : phiSum φ (dropZero l) = phiSum φ l := by
  induction l with
  | nil => rfl
  | cons hd tl ih =>
    by_cases h : hd.2 = 0
    · have : dropZero (hd :: tl) = dropZero tl := by simp [dropZero, h]
      rw [this, ih, phiSum_cons, h]; simp
    · have : dropZero (hd :: tl) = hd :: dropZero tl := by simp [dropZero, h]
      rw [this, phiSum_cons, phiSum_cons, ih]

theorem nonNeg_dropZero (l : List (E × α)) (h : NonNeg l) : NonNeg (dropZero l) :=
  fun p hp => h p (List.mem_of_mem_filter hp)

/-- all V-weights are non-negative when `pw` is non-decreasing on `[0,1]` -/
theorem vWeights_nonneg (pw : α → α) (hmono : ∀ x y, 0 ≤ x → x ≤ y → y ≤ 1 → pw x ≤ pw y) (N : ℕ) :
    ∀ w ∈ vWeights pw N, 0 ≤ w := by
  intro w hw
  rw [vWeights_eq_map, List.mem_map] at hw
  obtain ⟨i, hi, rfl⟩ := hw
  rw [List.mem_range] at hi
  have hNpos : (0 : α) < (N : α) := by exact_mod_cast (Nat.zero_lt_of_lt hi)
  unfold vWeightAt
  rw [sub_nonneg]
  apply hmono
  · exact div_nonneg (Nat.cast_nonneg i) hNpos.le
  · rw [div_le_div_iff_of_pos_right hNpos]; exact_mod_cast Nat.le_succ i
  · rw [div_le_one hNpos]; exact_mod_cast hi

theorem nonNeg_zip (s : List E) (ws : List α) (h : ∀ w ∈ ws, 0 ≤ w) : NonNeg (s.zip ws) :=
  fun p hp => h p.2 (List.of_mem_zip hp).2

/-- best-of-n weights over the levels of a non-negative list are non-negative, both directions, when `pw` is
non-decreasing on `[0,1]` -/
theorem bestWeights_nonneg_aux (pw : α → α) (hmono : ∀ x y, 0 ≤ x → x ≤ y → y ≤ 1 → pw x ≤ pw y) (mn : Bool)
    (tot : α) (htot : 0 < tot) (acc : α) (l : List (E × α)) (hn : NonNeg l) (hacc : 0 ≤ acc)
    (hsum : acc + total l ≤ tot) :
    NonNeg (bestWeights pw mn (withPrevAux (acc / tot) ((cumAux acc l).map fun p => (p.1, p.2 / tot)))) := by
  induction l generalizing acc with
  | nil => intro p hp; simp [cumAux, withPrevAux, bestWeights] at hp
  | cons hd tl ih =>
    obtain ⟨v, x⟩ := hd
    have hx : 0 ≤ x := hn (v, x) (by simp)
    have hn' : NonNeg tl := fun p hp => hn p (by simp [hp])
    simp only [total] at hsum
    have htl : 0 ≤ total tl := total_nonneg tl hn'
    have ih' := ih (acc + x) hn' (by linarith) (by linarith)
    intro p hp
    simp only [cumAux, List.map_cons, withPrevAux, bestWeights, List.mem_cons] at hp
    rcases hp with rfl | hp
    · have h0 : 0 ≤ acc / tot := div_nonneg hacc htot.le
      have h1 : acc / tot ≤ (acc + x) / tot := by
        rw [div_le_div_iff_of_pos_right htot]; linarith
      have h2 : (acc + x) / tot ≤ 1 := by rw [div_le_one htot]; linarith
      cases mn
      · simp only [Bool.false_eq_true, if_false, sub_nonneg]
        exact hmono _ _ h0 h1 h2
      · simp only [if_true, sub_nonneg]
        exact hmono _ _ (by linarith) (by linarith) (by linarith)
    · exact ih' p (by simpa [bestWeights] using hp)

theorem bestWeights_nonneg (pw : α → α) (hmono : ∀ x y, 0 ≤ x → x ≤ y → y ≤ 1 → pw x ≤ pw y) (mn : Bool)
    (l : List (E × α)) (hn : NonNeg l) (htot : 0 < total l) :
    NonNeg (bestWeights pw mn (withPrev (cumN l))) := by
  have := bestWeights_nonneg_aux pw hmono mn (total l) htot 0 l hn le_rfl (by rw [zero_add])
  rw [zero_div] at this
  exact this

end generic

/-! ## the driver's extended-value sum -/

section ext

/-- the finite value (`0` at `±∞`) -/
def phiFin : Ext → ℚ
  | .fin v => v
  | _ => 0

/-- indicator of `+∞` -/
def phiPos : Ext → ℚ
  | .posInf => 1
  | _ => 0

/-- indicator of `−∞` -/
def phiNeg : Ext → ℚ
  | .negInf => 1
  | _ => 0

theorem phiSum_nonneg (φ : Ext → ℚ) (hφ : ∀ v, 0 ≤ φ v) (l : List (Ext × ℚ)) (hn : NonNeg l) : 0 ≤ phiSum φ l := by
  induction l with
  | nil => exact le_rfl
  | cons hd tl ih =>
    rw [phiSum_cons]
    have := ih (fun p hp => hn p (List.mem_cons_of_mem _ hp))
    have := mul_nonneg (hφ hd.1) (hn hd (by simp))
    linarith

theorem phiPos_nonneg (v : Ext) : 0 ≤ phiPos v := by cases v <;> simp [phiPos]
theorem phiNeg_nonneg (v : Ext) : 0 ≤ phiNeg v := by cases v <;> simp [phiNeg]

theorem wsum_fold_eq (l : List (Ext × ℚ)) (acc : ℚ) :
    l.foldl (fun acc p => match p.1 with | .fin v => acc + v * p.2 | _ => acc) acc = acc + phiSum phiFin l := by
  induction l generalizing acc with
  | nil => simp [phiSum]
  | cons hd tl ih =>
    obtain ⟨v, w⟩ := hd
    rw [List.foldl_cons, ih, phiSum_cons]
    cases v <;> simp [phiFin] <;> ring

theorem wsum_pos_iff (l : List (Ext × ℚ)) (hn : NonNeg l) :
    (l.any fun p => (p.1 == .posInf && decide (0 < p.2)) || (p.1 == .negInf && decide (p.2 < 0))) = true
      ↔ 0 < phiSum phiPos l := by
  induction l with
  | nil => simp [phiSum]
  | cons hd tl ih =>
    obtain ⟨v, w⟩ := hd
    have hw : 0 ≤ w := hn (v, w) (by simp)
    have hn' : NonNeg tl := fun p hp => hn p (List.mem_cons_of_mem _ hp)
    have hr := phiSum_nonneg phiPos phiPos_nonneg tl hn'
    rw [List.any_cons, Bool.or_eq_true, ih hn', phiSum_cons]
    cases v
    · simp only [phiPos, zero_mul, zero_add]
      have : ¬ w < 0 := not_lt.mpr hw
      simp [this]
    · simp [phiPos]
    · simp only [phiPos, one_mul]
      constructor
      · rintro (h | h)
        · have : 0 < w := by simpa using h
          linarith
        · linarith
      · intro h
        by_cases h0 : 0 < w
        · left; simpa using h0
        · right; have : w = 0 := le_antisymm (not_lt.mp h0) hw
          linarith

theorem wsum_neg_iff (l : List (Ext × ℚ)) (hn : NonNeg l) :
    (l.any fun p => (p.1 == .negInf && decide (0 < p.2)) || (p.1 == .posInf && decide (p.2 < 0))) = true
      ↔ 0 < phiSum phiNeg l := by
  induction l with
  | nil => simp [phiSum]
  | cons hd tl ih =>
    obtain ⟨v, w⟩ := hd
    have hw : 0 ≤ w := hn (v, w) (by simp)
    have hn' : NonNeg tl := fun p hp => hn p (List.mem_cons_of_mem _ hp)
    have hr := phiSum_nonneg phiNeg phiNeg_nonneg tl hn'
    rw [List.any_cons, Bool.or_eq_true, ih hn', phiSum_cons]
    cases v
    · simp only [phiNeg, one_mul]
      constructor
      · rintro (h | h)
        · have : 0 < w := by simpa using h
          linarith
        · linarith
      · intro h
        by_cases h0 : 0 < w
        · left; simpa using h0
        · right; have : w = 0 := le_antisymm (not_lt.mp h0) hw
          linarith
    · simp [phiNeg]
    · simp only [phiNeg, zero_mul, zero_add]
      have : ¬ w < 0 := not_lt.mpr hw
      simp [this]

/-- **the driver's sum of `weight × value` over extended values, for non-negative weights**, in terms of the finite part,
the weight carried by `+∞` and the weight carried by `−∞`: `nan` (`none`) when both infinities carry weight, that infinity
when one does, the finite sum otherwise -/
theorem wsum_of_nonneg (l : List (Ext × ℚ)) (hn : NonNeg l) :
    wsum l = if 0 < phiSum phiPos l ∧ 0 < phiSum phiNeg l then none
      else if 0 < phiSum phiPos l then some .posInf
      else if 0 < phiSum phiNeg l then some .negInf
      else some (.fin (phiSum phiFin l)) := by
  have hf := wsum_fold_eq l 0
  rw [zero_add] at hf
  have hp := wsum_pos_iff l hn
  have hm := wsum_neg_iff l hn
  unfold wsum
  simp only [Bool.and_eq_true, hp, hm]
  split_ifs <;> first | rfl | exact congrArg (fun t => some (Ext.fin t)) hf

/-- the three sums agree ⇒ the replies agree -/
theorem wsum_congr (l l' : List (Ext × ℚ)) (hn : NonNeg l) (hn' : NonNeg l')
    (hF : phiSum phiFin l = phiSum phiFin l') (hP : phiSum phiPos l = phiSum phiPos l')
    (hM : phiSum phiNeg l = phiSum phiNeg l') : wsum l = wsum l' := by
  rw [wsum_of_nonneg l hn, wsum_of_nonneg l' hn', hF, hP, hM]

theorem pairwise_sort_ext (ys : List Ext) : (Opda.Band.sort ys).Pairwise (· ≤ ·) := by
  rw [Opda.Band.sort_eq_insertionSort]; exact List.pairwise_insertionSort _ _

theorem perm_sort_ext (ys : List Ext) : (Opda.Band.sort ys).Perm ys := by
  rw [Opda.Band.sort_eq_insertionSort]; exact List.perm_insertionSort _ _

theorem nonNeg_unit (ys : List Ext) : NonNeg (ys.map fun y => (y, (1 : ℚ))) := by
  intro p hp
  obtain ⟨y, _, rfl⟩ := List.mem_map.mp hp
  exact zero_le_one

theorem total_unit_pos (ys : List Ext) (hne : ys ≠ []) : 0 < total (ys.map fun y => (y, (1 : ℚ))) := by
  rw [total_unit']
  exact_mod_cast List.length_pos_iff.mpr hne

/-- the `avg` side: the filtered best-of-n weights over the padded support, non-negative for monotone `pw` -/
theorem avg_side_eq (pw : ℚ → ℚ) (mn : Bool) (a b : Ext) (obs : List (Ext × ℚ)) :
    ((bestWeights pw mn (withPrev (cumN (support Ext.negInf Ext.posInf a b obs)))).filter fun p => p.2 ≠ 0)
      = dropZero (bestWeights pw mn (withPrev (cumN (atoms obs)))) := by
  have h := dropZero_bestWeights_support (E := Ext) pw mn a b obs
  unfold dropZero at h ⊢
  rw [show (Ext.negInf : Ext) = ⊥ from rfl, show (Ext.posInf : Ext) = ⊤ from rfl]
  exact h

/-- **`v` op = `avg` op on the driver's own terms, observations in `Ext` (`±∞` allowed)**: every non-empty unweighted
sample, any bounds, both `minimize` settings, every `pw` that is non-decreasing on `[0,1]`. -/
theorem v_driver_eq_avg_driver_ext (pw : ℚ → ℚ) (hmono : ∀ x y, 0 ≤ x → x ≤ y → y ≤ 1 → pw x ≤ pw y) (mn : Bool)
    (a b : Ext) (ys : List Ext) (hne : ys ≠ []) :
    wsum (((if mn then (Opda.Band.sort ys).reverse else Opda.Band.sort ys).zip (vWeights pw ys.length)).filter
        fun p => p.2 ≠ 0)
      = wsum ((bestWeights pw mn (withPrev (cumN (support Ext.negInf Ext.posInf a b
          (ys.map fun y => (y, (1 : ℚ))))))).filter fun p => p.2 ≠ 0) := by
  rw [avg_side_eq]
  have hA : NonNeg (atoms (ys.map fun y => (y, (1 : ℚ)))) := nonNeg_atoms _ (nonNeg_unit ys)
  have hT : 0 < total (atoms (ys.map fun y => (y, (1 : ℚ)))) := by rw [total_atoms]; exact total_unit_pos ys hne
  have hR : NonNeg (dropZero (bestWeights pw mn (withPrev (cumN (atoms (ys.map fun y => (y, (1 : ℚ)))))))) :=
    nonNeg_dropZero _ (bestWeights_nonneg pw hmono mn _ hA hT)
  have hV := vWeights_nonneg pw hmono ys.length
  have key : ∀ φ : Ext → ℚ,
      phiSum φ (dropZero ((if mn then (Opda.Band.sort ys).reverse else Opda.Band.sort ys).zip (vWeights pw ys.length)))
        = phiSum φ (dropZero (bestWeights pw mn (withPrev (cumN (atoms (ys.map fun y => (y, (1 : ℚ)))))))) := by
    intro φ
    rw [phiSum_dropZero, phiSum_dropZero]
    cases mn
    · simpa using v_eq_average_phi_max φ pw ys _ (perm_sort_ext ys) (pairwise_sort_ext ys)
    · simpa using v_eq_average_phi_min φ pw ys _ hne (perm_sort_ext ys) (pairwise_sort_ext ys)
  exact wsum_congr (dropZero _) _ (nonNeg_dropZero _ (nonNeg_zip _ _ hV)) hR (key _) (key _) (key _)

theorem pow_mono_unit (n : ℕ) : ∀ x y : ℚ, 0 ≤ x → x ≤ y → y ≤ 1 → (fun x : ℚ => x ^ n) x ≤ (fun x : ℚ => x ^ n) y :=
  fun _ _ hx hxy _ => pow_le_pow_left₀ hx hxy n

/-- the same for the very function the driver uses, `x ↦ xⁿ`, every `n : ℕ` -/
theorem v_driver_eq_avg_driver_ext_pow (n : ℕ) (mn : Bool) (a b : Ext) (ys : List Ext) (hne : ys ≠ []) :
    wsum (((if mn then (Opda.Band.sort ys).reverse else Opda.Band.sort ys).zip
        (vWeights (fun x : ℚ => x ^ n) ys.length)).filter fun p => p.2 ≠ 0)
      = wsum ((bestWeights (fun x : ℚ => x ^ n) mn (withPrev (cumN (support Ext.negInf Ext.posInf a b
          (ys.map fun y => (y, (1 : ℚ))))))).filter fun p => p.2 ≠ 0) :=
  v_driver_eq_avg_driver_ext _ (pow_mono_unit n) mn a b ys hne

/-- **what the common reply is**: with `bw` the filtered best-of-n weights over the padded support (all non-negative),
`nan` when `+∞` and `−∞` both carry weight, that infinity when exactly one does, and otherwise the finite sum
`Σ_{finite v} v·w` -/
theorem avg_driver_ext_value (pw : ℚ → ℚ) (hmono : ∀ x y, 0 ≤ x → x ≤ y → y ≤ 1 → pw x ≤ pw y) (mn : Bool)
    (a b : Ext) (ys : List Ext) (hne : ys ≠ []) :
    let bw := (bestWeights pw mn (withPrev (cumN (support Ext.negInf Ext.posInf a b
      (ys.map fun y => (y, (1 : ℚ))))))).filter fun p => p.2 ≠ 0
    NonNeg bw ∧
    wsum bw = if 0 < phiSum phiPos bw ∧ 0 < phiSum phiNeg bw then none
      else if 0 < phiSum phiPos bw then some .posInf
      else if 0 < phiSum phiNeg bw then some .negInf
      else some (.fin (phiSum phiFin bw)) := by
  intro bw
  have hA : NonNeg (atoms (ys.map fun y => (y, (1 : ℚ)))) := nonNeg_atoms _ (nonNeg_unit ys)
  have hT : 0 < total (atoms (ys.map fun y => (y, (1 : ℚ)))) := by rw [total_atoms]; exact total_unit_pos ys hne
  have hbw : NonNeg bw := by
    show NonNeg (List.filter _ _)
    rw [avg_side_eq]
    exact nonNeg_dropZero _ (bestWeights_nonneg pw hmono mn _ hA hT)
  exact ⟨hbw, wsum_of_nonneg bw hbw⟩

/-- **monotonicity of `pw` is necessary**: for `pw` with `pw 0 = 0, pw (1/2) = 1, pw 1 = 0` the sample `{+∞, +∞}` has
V-weights `+1, −1` at `+∞` (reply `nan`), while its single atom carries best-of-n weight `0` (reply the finite sum `0`) -/
theorem v_ne_avg_nonmonotone :
    let pw : ℚ → ℚ := fun x => if x = 1 / 2 then 1 else 0
    wsum (((Opda.Band.sort [Ext.posInf, Ext.posInf]).zip (vWeights pw 2)).filter fun p => p.2 ≠ 0) = none
      ∧ wsum ((bestWeights pw false (withPrev (cumN (support Ext.negInf Ext.posInf Ext.negInf Ext.posInf
          ([Ext.posInf, Ext.posInf].map fun y => (y, (1 : ℚ))))))).filter fun p => p.2 ≠ 0) = some (.fin 0) := by
  constructor <;> decide +kernel

end ext

end Opda.Emp
