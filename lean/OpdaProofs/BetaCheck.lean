import OpdaProofs.BetaCdf
import OpdaProofs.HdiBound

/-!
# Soundness of the exact Beta(a,b) checkers of `OpdaModel/BetaBinom.lean` (C15)

`G a b` is the Beta(a,b) distribution function over ℝ (the binomial tail polynomial, whose derivative is
`κ·s^{a−1}(1−s)^{b−1}`, `κ = 1/B(a,b)`, by `Opda.BetaCdf`).  The checkers run in ℚ on the
implementation's outputs; these theorems say what an accepted check *proves* about the real numbers:

* `etCheck_sound`, `hdiMassCheck_sound` — order, mass and tail clauses;
* `hdiCertOK_sound`, `hdiCheck_sound` — **every** interval `[u,v] ⊆ [0,1]` of at least the mass of `[x,y]`
  has length `≥ (y−x) − slack` (unimodality `g_mono/g_anti` + weak duality `level_bound`);
* `hdiWitness_sound` — a reported counter-example really is one.
-/
namespace Opda.BetaCheck
open Opda.BetaBinom Opda.CP Opda.BetaBinomP Opda.BetaCdf Opda.Hdi Set

/-- Beta(a,b) distribution function over ℝ (binomial tail polynomial) -/
noncomputable def G (a b : ℕ) (s : ℝ) : ℝ := tail (a + b - 1) a s

theorem betaCdf_cast (a b : ℕ) (x : ℚ) (h0 : 0 ≤ x) (h1 : x ≤ 1) :
    ((betaCdf a b x : ℚ) : ℝ) = G a b (x : ℝ) := tailQ_cast _ _ x h0 h1

theorem dens_cast (a b : ℕ) (x : ℚ) : ((dens a b x : ℚ) : ℝ) = g (a - 1) (b - 1) (x : ℝ) := by
  unfold dens g; push_cast; ring

theorem minQ_cast (p q : ℚ) : ((minQ p q : ℚ) : ℝ) = min (p : ℝ) (q : ℝ) := by
  unfold minQ
  split_ifs with h
  · rw [min_eq_left (by exact_mod_cast h)]
  · rw [min_eq_right (by exact_mod_cast (not_le.mp h).le)]

theorem betaNorm_eq (a b : ℕ) : betaNorm a b = (a + b - 1) * Nat.choose (a + b - 2) (a - 1) := by
  unfold betaNorm; rw [choose_eq]

/-- the derivative of `G` is `κ · s^{a−1}(1−s)^{b−1}` with `κ = betaNorm a b` -/
theorem dtail_eq_g (a b : ℕ) (ha : 0 < a) (hb : 0 < b) (s : ℝ) :
    dtail (a + b - 1) a s = (betaNorm a b : ℝ) * g (a - 1) (b - 1) s := by
  obtain ⟨k, rfl⟩ : ∃ k, a = k + 1 := ⟨a - 1, by omega⟩
  rw [dtail_succ_eq, betaNorm_eq]
  have e1 : k + 1 + b - 1 - 1 = k + 1 + b - 2 := by omega
  have e2 : k + 1 + b - 1 - 1 - k = b - 1 := by omega
  have e3 : k + 1 - 1 = k := by omega
  rw [e2, e1, e3]
  unfold g; push_cast; ring

theorem betaNorm_pos (a b : ℕ) (ha : 0 < a) (hb : 0 < b) : 0 < betaNorm a b := by
  rw [betaNorm_eq]
  apply Nat.mul_pos (by omega)
  exact Nat.choose_pos (by omega)

theorem mass_eq_integral (a b : ℕ) (ha : 0 < a) (hb : 0 < b) (u v : ℝ) :
    G a b v - G a b u = ∫ s in u..v, (betaNorm a b : ℝ) * g (a - 1) (b - 1) s := by
  unfold G
  rw [← integral_dtail]
  exact intervalIntegral.integral_congr fun s _ => dtail_eq_g a b ha hb s


theorem modeQ_cast (a b : ℕ) (ha : 0 < a) (hb : 0 < b) :
    ((modeQ a b : ℚ) : ℝ) = ((a - 1 : ℕ) : ℝ) / (((a - 1 : ℕ) : ℝ) + ((b - 1 : ℕ) : ℝ)) := by
  unfold modeQ
  have : a + b - 2 = (a - 1) + (b - 1) := by omega
  rw [this]; push_cast; ring

/-- **soundness of the highest-density certificate**: if `hdiCertOK` accepts, then every interval
`[u,v] ⊆ [0,1]` whose Beta(a,b) mass is at least that of `[x,y]` has length at least `(y − x) − slack`. -/
theorem hdiCertOK_sound (a b : ℕ) (x y x1 x2 y2 y1 t slack : ℚ)
    (h : hdiCertOK a b x y x1 x2 y2 y1 t slack = true)
    (u v : ℝ) (hu : 0 ≤ u) (huv : u ≤ v) (hv : v ≤ 1)
    (hmass : G a b (y : ℝ) - G a b (x : ℝ) ≤ G a b v - G a b u) :
    ((y : ℝ) - (x : ℝ)) - (slack : ℝ) ≤ v - u := by
  unfold hdiCertOK at h
  simp only [Bool.and_eq_true, Bool.or_eq_true, decide_eq_true_eq] at h
  obtain ⟨⟨⟨⟨⟨⟨⟨⟨⟨⟨⟨⟨⟨⟨⟨⟨⟨⟨⟨⟨ha, hb⟩, hab⟩, hx0⟩, hx1⟩, hy0⟩, hy1⟩, h10⟩, h12⟩, h2m⟩, hm2⟩, h21⟩, h11⟩, ht⟩,
    hA⟩, hB⟩, hA'⟩, hB'⟩, hD1⟩, hD2⟩, hfin⟩ := h
  -- real versions
  set α := a - 1 with hα
  set β := b - 1 with hβ
  have hpos : 0 < α + β := by omega
  set m : ℝ := (α : ℝ) / ((α : ℝ) + (β : ℝ)) with hm
  have hmode : ((modeQ a b : ℚ) : ℝ) = m := modeQ_cast a b ha hb
  have c : ∀ p q : ℚ, p ≤ q → (p : ℝ) ≤ (q : ℝ) := fun p q hpq => by exact_mod_cast hpq
  have X10 : (0:ℝ) ≤ x1 := by exact_mod_cast h10
  have X12 : (x1:ℝ) ≤ x2 := c _ _ h12
  have X2m : (x2:ℝ) ≤ m := by rw [← hmode]; exact c _ _ h2m
  have Xm2 : m ≤ (y2:ℝ) := by rw [← hmode]; exact c _ _ hm2
  have X21 : (y2:ℝ) ≤ y1 := c _ _ h21
  have X11 : (y1:ℝ) ≤ 1 := by exact_mod_cast h11
  have T0 : (0:ℝ) < t := by exact_mod_cast ht
  have d : ∀ z : ℚ, ((dens a b z : ℚ) : ℝ) = g α β (z : ℝ) := fun z => dens_cast a b z
  have gm := g_mono α β hpos
  have ga := g_anti α β hpos
  have m0 : 0 ≤ m := le_trans X10 (X12.trans X2m)
  have m1 : m ≤ 1 := le_trans Xm2 (X21.trans X11)
  -- monotone pieces
  have up : ∀ s s' : ℝ, 0 ≤ s → s ≤ s' → s' ≤ m → g α β s ≤ g α β s' :=
    fun s s' h0 hss hsm => gm ⟨h0, hss.trans hsm⟩ ⟨h0.trans hss, hsm⟩ hss
  have down : ∀ s s' : ℝ, m ≤ s → s ≤ s' → s' ≤ 1 → g α β s' ≤ g α β s :=
    fun s s' hms hss hs1 => ga ⟨hms, hss.trans hs1⟩ ⟨hms.trans hss, hs1⟩ hss
  set κ : ℝ := (betaNorm a b : ℝ) with hκ
  have κpos : 0 < κ := by rw [hκ]; exact_mod_cast betaNorm_pos a b ha hb
  set f1 : ℝ := g α β (x1 : ℝ) with hf1
  set f2 : ℝ := g α β (y1 : ℝ) with hf2
  have D1 : (t:ℝ) ≤ g α β (x2:ℝ) := by rw [← d]; exact c _ _ hD1
  have D2 : (t:ℝ) ≤ g α β (y2:ℝ) := by rw [← d]; exact c _ _ hD2
  have key := level_bound (f := fun s => κ * g α β s) (continuous_const.mul (g_continuous α β))
    (κ * t) (κ * min f1 t) (κ * min f2 t) x1 x2 y2 y1 X10 X12 (X2m.trans Xm2) X21 X11
    (mul_le_mul_of_nonneg_left (min_le_right _ _) κpos.le)
    (mul_le_mul_of_nonneg_left (min_le_right _ _) κpos.le)
    (by
      intro hx1pos s hs
      have hf1t : f1 ≤ t := by
        rcases hA with h | h
        · exact absurd (by exact_mod_cast h : (x1:ℝ) ≤ 0) (not_le.mpr hx1pos)
        · rw [hf1, ← d]; exact c _ _ h
      exact mul_le_mul_of_nonneg_left ((up s x1 hs.1 hs.2 (X12.trans X2m)).trans hf1t) κpos.le)
    (by
      intro hy1lt s hs
      have hf2t : f2 ≤ t := by
        rcases hB with h | h
        · exact absurd (by exact_mod_cast h : (1:ℝ) ≤ y1) (not_le.mpr hy1lt)
        · rw [hf2, ← d]; exact c _ _ h
      exact mul_le_mul_of_nonneg_left ((down y1 s (Xm2.trans X21) hs.1 hs.2).trans hf2t) κpos.le)
    (by
      intro s hs
      exact mul_le_mul_of_nonneg_left ((min_le_left _ _).trans (up x1 s X10 hs.1 (hs.2.trans X2m))) κpos.le)
    (by
      intro s hs
      apply mul_le_mul_of_nonneg_left _ κpos.le
      rcases le_total s m with hsm | hms
      · exact D1.trans (up x2 s (X10.trans X12) hs.1 hsm)
      · exact D2.trans (down s y2 hms hs.2 (X21.trans X11)))
    (by
      intro s hs
      exact mul_le_mul_of_nonneg_left ((min_le_left _ _).trans (down s y1 (Xm2.trans hs.1) hs.2 X11)) κpos.le)
    u v hu huv hv
  rw [← mass_eq_integral a b ha hb, ← mass_eq_integral a b ha hb] at key
  -- the checker's last inequality, cast to ℝ
  have fin := c _ _ hfin
  push_cast at fin
  rw [minQ_cast, minQ_cast, d, d,
    betaCdf_cast a b y1 (le_trans h10 (le_trans h12 (le_trans h2m (le_trans hm2 h21)))) h11,
    betaCdf_cast a b x1 h10 (le_trans h12 (le_trans h2m (le_trans hm2 (le_trans h21 h11)))),
    betaCdf_cast a b y hy0 hy1, betaCdf_cast a b x hx0 hx1] at fin
  -- combine: κ t (v-u) ≥ ... ≥ κ t ((y-x) - slack)
  have hdiv : ((G a b (y1:ℝ) - G a b (x1:ℝ)) - (G a b (y:ℝ) - G a b (x:ℝ))) / κ * κ
      = (G a b (y1:ℝ) - G a b (x1:ℝ)) - (G a b (y:ℝ) - G a b (x:ℝ)) := div_mul_cancel₀ _ κpos.ne'
  have step : κ * ((t:ℝ) * (((y:ℝ) - x) - slack)) ≤ κ * ((t:ℝ) * (v - u)) := by
    have := mul_le_mul_of_nonneg_left fin κpos.le
    nlinarith [hdiv]
  have : (t:ℝ) * (((y:ℝ) - x) - slack) ≤ (t:ℝ) * (v - u) := le_of_mul_le_mul_left step κpos
  exact le_of_mul_le_mul_left this T0


/-- the checker with its own search: `hdiCheck = true` proves optimality within `slack` -/
theorem hdiCheck_sound (a b : ℕ) (x y slack w0 : ℚ) (h : hdiCheck a b x y slack w0 = true)
    (u v : ℝ) (hu : 0 ≤ u) (huv : u ≤ v) (hv : v ≤ 1)
    (hmass : G a b (y : ℝ) - G a b (x : ℝ) ≤ G a b v - G a b u) :
    ((y : ℝ) - (x : ℝ)) - (slack : ℝ) ≤ v - u := by
  unfold hdiCheck at h
  rw [Bool.or_eq_true] at h
  rcases h with h | h
  · have h' : y - x ≤ slack := by simpa using h
    have : ((y:ℝ) - x) ≤ slack := by exact_mod_cast h'
    linarith
  · split at h
    · exact hdiCertOK_sound a b x y x _ _ y _ slack h u v hu huv hv hmass
    · exact absurd h (by simp)

theorem absQ_cast (q : ℚ) : ((absQ q : ℚ) : ℝ) = |(q : ℝ)| := by
  unfold absQ
  split_ifs with h
  · have : (q : ℝ) < 0 := by exact_mod_cast h
    rw [abs_of_neg this]; push_cast; ring
  · have : (0 : ℝ) ≤ q := by exact_mod_cast not_lt.mp h
    rw [abs_of_nonneg this]

/-- **soundness of the equal-tailed checker**: the end points are ordered in `[0,1]`, the exact
Beta(a,b) mass between them is within `tol` of `c` and the two tails agree within `tol`. -/
theorem etCheck_sound (a b : ℕ) (c x y tol : ℚ) (h : etCheck a b c x y tol = true) :
    0 ≤ (x : ℝ) ∧ (x : ℝ) ≤ y ∧ (y : ℝ) ≤ 1
      ∧ |G a b y - G a b x - c| ≤ tol ∧ |G a b x - (1 - G a b y)| ≤ tol := by
  unfold etCheck at h
  simp only [Bool.and_eq_true, decide_eq_true_eq] at h
  obtain ⟨⟨⟨⟨h0, hxy⟩, h1⟩, hm⟩, ht⟩ := h
  have hx1 : x ≤ 1 := hxy.trans h1
  have hy0 : 0 ≤ y := h0.trans hxy
  have cst : ∀ p q : ℚ, p ≤ q → (p : ℝ) ≤ (q : ℝ) := fun p q hpq => by exact_mod_cast hpq
  refine ⟨by exact_mod_cast h0, cst _ _ hxy, by exact_mod_cast h1, ?_, ?_⟩
  · have := cst _ _ hm
    rw [absQ_cast] at this
    push_cast at this
    rwa [betaCdf_cast a b y hy0 h1, betaCdf_cast a b x h0 hx1] at this
  · have := cst _ _ ht
    rw [absQ_cast] at this
    push_cast at this
    rwa [betaCdf_cast a b y hy0 h1, betaCdf_cast a b x h0 hx1] at this

/-- soundness of the mass part of the highest-density check -/
theorem hdiMassCheck_sound (a b : ℕ) (c x y tol otol : ℚ) (h : hdiMassCheck a b c x y tol otol = true) :
    0 ≤ (x : ℝ) ∧ (x : ℝ) ≤ 1 ∧ 0 ≤ (y : ℝ) ∧ (y : ℝ) ≤ 1 ∧ (x : ℝ) ≤ y + otol
      ∧ |G a b y - G a b x - c| ≤ tol := by
  unfold hdiMassCheck at h
  simp only [Bool.and_eq_true, decide_eq_true_eq] at h
  obtain ⟨⟨⟨⟨⟨hx0, hx1⟩, hy0⟩, hy1⟩, hxy⟩, hm⟩ := h
  have cst : ∀ p q : ℚ, p ≤ q → (p : ℝ) ≤ (q : ℝ) := fun p q hpq => by exact_mod_cast hpq
  refine ⟨by exact_mod_cast hx0, by exact_mod_cast hx1, by exact_mod_cast hy0, by exact_mod_cast hy1, ?_, ?_⟩
  · have := cst _ _ hxy; push_cast at this; exact this
  · have := cst _ _ hm
    rw [absQ_cast] at this
    push_cast at this
    rwa [betaCdf_cast a b y hy0 hy1, betaCdf_cast a b x hx0 hx1] at this

/-- a witness accepted by `hdiWitness` really is an interval of at least the same mass that is shorter
by more than `slack` (used only to produce replays) -/
theorem hdiWitness_sound (a b : ℕ) (x y u v slack : ℚ) (hx : 0 ≤ x ∧ x ≤ 1) (hy : 0 ≤ y ∧ y ≤ 1)
    (h : hdiWitness a b x y u v slack = true) :
    0 ≤ (u : ℝ) ∧ (u : ℝ) ≤ v ∧ (v : ℝ) ≤ 1 ∧ G a b y - G a b x ≤ G a b v - G a b u
      ∧ (v : ℝ) - u < ((y : ℝ) - x) - slack := by
  unfold hdiWitness at h
  simp only [Bool.and_eq_true, decide_eq_true_eq] at h
  obtain ⟨⟨⟨⟨h0, huv⟩, h1⟩, hm⟩, hl⟩ := h
  have cst : ∀ p q : ℚ, p ≤ q → (p : ℝ) ≤ (q : ℝ) := fun p q hpq => by exact_mod_cast hpq
  refine ⟨by exact_mod_cast h0, cst _ _ huv, by exact_mod_cast h1, ?_, ?_⟩
  · have := cst _ _ hm
    push_cast at this
    rwa [betaCdf_cast a b y hy.1 hy.2, betaCdf_cast a b x hx.1 hx.2,
      betaCdf_cast a b v (h0.trans huv) h1, betaCdf_cast a b u h0 (huv.trans h1)] at this
  · have : ((v - u : ℚ) : ℝ) < ((y - x - slack : ℚ) : ℝ) := by exact_mod_cast hl
    push_cast at this; exact this

/-- `G` is non-decreasing on `[0,1]` (binomial tail monotone in `p`) -/
theorem G_mono (a b : ℕ) (s s' : ℝ) (h0 : 0 ≤ s) (hss : s ≤ s') (h1 : s' ≤ 1) : G a b s ≤ G a b s' :=
  tail_mono_p _ _ s s' h0 hss h1

theorem G_zero (a b : ℕ) (ha : 0 < a) : G a b 0 = 0 := by
  obtain ⟨k, rfl⟩ : ∃ k, a = k + 1 := ⟨a - 1, by omega⟩
  exact tail_at_zero _ k

theorem G_one (a b : ℕ) (hb : 0 < b) : G a b 1 = 1 := tail_at_one _ _ (by omega)

theorem integral_density_unit (a b : ℕ) (ha : 0 < a) (hb : 0 < b) :
    ∫ s in (0:ℝ)..1, (betaNorm a b : ℝ) * g (a - 1) (b - 1) s = 1 := by
  rw [← mass_eq_integral a b ha hb, G_one a b hb, G_zero a b ha]; ring

#print axioms hdiCertOK_sound
#print axioms hdiCheck_sound
#print axioms etCheck_sound
end Opda.BetaCheck
