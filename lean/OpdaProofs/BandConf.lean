import OpdaProofs.BandCor
import OpdaProofs.DkwEps
/-!
C02: "raising the confidence never narrows the band" for the dkw method, unconditionally.

`_dkw_band_weights(n, confidence)` is `clip(arange(n+1)/n ∓ ε, 0, 1)` with `ε = dkw_epsilon(n, confidence)`, which is
`sqrt(log(2/(1-confidence))/(2n))` for `confidence < 1` and `+∞` for `confidence = 1`.  With `ε = +∞` the tables are
`clip(−∞) = 0` and `clip(+∞) = 1` at every index: the trivial band.  Over a field there is no `+∞`; `dkwLo`/`dkwHi` below
return the all-0 / all-1 table at confidence 1, and `loLevels_of_one_le`/`hiLevels_of_one_le` show that this is the table of
*every* `ε ≥ 1` (so it is the limit table, not a convention).
-/
namespace Opda.Band
open Opda.Emp

section field
variable {α : Type} [Field α] [LinearOrder α] [IsStrictOrderedRing α]

theorem ratio_le_one {i n : ℕ} (hi : i < n + 1) : (i : α) / (n : α) ≤ 1 := by
  rcases Nat.eq_zero_or_pos n with rfl | hn
  · simp
  · rw [div_le_one (by exact_mod_cast hn)]; exact_mod_cast Nat.lt_succ_iff.mp hi

/-- `ε ≥ 1` (in particular the code's `ε = +∞`): the lower table is 0 at every index -/
theorem loLevels_of_one_le (n : ℕ) {ε : α} (h : 1 ≤ ε) : loLevels n ε = List.replicate (n + 1) 0 := by
  unfold loLevels
  rw [List.eq_replicate_iff]
  refine ⟨by simp, ?_⟩
  intro x hx
  obtain ⟨i, hi, rfl⟩ := List.mem_map.mp hx
  have hi' : i < n + 1 := List.mem_range.mp hi
  have h1 : (i : α) / (n : α) ≤ 1 := ratio_le_one hi'
  unfold clip01
  rw [max_eq_right (by linarith), min_eq_left zero_le_one]

/-- `ε ≥ 1` (in particular the code's `ε = +∞`): the upper table is 1 at every index -/
theorem hiLevels_of_one_le (n : ℕ) {ε : α} (h : 1 ≤ ε) : hiLevels n ε = List.replicate (n + 1) 1 := by
  unfold hiLevels
  rw [List.eq_replicate_iff]
  refine ⟨by simp, ?_⟩
  intro x hx
  obtain ⟨i, hi, rfl⟩ := List.mem_map.mp hx
  have h0 : (0 : α) ≤ (i : α) / (n : α) := by positivity
  unfold clip01
  rw [max_eq_left (by linarith), min_eq_right (by linarith)]

end field

/-- the lower dkw table of `_dkw_band_weights(n, c)`; at `c = 1` (`ε = +∞`) it is `clip(−∞, 0, 1) = 0` throughout -/
noncomputable def dkwLo (n : ℕ) (c : ℝ) : List ℝ :=
  if c = 1 then List.replicate (n + 1) 0 else loLevels n (Opda.Dkw.eps n c)

/-- the upper dkw table of `_dkw_band_weights(n, c)`; at `c = 1` (`ε = +∞`) it is `clip(+∞, 0, 1) = 1` throughout -/
noncomputable def dkwHi (n : ℕ) (c : ℝ) : List ℝ :=
  if c = 1 then List.replicate (n + 1) 1 else hiLevels n (Opda.Dkw.eps n c)

theorem dkwLo_of_lt_one (n : ℕ) {c : ℝ} (h : c < 1) : dkwLo n c = loLevels n (Opda.Dkw.eps n c) := if_neg h.ne
theorem dkwHi_of_lt_one (n : ℕ) {c : ℝ} (h : c < 1) : dkwHi n c = hiLevels n (Opda.Dkw.eps n c) := if_neg h.ne
theorem dkwLo_one (n : ℕ) : dkwLo n 1 = List.replicate (n + 1) 0 := if_pos rfl
theorem dkwHi_one (n : ℕ) : dkwHi n 1 = List.replicate (n + 1) 1 := if_pos rfl

/-- at confidence 1 the dkw tables are those of any radius `ε ≥ 1` -/
theorem dkwLo_one_eq (n : ℕ) {ε : ℝ} (h : 1 ≤ ε) : dkwLo n 1 = loLevels n ε := by
  rw [dkwLo_one, loLevels_of_one_le n h]
theorem dkwHi_one_eq (n : ℕ) {ε : ℝ} (h : 1 ≤ ε) : dkwHi n 1 = hiLevels n ε := by
  rw [dkwHi_one, hiLevels_of_one_le n h]

variable {E : Type} [LinearOrder E] [OrderBot E] [OrderTop E]

/-- **dkw, confidences below 1**: `0 ≤ c ≤ c' < 1`, a non-empty sample: the band of `c'` contains the band of `c` at
every `t`. -/
theorem dkw_widens_lt_one (a b : E) (ys : List E) (t : E) (hne : ys ≠ []) {c c' : ℝ}
    (hc0 : 0 ≤ c) (hcc : c ≤ c') (hc1 : c' < 1) :
    cdf (support ⊥ ⊤ a b (bandObs a b ys (loLevels ys.length (Opda.Dkw.eps ys.length c')))) t
        ≤ cdf (support ⊥ ⊤ a b (bandObs a b ys (loLevels ys.length (Opda.Dkw.eps ys.length c)))) t
      ∧ cdf (support ⊥ ⊤ a b (bandObs a b ys (hiLevels ys.length (Opda.Dkw.eps ys.length c)))) t
        ≤ cdf (support ⊥ ⊤ a b (bandObs a b ys (hiLevels ys.length (Opda.Dkw.eps ys.length c')))) t :=
  band_widening_of_eps a b ys t
    (Opda.Dkw.eps_mono_c ys.length c c' (by exact_mod_cast List.length_pos_iff.mpr hne) hc0 hcc hc1)

/-- **dkw, all confidences `0 ≤ c ≤ c' ≤ 1`** including `c' = 1` (the trivial band `ε = +∞`). -/
theorem dkw_widens (a b : E) (ys : List E) (t : E) (hne : ys ≠ []) {c c' : ℝ}
    (hc0 : 0 ≤ c) (hcc : c ≤ c') (hc1 : c' ≤ 1) :
    cdf (support ⊥ ⊤ a b (bandObs a b ys (dkwLo ys.length c'))) t
        ≤ cdf (support ⊥ ⊤ a b (bandObs a b ys (dkwLo ys.length c))) t
      ∧ cdf (support ⊥ ⊤ a b (bandObs a b ys (dkwHi ys.length c))) t
        ≤ cdf (support ⊥ ⊤ a b (bandObs a b ys (dkwHi ys.length c'))) t := by
  rcases hc1.lt_or_eq with h1 | rfl
  · rw [dkwLo_of_lt_one _ h1, dkwHi_of_lt_one _ h1, dkwLo_of_lt_one _ (lt_of_le_of_lt hcc h1),
      dkwHi_of_lt_one _ (lt_of_le_of_lt hcc h1)]
    exact dkw_widens_lt_one a b ys t hne hc0 hcc h1
  · rcases hcc.lt_or_eq with h | rfl
    · rw [dkwLo_of_lt_one _ h, dkwHi_of_lt_one _ h,
        dkwLo_one_eq _ (le_max_left 1 (Opda.Dkw.eps ys.length c)),
        dkwHi_one_eq _ (le_max_left 1 (Opda.Dkw.eps ys.length c))]
      exact band_widening_of_eps a b ys t (le_max_right _ _)
    · exact ⟨le_rfl, le_rfl⟩

end Opda.Band
