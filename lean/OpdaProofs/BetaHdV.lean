import OpdaProofs.LdStat
import OpdaProofs.UtilsExtra
import OpdaProofs.BetaHdCov
import Mathlib.Topology.Order.Monotone
import Mathlib.Topology.Order.IntermediateValue
import Mathlib.MeasureTheory.Constructions.BorelSpace.Order
import Mathlib.Tactic
/-!
# C15 / C01: the highest-density coverage function is V-shaped about the mode

For integers `a, b ≥ 1`, not both `1`, write `α = a − 1`, `β = b − 1`, `f = g α β : s ↦ s^α (1−s)^β` (the unnormalised
Beta(a,b) density), `m = α/(α+β)` its mode and `G a b` the Beta(a,b) distribution function (the binomial tail polynomial
of C15).

* `g_strictMonoOn`, `g_strictAntiOn`: `f` is *strictly* increasing on `[0,m]` and *strictly* decreasing on `[m,1]`
  (for `α = 0` resp. `β = 0` the mode is the end point `0` resp. `1` and `f` is strictly monotone on all of `[0,1]`).
* `partnerR α β x = sup {t ∈ [m,1] | f x ≤ f t}` for `x ≤ m`, `partnerL α β x = inf {t ∈ [0,m] | f x ≤ f t}` for `x ≥ m`: the
  far end of the level set `{f ≥ f x}`; `levelSet_left/right`: inside `[0,1]`, `{s | f x ≤ f s} = [x, partnerR x]` resp.
  `[partnerL x, x]`; `g_partnerR`, `g_partnerL`: for `α, β ≥ 1` the far end has the same density (`f (partner x) = f x`) and is
  the only such point across the mode (`partnerR_unique`, `partnerL_unique`).
* `hdcovRaw a b x` = `G (partnerR x) − G x` for `x ≤ m`, `G x − G (partnerL x)` for `x > m`: the Beta(a,b)-mass of the level set
  `{f ≥ f x}`, i.e. (C15 `hd_level_set`, `hdi_shortest`) the coverage of the smallest highest-density interval containing
  `x` (`hdcovRaw_eq_integral_left/right`, `hd_interval_shortest_left/right`).  `hdcov a b x = hdcovRaw a b (max 0 (min x 1))` is
  the same function extended constantly outside `[0,1]` (so that it is a measurable function on `ℝ`).
* **V shape**: `hdcov a b` is strictly decreasing on `[0,m]` and strictly increasing on `[m,1]` (`hdcov_strictAntiOn`,
  `hdcov_strictMonoOn`), `hdcov m = 0`, `hdcov 0 = 1` for `a ≥ 2`, `hdcov 1 = 1` for `b ≥ 2`, `0 ≤ hdcov ≤ 1`, for `a = 1` it is
  `G 1 b` and for `b = 1` it is `1 − G a 1` on `[0,1]`; it is measurable (`measurable_hdcov`).
* `betaHdCov n i = hdcov (i+1) (n−i)`: the coverage functions of `ld_highest_density`; for `n ≥ 2` the statistic
  `max_i betaHdCov n i (U₍ᵢ₎)` has a continuous distribution function (`betaHd_cdf_continuous`).
-/
namespace Opda.BetaHdV
open Set Opda.Hdi Opda.BetaCheck Opda.LdStat

/-! ## the density is strictly unimodal -/

/-- the mode `α/(α+β)` of `s^α (1−s)^β` -/
noncomputable def mode (α β : ℕ) : ℝ := (α : ℝ) / ((α : ℝ) + β)

theorem mode_nonneg (α β : ℕ) : 0 ≤ mode α β := by unfold mode; positivity

theorem mode_le_one (α β : ℕ) : mode α β ≤ 1 := by
  unfold mode
  apply div_le_one_of_le₀
  · have : (0:ℝ) ≤ β := Nat.cast_nonneg β
    linarith
  · positivity

theorem mode_pos (α β : ℕ) (hα : 0 < α) : 0 < mode α β := by
  unfold mode
  have : (0:ℝ) < α := by exact_mod_cast hα
  positivity

theorem mode_lt_one (α β : ℕ) (hβ : 0 < β) : mode α β < 1 := by
  unfold mode
  have h1 : (0:ℝ) < β := by exact_mod_cast hβ
  have h2 : (0:ℝ) ≤ α := Nat.cast_nonneg α
  rw [div_lt_one (by linarith)]
  linarith

theorem mode_zero_left (β : ℕ) : mode 0 β = 0 := by unfold mode; simp

theorem mode_zero_right (α : ℕ) (hα : 0 < α) : mode α 0 = 1 := by
  unfold mode
  have : (α : ℝ) ≠ 0 := by exact_mod_cast hα.ne'
  simp [this]

/-- strictly increasing up to the mode -/
theorem g_strictMonoOn (α β : ℕ) (hpos : 0 < α + β) : StrictMonoOn (g α β) (Icc 0 (mode α β)) := by
  refine strictMonoOn_of_deriv_pos (convex_Icc _ _) (g_continuous α β).continuousOn ?_
  intro x hx
  rw [interior_Icc] at hx
  obtain ⟨hx0, hxm⟩ := hx
  rw [(g_hasDerivAt α β x).deriv]
  have hden : (0 : ℝ) < (α : ℝ) + β := by exact_mod_cast hpos
  have hxm' : x * ((α : ℝ) + β) < α := (lt_div_iff₀ hden).mp hxm
  have h1x : 0 < 1 - x := by
    have : x * ((α : ℝ) + β) < (α : ℝ) + β := lt_of_lt_of_le hxm' (by
      have : (0:ℝ) ≤ β := Nat.cast_nonneg β
      linarith)
    have : x < 1 := by
      by_contra hcon
      have hx1 : 1 ≤ x := not_lt.mp hcon
      nlinarith
    linarith
  cases α with
  | zero =>
    exfalso
    simp only [Nat.cast_zero] at hxm'
    have : (0:ℝ) ≤ x * (0 + (β : ℝ)) := by positivity
    linarith
  | succ a =>
    cases β with
    | zero => simp; positivity
    | succ b =>
      simp only [Nat.add_sub_cancel]
      have e : ((a + 1 : ℕ) : ℝ) * x ^ a * (1 - x) ^ (b + 1) + x ^ (a + 1) * (((b + 1 : ℕ) : ℝ) * (1 - x) ^ b * (0 - 1))
          = x ^ a * (1 - x) ^ b * (((a + 1 : ℕ) : ℝ) * (1 - x) - ((b + 1 : ℕ) : ℝ) * x) := by ring
      rw [e]
      have : 0 < ((a + 1 : ℕ) : ℝ) * (1 - x) - ((b + 1 : ℕ) : ℝ) * x := by nlinarith
      positivity

theorem one_sub_mode (α β : ℕ) (hpos : 0 < α + β) : 1 - mode α β = mode β α := by
  unfold mode
  have hden : (0 : ℝ) < (α : ℝ) + β := by exact_mod_cast hpos
  have hden' : (0 : ℝ) < (β : ℝ) + α := by linarith
  rw [add_comm (β : ℝ) α, eq_div_iff hden.ne', sub_mul, one_mul, div_mul_cancel₀ _ hden.ne']
  ring

/-- strictly decreasing after the mode -/
theorem g_strictAntiOn (α β : ℕ) (hpos : 0 < α + β) : StrictAntiOn (g α β) (Icc (mode α β) 1) := by
  intro s hs s' hs' hss
  rw [g_reflect α β s, g_reflect α β s']
  have hm := one_sub_mode α β hpos
  apply g_strictMonoOn β α (by omega)
  · exact ⟨by linarith [hs'.2], by rw [← hm]; linarith [hs'.1]⟩
  · exact ⟨by linarith [hs.2], by rw [← hm]; linarith [hs.1]⟩
  · linarith

theorem g_monoOn (α β : ℕ) (hpos : 0 < α + β) : MonotoneOn (g α β) (Icc 0 (mode α β)) :=
  (g_strictMonoOn α β hpos).monotoneOn

theorem g_antiOn (α β : ℕ) (hpos : 0 < α + β) : AntitoneOn (g α β) (Icc (mode α β) 1) :=
  (g_strictAntiOn α β hpos).antitoneOn

/-! ## the far end of the level set `{f ≥ f x}` -/

/-- the part of the level set `{f ≥ f x}` right of the mode -/
def levR (α β : ℕ) (x : ℝ) : Set ℝ := {t | t ∈ Icc (mode α β) 1 ∧ g α β x ≤ g α β t}

/-- the part of the level set `{f ≥ f x}` left of the mode -/
def levL (α β : ℕ) (x : ℝ) : Set ℝ := {t | t ∈ Icc 0 (mode α β) ∧ g α β x ≤ g α β t}

/-- right end of the level set `{f ≥ f x}` (meant for `x ≤ m`) -/
noncomputable def partnerR (α β : ℕ) (x : ℝ) : ℝ := sSup (levR α β x)

/-- left end of the level set `{f ≥ f x}` (meant for `x ≥ m`) -/
noncomputable def partnerL (α β : ℕ) (x : ℝ) : ℝ := sInf (levL α β x)

theorem levR_closed (α β : ℕ) (x : ℝ) : IsClosed (levR α β x) :=
  isClosed_Icc.inter (isClosed_Ici.preimage (g_continuous α β))

theorem levL_closed (α β : ℕ) (x : ℝ) : IsClosed (levL α β x) :=
  isClosed_Icc.inter (isClosed_Ici.preimage (g_continuous α β))

theorem levR_bddAbove (α β : ℕ) (x : ℝ) : BddAbove (levR α β x) := ⟨1, fun _ ht => ht.1.2⟩

theorem levL_bddBelow (α β : ℕ) (x : ℝ) : BddBelow (levL α β x) := ⟨0, fun _ ht => ht.1.1⟩

theorem mode_mem_levR (α β : ℕ) (hpos : 0 < α + β) {x : ℝ} (hx : x ∈ Icc 0 (mode α β)) : mode α β ∈ levR α β x :=
  ⟨⟨le_rfl, mode_le_one α β⟩, g_monoOn α β hpos hx ⟨mode_nonneg α β, le_rfl⟩ hx.2⟩

theorem mode_mem_levL (α β : ℕ) (hpos : 0 < α + β) {x : ℝ} (hx : x ∈ Icc (mode α β) 1) : mode α β ∈ levL α β x :=
  ⟨⟨mode_nonneg α β, le_rfl⟩, g_antiOn α β hpos ⟨le_rfl, mode_le_one α β⟩ hx hx.1⟩

theorem partnerR_mem (α β : ℕ) (hpos : 0 < α + β) {x : ℝ} (hx : x ∈ Icc 0 (mode α β)) :
    partnerR α β x ∈ levR α β x :=
  (levR_closed α β x).csSup_mem ⟨_, mode_mem_levR α β hpos hx⟩ (levR_bddAbove α β x)

theorem partnerL_mem (α β : ℕ) (hpos : 0 < α + β) {x : ℝ} (hx : x ∈ Icc (mode α β) 1) :
    partnerL α β x ∈ levL α β x :=
  (levL_closed α β x).csInf_mem ⟨_, mode_mem_levL α β hpos hx⟩ (levL_bddBelow α β x)

/-- the far end moves outwards as `x` moves away from the mode (left side) -/
theorem partnerR_anti (α β : ℕ) (hpos : 0 < α + β) {x x' : ℝ} (hx : x ∈ Icc 0 (mode α β))
    (hx' : x' ∈ Icc 0 (mode α β)) (hxx : x ≤ x') : partnerR α β x' ≤ partnerR α β x :=
  csSup_le_csSup (levR_bddAbove α β x) ⟨_, mode_mem_levR α β hpos hx'⟩
    fun _ ht => ⟨ht.1, (g_monoOn α β hpos hx hx' hxx).trans ht.2⟩

/-- the far end moves outwards as `x` moves away from the mode (right side) -/
theorem partnerL_anti (α β : ℕ) (hpos : 0 < α + β) {x x' : ℝ} (hx : x ∈ Icc (mode α β) 1)
    (hx' : x' ∈ Icc (mode α β) 1) (hxx : x ≤ x') : partnerL α β x' ≤ partnerL α β x :=
  csInf_le_csInf (levL_bddBelow α β x') ⟨_, mode_mem_levL α β hpos hx⟩
    fun _ ht => ⟨ht.1, (g_antiOn α β hpos hx hx' hxx).trans ht.2⟩

/-- **level set, `x` left of the mode**: inside `[0,1]`, `{s | f x ≤ f s} = [x, partnerR x]` -/
theorem levelSet_left (α β : ℕ) (hpos : 0 < α + β) {x : ℝ} (hx : x ∈ Icc 0 (mode α β)) {s : ℝ} (hs : s ∈ Icc (0:ℝ) 1) :
    g α β x ≤ g α β s ↔ x ≤ s ∧ s ≤ partnerR α β x := by
  have hp := partnerR_mem α β hpos hx
  constructor
  · intro h
    constructor
    · by_contra hcon
      have hlt : s < x := not_le.mp hcon
      have := g_strictMonoOn α β hpos ⟨hs.1, hlt.le.trans hx.2⟩ hx hlt
      linarith
    · rcases le_total s (mode α β) with hsm | hms
      · exact hsm.trans hp.1.1
      · exact le_csSup (levR_bddAbove α β x) ⟨⟨hms, hs.2⟩, h⟩
  · rintro ⟨h1, h2⟩
    rcases le_total s (mode α β) with hsm | hms
    · exact g_monoOn α β hpos hx ⟨hs.1, hsm⟩ h1
    · exact hp.2.trans (g_antiOn α β hpos ⟨hms, hs.2⟩ hp.1 h2)

/-- **level set, `x` right of the mode**: inside `[0,1]`, `{s | f x ≤ f s} = [partnerL x, x]` -/
theorem levelSet_right (α β : ℕ) (hpos : 0 < α + β) {x : ℝ} (hx : x ∈ Icc (mode α β) 1) {s : ℝ} (hs : s ∈ Icc (0:ℝ) 1) :
    g α β x ≤ g α β s ↔ partnerL α β x ≤ s ∧ s ≤ x := by
  have hp := partnerL_mem α β hpos hx
  constructor
  · intro h
    constructor
    · rcases le_total s (mode α β) with hsm | hms
      · exact csInf_le (levL_bddBelow α β x) ⟨⟨hs.1, hsm⟩, h⟩
      · exact hp.1.2.trans hms
    · by_contra hcon
      have hlt : x < s := not_le.mp hcon
      have := g_strictAntiOn α β hpos hx ⟨hx.1.trans hlt.le, hs.2⟩ hlt
      linarith
  · rintro ⟨h1, h2⟩
    rcases le_total s (mode α β) with hsm | hms
    · exact hp.2.trans (g_monoOn α β hpos hp.1 ⟨hs.1, hsm⟩ h1)
    · exact g_antiOn α β hpos ⟨hms, hs.2⟩ hx h2

/-- at the mode the level set is the single point `m` -/
theorem partnerR_mode (α β : ℕ) (hpos : 0 < α + β) : partnerR α β (mode α β) = mode α β := by
  have hm : mode α β ∈ Icc 0 (mode α β) := ⟨mode_nonneg α β, le_rfl⟩
  have hp := partnerR_mem α β hpos hm
  by_contra hne
  have hlt : mode α β < partnerR α β (mode α β) := lt_of_le_of_ne hp.1.1 (Ne.symm hne)
  have := g_strictAntiOn α β hpos ⟨le_rfl, mode_le_one α β⟩ hp.1 hlt
  linarith [hp.2]

theorem partnerL_mode (α β : ℕ) (hpos : 0 < α + β) : partnerL α β (mode α β) = mode α β := by
  have hm : mode α β ∈ Icc (mode α β) 1 := ⟨le_rfl, mode_le_one α β⟩
  have hp := partnerL_mem α β hpos hm
  by_contra hne
  have hlt : partnerL α β (mode α β) < mode α β := lt_of_le_of_ne hp.1.2 hne
  have := g_strictMonoOn α β hpos hp.1 ⟨mode_nonneg α β, le_rfl⟩ hlt
  linarith [hp.2]

theorem g_zero_left (α β : ℕ) (hα : 0 < α) : g α β 0 = 0 := by
  unfold g; rw [zero_pow hα.ne']; ring

theorem g_one_right (α β : ℕ) (hβ : 0 < β) : g α β 1 = 0 := by
  unfold g; rw [sub_self, zero_pow hβ.ne']; ring

/-- for `α ≥ 1` the level set of `x = 0` is all of `[0,1]` -/
theorem partnerR_zero (α β : ℕ) (hα : 0 < α) : partnerR α β 0 = 1 := by
  have hpos : 0 < α + β := by omega
  have h0 : (0:ℝ) ∈ Icc 0 (mode α β) := ⟨le_rfl, mode_nonneg α β⟩
  refine le_antisymm (partnerR_mem α β hpos h0).1.2 ?_
  refine le_csSup (levR_bddAbove α β 0) ⟨⟨mode_le_one α β, le_rfl⟩, ?_⟩
  rw [g_zero_left α β hα]
  exact g_nonneg α β 1 zero_le_one le_rfl

/-- for `β ≥ 1` the level set of `x = 1` is all of `[0,1]` -/
theorem partnerL_one (α β : ℕ) (hβ : 0 < β) : partnerL α β 1 = 0 := by
  have hpos : 0 < α + β := by omega
  have h1 : (1:ℝ) ∈ Icc (mode α β) 1 := ⟨mode_le_one α β, le_rfl⟩
  refine le_antisymm ?_ (partnerL_mem α β hpos h1).1.1
  refine csInf_le (levL_bddBelow α β 1) ⟨⟨le_rfl, mode_nonneg α β⟩, ?_⟩
  rw [g_one_right α β hβ]
  exact g_nonneg α β 0 le_rfl zero_le_one

/-- **equal end densities** (interior mode side: `β ≥ 1`): the right end of the level set has the density of `x` -/
theorem g_partnerR (α β : ℕ) (hβ : 0 < β) {x : ℝ} (hx : x ∈ Icc 0 (mode α β)) :
    g α β (partnerR α β x) = g α β x := by
  have hpos : 0 < α + β := by omega
  have hp := partnerR_mem α β hpos hx
  refine le_antisymm ?_ hp.2
  by_contra hcon
  have hlt : g α β x < g α β (partnerR α β x) := not_le.mp hcon
  have hx1 : x ≤ 1 := hx.2.trans (mode_le_one α β)
  have hmem : g α β x ∈ Icc (g α β 1) (g α β (partnerR α β x)) :=
    ⟨by rw [g_one_right α β hβ]; exact g_nonneg α β x hx.1 hx1, hlt.le⟩
  obtain ⟨s, hs, hsx⟩ := intermediate_value_Icc' hp.1.2 (g_continuous α β).continuousOn hmem
  have hsle : s ≤ partnerR α β x :=
    le_csSup (levR_bddAbove α β x) ⟨⟨hp.1.1.trans hs.1, hs.2⟩, hsx.ge⟩
  have : s = partnerR α β x := le_antisymm hsle hs.1
  rw [this] at hsx
  linarith

/-- **equal end densities** (`α ≥ 1`): the left end of the level set has the density of `x` -/
theorem g_partnerL (α β : ℕ) (hα : 0 < α) {x : ℝ} (hx : x ∈ Icc (mode α β) 1) :
    g α β (partnerL α β x) = g α β x := by
  have hpos : 0 < α + β := by omega
  have hp := partnerL_mem α β hpos hx
  refine le_antisymm ?_ hp.2
  by_contra hcon
  have hlt : g α β x < g α β (partnerL α β x) := not_le.mp hcon
  have hx0 : 0 ≤ x := (mode_nonneg α β).trans hx.1
  have hmem : g α β x ∈ Icc (g α β 0) (g α β (partnerL α β x)) :=
    ⟨by rw [g_zero_left α β hα]; exact g_nonneg α β x hx0 hx.2, hlt.le⟩
  obtain ⟨s, hs, hsx⟩ := intermediate_value_Icc hp.1.1 (g_continuous α β).continuousOn hmem
  have hsle : partnerL α β x ≤ s :=
    csInf_le (levL_bddBelow α β x) ⟨⟨hs.1, hs.2.trans hp.1.2⟩, hsx.ge⟩
  have : s = partnerL α β x := le_antisymm hs.2 hsle
  rw [this] at hsx
  linarith

/-- the point across the mode with the same density is unique -/
theorem partnerR_unique (α β : ℕ) (hβ : 0 < β) {x y : ℝ} (hx : x ∈ Icc 0 (mode α β)) (hy : y ∈ Icc (mode α β) 1)
    (h : g α β y = g α β x) : y = partnerR α β x := by
  have hpos : 0 < α + β := by omega
  exact (g_strictAntiOn α β hpos).injOn hy (partnerR_mem α β hpos hx).1 (h.trans (g_partnerR α β hβ hx).symm)

theorem partnerL_unique (α β : ℕ) (hα : 0 < α) {x y : ℝ} (hx : x ∈ Icc (mode α β) 1) (hy : y ∈ Icc 0 (mode α β))
    (h : g α β y = g α β x) : y = partnerL α β x := by
  have hpos : 0 < α + β := by omega
  exact (g_strictMonoOn α β hpos).injOn hy (partnerL_mem α β hpos hx).1 (h.trans (g_partnerL α β hα hx).symm)

/-! ## the coverage function -/

/-- **coverage of the smallest highest-density interval containing `x`** (for `x ∈ [0,1]`): the Beta(a,b)-mass of the level
set `{f ≥ f x}` of the density `f = g (a−1) (b−1)`, which is `[x, partnerR x]` for `x` left of the mode and `[partnerL x, x]`
right of it (`levelSet_left`, `levelSet_right`; C15 `hd_level_set`, `hdi_shortest`) -/
noncomputable def hdcovRaw (a b : ℕ) (x : ℝ) : ℝ :=
  if x ≤ mode (a - 1) (b - 1) then G a b (partnerR (a - 1) (b - 1) x) - G a b x
  else G a b x - G a b (partnerL (a - 1) (b - 1) x)

/-- `x` moved into `[0,1]` -/
noncomputable def clamp01 (x : ℝ) : ℝ := max 0 (min x 1)

/-- the coverage function on `ℝ`: `hdcovRaw` on `[0,1]`, extended constantly outside -/
noncomputable def hdcov (a b : ℕ) (x : ℝ) : ℝ := hdcovRaw a b (clamp01 x)

theorem clamp01_of_mem {x : ℝ} (hx : x ∈ Icc (0:ℝ) 1) : clamp01 x = x := by
  unfold clamp01; rw [min_eq_left hx.2, max_eq_right hx.1]

theorem clamp01_mem (x : ℝ) : clamp01 x ∈ Icc (0:ℝ) 1 :=
  ⟨le_max_left _ _, max_le zero_le_one (min_le_right _ _)⟩

theorem hdcov_of_mem (a b : ℕ) {x : ℝ} (hx : x ∈ Icc (0:ℝ) 1) : hdcov a b x = hdcovRaw a b x := by
  unfold hdcov; rw [clamp01_of_mem hx]

theorem hdcovRaw_left (a b : ℕ) {x : ℝ} (hx : x ≤ mode (a - 1) (b - 1)) :
    hdcovRaw a b x = G a b (partnerR (a - 1) (b - 1) x) - G a b x := by
  unfold hdcovRaw; rw [if_pos hx]

theorem hdcovRaw_right (a b : ℕ) {x : ℝ} (hx : mode (a - 1) (b - 1) < x) :
    hdcovRaw a b x = G a b x - G a b (partnerL (a - 1) (b - 1) x) := by
  unfold hdcovRaw; rw [if_neg (not_le.mpr hx)]

/-- at the mode the two formulas agree (both are `0`) -/
theorem hdcovRaw_mode (a b : ℕ) (hab : 2 < a + b) (ha : 0 < a) (hb : 0 < b) :
    hdcovRaw a b (mode (a - 1) (b - 1)) = 0 := by
  rw [hdcovRaw_left a b le_rfl, partnerR_mode _ _ (by omega)]; ring

theorem hdcovRaw_right' (a b : ℕ) (hab : 2 < a + b) (ha : 0 < a) (hb : 0 < b) {x : ℝ} (hx : mode (a - 1) (b - 1) ≤ x) :
    hdcovRaw a b x = G a b x - G a b (partnerL (a - 1) (b - 1) x) := by
  rcases hx.lt_or_eq with h | h
  · exact hdcovRaw_right a b h
  · rw [← h, hdcovRaw_mode a b hab ha hb, partnerL_mode _ _ (by omega)]; ring

/-- **strictly decreasing up to the mode** -/
theorem hdcovRaw_strictAntiOn (a b : ℕ) (hab : 2 < a + b) (ha : 0 < a) (hb : 0 < b) :
    StrictAntiOn (hdcovRaw a b) (Icc 0 (mode (a - 1) (b - 1))) := by
  intro x hx x' hx' hxx
  have hpos : 0 < (a - 1) + (b - 1) := by omega
  rw [hdcovRaw_left a b hx.2, hdcovRaw_left a b hx'.2]
  have hm1 := mode_le_one (a - 1) (b - 1)
  have hp := partnerR_mem _ _ hpos hx
  have hp' := partnerR_mem _ _ hpos hx'
  have h1 : G a b x < G a b x' :=
    G_strictMonoOn a b ha hb ⟨hx.1, hx.2.trans hm1⟩ ⟨hx'.1, hx'.2.trans hm1⟩ hxx
  have h2 : G a b (partnerR (a - 1) (b - 1) x') ≤ G a b (partnerR (a - 1) (b - 1) x) :=
    G_mono a b _ _ ((mode_nonneg _ _).trans hp'.1.1) (partnerR_anti _ _ hpos hx hx' hxx.le) hp.1.2
  linarith

/-- **strictly increasing after the mode** -/
theorem hdcovRaw_strictMonoOn (a b : ℕ) (hab : 2 < a + b) (ha : 0 < a) (hb : 0 < b) :
    StrictMonoOn (hdcovRaw a b) (Icc (mode (a - 1) (b - 1)) 1) := by
  intro x hx x' hx' hxx
  have hpos : 0 < (a - 1) + (b - 1) := by omega
  rw [hdcovRaw_right' a b hab ha hb hx.1, hdcovRaw_right' a b hab ha hb hx'.1]
  have hm0 := mode_nonneg (a - 1) (b - 1)
  have hp := partnerL_mem _ _ hpos hx
  have hp' := partnerL_mem _ _ hpos hx'
  have h1 : G a b x < G a b x' :=
    G_strictMonoOn a b ha hb ⟨hm0.trans hx.1, hx.2⟩ ⟨hm0.trans hx'.1, hx'.2⟩ hxx
  have h2 : G a b (partnerL (a - 1) (b - 1) x') ≤ G a b (partnerL (a - 1) (b - 1) x) :=
    G_mono a b _ _ hp'.1.1 (partnerL_anti _ _ hpos hx hx' hxx.le) (hp.1.2.trans (mode_le_one _ _))
  linarith

/-- `hdcov 0 = 1` for `a ≥ 2` (the density vanishes at `0`, the level set is `[0,1]`) -/
theorem hdcovRaw_zero (a b : ℕ) (ha : 2 ≤ a) (hb : 0 < b) : hdcovRaw a b 0 = 1 := by
  rw [hdcovRaw_left a b (mode_nonneg _ _), partnerR_zero _ _ (by omega), G_one a b hb, G_zero a b (by omega)]; ring

/-- `hdcov 1 = 1` for `b ≥ 2` -/
theorem hdcovRaw_one (a b : ℕ) (ha : 0 < a) (hb : 2 ≤ b) : hdcovRaw a b 1 = 1 := by
  rw [hdcovRaw_right a b (mode_lt_one _ _ (by omega)), partnerL_one _ _ (by omega), G_one a b (by omega), G_zero a b ha]
  ring

/-- `0 ≤ hdcov ≤ 1` -/
theorem hdcovRaw_mem_unit (a b : ℕ) (hab : 2 < a + b) (ha : 0 < a) (hb : 0 < b) {x : ℝ} (hx : x ∈ Icc (0:ℝ) 1) :
    hdcovRaw a b x ∈ Icc (0:ℝ) 1 := by
  have hpos : 0 < (a - 1) + (b - 1) := by omega
  have hm0 := mode_nonneg (a - 1) (b - 1)
  have hm1 := mode_le_one (a - 1) (b - 1)
  have hG0 := G_zero a b ha
  have hG1 := G_one a b hb
  rcases le_total x (mode (a - 1) (b - 1)) with h | h
  · have hp := partnerR_mem _ _ hpos ⟨hx.1, h⟩
    rw [hdcovRaw_left a b h]
    have h1 := G_mono a b x _ hx.1 (h.trans hp.1.1) hp.1.2
    have h2 := G_mono a b _ 1 (hm0.trans hp.1.1) hp.1.2 le_rfl
    have h3 := G_mono a b 0 x le_rfl hx.1 hx.2
    exact ⟨by linarith, by linarith⟩
  · have hp := partnerL_mem _ _ hpos ⟨h, hx.2⟩
    rw [hdcovRaw_right' a b hab ha hb h]
    have h1 := G_mono a b _ x hp.1.1 (hp.1.2.trans h) hx.2
    have h2 := G_mono a b 0 _ le_rfl hp.1.1 (hp.1.2.trans hm1)
    have h3 := G_mono a b x 1 hx.1 hx.2 le_rfl
    exact ⟨by linarith, by linarith⟩

/-- `a = 1` (density decreasing, mode `0`): the level set of `x` is `[0,x]`, the coverage is `G x` -/
theorem hdcovRaw_a_one (b : ℕ) (hb : 2 ≤ b) {x : ℝ} (hx : x ∈ Icc (0:ℝ) 1) : hdcovRaw 1 b x = G 1 b x := by
  have hm : mode (1 - 1) (b - 1) = 0 := by rw [Nat.sub_self]; exact mode_zero_left _
  have hmx : mode (1 - 1) (b - 1) ≤ x := by rw [hm]; exact hx.1
  rw [hdcovRaw_right' 1 b (by omega) one_pos (by omega) hmx]
  have hp := partnerL_mem (1 - 1) (b - 1) (by omega) ⟨hmx, hx.2⟩
  have : partnerL (1 - 1) (b - 1) x = 0 := le_antisymm (by rw [← hm]; exact hp.1.2) hp.1.1
  rw [this, G_zero 1 b one_pos]; ring

/-- `b = 1` (density increasing, mode `1`): the level set of `x` is `[x,1]`, the coverage is `1 − G x` -/
theorem hdcovRaw_b_one (a : ℕ) (ha : 2 ≤ a) {x : ℝ} (hx : x ∈ Icc (0:ℝ) 1) : hdcovRaw a 1 x = 1 - G a 1 x := by
  have hm : mode (a - 1) (1 - 1) = 1 := by rw [Nat.sub_self]; exact mode_zero_right _ (by omega)
  have hxm : x ≤ mode (a - 1) (1 - 1) := by rw [hm]; exact hx.2
  rw [hdcovRaw_left a 1 hxm]
  have hp := partnerR_mem (a - 1) (1 - 1) (by omega) ⟨hx.1, hxm⟩
  have : partnerR (a - 1) (1 - 1) x = 1 := le_antisymm hp.1.2 (by rw [← hm]; exact hp.1.1)
  rw [this, G_one a 1 one_pos]

/-! ### the coverage function is the mass of the level set / of the shortest interval -/

theorem hdcovRaw_eq_integral_left (a b : ℕ) (ha : 0 < a) (hb : 0 < b) {x : ℝ} (hx : x ≤ mode (a - 1) (b - 1)) :
    hdcovRaw a b x
      = ∫ s in x..partnerR (a - 1) (b - 1) x, (Opda.BetaBinom.betaNorm a b : ℝ) * g (a - 1) (b - 1) s := by
  rw [hdcovRaw_left a b hx]; exact mass_eq_integral a b ha hb _ _

theorem hdcovRaw_eq_integral_right (a b : ℕ) (hab : 2 < a + b) (ha : 0 < a) (hb : 0 < b) {x : ℝ}
    (hx : mode (a - 1) (b - 1) ≤ x) :
    hdcovRaw a b x
      = ∫ s in partnerL (a - 1) (b - 1) x..x, (Opda.BetaBinom.betaNorm a b : ℝ) * g (a - 1) (b - 1) s := by
  rw [hdcovRaw_right' a b hab ha hb hx]; exact mass_eq_integral a b ha hb _ _

/-! ### V shape and measurability of the function on `ℝ` -/

theorem hdcov_strictAntiOn (a b : ℕ) (hab : 2 < a + b) (ha : 0 < a) (hb : 0 < b) :
    StrictAntiOn (hdcov a b) (Icc 0 (mode (a - 1) (b - 1))) := by
  intro x hx x' hx' hxx
  have hm1 := mode_le_one (a - 1) (b - 1)
  rw [hdcov_of_mem a b ⟨hx.1, hx.2.trans hm1⟩, hdcov_of_mem a b ⟨hx'.1, hx'.2.trans hm1⟩]
  exact hdcovRaw_strictAntiOn a b hab ha hb hx hx' hxx

theorem hdcov_strictMonoOn (a b : ℕ) (hab : 2 < a + b) (ha : 0 < a) (hb : 0 < b) :
    StrictMonoOn (hdcov a b) (Icc (mode (a - 1) (b - 1)) 1) := by
  intro x hx x' hx' hxx
  have hm0 := mode_nonneg (a - 1) (b - 1)
  rw [hdcov_of_mem a b ⟨hm0.trans hx.1, hx.2⟩, hdcov_of_mem a b ⟨hm0.trans hx'.1, hx'.2⟩]
  exact hdcovRaw_strictMonoOn a b hab ha hb hx hx' hxx

theorem measurable_clamp01 : Measurable clamp01 := by
  unfold clamp01
  exact (continuous_const.max (continuous_id.min continuous_const)).measurable

/-- a function decreasing on `[0,m]` and increasing on `[m,1]`, composed with the projection onto `[0,1]`, is measurable
(its strict sublevel sets are intervals) -/
theorem measurable_vShape_comp_clamp {c : ℝ → ℝ} {m : ℝ} (hl : AntitoneOn c (Icc 0 m)) (hr : MonotoneOn c (Icc m 1)) :
    Measurable fun x => c (clamp01 x) := by
  refine measurable_of_Iio fun t => ?_
  have hset : (fun x => c (clamp01 x)) ⁻¹' Iio t = clamp01 ⁻¹' {z | z ∈ Icc (0:ℝ) 1 ∧ c z < t} := by
    ext x
    simp only [mem_preimage, mem_Iio, mem_ofPred_eq]
    exact ⟨fun h => ⟨clamp01_mem x, h⟩, fun h => h.2⟩
  rw [hset]
  refine measurable_clamp01 (Set.OrdConnected.measurableSet ⟨?_⟩)
  rintro z1 ⟨h1, c1⟩ z2 ⟨h2, c2⟩ z ⟨hz1, hz2⟩
  refine ⟨⟨h1.1.trans hz1, hz2.trans h2.2⟩, ?_⟩
  rcases le_total z m with hzm | hmz
  · exact lt_of_le_of_lt (hl ⟨h1.1, hz1.trans hzm⟩ ⟨h1.1.trans hz1, hzm⟩ hz1) c1
  · exact lt_of_le_of_lt (hr ⟨hmz, hz2.trans h2.2⟩ ⟨hmz.trans hz2, h2.2⟩ hz2) c2

theorem measurable_hdcov (a b : ℕ) (hab : 2 < a + b) (ha : 0 < a) (hb : 0 < b) : Measurable (hdcov a b) :=
  measurable_vShape_comp_clamp (hdcovRaw_strictAntiOn a b hab ha hb).antitoneOn
    (hdcovRaw_strictMonoOn a b hab ha hb).monotoneOn

/-- **the level set is the shortest interval of its mass** (`a, b ≥ 2`, `x` left of the mode, `0 < x`): every interval
`[u,v] ⊆ [0,1]` whose Beta(a,b)-mass is at least `hdcovRaw a b x` is at least as long as `[x, partnerR x]` — so `hdcovRaw a b x`
is the coverage of the smallest highest-density interval containing `x` (C15 `hdi_shortest`) -/
theorem hd_interval_shortest_left (a b : ℕ) (ha : 2 ≤ a) (hb : 2 ≤ b) {x : ℝ} (hx0 : 0 < x)
    (hxm : x ≤ mode (a - 1) (b - 1)) (u v : ℝ) (hu : 0 ≤ u) (huv : u ≤ v) (hv : v ≤ 1)
    (hmass : hdcovRaw a b x ≤ G a b v - G a b u) : partnerR (a - 1) (b - 1) x - x ≤ v - u := by
  have hpos : 0 < (a - 1) + (b - 1) := by omega
  have hx : x ∈ Icc 0 (mode (a - 1) (b - 1)) := ⟨hx0.le, hxm⟩
  have hp := partnerR_mem _ _ hpos hx
  have hk : (0:ℝ) < (Opda.BetaBinom.betaNorm a b : ℝ) := by exact_mod_cast betaNorm_pos a b (by omega) (by omega)
  refine Opda.UtilsExtra.hdi_shortest (g (a - 1) (b - 1)) (g_continuous _ _) (mode (a - 1) (b - 1)) x
    (partnerR (a - 1) (b - 1) x) hx0.le hxm hp.1.1 hp.1.2 (g_monoOn _ _ hpos) (g_antiOn _ _ hpos)
    (g_partnerR _ _ (by omega) hx).symm ?_ u v hu huv hv ?_
  · have h1 : x < 1 := lt_of_le_of_lt hxm (mode_lt_one _ _ (by omega))
    have h2 : 0 < 1 - x := by linarith
    unfold g; positivity
  · rw [hdcovRaw_eq_integral_left a b (by omega) (by omega) hxm, mass_eq_integral a b (by omega) (by omega) u v,
      intervalIntegral.integral_const_mul, intervalIntegral.integral_const_mul] at hmass
    exact le_of_mul_le_mul_left hmass hk

/-- … and right of the mode (`x < 1`) -/
theorem hd_interval_shortest_right (a b : ℕ) (ha : 2 ≤ a) (hb : 2 ≤ b) {x : ℝ} (hmx : mode (a - 1) (b - 1) ≤ x)
    (hx1 : x < 1) (u v : ℝ) (hu : 0 ≤ u) (huv : u ≤ v) (hv : v ≤ 1)
    (hmass : hdcovRaw a b x ≤ G a b v - G a b u) : x - partnerL (a - 1) (b - 1) x ≤ v - u := by
  have hpos : 0 < (a - 1) + (b - 1) := by omega
  have hx : x ∈ Icc (mode (a - 1) (b - 1)) 1 := ⟨hmx, hx1.le⟩
  have hp := partnerL_mem _ _ hpos hx
  have hk : (0:ℝ) < (Opda.BetaBinom.betaNorm a b : ℝ) := by exact_mod_cast betaNorm_pos a b (by omega) (by omega)
  have heq := g_partnerL _ _ (show 0 < a - 1 by omega) hx
  refine Opda.UtilsExtra.hdi_shortest (g (a - 1) (b - 1)) (g_continuous _ _) (mode (a - 1) (b - 1))
    (partnerL (a - 1) (b - 1) x) x hp.1.1 hp.1.2 hmx hx1.le (g_monoOn _ _ hpos) (g_antiOn _ _ hpos)
    heq ?_ u v hu huv hv ?_
  · rw [heq]
    have h1 : 0 < x := lt_of_lt_of_le (mode_pos _ _ (by omega)) hmx
    have h2 : 0 < 1 - x := by linarith
    unfold g; positivity
  · rw [hdcovRaw_eq_integral_right a b (by omega) (by omega) (by omega) hmx,
      mass_eq_integral a b (by omega) (by omega) u v,
      intervalIntegral.integral_const_mul, intervalIntegral.integral_const_mul] at hmass
    exact le_of_mul_le_mul_left hmass hk

/-! ## the coverage functions of `ld_highest_density` and the law of its statistic -/
section ld
open MeasureTheory Opda.RectProbP Opda.OrderStatBeta

/-- the highest-density coverage function of the `i`-th (0-based) of `n` order statistics: `hdcov (i+1) (n−i)`, the mass
under Beta(i+1, n−i) of the smallest highest-density interval containing `x` -/
noncomputable def betaHdCov (n : ℕ) (i : Fin n) : ℝ → ℝ := hdcov (i.val + 1) (n - i.val)

/-- the mode `i/(n−1)` of Beta(i+1, n−i) -/
noncomputable def betaHdMode (n : ℕ) (i : Fin n) : ℝ := mode (i.val + 1 - 1) (n - i.val - 1)

theorem betaHdMode_eq (n : ℕ) (i : Fin n) : betaHdMode n i = (i.val : ℝ) / ((n : ℝ) - 1) := by
  unfold betaHdMode mode
  have hi := i.isLt
  have e : ((n - i.val - 1 : ℕ) : ℝ) = (n : ℝ) - i.val - 1 := by
    rw [Nat.cast_sub (by omega), Nat.cast_sub (by omega)]; simp
  rw [Nat.add_sub_cancel, e]
  congr 1; ring

theorem betaHd_params (n : ℕ) (hn : 2 ≤ n) (i : Fin n) :
    2 < (i.val + 1) + (n - i.val) ∧ 0 < i.val + 1 ∧ 0 < n - i.val := by
  have := i.isLt
  omega

theorem betaHd_measurable (n : ℕ) (hn : 2 ≤ n) (i : Fin n) : Measurable (betaHdCov n i) :=
  measurable_hdcov _ _ (betaHd_params n hn i).1 (betaHd_params n hn i).2.1 (betaHd_params n hn i).2.2

theorem betaHd_strictAntiOn (n : ℕ) (hn : 2 ≤ n) (i : Fin n) :
    StrictAntiOn (betaHdCov n i) (Icc 0 (betaHdMode n i)) :=
  hdcov_strictAntiOn _ _ (betaHd_params n hn i).1 (betaHd_params n hn i).2.1 (betaHd_params n hn i).2.2

theorem betaHd_strictMonoOn (n : ℕ) (hn : 2 ≤ n) (i : Fin n) :
    StrictMonoOn (betaHdCov n i) (Icc (betaHdMode n i) 1) :=
  hdcov_strictMonoOn _ _ (betaHd_params n hn i).1 (betaHd_params n hn i).2.1 (betaHd_params n hn i).2.2

theorem betaHd_level_finite (n : ℕ) (hn : 2 ≤ n) (i : Fin n) (t : ℝ) :
    {x | x ∈ Icc (0:ℝ) 1 ∧ betaHdCov n i x = t}.Finite :=
  vShape_level_finite (betaHd_strictAntiOn n hn i) (betaHd_strictMonoOn n hn i) t

theorem betaHd_level_null (n : ℕ) (hn : 2 ≤ n) (i : Fin n) (t : ℝ) :
    (volume : Measure ℝ) {x | x ∈ Icc (0:ℝ) 1 ∧ betaHdCov n i x = t} = 0 := (betaHd_level_finite n hn i t).measure_zero _

/-- **the highest-density ld statistic of the code** `max_i hdcov(i+1, n−i)(U₍ᵢ₎)`, `n ≥ 2`, has a continuous distribution
function — no hypothesis left -/
theorem betaHd_cdf_continuous (n : ℕ) [NeZero n] (hn : 2 ≤ n) : Continuous (cdfOf (ldLaw (betaHdCov n))) :=
  vShapeLaw_cdf_continuous (betaHd_measurable n hn) (betaHdMode n) (betaHd_strictAntiOn n hn) (betaHd_strictMonoOn n hn)

end ld

/-! ## the exact bracket of the driver (`beta.hdcov`) contains `hdcov` -/
section bracket
open Opda.BetaBinom

theorem modeQ_eq_mode (a b : ℕ) (ha : 0 < a) (hb : 0 < b) : ((modeQ a b : ℚ) : ℝ) = mode (a - 1) (b - 1) :=
  modeQ_cast a b ha hb

/-- **`beta.hdcov` brackets `hdcov`**, `x` left of the mode: the hypotheses about the level-set end `y*` of
`hdCoverageBracket_sound_left` hold for `y* = partnerR x`, so the exact rational bracket contains `hdcov a b x` -/
theorem hdCoverageBracket_hdcov_left (a b : ℕ) (ha : 0 < a) (hb : 0 < b) (hab : 2 < a + b) (x : ℚ) (steps : ℕ)
    (hx0 : 0 ≤ x) (hxm : x < modeQ a b) :
    (((hdCoverageBracket a b x steps).1 : ℚ) : ℝ) ≤ hdcov a b (x : ℝ)
      ∧ hdcov a b (x : ℝ) ≤ (((hdCoverageBracket a b x steps).2 : ℚ) : ℝ) := by
  have hmode := modeQ_eq_mode a b ha hb
  have hpos : 0 < (a - 1) + (b - 1) := by omega
  have hxm' : (x : ℝ) ≤ mode (a - 1) (b - 1) := by rw [← hmode]; exact_mod_cast hxm.le
  have hx : (x : ℝ) ∈ Icc 0 (mode (a - 1) (b - 1)) := ⟨by exact_mod_cast hx0, hxm'⟩
  have hp := partnerR_mem _ _ hpos hx
  rw [hdcov_of_mem a b ⟨hx.1, hx.2.trans (mode_le_one _ _)⟩, hdcovRaw_left a b hxm']
  refine hdCoverageBracket_sound_left a b ha hb hab x steps hx0 hxm (partnerR (a - 1) (b - 1) (x : ℝ))
    (by rw [hmode]; exact hp.1.1) hp.1.2 ?_ ?_
  · intro s hs1 hs2
    rw [hmode] at hs1
    exact (levelSet_left _ _ hpos hx ⟨(mode_nonneg _ _).trans hs1, hs2.trans hp.1.2⟩).mpr ⟨hxm'.trans hs1, hs2⟩
  · intro s hs1 hs2
    by_contra hcon
    have hs0 : 0 ≤ s := ((mode_nonneg _ _).trans hp.1.1).trans hs1.le
    have := (levelSet_left _ _ hpos hx ⟨hs0, hs2⟩).mp (not_lt.mp hcon)
    linarith [this.2]

/-- … and right of the mode -/
theorem hdCoverageBracket_hdcov_right (a b : ℕ) (ha : 0 < a) (hb : 0 < b) (hab : 2 < a + b) (x : ℚ) (steps : ℕ)
    (hx1 : x ≤ 1) (hmx : modeQ a b < x) :
    (((hdCoverageBracket a b x steps).1 : ℚ) : ℝ) ≤ hdcov a b (x : ℝ)
      ∧ hdcov a b (x : ℝ) ≤ (((hdCoverageBracket a b x steps).2 : ℚ) : ℝ) := by
  have hmode := modeQ_eq_mode a b ha hb
  have hpos : 0 < (a - 1) + (b - 1) := by omega
  have hmx' : mode (a - 1) (b - 1) < (x : ℝ) := by rw [← hmode]; exact_mod_cast hmx
  have hx : (x : ℝ) ∈ Icc (mode (a - 1) (b - 1)) 1 := ⟨hmx'.le, by exact_mod_cast hx1⟩
  have hp := partnerL_mem _ _ hpos hx
  rw [hdcov_of_mem a b ⟨(mode_nonneg _ _).trans hx.1, hx.2⟩, hdcovRaw_right a b hmx']
  refine hdCoverageBracket_sound_right a b ha hb hab x steps hx1 hmx (partnerL (a - 1) (b - 1) (x : ℝ))
    hp.1.1 (by rw [hmode]; exact hp.1.2) ?_ ?_
  · intro s hs1 hs2
    rw [hmode] at hs2
    exact (levelSet_right _ _ hpos hx ⟨hp.1.1.trans hs1, hs2.trans (mode_le_one _ _)⟩).mpr ⟨hs1, hs2.trans hmx'.le⟩
  · intro s hs1 hs2
    by_contra hcon
    have hs1' : s ≤ 1 := (hs2.le.trans hp.1.2).trans (mode_le_one _ _)
    have := (levelSet_right _ _ hpos hx ⟨hs1, hs1'⟩).mp (not_lt.mp hcon)
    linarith [this.1]

end bracket

end Opda.BetaHdV
