import OpdaProofs.ClopperPearson
import OpdaProofs.DkwEps
import OpdaProofs.Small
import OpdaProofs.HdiBound

/-!
Small additions for C15/C16: reflection symmetry of the binomial tail (Clopper–Pearson symmetry),
`dkw_epsilon → ∞` as the confidence tends to one, nestedness of equal-tailed intervals, and the
classical "unimodal density + equal end densities ⇒ shortest interval" as the exact-end-point case of
`Opda.Hdi.level_bound`.
-/
namespace Opda.UtilsExtra
open Opda.CP

/-- `P[Bin(n,p) ≥ k] + P[Bin(n,1−p) ≥ n+1−k] = 1` -/
theorem tail_reflect (n k : ℕ) (p : ℝ) (hk : k ≤ n + 1) : tail n k p + tail n (n + 1 - k) (1 - p) = 1 := by
  induction n generalizing k with
  | zero =>
    have : k = 0 ∨ k = 1 := by omega
    rcases this with rfl | rfl <;> simp [tail]
  | succ n ih =>
    cases k with
    | zero => simp [tail_of_gt]
    | succ k =>
      rcases Nat.lt_or_ge n k with h | h
      · have hk' : k = n + 1 := by omega
        subst hk'
        rw [tail_of_gt (n+1) (n+1+1) p (by omega)]
        simp
      · have e : n + 1 + 1 - (k + 1) = (n - k) + 1 := by omega
        rw [e]
        simp only [tail]
        have i1 := ih k (by omega)
        have i2 := ih (k+1) (by omega)
        have e1 : n + 1 - k = (n - k) + 1 := by omega
        have e2 : n + 1 - (k + 1) = n - k := by omega
        rw [e1] at i1
        rw [e2] at i2
        have : (1 : ℝ) - (1 - p) = p := by ring
        rw [this]
        linear_combination p * i1 + (1 - p) * i2

/-- **Clopper–Pearson symmetry of the Spec**: `l` satisfies the defining equation of the lower end
point for `k` successes iff `1 − l` satisfies the one of the upper end point for `n − k` successes. -/
theorem cp_symmetry (n k : ℕ) (l r : ℝ) (hk : k ≤ n) :
    tail n k l = r ↔ 1 - tail n ((n - k) + 1) (1 - l) = r := by
  have := tail_reflect n k l (by omega)
  have e : n + 1 - k = (n - k) + 1 := by omega
  rw [e] at this
  constructor <;> intro h <;> linarith

open Opda.Dkw in
/-- `dkw_epsilon(n, c)` exceeds every bound as `c → 1` (the code returns `+inf` at `c = 1`) -/
theorem eps_unbounded (n M : ℝ) (hn : 0 < n) (hM : 0 ≤ M) (c : ℝ) (hc0 : 0 ≤ c) (hc1 : c < 1)
    (hc : 1 - c < 2 * Real.exp (-2 * n * M ^ 2)) : M < eps n c := by
  by_contra hcon
  have hle : eps n c ≤ M := not_lt.mp hcon
  have h0 := eps_nonneg n c
  have hsq : (eps n c) ^ 2 ≤ M ^ 2 := by nlinarith
  have hexp : Real.exp (-2 * n * M ^ 2) ≤ Real.exp (-2 * n * (eps n c) ^ 2) := by
    apply Real.exp_le_exp.mpr; nlinarith
  have := eps_spec n c hn hc0 hc1
  linarith

/-- equal-tailed intervals are nested in the coverage -/
theorem et_nested (G Ginv : ℝ → ℝ) (hmono : StrictMono G)
    (hinv : ∀ p, 0 ≤ p → p ≤ 1 → G (Ginv p) = p) (c c' : ℝ) (hc0 : 0 ≤ c) (hcc : c ≤ c') (hc1 : c' ≤ 1)
    (t : ℝ) (ht : Ginv ((1 - c) / 2) ≤ t ∧ t ≤ Ginv ((1 + c) / 2)) :
    Ginv ((1 - c') / 2) ≤ t ∧ t ≤ Ginv ((1 + c') / 2) := by
  have h1 := (Opda.Small.equal_tailed G Ginv hmono hinv c hc0 (hcc.trans hc1)).2.2.2.1 t
  have h2 := (Opda.Small.equal_tailed G Ginv hmono hinv c' (hc0.trans hcc) hc1).2.2.2.1 t
  exact h2.mpr ((h1.mp ht).trans hcc)

open Opda.Hdi Set in
/-- **C15-T2, classical form**: a density that increases up to `m` and decreases after it, an
interval `[x,y] ∋ m` with *equal end densities* `f x = f y > 0`: no interval `[u,v] ⊆ [0,1]` of at
least the same mass is shorter. -/
theorem hdi_shortest (f : ℝ → ℝ) (hf : Continuous f) (m x y : ℝ) (h0 : 0 ≤ x) (hxm : x ≤ m) (hmy : m ≤ y)
    (h1 : y ≤ 1) (hup : MonotoneOn f (Icc 0 m)) (hdown : AntitoneOn f (Icc m 1))
    (heq : f x = f y) (hpos : 0 < f x)
    (u v : ℝ) (hu : 0 ≤ u) (huv : u ≤ v) (hv : v ≤ 1)
    (hmass : ∫ s in x..y, f s ≤ ∫ s in u..v, f s) : y - x ≤ v - u := by
  have key := level_bound hf (f x) (f x) (f x) x x y y h0 le_rfl (hxm.trans hmy) le_rfl h1 le_rfl le_rfl
    (fun _ s hs => hup ⟨hs.1, hs.2.trans hxm⟩ ⟨h0, hxm⟩ hs.2)
    (fun _ s hs => by rw [heq]; exact hdown ⟨hmy, h1⟩ ⟨hmy.trans hs.1, hs.2⟩ hs.1)
    (fun s hs => by have : s = x := le_antisymm hs.2 hs.1
                    rw [this])
    (fun s hs => by
      rcases le_total s m with hsm | hms
      · exact hup ⟨h0, hxm⟩ ⟨h0.trans hs.1, hsm⟩ hs.1
      · rw [heq]; exact hdown ⟨hms, hs.2.trans h1⟩ ⟨hmy, h1⟩ hs.2)
    (fun s hs => by have : s = y := le_antisymm hs.2 hs.1
                    rw [this, heq])
    u v hu huv hv
  have : f x * (y - x) ≤ f x * (v - u) := by nlinarith
  exact le_of_mul_le_mul_left this hpos

open Opda.Hdi Set in
/-- the smallest highest-density (level-set) region containing `x` is `[x,y]` when `f y = f x` on the
other side of the mode: the density is `≥ f x` inside and `≤ f x` outside.  Hence the coverage of the
smallest highest-density interval containing `x` is `G y − G x`. -/
theorem hd_level_set (α β : ℕ) (hpos : 0 < α + β) (x y : ℝ) (h0 : 0 ≤ x)
    (hxm : x ≤ (α : ℝ) / ((α : ℝ) + β)) (hmy : (α : ℝ) / ((α : ℝ) + β) ≤ y) (h1 : y ≤ 1)
    (heq : g α β x = g α β y) :
    (∀ s, x ≤ s → s ≤ y → g α β x ≤ g α β s)
      ∧ (∀ s, 0 ≤ s → s ≤ 1 → (s ≤ x ∨ y ≤ s) → g α β s ≤ g α β x) := by
  have up := g_mono α β hpos
  have down := g_anti α β hpos
  constructor
  · intro s hxs hsy
    rcases le_total s ((α : ℝ) / ((α : ℝ) + β)) with hsm | hms
    · exact up ⟨h0, hxm⟩ ⟨h0.trans hxs, hsm⟩ hxs
    · rw [heq]; exact down ⟨hms, hsy.trans h1⟩ ⟨hmy, h1⟩ hsy
  · intro s hs0 hs1 hout
    rcases hout with h | h
    · exact up ⟨hs0, h.trans hxm⟩ ⟨h0, hxm⟩ h
    · rw [heq]; exact down ⟨hmy, h1⟩ ⟨hmy.trans h, hs1⟩ h

#print axioms tail_reflect
#print axioms hdi_shortest
end Opda.UtilsExtra
