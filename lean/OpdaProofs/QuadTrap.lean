import OpdaModel.QuadTrap
import OpdaProofs.Trapezoid
import Mathlib.Algebra.BigOperators.Intervals
import Mathlib.Algebra.Order.Field.Basic
import Mathlib.Data.Real.Basic
import Mathlib.Tactic

/-!
C08-T3 / C09-T9 on the executable loop model `Opda.TrapLoop` read at `ℝ` (`nat := Nat.cast`):
* the state after `i` refinements is `(h_i, composite trapezoid sum on 2^i panels)` — `iter_eq_trap`;
* mirror image: `g'(x) = −g(−x)` on the grid ⇒ `T'_i = −T_i` on the mirrored interval;
* affine image: `g(A + B z) = g₀(z)` ⇒ `T_i[g; A+B·lo, A+B·hi] = B·T_i[g₀; lo, hi]`;
* subtracting a constant on `[lo,hi]` subtracts `K·(hi−lo)` (the rule is exact for constants).

`valueRep` is the code (after 867c66b); `valueCur` is the pre-repair integrand with `1[y>0]` (legacy).
-/
namespace Opda.TrapLoop
open Finset Opda.Trap

abbrev cast : ℕ → ℝ := fun k => (k : ℝ)

theorem oddSum_eq (g : ℝ → ℝ) (lo h : ℝ) (r j : ℕ) (acc : ℝ) :
    oddSum cast g lo h r j acc = acc + ∑ t ∈ range r, g (lo + (2 * ((j + t : ℕ) : ℝ) + 1) * h) := by
  induction r generalizing j acc with
  | zero => simp [oddSum]
  | succ r ih =>
    rw [oddSum, ih, sum_range_succ', add_assoc]
    congr 1
    rw [add_comm]
    congr 1
    · apply sum_congr rfl
      intro t _
      have : (j + 1 + t : ℕ) = j + (t + 1) := by ring
      rw [this]
    · simp [cast]

/-- **C08-T3**: the loop state is the step width and the composite trapezoid sum -/
theorem iter_eq (g : ℝ → ℝ) (lo hi : ℝ) (i : ℕ) :
    iter cast g lo hi i = (Trap.h lo hi i, Trap.loop g lo hi i) := by
  induction i with
  | zero =>
    refine Prod.ext ?_ ?_
    · simp [iter, Trap.h]
    · simp only [iter, init, Trap.loop, cast]; norm_num
  | succ i ih =>
    rw [iter, ih]
    unfold step
    simp only [Nat.add_sub_cancel]
    have hh : Trap.h lo hi i * (cast 1 / cast 2) = Trap.h lo hi (i+1) := by
      rw [h_succ lo hi i]; simp only [cast, Nat.cast_one, Nat.cast_ofNat]; ring
    rw [hh, oddSum_eq]
    simp only [Trap.loop, Trap.O, cast, Nat.cast_zero, zero_add, Nat.cast_one, Nat.cast_ofNat]
    congr 1
    norm_num

theorem iter_eq_trap (g : ℝ → ℝ) (lo hi : ℝ) (i : ℕ) :
    (iter cast g lo hi i).2 = Trap.trap g lo hi i := by
  rw [iter_eq, loop_eq_trap]

/-! ### the trapezoid sum in symmetric form -/

/-- `Σ_{k ≤ 2^i} g(lo + k h)` (both end points) -/
noncomputable def full (g : ℝ → ℝ) (lo hi : ℝ) (i : ℕ) : ℝ := ∑ k ∈ range (2^i + 1), g (lo + k * Trap.h lo hi i)

theorem h_mul_pow (lo hi : ℝ) (i : ℕ) : (2^i : ℝ) * Trap.h lo hi i = hi - lo := by
  unfold Trap.h; field_simp

theorem trap_eq_full (g : ℝ → ℝ) (lo hi : ℝ) (i : ℕ) :
    Trap.trap g lo hi i = Trap.h lo hi i * (full g lo hi i - g lo / 2 - g hi / 2) := by
  unfold Trap.trap full Trap.S
  rw [sum_range_succ]
  have : lo + ((2^i : ℕ) : ℝ) * Trap.h lo hi i = hi := by
    push_cast; rw [h_mul_pow]; ring
  rw [this]; ring

/-- values on the grid determine the sum -/
theorem trap_congr_grid (g g' : ℝ → ℝ) (lo hi : ℝ) (i : ℕ)
    (hg : ∀ k : ℕ, k ≤ 2^i → g (lo + k * Trap.h lo hi i) = g' (lo + k * Trap.h lo hi i)) :
    Trap.trap g lo hi i = Trap.trap g' lo hi i := by
  have h0 : g lo = g' lo := by simpa using hg 0 (Nat.zero_le _)
  have h1 : g hi = g' hi := by
    have := hg (2^i) le_rfl
    have e : lo + ((2^i : ℕ) : ℝ) * Trap.h lo hi i = hi := by push_cast; rw [h_mul_pow]; ring
    rwa [e] at this
  have hf : full g lo hi i = full g' lo hi i := by
    unfold full
    apply sum_congr rfl
    intro k hk
    exact hg k (Nat.lt_succ_iff.mp (mem_range.mp hk))
  rw [trap_eq_full, trap_eq_full, h0, h1, hf]

/-- **mirror image**: if `g'(−hi + k h) = −g(hi − k h)` at every grid point then `T'_i = −T_i` -/
theorem trap_reflect (g g' : ℝ → ℝ) (lo hi : ℝ) (i : ℕ)
    (hg : ∀ k : ℕ, k ≤ 2^i → g' (-hi + k * Trap.h lo hi i) = - g (hi - k * Trap.h lo hi i)) :
    Trap.trap g' (-hi) (-lo) i = - Trap.trap g lo hi i := by
  have hh : Trap.h (-hi) (-lo) i = Trap.h lo hi i := by unfold Trap.h; ring
  have e0 : g' (-hi) = - g hi := by simpa using hg 0 (Nat.zero_le _)
  have e1 : g' (-lo) = - g lo := by
    have := hg (2^i) le_rfl
    have ea : -hi + ((2^i : ℕ) : ℝ) * Trap.h lo hi i = -lo := by push_cast; rw [h_mul_pow]; ring
    have eb : hi - ((2^i : ℕ) : ℝ) * Trap.h lo hi i = lo := by push_cast; rw [h_mul_pow]; ring
    rwa [ea, eb] at this
  rw [trap_eq_full, trap_eq_full, hh, e0, e1]
  have hsum : full g' (-hi) (-lo) i = - full g lo hi i := by
    unfold full
    rw [hh, ← sum_range_reflect (fun k => g (lo + k * Trap.h lo hi i)), ← sum_neg_distrib]
    apply sum_congr rfl
    intro k hk
    have hk' : k ≤ 2^i := Nat.lt_succ_iff.mp (mem_range.mp hk)
    rw [hg k hk']
    congr 2
    have : ((2^i + 1 - 1 - k : ℕ) : ℝ) = (2^i : ℝ) - k := by
      rw [Nat.add_sub_cancel, Nat.cast_sub hk']; push_cast; ring
    rw [this, sub_mul, h_mul_pow]; ring
  rw [hsum]; ring

/-- **affine image** -/
theorem trap_affine (g g0 : ℝ → ℝ) (A B lo hi : ℝ) (i : ℕ) (hg : ∀ z, g (A + B * z) = g0 z) :
    Trap.trap g (A + B * lo) (A + B * hi) i = B * Trap.trap g0 lo hi i := by
  have hh : Trap.h (A + B * lo) (A + B * hi) i = B * Trap.h lo hi i := by unfold Trap.h; ring
  unfold Trap.trap Trap.S
  rw [hh, hg lo, hg hi]
  have : ∀ k : ℕ, g (A + B * lo + k * (B * Trap.h lo hi i)) = g0 (lo + k * Trap.h lo hi i) := by
    intro k; rw [← hg]; congr 1; ring
  simp only [this]
  ring

/-- the rule is exact for constants: `g = g' − K` on `[lo,hi]` ⇒ `T_i[g] = T_i[g'] − K (hi − lo)` -/
theorem trap_sub_const (g g' : ℝ → ℝ) (K lo hi : ℝ) (hlh : lo ≤ hi) (i : ℕ)
    (hg : ∀ x, lo ≤ x → x ≤ hi → g x = g' x - K) :
    Trap.trap g lo hi i = Trap.trap g' lo hi i - K * (hi - lo) := by
  have hh0 : 0 ≤ Trap.h lo hi i := by unfold Trap.h; exact div_nonneg (by linarith) (by positivity)
  have hgrid : ∀ k : ℕ, k ≤ 2^i → lo ≤ lo + k * Trap.h lo hi i ∧ lo + k * Trap.h lo hi i ≤ hi := by
    intro k hk
    have h1 : (0:ℝ) ≤ k * Trap.h lo hi i := mul_nonneg (Nat.cast_nonneg k) hh0
    have h2 : (k:ℝ) * Trap.h lo hi i ≤ (2^i : ℝ) * Trap.h lo hi i :=
      mul_le_mul_of_nonneg_right (by exact_mod_cast hk) hh0
    rw [h_mul_pow] at h2
    constructor <;> linarith
  rw [trap_congr_grid g (fun x => g' x - K) lo hi i (fun k hk => hg _ (hgrid k hk).1 (hgrid k hk).2)]
  rw [trap_eq_full, trap_eq_full]
  unfold full
  rw [sum_sub_distrib, sum_const, card_range, nsmul_eq_mul]
  push_cast
  rw [← h_mul_pow lo hi i]
  ring

/-- the rule is exact for constants (global form): `T_i[g − K] = T_i[g] − K (hi − lo)` -/
theorem trap_sub_const_all (g : ℝ → ℝ) (K lo hi : ℝ) (i : ℕ) :
    Trap.trap (fun x => g x - K) lo hi i = Trap.trap g lo hi i - K * (hi - lo) := by
  rw [trap_eq_full, trap_eq_full]
  unfold full
  rw [sum_sub_distrib, sum_const, card_range, nsmul_eq_mul]
  push_cast
  rw [← h_mul_pow lo hi i]
  ring

/-- the trapezoid sum of the zero function -/
theorem trap_zero (g : ℝ → ℝ) (lo hi : ℝ) (i : ℕ)
    (hg : ∀ k : ℕ, k ≤ 2^i → g (lo + k * Trap.h lo hi i) = 0) : Trap.trap g lo hi i = 0 := by
  rw [trap_congr_grid g (fun _ => 0) lo hi i (fun k hk => by rw [hg k hk]), trap_eq_full]
  unfold full; simp

/-! ### C09-T9: the integrated curve under reflection and under the affine map -/

theorem ind_neg (x : ℝ) (hx : x ≠ 0) : ind cast (-x) = 1 - ind cast x := by
  unfold ind cast
  rcases lt_or_gt_of_ne hx with h | h
  · have h1 : (0:ℝ) < -x := by linarith
    have h2 : ¬ ((0:ℝ) < x) := by push Not; linarith
    simp [h1, h2]
  · have h1 : ¬ ((0:ℝ) < -x) := by push Not; linarith
    simp [h1, h]

theorem tail_neg (lo hi : ℝ) : tail cast (-hi) (-lo) = - tail cast lo hi := by
  unfold tail cast
  simp only [Nat.cast_zero, Left.neg_pos_iff, Left.neg_neg_iff]
  split_ifs <;> ring

/-- **reflection** of the code's integrated curve: the trapezoid sums of `D` (level `m`) and of `D'`
(level `¬m`, cdf `F'(−x) = 1 − F(x)`) are mirror images at every refinement level, *with* the `1[y>0]`
term, provided no grid point is exactly `0` -/
theorem valueCur_reflect (pw : ℝ → ℝ → ℝ) (F F' : ℝ → ℝ) (hFF : ∀ x, F' (-x) = 1 - F x) (m : Bool)
    (nn lo hi : ℝ) (i : ℕ) (h0 : ∀ k : ℕ, k ≤ 2^i → hi - k * Trap.h lo hi i ≠ 0) :
    valueCur cast pw F' (!m) nn (-hi) (-lo) i = - valueCur cast pw F m nn lo hi i := by
  unfold valueCur
  rw [iter_eq_trap, iter_eq_trap, tail_neg,
    trap_reflect (gCur cast pw F m nn) (gCur cast pw F' (!m) nn) lo hi i]
  · ring
  · intro k hk
    have e : -hi + (k:ℝ) * Trap.h lo hi i = -(hi - k * Trap.h lo hi i) := by ring
    rw [e]
    unfold gCur
    rw [hFF, ind_neg _ (h0 k hk)]
    cases m <;> simp [cast] <;> ring

/-- **reflection of the code's integrated curve** (`lo + T_i[1 − Fⁿ]` resp. `lo + T_i[(1−F)ⁿ]`): the value for
`D'` (level `¬m`, cdf `F'(−x) = 1 − F(x)`) on the mirrored range is minus the value for `D`, at *every*
refinement level and with no side condition (the pre-repair integrand needed "no grid point is exactly 0") -/
theorem valueRep_reflect (pw : ℝ → ℝ → ℝ) (F F' : ℝ → ℝ) (hFF : ∀ x, F' (-x) = 1 - F x) (m : Bool)
    (nn lo hi : ℝ) (i : ℕ) :
    valueRep cast pw F' (!m) nn (-hi) (-lo) i = - valueRep cast pw F m nn lo hi i := by
  unfold valueRep
  rw [iter_eq_trap, iter_eq_trap,
    trap_reflect (fun x => gRep cast pw F m nn x - 1) (gRep cast pw F' (!m) nn) lo hi i, trap_sub_const_all]
  · ring
  · intro k hk
    have e : -hi + (k:ℝ) * Trap.h lo hi i = -(hi - k * Trap.h lo hi i) := by ring
    rw [e]
    unfold gRep
    rw [hFF]
    cases m <;> simp [cast]

/-- **affine equivariance** of the code's integrated curve, at every level -/
theorem valueRep_affine (pw : ℝ → ℝ → ℝ) (F F0 : ℝ → ℝ) (A B : ℝ) (hF : ∀ z, F (A + B * z) = F0 z) (m : Bool)
    (nn lo hi : ℝ) (i : ℕ) :
    valueRep cast pw F m nn (A + B * lo) (A + B * hi) i = A + B * valueRep cast pw F0 m nn lo hi i := by
  unfold valueRep
  rw [iter_eq_trap, iter_eq_trap,
    trap_affine (gRep cast pw F m nn) (gRep cast pw F0 m nn) A B lo hi i]
  · ring
  · intro z; unfold gRep; rw [hF]

/-- the code's integrand equals the repaired one **when `0 ∉ (lo, hi]`** (`_partial`: for
`lo ≤ 0 < hi` the `1[y>0]` jump lies inside the integration range and the two differ by the
quadrature error at the jump, which is finding F4) -/
theorem valueCur_eq_valueRep_partial (pw : ℝ → ℝ → ℝ) (F : ℝ → ℝ) (m : Bool) (nn lo hi : ℝ) (i : ℕ)
    (hlh : lo ≤ hi) (h : 0 < lo ∨ hi ≤ 0) :
    valueCur cast pw F m nn lo hi i = valueRep cast pw F m nn lo hi i := by
  unfold valueCur valueRep
  rw [iter_eq_trap, iter_eq_trap]
  rcases h with h | h
  · rw [trap_sub_const (gCur cast pw F m nn) (gRep cast pw F m nn) 0 lo hi hlh i]
    · have h2 : ¬ (hi < 0) := by push Not; linarith
      simp [tail, cast, h, h2]
    · intro x hx _
      have : (0:ℝ) < x := by linarith
      unfold gCur gRep ind cast
      cases m <;> simp [this]
  · rw [trap_sub_const (gCur cast pw F m nn) (gRep cast pw F m nn) 1 lo hi hlh i]
    · have h1 : ¬ ((0:ℝ) < lo) := by push Not; linarith
      unfold tail cast
      simp only [Nat.cast_zero, h1, if_false]
      rcases h.lt_or_eq with h2 | h2
      · simp [h2]; ring
      · simp [h2]; ring
    · intro x _ hx
      have : ¬ ((0:ℝ) < x) := by push Not; linarith
      unfold gCur gRep ind cast
      cases m <;> simp [this]

/-- location–scale equivariance of the code's integrated curve, **`_partial`**: only when neither
instance has `0` inside its integration range -/
theorem valueCur_affine_partial (pw : ℝ → ℝ → ℝ) (F F0 : ℝ → ℝ) (A B : ℝ) (hB : 0 < B)
    (hF : ∀ z, F (A + B * z) = F0 z) (m : Bool) (nn lo hi : ℝ) (i : ℕ) (hlh : lo ≤ hi)
    (h : 0 < lo ∨ hi ≤ 0) (h' : 0 < A + B * lo ∨ A + B * hi ≤ 0) :
    valueCur cast pw F m nn (A + B * lo) (A + B * hi) i = A + B * valueCur cast pw F0 m nn lo hi i := by
  have hlh' : A + B * lo ≤ A + B * hi := by nlinarith
  rw [valueCur_eq_valueRep_partial pw F m nn _ _ i hlh' h', valueCur_eq_valueRep_partial pw F0 m nn lo hi i hlh h,
    valueRep_affine pw F F0 A B hF]

end Opda.TrapLoop
