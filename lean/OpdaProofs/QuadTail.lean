import OpdaModel.QuadTrap
import OpdaProofs.QuadTrap
import Mathlib.MeasureTheory.Integral.IntervalIntegral.Basic
import Mathlib.Tactic

/-!
C08-T4 (tail bookkeeping): for a function `G` that is `0` up to `lo` and `1` beyond `hi`,
`∫ (1[y>0] − G(y)) dy` over any window `[−M, M] ⊇ [lo, hi] ∪ {0}` (the integrand vanishes outside it)
is `max(0, lo) + min(0, hi) + ∫_lo^hi (1[y>0] − G(y)) dy` — the three terms the code returns.
-/
namespace Opda.TrapLoop
open MeasureTheory intervalIntegral Set

theorem const_on_Ioc (f : ℝ → ℝ) (a b c : ℝ) (hab : a ≤ b) (h : ∀ y ∈ Ioc a b, f y = c) :
    IntervalIntegrable f volume a b ∧ ∫ y in a..b, f y = c * (b - a) := by
  have hae : (fun _ : ℝ => c) =ᵐ[volume.restrict (Set.uIoc a b)] f := by
    rw [uIoc_of_le hab]
    exact (ae_restrict_iff' measurableSet_Ioc).mpr (Filter.Eventually.of_forall fun y hy => (h y hy).symm)
  refine ⟨(intervalIntegrable_const (c := c)).congr_ae hae, ?_⟩
  rw [integral_of_le hab, setIntegral_congr_fun measurableSet_Ioc h, ← integral_of_le hab,
    intervalIntegral.integral_const]
  simp [mul_comm]

/-- `1[y>0]` as the model writes it, at `ℝ` -/
theorem ind_pos (y : ℝ) (h : 0 < y) : ind cast y = 1 := by unfold ind cast; simp [h]
theorem ind_nonpos (y : ℝ) (h : y ≤ 0) : ind cast y = 0 := by
  unfold ind cast; simp [not_lt.mpr h]

theorem tail_bookkeeping (G : ℝ → ℝ) (lo hi M : ℝ) (hlh : lo ≤ hi) (hM1 : -M ≤ lo) (hM2 : hi ≤ M) (hM : 0 ≤ M)
    (hG0 : ∀ y, y ≤ lo → G y = 0) (hG1 : ∀ y, hi < y → G y = 1)
    (hint : IntervalIntegrable (fun y => ind cast y - G y) volume lo hi) :
    ∫ y in (-M)..M, (ind cast y - G y)
      = tail cast lo hi + ∫ y in lo..hi, (ind cast y - G y) := by
  -- left part: ∫_{-M}^{lo} = max 0 lo
  have hleft : IntervalIntegrable (fun y => ind cast y - G y) volume (-M) lo ∧
      ∫ y in (-M)..lo, (ind cast y - G y) = (if (0:ℝ) < lo then lo else 0) := by
    by_cases h0 : 0 < lo
    · have A := const_on_Ioc (fun y => ind cast y - G y) (-M) 0 0 (by linarith) (fun y hy => by
        rw [ind_nonpos y hy.2, hG0 y (by linarith [hy.2])]; ring)
      have B := const_on_Ioc (fun y => ind cast y - G y) 0 lo 1 h0.le (fun y hy => by
        rw [ind_pos y hy.1, hG0 y hy.2]; ring)
      refine ⟨A.1.trans B.1, ?_⟩
      rw [← integral_add_adjacent_intervals A.1 B.1, A.2, B.2, if_pos h0]; ring
    · have A := const_on_Ioc (fun y => ind cast y - G y) (-M) lo 0 hM1 (fun y hy => by
        rw [ind_nonpos y (by linarith [hy.2, not_lt.mp h0]), hG0 y hy.2]; ring)
      refine ⟨A.1, ?_⟩
      rw [A.2, if_neg h0]; ring
  -- right part: ∫_{hi}^{M} = min 0 hi
  have hright : IntervalIntegrable (fun y => ind cast y - G y) volume hi M ∧
      ∫ y in hi..M, (ind cast y - G y) = (if hi < (0:ℝ) then hi else 0) := by
    by_cases h0 : hi < 0
    · have A := const_on_Ioc (fun y => ind cast y - G y) hi 0 (-1) h0.le (fun y hy => by
        rw [ind_nonpos y hy.2, hG1 y hy.1]; ring)
      have B := const_on_Ioc (fun y => ind cast y - G y) 0 M 0 hM (fun y hy => by
        rw [ind_pos y hy.1, hG1 y (by linarith [hy.1])]; ring)
      refine ⟨A.1.trans B.1, ?_⟩
      rw [← integral_add_adjacent_intervals A.1 B.1, A.2, B.2, if_pos h0]; ring
    · have A := const_on_Ioc (fun y => ind cast y - G y) hi M 0 hM2 (fun y hy => by
        rw [ind_pos y (by linarith [hy.1, not_lt.mp h0]), hG1 y hy.1]; ring)
      refine ⟨A.1, ?_⟩
      rw [A.2, if_neg h0]; ring
  rw [← integral_add_adjacent_intervals (hleft.1.trans hint) hright.1,
    ← integral_add_adjacent_intervals hleft.1 hint, hleft.2, hright.2]
  unfold tail cast
  simp only [Nat.cast_zero]
  ring

/-- the same expectation with the origin shifted to `lo` (the form the code integrates after 867c66b):
`∫ (1[y>0] − G) = lo + ∫_lo^hi (1 − G)` -/
theorem shifted_bookkeeping (G : ℝ → ℝ) (lo hi M : ℝ) (hlh : lo ≤ hi) (hM1 : -M ≤ lo) (hM2 : hi ≤ M) (hM : 0 ≤ M)
    (hG0 : ∀ y, y ≤ lo → G y = 0) (hG1 : ∀ y, hi < y → G y = 1)
    (hint : IntervalIntegrable G volume lo hi) :
    ∫ y in (-M)..M, (ind cast y - G y) = lo + ∫ y in lo..hi, (1 - G y) := by
  -- `ind` is interval integrable on `[lo, hi]`: split at 0 if needed
  have hind : IntervalIntegrable (fun y => ind cast y) volume lo hi ∧
      ∫ y in lo..hi, ind cast y = (if (0:ℝ) < hi then hi else 0) - (if (0:ℝ) < lo then lo else 0) := by
    by_cases h0 : 0 < lo
    · have A := const_on_Ioc (fun y => ind cast y) lo hi 1 hlh (fun y hy => ind_pos y (by linarith [hy.1]))
      refine ⟨A.1, ?_⟩
      rw [A.2, if_pos h0, if_pos (by linarith)]; ring
    · push Not at h0
      by_cases h1 : 0 < hi
      · have A := const_on_Ioc (fun y => ind cast y) lo 0 0 h0 (fun y hy => ind_nonpos y hy.2)
        have B := const_on_Ioc (fun y => ind cast y) 0 hi 1 h1.le (fun y hy => ind_pos y hy.1)
        refine ⟨A.1.trans B.1, ?_⟩
        rw [← integral_add_adjacent_intervals A.1 B.1, A.2, B.2, if_pos h1, if_neg (not_lt.mpr h0)]; ring
      · push Not at h1
        have A := const_on_Ioc (fun y => ind cast y) lo hi 0 hlh (fun y hy => ind_nonpos y (by linarith [hy.2]))
        refine ⟨A.1, ?_⟩
        rw [A.2, if_neg (not_lt.mpr h1), if_neg (not_lt.mpr h0)]; ring
  rw [tail_bookkeeping G lo hi M hlh hM1 hM2 hM hG0 hG1 (hind.1.sub hint),
    intervalIntegral.integral_sub hind.1 hint, hind.2,
    intervalIntegral.integral_sub intervalIntegrable_const hint, intervalIntegral.integral_const]
  unfold tail cast
  simp only [Nat.cast_zero, smul_eq_mul, mul_one]
  by_cases h0 : 0 < lo
  · have h1 : 0 < hi := by linarith
    simp only [h0, h1, not_lt.mpr h1.le, if_true, if_false]; ring
  · by_cases h1 : 0 < hi
    · simp only [h0, h1, not_lt.mpr h1.le, if_true, if_false]; ring
    · have : hi ≤ 0 := not_lt.mp h1
      rcases this.lt_or_eq with h2 | h2
      · simp only [h0, h1, h2, if_true, if_false]; ring
      · subst h2; simp only [h0, lt_irrefl, if_false]; ring

end Opda.TrapLoop
