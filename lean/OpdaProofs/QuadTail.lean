import OpdaModel.QuadTrap
import OpdaProofs.QuadTrap
import Mathlib.MeasureTheory.Integral.IntervalIntegral.Basic
import Mathlib.Tactic

/-!
C08-T4 (tail bookkeeping): for a function `G` that is `0` up to `lo` and `1` beyond `hi`,
`∫ (1[y>0] − G(y)) dy` over any window `[−M, M] ⊇ [lo, hi] ∪ {0}` (the integrand vanishes outside it)
is `max(0, lo) + min(0, hi) + ∫_lo^hi (1[y>0] − G(y)) dy` — the three terms the code returns.
-/
namespace Opda.TrapLoop
open MeasureTheory intervalIntegral Set

theorem const_on_Ioc (f : ℝ → ℝ) (a b c : ℝ) (hab : a ≤ b) (h : ∀ y ∈ Ioc a b, f y = c) :
    IntervalIntegrable f volume a b ∧ ∫ y in a..b, f y = c * (b - a) := by
  have hae : (fun _ : ℝ => c) =ᵐ[volume.restrict (Set.uIoc a b)] f := by
    rw [uIoc_of_le hab]
    exact (ae_restrict_iff' measurableSet_Ioc).mpr (Filter.Eventually.of_forall fun y hy => (h y hy).symm)
  refine ⟨(intervalIntegrable_const (c := c)).congr_ae hae, ?_⟩
  rw [integral_of_le hab, setIntegral_congr_fun measurableSet_Ioc h, ← integral_of_le hab,
    intervalIntegral.integral_const]
  simp [mul_comm]

/-- `1[y>0]` as the model writes it, at `ℝ` -/
theorem ind_pos (y : ℝ) (h : 0 < y) : ind cast y = 1 := by unfold ind cast; simp [h]
theorem ind_nonpos (y : ℝ) (h : y ≤ 0) : ind cast y = 0 := by
  unfold ind cast; simp [not_lt.mpr h]

theorem tail_bookkeeping (G : ℝ → ℝ) (lo hi M : ℝ) (hlh : lo ≤ hi) (hM1 : -M ≤ lo) (hM2 : hi ≤ M) (hM : 0 ≤ M)
    (hG0 : ∀ y, y ≤ lo → G y = 0) (hG1 : ∀ y, hi < y → G y = 1)
    (hint : IntervalIntegrable (fun y => ind cast y - G y) volume lo hi) :
    ∫ y in (-M)..M, (ind cast y - G y)
      = tail cast lo hi + ∫ y in lo..hi, (ind cast y - G y) := by
  -- left part: ∫_{-M}^{lo} = max 0 lo
  have hleft : IntervalIntegrable (fun y => ind cast y - G y) volume (-M) lo ∧
      ∫ y in (-M)..lo, (ind cast y - G y) = (if (0:ℝ) < lo then lo else 0) := by
    by_cases h0 : 0 < lo
    · have A := const_on_Ioc (fun y => ind cast y - G y) (-M) 0 0 (by linarith) (fun y hy => by
        rw [ind_nonpos y hy.2, hG0 y (by linarith [hy.2])]; ring)
      have B := const_on_Ioc (fun y => ind cast y - G y) 0 lo 1 h0.le (fun y hy => by
        rw [ind_pos y hy.1, hG0 y hy.2]; ring)
      refine ⟨A.1.trans B.1, ?_⟩
      rw [← integral_add_adjacent_intervals A.1 B.1, A.2, B.2, if_pos h0]; ring
    · have A := const_on_Ioc (fun y => ind cast y - G y) (-M) lo 0 hM1 (fun y hy => by
        rw [ind_nonpos y (by linarith [hy.2, not_lt.mp h0]), hG0 y hy.2]; ring)
      refine ⟨A.1, ?_⟩
      rw [A.2, if_neg h0]; ring
  -- right part: ∫_{hi}^{M} = min 0 hi
  have hright : IntervalIntegrable (fun y => ind cast y - G y) volume hi M ∧
      ∫ y in hi..M, (ind cast y - G y) = (if hi < (0:ℝ) then hi else 0) := by
    by_cases h0 : hi < 0
    · have A := const_on_Ioc (fun y => ind cast y - G y) hi 0 (-1) h0.le (fun y hy => by
        rw [ind_nonpos y hy.2, hG1 y hy.1]; ring)
      have B := const_on_Ioc (fun y => ind cast y - G y) 0 M 0 hM (fun y hy => by
        rw [ind_pos y hy.1, hG1 y (by linarith [hy.1])]; ring)
      refine ⟨A.1.trans B.1, ?_⟩
      rw [← integral_add_adjacent_intervals A.1 B.1, A.2, B.2, if_pos h0]; ring
    · have A := const_on_Ioc (fun y => ind cast y - G y) hi M 0 hM2 (fun y hy => by
        rw [ind_pos y (by linarith [hy.1, not_lt.mp h0]), hG1 y hy.1]; ring)
      refine ⟨A.1, ?_⟩
      rw [A.2, if_neg h0]; ring
  rw [← integral_add_adjacent_intervals (hleft.1.trans hint) hright.1,
    ← integral_add_adjacent_intervals hleft.1 hint, hleft.2, hright.2]
  unfold tail cast
  simp only [Nat.cast_zero]
  ring

end Opda.TrapLoop
