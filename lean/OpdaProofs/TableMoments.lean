import OpdaProofs.TableSpec
import OpdaProofs.NoisyReal
/-!
C19, last clause, in exact arithmetic and for **every** location and scale: the partial normal moment computed from an
entry's pieces, `Σ_pieces ∫ p_i dN(μ, σ²)`, is within `1.02 · max_error` of the true partial moment `∫₀¹ x^k dN(μ, σ²)`.
Combines the kernel-checked uniform bound of every piece (`PieceBound`) with the integral estimate `chain_error_le`
(`OpdaProofs/NoisyReal.lean`); that the code's piecewise recursion returns exactly `Σ_pieces ∫ p_i dN` is
`Opda.Props.C06.frac_moment_model`.
-/
namespace Opda.Table
open Opda.Gen Opda.PolyCheck Opda.Noisy

/-- the pieces of an entry: consecutive knot pairs with their (real) coefficient vectors -/
noncomputable def piecesOf : List ℚ → List (List ℚ) → List ((ℝ × ℝ) × List ℝ)
  | lo :: hi :: ks, cs :: css => (((lo : ℝ), (hi : ℝ)), cs.map (fun q : ℚ => (q : ℝ))) :: piecesOf (hi :: ks) css
  | _, _ => []

theorem polyEval_map_cast (cs : List ℚ) (i : ℕ) (x : ℝ) :
    polyEval (cs.map (fun q : ℚ => (q : ℝ))) i x = x ^ i * evalQ cs x := by
  induction cs generalizing i with
  | nil => simp [polyEval, evalQ]
  | cons c rest ih =>
    simp only [List.map_cons, polyEval, evalQ, ih (i + 1)]
    ring

theorem polyEval_eq_evalQ (cs : List ℚ) (x : ℝ) :
    polyEval (cs.map (fun q : ℚ => (q : ℝ))) 0 x = evalQ cs x := by
  rw [polyEval_map_cast]; simp

/-- every piece of `piecesOf` sits at some index of the knot / coefficient lists -/
theorem mem_piecesOf : ∀ (knots : List ℚ) (coeffs : List (List ℚ)) (pc : (ℝ × ℝ) × List ℝ),
    pc ∈ piecesOf knots coeffs →
      ∃ (i : ℕ) (lo hi : ℚ) (cs : List ℚ), knots[i]? = some lo ∧ knots[i + 1]? = some hi ∧ coeffs[i]? = some cs ∧
        pc = (((lo : ℝ), (hi : ℝ)), cs.map (fun q : ℚ => (q : ℝ)))
  | [], _, pc, h => by simp [piecesOf] at h
  | [_], _, pc, h => by simp [piecesOf] at h
  | _ :: _ :: _, [], pc, h => by simp [piecesOf] at h
  | lo :: hi :: ks, cs :: css, pc, h => by
    simp only [piecesOf, List.mem_cons] at h
    rcases h with rfl | h
    · exact ⟨0, lo, hi, cs, by simp, by simp, by simp, rfl⟩
    · obtain ⟨i, lo', hi', cs', h1, h2, h3, h4⟩ := mem_piecesOf (hi :: ks) css pc h
      exact ⟨i + 1, lo', hi', cs', by simpa using h1, by simpa using h2, by simpa using h3, h4⟩

/-- strictly increasing knots from `x0` to `x1`, one coefficient vector per piece, give a chain -/
theorem chain_piecesOf : ∀ (knots : List ℚ) (coeffs : List (List ℚ)) (x0 x1 : ℚ),
    strictlyIncreasing knots = true → knots.head? = some x0 → knots.getLast? = some x1 →
    coeffs.length + 1 = knots.length → ChainFrom (x0 : ℝ) (piecesOf knots coeffs) (x1 : ℝ)
  | [], _, _, _, _, h, _, _ => by simp at h
  | [u], coeffs, x0, x1, _, h0, h1, hl => by
    simp only [List.head?_cons, Option.some.injEq] at h0
    simp only [List.getLast?_singleton, Option.some.injEq] at h1
    subst h0; subst h1
    have : coeffs = [] := by cases coeffs with
      | nil => rfl
      | cons c cs => simp at hl
    subst this
    simpa [piecesOf] using ChainFrom.nil (u : ℝ)
  | u :: v :: ks, [], _, _, _, _, _, hl => by simp at hl
  | u :: v :: ks, cs :: css, x0, x1, hs, h0, h1, hl => by
    simp only [List.head?_cons, Option.some.injEq] at h0
    subst h0
    simp only [strictlyIncreasing, Bool.and_eq_true, decide_eq_true_eq] at hs
    have h1' : (v :: ks).getLast? = some x1 := by rw [List.getLast?_cons_cons] at h1; exact h1
    have hl' : css.length + 1 = (v :: ks).length := by simpa using hl
    have := chain_piecesOf (v :: ks) css v x1 hs.2 rfl h1' hl'
    simp only [piecesOf]
    exact ChainFrom.cons (u : ℝ) (v : ℝ) (x1 : ℝ) _ _ (by exact_mod_cast hs.1.le) this

theorem continuous_halfpow (m2 : ℕ) : Continuous fun x : ℝ => x ^ ((m2 : ℝ) / 2) :=
  Real.continuous_rpow_const (by positivity)

/-- **C19, partial moments.**  For a structurally well-formed table all of whose pieces carry the uniform bound:
for every row (exponent `m2/2`), every entry, **every location `μ` and every scale `σ > 0`**, the piecewise moment of the
entry is within `1.02 · max_error` of `∫₀¹ x^(m2/2) dN(μ, σ²)`. -/
theorem moments_of_certs (T : List (Nat × List EntryQ)) (hs : structOK T = true)
    (hb : ∀ t ∈ allPieces T, PieceBound T t.1 t.2.1 t.2.2)
    (row : Nat × List EntryQ) (hrow : row ∈ T) (e : EntryQ) (he : e ∈ row.2) (μ σ : ℝ) (hσ : 0 < σ) :
    |(∫ x in (0:ℝ)..1, x ^ ((row.1 : ℝ) / 2) * dens μ σ x) - piecesSum μ σ (piecesOf e.knots e.coeffs)|
      ≤ ((slack * e.maxError : ℚ) : ℝ) := by
  obtain ⟨ri, hri⟩ := List.getElem?_of_mem hrow
  obtain ⟨ei, hei⟩ := List.getElem?_of_mem he
  have hrowOK : rowOK row = true := by
    unfold structOK at hs; exact List.all_eq_true.mp hs row hrow
  have heOK : entryOK e = true := by
    unfold rowOK at hrowOK
    simp only [Bool.and_eq_true] at hrowOK
    exact List.all_eq_true.mp hrowOK.1.1 e he
  unfold entryOK at heOK
  simp only [Bool.and_eq_true, decide_eq_true_eq] at heOK
  obtain ⟨⟨⟨⟨hinc, hhead⟩, hlast⟩, hlen⟩, hme⟩ := heOK
  have hchain := chain_piecesOf e.knots e.coeffs 0 1 hinc hhead hlast hlen
  have hε0 : (0:ℝ) ≤ ((slack * e.maxError : ℚ) : ℝ) := by
    have : (0:ℚ) ≤ slack * e.maxError := mul_nonneg (by unfold slack; norm_num) hme.le
    exact_mod_cast this
  have := chain_error_le μ σ _ hσ hε0 (fun x => x ^ ((row.1 : ℝ) / 2)) (continuous_halfpow row.1) ((0:ℚ):ℝ) ((1:ℚ):ℝ)
    (piecesOf e.knots e.coeffs) hchain ?_
  · simpa using this
  · intro pc hpc x hx
    obtain ⟨pi, lo, hi, cs, hlo, hhi, hcs, rfl⟩ := mem_piecesOf e.knots e.coeffs pc hpc
    have hpi : pi < e.coeffs.length := (List.getElem?_eq_some_iff.mp hcs).1
    have hmem := mem_allPieces T ri ei pi row e hri hei hpi
    obtain ⟨m2, cs', klo, khi, me, hpiece, hbound⟩ := hb (ri, ei, pi) hmem
    unfold piece? at hpiece
    rw [hri] at hpiece; simp only [] at hpiece
    rw [hei] at hpiece; simp only [] at hpiece
    rw [hcs, hlo, hhi] at hpiece
    simp only [Option.some.injEq, Prod.mk.injEq] at hpiece
    obtain ⟨rfl, rfl, rfl, rfl, rfl⟩ := hpiece
    rw [polyEval_eq_evalQ, abs_sub_comm]
    exact hbound x hx.1 hx.2

end Opda.Table
