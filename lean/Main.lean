import OpdaModel.Drv.All
/-!
Model driver: one request per line `<case-id> <op> <args…>`, one reply per line
`<case-id> ok <values…>` or `<case-id> reject`.  Unknown or malformed requests are rejected, never
defaulted.
-/
open Opda

partial def loop (h : IO.FS.Stream) (out : IO.FS.Stream) : IO Unit := do
  let line ← h.getLine
  if line.isEmpty then return ()
  match (line.trimAscii.toString.splitOn " ").filter (· ≠ "") with
  | id :: op :: args =>
    match Drv.dispatch op args with
    | some r => out.putStrLn s!"{id} ok {r}"
    | none => out.putStrLn s!"{id} reject"
  | _ => out.putStrLn "? reject"
  loop h out

def main : IO Unit := do
  let out ← IO.getStdout
  loop (← IO.getStdin) out
  out.flush
