import OpdaGen.Table
