"""C16 correspondence: binomial_confidence_interval, dkw_epsilon, normal_pdf/cdf/ppf, sort_by_first.

(a) Clopper-Pearson: the implementation's whole table (k = 0..n) is handed, as exact rationals, to the
    verified checker `cp.check` (Lean, exact Q).  `cp.check = 1` *proves* coverage >= conf - 1e-12 for
    every true proportion p (theorem Opda.Props.C16.cp_check_sound); the other clauses (lo(0)=0, hi(n)=1,
    0<=lo<=hi<=1, monotone in k, symmetry) are decided directly on the outputs.  If the checker says 0,
    the exact coverage (`cp.coverage`) is evaluated at every end point, end point +-1e-9 and a grid,
    looking for a p with coverage < conf - 1e-12 (the replay).
(b) dkw_epsilon against the Lean Float model and the defining identity (mpmath), +inf at 1, monotone.
(c) normal_pdf/cdf/ppf against the Lean Float model (Opda.SpecialFn) and against mpmath (the Spec oracle)
    at exactly the property's tolerances.
(d) sort_by_first against the Lean model (stable merge sort of indices): first array sorted, rows a
    permutation of the input rows, ValueError for unequal shapes, () for no arguments.
"""
import math
import warnings
from fractions import Fraction as Fr

import numpy as np

import common as C

INF = float("inf")
GRID = 10 ** 40
SLACK = Fr(1, 10 ** 12)          # property: coverage >= conf - 1e-12
DELTA = (1, 2 * 10 ** 12)        # delta = slack / 2 for the two tails
SYM_TOL = 1e-12
SYM_FINDING = "C16-cp-symmetry-upper-tail-cancellation-at-confidence-near-1"


def sym_finding_key(conf):
    """the upper end point is computed as ppf(1 - (1 - confidence)/2): for 1 - confidence < 1e-5 the rounding of that
    argument (5.5e-17 absolute) is a relative error > 1e-11 of the tail mass, which moves the end point by more than
    1e-12; the lower end point ppf((1 - confidence)/2) has no such cancellation, so the mirror symmetry breaks."""
    return SYM_FINDING if (1.0 - conf) < 1e-5 else None


def g(tok):
    """driver grid integer -> Fraction"""
    return Fr(int(tok), GRID)


_KEYED = {}


def violate(rep, **kw):
    """rep.violate, but a violation carrying a finding_key is stored at most 3 times per key (the rest are only counted),
    so that repeats of a recorded finding never crowd a new, un-keyed violation out of the report's 25 slots."""
    key = kw.get("finding_key")
    if key is not None:
        _KEYED[key] = _KEYED.get(key, 0) + 1
        if _KEYED[key] > 3:
            rep.count("repeats_of_" + key)
            return
    rep.violate(**kw)


# ------------------------------------------------------------------ (a) Clopper-Pearson

QUICK_NS = [1, 2, 3, 4, 5, 7, 10, 11, 13, 17, 20, 23, 29, 31, 37, 41, 50, 64, 73, 100, 101, 127, 150, 199, 200]
CONFS = [0.0, 1e-12, 0.5, 0.9, 0.95, 0.99, 1 - 1e-12, 1.0]


def cp_cases(rng, tier):
    ns = list(QUICK_NS)
    if tier == "quick":
        ns += [rng.randint(6, 160) for _ in range(3)]
    else:
        ns = list(range(1, 201)) + [211, 256, 307, 400, 499, 500] + [rng.randint(201, 500) for _ in range(6)]
    cases = []
    for n in ns:
        confs = list(CONFS) + [rng.random(), 1 - 10 ** rng.uniform(-10, -1), 10 ** rng.uniform(-10, -1)]
        if tier == "quick" and n > 100:
            confs = [0.0, 0.5, 0.95, 1 - 1e-12, 1.0, rng.random()]
        for conf in confs:
            cases.append((n, float(conf)))
    return cases


def cp_search_failing_p(drv, n, conf, lo, hi, rng):
    """exact coverage at end points, end points +-1e-9, a grid: first p with coverage < conf - 1e-12"""
    cands = set()
    for e in list(lo) + list(hi):
        for d in (0.0, 1e-9, -1e-9, 1e-12, -1e-12):
            p = float(e) + d
            if 0.0 <= p <= 1.0:
                cands.add(p)
        for p in (np.nextafter(e, 2.0), np.nextafter(e, -1.0)):
            if 0.0 <= p <= 1.0:
                cands.add(float(p))
    cands.update(i / 64 for i in range(65))
    cands.update(rng.random() for _ in range(32))
    cands = sorted(cands)
    if len(cands) > 1500:
        rng.shuffle(cands)
        cands = cands[:1500]
    r = drv.run([("cp.coverage", f"{n} {C.flist(lo)} {C.flist(hi)} {C.flist(cands)}")])[0]
    if r is None:
        return None
    worst = None
    for p, tok in zip(cands, r):
        cov = g(tok)
        # floor to the grid: add one grid unit before comparing so that we never under-report coverage
        if cov + Fr(1, GRID) < Fr(conf) - SLACK:
            if worst is None or cov < worst[1]:
                worst = (p, cov)
    return worst


def run_cp(rep, rng, drv, tier, util):
    cases = cp_cases(rng, tier)
    reqs, meta = [], []
    for n, conf in cases:
        ks = np.arange(n + 1)
        call = f"binomial_confidence_interval(np.arange({n + 1}), {n}, {conf!r})"
        try:
            lo, hi = util.binomial_confidence_interval(ks, n, conf)
        except Exception as e:
            rep.violate(what="binomial_confidence_interval raised on valid arguments", error=repr(e),
                        input=dict(n=n, confidence=conf), call=call)
            continue
        lo, hi = np.asarray(lo, dtype=float), np.asarray(hi, dtype=float)
        rep.count("cp_n=%s" % (n if n <= 5 else "6-50" if n <= 50 else "51-200" if n <= 200 else ">200"))
        rep.count("cp_conf=%s" % (conf if conf in CONFS else "random"))
        inp = dict(n=n, confidence=conf, confidence_hex=C.fhex(conf))
        if lo.shape != (n + 1,) or hi.shape != (n + 1,):
            rep.violate(what="output shape differs from the broadcast input shape", input=inp, call=call,
                        observed=[list(lo.shape), list(hi.shape)])
            continue
        if np.any(np.isnan(lo)) or np.any(np.isnan(hi)):
            rep.violate(what="nan end point", input=inp, call=call)
            continue
        # clauses decided directly on the outputs
        rep.case(("cp_direct", n, conf))
        if lo[0] != 0.0:
            rep.violate(what="lo(k=0) is not 0", input=dict(inp, k=0), expected=0.0, observed=float(lo[0]), call=call)
        if hi[n] != 1.0:
            rep.violate(what="hi(k=n) is not 1", input=dict(inp, k=n), expected=1.0, observed=float(hi[n]), call=call)
        bad = np.nonzero(~((0.0 <= lo) & (lo <= hi) & (hi <= 1.0)))[0]
        if len(bad):
            k = int(bad[0])
            rep.violate(what="0 <= lo <= hi <= 1 fails", input=dict(inp, k=k), observed=[float(lo[k]), float(hi[k])], call=call)
        for name, arr in (("lo", lo), ("hi", hi)):
            d = np.nonzero(np.diff(arr) < 0)[0]
            if len(d):
                k = int(d[0])
                rep.violate(what=f"{name} is not non-decreasing in k", input=dict(inp, k=k),
                            observed=[float(arr[k]), float(arr[k + 1])], call=call)
        sym = np.abs(lo - (1.0 - hi[::-1]))
        k = int(np.argmax(sym))
        if sym[k] > SYM_TOL:
            key = sym_finding_key(conf)
            violate(rep, what="symmetry lo(k,n) = 1 - hi(n-k,n) fails by more than 1e-12", input=dict(inp, k=k),
                        expected=float(1.0 - hi[n - k]), observed=float(lo[k]), difference=float(sym[k]), call=call,
                        **({"finding_key": key} if key else {}))
        reqs.append(("cp.check", f"{n} {C.fhex(conf)} {DELTA[0]} {DELTA[1]} {C.flist(lo)} {C.flist(hi)}"))
        meta.append((n, conf, lo, hi, inp, call))
    replies = drv.run(reqs)
    for (n, conf, lo, hi, inp, call), r in zip(meta, replies):
        if r is None:
            rep.disagree(op="cp.check", note="model rejected a table", input=inp)
            continue
        ok, worst, idx = r[0] == "1", g(r[1]), int(r[2])
        rep.case(("cp_check", n, conf), sample=dict(op="cp.check", n=n, confidence=conf, proved_for_all_p=ok,
                                                     worst_tail_excess_over_alpha_half=float(worst), at_k=idx))
        rep.count("cp_tail_inequalities", 2 * n)
        if ok:
            continue
        # sufficient condition failed: look for a true proportion at which the exact coverage is too small
        found = cp_search_failing_p(drv, n, conf, lo, hi, rng)
        if found is not None:
            p, cov = found
            rep.violate(what="exact binomial coverage of the interval table is below confidence - 1e-12",
                        input=dict(inp, p=p, p_hex=C.fhex(p)), expected=f">= {conf!r} - 1e-12", observed=float(cov),
                        call=call + f"  # then sum the Binomial({n}, p) pmf over k with lo[k] <= p <= hi[k]")
        else:
            rep.disagree(op="cp.check", note="the verified sufficient condition fails (flags: in01 lo, in01 hi, mono lo, "
                         "mono hi, lo0, hin = %s) but no p with too small a coverage was found" % " ".join(r[3:]),
                         input=inp, worst_excess=float(worst), at_k=idx)

    # broadcasting and scalars
    for _ in range(6 if tier == "quick" else 40):
        n1, n2 = rng.randint(1, 30), rng.randint(1, 30)
        k1, k2 = rng.randint(0, min(n1, n2)), rng.randint(0, min(n1, n2))
        c1, c2 = rng.random(), rng.choice([0.0, 1.0, 0.5, rng.random()])
        ks = np.array([[k1], [k2]])
        ns = np.array([[n1, n2]])
        cs = np.array([c1, c2])
        lo, hi = util.binomial_confidence_interval(ks, ns, cs)
        rep.case(("cp_broadcast", k1, k2, n1, n2, c1, c2))
        if np.shape(lo) != (2, 2) or np.shape(hi) != (2, 2):
            rep.violate(what="broadcast shape is not (2,2)", input=dict(ks=ks, ns=ns, confidence=cs),
                        observed=[list(np.shape(lo)), list(np.shape(hi))], call="binomial_confidence_interval")
            continue
        for i, k in enumerate((k1, k2)):
            for j, n in enumerate((n1, n2)):
                slo, shi = util.binomial_confidence_interval(k, n, cs[j])
                if np.shape(slo) != () or np.shape(shi) != ():
                    rep.violate(what="scalar arguments do not give scalar results", input=dict(k=k, n=n, confidence=cs[j]),
                                call="binomial_confidence_interval")
                if float(slo) != float(lo[i, j]) or float(shi) != float(hi[i, j]):
                    rep.violate(what="broadcast result differs from the scalar call", input=dict(k=k, n=n, confidence=cs[j]),
                                expected=[float(slo), float(shi)], observed=[float(lo[i, j]), float(hi[i, j])],
                                call="binomial_confidence_interval")


# ------------------------------------------------------------------ (b) dkw_epsilon

def ulps(a, b):
    if a == b:
        return 0
    if a != a or b != b or abs(a) == INF or abs(b) == INF:
        return 1 << 62
    ia = int(C.fhex(a), 16)
    ib = int(C.fhex(b), 16)
    return abs(ia - ib)


def run_dkw(rep, rng, drv, tier, util):
    import mpmath as mp
    mp.mp.dps = 50
    ns = [1, 2, 3, 5, 10, 50, 100, 1000, 10 ** 6, 2.5, 0.5, 1e-3, 1e12] + [rng.randint(1, 5000) for _ in range(20)]
    cs = [0.0, 1e-12, 0.1, 0.5, 0.9, 0.95, 0.99, 1 - 1e-9, 1 - 1e-12, 1.0, np.nextafter(1.0, 0.0)] + \
         [rng.random() for _ in range(10)] + [1 - 10 ** rng.uniform(-15, -1) for _ in range(5)]
    pairs = [(float(n), float(c)) for n in ns for c in cs]
    if tier == "quick":
        rng.shuffle(pairs)
        pairs = pairs[:400]
    flat = [v for p in pairs for v in p]
    r = drv.run([("utils.dkw", C.flist(flat))])[0]
    if r is None:
        rep.disagree(op="utils.dkw", note="model rejected")
        return
    for (n, c), tok in zip(pairs, r):
        call = f"dkw_epsilon({n!r}, {c!r})"
        inp = dict(n=n, confidence=c)
        try:
            e = float(util.dkw_epsilon(n if n != int(n) else int(n), c))
        except Exception as ex:
            rep.violate(what="dkw_epsilon raised on valid arguments", input=inp, error=repr(ex), call=call)
            continue
        rep.case(("dkw", n, c), sample=dict(op="dkw_epsilon", n=n, confidence=c, impl=e))
        rep.count("dkw_conf=" + ("1" if c == 1.0 else "0" if c == 0.0 else "interior"))
        if tok == "ValueError":
            rep.disagree(op="utils.dkw", note="model raises, implementation returns", input=inp)
            continue
        m = C.unhex(tok)
        if c == 1.0:
            if e != INF:
                rep.violate(what="dkw_epsilon(n, 1) is not +inf", input=inp, expected="inf", observed=e, call=call)
            continue
        if not (e >= 0.0) or e == INF:
            rep.violate(what="dkw_epsilon is not a finite non-negative number for confidence < 1", input=inp, observed=e, call=call)
            continue
        # the defining identity, evaluated by the oracle at the returned float
        lhs = 2 * mp.exp(-2 * mp.mpf(n) * mp.mpf(e) ** 2)
        rhs = 1 - mp.mpf(c)
        if abs(lhs - rhs) > mp.mpf("1e-12") * rhs:
            rep.violate(what="2*exp(-2*n*eps^2) differs from 1 - confidence by more than 1e-12 (relative)",
                        input=inp, expected=float(rhs), observed=float(lhs), call=call)
        elif ulps(e, m) > 8:
            rep.disagree(op="utils.dkw", note="Float model and implementation differ by more than 8 ulps", input=inp,
                         model=m, impl=e)
    # monotone: decreasing in n, increasing in confidence (grid)
    grid_c = sorted(set([0.0, 1e-12, 0.25, 0.5, 0.75, 0.9, 0.99, 1 - 1e-6, 1 - 1e-12] + [rng.random() for _ in range(6)]))
    grid_n = sorted(set([1, 2, 3, 7, 10, 100, 1000] + [rng.randint(1, 10000) for _ in range(6)]))
    for n in grid_n:
        vals = [float(util.dkw_epsilon(n, c)) for c in grid_c] + [float(util.dkw_epsilon(n, 1.0))]
        rep.case(("dkw_mono_c", n))
        for i in range(len(vals) - 1):
            if not vals[i] <= vals[i + 1]:
                rep.violate(what="dkw_epsilon is not non-decreasing in confidence", input=dict(n=n, c1=grid_c[i], c2=(grid_c + [1.0])[i + 1]),
                            observed=[vals[i], vals[i + 1]], call="dkw_epsilon")
    for c in grid_c:
        vals = [float(util.dkw_epsilon(n, c)) for n in grid_n]
        rep.case(("dkw_mono_n", c))
        for i in range(len(vals) - 1):
            if not vals[i] >= vals[i + 1]:
                rep.violate(what="dkw_epsilon is not non-increasing in n", input=dict(confidence=c, n1=grid_n[i], n2=grid_n[i + 1]),
                            observed=[vals[i], vals[i + 1]], call="dkw_epsilon")
    # invalid arguments: exception class
    bad = [(0, 0.5), (-1, 0.5), (-0.5, 0.5), (3, -1e-9), (3, 1 + 1e-9), (3, 2.0), (3, -1.0)]
    r = drv.run([("utils.dkw", C.flist([v for p in bad for v in p]))])[0]
    for (n, c), tok in zip(bad, r or []):
        rep.case(("dkw_invalid", n, c))
        try:
            v = util.dkw_epsilon(n, c)
            rep.violate(what="dkw_epsilon accepts an invalid argument", input=dict(n=n, confidence=c), observed=float(v),
                        expected="ValueError", call=f"dkw_epsilon({n!r}, {c!r})")
        except ValueError:
            if tok != "ValueError":
                rep.disagree(op="utils.dkw", note="implementation raises ValueError, model returns", input=dict(n=n, confidence=c))
        except Exception as ex:
            rep.violate(what="dkw_epsilon raises the wrong exception class", input=dict(n=n, confidence=c), observed=repr(ex),
                        expected="ValueError", call=f"dkw_epsilon({n!r}, {c!r})")
    for args in (([1, 2], 0.5), (3, [0.5, 0.6])):
        rep.case(("dkw_nonscalar", repr(args)))
        try:
            util.dkw_epsilon(*args)
            rep.violate(what="dkw_epsilon accepts a non-scalar argument", input=dict(args=repr(args)), expected="ValueError",
                        call=f"dkw_epsilon{args!r}")
        except ValueError:
            pass
        except Exception as ex:
            rep.violate(what="dkw_epsilon raises the wrong exception class", input=dict(args=repr(args)), observed=repr(ex),
                        expected="ValueError", call=f"dkw_epsilon{args!r}")


# ------------------------------------------------------------------ (c) normal helpers

PDF_FINDING = "C16-normal-pdf-relative-1e-15-argument-rounding"


def pdf_finding_key(x, rel=None):
    """exp(-0.5*x*x) inherits the rounding of its argument: relative error ~ (x*x/2) * 2^-53, which exceeds
    1e-15 only for |x| > 3 (at |x| <= 3 the bound is 4.5 * 1.1e-16 + 3 ulps < 1e-15).
    The key is given only while the observed relative error stays within that mechanism's bound
    (x*x/2 + 4) * 2^-52; anything larger is a different defect and stays un-keyed."""
    if abs(x) <= 3.0:
        return None
    if rel is not None and float(rel) > (x * x / 2 + 4) * 2.0 ** -52:
        return None
    return PDF_FINDING


def run_normal(rep, rng, drv, tier, util):
    import mpmath as mp
    mp.mp.dps = 60
    k = 1 if tier == "quick" else 8
    # ---- pdf / cdf points
    xs = [0.0, -0.0, 1.0, -1.0, 0.5, 3.0, -3.0, 5.0, 8.0, -8.3, 10.0, 20.0, 30.0, 37.0, -37.0, 1e-8, 1e-300, 5e-324,
          36.99999, 12.5, -6.0, 6.0, 2.0 ** -30]
    xs += [rng.uniform(-37, 37) for _ in range(300 * k)] + [rng.gauss(0, 1) for _ in range(200 * k)]
    xs += [rng.uniform(-3, 3) for _ in range(200 * k)] + [rng.choice([-1, 1]) * 10 ** rng.uniform(-12, 1.5) for _ in range(100 * k)]
    xs = [float(x) for x in xs if abs(x) <= 37.0]
    xs_cdf = xs + [38.0, -38.5, 40.0, -40.0, 100.0, -100.0, 1e10, -1e300, INF, -INF]
    r_pdf, r_cdf = drv.run([("utils.pdf", C.flist(xs)), ("utils.cdf", C.flist(xs_cdf))])
    impl_pdf = np.asarray(util.normal_pdf(np.array(xs)), dtype=float)
    impl_cdf = np.asarray(util.normal_cdf(np.array(xs_cdf)), dtype=float)
    if impl_pdf.shape != (len(xs),) or impl_cdf.shape != (len(xs_cdf),):
        rep.violate(what="normal_pdf/normal_cdf output shape differs from the input shape", input=dict(n=len(xs)),
                    call="normal_pdf / normal_cdf")
        return
    for x, v, tok in zip(xs, impl_pdf, r_pdf):
        v = float(v)
        m = C.unhex(tok)
        t = mp.npdf(mp.mpf(x))
        rep.case(("pdf", x), sample=dict(op="normal_pdf", x=x, impl=v, model=m, oracle=float(t)))
        rep.count("pdf_|x|" + ("<=3" if abs(x) <= 3 else "<=10" if abs(x) <= 10 else "<=37"))
        rel = abs(mp.mpf(v) - t) / t
        if rel > mp.mpf("1e-15"):
            key = pdf_finding_key(x, rel)
            violate(rep, what="normal_pdf differs from the standard normal density by more than 1e-15 (relative)",
                        input=dict(x=x, x_hex=C.fhex(x)), expected=mp.nstr(t, 20), observed=v, relative_error=float(rel),
                        call=f"normal_pdf({x!r})", **({"finding_key": key} if key else {}))
        if m == 0.0 or abs(v - m) > 1e-15 * abs(m):
            if not (m == 0.0 and v == 0.0):
                rep.disagree(op="utils.pdf", note="Float model and implementation differ by more than 1e-15 relative",
                             input=dict(x=x), model=m, impl=v)
    for x, v, tok in zip(xs_cdf, impl_cdf, r_cdf):
        v = float(v)
        m = C.unhex(tok)
        t = mp.ncdf(mp.mpf(x)) if abs(x) <= 1e3 else mp.mpf(1 if x > 0 else 0)   # beyond 1e3 the true value is within 1e-200000 of 0/1
        rep.case(("cdf", x), sample=dict(op="normal_cdf", x=x, impl=v, model=m, oracle=float(t)))
        rep.count("cdf_points")
        if not abs(mp.mpf(v) - t) <= mp.mpf("1e-15"):
            rep.violate(what="normal_cdf differs from the standard normal distribution function by more than 1e-15",
                        input=dict(x=x, x_hex=C.fhex(x)), expected=mp.nstr(t, 20), observed=v, call=f"normal_cdf({x!r})")
        elif not abs(v - m) <= 1e-15:
            rep.disagree(op="utils.cdf", note="Float model and implementation differ by more than 1e-15", input=dict(x=x),
                         model=m, impl=v)
    # ---- ppf
    lo_q, hi_q = 1e-10, 1 - 1e-10
    qs = [0.0, 1.0, 0.5, lo_q, hi_q, 0.25, 0.75, 1e-9, 1 - 1e-9, 0.1, 0.9, 0.975, 0.025, 1e-5, 1 - 1e-5,
          float(np.nextafter(lo_q, 1)), float(np.nextafter(hi_q, 0)), float(np.nextafter(0.5, 1)), float(np.nextafter(0.5, 0))]
    qs += [rng.random() for _ in range(300 * k)] + [10 ** rng.uniform(-10, 0) for _ in range(100 * k)]
    qs += [1 - 10 ** rng.uniform(-10, 0) for _ in range(100 * k)]
    qs += [10 ** rng.uniform(-300, -10) for _ in range(20 * k)] + [float(np.nextafter(1.0, 0)), 5e-324, 1e-17, 1 - 1e-16]
    qs += [-1e-11, 1 + 1e-11, -1e-10, 1 + 1e-10, -0.0]       # inside the validation slack: clipped
    qs = [float(q) for q in qs]
    r_ppf = drv.run([("utils.ppf", C.flist(qs))])[0]
    with warnings.catch_warnings():
        warnings.simplefilter("ignore")
        impl = np.asarray(util.normal_ppf(np.array(qs)), dtype=float)
        back = np.asarray(util.normal_cdf(impl), dtype=float)
    if impl.shape != (len(qs),):
        rep.violate(what="normal_ppf output shape differs from the input shape", input=dict(n=len(qs)), call="normal_ppf")
        return
    for q, z, c, tok in zip(qs, impl, back, r_ppf):
        z, c = float(z), float(c)
        qc = min(max(q, 0.0), 1.0)
        call = f"normal_ppf({q!r})"
        if tok == "ValueError":
            rep.disagree(op="utils.ppf", note="model raises, implementation returns", input=dict(q=q))
            continue
        m = C.unhex(tok)
        rep.case(("ppf", q), sample=dict(op="normal_ppf", q=q, impl=z, model=m))
        if qc == 0.0 or qc == 1.0:
            rep.count("ppf_q_at_end")
            want = -INF if qc == 0.0 else INF
            if z != want:
                rep.violate(what=f"normal_ppf({qc}) is not {want}", input=dict(q=q), expected=repr(want), observed=z, call=call)
            if m != want:
                rep.disagree(op="utils.ppf", note="model end value", input=dict(q=q), model=m)
            continue
        if lo_q <= q <= hi_q:
            rep.count("ppf_q_in_stated_range")
            t = mp.sqrt(2) * mp.erfinv(2 * mp.mpf(q) - 1)
            if not abs(mp.mpf(z) - t) <= mp.mpf("1e-7"):
                rep.violate(what="normal_ppf differs from the standard normal quantile function by more than 1e-7",
                            input=dict(q=q, q_hex=C.fhex(q)), expected=mp.nstr(t, 20), observed=z, call=call)
            if not abs(c - q) <= 1e-15:
                rep.violate(what="normal_cdf(normal_ppf(q)) differs from q by more than 1e-15", input=dict(q=q, q_hex=C.fhex(q)),
                            expected=q, observed=c, call=f"normal_cdf(normal_ppf({q!r}))")
        else:
            rep.skip("ppf_q_outside_[1e-10,1-1e-10]_accuracy_not_stated")
        if abs(z) == INF or abs(m) == INF:
            if z != m:
                rep.disagree(op="utils.ppf", note="infinite value mismatch", input=dict(q=q), model=m, impl=z)
        elif not abs(z - m) <= 1e-13 * max(1.0, abs(m)):
            rep.disagree(op="utils.ppf", note="Float model and implementation differ by more than 1e-13*max(1,|z|)",
                         input=dict(q=q), model=m, impl=z)
    # ---- validation of qs
    bad = [-1e-9, 1 + 1e-9, -0.5, 2.0, -INF, INF]
    r_bad = drv.run([("utils.ppf", C.flist(bad))])[0]
    for q, tok in zip(bad, r_bad):
        rep.case(("ppf_invalid", q))
        try:
            v = util.normal_ppf(q)
            rep.violate(what="normal_ppf accepts q outside [0,1] (beyond the 1e-10 slack)", input=dict(q=q), observed=float(v),
                        expected="ValueError", call=f"normal_ppf({q!r})")
        except ValueError:
            if tok != "ValueError":
                rep.disagree(op="utils.ppf", note="implementation raises ValueError, model returns", input=dict(q=q))
        except Exception as ex:
            rep.violate(what="normal_ppf raises the wrong exception class", input=dict(q=q), observed=repr(ex),
                        expected="ValueError", call=f"normal_ppf({q!r})")
    # ---- shapes: scalar and 2-D
    for fn, arg in (("normal_pdf", 0.3), ("normal_cdf", -1.2), ("normal_ppf", 0.3)):
        f = getattr(util, fn)
        rep.case(("shape", fn))
        s = f(arg)
        a2 = f(np.full((2, 3), arg))
        if np.shape(s) != () or np.shape(a2) != (2, 3) or not np.all(np.asarray(a2) == float(s)):
            rep.violate(what=f"{fn} does not map scalars to scalars / arrays elementwise", input=dict(x=arg), call=fn)
        pts = [0.3, 0.9, 0.5, 0.01, 0.75, 0.2] if fn == "normal_ppf" else [0.3, -1.2, 0.0, 5.0, -7.5, 2.0]
        for sh, msg in C.shape_probe(f, pts)[:1]:
            rep.violate(what=f"{fn}: {msg}", input=dict(xs=pts), shape=list(sh), call=fn)


# ------------------------------------------------------------------ (d) sort_by_first

def ext_str(x):
    if x == INF:
        return "inf"
    if x == -INF:
        return "-inf"
    f = Fr(float(x))
    return f"{f.numerator}/{f.denominator}"


def run_sort(rep, rng, drv, tier, util):
    n_cases = 150 if tier == "quick" else 2000
    reqs, meta, dtypes = [], [], []
    for ci in range(n_cases):
        k = rng.choice([1, 1, 2, 2, 3, 4])
        n = rng.choice([0, 1, 2, 3, 5, 8, 13, 30])
        style = rng.choice(["distinct", "ties", "ties", "const", "ints", "inf", "dtype", "dtype"])
        dt = rng.choice(["uint8", "uint16", "uint32", "uint64", "int8", "int16", "int32", "int64", "float32"]) if style == "dtype" else "float64"
        def col(first):
            if style == "dtype" and first:
                # integral keys in a narrow / unsigned / single-precision dtype: differences of neighbours wrap around or overflow there
                lo_, hi_ = (0, 250) if dt.startswith("uint") else (-120, 120)
                return [float(rng.randint(lo_, hi_)) for _ in range(n)]
            if style == "distinct" or not first:
                return [rng.uniform(-5, 5) if not first or style != "ints" else float(rng.randint(-3, 3)) for _ in range(n)]
            if style == "ties":
                pool = [rng.uniform(-2, 2) for _ in range(max(1, n // 3))]
                return [rng.choice(pool) for _ in range(n)]
            if style == "const":
                return [1.5] * n
            if style == "ints":
                return [float(rng.randint(-3, 3)) for _ in range(n)]
            return [rng.choice([INF, -INF, 0.0, -0.0, 1.0, rng.uniform(-1, 1)]) for _ in range(n)]
        cols = [col(True)] + [col(False) for _ in range(k - 1)]
        reqs.append(("utils.sort", f"{k} " + " ".join(C.flist(c) for c in cols)))
        meta.append(cols)
        dtypes.append(dt)
        rep.count("sort_keys=" + style + ("(" + dt + ")" if style == "dtype" else ""))
        rep.count("sort_arrays=%d" % k)
    # unequal shapes / no arguments
    uneq = [[[1.0, 2.0], [1.0]], [[], [1.0]], [[3.0, 1.0, 2.0], [1.0, 2.0, 3.0], [1.0, 2.0]]]
    for cols in uneq:
        reqs.append(("utils.sort", f"{len(cols)} " + " ".join(C.flist(c) for c in cols)))
        meta.append(cols)
    reqs.append(("utils.sort", "0"))
    meta.append([])
    replies = drv.run(reqs)
    dtypes += ["float64"] * (len(meta) - len(dtypes))
    for cols, r, dt in zip(meta, replies, dtypes):
        inp = dict(arrays=cols, dtype_of_first=dt)
        call = "sort_by_first(" + ", ".join("np.array(%r%s)" % (c, ", dtype=%r" % dt if (i == 0 and dt != "float64") else "") for i, c in enumerate(cols)) + ")"
        rep.case(("sort", repr(cols)), sample=dict(op="sort_by_first", arrays=cols) if len(cols) and len(cols[0]) < 6 else None)
        if r is None:
            rep.disagree(op="utils.sort", note="model rejected", input=inp)
            continue
        try:
            out = util.sort_by_first(*[np.array(c, dtype=(dt if i == 0 else float)) for i, c in enumerate(cols)])
            raised = None
        except ValueError:
            raised = "ValueError"
        except Exception as ex:
            rep.violate(what="sort_by_first raises an unexpected exception class", input=inp, observed=repr(ex), call=call)
            continue
        unequal = any(len(c) != len(cols[0]) for c in cols) if cols else False
        if unequal:
            if raised != "ValueError":
                rep.violate(what="sort_by_first accepts arrays of unequal shapes", input=inp, expected="ValueError", call=call)
            if r[0] != "ValueError":
                rep.disagree(op="utils.sort", note="model does not raise on unequal shapes", input=inp)
            continue
        if raised:
            rep.violate(what="sort_by_first raises on equal-shape arrays", input=inp, observed=raised, call=call)
            continue
        if r[0] == "ValueError":
            rep.disagree(op="utils.sort", note="model raises on equal shapes", input=inp)
            continue
        if not cols:
            if out != ():
                rep.violate(what="sort_by_first() is not the empty tuple", input=inp, observed=repr(out), call=call)
            if r != ["0"]:
                rep.disagree(op="utils.sort", note="model: no arguments", input=inp)
            continue
        # parse the model's columns
        it = iter(r)
        kk = int(next(it))
        mcols = []
        for _ in range(kk):
            ln = int(next(it))
            mcols.append([next(it) for _ in range(ln)])
        if not isinstance(out, tuple) or len(out) != len(cols) or any(np.shape(o) != (len(cols[0]),) for o in out):
            rep.violate(what="sort_by_first does not return one array per argument with the input shape", input=inp, call=call)
            continue
        first = [float(v) for v in out[0]]
        if any(first[i] > first[i + 1] for i in range(len(first) - 1)):
            rep.violate(what="the first returned array is not sorted", input=inp, observed=first, call=call)
        rows_in = sorted(zip(*[[ext_str(v) for v in c] for c in cols]))
        rows_out = sorted(zip(*[[ext_str(float(v)) for v in o] for o in out]))
        if rows_in != rows_out:
            rep.violate(what="the returned arrays are not the inputs rearranged by one common permutation", input=inp,
                        observed=[[float(v) for v in o] for o in out], call=call)
        # model: first column exactly; all columns when the keys are distinct (the sorting permutation is then unique)
        if [ext_str(v) for v in first] != mcols[0]:
            rep.disagree(op="utils.sort", note="sorted first array differs from the model's", input=inp, model=mcols[0], impl=first)
        if len(set(ext_str(v) for v in cols[0])) == len(cols[0]):
            if [[ext_str(float(v)) for v in o] for o in out] != mcols:
                rep.disagree(op="utils.sort", note="distinct keys: arrays differ from the model's", input=inp)
        elif sorted(zip(*mcols)) != rows_in:
            rep.disagree(op="utils.sort", note="model rows are not a permutation of the input rows", input=inp)
    rep.skip("sort_by_first_on_0d_or_2d_arrays('sorts the first' is only meaningful for 1-D arrays)", 0)


def run(seed, tier, replay=None):
    _KEYED.clear()
    from opda import utils as util
    # a replay regenerates the run it came from (same seed, same tier), so that the recorded input recurs
    if replay is not None:
        seed, tier = int(replay.get("seed", seed)), replay.get("tier", tier)
    rep = C.Report("C16", seed, tier)
    rng = C.rng_for("C16", seed)
    drv = C.Driver()
    run_cp(rep, rng, drv, tier, util)
    run_dkw(rep, rng, drv, tier, util)
    run_normal(rep, rng, drv, tier, util)
    run_sort(rep, rng, drv, tier, util)
    return rep.result(
        rule="(a) whole Clopper-Pearson tables (k=0..n) for a structured set of n (1,2,3, primes, 100, 200; thorough: all "
             "n<=200 and samples to 500) x confidences {0,1e-12,.5,.9,.95,.99,1-1e-12,1,random}: each table is one case "
             "for the verified checker (2n exact tail inequalities, all p at once) and one for the direct clauses; "
             "(b) dkw_epsilon on an (n, confidence) grid incl. 0, 1-1e-12, 1 and invalid arguments; (c) normal_pdf/cdf on "
             "structured+random points in [-37,37] (cdf also beyond and at +-inf), normal_ppf on [0,1] incl. the ends, the "
             "stated range ends and the validation slack, each point checked against mpmath at the property's tolerance "
             "and against the Lean Float model; (d) sort_by_first on random tuples of 1-4 equal-length arrays with ties, "
             "constants, infinities, integral keys in uint8..uint64 / int8..int64 / float32, empty and unequal shapes. distinct = distinct (function, input) pairs by hash.",
        extra=dict(driver_lines=drv.lines))


if __name__ == "__main__":
    C.main(run)
