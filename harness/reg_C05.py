REG = dict(
    trusted_base=[
        "IEEE-754 rounding inside numpy is not modelled: the theorems are about exact real arithmetic (Real.rpow); the gap is "
        "measured on every run against the property's own 1e-9 / 1e-6 by the Spec oracle",
        "Spec oracle of the correspondence: mpmath (40 digits) power functions on the exact rational values of the float "
        "inputs, scipy.special.betainc / scipy.stats.beta.pdf at the exactly standardised argument, a fixed 64-point "
        "Gauss-Legendre rule for the integrals of the implementation's pdf",
        "the C library's pow behind Lean's Float.pow and numpy's power (compared to 1e-12 relative + 4x the spread of the "
        "model under +-8-ulp perturbation of every pow result)",
    ],
    assumptions=["a <= b finite with b-a in {0} u [1e-6,1e6] and |a|+|b| <= 1e3 (b-a); c in 1..10 (the theorems hold for every positive integer c)",
                 "inputs are not NaN; q in [0,1]",
                 "c = 1 density: points whose standardised distance to the singular end point underflows (< 1e-290) are excluded from the pdf comparison"],
    timeout=dict(quick=600, thorough=3000),
)
TEXT = dict(
    level="Universal Lean theorems over R about the polymorphic model Opda.Quad.{cdf,pdf,ppf,mean,variance} (every real a<b "
          "resp. a=b, every positive integer c, both shapes): cdf monotone, 0 on (-inf,a], 1 on [b,inf), in [0,1]; cdf(ppf q)=q "
          "on [0,1]; ppf(cdf y)=y on [a,b]; ppf monotone, into and onto [a,b], ppf 0=a, ppf 1=b; cdf y = P[a+(b-a)U^(2/c)<=y] "
          "resp. P[b-(b-a)U^(2/c)<=y] for U uniform (Lebesgue measure) and = Mathlib's betaMeasure (c/2) 1 resp. betaMeasure 1 "
          "(c/2) of (-inf,(y-a)/(b-a)]; HasDerivAt cdf (pdf y) y inside (a,b); pdf>=0, =0 outside, integral over R = 1; mean "
          "and variance attributes = integrals of y and (y-mean)^2 against pdf; point mass for a=b. The same constants are "
          "evaluated at Float by the compiled driver and compared with numpy on every run (cdf, pdf, ppf, mean, variance; "
          "shapes), and the property's own tolerances are checked on the real code against independent closed forms "
          "(mpmath, scipy incomplete beta) and quadrature of the code's pdf.",
    note="Proved: Model = Spec in exact arithmetic (24 theorems). Compared, not proved: float rounding (that is what the "
         "property's 1e-9 / 1e-6 are for); numpy's broadcasting/shape behaviour (exercised: scalar, 1-D, 2-D, empty).",
)
