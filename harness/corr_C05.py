"""C05 correspondence: QuadraticDistribution.cdf/pdf/ppf/mean/variance vs the Float reading of the
polymorphic Lean model (Opda.Quad.*), plus the Spec checks of the property on the real code
(exact-rational/mpmath closed forms, scipy.stats.beta, quadrature of the code's own pdf)."""
import warnings

import numpy as np

import common as C
from gen_emp import SharedArg
import quad_common as Q

INF = float("inf")


def hx(xs):
    return [C.fhex(x) for x in xs]


def gen_case(rng):
    c = Q.gen_c(rng)
    convex = rng.random() < 0.5
    r = rng.random()
    if r < 0.08:
        a = b = Q.gen_point(rng)
    elif r < 0.20:
        # "for all finite a <= b": supports far narrower / wider than anything an absolute tolerance is tuned for
        w = 10.0 ** (rng.uniform(-150, -6) if rng.random() < 0.7 else rng.uniform(6, 150))
        t = rng.choice([0.0, -1.0, -0.5, rng.uniform(-2, 2), rng.choice([-1, 1]) * 10.0 ** rng.uniform(0, 2.5)])
        a = w * t
        b = a + w
        if not (a < b and np.isfinite(a) and np.isfinite(b) and abs(a) + abs(b) <= 1e3 * (b - a)):
            a, b = 0.0, w
    else:
        a, b = Q.gen_ab(rng)
    return dict(a=a, b=b, c=c, convex=convex, ys=Q.gen_ys(rng, a, b), qs=Q.gen_qs(rng))


def case_from_replay(replay):
    v = replay.get("violation", replay)
    inp = v.get("input", v)
    a, b = C.unhex(inp["a"]), C.unhex(inp["b"])
    ys = [C.unhex(t) for t in inp.get("ys", [])] + ([C.unhex(inp["y"])] if "y" in inp else [])
    qs = [C.unhex(t) for t in inp.get("qs", [])] + ([C.unhex(inp["q"])] if "q" in inp else [])
    import random
    r0 = random.Random(0)     # the replayed point first, then the standard query set for this distribution
    return dict(a=a, b=b, c=int(inp["c"]), convex=bool(inp["convex"]), ys=ys + Q.gen_ys(r0, a, b), qs=qs + Q.gen_qs(r0))


def run(seed, tier, replay=None):
    from opda.parametric import QuadraticDistribution as QD
    rep = C.Report("C05", seed, tier)
    rng = C.rng_for("C05", seed)
    drv = C.Driver()
    n_dists = 1500 if tier == "quick" else 20000
    calib = {}
    cases = [case_from_replay(replay)] if replay is not None else [gen_case(rng) for _ in range(n_dists)]

    reqs, meta = [], []
    for ci, k in enumerate(cases):
        pl = Q.params_line(k["a"], k["b"], k["c"], k["convex"])
        reqs += [("quad.cdf", f"{pl} {C.flist(k['ys'])}"), ("quad.pdf", f"{pl} {C.flist(k['ys'])}"),
                 ("quad.ppf", f"{pl} {C.flist(k['qs'])}"), ("quad.moments", pl)]
        meta += [(ci, "cdf"), (ci, "pdf"), (ci, "ppf"), (ci, "moments")]
    replies = drv.run(reqs)
    model = {}
    for (ci, kind), r in zip(meta, replies):
        model[(ci, kind)] = None if r is None else Q.pairs(r)

    for ci, k in enumerate(cases):
        a, b, c, convex, ys, qs = k["a"], k["b"], k["c"], k["convex"], k["ys"], k["qs"]
        inp = dict(a=C.fhex(a), b=C.fhex(b), c=c, convex=convex)
        shown = dict(a=a, b=b, c=c, convex=convex)
        tol = Q.tol_c05(c)
        w = b - a
        rep.count(f"c={c}")
        rep.count("convex" if convex else "concave")
        rep.count("point_mass" if a == b else "width<1e-6(down to 1e-150)" if w < 1e-6 else "width>1e6(up to 1e150)" if w > 1e6 else "width=1e%+d" % int(np.floor(np.log10(w))))
        if a != b:
            rep.count("location/width=%s" % ("0" if a == 0 else "<=2" if abs(a) <= 2 * w else "<=100" if abs(a) <= 100 * w else "<=500"))
        with warnings.catch_warnings():
            warnings.simplefilter("ignore")
            try:
                d = QD(a, b, c, convex)
                # the caller's arrays: ONE float64 array of query points (with points outside the support and the infinities) goes into
                # cdf and then pdf, one array of levels into ppf, as in `grid = np.linspace(..); d.cdf(grid); d.pdf(grid)`; each must be
                # bit-identical afterwards, and each call is judged at the numbers the caller put there
                Y, QQ = SharedArg(ys), SharedArg(qs)
                cdf = d.cdf(Y.obj)
                dmg = [("cdf", Y.changed_by("cdf(ys)"))]
                pdf = d.pdf(Y.obj)
                dmg.append(("pdf", Y.changed_by("pdf(ys)")))
                ppf = d.ppf(QQ.obj)
                dmg.append(("ppf", QQ.changed_by("ppf(qs)")))
                mean, var = d.mean, d.variance
                rep.count("shared_query_array:cdf,pdf(float64 ys) ppf(float64 qs)")
                for name, dm in dmg:
                    if dm:
                        rep.violate(what=f"{name} modified the caller's query array in place (the next call with the same array is evaluated on what it "
                                         "left there)", input=dict(inp, **({"ys": hx(ys)} if name != "ppf" else {"qs": hx(qs)})), observed=dm,
                                    call=f"x = np.array(...); QuadraticDistribution.{name}(x); x")
            except Exception as e:
                rep.violate(what="a documented method raised on an input of the property's domain", error=repr(e),
                            input=dict(inp, ys=hx(ys), qs=hx(qs)), call="QuadraticDistribution")
                continue

        # ---------------- shapes: scalars to scalars, arrays to arrays of the same shape
        for name, fn, xs, arr in (("cdf", d.cdf, ys, cdf), ("pdf", d.pdf, ys, pdf), ("ppf", d.ppf, qs, ppf)):
            with warnings.catch_warnings():
                warnings.simplefilter("ignore")
                s0 = fn(xs[2])
                m2 = fn(np.array(xs[:6]).reshape(2, 3))
                e0 = fn(np.array([]))
            rep.case(("shape", name, inp["a"], inp["b"], c, convex), nontrivial=False)
            if np.shape(arr) != (len(xs),):
                rep.violate(what=f"{name} of a 1-D array does not have the query's shape", input=inp, observed=list(np.shape(arr)), call=f"QuadraticDistribution.{name}")
            if not np.isscalar(s0):
                rep.violate(what=f"{name} of a scalar is not a scalar", input=dict(inp, x=C.fhex(xs[2])), observed=repr(type(s0)), call=f"QuadraticDistribution.{name}")
            elif not (float(s0) == float(arr[2]) or (s0 != s0 and arr[2] != arr[2])):
                rep.violate(what=f"{name} of a scalar differs from the array result", input=dict(inp, x=C.fhex(xs[2])), call=f"QuadraticDistribution.{name}")
            if np.shape(m2) != (2, 3) or not np.array_equal(np.ravel(m2), arr[:6], equal_nan=True):
                rep.violate(what=f"{name} of a 2-D array is not the element-wise result", input=inp, call=f"QuadraticDistribution.{name}")
            if np.shape(e0) != (0,):
                rep.violate(what=f"{name} of an empty array is not empty", input=inp, call=f"QuadraticDistribution.{name}")
        if not (np.isscalar(mean) and np.isscalar(var)):
            rep.violate(what="mean/variance attributes are not scalars", input=inp)
        if ci % 5 == 0:
            for name, fn, xs in (("cdf", d.cdf, ys), ("pdf", d.pdf, ys), ("ppf", d.ppf, qs)):
                with warnings.catch_warnings():
                    warnings.simplefilter("ignore")
                    try:
                        fails = C.shape_probe(fn, xs[2:])       # from index 2: inside/at the support, not only the infinities
                    except Exception as e:  # noqa: BLE001
                        fails = [("?", "raised " + repr(e))]
                rep.case(("shapes", name, inp["a"], inp["b"], c, convex), nontrivial=False)
                for sh, msg in fails[:1]:
                    rep.violate(what=f"{name}: {msg} (scalars must map to scalars, arrays to arrays of the same shape)", input=dict(inp, xs=hx(xs[2:8])),
                                shape=list(sh) if sh != "?" else None, call=f"QuadraticDistribution.{name}")

        # ---------------- model vs implementation (Float reading of the polymorphic term)
        for kind, xs, impl in (("cdf", ys, cdf), ("pdf", ys, pdf), ("ppf", qs, ppf), ("moments", None, [mean, var])):
            mv = model[(ci, kind)]
            if mv is None:
                rep.disagree(op="quad." + kind, note="model rejected an input of the property's domain", input=inp)
                continue
            names = xs if xs is not None else ["mean", "variance"]
            scale = dict(cdf=1.0, pdf=(1.0 / w if w > 0 else 1.0), ppf=max(w, 1e-300), moments=1.0)[kind]
            for i, (x, iv, (m, sp)) in enumerate(zip(names, impl, mv)):
                key = (kind, inp["a"], inp["b"], c, convex, x if isinstance(x, str) else C.fhex(x))
                trivial = (a == b) or (kind in ("cdf", "pdf") and not (a < x < b))
                rep.case(key, nontrivial=not trivial,
                         sample=dict(shown, op=kind, x=x, model=m, impl=float(iv)) if not trivial else None)
                if kind == "moments":
                    scale = max(w, 1e-300) if i == 0 else max(w * w, 1e-300)
                al = Q.allowance(m, sp)
                if a == b:
                    sp = 0.0        # the point mass involves no transcendental: exact comparison
                elif al == al and al > 0.1 * tol * max(scale, abs(m)) and abs(m) != INF:
                    rep.skip(f"{kind}_ill_conditioned_model_comparison")
                    continue
                if np.isfinite(m) and np.isfinite(iv) and al == al:
                    cb = calib.setdefault(kind, dict(max_rel_diff=0.0, max_diff_over_allowance=0.0))
                    cb["max_rel_diff"] = max(cb["max_rel_diff"], abs(float(iv) - m) / max(abs(m), 1e-300) if m != 0 else 0.0)
                    cb["max_diff_over_allowance"] = max(cb["max_diff_over_allowance"], abs(float(iv) - m) / al)
                if not Q.agree(iv, m, sp):
                    verdict = spec_verdict(kind, a, b, c, convex, x, float(iv), tol)
                    call = f"QuadraticDistribution.{kind if kind != 'moments' else x}"
                    if verdict is not None:
                        rep.violate(what=verdict, input=dict(inp, **({"y": C.fhex(x)} if kind in ("cdf", "pdf") else {"q": C.fhex(x)} if kind == "ppf" else {})),
                                    expected=m, observed=float(iv), call=call)
                    else:
                        rep.disagree(op="quad." + kind, input=dict(inp, x=x if isinstance(x, str) else C.fhex(x)), model=m, impl=float(iv),
                                     allowance=al, note="model and implementation differ by more than the jitter allowance, "
                                     "but the implementation still meets the property's tolerance at this input")

        # ---------------- the same kind of query in another container (float32 where exactly representable, integers as int64 /
        # Python ints): the property is about the real number; the dtype of the query must not lower the precision of the answer
        if ci % 4 == 0:
            container_checks(rep, d, k, inp, tol)
        if ci % 5 == 1:
            param_container_checks(rep, QD, k, inp, tol, ci)

        # ---------------- Spec: the property itself on the real code
        if a == b:
            spec_point_mass(rep, d, a, c, ys, qs, cdf, pdf, ppf, mean, var, inp)
            continue
        spec_checks(rep, d, k, cdf, pdf, ppf, mean, var, inp, tol, tier, rng)

    return rep.result(
        rule="distributions: b-a log-uniform in [1e-6,1e6] (ends and 1 over-represented) x location a/(b-a) in "
             "{0,-1,-1/2, U[-2,2], ±log-uniform up to 499, the ±499 edge} subject to |a|+|b|<=1e3(b-a), c in 1..10, both "
             "shapes, 8% point masses, 12% extreme widths 1e-150..1e-6 / 1e6..1e150; queries y: ±inf, a, b, their float neighbours, ±1e300, outside, interior uniform and "
             "log-close to either end; q: 0, 1, 5e-324, 1e-300, 1e-17, 1-2^-53, uniform, log-close to 0 and 1. A case is "
             "(function, distribution, query); trivial = outside the support / point mass; distinct by hash of the triple.",
        extra=dict(driver_lines=drv.lines, extra=dict(calibration=calib),
                   oracle="mpmath (40 digits) on the exact rational values of the inputs; scipy.stats.beta; "
                          "Gauss-Kronrod quadrature of the implementation's pdf in the variable s, y = a+(b-a)s^2"))


C_CONTAINERS = ("int8", "uint8", "int16", "uint16", "int32", "uint32", "int64", "uint64", "float")   # c is an integer: integer types and an integral Python float


def param_container_checks(rep, QD, k, inp, tol, ci):
    """the integer parameter c (1..10 fits every integer type) given as a numpy integer scalar of any width or as an integral float:
    the distribution is the same, so its moments and functions must still be those of the law (arithmetic on c is the library's)"""
    a, b, c, convex, ys, qs = k["a"], k["b"], k["c"], k["convex"], k["ys"], k["qs"]
    label = C_CONTAINERS[(ci // 5) % len(C_CONTAINERS)]
    cc = float(c) if label == "float" else getattr(np, label)(c)
    rep.count("c_container=" + label)
    with warnings.catch_warnings():
        warnings.simplefilter("ignore")
        try:
            d2 = QD(a, b, cc, convex)
            got = dict(mean=float(d2.mean), variance=float(d2.variance))
            f2 = np.asarray(d2.cdf(np.array(ys[2:7])), dtype=float)
            p2 = np.asarray(d2.pdf(np.array(ys[2:7])), dtype=float)
            q2 = np.asarray(d2.ppf(np.array(qs[2:7])), dtype=float)
        except Exception as e:  # noqa: BLE001
            rep.violate(what=f"QuadraticDistribution raised for c given as {label} (the same number as a Python int is accepted)", error=repr(e),
                        input=dict(inp, c_container=label), call="QuadraticDistribution")
            return
    checks = [("moments", "mean", got["mean"]), ("moments", "variance", got["variance"])]
    checks += [("cdf", y, float(v)) for y, v in zip(ys[2:7], f2)] + [("pdf", y, float(v)) for y, v in zip(ys[2:7], p2)]
    checks += [("ppf", q, float(v)) for q, v in zip(qs[2:7], q2)]
    with warnings.catch_warnings():
        warnings.simplefilter("ignore")
        d1 = QD(a, b, c, convex)      # the same distribution with c as a Python int
        ref = dict(cdf=np.asarray(d1.cdf(np.array(ys[2:7])), dtype=float), pdf=np.asarray(d1.pdf(np.array(ys[2:7])), dtype=float),
                   ppf=np.asarray(d1.ppf(np.array(qs[2:7])), dtype=float))
    pos = dict(cdf=0, pdf=0, ppf=0)
    for kind, x, iv in checks:
        rep.case(("c_container", label, kind, inp["a"], inp["b"], c, convex, x if isinstance(x, str) else C.fhex(x)), nontrivial=a < b)
        if kind != "moments":
            rv = float(ref[kind][pos[kind]])
            pos[kind] += 1
            if iv == rv or (iv != iv and rv != rv) or abs(iv - rv) <= 1e-12 * max(1.0, abs(rv)):
                continue        # identical to the Python-int instance, which is judged in its own right
        msg = spec_verdict(kind, a, b, c, convex, x, iv, tol)
        if msg is not None:
            extra = {} if isinstance(x, str) else ({"q": C.fhex(x)} if kind == "ppf" else {"y": C.fhex(x)})
            rep.violate(what=f"{msg} [c given as numpy {label}]" if label not in ("float",) else f"{msg} [c given as a float]",
                        input=dict(inp, c_container=label, **extra), observed=iv,
                        call=f"QuadraticDistribution.{x if kind == 'moments' else kind}")
            break


def container_checks(rep, d, k, inp, tol):
    import math
    a, b, c, convex = k["a"], k["b"], k["c"], k["convex"]
    f32 = lambda v: float(np.float32(v))  # noqa: E731
    with np.errstate(all="ignore"):
        ys32 = [f32(y) for y in k["ys"] if np.isfinite(y) and np.isfinite(np.float32(y))][:8]
        qs32 = [f32(q) for q in k["qs"] if 0.0 <= f32(q) <= 1.0][:8]
    ysi = sorted({float(math.floor(a)), float(math.ceil(b)), float(round((a + b) / 2))}) if abs(a) + abs(b) < 1e15 else []
    for label, ys_, qs_, mk in (("float32", ys32, qs32, lambda v: np.array(v, dtype=np.float32)),
                                ("int64", ysi, [0.0, 1.0], lambda v: np.array([int(x) for x in v], dtype=np.int64)),
                                ("pyint_list", ysi, [0.0, 1.0], lambda v: [int(x) for x in v])):
        rep.count("query_container=" + label)
        for kind, xs, fn in (("cdf", ys_, d.cdf), ("pdf", ys_, d.pdf), ("ppf", qs_, d.ppf)):
            if not xs:
                continue
            key = "y" if kind != "ppf" else "q"
            with warnings.catch_warnings():
                warnings.simplefilter("ignore")
                try:
                    out = np.asarray(fn(mk(xs)), dtype=float)
                except Exception as e:  # noqa: BLE001
                    rep.violate(what=f"{kind} raised for a query given as {label} (the same numbers as float64 are accepted)", error=repr(e),
                                input=dict(inp, xs=hx(xs), query_container=label), call=f"QuadraticDistribution.{kind}")
                    continue
            if out.shape != (len(xs),):
                rep.violate(what=f"{kind}: query given as {label} of shape ({len(xs)},) gave shape {out.shape}",
                            input=dict(inp, xs=hx(xs), query_container=label), call=f"QuadraticDistribution.{kind}")
                continue
            for x, iv in zip(xs, out):
                rep.case(("container", label, kind, inp["a"], inp["b"], c, convex, C.fhex(x)), nontrivial=a < b)
                msg = spec_verdict(kind, a, b, c, convex, x, float(iv), tol)
                if msg is not None:
                    rep.violate(what=f"{msg} [query given as {label}]", input=dict(inp, **{key: C.fhex(x)}, query_container=label),
                                observed=float(iv), call=f"QuadraticDistribution.{kind}")
                    break


def spec_verdict(kind, a, b, c, convex, x, iv, tol):
    """Does the property fail at this very input?  Returns a description or None."""
    if a == b:
        exp = dict(cdf=lambda: 0.0 if x < a else 1.0, pdf=lambda: INF if x == a else 0.0, ppf=lambda: a,
                   moments=lambda: a if x == "mean" else 0.0)[kind]()
        return None if iv == exp else f"{kind} of the point mass is {iv}, expected {exp}"
    w = b - a
    if kind == "cdf":
        s = Q.spec_cdf(a, b, c, convex, x)
        return None if abs(iv - s) <= tol else f"cdf(y) differs from the law's distribution function by {abs(iv - s):.3g} > {tol}"
    if kind == "pdf":
        s = Q.spec_pdf(a, b, c, convex, x)
        if abs(s) == INF or abs(iv) == INF:
            return None if s == iv else f"pdf(y) is {iv}, the derivative of the law's cdf is {s}"
        return None if abs(iv - s) <= tol * max(abs(s), 1.0 / w) else f"pdf(y) differs from the derivative of the law's cdf by {abs(iv - s):.3g}"
    if kind == "ppf":
        # the property speaks through the cdf: F(ppf q) = q, with F the Spec's distribution function
        s = Q.spec_cdf(a, b, c, convex, iv) if iv == iv else float("nan")
        q = min(max(x, 0.0), 1.0)
        return None if abs(s - q) <= tol else f"F(ppf(q)) differs from q by {abs(s - q):.3g} > {tol}"
    if kind == "moments":
        mean, var = Q.spec_mean_var(a, b, c, convex)
        if x == "mean":
            return None if abs(iv - float(mean)) <= tol * w else f"mean attribute differs from E[Y] by {abs(iv - float(mean)):.3g}"
        return None if abs(iv - float(var)) <= tol * w * w else f"variance attribute differs from Var[Y] by {abs(iv - float(var)):.3g}"
    return None


def spec_point_mass(rep, d, a, c, ys, qs, cdf, pdf, ppf, mean, var, inp):
    for y, f, p in zip(ys, cdf, pdf):
        rep.case(("pm", inp["a"], c, C.fhex(y)), nontrivial=False)
        if f != (0.0 if y < a else 1.0):
            rep.violate(what="cdf of the point mass is not the unit step at a", input=dict(inp, y=C.fhex(y)), observed=float(f), call="QuadraticDistribution.cdf")
        if p != (INF if y == a else 0.0):
            rep.violate(what="pdf of the point mass is not inf at a and 0 elsewhere", input=dict(inp, y=C.fhex(y)), observed=float(p), call="QuadraticDistribution.pdf")
    for q, y in zip(qs, ppf):
        if y != a:
            rep.violate(what="ppf of the point mass is not a", input=dict(inp, q=C.fhex(q)), observed=float(y), call="QuadraticDistribution.ppf")
    if mean != a or var != 0.0:
        rep.violate(what="mean/variance of the point mass are not (a, 0)", input=inp, observed=[float(mean), float(var)])


def spec_checks(rep, d, k, cdf, pdf, ppf, mean, var, inp, tol, tier, rng):
    a, b, c, convex, ys, qs = k["a"], k["b"], k["c"], k["convex"], k["ys"], k["qs"]
    w = b - a
    # scipy's regularised incomplete beta / Beta density at the *exactly* standardised argument
    sb = [Q.scipy_beta_cdf(a, b, c, convex, y) for y in ys]
    for y, f, s2 in zip(ys, cdf, sb):
        s = Q.spec_cdf(a, b, c, convex, y)
        rep.case(("spec_cdf", inp["a"], inp["b"], c, convex, C.fhex(y)), nontrivial=a < y < b)
        if not (abs(f - s) <= tol):
            rep.violate(what=f"cdf(y) differs from P[{'a+(b-a)U^(2/c)' if convex else 'b-(b-a)U^(2/c)'} <= y] by more than {tol}",
                        input=dict(inp, y=C.fhex(y)), expected=s, observed=float(f), call="QuadraticDistribution.cdf")
        elif not (abs(f - s2) <= tol):
            rep.violate(what=f"cdf(y) differs from the location-scale Beta CDF (scipy.stats.beta) by more than {tol}",
                        input=dict(inp, y=C.fhex(y)), expected=float(s2), observed=float(f), call="QuadraticDistribution.cdf")
        if (y <= a and f != 0.0) or (y >= b and f != 1.0):
            rep.violate(what="cdf is not exactly 0 up to a / 1 from b on", input=dict(inp, y=C.fhex(y)), observed=float(f), call="QuadraticDistribution.cdf")
    order = np.argsort(ys, kind="stable")
    fs = np.asarray(cdf)[order]
    bad = np.nonzero(np.diff(fs) < -tol)[0]
    if len(bad):
        i = int(bad[0])
        rep.violate(what="cdf is not non-decreasing", input=dict(inp, ys=hx([ys[order[i]], ys[order[i + 1]]])),
                    observed=[float(fs[i]), float(fs[i + 1])], call="QuadraticDistribution.cdf")
    # T2: ppf
    with warnings.catch_warnings():
        warnings.simplefilter("ignore")
        f_of_ppf = d.cdf(ppf)
        rt = d.cdf(d.ppf(np.clip(cdf, 0, 1)))
    for q, y, f in zip(qs, ppf, f_of_ppf):
        rep.case(("spec_ppf", inp["a"], inp["b"], c, convex, C.fhex(q)))
        if not (abs(f - q) <= tol):
            rep.violate(what=f"cdf(ppf(q)) differs from q by more than {tol}", input=dict(inp, q=C.fhex(q)),
                        expected=q, observed=float(f), call="QuadraticDistribution.ppf")
        if not (a - tol * w <= y <= b + tol * w):
            rep.violate(what="ppf(q) lies outside [a,b]", input=dict(inp, q=C.fhex(q)), observed=float(y), call="QuadraticDistribution.ppf")
        if (q == 0.0 and abs(y - a) > tol * w) or (q == 1.0 and abs(y - b) > tol * w):
            rep.violate(what="ppf does not map {0,1} to {a,b}", input=dict(inp, q=C.fhex(q)), observed=float(y), call="QuadraticDistribution.ppf")
    qo = np.argsort(qs, kind="stable")
    ps = np.asarray(ppf)[qo]
    bad = np.nonzero(np.diff(ps) < -tol * w)[0]
    if len(bad):
        i = int(bad[0])
        rep.violate(what="ppf is not non-decreasing", input=dict(inp, qs=hx([qs[qo[i]], qs[qo[i + 1]]])),
                    observed=[float(ps[i]), float(ps[i + 1])], call="QuadraticDistribution.ppf")
    for y, f, r in zip(ys, cdf, rt):
        if not (abs(r - f) <= tol):
            rep.violate(what=f"ppf(cdf(y)) is not a point with the same cdf value as y (to {tol})", input=dict(inp, y=C.fhex(y)),
                        expected=float(f), observed=float(r), call="QuadraticDistribution.ppf")
    # T4: pdf
    sbp = [Q.scipy_beta_pdf(a, b, c, convex, y) if a < y < b else float("nan") for y in ys]
    for y, p, s2 in zip(ys, pdf, sbp):
        rep.case(("spec_pdf", inp["a"], inp["b"], c, convex, C.fhex(y)), nontrivial=a < y < b)
        if not (p >= 0.0):
            rep.violate(what="pdf is negative or nan", input=dict(inp, y=C.fhex(y)), observed=float(p), call="QuadraticDistribution.pdf")
            continue
        if (y < a or y > b):
            if p != 0.0:
                rep.violate(what="pdf is not 0 outside [a,b]", input=dict(inp, y=C.fhex(y)), observed=float(p), call="QuadraticDistribution.pdf")
            continue
        if a < y < b:
            if c == 1 and Q.dist_to_singular_end(a, b, convex, y) < 1e-290:
                rep.skip("pdf_c=1_standardised_argument_underflows")
                continue
            s = Q.spec_pdf(a, b, c, convex, y)
            if not (abs(p - s) <= tol * max(abs(s), 1.0 / w)):
                rep.violate(what="pdf(y) differs from the derivative of the law's distribution function",
                            input=dict(inp, y=C.fhex(y)), expected=s, observed=float(p), call="QuadraticDistribution.pdf")
            elif np.isfinite(s2) and not (abs(p - s2) <= tol * max(abs(s2), 1.0 / w)):
                rep.violate(what="pdf(y) differs from the location-scale Beta density (scipy.stats.beta)",
                            input=dict(inp, y=C.fhex(y)), expected=float(s2), observed=float(p), call="QuadraticDistribution.pdf")
    # derivative of the code's own cdf (central difference well inside the support)
    for _ in range(3):
        z = rng.uniform(0.1, 0.9)
        y = a + w * z
        h = 1e-4 * w
        with warnings.catch_warnings():
            warnings.simplefilter("ignore")
            num = (float(d.cdf(y + h)) - float(d.cdf(y - h))) / (2 * h)
            p = float(d.pdf(y))
        rep.case(("deriv", inp["a"], inp["b"], c, convex, C.fhex(y)))
        # truncation h^2 f'''/6 <= 1e-8 * O(c^3/z^2)/w ; rounding <= 1e-16*1e3/1e-4 = 1e-9 /w
        if not (abs(num - p) <= 1e-4 * max(p, 1.0 / w)):
            rep.violate(what="pdf is not the (numerical) derivative of cdf inside the support", input=dict(inp, y=C.fhex(y)),
                        expected=num, observed=p, call="QuadraticDistribution.pdf")
    # T4/T5: ∫pdf = 1, mean, variance by quadrature of the code's own pdf
    i0, i1, i2 = Q.quad_moments(d, a, b, convex)
    rep.case(("moments_quadrature", inp["a"], inp["b"], c, convex))
    if not (abs(i0 - 1.0) <= tol):
        rep.violate(what=f"pdf does not integrate to 1 (to {tol})", input=inp, expected=1.0, observed=i0, call="QuadraticDistribution.pdf")
    if not (abs((float(mean) - a) - i1) <= tol * w):
        rep.violate(what="mean attribute differs from the integral of y against pdf", input=inp, expected=a + i1, observed=float(mean),
                    call="QuadraticDistribution.mean")
    if not (abs(float(var) - i2) <= tol * w * w):
        rep.violate(what="variance attribute differs from the integral of (y-mean)^2 against pdf", input=inp, expected=i2,
                    observed=float(var), call="QuadraticDistribution.variance")
    sm, sv = Q.spec_mean_var(a, b, c, convex)
    if not (abs(float(mean) - float(sm)) <= tol * w and abs(float(var) - float(sv)) <= tol * w * w):
        rep.violate(what="mean/variance attributes differ from the moments of the stated law", input=inp,
                    expected=[float(sm), float(sv)], observed=[float(mean), float(var)], call="QuadraticDistribution.mean")


if __name__ == "__main__":
    C.main(run)
