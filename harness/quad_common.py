"""Shared pieces of the C05 / C08 / C09 harnesses: generators on the properties' domains, the independent
Spec oracles (mpmath on the exact rational values of the float inputs, scipy.stats.beta, quadrature), and the
model-vs-implementation comparator with the jitter allowance of DESIGN §1.2."""
import math
from fractions import Fraction as Fr

import numpy as np

import common as C
import mpmath as mp

INF = float("inf")
mp.mp.dps = 40


# ------------------------------------------------------------------ tolerances of the properties

def tol_c05(c):
    """C05: 1e-9 for c >= 2, 1e-6 for c = 1"""
    return 1e-6 if int(c) == 1 else 1e-9


# ------------------------------------------------------------------ generators

def gen_width(rng):
    """b - a in [1e-6, 1e6] (log-uniform, with the end points and 1 over-represented)"""
    r = rng.random()
    if r < 0.08:
        return 1e-6
    if r < 0.16:
        return 1e6
    if r < 0.30:
        return 1.0
    return 10.0 ** rng.uniform(-6, 6)


def gen_ab(rng):
    """a < b with b-a in [1e-6,1e6] and |a|+|b| <= 1e3 (b-a) (checked on the floats actually used)"""
    while True:
        w = gen_width(rng)
        r = rng.random()
        if r < 0.20:
            t = 0.0
        elif r < 0.30:
            t = -1.0
        elif r < 0.40:
            t = -0.5
        elif r < 0.65:
            t = rng.uniform(-2, 2)
        elif r < 0.90:
            t = rng.choice([-1, 1]) * 10.0 ** rng.uniform(0, math.log10(499))
        else:
            t = rng.choice([-499.0, 498.0])
        a = w * t
        if rng.random() < 0.3:
            a = float(np.float32(a))     # short mantissas: exact differences
        b = a + w
        wf = b - a
        if not (a < b) or not (1e-6 <= wf <= 1e6):
            continue
        if abs(a) + abs(b) <= 1e3 * wf:
            return float(a), float(b)


def gen_point(rng):
    """a = b (point mass)"""
    r = rng.random()
    if r < 0.4:
        return 0.0
    if r < 0.6:
        return 2.0
    return rng.choice([-1, 1]) * 10.0 ** rng.uniform(-6, 6)


def gen_c(rng):
    return rng.choice([1, 1, 2, 2, 3, 3, 4, 5, 6, 7, 8, 9, 10, 10])


def gen_ys(rng, a, b, k=24):
    """queries for cdf/pdf: ±inf, a, b, their float neighbours, far outside, interior (uniform and
    logarithmically close to either end)"""
    w = b - a if b > a else max(abs(a), 1.0)
    ys = [-INF, INF, a, b, float(np.nextafter(a, -INF)), float(np.nextafter(a, INF)),
          float(np.nextafter(b, -INF)), float(np.nextafter(b, INF)),
          a - w * 10.0 ** rng.uniform(-12, 3), b + w * 10.0 ** rng.uniform(-12, 3), -1e300, 1e300,
          a + 0.5 * (b - a)]
    while len(ys) < k:
        r = rng.random()
        if r < 0.5:
            ys.append(a + (b - a) * rng.random())
        elif r < 0.75:
            ys.append(a + (b - a) * 10.0 ** rng.uniform(-16, 0))
        else:
            ys.append(b - (b - a) * 10.0 ** rng.uniform(-16, 0))
    return [float(y) for y in ys]


def gen_qs(rng, k=20):
    qs = [0.0, 1.0, 5e-324, 1e-300, 1e-17, float(np.nextafter(1.0, 0.0)), 0.5]
    while len(qs) < k:
        r = rng.random()
        if r < 0.5:
            qs.append(rng.random())
        elif r < 0.75:
            qs.append(10.0 ** rng.uniform(-20, 0))
        else:
            qs.append(1.0 - 10.0 ** rng.uniform(-16, 0))
    return [float(q) for q in qs]


def gen_ns(rng, k=8):
    """n in [1, 1000], real: integers, non-integers, the end points"""
    ns = [1.0, 1000.0]
    while len(ns) < k:
        r = rng.random()
        if r < 0.35:
            ns.append(float(rng.randint(1, 1000)))
        elif r < 0.7:
            ns.append(10.0 ** rng.uniform(0, 3))
        else:
            ns.append(rng.uniform(1, 12))
    return ns


# ------------------------------------------------------------------ wire helpers

def params_line(a, b, c, convex):
    return f"{C.fhex(a)} {C.fhex(b)} {int(c)} {1 if convex else 0}"


def mn_tok(minimize):
    return "-" if minimize is None else ("1" if minimize else "0")


def pairs(reply):
    """reply tokens -> list of (value, spread)"""
    vals = [C.unhex(t) for t in reply]
    return list(zip(vals[0::2], vals[1::2]))


def allowance(model, spread, rel=1e-12):
    """jitter allowance: rel*|model| + 4*spread (nan spread -> nan: not comparable).  `spread` is the range of
    the model value when every transcendental result is moved by up to ±8 ulps, so 4*spread covers libm
    differences of up to 64 ulps per call; calibration (6 seeds x 2e5 comparisons): the largest observed
    |impl - model| is 3% of this allowance."""
    if spread != spread:
        return float("nan")
    return rel * abs(model) + 4.0 * spread + 1e-300


def agree(impl, model, spread, rel=1e-12):
    """True / False ; inf and nan must match exactly"""
    impl, model = float(impl), float(model)
    if impl != impl or model != model:
        return (impl != impl) and (model != model)
    if abs(impl) == INF or abs(model) == INF:
        return impl == model
    al = allowance(model, spread, rel)
    return abs(impl - model) <= al


# ------------------------------------------------------------------ Spec oracles (independent of the code)

def mpq(x):
    """exact mpf of a float or Fraction (floats are dyadic rationals; the quotient is rounded at 40 digits)"""
    x = Fr(x)
    return mp.mpf(x.numerator) / mp.mpf(x.denominator)


def _z(a, b, y):
    """exact (y-a)/(b-a) clipped to [0,1] as an mpf (inputs are floats, read as exact rationals)"""
    if y == INF:
        return mp.mpf(1)
    if y == -INF:
        return mp.mpf(0)
    z = (Fr(y) - Fr(a)) / (Fr(b) - Fr(a))
    z = min(max(z, Fr(0)), Fr(1))
    return mpq(z)


def spec_cdf(a, b, c, convex, y):
    """P[a + (b-a) U^(2/c) <= y]  resp.  P[b - (b-a) U^(2/c) <= y]  (a < b), 40 digits"""
    z = _z(a, b, y)
    al = mp.mpf(int(c)) / 2
    return float(z ** al) if convex else float(1 - (1 - z) ** al)


def spec_pdf(a, b, c, convex, y):
    """derivative of spec_cdf inside (a,b); 0 outside [a,b]; at the end points the one-sided limit"""
    if y < a or y > b:
        return 0.0
    z = _z(a, b, y)
    al = mp.mpf(int(c)) / 2
    base = z if convex else 1 - z
    w = mpq(Fr(b) - Fr(a))
    if base == 0:
        return INF if al < 1 else (float(al / w) if al == 1 else 0.0)
    return float(al / w * base ** (al - 1))


def spec_ppf(a, b, c, convex, q):
    e = mp.mpf(2) / int(c)
    w = mpq(Fr(b) - Fr(a))
    q = mp.mpf(q)
    if convex:
        return float(mpq(a) + w * q ** e)
    return float(mpq(b) - w * (1 - q) ** e)


def spec_mean_var(a, b, c, convex):
    """closed forms of E and Var of a + w U^(2/c) / b - w U^(2/c): E U^(2/c) = c/(c+2), E U^(4/c) = c/(c+4)"""
    c = Fr(int(c))
    w = Fr(b) - Fr(a)
    m1, m2 = c / (c + 2), c / (c + 4)
    mean = Fr(a) + w * m1 if convex else Fr(b) - w * m1
    var = w * w * (m2 - m1 * m1)
    return mean, var


def std_exact(a, b, convex, y):
    """the exactly standardised distance from the power law's origin: (y-a)/(b-a) (convex) / (b-y)/(b-a)
    (concave), clipped to [0,1], correctly rounded to a float"""
    if abs(y) == INF:
        return 1.0 if (y > 0) == convex else 0.0
    z = (Fr(y) - Fr(a)) / (Fr(b) - Fr(a)) if convex else (Fr(b) - Fr(y)) / (Fr(b) - Fr(a))
    z = min(max(z, Fr(0)), Fr(1))
    return z.numerator / z.denominator


def dist_to_singular_end(a, b, convex, y):
    return std_exact(a, b, convex, y)


def scipy_beta_cdf(a, b, c, convex, y):
    """location-scale Beta(c/2,1) (convex) / Beta(1,c/2) (concave) distribution function through scipy's
    regularised incomplete beta function; Beta(1,al).cdf(z) = 1 - Beta(al,1).cdf(1-z)"""
    from scipy import special
    u = std_exact(a, b, convex, y)
    v = float(special.betainc(c / 2, 1.0, u))
    return v if convex else 1.0 - v


def scipy_beta_pdf(a, b, c, convex, y):
    from scipy import stats
    import warnings
    u = std_exact(a, b, convex, y)
    try:
        with warnings.catch_warnings():
            warnings.simplefilter("ignore")
            return float(stats.beta.pdf(u, c / 2, 1.0)) / (b - a)
    except Exception:       # scipy raises at singular end points; the mpmath oracle covers those
        return float("nan")


def quad_moments(dist, a, b, convex):
    """∫pdf, ∫(y-a)·pdf, ∫(y-mean)²·pdf of the *implementation's* pdf by a fixed 64-point Gauss–Legendre rule
    in the variable s with y = a + w s² (convex) / b - w s² (concave): the substitution removes the end-point
    singularity of c = 1 (for the stated law the integrands are polynomials in s of degree <= c+3, which the rule
    integrates exactly), the nodes are interior (the smallest is 3.5e-4, so y never rounds onto the end point),
    and the rule is deterministic."""
    import warnings
    w = b - a
    mean = float(dist.mean)
    x, wt = np.polynomial.legendre.leggauss(64)
    s = 0.5 * (x + 1.0)
    wt = 0.5 * wt
    ys = a + w * s * s if convex else b - w * s * s
    with warnings.catch_warnings():
        warnings.simplefilter("ignore")
        p = np.asarray(dist.pdf(ys), dtype=float)
    jac = 2.0 * w * s
    i0 = float(np.sum(wt * p * jac))
    i1 = float(np.sum(wt * (ys - a) * p * jac))
    i2 = float(np.sum(wt * (ys - mean) ** 2 * p * jac))
    return [i0, i1, i2]


# ------------------------------------------------------------------ noisy class: generators and the E[best of n] oracle

SWITCH_S = [1e-6, 10.0, 5e-2, 1e-2, 3e-3, 6e-4, 3e-4]     # + the table's min_scale values (the model reports the margin)


def nparams_line(a, b, c, o, convex):
    return f"{C.fhex(a)} {C.fhex(b)} {int(c)} {C.fhex(o)} {1 if convex else 0}"


def table_min_scales():
    """min_scale values of the shipped table, read from the repository's data file (only to *place* test
    points on both sides of each switch; the exclusion itself is decided by the model's margin)"""
    import json
    import os
    try:
        data = json.load(open(os.path.join(C.REPO, "src", "opda", "_approximations.json")))
    except Exception:
        return []
    out = set()

    def walk(x):
        if isinstance(x, dict):
            for k, v in x.items():
                if k == "min_scale" and isinstance(v, (int, float)) and v > 0:
                    out.add(float(v))
                else:
                    walk(v)
        elif isinstance(x, list):
            for v in x:
                walk(v)
    walk(data)
    return sorted(out)


def gen_s(rng, switches):
    """s = o/(b-a) in {0} u [1e-9, 1e3]: log-uniform, plus both sides of every switch point"""
    r = rng.random()
    if r < 0.08:
        return 0.0
    if r < 0.40:
        p = rng.choice(switches)
        return p * (1.0 + rng.choice([-1, 1]) * 10.0 ** rng.uniform(-8, -1))
    if r < 0.55:
        return 10.0 ** rng.uniform(-4, -1)
    return 10.0 ** rng.uniform(-9, 3)


def _gl(k=20):
    x, w = np.polynomial.legendre.leggauss(k)
    return 0.5 * (x + 1.0), 0.5 * w


_GLX, _GLW = _gl(20)


def _panel_sums(f, edges):
    """20-point Gauss–Legendre on each panel [edges[i], edges[i+1]] (vectorised)"""
    lo, hi = edges[:-1], edges[1:]
    xs = lo[:, None] + (hi - lo)[:, None] * _GLX[None, :]
    vals = f(xs.ravel()).reshape(xs.shape)
    return (hi - lo) * (vals @ _GLW)


def adaptive_integral(f, edges, tol, max_rounds=30, max_panels=4096):
    """adaptive composite Gauss–Legendre: a panel is accepted when splitting it in two changes its value by
    less than its share of `tol`; deterministic; `f` is evaluated on float arrays.  Work is bounded: when more than
    `max_panels` panels are still unresolved (an integrand with rounding noise above `tol`), or after `max_rounds`
    halvings, the finest values are taken as they are."""
    edges = np.asarray(sorted(set(float(e) for e in edges)), dtype=float)
    total = 0.0
    width = edges[-1] - edges[0]
    cur = _panel_sums(f, edges)
    lo, hi = edges[:-1], edges[1:]
    for _ in range(max_rounds):
        mid = 0.5 * (lo + hi)
        left = _panel_sums_pairs(f, lo, mid)
        right = _panel_sums_pairs(f, mid, hi)
        fine = left + right
        ok = np.abs(fine - cur) <= tol * np.maximum((hi - lo) / width, 1e-6)
        total += float(np.sum(fine[ok]))
        if np.all(ok):
            return total
        bad = ~ok
        if int(np.sum(bad)) * 2 > max_panels:
            return total + float(np.sum(fine[bad]))
        lo = np.concatenate([lo[bad], mid[bad]])
        hi = np.concatenate([mid[bad], hi[bad]])
        cur = np.concatenate([left[bad], right[bad]])
    return total + float(np.sum(cur))


def _panel_sums_pairs(f, lo, hi):
    xs = lo[:, None] + (hi - lo)[:, None] * _GLX[None, :]
    vals = f(xs.ravel()).reshape(xs.shape)
    return (hi - lo) * (vals @ _GLW)


def expect_best(dist, n, minimize, a, b, o, tol):
    """E[max] resp. E[min] of n i.i.d. draws = ∫ y d[F(y)^n] resp. ∫ y d[1-(1-F(y))^n] with F the class's *own*
    cdf, computed as  L + ∫_L^U (1 - G(y)) dy  over [L,U] = [a-8o, b+8o]  (G = F^n resp. 1-(1-F)^n; beyond 8σ the
    omitted mass is < n·6e-16), by adaptive Gauss–Legendre with break points at a, b and at quantiles of G (placed
    with the class's own ppf only to help the subdivision; they do not enter the value)."""
    import warnings
    L, U = a - 8.0 * o, b + 8.0 * o
    if U <= L:
        return float(a)
    n = float(n)

    def one_minus_G(y):
        with warnings.catch_warnings():
            warnings.simplefilter("ignore")
            F = np.asarray(dist.cdf(y), dtype=float)
        return (1.0 - F) ** n if minimize else 1.0 - F ** n

    edges = {L, U}
    for e in (a, b, a - 6 * o, b + 6 * o, a - 3 * o, a + 3 * o, b - 3 * o, b + 3 * o):
        if L < e < U:
            edges.add(float(e))
    ps = np.array([1e-12, 1e-9, 1e-6, 1e-4, 1e-3, 1e-2, 0.05, 0.1, 0.25, 0.5, 0.75, 0.9, 0.95, 0.99, 0.999, 1 - 1e-4,
                   1 - 1e-6, 1 - 1e-9])
    lv = 1.0 - (1.0 - ps) ** (1.0 / n) if minimize else ps ** (1.0 / n)
    try:
        with warnings.catch_warnings():
            warnings.simplefilter("ignore")
            qs = np.asarray(dist.ppf(np.clip(lv, 0.0, 1.0)), dtype=float)
        for y in qs:
            if np.isfinite(y) and L < y < U:
                edges.add(float(y))
    except Exception:
        pass
    es = sorted(edges)
    # a few uniform panels as well, so that a wrong ppf cannot starve the subdivision
    es = sorted(set(es) | set(np.linspace(L, U, 33).tolist()))
    return L + adaptive_integral(one_minus_G, es, tol)


# ------------------------------------------------------------------ guarded calls (memory / time)

def guarded_call(fn, timeout=60.0, extra_mem=3 << 30):
    """Run `fn()` in a forked child with an address-space limit (current size + extra_mem) and a wall-clock timeout.
    Returns ("ok", value) | ("timeout", None) | ("memory", None) | ("error", repr).  The value must be picklable."""
    import multiprocessing as mpx
    import resource

    def child(conn):
        try:
            try:
                with open("/proc/self/statm") as f:
                    cur = int(f.read().split()[0]) * resource.getpagesize()
            except Exception:
                cur = 2 << 30
            resource.setrlimit(resource.RLIMIT_AS, (cur + extra_mem, cur + extra_mem))
            try:
                v = fn()
                conn.send(("ok", v))
            except MemoryError:
                conn.send(("memory", None))
            except BaseException as e:   # noqa: BLE001
                if "memory" in repr(e).lower() or "allocate" in repr(e).lower():
                    conn.send(("memory", None))
                else:
                    conn.send(("error", repr(e)))
        finally:
            conn.close()

    ctx = mpx.get_context("fork")
    parent, kid = ctx.Pipe(duplex=False)
    p = ctx.Process(target=child, args=(kid,))
    p.start()
    kid.close()
    res = ("timeout", None)
    if parent.poll(timeout):
        try:
            res = parent.recv()
        except EOFError:
            res = ("memory", None)      # killed without a reply (OOM while pickling / allocating)
    if p.is_alive():
        p.kill()
    p.join()
    return res
