REG = dict(
    trusted_base=[
        "IEEE-754 rounding of numpy inside lagrange_interpolate is not modelled: the theorems are about exact arithmetic and "
        "the gap is measured against the property's own 1e-13*sum|y_j l_j(x)| (right-hand side computed exactly by the model)",
        "np.linalg.lstsq (coefficient recovery) and scipy.special.binom are black boxes: their effect is checked a posteriori "
        "(exact difference polynomial bounded on all of [a,b] by the verified certificate; exact re-expansion of the "
        "untransformed coefficients by the model)",
        "per-piece minimax errors of the knots are recomputed with the library's own remez (C17 certifies each lower bound by "
        "alternation where err_i-atol-1e-13 > 0); mpmath 50-digit enclosures of x^k and exp",
        "convergence of the nested bisection is not proved (OptimizationError is an allowed outcome); its bracket invariants "
        "and the equal-error optimality theorem are",
    ],
    assumptions=["nodes are distinct finite floats, values finite", "f in the family of C17, n <= 15",
                 "ns non-empty with entries 0..6"],
    timeout=dict(quick=1200, thorough=14400),
)
TEXT = dict(
    level="Universal Lean theorems: the executable model of lagrange_interpolate (first barycentric form with node fix-up, as "
          "coded, and the plain Lagrange sum) equals Mathlib's Lagrange.interpolate at every point, hence is exact at the nodes, "
          "the unique polynomial of degree < len(xs) through the points and invariant under permutation; the binomial "
          "re-expansion is composition with the affine transform map (Polynomial.comp) with the code's arithmetic; equal-error "
          "knots are optimal for the true minimax errors (monotone in the interval), bisection bracket invariants. Verified "
          "checker: the exact difference between the coefficient polynomial and the minimax polynomial is bounded at every real "
          "x of [a,b]. Exact-rational differential correspondence on every run.",
    note="Proved: Model = Spec in exact arithmetic, certificate soundness. Compared, not proved: float rounding (inside the "
         "property's tolerances), lstsq, convergence of the knot search.",
)
