"""Generators and oracles shared by the C17 / C18 correspondence harnesses (opda.approximation).

A *function spec* is a JSON-able dict  {"kind": ..., "par": [hex doubles]}  so that every case can be
replayed; `make_f(spec)` turns it into
  f.np(x)      the float callable handed to the library,
  f.mp(x)      the same function in mpmath (50 digits) for enclosures of transcendental values,
  f.poly       exact Fraction coefficients (constant first) when f is a polynomial, else None,
  f.m2         2k when f = x^k with k a positive half-integer (k = m2/2, m2 odd), else None.
"""
import math
import sys
from fractions import Fraction as Fr

import numpy as np

import common as C
import mpmath as mp

mp.mp.dps = 50
if hasattr(sys, "set_int_max_str_digits"):
    sys.set_int_max_str_digits(0)      # exact model replies can have thousands of digits
DEFAULT_ATOL = 256.0 * 2.0 ** -52      # 256 * np.spacing(1.) (pinned)
SLACK = Fr(1, 10 ** 13)


class F:
    pass


def make_f(spec):
    kind = spec["kind"]
    par = [C.unhex(h) for h in spec["par"]]
    f = F()
    f.spec, f.kind, f.par, f.poly, f.m2 = spec, kind, par, None, None
    if kind == "pow":
        (k,) = par
        f.np = lambda x, k=k: np.asarray(x, dtype=float) ** k
        f.mp = lambda x, k=k: mp.power(x, mp.mpf(k))
        if k > 0 and (2 * k) == int(2 * k) and int(2 * k) % 2 == 1:
            f.m2 = int(2 * k)
    elif kind == "exp":
        (l,) = par
        f.np = lambda x, l=l: np.exp(l * np.asarray(x, dtype=float))
        f.mp = lambda x, l=l: mp.exp(mp.mpf(l) * x)
    elif kind == "log":
        (d,) = par
        f.np = lambda x, d=d: np.log(np.asarray(x, dtype=float) + d)
        f.mp = lambda x, d=d: mp.log(x + mp.mpf(d))
    elif kind == "rec":
        (d,) = par
        f.np = lambda x, d=d: 1.0 / (np.asarray(x, dtype=float) + d)
        f.mp = lambda x, d=d: 1 / (x + mp.mpf(d))
    elif kind == "poly":
        cs = par

        def horner(x, cs=cs):
            x = np.asarray(x, dtype=float)
            r = np.zeros_like(x)
            for c in reversed(cs):
                r = r * x + c
            return r
        f.np = horner
        f.poly = [Fr(c) for c in cs]
        f.mp = None
    else:
        raise ValueError(kind)
    ret = spec.get("ret")
    if ret is not None:
        if ret in RET_ALIAS:
            if f.poly != [Fr(0), Fr(1)]:
                raise ValueError("only f(x) = x can hand its argument back")
            f.np = RET_ALIAS[ret][1]
        elif ret in RET_FRESH:
            f.np = (lambda x, base=f.np, wrap=RET_FRESH[ret][1]: wrap(base(x)))
        else:
            raise ValueError(ret)
    return f


# ---------------------------------------------------------------- what kind of object f hands back
#
# "f maps floats to floats": nothing says that the value is a freshly allocated, writeable, contiguous float64 array.  The
# identity - the simplest polynomial - is naturally written so that it returns its argument (or a view of it); a function may
# return a read-only array (np.broadcast_to, a cached table, a memory map) or a strided view of something larger.  The
# mathematical function is the same, so the exact oracles (f.poly, f.mp) are untouched; only f.np changes.

def _readonly(r):
    r = np.array(r, dtype=float)            # fresh copy
    r.setflags(write=False)
    return r


def _strided(r):
    r = np.asarray(r, dtype=float)
    return np.repeat(r[..., None], 2, axis=-1)[..., 0]      # every other element of a fresh buffer: same values, not contiguous


RET_ALIAS = {       # spellings of f(x) = x whose return value IS the argument or shares its memory
    "same_object": ("lambda x: x", lambda x: x),
    "view": ("lambda x: x[...]", lambda x: x[...]),
    "asarray": ("np.asarray", np.asarray),
    "reshape": ("lambda x: x.reshape(x.shape)", lambda x: x.reshape(x.shape)),
    "real": ("np.real", np.real),
    "astype_nocopy": ("lambda x: x.astype(float, copy=False)", lambda x: x.astype(float, copy=False)),
    "readonly_view": ("lambda x: np.broadcast_to(x, np.shape(x))", lambda x: np.broadcast_to(x, np.shape(x))),
}
RET_FRESH = {       # any f: a new array each time, but read-only and / or not contiguous
    "readonly": ("g(x) with .setflags(write=False)", _readonly),
    "noncontiguous": ("np.repeat(g(x)[..., None], 2, axis=-1)[..., 0]", _strided),
    "readonly_noncontiguous": ("np.repeat(g(x)[..., None], 2, axis=-1)[..., 0] with .setflags(write=False)",
                               lambda r: _readonly_flag(_strided(r))),
}


def _readonly_flag(r):
    r.setflags(write=False)
    return r


def source_of(spec):
    """Python text of the callable handed to the library when it is not the plain float formula (for the replay line)"""
    ret = spec.get("ret")
    if ret in RET_ALIAS:
        return "f = " + RET_ALIAS[ret][0]
    if ret in RET_FRESH:
        return "f = " + RET_FRESH[ret][0] + ", g the float64 formula of the spec"
    return None


def spec(kind, *par, ret=None):
    d = dict(kind=kind, par=[C.fhex(p) for p in par])
    if ret is not None:
        d["ret"] = ret
    return d


def mpf_to_fr(v):
    s, man, exp, _bc = v._mpf_
    q = Fr(int(man)) * (Fr(2) ** int(exp))
    return -q if s else q


def enclose(f, xs):
    """rational enclosures [lo, hi] of the mathematical f at the doubles xs (exact for polynomials;
    mpmath at 50 digits, widened by 1e-40 relative, otherwise)"""
    lo, hi = [], []
    for x in xs:
        xq = Fr(float(x))
        if f.poly is not None:
            v = Fr(0)
            for c in reversed(f.poly):
                v = v * xq + c
            lo.append(v)
            hi.append(v)
        else:
            v = mpf_to_fr(f.mp(mp.mpf(xq.numerator) / mp.mpf(xq.denominator)))
            d = abs(v) * Fr(1, 10 ** 40) + Fr(1, 10 ** 60)
            lo.append(v - d)
            hi.append(v + d)
    return lo, hi


def frs(q):
    return f"{q.numerator}/{q.denominator}"


def frlist(qs):
    qs = list(qs)
    return "%d %s" % (len(qs), " ".join(frs(q) for q in qs)) if qs else "0"


def log_uniform(rng, lo, hi):
    return 10.0 ** rng.uniform(math.log10(lo), math.log10(hi))


def gen_width(rng):
    w = log_uniform(rng, 1e-3, 10.0)
    return rng.choice([w, w, w, 1.0, 10.0, 1e-3]) if rng.random() < 0.15 else w


def gen_function(rng, n=None, kinds=("pow", "pow", "exp", "log", "rec", "poly")):
    """one member of the sign-regular family of the property, with an interval of width in [1e-3, 10]"""
    kind = rng.choice(kinds)
    w = gen_width(rng)
    if kind == "pow":
        if rng.random() < 0.35:
            k = rng.choice([0.5, 1.5, 2.5, 3.5, 4.5, 5.5])
        else:
            k = rng.uniform(-0.9, 6.0)
            while k == int(k):
                k = rng.uniform(-0.9, 6.0)
        w = min(w, 9.9)
        a = rng.choice([log_uniform(rng, 1e-3, 10.0 - w), rng.uniform(1e-3, 10.0 - w)])
        a = min(a, 10.0 - w)
        return spec("pow", k), a, a + w
    if kind == "exp":
        l = rng.choice([rng.uniform(-2.5, 2.5), 1.0, -1.0])
        if l == 0.0:
            l = 1.0
        a = rng.uniform(-5.0, 5.0 - w) if w < 10.0 else -5.0
        return spec("exp", l), a, a + w
    if kind in ("log", "rec"):
        a = rng.uniform(-5.0, 5.0)
        d = -a + log_uniform(rng, 1e-2, 10.0)
        return spec(kind, d), a, a + w
    if kind == "poly":
        a = rng.uniform(-5.0, 5.0 - min(w, 9.0))
        top = 7 if n is None else min(7, n + 1)
        deg = rng.randint(0, top)
        cs = [rng.choice([rng.uniform(-2.0, 2.0), float(rng.randint(-3, 3))]) for _ in range(deg + 1)]
        if cs[-1] == 0.0:
            cs[-1] = 1.0
        return spec("poly", *cs), a, a + w
    raise ValueError(kind)


def gen_atol(rng):
    return None if rng.random() < 0.45 else log_uniform(rng, 1e-13, 1e-6)


def atol_value(atol):
    return DEFAULT_ATOL if atol is None else float(atol)


def grid_max(fn, a, b, n_grid=40000, refine=3):
    """max of fn (>= 0, vectorised) over a 40,000-point grid of [a,b] plus local refinement around the
    largest grid values; returns (max, argmax)"""
    xs = np.linspace(a, b, n_grid)
    vs = fn(xs)
    best = int(np.nanargmax(vs))
    bx, bv = float(xs[best]), float(vs[best])
    h = (b - a) / (n_grid - 1)
    # local maxima of the grid values (top few), refined on nested fine grids
    idx = np.argsort(vs)[-8:]
    for i in idx:
        lo, hi = max(a, xs[i] - h), min(b, xs[i] + h)
        for _ in range(refine):
            ys = np.linspace(lo, hi, 201)
            ws = fn(ys)
            j = int(np.nanargmax(ws))
            if ws[j] > bv:
                bv, bx = float(ws[j]), float(ys[j])
            step = (hi - lo) / 200
            lo, hi = max(a, ys[j] - step), min(b, ys[j] + step)
    return bv, bx


def cert_precision(ncoef, a, b, B):
    """number of fractional bits to which the certificate rounds the interpolant's coefficients: the rounding
    error ncoef * 2^-S * max(1,|a|,|b|)^ncoef must be negligible against the bound B (untrusted choice: the
    checker bounds the rounding error exactly whatever S is)"""
    M = max(1.0, abs(a), abs(b))
    Bf = max(float(B), 1e-300)
    return int(max(64, math.ceil(math.log2(ncoef) + ncoef * math.log2(M) - math.log2(Bf) + 40)))


def singularity_scale(spec, a, b):
    """rough distance from [a,b] to where f stops being analytic / the scale on which it varies"""
    kind = spec["kind"]
    par = [C.unhex(h) for h in spec["par"]]
    if kind == "pow":
        return max(a, 1e-6)
    if kind in ("log", "rec"):
        return max(a + par[0], 1e-6)
    if kind == "exp":
        return 4.0 / max(abs(par[0]), 1e-3)
    return None


def gen_degree(rng, spec, a, b, degrees):
    """a degree from `degrees`, mostly (80 %) one for which the minimax error is expected to exceed ~1e-11 so that the
    alternation certificate is not vacuous; the rest unrestricted"""
    sc = singularity_scale(spec, a, b)
    if sc is None or rng.random() < 0.2:
        return rng.choice(degrees)
    rho = (b - a) / (4.0 * sc)
    if rho >= 0.9:
        return rng.choice(degrees)
    nmax = int(math.log(1e-11) / math.log(rho)) - 1
    ok = [n for n in degrees if n <= max(0, nmax)]
    return rng.choice(ok or degrees[:1])


# ---------------------------------------------------------------- how a returned callable is *used* (shared by C17 / C18)
#
# Two input axes of "the returned function is the polynomial", beyond one array call whose result is consumed at once:
#   * scalar queries (Python float, numpy scalar, 0-d array) at a ladder of small distances from given points (the nodes /
#     reference points): the array call and the scalar call may take different code paths;
#   * a history on ONE callable: several queries of the same shape and container, every returned object KEPT (not copied)
#     and looked at only afterwards; a result overwritten in place by the caller; the caller's query array refilled in place.
# Both only *produce observations* (x, returned value, how it was obtained); the verdict is the harness's own clause
# against its exact oracle.

SCALAR_KINDS = ("pyfloat", "np.float64", "0-d array")
NEAR_REL = (1e-10, 1e-9, 3e-9, 1e-8, 1e-7, 1e-6)      # distances from the point, relative to the width of the node set
NEAR_ABS = (1e-9, 1e-8)                               # and absolute (an absolute threshold does not scale with the width)
POISON = -7.25e33


def case_rng(tag, inp):
    """a generator that depends on the case only (not on the run's seed), so that a replay of the case regenerates the
    same scalar queries and call sequences"""
    import json
    return C.rng_for(tag + "|" + json.dumps(C.jsonable(inp), sort_keys=True), 0)


def make_query(kind, shape, vals):
    if kind == "pyfloat":
        return float(vals[0])
    if kind == "pyint":
        return int(vals[0])
    if kind == "np.float64":
        return np.float64(vals[0])
    if kind == "0-d array":
        return np.array(float(vals[0]))
    if kind == "list":
        return [float(v) for v in vals]
    if kind == "ndarray":
        return np.array([float(v) for v in vals], dtype=float).reshape(tuple(shape))
    raise ValueError(kind)


def near_points(pts, w, lo=-math.inf, hi=math.inf, rel=NEAR_REL, absd=NEAR_ABS):
    """[(x, index of the point, signed distance)] with x = pts[i] +- d, d in rel*w u absd, x != pts[i], lo <= x <= hi"""
    out, seen = [], set()
    for i, r in enumerate(pts):
        r = float(r)
        for d in [t * w for t in rel] + list(absd):
            for s in (1.0, -1.0):
                x = float(r + s * d)
                if x != r and math.isfinite(x) and lo <= x <= hi and x not in seen:
                    seen.add(x)
                    out.append((x, i, s * d))
    return out


def history_plans(rng, pool):
    """call sequences on one callable: per plan, `queries` are equally shaped point sets drawn from `pool`, in the order
    first, second, first again (, third); one plan per scalar container, a 1-D array, a list and a 2-/3-D array"""
    P = [float(x) for x in pool]

    def pick(k):
        if k <= len(P):
            return [P[i] for i in rng.sample(range(len(P)), k)]
        return [P[rng.randrange(len(P))] for _ in range(k)]

    def seq(k):
        A, B = pick(k), pick(k)
        qs = [A, B, A]
        if rng.random() < 0.5:
            qs.append(pick(k))
        return qs
    plans = [dict(container=kind, shape=[], queries=seq(1)) for kind in SCALAR_KINDS]
    # a list comprehension over scalars, the everyday form of "several scalar calls"
    plans.append(dict(container=rng.choice(SCALAR_KINDS), shape=[], queries=[[x] for x in pick(rng.choice([3, 5, 8]))]))
    k = rng.choice([1, 2, 3, 5])
    plans.append(dict(container="ndarray", shape=[k], queries=seq(k)))
    k = rng.choice([1, 2, 4])
    plans.append(dict(container="list", shape=[k], queries=seq(k)))
    sh = rng.choice([(2, 2), (1, 3), (3, 1), (2, 1, 2), (1, 1)])
    plans.append(dict(container="ndarray", shape=list(sh), queries=seq(int(np.prod(sh)))))
    return plans


def plan_repr(plan):
    return dict(container=plan["container"], shape=list(plan["shape"]),
                queries=[[C.fhex(x) for x in q] for q in plan["queries"]],
                queries_float=[[float(x) for x in q] for q in plan["queries"]])


def run_history(p, plan):
    """Run one call sequence on the callable p, keeping every returned object.  Returns (observations, problems):
    observations = dicts(stage, call, xs, values) — `values` is what the kept object of call number `call` holds when read at
    that stage, `xs` the query it was returned for; problems = [(kind, detail)] for shapes and shared memory."""
    kind, shape = plan["container"], tuple(plan["shape"])
    Q = [make_query(kind, shape, vals) for vals in plan["queries"]]
    R = [p(q) for q in Q]                       # kept, never copied
    obs, problems = [], []

    def read(r):
        return [float(v) for v in np.asarray(r, dtype=float).ravel()]

    good = []
    for i, r in enumerate(R):
        if np.shape(r) != shape:
            problems.append(("shape", "call %d: query of shape %r gave shape %r" % (i, shape, np.shape(r))))
            good.append(False)
        else:
            good.append(True)
            obs.append(dict(stage="kept (not copied) while the same callable answered %d more queries of the same shape"
                                  % (len(R) - 1 - i), call=i, xs=plan["queries"][i], values=read(r)))
    arrs = [(i, r) for i, r in enumerate(R) if isinstance(r, np.ndarray) and r.size]
    shared = [(arrs[u][0], arrs[v][0]) for u in range(len(arrs)) for v in range(u + 1, len(arrs))
              if arrs[u][1] is arrs[v][1] or np.shares_memory(arrs[u][1], arrs[v][1])]
    if shared:
        problems.append(("shares_memory", "the objects returned by call %d and call %d share memory (%d such pairs among "
                                          "%d calls)" % (shared[0][0], shared[0][1], len(shared), len(R))))
    # the caller overwrites the last result in place: earlier results and later evaluations must not change
    last = R[-1]
    if isinstance(last, np.ndarray) and last.size and last.flags.writeable:
        last[...] = POISON
        again = p(Q[0])
        if np.shape(again) == shape:
            obs.append(dict(stage="evaluated after the caller overwrote the result of call %d in place" % (len(R) - 1),
                            call=len(R), xs=plan["queries"][0], values=read(again)))
        for i, r in enumerate(R[:-1]):
            if good[i]:
                obs.append(dict(stage="kept result read after the caller overwrote the result of call %d in place and the "
                                      "callable was called once more" % (len(R) - 1), call=i, xs=plan["queries"][i],
                                values=read(r)))
    # the caller refills its own query array in place between two calls
    if kind in ("ndarray", "0-d array") and len(Q) >= 2:
        qa = np.array(Q[0], dtype=float)
        ra = p(qa)
        qa[...] = np.asarray(Q[1], dtype=float)
        rb = p(qa)
        if isinstance(ra, np.ndarray) and ra.size and np.shares_memory(ra, qa):
            problems.append(("shares_memory", "the returned object shares memory with the caller's query array"))
        if np.shape(ra) == shape and np.shape(rb) == shape:
            obs.append(dict(stage="kept result read after the caller refilled its query array in place and called again",
                            call=0, xs=plan["queries"][0], values=read(ra)))
            obs.append(dict(stage="evaluated on the caller's query array refilled in place", call=1, xs=plan["queries"][1],
                            values=read(rb)))
    return obs, problems
