"""Generators and oracles shared by the C17 / C18 correspondence harnesses (opda.approximation).

A *function spec* is a JSON-able dict  {"kind": ..., "par": [hex doubles]}  so that every case can be
replayed; `make_f(spec)` turns it into
  f.np(x)      the float callable handed to the library,
  f.mp(x)      the same function in mpmath (50 digits) for enclosures of transcendental values,
  f.poly       exact Fraction coefficients (constant first) when f is a polynomial, else None,
  f.m2         2k when f = x^k with k a positive half-integer (k = m2/2, m2 odd), else None.
"""
import math
import sys
from fractions import Fraction as Fr

import numpy as np

import common as C
import mpmath as mp

mp.mp.dps = 50
if hasattr(sys, "set_int_max_str_digits"):
    sys.set_int_max_str_digits(0)      # exact model replies can have thousands of digits
DEFAULT_ATOL = 256.0 * 2.0 ** -52      # 256 * np.spacing(1.) (pinned)
SLACK = Fr(1, 10 ** 13)


class F:
    pass


def make_f(spec):
    kind = spec["kind"]
    par = [C.unhex(h) for h in spec["par"]]
    f = F()
    f.spec, f.kind, f.par, f.poly, f.m2 = spec, kind, par, None, None
    if kind == "pow":
        (k,) = par
        f.np = lambda x, k=k: np.asarray(x, dtype=float) ** k
        f.mp = lambda x, k=k: mp.power(x, mp.mpf(k))
        if k > 0 and (2 * k) == int(2 * k) and int(2 * k) % 2 == 1:
            f.m2 = int(2 * k)
    elif kind == "exp":
        (l,) = par
        f.np = lambda x, l=l: np.exp(l * np.asarray(x, dtype=float))
        f.mp = lambda x, l=l: mp.exp(mp.mpf(l) * x)
    elif kind == "log":
        (d,) = par
        f.np = lambda x, d=d: np.log(np.asarray(x, dtype=float) + d)
        f.mp = lambda x, d=d: mp.log(x + mp.mpf(d))
    elif kind == "rec":
        (d,) = par
        f.np = lambda x, d=d: 1.0 / (np.asarray(x, dtype=float) + d)
        f.mp = lambda x, d=d: 1 / (x + mp.mpf(d))
    elif kind == "poly":
        cs = par

        def horner(x, cs=cs):
            x = np.asarray(x, dtype=float)
            r = np.zeros_like(x)
            for c in reversed(cs):
                r = r * x + c
            return r
        f.np = horner
        f.poly = [Fr(c) for c in cs]
        f.mp = None
    else:
        raise ValueError(kind)
    return f


def spec(kind, *par):
    return dict(kind=kind, par=[C.fhex(p) for p in par])


def mpf_to_fr(v):
    s, man, exp, _bc = v._mpf_
    q = Fr(int(man)) * (Fr(2) ** int(exp))
    return -q if s else q


def enclose(f, xs):
    """rational enclosures [lo, hi] of the mathematical f at the doubles xs (exact for polynomials;
    mpmath at 50 digits, widened by 1e-40 relative, otherwise)"""
    lo, hi = [], []
    for x in xs:
        xq = Fr(float(x))
        if f.poly is not None:
            v = Fr(0)
            for c in reversed(f.poly):
                v = v * xq + c
            lo.append(v)
            hi.append(v)
        else:
            v = mpf_to_fr(f.mp(mp.mpf(xq.numerator) / mp.mpf(xq.denominator)))
            d = abs(v) * Fr(1, 10 ** 40) + Fr(1, 10 ** 60)
            lo.append(v - d)
            hi.append(v + d)
    return lo, hi


def frs(q):
    return f"{q.numerator}/{q.denominator}"


def frlist(qs):
    qs = list(qs)
    return "%d %s" % (len(qs), " ".join(frs(q) for q in qs)) if qs else "0"


def log_uniform(rng, lo, hi):
    return 10.0 ** rng.uniform(math.log10(lo), math.log10(hi))


def gen_width(rng):
    w = log_uniform(rng, 1e-3, 10.0)
    return rng.choice([w, w, w, 1.0, 10.0, 1e-3]) if rng.random() < 0.15 else w


def gen_function(rng, n=None, kinds=("pow", "pow", "exp", "log", "rec", "poly")):
    """one member of the sign-regular family of the property, with an interval of width in [1e-3, 10]"""
    kind = rng.choice(kinds)
    w = gen_width(rng)
    if kind == "pow":
        if rng.random() < 0.35:
            k = rng.choice([0.5, 1.5, 2.5, 3.5, 4.5, 5.5])
        else:
            k = rng.uniform(-0.9, 6.0)
            while k == int(k):
                k = rng.uniform(-0.9, 6.0)
        w = min(w, 9.9)
        a = rng.choice([log_uniform(rng, 1e-3, 10.0 - w), rng.uniform(1e-3, 10.0 - w)])
        a = min(a, 10.0 - w)
        return spec("pow", k), a, a + w
    if kind == "exp":
        l = rng.choice([rng.uniform(-2.5, 2.5), 1.0, -1.0])
        if l == 0.0:
            l = 1.0
        a = rng.uniform(-5.0, 5.0 - w) if w < 10.0 else -5.0
        return spec("exp", l), a, a + w
    if kind in ("log", "rec"):
        a = rng.uniform(-5.0, 5.0)
        d = -a + log_uniform(rng, 1e-2, 10.0)
        return spec(kind, d), a, a + w
    if kind == "poly":
        a = rng.uniform(-5.0, 5.0 - min(w, 9.0))
        top = 7 if n is None else min(7, n + 1)
        deg = rng.randint(0, top)
        cs = [rng.choice([rng.uniform(-2.0, 2.0), float(rng.randint(-3, 3))]) for _ in range(deg + 1)]
        if cs[-1] == 0.0:
            cs[-1] = 1.0
        return spec("poly", *cs), a, a + w
    raise ValueError(kind)


def gen_atol(rng):
    return None if rng.random() < 0.45 else log_uniform(rng, 1e-13, 1e-6)


def atol_value(atol):
    return DEFAULT_ATOL if atol is None else float(atol)


def grid_max(fn, a, b, n_grid=40000, refine=3):
    """max of fn (>= 0, vectorised) over a 40,000-point grid of [a,b] plus local refinement around the
    largest grid values; returns (max, argmax)"""
    xs = np.linspace(a, b, n_grid)
    vs = fn(xs)
    best = int(np.nanargmax(vs))
    bx, bv = float(xs[best]), float(vs[best])
    h = (b - a) / (n_grid - 1)
    # local maxima of the grid values (top few), refined on nested fine grids
    idx = np.argsort(vs)[-8:]
    for i in idx:
        lo, hi = max(a, xs[i] - h), min(b, xs[i] + h)
        for _ in range(refine):
            ys = np.linspace(lo, hi, 201)
            ws = fn(ys)
            j = int(np.nanargmax(ws))
            if ws[j] > bv:
                bv, bx = float(ws[j]), float(ys[j])
            step = (hi - lo) / 200
            lo, hi = max(a, ys[j] - step), min(b, ys[j] + step)
    return bv, bx


def cert_precision(ncoef, a, b, B):
    """number of fractional bits to which the certificate rounds the interpolant's coefficients: the rounding
    error ncoef * 2^-S * max(1,|a|,|b|)^ncoef must be negligible against the bound B (untrusted choice: the
    checker bounds the rounding error exactly whatever S is)"""
    M = max(1.0, abs(a), abs(b))
    Bf = max(float(B), 1e-300)
    return int(max(64, math.ceil(math.log2(ncoef) + ncoef * math.log2(M) - math.log2(Bf) + 40)))


def singularity_scale(spec, a, b):
    """rough distance from [a,b] to where f stops being analytic / the scale on which it varies"""
    kind = spec["kind"]
    par = [C.unhex(h) for h in spec["par"]]
    if kind == "pow":
        return max(a, 1e-6)
    if kind in ("log", "rec"):
        return max(a + par[0], 1e-6)
    if kind == "exp":
        return 4.0 / max(abs(par[0]), 1e-3)
    return None


def gen_degree(rng, spec, a, b, degrees):
    """a degree from `degrees`, mostly (80 %) one for which the minimax error is expected to exceed ~1e-11 so that the
    alternation certificate is not vacuous; the rest unrestricted"""
    sc = singularity_scale(spec, a, b)
    if sc is None or rng.random() < 0.2:
        return rng.choice(degrees)
    rho = (b - a) / (4.0 * sc)
    if rho >= 0.9:
        return rng.choice(degrees)
    nmax = int(math.log(1e-11) / math.log(rho)) - 1
    ok = [n for n in degrees if n <= max(0, nmax)]
    return rng.choice(ok or degrees[:1])
