"""C20 correspondence: experiments.analytic (ellipse_volume, get_approximation_parameters) and
experiments.simulation (Simulation.run) against the Lean model `Opda.Exp` (driver ops `exp.*`).

(a) ellipse_volume(cs), d = 0..12: against the Lean Float model (jitter allowance) and against the exact formula
    pi^(d/2)/Gamma(d/2+1)*prod(cs) evaluated by mpmath (the Spec oracle); permutation invariance; homogeneity of
    degree one in each axis (bit-exact for factors 2^k); ValueError for anything but a 1-D array.
(b) get_approximation_parameters on strictly concave quadratics f(x) = b - (x-x*)^T A (x-x*)/2, A = Q diag(lam) Q^T
    (diagonal: Q = 1; rotated: Q Haar-ish orthogonal), d = 1..6, with a box that contains the level ellipsoid
    {f >= y0}, y0 = b - t0.  differential_evolution / autograd.hessian / np.linalg.eigvals are black boxes:
      * c == d exactly; b is the maximum of f to the optimiser's accuracy (1e-7 relative to max(1,|b|), never above it);
      * a against the Lean model `exp.params` fed with the *returned* b (the optimiser's public output), the generated
        eigenvalues and the bounds: 1e-9 relative + jitter allowance;
      * THE PROPERTY: for levels y in [max(a, y0), b] (level ellipsoid inside the box; theorem tail_exact_uniform),
        P[f(X) > y] for X uniform on the box -- computed independently and exactly as the closed-form volume ratio
        V_d (2(b-y))^(d/2) / sqrt(prod lam) / vol(box) from the generated eigenvalues with mpmath -- equals
        1 - QuadraticDistribution(a, b, c, convex=False).cdf(y) (tolerance 1e-7 absolute: the optimiser locates b only
        to about 1e-8; the formula itself is compared at 1e-9 through the model).  A Sobol estimate of the same
        probability is a sanity figure for the oracle only (a miss is reported as a broken oracle, never a violation).
      * in d = 1 with the optimum centred the box *is* the level set {f >= a}: the literal statement (all y in [a,b]).
      * ValueError for malformed bounds.
(c) Simulation.run on make_damped_linear_sin objectives: documented shapes, ns, echo of the arguments, every point
    inside the bounds, yss == func(xss) recomputed, xs/ys equal to the first trial, yss_cummax equal to the model's
    running maximum *exactly* (driver op exp.sim on the exact values), y_min <= yss <= y_max up to 1e-9 (when the reported
    y_argmin / y_argmax are genuine local optima of func, i.e. results of the polished optimiser: an excess in (1e-9, 1e-7]
    is a violation keyed C20-yss-outside-ymin-ymax-within-optimiser-polish-precision (at most 3 stored per run), a larger
    excess is a global miss on the multimodal objective -- the exclusion the property states, counted as skipped; when
    they are not local optima it is an un-keyed violation),
    y_min/y_max equal func at y_argmin/y_argmax, identical
    results and final generator states for generators in identical states, the supplied generator is advanced,
    ValueError for malformed bounds.
"""
import math
import warnings
from fractions import Fraction as Fr

import numpy as np

import common as C

TOL_MODEL = 1e-9      # Float model vs implementation (relative), plus the jitter allowance
TOL_B = 1e-7          # b vs the true maximum: accuracy of the black-box optimiser (polish ftol 2.2e-9), relative to max(1, |b|)
TOL_TAIL = 1e-7       # P[f(X) > y] vs 1 - cdf(y): absorbs the optimiser's error in b (levels keep b - y >= 0.05 t0)
TOL_RANGE = 1e-9      # property: y_min <= yss <= y_max up to 1e-9
ULP = 2.0 ** -52
TOL_EXACT_ULPS = 64   # ellipse_volume vs the exact formula: rounding of pow, gamma and d multiplications


def load_modules():
    import importlib
    import os
    analytic = importlib.import_module("experiments.analytic")
    simulation = importlib.import_module("experiments.simulation")
    src = os.path.abspath(os.path.join(C.REPO, "src"))
    for m in (analytic, simulation):
        if not os.path.abspath(m.__file__).startswith(src):
            raise RuntimeError(f"{m.__name__} imported from {m.__file__}, expected under {src}")
    return analytic, simulation


WORST = {}


def worst(name, value):
    """largest observed deviation per comparison (printed into the evidence: how much room the tolerances leave)"""
    value = float(value)
    if value == value and value > WORST.get(name, 0.0):
        WORST[name] = value


def rel(a, b):
    return abs(a - b) / max(abs(a), abs(b), 1e-300)


def hexes(xs):
    return [C.fhex(v) for v in np.ravel(xs)]


# ------------------------------------------------------------------ (a) ellipse_volume

def exact_ellipse(cs):
    import mpmath as mp
    d = len(cs)
    v = mp.pi ** (mp.mpf(d) / 2) / mp.gamma(mp.mpf(d) / 2 + 1)
    for c in cs:
        v *= mp.mpf(float(c))
    return v


def gen_axes(rng, d):
    kind = rng.choice(["unit", "log", "wide", "near1"])
    if kind == "unit":
        return [1.0] * d
    if kind == "log":
        return [10 ** rng.uniform(-1, 1) for _ in range(d)]
    if kind == "wide":
        return [10 ** rng.uniform(-6, 6) for _ in range(d)]
    return [1.0 + rng.uniform(-1e-3, 1e-3) for _ in range(d)]


def run_ellipse(rep, rng, drv, tier, analytic):
    import mpmath as mp
    mp.mp.dps = 40
    per_d = 12 if tier == "quick" else 60
    cases = [(d, gen_axes(rng, d)) for d in range(0, 13) for _ in range(per_d)]
    replies = drv.run([("exp.ellipse", "1 " + C.flist(cs)) for _, cs in cases])
    for (d, cs), r in zip(cases, replies):
        call = f"ellipse_volume({cs!r})"
        inp = dict(cs=cs, cs_hex=hexes(cs))
        rep.count(f"ellipse_d={d}")
        try:
            v = analytic.ellipse_volume(cs if rng.random() < 0.5 else np.array(cs, dtype=float))
        except Exception as e:
            rep.violate(what="ellipse_volume raised on a 1-D array of positive floats", input=inp, error=repr(e), call=call)
            continue
        if np.shape(v) != () or not np.isfinite(v):
            rep.violate(what="ellipse_volume did not return a finite scalar", input=inp, observed=repr(v), call=call)
            continue
        v = float(v)
        ex = exact_ellipse(cs)
        err_exact = float(abs(mp.mpf(v) - ex) / ex)
        rep.case(("ellipse", d, tuple(cs)), sample=dict(op="ellipse_volume", cs=cs, impl=v, exact=float(ex)))
        worst("ellipse_vs_exact_ulps", err_exact / ULP)
        if err_exact > TOL_EXACT_ULPS * ULP:
            rep.violate(what="ellipse_volume(cs) differs from pi^(d/2)/Gamma(d/2+1)*prod(cs) by more than 64 ulps",
                        input=inp, expected=float(ex), observed=v, relative_error=err_exact, call=call)
        if r is None or r[0] == "ValueError":
            rep.disagree(op="exp.ellipse", note="model rejected / raised on a valid 1-D input", input=inp)
        else:
            m, spread = C.unhex(r[0]), C.unhex(r[1])
            worst("ellipse_vs_model_ulps", rel(v, m) / ULP)
            if not abs(v - m) <= TOL_MODEL * abs(m) + 16 * spread and err_exact <= TOL_EXACT_ULPS * ULP:
                rep.disagree(op="exp.ellipse", note="Float model and implementation differ although the implementation "
                             "matches the exact formula", input=inp, model=m, impl=v)
        if d == 0:
            continue
        # permutation invariance (np.prod rounds in a different order: a few ulps)
        perm = list(cs)
        rng.shuffle(perm)
        vp = float(analytic.ellipse_volume(perm))
        rep.case(("ellipse_perm", d, tuple(perm)))
        worst("ellipse_permutation_ulps", rel(vp, v) / ULP)
        if rel(vp, v) > (d + 2) * ULP:
            rep.violate(what="ellipse_volume is not permutation invariant (beyond the rounding of d multiplications)",
                        input=dict(inp, permuted=perm), expected=v, observed=vp, call=f"ellipse_volume({perm!r})")
        # homogeneity of degree one in each axis: bit-exact for a power of two, a few ulps otherwise
        i = rng.randrange(d)
        for t in (2.0 ** rng.randint(-8, 8), rng.uniform(0.1, 10.0)):
            sc = list(cs)
            sc[i] = t * sc[i]
            vs = float(analytic.ellipse_volume(sc))
            rep.case(("ellipse_homog", d, i, t, tuple(cs)))
            exact_scaling = math.frexp(t)[0] == 0.5
            if not exact_scaling:
                worst("ellipse_homogeneity_ulps", rel(vs, t * v) / ULP)
            if (vs != t * v) if exact_scaling else (rel(vs, t * v) > (d + 4) * ULP):
                rep.violate(what="ellipse_volume is not homogeneous of degree one in axis %d" % i,
                            input=dict(inp, axis=i, factor=t), expected=t * v, observed=vs,
                            call=f"ellipse_volume({sc!r}) vs {t!r} * ellipse_volume({cs!r})")
    # anything but a 1-D array raises ValueError
    bad = [(0, 2.0, "2.0"), (2, [[1.0, 2.0], [3.0, 4.0]], "[[1., 2.], [3., 4.]]"), (3, np.ones((2, 1, 2)), "np.ones((2, 1, 2))"),
           (2, np.ones((0, 2)), "np.ones((0, 2))"), (2, [[1.0, 2.0, 3.0]], "[[1., 2., 3.]]")]
    replies = drv.run([("exp.ellipse", f"{nd} " + C.flist(np.ravel(np.array(x, dtype=float)))) for nd, x, _ in bad])
    for (nd, x, txt), r in zip(bad, replies):
        rep.case(("ellipse_invalid", txt))
        rep.count("ellipse_invalid")
        if r is None or r[0] != "ValueError":
            rep.disagree(op="exp.ellipse", note="model does not raise for a non-1-D input", input=dict(cs=txt))
        try:
            v = analytic.ellipse_volume(x)
            rep.violate(what="ellipse_volume accepts an array that is not 1-D", input=dict(cs=txt), expected="ValueError",
                        observed=repr(v), call=f"ellipse_volume({txt})")
        except ValueError:
            pass
        except Exception as e:
            rep.violate(what="ellipse_volume raises the wrong exception class for a non-1-D array", input=dict(cs=txt),
                        expected="ValueError", observed=repr(e), call=f"ellipse_volume({txt})")


# ------------------------------------------------------------------ (b) get_approximation_parameters

def make_quadratic(kind, lam, Q, xstar, b):
    """the objective handed to the implementation, written with autograd.numpy so that autograd.hessian applies"""
    from autograd import numpy as npx
    lam, Q, xstar = np.array(lam), np.array(Q), np.array(xstar)
    if kind == "diag":
        def f(x):
            z = x - xstar
            return b - 0.5 * npx.sum(lam * z ** 2, axis=-1)
        return f
    A = (Q * lam) @ Q.T
    A = (A + A.T) / 2

    def f(x):
        z = x - xstar
        return b - 0.5 * npx.sum(z * npx.dot(z, A), axis=-1)
    return f


def gen_quadratic(rng, d, kind, centred_1d=False):
    lam = [10 ** rng.uniform(-0.3, 0.7) for _ in range(d)]
    if kind == "rotated":
        g = np.random.default_rng(rng.getrandbits(63))
        Q, R = np.linalg.qr(g.normal(size=(d, d)))
        Q = Q * np.sign(np.diag(R))
    else:
        Q = np.eye(d)
    xstar = [rng.uniform(-1, 1) for _ in range(d)]
    b = rng.uniform(-3, 3)
    t0 = rng.uniform(0.5, 3.0)
    # half-extent of {f >= b - t} along axis i is sqrt(2 t (A^-1)_ii), A^-1 = Q diag(1/lam) Q^T
    ainv_diag = np.sum(Q * Q / np.array(lam), axis=1)
    half = np.sqrt(2 * t0 * ainv_diag)
    if centred_1d:
        lo, hi = [xstar[0] - half[0]], [xstar[0] + half[0]]
    else:
        style = rng.choice(["touching", "loose", "mixed"])
        def m():
            return 1.0 if style == "touching" or (style == "mixed" and rng.random() < 0.5) else 1.0 + rng.uniform(0.01, 1.5)
        lo = [xstar[i] - half[i] * m() for i in range(d)]
        hi = [xstar[i] + half[i] * m() for i in range(d)]
    return dict(d=d, kind=kind, lam=lam, Q=Q, xstar=xstar, b=b, t0=t0, lo=lo, hi=hi, np_seed=rng.getrandbits(32),
                centred_1d=centred_1d)


N_LOC_QUICK = 32
LOCATIONS = [0.0, 1e3, 1e5, 1e7]       # translation of the whole problem, in units of the box width per coordinate


def relocate(rng, q, K, position):
    """the *location* axis of the tail identity: the same quadratic (lam, Q, b, t0) with its optimum and its box translated by
    +-K box widths per coordinate (the property is translation invariant: P[f(X) > y] is a ratio of volumes), and the position of
    the optimum *within* the box: "centred" keeps the generated margins, "near_face" widens the box on the far side of one or
    two coordinates so that the (strictly interior) optimum sits at 0.2-5 % of the width from a face.  The box is rebuilt from
    the translated optimum, so the level ellipsoid {f >= b - t0} lies inside it exactly as before (up to the rounding of the
    end points, the same as in the untranslated strata)."""
    d = q["d"]
    ainv_diag = np.sum(np.array(q["Q"]) ** 2 / np.array(q["lam"]), axis=1)
    half = np.sqrt(2 * q["t0"] * ainv_diag)
    dlo = [q["xstar"][i] - q["lo"][i] for i in range(d)]       # margins of the generated box (>= half up to rounding)
    dhi = [q["hi"][i] - q["xstar"][i] for i in range(d)]
    near = []
    if position == "near_face":
        near = rng.sample(range(d), 1 if d == 1 or rng.random() < 0.7 else 2)
        for i in near:
            m = half[i] * rng.uniform(1.0, 1.05)                # distance of the optimum from the near face (ellipsoid inside)
            width = m / (0.002 * 25 ** rng.random())            # log-uniform: the optimum at 0.2-5 % of the width from the face
            if rng.random() < 0.5:
                dlo[i], dhi[i] = m, width - m
            else:
                dlo[i], dhi[i] = width - m, m
    xs, lo, hi, shifts = [], [], [], []
    for i in range(d):
        sh = rng.choice([-1.0, 1.0]) * K * (dlo[i] + dhi[i])
        x = q["xstar"][i] + sh
        l, h = x - dlo[i], x + dhi[i]
        if K and not (l < x < h and min(x - l, h - x) >= half[i] * (1 - 1e-9) - 4 * math.ulp(abs(x))):
            raise AssertionError("harness: the translated box does not contain the level ellipsoid")
        xs.append(x); lo.append(l); hi.append(h); shifts.append(sh)
    rel_dist = min(min(xs[i] - lo[i], hi[i] - xs[i]) / (hi[i] - lo[i]) for i in range(d))
    return dict(q, xstar=xs, lo=lo, hi=hi, np_seed=rng.getrandbits(32), centred_1d=False,
                location=dict(K=K, position=position, near_face_axes=near, shift=shifts,
                              optimum_to_nearest_face_over_width=rel_dist))


SCALES_X = [1e-4, 1.0, 1e4, 1e6]
SCALES_F = [1e-6, 1.0, 1e6]
N_SCALE_QUICK = 36


def rescale(q, sx, sf):
    """the *scale* axis of the tail identity: the same quadratic in other units, f'(x') = sf * f(x' / sx) on the box sx * [lo, hi]
    (curvature A' = sf A / sx^2: entries from 1e-14 to 1e+14, maximum sf b, level depth sf t0).  P[f(X) > y] is a ratio of volumes,
    so every tail probability is what it was; a flat objective on a wide, un-normalised box (sx = 1e4, sf = 1: a hyper-parameter such as
    "number of steps") and a steep one on a tiny box are the same problem.  The box is rebuilt from the scaled optimum and the scaled
    margins, so the level ellipsoid {f' >= sf (b - t0)} lies inside it exactly as before (up to the rounding of the end points)."""
    d = q["d"]
    lam = [sf * l / (sx * sx) for l in q["lam"]]
    ainv_diag = np.sum(np.array(q["Q"]) ** 2 / np.array(lam), axis=1)
    t0 = sf * q["t0"]
    half = np.sqrt(2 * t0 * ainv_diag)
    xs, lo, hi = [], [], []
    for i in range(d):
        x = sx * q["xstar"][i]
        l, h = x - sx * (q["xstar"][i] - q["lo"][i]), x + sx * (q["hi"][i] - q["xstar"][i])
        if not (l < x < h and min(x - l, h - x) >= half[i] * (1 - 1e-9)):
            raise AssertionError("harness: the rescaled box does not contain the level ellipsoid")
        xs.append(x); lo.append(l); hi.append(h)
    A = (np.array(q["Q"]) * np.array(lam)) @ np.array(q["Q"]).T
    off = A - np.diag(np.diag(A))
    return dict(q, lam=lam, xstar=xs, lo=lo, hi=hi, b=sf * q["b"], t0=t0, centred_1d=False,
                scale=dict(x_factor=sx, f_factor=sf, largest_curvature_entry=float(np.max(np.abs(A))),
                           largest_off_diagonal_curvature_entry=float(np.max(np.abs(off))) if d > 1 else 0.0))


def exact_tail(q, y):
    """P[f(X) > y], X uniform on the box, for a level whose ellipsoid lies inside the box: closed-form volume ratio"""
    import mpmath as mp
    d = q["d"]
    t = mp.mpf(q["b"]) - mp.mpf(y)
    if t <= 0:
        return 0.0
    vd = mp.pi ** (mp.mpf(d) / 2) / mp.gamma(mp.mpf(d) / 2 + 1)
    det = mp.mpf(1)
    for l in q["lam"]:
        det *= mp.mpf(l)
    box = mp.mpf(1)
    for l, h in zip(q["lo"], q["hi"]):
        box *= mp.mpf(h) - mp.mpf(l)
    return float(vd * (2 * t) ** (mp.mpf(d) / 2) / mp.sqrt(det) / box)


def describe(q):
    out = dict(d=q["d"], kind=q["kind"], lam=q["lam"], Q=np.array(q["Q"]).tolist(), xstar=q["xstar"], b=q["b"],
               bounds=[[l, h] for l, h in zip(q["lo"], q["hi"])], t0=q["t0"], np_seed=q["np_seed"])
    if "location" in q:
        out["location"] = q["location"]
    if "scale" in q:
        out["scale"] = q["scale"]
    return out


B_FINDING = "C20-b-off-where-the-box-coordinates-absorb-the-optimiser-polish-step"


def polish_blind(lo, hi):
    """some coordinate of the whole box has |x| >= 2^27: there ulp(x)/2 = 1.49e-8 exceeds the absolute forward-difference step
    1e-8 of the L-BFGS-B polish inside scipy's differential_evolution, x + 1e-8 == x, the numerical gradient is 0 and what is
    returned is the unpolished population best (convergence tol 0.01)"""
    return any((l > 0) == (h > 0) and min(abs(l), abs(h)) >= 2.0 ** 27 for l, h in zip(lo, hi))


def b_finding_key(lo, hi, b_returned, b_true):
    """explicit predicate on the failing input: polish-blind box, b below the maximum (never above) by at most 1e-2 relative
    (measured on the unchanged tree: up to 1.1e-3; below 2^27 the error stays under 3e-9)"""
    rel_err = (b_true - b_returned) / max(1.0, abs(b_true))
    return B_FINDING if polish_blind(lo, hi) and 0 <= rel_err <= 1e-2 else None


SCALE_FINDING = "C20-b-off-where-the-scale-of-the-objective-defeats-the-optimiser-polish"
LBFGSB_PGTOL, LBFGSB_FTOL, LBFGSB_FD_STEP = 1e-5, 2.220446049250313e-09, 1e-8     # scipy's defaults, used by differential_evolution's polish
SCALE_FINDING_CAP = 5e-2     # of the level depth t0 (measured on the unchanged tree, 1100 calls, d = 1..6: up to 9.1e-3)


def polish_defeated_by_scale(lam, d, b_true, b_returned):
    """which of the ABSOLUTE constants of the L-BFGS-B polish inside scipy's differential_evolution (projected-gradient tolerance 1e-5 in
    the max norm, relative-decrease tolerance 2.2e-9 of max(1, |f|), forward-difference step 1e-8) cannot resolve the objective at the
    returned level, with delta = max f - b_returned and the generated curvatures lam (explicit predicates on the failing input):
      pgtol:    somewhere on the level surface {f = b_returned} the gradient's max norm is <= 1e-5 (its smallest value there is at most
                sqrt(2 delta lam_min / d)): the polish declares convergence at the unpolished population best (flat objective);
      ftol:     delta <= 2.2e-9 max(1, |max f|): no step can decrease -f by more than the stopping threshold (objective of tiny range);
      fd_bias:  the forward-difference gradient is biased by lam_max * 1e-8 / 2 > 1e-5: the gradient test cannot be met, the line search
                ends ABNORMAL and differential_evolution discards the unsuccessful polish (steep objective on a tiny box);
      fd_noise: the forward difference of f over the step, at most sqrt(2 delta lam_max) * 1e-8, is below 8 ulps of |f|: the numerical
                gradient is rounding noise (large |f| on a wide box)."""
    delta = b_true - b_returned
    if not delta >= 0:
        return []
    out = []
    if math.sqrt(2 * delta * min(lam) / d) <= LBFGSB_PGTOL:
        out.append("pgtol")
    if delta <= LBFGSB_FTOL * max(1.0, abs(b_true)):
        out.append("ftol")
    if 0.5 * max(lam) * LBFGSB_FD_STEP > LBFGSB_PGTOL:
        out.append("fd_bias")
    if math.sqrt(2 * delta * max(lam)) * LBFGSB_FD_STEP <= 8 * ULP * abs(b_true):
        out.append("fd_noise")
    return out


def scale_finding_key(q, b_returned):
    """explicit predicate on the failing input: b below the maximum of f (never above) by at most 5 % of the level depth t0, and one of
    the polish's absolute constants cannot resolve the objective there.  It keys the *b* clause only; a failing tail level is keyed by
    it only if, in addition, the tail identity holds to 1e-7 with the returned b in place of the maximum (i.e. `a` is right and the
    whole deviation is the optimiser's error in b): see run_params."""
    delta = q["b"] - b_returned
    if 0 <= delta <= SCALE_FINDING_CAP * q["t0"] and polish_defeated_by_scale(q["lam"], q["d"], q["b"], b_returned):
        return SCALE_FINDING
    return None


REPLAY_SNIPPET = ("A = Q @ diag(lam) @ Q.T; f = lambda x: b - 0.5*npx.sum((x-xstar)*npx.dot(x-xstar, A), axis=-1)  "
                  "[autograd.numpy as npx]; np.random.seed(np_seed); get_approximation_parameters(f, bounds)")


def run_params(rep, rng, drv, tier, analytic, lrng, srng):
    from opda import parametric
    from scipy.stats import qmc
    import mpmath as mp
    mp.mp.dps = 40
    n_cases = 120 if tier == "quick" else 600
    qs = []
    for k in range(n_cases):
        d = 1 + k % 6
        kind = "rotated" if (d >= 2 and (k // 6) % 2 == 1) else "diag"
        qs.append(gen_quadratic(rng, d, kind))
    for _ in range(6 if tier == "quick" else 30):
        qs.append(gen_quadratic(rng, 1, "diag", centred_1d=True))
    # location stratum (own generator, so that the strata above are the ones they were): every translation x both positions of
    # the optimum in the box, dimensions and rotated/diagonal cycling
    for k in range(N_LOC_QUICK if tier == "quick" else 160):
        d = 1 + (k // 8) % 4 if tier == "quick" else 1 + (k // 8) % 6
        kind = "rotated" if (d >= 2 and lrng.random() < 0.5) else "diag"
        qs.append(relocate(lrng, gen_quadratic(lrng, d, kind), LOCATIONS[k % 4], ("centred", "near_face")[(k // 4) % 2]))
    # scale stratum (own generator): every pair (x factor, f factor) of SCALES_X x SCALES_F, dimensions cycling against the pairs,
    # mostly rotated (a curvature matrix is only told from its diagonal when it has off-diagonal entries)
    pairs = [(sx, sf) for sx in SCALES_X for sf in SCALES_F]
    for k in range(N_SCALE_QUICK if tier == "quick" else 180):
        d = 1 + (k // len(pairs) + k) % (4 if tier == "quick" else 6)
        kind = "rotated" if (d >= 2 and srng.random() < 0.7) else "diag"
        qs.append(rescale(gen_quadratic(srng, d, kind), *pairs[k % len(pairs)]))

    outs = []
    for q in qs:
        f = make_quadratic(q["kind"], q["lam"], q["Q"], q["xstar"], q["b"])
        bounds = [[l, h] for l, h in zip(q["lo"], q["hi"])]
        inp = describe(q)
        rep.count(f"params_d={q['d']}")
        rep.count(f"params_{q['kind']}")
        if q["centred_1d"]:
            rep.count("params_literal_1d_box_equals_level_set")
        if "location" in q:
            rep.count("params_location:box_translated_by_%g_widths:optimum_%s" % (q["location"]["K"], q["location"]["position"]))
        if "scale" in q:
            rep.count("params_scale:x_times_%g:f_times_%g" % (q["scale"]["x_factor"], q["scale"]["f_factor"]))
            rep.count("params_scale:%s:largest_curvature_entry=1e%+03d" % (q["kind"], int(math.floor(math.log10(q["scale"]["largest_curvature_entry"])))))
            if q["kind"] == "rotated":
                rep.count("params_scale:rotated:largest_off_diagonal_curvature_entry_%s_1e-8"
                          % ("<=" if q["scale"]["largest_off_diagonal_curvature_entry"] <= 1e-8 else ">"))
        np.random.seed(q["np_seed"])     # differential_evolution(seed=None) draws from numpy's global generator
        try:
            with warnings.catch_warnings():
                warnings.simplefilter("ignore")
                a, b, c = analytic.get_approximation_parameters(f, bounds if rng.random() < 0.5 else np.array(bounds))
        except Exception as e:
            rep.violate(what="get_approximation_parameters raised on a concave quadratic with finite bounds", input=inp,
                        error=repr(e), call=REPLAY_SNIPPET)
            outs.append(None)
            continue
        outs.append((f, a, b, c, inp))

    reqs, meta = [], []
    for q, o in zip(qs, outs):
        if o is None:
            continue
        f, a, b, c, inp = o
        d = q["d"]
        rep.case(("params_c", d, q["np_seed"]))
        if isinstance(c, bool) or not isinstance(c, (int, np.integer)) or int(c) != d:
            rep.violate(what="c is not the dimension of the search space", input=inp, expected=d, observed=repr(c), call=REPLAY_SNIPPET)
            continue
        if np.iscomplexobj(a):
            rep.count("a_returned_with_complex_dtype")
        if np.shape(a) != () or np.shape(b) != () or np.imag(a) != 0 or np.imag(b) != 0 or not np.isfinite(a) or not np.isfinite(b):
            rep.violate(what="a, b are not finite real scalars", input=inp, observed=[repr(a), repr(b)], call=REPLAY_SNIPPET)
            continue
        ar, br = float(np.real(a)), float(np.real(b))
        # b: the maximum of f, to the black-box optimiser's accuracy, and never above it
        rep.case(("params_b", d, q["np_seed"]))
        b_err = abs(br - q["b"]) / max(1.0, abs(q["b"]))
        blind = polish_blind(q["lo"], q["hi"])
        worst("b_vs_true_maximum_rel" + ("_where_the_polish_step_is_absorbed" if blind else ""), b_err)
        skey = scale_finding_key(q, br) if br <= q["b"] + 64 * ULP * max(1.0, abs(q["b"])) else None
        if b_err > TOL_B or br > q["b"] + 64 * ULP * max(1.0, abs(q["b"])):
            key = b_finding_key(q["lo"], q["hi"], br, q["b"]) or skey
            if key == B_FINDING:
                rep.count("params_tail_not_judged:" + key)
            if key is not None:
                KEYED[key] = KEYED.get(key, 0) + 1
            if key is not None and KEYED[key] > 3:
                rep.count("repeats_of_" + key)
            else:
                rep.violate(what="b is not the maximum of f (differs by more than 1e-7 relative, or exceeds it)", input=inp,
                            expected=q["b"], observed=br, call=REPLAY_SNIPPET,
                            **({"finding_key": key, "below_maximum_by_fraction_of_t0": (q["b"] - br) / q["t0"],
                                "polish_cannot_resolve": polish_defeated_by_scale(q["lam"], d, q["b"], br)} if key else {}))
            if key != SCALE_FINDING:
                continue
            # keyed by the scale finding: a, c and the tail identity are still judged (below), the tail against the returned b as well
        eigs = [-l for l in q["lam"]]
        bl = " ".join(f"{C.fhex(l)} {C.fhex(h)}" for l, h in zip(q["lo"], q["hi"]))
        # levels with the ellipsoid inside the box: y = b - s t0, s in (0, 1]; plus y = b
        ss = [1.0, rng.uniform(0.05, 1.0), rng.uniform(0.05, 1.0), rng.uniform(0.05, 0.3), rng.uniform(0.7, 1.0)]
        ys = [q["b"] - s * q["t0"] for s in ss]
        ys = [max(y, ar) for y in ys] + [q["b"]]       # the top level is the true maximum (>= the returned b): both tails vanish
        reqs.append(("exp.params", f"{C.fhex(br)} {C.flist(eigs)} {d} {bl}"))
        reqs.append(("exp.tail", f"{C.fhex(br)} {C.flist(eigs)} {d} {bl} {C.flist(ys)}"))
        meta.append((q, f, a, ar, br, int(c), ys, inp, skey))
    replies = drv.run(reqs)

    scale_counted = set()
    for k, (q, f, a, ar, br, c, ys, inp, skey) in enumerate(meta):
        rp, rt = replies[2 * k], replies[2 * k + 1]
        d = q["d"]
        scale = max(1.0, abs(ar), abs(br))
        # ---- the returned a against the model fed with the returned b
        a_ok = None
        if rp is None:
            rep.disagree(op="exp.params", note="model rejected a valid input", input=inp)
        else:
            am, sa, bm, cm = C.unhex(rp[0]), C.unhex(rp[1]), C.unhex(rp[2]), int(rp[3])
            rep.case(("params_a", d, q["np_seed"]), sample=dict(op="get_approximation_parameters", d=d, kind=q["kind"],
                                                                 impl=[ar, br, c], model=[am, bm, cm]))
            a_ok = abs(ar - am) <= TOL_MODEL * scale + 16 * sa
            worst("a_vs_model_rel", abs(ar - am) / scale)
            if bm != br or cm != c:
                rep.disagree(op="exp.params", note="model b/c differ from the implementation's", input=inp, model=[bm, cm], impl=[br, c])
        # ---- the property: exact tail probability against 1 - cdf of the returned parameters
        try:
            with warnings.catch_warnings():
                warnings.simplefilter("ignore")
                dist = parametric.QuadraticDistribution(a, br, c, convex=False)
                tails = 1 - dist.cdf(np.array(ys))
        except Exception as e:
            rep.violate(what="the returned (a, b, c) are not accepted by QuadraticDistribution(convex=False)", input=inp,
                        observed=[repr(a), br, c], error=repr(e), call=REPLAY_SNIPPET)
            continue
        if np.shape(tails) != (len(ys),) or np.any(np.imag(tails) != 0):
            rep.violate(what="1 - cdf(y) of the returned parameters is not a real array", input=inp, observed=repr(tails), call=REPLAY_SNIPPET)
            continue
        tails = np.real(tails).astype(float)
        tail_bad = False
        for j, (y, tc) in enumerate(zip(ys, tails)):
            pe = exact_tail(q, y)
            rep.case(("tail", d, q["np_seed"], j), sample=dict(op="P[f(X)>y] vs 1-cdf(y)", d=d, kind=q["kind"], y=y,
                                                                exact=pe, impl=float(tc)))
            worst("tail_vs_exact_abs", abs(tc - pe))
            if not abs(tc - pe) <= TOL_TAIL:
                # the scale finding explains a failing level only if the whole deviation is the optimiser's error in b: with the
                # returned b in place of the maximum the identity must hold at the property's tolerance (then `a` is right)
                pe_given_b = exact_tail(dict(q, b=br), y) if skey is not None else None
                if pe_given_b is not None and abs(tc - pe_given_b) <= TOL_TAIL:
                    if id(q) not in scale_counted:
                        scale_counted.add(id(q))
                        rep.count("params_calls_keyed_by_the_scale_finding")
                        for why in polish_defeated_by_scale(q["lam"], d, q["b"], br):
                            rep.count("params_scale_finding:polish_cannot_resolve_the_objective_at_the_returned_level:" + why)
                    worst("tail_vs_exact_with_the_returned_b_abs_(scale_finding)", abs(tc - pe_given_b))
                    KEYED[skey + ":tail"] = KEYED.get(skey + ":tail", 0) + 1
                    if KEYED[skey + ":tail"] > 3:
                        rep.count("repeats_of_" + skey + ":tail")
                    else:
                        rep.violate(what="P[f(X) > y] (exact volume ratio, level ellipsoid inside the box) differs from 1 - QuadraticDistribution"
                                    "(a, b, c, convex=False).cdf(y) by more than 1e-7 because the returned b is below the maximum of f "
                                    "(with the returned b in place of the maximum the identity holds to 1e-7)",
                                    input=dict(inp, y=y, y_hex=C.fhex(y), returned=[ar, br, c]), expected=pe, observed=float(tc),
                                    expected_with_the_returned_b=pe_given_b, below_maximum_by_fraction_of_t0=(q["b"] - br) / q["t0"],
                                    polish_cannot_resolve=polish_defeated_by_scale(q["lam"], d, q["b"], br), finding_key=skey,
                                    call=REPLAY_SNIPPET + "; 1 - QuadraticDistribution(a, b, c, convex=False).cdf(y)")
                    continue
                tail_bad = True
                rep.violate(what="P[f(X) > y] (exact volume ratio, level ellipsoid inside the box) differs from "
                            "1 - QuadraticDistribution(a, b, c, convex=False).cdf(y) by more than 1e-7",
                            input=dict(inp, y=y, y_hex=C.fhex(y), returned=[ar, br, c]), expected=pe, observed=float(tc),
                            call=REPLAY_SNIPPET + "; 1 - QuadraticDistribution(a, b, c, convex=False).cdf(y)")
            if rt is not None:
                tm, st = C.unhex(rt[2 * j]), C.unhex(rt[2 * j + 1])
                worst("tail_vs_model_abs", abs(tc - tm))
                if not abs(tc - tm) <= TOL_MODEL + 16 * st and a_ok and abs(tc - pe) <= TOL_TAIL:
                    rep.disagree(op="exp.tail", note="Float model of 1 - cdf(y) and the implementation differ although both "
                                 "agree on a and the implementation matches the exact probability", input=dict(inp, y=y),
                                 model=tm, impl=float(tc))
        if rt is None:
            rep.disagree(op="exp.tail", note="model rejected a valid input", input=inp)
        if a_ok is False:
            # the formula for a differs from the model: it is a violation exactly if the tail identity fails somewhere in
            # [a, b]; the exact probability at the model's own mid level decides
            if tail_bad:
                pass    # already reported with a failing level
            else:
                am = C.unhex(rp[0])
                ymid = br - 0.5 * min(q["t0"], br - max(am, ar))
                pe = exact_tail(q, ymid)
                tc = float(np.real(1 - dist.cdf(ymid)))
                if abs(tc - pe) > TOL_TAIL:
                    rep.violate(what="a differs from y_max - (1/omega)^(2/d) and the tail identity fails", input=dict(inp, y=ymid, returned=[ar, br, c]),
                                expected=pe, observed=tc, call=REPLAY_SNIPPET)
                else:
                    rep.disagree(op="exp.params", note="a differs from the model by more than 1e-9 relative but no level with a "
                                 "failing tail identity was found", input=inp, model=am, impl=ar)
        # ---- sanity figure for the oracle: scrambled Sobol estimate of P[f(X) > y0]
        if k % 4 == 0:
            y0 = max(q["b"] - q["t0"], ar)
            pts = qmc.Sobol(d, scramble=True, seed=q["np_seed"]).random_base2(14)
            X = np.array(q["lo"]) + (np.array(q["hi"]) - np.array(q["lo"])) * pts
            pq = float(np.mean(f(X) > y0))
            pe = exact_tail(q, y0)
            rep.count("oracle_sobol_checks")
            worst("oracle_sobol_vs_exact_abs", abs(pq - pe))
            if abs(pq - pe) > 0.03:
                rep.disagree(op="oracle", note="the closed-form probability disagrees with its quasi-Monte-Carlo estimate "
                             "(the harness's oracle is wrong)", input=dict(inp, y=y0), exact=pe, sobol=pq)
            elif len(rep.notes) < 3:
                rep.notes.append(f"sanity: d={d} {q['kind']} P[f(X)>y0] exact {pe:.6f} vs Sobol(16384) {pq:.6f}")

    # malformed bounds raise ValueError before anything else happens
    f1 = make_quadratic("diag", [1.0, 1.0], np.eye(2), [0.0, 0.0], 0.0)
    bad = [([3], True, [-1.0, 0.0, 1.0], "[-1., 0., 1.]"), ([2, 3], True, [[-1.0, 0.0, 1.0]] * 2, "[[-1., 0., 1.]] * 2"),
           ([2, 2, 2], True, np.zeros((2, 2, 2)), "np.zeros((2, 2, 2))"), ([], True, 1.0, "1.0"),
           ([2, 2], False, [[-1.0, 1.0], [-1.0, float("inf")]], "[[-1., 1.], [-1., inf]]"),
           ([2, 2], False, [[float("nan"), 1.0], [-1.0, 1.0]], "[[nan, 1.], [-1., 1.]]"),
           ([2, 1], True, [[-1.0], [1.0]], "[[-1.], [1.]]")]
    replies = drv.run([("exp.bounds", f"{C.ilist(sh)} {1 if fin else 0}") for sh, fin, _, _ in bad])
    for (sh, fin, x, txt), r in zip(bad, replies):
        rep.case(("params_invalid", txt))
        rep.count("params_invalid_bounds")
        if r is None or r[0] != "ValueError":
            rep.disagree(op="exp.bounds", note="model accepts malformed bounds", input=dict(bounds=txt))
        try:
            v = analytic.get_approximation_parameters(f1, x)
            rep.violate(what="get_approximation_parameters accepts malformed bounds", input=dict(bounds=txt), expected="ValueError",
                        observed=repr(v), call=f"get_approximation_parameters(f, {txt})")
        except ValueError:
            pass
        except Exception as e:
            rep.violate(what="get_approximation_parameters raises the wrong exception class for malformed bounds",
                        input=dict(bounds=txt), expected="ValueError", observed=repr(e), call=f"get_approximation_parameters(f, {txt})")
    r = drv.run([("exp.bounds", "2 3 2 1")])[0]
    if r is None or r[0] != "ok":
        rep.disagree(op="exp.bounds", note="model rejects well-formed bounds")


# ------------------------------------------------------------------ (c) Simulation.run

ARRAY_FIELDS = ("bounds", "y_argmin", "y_argmax", "ns", "xss", "yss", "xs", "ys", "yss_cummax")


def gen_sim(rng, k, tier):
    shapes = [(1, 1, 1), (1, 7, 1), (3, 1, 2), (2, 50, 1), (4, 30, 2), (3, 64, 3), (5, 200, 2), (1, 300, 3), (6, 17, 1),
              (2, 40, 4)]
    if k < len(shapes):
        nt, ns, nd = shapes[k]
    else:
        nt, ns, nd = rng.randint(1, 8), rng.randint(1, 250 if tier == "quick" else 1000), rng.choice([1, 1, 2, 2, 3, 3, 4])
    w = [rng.uniform(0.3, 2.0) * rng.choice([-1, 1]) for _ in range(nd)]
    bias = rng.uniform(-0.5, 0.5)
    scale = rng.uniform(0.5, 2.0) * rng.choice([-1, 1])
    bounds = [[rng.uniform(-2, -0.2), rng.uniform(0.2, 2)] for _ in range(nd)]
    if rng.random() < 0.2:
        bounds = [[l + 3.0, h + 3.0] for l, h in bounds]      # a box away from the origin
    return dict(n_trials=nt, n_samples=ns, n_dims=nd, weights=w, bias=bias, scale=scale, bounds=bounds,
                seed=rng.getrandbits(32), adj_seed=rng.getrandbits(32))


def sim_call(s):
    return (f"f = make_damped_linear_sin({s['weights']!r}, {s['bias']!r}, {s['scale']!r}); Simulation.run({s['n_trials']}, "
            f"{s['n_samples']}, {s['n_dims']}, f, {s['bounds']!r}, generator=np.random.default_rng({s['seed']}))")


RANGE_FINDING = "C20-yss-outside-ymin-ymax-within-optimiser-polish-precision"
KEYED = {}


def range_finding_key(excess, reported_optimum_is_local_optimum):
    """lead ruling: 1e-9 < excess <= 1e-7 AND no nearby point beats the reported optimum by more than 1e-6"""
    return RANGE_FINDING if (TOL_RANGE < excess <= 1e-7 and reported_optimum_is_local_optimum) else None


def locally_optimal(func, bounds, x, sign, adj_seed):
    """is the reported optimum `x` at least a *local* optimum of `sign * func` (maximum for sign = +1) on the box?
    differential_evolution polishes its result, so what it returns is a local optimum (to about 1e-9 in value) even when it
    misses the global one; a reported point that nearby points beat by more than 1e-6 did not come from the optimiser."""
    g = np.random.default_rng(adj_seed)
    b = np.array(bounds, dtype=float)
    width = b[:, 1] - b[:, 0]
    x = np.array(x, dtype=float)
    best = 0.0
    for radius in (1e-2, 1e-3):
        X = np.clip(x + radius * width * g.uniform(-1, 1, size=(3000, len(x))), b[:, 0], b[:, 1])
        best = max(best, float(np.max(sign * (func(X) - func(x)))))
    return best <= 1e-6, best


def run_sim(rep, rng, drv, tier, simulation):
    n_cases = 70 if tier == "quick" else 400
    sims = [gen_sim(rng, k, tier) for k in range(n_cases)]
    reqs, meta = [], []
    for s in sims:
        call = sim_call(s)
        inp = {k: s[k] for k in ("n_trials", "n_samples", "n_dims", "weights", "bias", "scale", "bounds", "seed")}
        nt, ns, nd = s["n_trials"], s["n_samples"], s["n_dims"]
        rep.count(f"sim_n_dims={nd}")
        rep.count("sim_n_samples=%s" % ("1" if ns == 1 else "2-50" if ns <= 50 else ">50"))
        func = simulation.make_damped_linear_sin(s["weights"], s["bias"], s["scale"])
        b = np.array(s["bounds"], dtype=float)
        g1, g2 = np.random.default_rng(s["seed"]), np.random.default_rng(s["seed"])
        state0 = g1.bit_generator.state
        try:
            with warnings.catch_warnings():
                warnings.simplefilter("ignore")
                r1 = simulation.Simulation.run(nt, ns, nd, func, s["bounds"], generator=g1)
                r2 = simulation.Simulation.run(nt, ns, nd, func, np.array(s["bounds"]), generator=g2)
        except Exception as e:
            rep.violate(what="Simulation.run raised on valid arguments", input=inp, error=repr(e), call=call)
            continue
        rep.case(("sim", nt, ns, nd, s["seed"]), sample=dict(op="Simulation.run", n_trials=nt, n_samples=ns, n_dims=nd,
                                                              y_min=float(r1.y_min), y_max=float(r1.y_max)))

        def bad(what, **kw):
            rep.violate(what=what, input=inp, call=call, **kw)

        # ---- echo of the arguments, documented shapes
        if (r1.n_trials, r1.n_samples, r1.n_dims) != (nt, ns, nd) or r1.func is not func:
            bad("n_trials / n_samples / n_dims / func are not the arguments", observed=[r1.n_trials, r1.n_samples, r1.n_dims])
        shapes = dict(bounds=(nd, 2), y_argmin=(nd,), y_argmax=(nd,), ns=(ns,), xss=(nt, ns, nd), yss=(nt, ns), xs=(ns, nd),
                      ys=(ns,), yss_cummax=(nt, ns))
        wrong = {k: list(np.shape(getattr(r1, k))) for k, sh in shapes.items() if np.shape(getattr(r1, k)) != sh}
        if wrong or np.shape(r1.y_min) != () or np.shape(r1.y_max) != ():
            bad("a field does not have the documented shape", expected={k: list(v) for k, v in shapes.items()}, observed=wrong)
            continue
        if not np.array_equal(r1.bounds, b):
            bad("bounds field differs from the argument", observed=np.array(r1.bounds).tolist())
        if not np.array_equal(r1.ns, np.arange(1, ns + 1)):
            bad("ns is not 1..n_samples", observed=np.array(r1.ns).tolist()[:10])
        # ---- every point inside the bounds
        if not (np.all(r1.xss >= b[:, 0]) and np.all(r1.xss <= b[:, 1])):
            idx = np.argwhere((r1.xss < b[:, 0]) | (r1.xss > b[:, 1]))[0]
            bad("a sampled point lies outside the bounds", observed=dict(index=idx.tolist(), value=float(r1.xss[tuple(idx)])))
        for name in ("y_argmin", "y_argmax"):
            v = getattr(r1, name)
            if not (np.all(v >= b[:, 0]) and np.all(v <= b[:, 1])):
                bad(f"{name} lies outside the bounds", observed=np.array(v).tolist())
        # ---- yss = func(xss), recomputed
        yy = func(r1.xss)
        if not np.allclose(r1.yss, yy, rtol=1e-12, atol=1e-12):
            idx = np.unravel_index(np.argmax(np.abs(r1.yss - yy)), yy.shape)
            bad("yss differs from func(xss)", expected=float(yy[idx]), observed=float(r1.yss[idx]), index=list(map(int, idx)))
        # ---- xs / ys are the first trial
        if not np.array_equal(r1.xs, r1.xss[0]):
            bad("xs is not the first trial xss[0]")
        if not np.array_equal(r1.ys, r1.yss[0]):
            bad("ys is not the first trial yss[0]")
        # ---- y_min / y_max are func at the reported optima and bracket every sampled value up to 1e-9
        for nm, arg in (("y_min", r1.y_argmin), ("y_max", r1.y_argmax)):
            if not abs(float(getattr(r1, nm)) - float(func(arg))) <= 1e-12 * max(1.0, abs(float(func(arg)))):
                bad(f"{nm} is not func at the reported optimum", expected=float(func(arg)), observed=float(getattr(r1, nm)))
        rep.case(("sim_range", nt, ns, nd, s["seed"]))
        lo_gap = float(r1.y_min) - float(np.min(r1.yss))
        hi_gap = float(np.max(r1.yss)) - float(r1.y_max)
        worst("sim_range_excess", max(lo_gap, hi_gap, 0.0))
        obs = dict(y_min=float(r1.y_min), y_max=float(r1.y_max), min_yss=float(np.min(r1.yss)), max_yss=float(np.max(r1.yss)))
        if not float(r1.y_min) <= float(r1.y_max):
            bad("y_min > y_max", observed=obs)
        elif lo_gap > TOL_RANGE or hi_gap > TOL_RANGE:
            # the property excludes objectives whose global optima the optimiser does not locate: the miss is the optimiser's
            # (excluded, counted) exactly if what the code reports are genuine local optima, i.e. results of the optimiser
            ok_min, beat_min = locally_optimal(func, s["bounds"], r1.y_argmin, -1.0, s["adj_seed"])
            ok_max, beat_max = locally_optimal(func, s["bounds"], r1.y_argmax, +1.0, s["adj_seed"] + 1)
            if (lo_gap > TOL_RANGE and not ok_min) or (hi_gap > TOL_RANGE and not ok_max):
                bad("y_min <= yss <= y_max fails by more than 1e-9 and the reported optimum is not even a local optimum of func "
                    "(nearby points beat it by more than 1e-6): it is not what the optimiser located",
                    observed=dict(obs, nearby_points_below_y_min_by=beat_min, nearby_points_above_y_max_by=beat_max))
            else:
                for side, gap, ok_side, beat in (("y_min", lo_gap, ok_min, beat_min), ("y_max", hi_gap, ok_max, beat_max)):
                    if not gap > TOL_RANGE:
                        continue
                    key = range_finding_key(gap, ok_side)
                    if key is not None:
                        # right basin, value off by a few 1e-9: the polish of differential_evolution stops at a relative
                        # decrease of 2.2e-9 of max(1, |f|), the same size as the property's 1e-9 (objectives of tiny magnitude)
                        KEYED[key] = KEYED.get(key, 0) + 1
                        if KEYED[key] > 3:
                            rep.count("repeats_of_" + key)
                        else:
                            bad(f"yss lies outside [y_min, y_max] on the {side} side by more than 1e-9 (and at most 1e-7) although the "
                                "reported optimum is a genuine local optimum: the optimiser's polish precision exceeds the property's 1e-9",
                                observed=dict(obs, excess=gap, nearby_points_beat_reported_optimum_by=beat), finding_key=key)
                    else:
                        # excess > 1e-7 at a genuine local optimum: a global miss on the multimodal objective (excluded by the property)
                        rep.skip("sim_range_optimiser_returned_a_local_optimum")
        # ---- identical results for generators in identical states; the supplied generator is the one that is used
        diff = [k for k in ARRAY_FIELDS if not np.array_equal(getattr(r1, k), getattr(r2, k))]
        if diff or float(r1.y_min) != float(r2.y_min) or float(r1.y_max) != float(r2.y_max):
            bad("two runs with generators in identical states differ", observed=dict(fields=diff or ["y_min/y_max"]))
        if g1.bit_generator.state != g2.bit_generator.state:
            bad("generators in identical states end in different states")
        if g1.bit_generator.state == state0:
            bad("the supplied generator was not advanced (it is not the source of the samples)")
        if len(meta) % 3 == 0:
            # ... and a generator in a different state gives different samples (64-bit uniforms never coincide by chance)
            with warnings.catch_warnings():
                warnings.simplefilter("ignore")
                r3 = simulation.Simulation.run(nt, ns, nd, func, s["bounds"], generator=np.random.default_rng(s["seed"] + 1))
            rep.count("sim_different_state_checks")
            if np.array_equal(r3.xss, r1.xss):
                bad("generators in different states give identical samples (the supplied generator is not the source of the samples)")
        # ---- running maximum: the exact model
        if np.any(np.isnan(r1.yss)):
            bad("yss contains nan")
            continue
        reqs.append(("exp.sim", f"{nt} {ns} {C.flist(np.ravel(r1.yss))}"))
        meta.append((s, r1, inp, call))
    replies = drv.run(reqs)
    for (s, r1, inp, call), r in zip(meta, replies):
        nt, ns = s["n_trials"], s["n_samples"]
        rep.case(("sim_cummax", nt, ns, s["n_dims"], s["seed"]))
        if r is None:
            rep.disagree(op="exp.sim", note="model rejected a valid input", input=inp)
            continue
        pos = 0
        n1 = int(r[pos]); m_ns = [int(t) for t in r[pos + 1: pos + 1 + n1]]; pos += 1 + n1
        n2 = int(r[pos]); m_ys = [C.parse_ext(t) for t in r[pos + 1: pos + 1 + n2]]; pos += 1 + n2
        n3 = int(r[pos]); m_cm = [C.parse_ext(t) for t in r[pos + 1: pos + 1 + n3]]
        rep.count("sim_cummax_entries", n3)
        if m_ns != [int(v) for v in r1.ns]:
            rep.violate(what="ns differs from the model's 1..n_samples", input=inp, call=call, expected=m_ns[:10], observed=np.array(r1.ns).tolist()[:10])
        if m_ys != [C.ext_of_float(v) for v in r1.ys]:
            rep.violate(what="ys differs from the model's first trial", input=inp, call=call)
        got = [C.ext_of_float(v) for v in np.ravel(r1.yss_cummax)]
        if got != m_cm:
            j = next(i for i, (x, y) in enumerate(zip(got, m_cm)) if x != y) if len(got) == len(m_cm) else 0
            rep.violate(what="yss_cummax is not the running maximum of yss along the sample axis", input=inp, call=call,
                        index=[j // ns, j % ns], expected=float(m_cm[j]) if m_cm else None, observed=float(got[j]) if got else None)

    # generator=None: a fresh generator is created; only the bookkeeping can be checked
    s = gen_sim(rng, 4, tier)
    func = simulation.make_damped_linear_sin(s["weights"], s["bias"], s["scale"])
    rep.case(("sim_generator_none",))
    try:
        r0 = simulation.Simulation.run(2, 5, s["n_dims"], func, s["bounds"])
        b = np.array(s["bounds"])
        if r0.xss.shape != (2, 5, s["n_dims"]) or not (np.all(r0.xss >= b[:, 0]) and np.all(r0.xss <= b[:, 1])) \
                or not np.array_equal(r0.yss_cummax, np.array([[max(row[:i + 1]) for i in range(5)] for row in r0.yss])):
            rep.violate(what="Simulation.run(generator=None) returns inconsistent fields", input=dict(bounds=s["bounds"]),
                        call="Simulation.run(2, 5, n_dims, f, bounds)")
    except Exception as e:
        rep.violate(what="Simulation.run(generator=None) raised", error=repr(e), input=dict(bounds=s["bounds"]),
                    call="Simulation.run(2, 5, n_dims, f, bounds)")

    # malformed bounds
    f2 = simulation.make_damped_linear_sin([1.0, -1.0])
    bad_bounds = [([[-1.0, 1.0]], "[[-1., 1.]]"), ([[-1.0, 1.0]] * 3, "[[-1., 1.]] * 3"), ([[-1.0, 0.0, 1.0]] * 2, "[[-1., 0., 1.]] * 2"),
                  ([-1.0, 1.0], "[-1., 1.]"), ([[-1.0, 1.0], [0.0, float("inf")]], "[[-1., 1.], [0., inf]]"),
                  ([[-1.0, 1.0], [float("nan"), 1.0]], "[[-1., 1.], [nan, 1.]]")]
    for x, txt in bad_bounds:
        rep.case(("sim_invalid", txt))
        rep.count("sim_invalid_bounds")
        try:
            simulation.Simulation.run(2, 3, 2, f2, x, generator=np.random.default_rng(0))
            rep.violate(what="Simulation.run accepts malformed bounds", input=dict(bounds=txt), expected="ValueError",
                        call=f"Simulation.run(2, 3, 2, f, {txt})")
        except ValueError:
            pass
        except Exception as e:
            rep.violate(what="Simulation.run raises the wrong exception class for malformed bounds", input=dict(bounds=txt),
                        expected="ValueError", observed=repr(e), call=f"Simulation.run(2, 3, 2, f, {txt})")


def run(seed, tier, replay=None):
    # a replay regenerates the run it came from (same seed, same tier), so that the recorded input recurs
    if replay is not None:
        seed, tier = int(replay.get("seed", seed)), replay.get("tier", tier)
    analytic, simulation = load_modules()
    WORST.clear()
    KEYED.clear()
    rep = C.Report("C20", seed, tier)
    drv = C.Driver()
    run_ellipse(rep, C.rng_for("C20.ellipse", seed), drv, tier, analytic)
    run_params(rep, C.rng_for("C20.params", seed), drv, tier, analytic, C.rng_for("C20.params.location", seed),
               C.rng_for("C20.params.scale", seed))
    run_sim(rep, C.rng_for("C20.sim", seed), drv, tier, simulation)
    if rep.hist.get("a_returned_with_complex_dtype"):
        rep.notes.append("get_approximation_parameters returned `a` with a complex dtype (zero imaginary part) in %d calls: "
                         "np.linalg.eigvals of the installed numpy returns a complex array; the value is compared through its "
                         "real part (the property does not constrain the dtype)" % rep.hist["a_returned_with_complex_dtype"])
    return rep.result(
        rule="ellipse_volume within 64 ulps of the exact formula (mpmath), permutation invariant, homogeneous (bit-exact for 2^k); "
             "c == d; b within 1e-7 of the true maximum; a within 1e-9 (relative) of the Lean model fed with the returned b; "
             "exact P[f(X)>y] (closed-form volume ratio) within 1e-7 of 1-cdf(y) at levels whose ellipsoid lies in the box, also with "
             "optimum and box translated by 0, 1e3, 1e5, 1e7 box widths per coordinate x optimum centred / at 0.2-5 % of the width from a face, "
             "and with x scaled by 1e-4, 1, 1e4, 1e6 and f by 1e-6, 1, 1e6 (curvature entries 1e-14..1e+14; where the optimiser's polish cannot "
             "resolve the objective the b deficit is a keyed finding and the tail is also judged against the returned b); "
             "Simulation.run: shapes, bounds, yss=func(xss), first-trial slices, yss_cummax == model exactly, "
             "y_min<=yss<=y_max to 1e-9 (unless the optimiser cannot locate the optima), determinism",
        extra=dict(driver_lines=drv.lines, extra=dict(worst_observed_deviation=dict(WORST))))


if __name__ == "__main__":
    C.main(run)
