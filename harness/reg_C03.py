REG = dict(
    trusted_base=["IEEE-754 rounding of numpy's cumsum/normalisation is not modelled: the theorems are about exact "
                  "arithmetic and the gap is measured against the property's own 1e-12"],
    assumptions=["observations are not NaN",
                 "weights are non-negative and sum to 1 within 1e-10 (the constructor's own check)"],
)
TEXT = dict(
    level="Universal Lean theorems (any sample with ties/zero weights/±inf, any bounds, any query; values in any linear order, weights in any ordered field): the model's cdf/pmf equal the normalised weight of observations <=y / =y and ppf satisfies the Galois law ppf q <= y <-> q <= cdf y; restated for the very terms the driver runs. The model is tied to the code on every run by exact-rational differential execution (cdf/pmf to the property's 1e-12, ppf exactly outside the excluded 1e-12 tie zone, moments, shapes). Also proved: ppf(0) = a (sign condition on a weight at -inf shown necessary), ppf(1) is the least point >= a with cdf = 1, ppf monotone on all of [0,1]; the cdf is a step function (constant across any gap without observations; right-continuous), pmf(y) is the jump of the cdf at y; the mean and variance attributes are the moments of the step distribution (sum over merged atoms of pmf(v) v and pmf(v)(v-mean)^2; the ws>0 filter drops only zero terms; the unweighted and the 1/N-weighted branches agree).",
    note='Proved: Model = Spec in exact arithmetic. Compared, not proved: numpy float rounding (inside the 1e-12 of the property), np.unique/searchsorted/argmax semantics (mirrored by the model and exercised by the correspondence). NaN observations excluded.',
)
