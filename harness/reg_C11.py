REG = dict(
    lean_targets=["OpdaProofs.Props.C11"],
    harnesses=["corr_C11"],
    timeout=dict(quick=900, thorough=7200),
    trusted_base=[
        "scipy.optimize.differential_evolution is a parameter of the model (its argument validation `S > 4` is pinned "
        "as the constant 5 and mimicked by the stub; real scipy is exercised by the pass-through fits)",
        "np.round / np.spacing / `decimals`, the factors w, v, the raw initial estimates and the order of "
        "`sorted(...)[:90]` are black boxes of the model",
        "the descriptors of malformed arguments (shape/dtype/NaN facts of np.array(arg)) are produced by the harness",
        "IEEE-754 rounding is not modelled; invariance of the *returned object* is compared (equal seeds), what is "
        "proved is invariance of everything handed to the optimiser",
        "the scipy<1.11 compatibility branch of fit is dead for the pinned scipy and is not modelled",
    ],
    assumptions=[
        "valid call = finite 1-D sample, proper limits, well-formed constraints (n<3 or nothing observed are valid "
        "calls that must raise ValueError)",
        "support containment for the noisy class with noise 0 is decided only on results whose objective value is the "
        "true one (real fits, truthful stub)",
    ],
)
TEXT = dict(
    level="Universal Lean theorems about the executable decision model of fit: everything handed to the optimiser (counts, "
          "pre-loop outcome, free pattern, population size, boxes, support edges, bucket edges and counts) is invariant "
          "under permutations of the sample and under changes of censored values on the same side of the limits; closed "
          "form of the initial population size and the exact pattern in which it is below scipy's minimum; the bucket "
          "fix-ups are defined iff enough buckets exist; box inside constraints, c an integer of 1..10, noiseless box "
          "contains the data and reaches the limits; exception table (validation -> ValueError/TypeError, pre-loop -> "
          "ValueError, box -> OptimizationError, loop -> those, or one of two modelled decision points: fewer than two buckets (ks_index_defined_iff) and a population below "
          "scipy's minimum (population_below_scipy_minimum_iff) -- there the code before b238e9d / 2124e35 leaked IndexError / scipy's "
          "ValueError; the check accepts only the conforming outcome of the repaired code and reports the old one as a violation). Tied to the code on "
          "every run: ~1000 stubbed calls + ~500 malformed calls (exception class vs model), ~1100 invariance "
          "comparisons of optimiser inputs (bitwise), ~48 real fits (outcome, constraints, support, bitwise invariance).",
    note="Proved: decision logic of the model. Compared, not proved: invariance and constraint satisfaction of the returned "
         "object (black-box optimiser), support containment for the noisy class with noise 0, float arithmetic. Found here and "
         "repaired in /repo: F2 (b238e9d), F3 (2124e35), F8 (c67d8cb), F10 (2cea7e7), float32 validation (b86de3b). Findings on the unchanged "
         "tree: F9 and the F6b/F6c consequences, each with an explicit input predicate (F11, observations outside the support hull when the "
         "data pin the noise to 0, no longer occurs and is not listed: its return would be reported).",
)
