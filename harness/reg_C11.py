REG = dict(
    lean_targets=["OpdaProofs.Props.C11"],
    harnesses=["corr_C11"],
    timeout=dict(quick=900, thorough=7200),
    trusted_base=[
        "scipy.optimize.differential_evolution is a parameter of the model (its argument validation `S > 4` is pinned "
        "as the constant 5 and mimicked by the stub; real scipy is exercised by the pass-through fits)",
        "np.round / np.spacing / `decimals`, the factors w, v, the raw initial estimates and the order of "
        "`sorted(...)[:90]` are black boxes of the model",
        "the descriptors of malformed arguments (shape/dtype/NaN facts of np.array(arg)) are produced by the harness",
        "IEEE-754 rounding is not modelled; invariance of the *returned object* is compared (equal seeds), what is "
        "proved is invariance of everything handed to the optimiser",
        "the scipy<1.11 compatibility branch of fit is dead for the pinned scipy and is not modelled",
    ],
    assumptions=[
        "valid call = finite 1-D sample, proper limits, well-formed constraints (n<3 or nothing observed are valid "
        "calls that must raise ValueError)",
        "support containment for the noisy class with noise 0 is decided only on results whose objective value is the "
        "true one (real fits, truthful stub)",
    ],
)
TEXT = dict(
    level="Universal Lean theorems about the executable decision model of fit: everything handed to the optimiser (counts, "
          "pre-loop outcome, free pattern, population size, boxes, support edges, bucket edges and counts) is invariant "
          "under permutations of the sample and under changes of censored values on the same side of the limits; closed "
          "form of the initial population size and the exact pattern in which it is below scipy's minimum; the bucket "
          "fix-ups are defined iff enough buckets exist; box inside constraints, c an integer of 1..10, noiseless box "
          "contains the data and reaches the limits; exception table (validation -> ValueError/TypeError, pre-loop -> "
          "ValueError, box -> OptimizationError, loop -> those or exactly the two modelled defects). Tied to the code on "
          "every run: ~1000 stubbed calls + ~500 malformed calls (exception class vs model), ~1100 invariance "
          "comparisons of optimiser inputs (bitwise), ~48 real fits (outcome, constraints, support, bitwise invariance).",
    note="Proved: decision logic of the model. Compared, not proved: invariance and constraint satisfaction of the returned "
         "object (black-box optimiser), support containment for the noisy class with noise 0, float arithmetic. Findings "
         "on the unchanged tree: F2, F3, F8, F9, F10, F11 (and F6b/F6c consequences), each with an explicit input predicate.",
)
