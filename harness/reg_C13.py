REG = dict(
    trusted_base=[
        "numpy's Generator: uniform()/random() uniform on [0,1), normal(0,o) = o * standard normal, integers(0,n) uniform on "
        "{0..n-1}, choice(ys,p) = ys[searchsorted(cumsum(p)/sum(p), random(), 'right')], successive draws independent "
        "(the theorems are about the functions applied to these primitives; the primitives themselves are not modelled)",
        "IEEE-754 rounding of numpy's pow / cumsum is not modelled: the Float model is compared within 16 x the measured "
        "+-8-ulp jitter spread + 8 ulp, the exact-rational choice model exactly outside a 1e-12 tie zone around the "
        "cumulative weights (counted in the evidence)",
        "the DKW oracle uses the implementation's own cdf, as the property prescribes",
    ],
    assumptions=["parameters in the domain of C05/C06: a<=b finite, b-a in {0} or [1e-6,1e6], |a|+|b| <= 1e3 (b-a), c in 1..10, o>=0",
                 "weights non-negative, summing to 1 (the constructor's own check); observations not NaN"],
    timeout=dict(quick=600, thorough=3000),
)
TEXT = dict(
    level="Universal Lean theorems: (i) inverse transform - for U uniform on [0,1), P[ppf(U) <= y] = cdf(y) for the Quadratic model "
          "(every a<b, c>=1, both shapes, every y; Galois law proved from cdf o ppf = id, monotonicity and ppf o cdf = id) and for the "
          "empirical ppf (C03's Galois law); (ii) generator.choice(ys, p=ws), modelled as ys[searchsortedRight(cumsum ws / sum ws, U)], "
          "gives every event its weight: P[draw = v] = sum{w_i : y_i = v}/sum w and P[draw <= y] = the class's own cdf, for every "
          "observation list (ties, zero weights) - by induction over the list with Lebesgue measure; the unweighted counting form; "
          "the exact-rational term the driver evaluates is the real-number one; (iii) noisy draw = quadratic part of U + o Z with Z "
          "independent standard normal has law (law of the quadratic part) * N(0,o^2) on any probability space, and for U uniform on "
          "[0,1), a<b, c>=1, o>0 its distribution function P[draw <= y] is the C06 Spec H((y-a)/(b-a)) resp. 1 - H((b-y)/(b-a)), "
          "H(t) = int_0^1 Phi((t-x)/s) d(x^(c/2)) (independence + Tonelli + substitution, OpdaProofs/NoisyLaw.lean); support clauses "
          "(draws in [a,b]; choice returns an observation of positive weight, index always in range). The functions are tied to "
          "the code on every run deterministically: sample(size, generator=g) equals the model's function of the primitives drawn "
          "from a clone of g (bitwise against the public ppf / the replayed formula; exact atoms for the empirical class), leaves g "
          "where the clone ends, and has exactly the requested shape for size in {None,k,(k1,k2),0}.",
    note="Proved: the pushforward laws of the model functions. Compared, not proved: that the code applies exactly these functions to "
         "exactly these primitives (bitwise replay on ~16k elements per quick run), shapes, support membership. Trusted: numpy's "
         "Generator. The property's DKW-radius test runs as the Spec oracle on a few settings per run and on any setting whose "
         "deterministic tie breaks; only its failure is reported as a violation.",
)
