"""C08 correspondence: quantile_tuning_curve / average_tuning_curve of QuadraticDistribution and
NoisyQuadraticDistribution vs the Lean models (Opda.Quad.* at Float; Opda.Noisy.quantileTuningCurve and the
integration loop Opda.TrapLoop on the noisy cdf model), plus the Spec checks of the property on the real code:
F(t) = level of the best of n draws, average curve = adaptive quadrature of the class's own cdf (and the closed forms in
mpmath for the noiseless class), monotone in n, inside [a,b], shapes, `minimize=None -> convex`, and "returns without
unbounded memory growth" (every integrated call runs in a forked child under an address-space limit and a timeout)."""
import warnings

import numpy as np

import common as C
import corr_C06 as G
import mpmath as mp
import quad_common as Q

INF = float("inf")
KEY_F4 = "F4-noisy-average-curve-premature-convergence-zero-inside-range"
KEY_FOOLED4 = "C08-noisy-average-stop-rule-fooled-at-the-first-permitted-round"
KEY_F5 = "F5-noisy-point-mass-average-never-returns"
MODEL_CAP = 15          # the model follows the loop for at most 2^15 integrand evaluations per curve
KEY_INT_PARAMS = "C08-integer-typed-parameters-intermediate-not-representable"
FAR_RATIOS = (1e4, 1e5, 1e6, 1e7)   # |a| / (b-a+12o); the axis stops at 1e7 widths (see far_quantile_case)
FAR_FIXED = [(1, 4e-3, 0.5, True), (2, 0.1, 1.0, False), (3, 0.3, 1e3, True), (5, 1e-2, 1e-3, False), (1, 4e-3, 0.5, False), (10, 2.0, 30.0, True),
             (1, 1e-5, 1.0, False), (4, 1e-4, 1e-2, True)]


def mp_level(q, n, minimize):
    q, n = mp.mpf(q), mp.mpf(n)
    return float(1 - (1 - q) ** (1 / n) if minimize else q ** (1 / n))


def mp_avg_noiseless(a, b, c, convex, n, minimize):
    """closed forms of E[best of n] for a+(b-a)W / b-(b-a)W, W = U^(2/c), in 40-digit arithmetic"""
    n, beta = mp.mpf(n), mp.mpf(2) / int(c)
    emax = n / (n + beta)
    emin = mp.gamma(n + 1) * mp.gamma(1 + beta) / mp.gamma(n + 1 + beta)
    w = Q.mpq(b) - Q.mpq(a)
    if convex:
        return float(Q.mpq(a) + w * (emin if minimize else emax))
    return float(Q.mpq(b) - w * (emax if minimize else emin))


def gen_q(rng):
    return rng.choice([0.5, 0.5, 0.0, 1.0, 0.25, 0.9, rng.random(), 10.0 ** rng.uniform(-9, 0), 1 - 10.0 ** rng.uniform(-9, 0)])


def hexl(xs):
    return [C.fhex(x) for x in xs]


# ------------------------------------------------------------------------------------------------ noiseless class

def noiseless_part(rep, rng, drv, QD, n_cases, replay):
    cases = []
    for _ in range(n_cases):
        c, convex = Q.gen_c(rng), rng.random() < 0.5
        if rng.random() < 0.06:
            a = b = Q.gen_point(rng)
        else:
            a, b = Q.gen_ab(rng)
        cases.append(dict(a=a, b=b, c=c, convex=convex, mn=rng.choice([None, False, True]), q=gen_q(rng), ns=sorted(Q.gen_ns(rng, 7))))
    if replay is not None:
        cases = [replay]
    reqs = []
    for k in cases:
        pl = Q.params_line(k["a"], k["b"], k["c"], k["convex"])
        reqs.append(("quad.qtc", f"{pl} {Q.mn_tok(k['mn'])} {C.fhex(k['q'])} {C.flist(k['ns'])}"))
        reqs.append(("quad.avg", f"{pl} {Q.mn_tok(k['mn'])} {C.flist(k['ns'])}"))
    replies = drv.run(reqs)
    calib = dict(qtc=0.0, avg=0.0)
    for ci, k in enumerate(cases):
        a, b, c, convex, mn, q, ns = k["a"], k["b"], k["c"], k["convex"], k["mn"], k["q"], k["ns"]
        w = b - a
        eff = convex if mn is None else mn
        inp = dict(cls="QuadraticDistribution", a=C.fhex(a), b=C.fhex(b), c=c, convex=convex, minimize=mn, q=C.fhex(q), ns=hexl(ns))
        rep.count("noiseless:c=%d" % c)
        rep.count("noiseless:minimize=%s" % mn)
        if a == b:
            rep.count("noiseless:point_mass")
        with warnings.catch_warnings():
            warnings.simplefilter("ignore")
            try:
                d = QD(a, b, c, convex)
                nsa = np.array(ns)
                lab = k.get("prime") if replay is not None else (rng.choice(PRIMES) if rng.random() < 0.3 else None)
                if lab:
                    inp["history"] = lab      # calls made first, same_* ones on this very instance (see prime_calls)
                    rep.count("noiseless:history=" + lab)
                    run_primes(prime_calls(QD, k, lab, noisy=False, inst=d))
                qt = d.quantile_tuning_curve(nsa, q=q, minimize=mn)
                av = d.average_tuning_curve(nsa, minimize=mn)
                qt_s, av_s = d.quantile_tuning_curve(ns[1], q=q, minimize=mn), d.average_tuning_curve(ns[1], minimize=mn)
                qt_d = d.quantile_tuning_curve(nsa, q=q, minimize=convex)
                av_d = d.average_tuning_curve(nsa, minimize=convex)
                qt_n, av_n = d.quantile_tuning_curve(nsa, q=q), d.average_tuning_curve(nsa)
                fq = d.cdf(qt)
                if not np.array_equal(nsa, np.array(ns)):     # the caller's ns array went into eight calls: bit-identical afterwards
                    rep.violate(what="a tuning-curve method modified the caller's ns array in place (later calls with the same array are evaluated on what it left there)",
                                input=dict(inp, ns=[float(x) for x in ns]), observed=[float(x) for x in nsa],
                                call="ns = np.array(...); QuadraticDistribution.quantile_tuning_curve(ns, ...); .average_tuning_curve(ns, ...); ns")
            except Exception as e:
                rep.violate(what="a documented method raised on an input of the property's domain", error=repr(e), input=inp,
                            call="QuadraticDistribution")
                continue
        # shapes and memory layouts of ns (C.shape_probe): result[idx] is the curve at ns[idx]
        if ci % 6 == 0:
            grid = [1.0, 2.0, 3.5, 10.0, 0.5, 100.0, 7.25, 1.5, 40.0, 2.0, 5.0, 999.0]
            for nm_, fn_ in (("quantile_tuning_curve", lambda x_: d.quantile_tuning_curve(x_, q=q, minimize=mn)),
                             ("average_tuning_curve", lambda x_: d.average_tuning_curve(x_, minimize=mn))):
                rep.count("noiseless:layout_probe:" + nm_)
                try:
                    with warnings.catch_warnings():
                        warnings.simplefilter("ignore")
                        fails = C.shape_probe(fn_, grid)
                except Exception as e:  # noqa: BLE001
                    fails = [("?", "raised " + repr(e))]
                for sh_, msg_ in fails[:1]:
                    rep.violate(what=f"{nm_}: {msg_} (scalars must map to scalars, arrays to arrays of the same shape, element by element)",
                                input=dict(inp, ns=grid), shape=list(sh_) if sh_ != "?" else None, call="QuadraticDistribution." + nm_)
        # shapes; minimize=None decision
        if np.shape(qt) != (len(ns),) or np.shape(av) != (len(ns),) or not np.isscalar(qt_s) or not np.isscalar(av_s):
            rep.violate(what="tuning curves do not map arrays to arrays of the same shape / scalars to scalars", input=inp,
                        call="QuadraticDistribution.quantile_tuning_curve")
        elif abs(float(qt_s) - float(qt[1])) > 1e-8 * (abs(a) + abs(b) + w) or abs(float(av_s) - float(av[1])) > 1e-8 * (abs(a) + abs(b) + w):
            rep.violate(what="scalar n gives a different value than the same n inside an array", input=inp,
                        call="QuadraticDistribution.average_tuning_curve")
        rep.case(("default", inp["a"], inp["b"], c, convex, inp["q"]), nontrivial=False)
        if not (np.array_equal(qt_n, qt_d) and np.array_equal(av_n, av_d)):
            rep.violate(what="minimize=None is not minimize=self.convex", input=inp, call="QuadraticDistribution.quantile_tuning_curve")
        # model vs implementation
        for kind, impl, r, rel in (("qtc", qt, replies[2 * ci], 1e-12), ("avg", av, replies[2 * ci + 1], 1e-11)):
            if r is None:
                rep.disagree(op="quad." + kind, note="model rejected an input of the property's domain", input=inp)
                continue
            for n, iv, (m, sp) in zip(ns, impl, Q.pairs(r)):
                rep.case((kind, inp["a"], inp["b"], c, convex, mn, inp["q"] if kind == "qtc" else "", C.fhex(n)), nontrivial=a != b,
                         sample=dict(cls="QuadraticDistribution", a=a, b=b, c=c, convex=convex, op=kind, n=n, q=q, minimize=mn, model=m, impl=float(iv)))
                al = Q.allowance(m, sp, rel) + (rel * w if kind == "avg" else 0.0)
                if np.isfinite(m) and al > 0:
                    calib[kind] = max(calib[kind], abs(float(iv) - m) / al)
                if not (abs(float(iv) - m) <= al or (a == b and float(iv) == m)):
                    ok_spec = spec_noiseless(kind, d, a, b, c, convex, n, q, eff, float(iv))
                    if ok_spec is not None:
                        rep.violate(what=ok_spec, input=dict(inp, n=C.fhex(n)), expected=m, observed=float(iv),
                                    call=f"QuadraticDistribution.{'quantile' if kind == 'qtc' else 'average'}_tuning_curve")
                    else:
                        rep.disagree(op="quad." + kind, input=dict(inp, n=C.fhex(n)), model=m, impl=float(iv), allowance=al,
                                     note="model and implementation differ by more than the jitter allowance although the property holds at this input")
        container_part(rep, rng, d, k, inp, eff, "QuadraticDistribution",
                       lambda kind, n, iv: spec_noiseless(kind, d, a, b, c, convex, n, q, eff, iv))
        if a == b:
            if not (np.all(qt == a) and np.all(av == a)):
                rep.violate(what="point mass: tuning curves are not constantly a", input=inp, call="QuadraticDistribution.average_tuning_curve")
            continue
        # Spec on the real code
        for n, t, f, v in zip(ns, qt, fq, av):
            rep.case(("spec", inp["a"], inp["b"], c, convex, mn, inp["q"], C.fhex(n)))
            lv = mp_level(q, n, eff)
            if not (abs(float(f) - lv) <= 1e-6):
                rep.violate(what="F(quantile_tuning_curve(n,q)) differs from the level of the best of n draws by more than 1e-6",
                            input=dict(inp, n=C.fhex(n)), expected=lv, observed=float(f), call="QuadraticDistribution.quantile_tuning_curve")
            if not (a - 1e-8 * w <= t <= b + 1e-8 * w and a - 1e-8 * w <= v <= b + 1e-8 * w):
                rep.violate(what="a noiseless tuning curve leaves [a,b]", input=dict(inp, n=C.fhex(n)), observed=[float(t), float(v)],
                            call="QuadraticDistribution.average_tuning_curve")
            msg = spec_noiseless("avg", d, a, b, c, convex, n, q, eff, float(v))
            if msg is not None:
                rep.violate(what=msg, input=dict(inp, n=C.fhex(n)), observed=float(v), call="QuadraticDistribution.average_tuning_curve")
        for name, arr, tolm in (("quantile", qt, 1e-6 * w), ("average", av, 1e-8 * w)):
            dif = np.diff(np.asarray(arr, dtype=float))
            bad = np.nonzero((dif > tolm) if eff else (dif < -tolm))[0]
            if len(bad):
                i = int(bad[0])
                rep.violate(what=f"{name}_tuning_curve is not monotone in n in the direction of optimisation", input=dict(inp, n=hexl(ns[i:i + 2])),
                            observed=[float(arr[i]), float(arr[i + 1])], call=f"QuadraticDistribution.{name}_tuning_curve")
    return calib


def container_part(rep, rng, d, k, inp, eff, cls, spec, kinds=("qtc", "avg")):
    """the same n presented as Python ints, integer ndarrays of every width that holds them, float32: the property quantifies
    over the number n, and the precision numpy/scipy compute in must not depend on the container it arrives in"""
    mn, q, ns = k["mn"], k["q"], k["ns"]
    ni = [n for n in ns if float(n).is_integer()]
    small = sorted({1.0, float(rng.randint(2, 120)), float(rng.randint(2, 120))})
    vals = small if (rng.random() < 0.5 or len(ni) < 2) else ni
    conts = C.number_containers(vals, rng, k=2)
    forced = k.get("ns_container")
    if forced:
        vals = [n for n in ns if float(n).is_integer()] or vals
        allc = C.number_containers(vals, rng, k=99) + [("pyint_scalar", None), ("int16_scalar", None)]
        conts = [lc for lc in allc if lc[0] == forced]
    elif rng.random() < 0.3:
        conts.append(rng.choice([("pyint_scalar", None), ("int16_scalar", None)]))
    for label, obj in conts:
        rep.count(f"{cls}:ns_container={label}")
        scalar = label.endswith("_scalar")
        if scalar:
            use = [vals[-1]]
            obj = int(vals[-1]) if label == "pyint_scalar" else np.int16(vals[-1])
        else:
            use = vals
        with warnings.catch_warnings():
            warnings.simplefilter("ignore")
            try:
                res = {}
                if "qtc" in kinds:
                    res["qtc"] = d.quantile_tuning_curve(obj, q=q, minimize=mn)
                if "avg" in kinds:
                    res["avg"] = d.average_tuning_curve(obj, minimize=mn)
            except Exception as e:
                rep.violate(what=f"a tuning curve raised for n given as {label} (the same numbers as a float64 array are accepted)",
                            error=repr(e), input=dict(inp, ns=hexl(use), ns_container=label), call=cls)
                continue
        for kind, r in res.items():
            name = "quantile" if kind == "qtc" else "average"
            if (np.shape(r) != ()) if scalar else (np.shape(r) != (len(use),)):
                rep.violate(what=f"{name}_tuning_curve: n given as {label} of shape {'()' if scalar else (len(use),)} gave shape {np.shape(r)}",
                            input=dict(inp, ns=hexl(use), ns_container=label), call=f"{cls}.{name}_tuning_curve")
                continue
            for n, iv in zip(use, np.atleast_1d(r)):
                rep.case(("container", label, kind, inp["a"], inp["b"], inp["c"], inp["convex"], mn, C.fhex(n)), nontrivial=inp["a"] != inp["b"],
                         sample=dict(cls=cls, op=kind, n=n, ns_container=label, impl=float(iv)))
                msg = spec(kind, n, float(iv))
                if msg is not None:
                    rep.violate(what=f"{msg} [n given as {label}]", input=dict(inp, n=C.fhex(n), ns=hexl(use), ns_container=label),
                                observed=float(iv), call=f"{cls}.{name}_tuning_curve")


def spec_noiseless(kind, d, a, b, c, convex, n, q, eff, iv):
    """the property at this input: returns a description of the failure or None"""
    w = b - a
    if a == b:
        return None if iv == a else "point mass: the curve is not a"
    if kind == "qtc":
        with warnings.catch_warnings():
            warnings.simplefilter("ignore")
            f = float(d.cdf(iv))
        lv = mp_level(q, n, eff)
        return None if abs(f - lv) <= 1e-6 else f"F(quantile_tuning_curve) differs from the level by {abs(f - lv):.3g} > 1e-6"
    closed = mp_avg_noiseless(a, b, c, convex, n, eff)
    if not abs(iv - closed) <= 1e-8 * w:
        return f"average_tuning_curve differs from E[{'min' if eff else 'max'} of n draws] (closed form, mpmath) by {abs(iv - closed):.3g} > 1e-8 (b-a)"
    quad = Q.expect_best(d, n, eff, a, b, 0.0, 1e-11 * w)
    if not abs(iv - quad) <= 1e-8 * w:
        return f"average_tuning_curve differs from the integral of y d[F^n] (quadrature of the class's own cdf) by {abs(iv - quad):.3g} > 1e-8 (b-a)"
    return None


# ------------------------------------------------------------------------------------------------ noisy class

def gen_noisy(rng, switches, kind):
    c, convex = Q.gen_c(rng), rng.random() < 0.5
    if kind == "zero_inside":            # a-6o <= 0 < b+6o: scores in [0,1] and the like
        w = Q.gen_width(rng)
        s = 10.0 ** rng.uniform(-4, -0.5)
        t = rng.choice([0.0, 0.0, -1.0, -0.5, rng.uniform(-1, 0), -6 * s, 6 * s * rng.random()])
        a = w * t
        b = a + w
        return dict(a=a, b=b, c=c, convex=convex, o=s * (b - a))
    if kind == "edge_near_zero":         # a-6o or b+6o within a few percent of 0
        w = Q.gen_width(rng)
        s = 10.0 ** rng.uniform(-4, 0)
        S = w * (1 + 12 * s)
        eps = rng.choice([-1, 1]) * 10.0 ** rng.uniform(-6, -1.3) * S
        a = 6 * s * w + eps if rng.random() < 0.5 else -w - 6 * s * w + eps
        b = a + w
        return dict(a=a, b=b, c=c, convex=convex, o=s * (b - a))
    if kind == "noise_free":
        a, b = Q.gen_ab(rng)
        return dict(a=a, b=b, c=c, convex=convex, o=0.0)
    if kind == "far_location":           # "every location": |a| up to 1e7 widths away from 0
        loc = rng.choice([-1, 1]) * 10.0 ** rng.uniform(0, 3)
        w = abs(loc) * 10.0 ** rng.uniform(-7, -3)
        s = rng.choice([0.0, 10.0 ** rng.uniform(-4, 0)])
        a = loc
        b = a + w
        return dict(a=a, b=b, c=c, convex=convex, o=s * (b - a))
    if kind == "tiny_scale":             # "every scale": widths down to 1e-12 around 0
        w = 10.0 ** rng.uniform(-12, -6)
        a = w * rng.choice([0.0, -1.0, -0.5, rng.uniform(-2, 2)])
        s = rng.choice([0.0, 10.0 ** rng.uniform(-4, 0)])
        b = a + w
        return dict(a=a, b=b, c=c, convex=convex, o=s * (b - a))
    a, b = Q.gen_ab(rng)
    s = Q.gen_s(rng, switches)
    return dict(a=a, b=b, c=c, convex=convex, o=s * (b - a))


def far_quantile_case(rng, switches, i):
    """"for every location and scale ... in particular forall locations a": members whose support lies 1e4 .. 1e7 times its own
    width b-a+12o (the range the quantile is searched on) away from the origin, on either side, widths 1e-3 .. 1e3; the first
    eight are fixed (tall and flat densities of the numerically inverted regime, every ratio in every run).  The axis stops at 1e7
    widths: there the spacing of the doubles at |a| (2.2e-9 widths) already exceeds the final bracket of a 30-step bisection
    (9.3e-10 widths), so no inversion can be sharper than the grid; the unchanged code meets F(t) = level to 5e-6 there
    (clause: 2e-5), beyond it the grid itself eats the tolerance for the tall densities (c = 1, o -> 1e-6 (b-a))."""
    if i < len(FAR_FIXED):
        c, s, w, convex = FAR_FIXED[i]
        ratio, sg = FAR_RATIOS[i % 4], (1.0 if i < 4 else -1.0)
    else:
        c, convex = Q.gen_c(rng), rng.random() < 0.5
        s = Q.gen_s(rng, switches) if rng.random() < 0.6 else 10.0 ** rng.uniform(-5.5, 0.9)
        s = min(s, 1e3)
        w = rng.choice([1e-3, 1.0, 1e3, 10.0 ** rng.uniform(-3, 3), 10.0 ** rng.uniform(-3, 3)])
        ratio = rng.choice(list(FAR_RATIOS) + [10.0 ** rng.uniform(3.5, 7)])
        sg = rng.choice([1.0, -1.0])
    a = sg * ratio * w * (1 + 12 * s)
    return dict(a=a, b=a + w, c=c, convex=convex, o=s * w, far=ratio)


def noisy_quantile_param_part(rep, rng, NQ, n_cases, forced=None):
    """the PARAMETER-container axis of the noisy quantile curve: integral a, b, o handed to the constructor as Python ints, numpy
    integer scalars of several widths, or some integer-typed and some float.  The curve is that of the distribution with these
    numbers as parameters: F(t) = level to 2e-5, with F the cdf of the instance itself and of the instance built from the same
    numbers as floats (a defect of integer-typed parameters common to cdf and ppf cannot cancel then)."""
    keyed = 0
    for i in range(n_cases):
        if forced is not None:
            a, b, c, o, convex, mn, q, ns, label_sets = forced
        else:
            kind = G.PC_KINDS[i % len(G.PC_KINDS)]
            if kind == "point":
                kind = "series"          # the point mass has no level set (its cdf jumps); it is covered by point_mass_part
            a, b, c, o, convex = G.gen_int_params(rng, kind)
            mn, q = rng.choice([None, False, True]), gen_q(rng)
            ns = sorted({1.0, 2.5, 10.0, 100.0, 1000.0, float(rng.randint(2, 999)), 10.0 ** rng.uniform(0, 3)})
            label_sets = G.param_label_sets(rng, a, b, o)
        eff = convex if mn is None else mn
        reg = G.regime_of(a, b, o)
        rep.count("noisy_qtc:param_container:regime=" + reg)
        with warnings.catch_warnings():
            warnings.simplefilter("ignore")
            dref = NQ(a, b, c, o, convex)
        for labels in label_sets:
            hz = G.param_hazard(a, b, o, labels, relevant=G.hazards_for(reg, "ppf"))
            fkey = KEY_INT_PARAMS if hz else None
            if hz:
                rep.count("noisy_qtc:param_container:an_intermediate_is_not_representable_in_the_parameters_dtype")
                if keyed >= 3:
                    continue                 # the recorded dtype finding is reported three times per run at most
            rep.count("noisy_qtc:param_container=" + ("all " + labels[0] if len(set(labels)) == 1 else "mixed"))
            inp = dict(cls="NoisyQuadraticDistribution", a=C.fhex(a), b=C.fhex(b), c=c, o=C.fhex(o), convex=convex, minimize=mn, q=C.fhex(q), ns=hexl(ns),
                       param_container="/".join(labels), constructor=G.param_call(a, b, c, o, convex, labels), **({"dtype_hazard": hz} if hz else {}))
            with warnings.catch_warnings():
                warnings.simplefilter("ignore")
                try:
                    d = NQ(G.as_number(a, labels[0]), G.as_number(b, labels[1]), c, G.as_number(o, labels[2]), convex)
                    with np.errstate(all="ignore"):
                        nsa2 = np.array(ns)
                        qt = d.quantile_tuning_curve(nsa2, q=q, minimize=mn)
                        if not np.array_equal(nsa2, np.array(ns)):
                            rep.violate(what="quantile_tuning_curve modified the caller's ns array in place", input=dict(inp, ns=[float(x) for x in ns]),
                                        observed=[float(x) for x in nsa2], call="ns = np.array(...); NoisyQuadraticDistribution.quantile_tuning_curve(ns, ...); ns")
                        qt_s = d.quantile_tuning_curve(ns[1], q=q, minimize=mn)
                        f_own, f_ref = np.asarray(d.cdf(qt), dtype=float), np.asarray(dref.cdf(np.asarray(qt, dtype=float)), dtype=float)
                except Exception as e:
                    keyed += bool(fkey)
                    rep.violate(what=f"a documented method raised for integral parameters given as {inp['constructor']}", error=repr(e), input=inp,
                                call="NoisyQuadraticDistribution.quantile_tuning_curve", finding_key=fkey, found_by="param_container")
                    continue
            if np.shape(qt) != (len(ns),) or not np.isscalar(qt_s):
                keyed += bool(fkey)
                rep.violate(what=f"quantile_tuning_curve: array/scalar shapes are inconsistent [parameters given as {inp['constructor']}]", input=inp,
                            call="NoisyQuadraticDistribution.quantile_tuning_curve", finding_key=fkey, found_by="param_container")
                continue
            for n, t, fo, fr in zip(ns, np.asarray(qt, dtype=float), f_own, f_ref):
                rep.case(("nqtc_param", labels, inp["a"], inp["b"], c, inp["o"], convex, mn, inp["q"], C.fhex(n)),
                         sample=dict(cls="NoisyQuadraticDistribution", constructor=inp["constructor"], n=n, q=q, minimize=mn, impl=float(t)))
                lv = mp_level(q, n, eff)
                if np.isfinite(t):
                    err = max(abs(float(fo) - lv), abs(float(fr) - lv))
                    ok = err <= 2e-5
                else:
                    err, ok = INF, ((t == -INF and lv == 0.0) or (t == INF and lv == 1.0))
                if not ok:
                    keyed += bool(fkey)
                    rep.violate(what=f"F(quantile_tuning_curve(n,q)) differs from the level of the best of n draws by {err:.3g} > 2e-5 "
                                     f"[parameters given as {inp['constructor']}; F = cdf of the instance itself / of the same distribution built from floats]",
                                input=dict(inp, n=C.fhex(n)), expected=lv, observed=dict(t=float(t), F_own=float(fo), F_float_parameters=float(fr)),
                                call="NoisyQuadraticDistribution.quantile_tuning_curve", finding_key=fkey, found_by="param_container")
                    break


def qtc_family_search(rep, NQ):
    """failing-input search after a correspondence disagreement on the noisy quantile curve that does not itself break the
    property: the members on which an error of the inversion is amplified most by the cdf (c in {1,2,3}, small modelled
    noise) at the levels the best of many draws reaches (n up to 1000), at the origin and - second stage - moved 1e4 .. 1e7 widths
    (b-a+12o) away from it on either side ("for every location"; a stopping rule relative to |y| instead of to the width shows
    there); the first failure of F(t) = level is the replay"""
    def members():
        for c in (1, 2, 3):
            for s in (1.5e-6, 3e-6, 1e-5, 3e-5, 1e-4, 3e-4, 1e-3, 1e-2):
                yield 0.0, 1.0, c, s
        for ratio in FAR_RATIOS:
            for sg in (1.0, -1.0):
                for w in (1.0, 1e-3, 1e3):
                    for c, s in ((1, 4e-3), (2, 0.1), (5, 1e-2), (10, 1.0)):
                        yield sg * ratio * w * (1 + 12 * s), w, c, s
    for a, w, c, s in members():
            for convex in (False, True):
                rep.count("qtc_family_members_searched" if a == 0.0 else "qtc_far_location_members_searched")
                with warnings.catch_warnings():
                    warnings.simplefilter("ignore")
                    d = NQ(a, a + w, c, s * w, convex)
                    for mn in (False, True):
                        for q in (0.1, 0.5, 0.9):
                            ns = np.array([1.0, 3.0, 10.0, 50.0, 200.0, 500.0, 1000.0])
                            t = d.quantile_tuning_curve(ns, q=q, minimize=mn)
                            f = d.cdf(t)
                            for n, tt, ff in zip(ns, t, f):
                                lv = mp_level(q, n, mn)
                                if np.isfinite(tt) and not abs(float(ff) - lv) <= 2e-5:
                                    rep.violate(what="F(quantile_tuning_curve(n,q)) differs from the level of the best of n draws by more than 2e-5",
                                                input=dict(cls="NoisyQuadraticDistribution", a=C.fhex(a), b=C.fhex(a + w), c=c, o=C.fhex(s * w),
                                                           convex=convex, minimize=mn, q=C.fhex(q), ns=hexl([float(n)]), n=C.fhex(float(n)),
                                                           readable=dict(a=a, b=a + w, c=c, o=s * w, q=q, n=float(n))),
                                                expected=lv, observed=float(ff), call="NoisyQuadraticDistribution.quantile_tuning_curve",
                                                found_by="family search after a model/implementation disagreement")
                                    return True
    return False


def noisy_quantile_part(rep, rng, drv, NQ, switches, n_cases, rng_far=None, n_far=0):
    searched = False
    cases = []
    for _ in range(n_cases):
        k = gen_noisy(rng, switches, rng.choice(["generic", "generic", "zero_inside", "noise_free"]))
        k.update(mn=rng.choice([None, False, True]), q=gen_q(rng), ns=sorted(Q.gen_ns(rng, 5)))
        cases.append(k)
    # far locations: a stream of their own, judged after the cases above (which are therefore the same as before for a given seed)
    for i in range(n_far):
        k = far_quantile_case(rng_far, switches, i)
        k.update(mn=rng_far.choice([None, False, True]), q=gen_q(rng_far), ns=sorted(Q.gen_ns(rng_far, 5)))
        cases.append(k)
    for ki, k in enumerate(cases):
        if ki == n_cases:
            rng = rng_far
        if "far" in k:
            rep.count("noisy_qtc:location_ratio=1e%d" % round(np.log10(k["far"])))
        a, b, c, convex, o, mn, q, ns = k["a"], k["b"], k["c"], k["convex"], k["o"], k["mn"], k["q"], k["ns"]
        S = b - a + 12 * o
        eff = convex if mn is None else mn
        inp = dict(cls="NoisyQuadraticDistribution", a=C.fhex(a), b=C.fhex(b), c=c, o=C.fhex(o), convex=convex, minimize=mn, q=C.fhex(q), ns=hexl(ns))
        if "far" in k:
            inp["readable"] = dict(a=a, b=b, c=c, o=o, q=q, ns=ns, location_ratio=k["far"])
        rep.count("noisy_qtc:regime=" + ("noiseless" if o < 1e-6 * (b - a) else "series" if o < 10 * (b - a) else "normal"))
        with warnings.catch_warnings():
            warnings.simplefilter("ignore")
            try:
                d = NQ(a, b, c, o, convex)
                nsa = np.array(ns)
                if rng.random() < 0.4:
                    lab = rng.choice(PRIMES)
                    inp["history"] = lab      # calls made first, same_* ones on this very instance (see prime_calls)
                    rep.count("noisy_qtc:history=" + lab)
                    run_primes(prime_calls(NQ, k, lab, with_avg=False, inst=d))
                qt = d.quantile_tuning_curve(nsa, q=q, minimize=mn)
                qt_s = d.quantile_tuning_curve(ns[1], q=q, minimize=mn)
                qt_d, qt_n = d.quantile_tuning_curve(nsa, q=q, minimize=convex), d.quantile_tuning_curve(nsa, q=q)
                fq = d.cdf(qt)
                lv_np = (1 - (1 - q) ** (1 / nsa)) if eff else q ** (1 / nsa)
            except Exception as e:
                rep.violate(what="a documented method raised on an input of the property's domain", error=repr(e), input=inp,
                            call="NoisyQuadraticDistribution.quantile_tuning_curve")
                continue
        if np.shape(qt) != (len(ns),) or not np.isscalar(qt_s):
            rep.violate(what="quantile_tuning_curve: array/scalar shapes are inconsistent", input=inp,
                        call="NoisyQuadraticDistribution.quantile_tuning_curve")
        else:
            # the scalar call is judged by the property's own clause, like the array call below -- not by equality with the array entry:
            # numpy's scalar and array `**` may differ in the last bit of the level, which at a level of 1e-11 moves the quantile by more
            # than any fixed fraction of the scale (found by the thorough tier; both values satisfied F(t) = level to 1e-17)
            with np.errstate(all="ignore"):
                f_s = float(d.cdf(qt_s))
            lv_s = float(mp_level(q, ns[1], eff))
            if not abs(f_s - lv_s) <= 2e-5:
                rep.violate(what="F(quantile_tuning_curve(n,q)) differs from the level of the best of n draws by more than 2e-5 (scalar n)",
                            input=dict(inp, n=C.fhex(ns[1])), expected=lv_s, observed=f_s, call="NoisyQuadraticDistribution.quantile_tuning_curve")
        if not np.array_equal(qt_n, qt_d, equal_nan=True):
            rep.violate(what="minimize=None is not minimize=self.convex", input=inp, call="NoisyQuadraticDistribution.quantile_tuning_curve")
        def spec_nq(kind, n, iv):
            lv = mp_level(q, n, eff)
            if not np.isfinite(iv):
                return None if ((iv == -INF and lv == 0.0) or (iv == INF and lv == 1.0)) else "quantile_tuning_curve is infinite at a level strictly inside (0,1)"
            with warnings.catch_warnings():
                warnings.simplefilter("ignore")
                f = float(d.cdf(iv))
            return None if abs(f - lv) <= 2e-5 else f"F(quantile_tuning_curve(n,q)) differs from the level of the best of n draws by {abs(f - lv):.3g} > 2e-5"
        container_part(rep, rng, d, k, inp, eff, "NoisyQuadraticDistribution", spec_nq, kinds=("qtc",))
        # model: ppf of the level (level computed as the code computes it; the level formula itself is tied by the noiseless class)
        r = drv.run([("noisy.ppf", f"{Q.nparams_line(a, b, c, o, convex)} {C.flist(lv_np)}")])[0]
        if r is None:
            rep.disagree(op="noisy.ppf", note="model rejected an input of the property's domain", input=inp)
            r = None
        for j, (n, t, f) in enumerate(zip(ns, qt, fq)):
            rep.case(("nqtc", inp["a"], inp["b"], c, inp["o"], convex, mn, inp["q"], C.fhex(n)),
                     sample=dict(cls="NoisyQuadraticDistribution", a=a, b=b, c=c, o=o, convex=convex, n=n, q=q, minimize=mn, impl=float(t)))
            lv = mp_level(q, n, eff)
            spec_ok = (abs(float(f) - lv) <= 2e-5) if np.isfinite(t) else ((t == -INF and lv == 0.0) or (t == INF and lv == 1.0))
            if not spec_ok:
                rep.violate(what="F(quantile_tuning_curve(n,q)) differs from the level of the best of n draws by more than 2e-5",
                            input=dict(inp, n=C.fhex(n)), expected=lv, observed=float(f), call="NoisyQuadraticDistribution.quantile_tuning_curve")
                continue
            if r is None:
                continue
            m, flagged = C.unhex(r[3 * j]), int(r[3 * j + 2])
            if flagged < 30:
                rep.skip("noisy_qtc_model_comparison:bisection_decision_within_jitter_of_a_tie")
                continue
            same = (float(t) == m) or (np.isfinite(t) and np.isfinite(m) and abs(float(t) - m) <= 1e-8 * S)
            if not same:
                if not searched:
                    searched = True
                    qtc_family_search(rep, NQ)
                rep.disagree(op="noisy.ppf(level)", input=dict(inp, n=C.fhex(n)), model=m, impl=float(t),
                             note="quantile curve differs from the model's 30-step bisection although F(t) is within 2e-5 of the level")


PRIMES = ("sibling_convex", "sibling_c", "sibling_o", "same_other_n", "same_looser_atol", "same_minimize_flip", "same_quantile_first",
          "same_instance_other_direction_same_ns", "same_instance_back_and_forth", "twin_minimize_flip")


def prime_calls(cls, k, label, noisy=True, with_avg=True, inst=None):
    """history stratum: calls made in the same process *before* the judged call.  `same_*`: on the very instance that is judged
    afterwards (`inst`; state carried by the object — a per-instance memo keyed on too few of the arguments is the typical way to
    break this), `twin_*`: on a new instance with equal parameters (state keyed by the parameters), `sibling_*`: on a new instance
    that differs in exactly one parameter.  The property is about the distribution and n, not about what was evaluated before,
    so the judged value must still meet the same oracle.  When the judged call runs in a forked child the thunks run inside
    that child, on the child's copy of `inst` (which is the object the judged call is then made on)."""
    a, b, c, convex, mn, ns = k["a"], k["b"], k["c"], k["convex"], k["mn"], k["ns"]
    o = k.get("o")
    eff = convex if mn is None else mn
    q = k.get("q", 0.5)

    def mk(c_=c, o_=o, convex_=convex):
        return cls(a, b, c_, o_, convex_) if noisy else cls(a, b, c_, convex_)

    def same():
        return inst if inst is not None else mk()

    def avg(dd, ns_=ns, mn_=mn, **kw):
        if not with_avg:
            return lambda: None
        return lambda: dd().average_tuning_curve(np.array(ns_), minimize=mn_, **kw)

    def qtc(dd, mn_, q_=q):
        return lambda: dd().quantile_tuning_curve(np.array(ns), q=q_, minimize=mn_)

    at = {} if (not noisy or k.get("atol") is None) else dict(atol=k["atol"])      # the judged call's own atol
    if label == "sibling_convex":
        return [avg(lambda: mk(convex_=not convex), mn_=eff), avg(lambda: mk(convex_=not convex), mn_=not eff),
                lambda: mk(convex_=not convex).quantile_tuning_curve(np.array(ns), q=k.get("q", 0.5), minimize=eff)]
    if label == "sibling_c":
        return [avg(lambda: mk(c_=c % 10 + 1), mn_=eff), lambda: mk(c_=c % 10 + 1).quantile_tuning_curve(np.array(ns), q=k.get("q", 0.5), minimize=eff)]
    if label == "sibling_o" and noisy:
        o2 = 2 * o if o > 0 else 0.25 * (b - a if b > a else 1.0)
        return [avg(lambda: mk(o_=o2), mn_=eff), lambda: mk(o_=o2).quantile_tuning_curve(np.array(ns), q=k.get("q", 0.5), minimize=eff)]
    if label == "same_other_n":
        return [avg(same, ns_=[1.0, 3.0, 57.0], mn_=eff)]
    if label == "same_looser_atol" and noisy:
        S = b - a + 12 * o
        return [avg(same, mn_=eff, atol=max(1e-3 * S, 1e-300)), avg(same, mn_=eff, atol=max(1e-4 * S, 1e-300))]
    if label == "same_minimize_flip":
        return [avg(same, mn_=not eff), qtc(same, not eff)]
    if label == "same_quantile_first":
        return [qtc(same, eff, 0.5), lambda: same().cdf(np.linspace(a - 1.0, b + 1.0, 33)),
                lambda: same().ppf(np.array([0.25, 0.75]))]
    if label == "same_instance_other_direction_same_ns":
        # exactly the judged call (same ns, same atol) but for the other direction of optimisation, on the judged instance
        return [avg(same, mn_=not eff, **at)] if with_avg else [qtc(same, not eff)]
    if label == "same_instance_back_and_forth":
        # the judged direction, the other one, (then the judged call): the direction flipped back and forth on one instance
        return [avg(same, mn_=mn, **at), avg(same, mn_=not eff, **at)] if with_avg else [qtc(same, mn), qtc(same, not eff)]
    if label == "twin_minimize_flip":
        return [avg(mk, mn_=not eff), qtc(mk, not eff)]
    return []


def run_primes(thunks):
    with warnings.catch_warnings():
        warnings.simplefilter("ignore")
        for t in thunks:
            try:
                t()
            except Exception:
                pass


def guarded_avg(d, ns, mn, atol, timeout=60.0, mem=1 << 30, primes=()):
    def call():
        run_primes(primes)
        with warnings.catch_warnings():
            warnings.simplefilter("ignore")
            kw = {} if atol is None else dict(atol=atol)
            return [float(v) for v in np.atleast_1d(d.average_tuning_curve(np.array(ns), minimize=mn, **kw))]
    return Q.guarded_call(call, timeout=timeout * (1 + len(primes)), extra_mem=mem)


def model_navg(drv, a, b, c, o, convex, mn, atol, ns, cap=MODEL_CAP):
    at = "-" if atol is None else C.fhex(atol)
    r = drv.run([("quad.navg", f"{Q.nparams_line(a, b, c, o, convex)} {Q.mn_tok(mn)} {at} {cap} {C.flist(ns)}")])[0]
    if r is None:
        return dict(status="reject")
    if r[0] in ("fail", "capped"):
        return dict(status=r[0])
    i = int(r[0])
    vals = [C.unhex(t) for t in r[1:1 + len(ns)]]
    errs = [C.unhex(t) for t in r[1 + len(ns):]]
    return dict(status="ok", rounds=i, values=vals, errs=errs)


def noisy_average_part(rep, rng, drv, NQ, switches, n_cases, replay):
    cases = [
        # the documented probe of the defect and its shifted twin
        dict(a=0.0, b=1.0, c=5, convex=False, o=1e-3, mn=True, ns=[100.0], atol=None),
        dict(a=0.3, b=1.3, c=5, convex=False, o=1e-3, mn=True, ns=[100.0], atol=None),
        # array ns whose LARGEST n has the smoothest integrand (c = 1 against the tail: the n = 2 integrand is almost linear, the n = 1 one is
        # not): the stop rule has to hold for every entry of the array, not only for the largest n
        dict(a=0.0, b=1.0, c=1, convex=False, o=1e-3, mn=True, ns=[1.0, 2.0], atol=None),
        dict(a=-0.4, b=0.6, c=1, convex=True, o=3e-4, mn=False, ns=[1.0, 2.0], atol=None),
    ]
    kinds = ["generic", "zero_inside", "edge_near_zero", "noise_free", "far_location", "tiny_scale", "generic", "zero_inside"]
    # the few integrated cases of the quick tier go through the history labels in turn (starting at a seeded offset), so that
    # every label - in particular every same-instance one - occurs in each run
    n_primed, prime_off = 0, rng.randrange(len(PRIMES))
    while len(cases) < n_cases:
        k = gen_noisy(rng, switches, kinds[len(cases) % len(kinds)])
        r = rng.random()
        ns = [rng.choice([1.0, 2.0, 10.0, 100.0, 1000.0, float(rng.randint(2, 999)), 10.0 ** rng.uniform(0, 3)])] if r < 0.6 else sorted(Q.gen_ns(rng, 3))
        S = k["b"] - k["a"] + 12 * k["o"]
        p_none = 0.4 if kinds[len(cases) % len(kinds)] in ("zero_inside", "edge_near_zero") else 0.75
        atol = None if rng.random() < p_none else min(1e-3, S * 10.0 ** rng.uniform(-5, -3))
        if atol is not None and not (1e-6 * S <= atol <= 1e-3):
            atol = None
        primed = rng.random() < 0.6
        k.update(mn=rng.choice([None, False, True]), ns=ns, atol=atol, prime=(PRIMES[(n_primed + prime_off) % len(PRIMES)] if primed else None))
        n_primed += primed
        cases.append(k)
    if replay is not None:
        cases = [replay]
    for k in cases:
        a, b, c, convex, o, mn, ns, atol = k["a"], k["b"], k["c"], k["convex"], k["o"], k["mn"], k["ns"], k["atol"]
        prime = k.get("prime")
        S = b - a + 12 * o
        lo, hi = a - 6 * o, b + 6 * o
        eff = convex if mn is None else mn
        at = atol if atol is not None else 1e-6 * (hi - lo)
        tol = 100 * max(at, 1e-6 * S)
        inp = dict(cls="NoisyQuadraticDistribution", a=C.fhex(a), b=C.fhex(b), c=c, o=C.fhex(o), convex=convex, minimize=mn, ns=hexl(ns),
                   atol=None if atol is None else C.fhex(atol), history=prime)
        shown = dict(a=a, b=b, c=c, o=o, convex=convex, minimize=mn, ns=ns, atol=atol,
                     history=(None if prime is None else f"in the same process, first: {prime} (see prime_calls in harness/corr_C08.py; "
                                                            "same_* calls are made on the judged instance itself)"))
        rep.count("noisy_avg:history=%s" % prime)
        rep.count("noisy_avg:regime=" + ("noiseless" if o < 1e-6 * (b - a) else "series" if o < 10 * (b - a) else "normal"))
        rep.count("noisy_avg:zero_%s_range" % ("inside" if lo <= 0 < hi else "outside"))
        rep.count("noisy_avg:ns=" + ("array" if len(ns) > 1 else "scalar"))
        with warnings.catch_warnings():
            warnings.simplefilter("ignore")
            d = NQ(a, b, c, o, convex)
        # `d` is copied into the forked child together with the thunks that close over it: the same_* primes and the judged call
        # act on one and the same object there
        status, vals = guarded_avg(d, ns, mn, atol, primes=prime_calls(NQ, k, prime, inst=d) if prime else ())
        for n in ns:
            rep.case(("navg", inp["a"], inp["b"], c, inp["o"], convex, mn, inp["atol"], C.fhex(n)),
                     sample=dict(shown, n=n, impl=(vals[ns.index(n)] if status == "ok" else status)))
        if status != "ok":
            rep.violate(what=f"average_tuning_curve did not return within 60 s / 1 GiB of additional memory ({status})", input=inp,
                        call="NoisyQuadraticDistribution.average_tuning_curve", detail=shown)
            continue
        # ---- model of the documented loop
        m = model_navg(drv, a, b, c, o, convex, mn, atol, ns)
        model_agrees = None
        if m["status"] == "reject":
            rep.disagree(op="quad.navg", note="model rejected an input of the property's domain", input=inp)
        elif m["status"] == "capped":
            rep.skip("noisy_avg_model_comparison:more_than_2^%d_integrand_evaluations" % MODEL_CAP)
        elif m["status"] == "fail":
            rep.disagree(op="quad.navg", note="model exhausts 30 rounds (IntegrationError) but the implementation returned", input=inp)
        else:
            margin = min([abs(e - at) / at for e in m["errs"][3:]] or [1.0])
            model_agrees = all(abs(v - mv) <= 4 * at for v, mv in zip(vals, m["values"]))
            rep.count("noisy_avg:model_rounds=%d" % m["rounds"])
            if margin < 1e-6:
                rep.skip("noisy_avg_model_comparison:stop_decision_within_1e-6_of_atol")
                model_agrees = None
        # ---- Spec: quadrature of the class's own cdf, monotone in n
        truths = [Q.expect_best(d, n, eff, a, b, o, 1e-9 * S) for n in ns]
        bad = [j for j, (v, t) in enumerate(zip(vals, truths)) if not abs(v - t) <= tol]
        f4 = (lo <= 0.0 < hi) and (model_agrees is True)
        # recorded finding (known_findings.json): the documented loop itself stops at the first permitted round on an accidentally small estimate
        fooled4 = (model_agrees is True) and m["status"] == "ok" and m["rounds"] == 4
        for j in bad:
            kw = dict(finding_key=KEY_FOOLED4) if (fooled4 and abs(vals[j] - truths[j]) <= 1e-3 * S) else dict(finding_key=KEY_F4) if f4 else {}
            rep.violate(what="average_tuning_curve differs from the integral of y d[F^n] (adaptive quadrature of the class's own cdf) by more than "
                             "100*max(atol, 1e-6*(b-a+12o))" + (": premature stop of the trapezoid refinement (the value equals the Lean model of the loop, so the error estimate itself was fooled)" if (f4 or fooled4) else ""),
                        input=dict(inp, n=C.fhex(ns[j])), expected=truths[j], observed=vals[j], tolerance=tol,
                        call="NoisyQuadraticDistribution.average_tuning_curve", detail=dict(shown, model=m), **kw)
        if len(ns) > 1:
            dif = np.diff(np.array(vals))
            worst = np.nonzero((dif > 2 * tol) if eff else (dif < -2 * tol))[0]
            if len(worst) and not bad:
                i = int(worst[0])
                rep.violate(what="average_tuning_curve is not monotone in n in the direction of optimisation (beyond twice the tolerance)",
                            input=dict(inp, n=hexl(ns[i:i + 2])), observed=vals[i:i + 2], call="NoisyQuadraticDistribution.average_tuning_curve")
        # ---- model vs implementation (only when the property holds here: otherwise the violation above is the verdict)
        if model_agrees is False and not bad:
            rep.disagree(op="quad.navg", input=inp, model=m, impl=vals,
                         note="implementation and the model of the documented loop differ by more than 4 atol although the value is within the property's tolerance")
        if m["status"] == "ok" and model_agrees is not None and not bad:
            # number of refinements: visible through the value only; recorded for the evidence
            rep.count("noisy_avg:model_and_code_agree_within_4atol" if model_agrees else "noisy_avg:model_and_code_differ")


def point_mass_part(rep, rng, drv, NQ):
    """a = b: o = 0 (point mass; finding F5, repaired by fd4085d) and o > 0 (a normal distribution)"""
    for (a, c, convex, o, n, mn) in [(2.0, 3, False, 0.0, 10.0, None), (0.0, 1, True, 0.0, 1.0, False), (-1.5, 10, True, 0.0, 1000.0, True),
                                     (2.0, 3, False, 0.5, 10.0, None), (0.0, 5, True, 1e-3, 100.0, True),
                                     (100.0, 2, False, 1e-5, 10.0, None), (0.0, 4, True, 1e-10, 100.0, False),
                                     (rng.choice([-1, 1]) * 10.0 ** rng.uniform(-3, 3), rng.randint(1, 10), rng.random() < 0.5,
                                      10.0 ** rng.uniform(-10, -2), float(rng.randint(1, 1000)), rng.choice([None, False, True]))]:
        inp = dict(cls="NoisyQuadraticDistribution", a=C.fhex(a), b=C.fhex(a), c=c, o=C.fhex(o), convex=convex, minimize=mn, ns=hexl([n]), atol=None)
        rep.count("noisy_avg:a=b,o%s0" % ("=" if o == 0 else ">"))
        with warnings.catch_warnings():
            warnings.simplefilter("ignore")
            d = NQ(a, a, c, o, convex)
        status, vals = guarded_avg(d, [n], mn, None, timeout=60.0, mem=1 << 30)
        rep.case(("navg_point", inp["a"], c, inp["o"], convex, mn, C.fhex(n)), sample=dict(a=a, b=a, c=c, o=o, n=n, minimize=mn, impl=str(vals or status)))
        eff = convex if mn is None else mn
        if status != "ok":
            rep.violate(what=f"average_tuning_curve of the a=b member did not return within 60 s / 1 GiB of additional memory ({status})"
                             + (": the point mass (h = 0, atol = 0) must stop at round 4 with `err <= atol` (theorem C08.navg_point_mass_returns; "
                                "finding F5, repaired by fd4085d, has returned)" if o == 0.0 else ""),
                        input=inp, expected=a, call="NoisyQuadraticDistribution.average_tuning_curve")
            continue
        if o == 0.0:
            # the model of the loop on the point mass: stops at round 4 and returns a (theorem C08.navg_point_mass_returns)
            m = model_navg(drv, a, a, c, o, convex, mn, None, [n], cap=12)
            if not (m["status"] == "ok" and m["rounds"] == 4 and m["values"] == [a]):
                rep.disagree(op="quad.navg", input=inp, model=m, impl=vals, note="the Lean model of the loop does not return a at round 4 for the point mass")
        S = 12 * o
        truth = a if o == 0 else Q.expect_best(d, n, eff, a, a, o, 1e-9 * S)
        tol = 100 * max(1e-6 * S, 1e-6 * S)
        if not abs(vals[0] - truth) <= tol:
            rep.violate(what="average_tuning_curve of the a=b member differs from E[best of n draws]", input=inp, expected=truth, observed=vals[0],
                        call="NoisyQuadraticDistribution.average_tuning_curve")


def run(seed, tier, replay=None):
    from opda.parametric import NoisyQuadraticDistribution as NQ
    from opda.parametric import QuadraticDistribution as QD
    rep = C.Report("C08", seed, tier)
    rng = C.rng_for("C08", seed)
    drv = C.Driver()
    switches = Q.SWITCH_S + Q.table_min_scales()
    quick = tier == "quick"
    rp_q = rp_n = rp_p = None
    if replay is not None:
        v = replay.get("violation", replay)
        inp = v.get("input", v)
        ns = [C.unhex(t) for t in inp["ns"]] if isinstance(inp.get("ns"), list) else [C.unhex(inp["n"])]
        base = dict(a=C.unhex(inp["a"]), b=C.unhex(inp["b"]), c=int(inp["c"]), convex=bool(inp["convex"]), mn=inp.get("minimize"), ns=ns)
        if inp.get("param_container"):
            rp_p = (base["a"], base["b"], base["c"], C.unhex(inp["o"]), base["convex"], base["mn"], C.unhex(inp.get("q", C.fhex(0.5))),
                    sorted(set(ns + [1.0, 2.0])), [tuple(inp["param_container"].split("/"))])
        elif inp.get("cls") == "QuadraticDistribution":
            rp_q = dict(base, q=C.unhex(inp.get("q", C.fhex(0.5))), ns=sorted(set(ns + [1.0, 2.0]))[:7], ns_container=inp.get("ns_container"),
                        prime=inp.get("history"))
        else:
            rp_n = dict(base, o=C.unhex(inp["o"]), atol=None if inp.get("atol") is None else C.unhex(inp["atol"]), prime=inp.get("history"))
    calib = {}
    if replay is None or rp_q is not None:
        calib = noiseless_part(rep, rng, drv, QD, 400 if quick else 6000, rp_q)
    if replay is None:
        noisy_quantile_part(rep, rng, drv, NQ, switches, 60 if quick else 1000,
                            rng_far=C.rng_for("C08.far-locations", seed), n_far=24 if quick else 400)
        noisy_quantile_param_part(rep, C.rng_for("C08.parameter-containers", seed), NQ, 20 if quick else 300)
    elif rp_p is not None:
        noisy_quantile_param_part(rep, C.rng_for("C08.parameter-containers", seed), NQ, 1, forced=rp_p)
    if (replay is None or rp_n is not None) and rp_p is None:
        if rp_n is not None and rp_n["a"] == rp_n["b"]:
            point_mass_part(rep, rng, drv, NQ)
        else:
            noisy_average_part(rep, rng, drv, NQ, switches, 26 if quick else 400, rp_n)
    if replay is None:
        point_mass_part(rep, rng, drv, NQ)
    return rep.result(
        rule="noiseless: (a,b) as in C05 incl. point masses, c in 1..10, both shapes, minimize in {None,F,T}, q in {0,1/2,1,...,log-close to 0/1}, "
             "n = 7 sorted reals in [1,1000] incl. 1 and 1000 (array and scalar). noisy quantile curve: generic / zero-inside-range / o=0 "
             "instances, s on both sides of every switch point; far locations (8 fixed members and random ones of every regime at |a| = 1e4, 1e5, "
             "1e6, 1e7 and 10^U(3.5,7) times b-a+12o on both sides of the origin, b-a in [1e-3,1e3]; the axis stops at 1e7 widths, where the "
             "spacing of the doubles at |a| exceeds the final bracket of a 30-step bisection and the unchanged code still meets F(t) = level to "
             "5e-6; the same ratios are searched after a model/implementation disagreement); integral a, b, o handed to the constructor as "
             "Python ints / numpy integer scalars of several widths / mixed with floats (F(t) = level to 2e-5 with the cdf of the instance and "
             "of the float-parameter instance; where an intermediate such as a-6o is not representable in the parameters' integer dtype the "
             "violation is the recorded finding " + KEY_INT_PARAMS + "). noisy average curve: the two documented probes, then generic / 0 inside "
             "[a-6o,b+6o] / an end of the range within 1e-6..5% of 0 / o=0 / |location| up to 1e7 widths from 0 / widths down to 1e-12; scalar and array n; atol None or in [1e-6 S, 1e-3]; a=b with "
             "o=0 and o>0; every integrated call in a forked child (60 s, +1 GiB). History: before 30% / 40% / 60% of the noiseless / noisy-quantile / "
             "noisy-average cases other calls are made first (inside the forked child where there is one): same_* on the very instance that is "
             "judged afterwards (other n, looser atol, the other direction with the same ns and atol, the direction flipped back and forth, "
             "quantile curve / cdf / ppf first), twin_* on a new instance with equal parameters, sibling_* on a new instance differing in one "
             "parameter. A case is (curve, distribution, n[, q]).",
        extra=dict(driver_lines=drv.lines, extra=dict(calibration=calib),
                   oracle="levels and noiseless closed forms in mpmath (40 digits); adaptive 20-point Gauss-Legendre quadrature of the class's own "
                          "cdf for E[best of n] (break points at a, b, a±3o, b±3o and at quantiles of F^n); the Lean model of the documented loop "
                          "to attribute a deviating integrated value to finding F4 / F5"))


if __name__ == "__main__":
    C.main(run)
