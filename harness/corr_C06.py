"""C06 correspondence + conformance: NoisyQuadraticDistribution.cdf / pdf

1. *Correspondence* — the `Float` instance of the polymorphic Lean model (`Opda.Noisy.cdf/pdf`, the term the
   C06 theorems are about) against the implementation, on the same bit patterns.  Both run the same
   algorithm with different libm's, and parts of the algorithm amplify a one-ulp difference enormously, so
   the allowance is measured, not fixed: the driver returns the spread of eight re-evaluations with every
   transcendental result nudged by +-8 ulps and the comparator allows `1e-12 + 16*spread`.  Where that
   allowance exceeds a tenth of the property's tolerance the case is *ill-conditioned* and is compared with
   the Spec oracle (mpmath quadrature of the convolution) at the property's tolerance instead.
   A disagreement beyond the allowance is handed to the oracle: if the implementation breaks the property
   at that input it is a violation (with the input as replay), otherwise a broken correspondence; before
   settling for the latter the same normalised point is evaluated on its location-scale images
   (b-a in {1e-2, 1e-4, 1e-7, 1e3}, a in {0, +-1e3 (b-a)}) and the first violating image is the replay.
2. *Conformance* — on a stratified subset the property itself is evaluated on the implementation against the
   oracle with the property's thresholds, so that the unchanged tree's conformance is measured every run:
   2.5e-5 (cdf; o = 0 or o >= 1e-6 (b-a)), 0.83 sqrt(s) / 0.4 c s (0 < o < 1e-6 (b-a)), range, limits at
   +-inf, monotonicity defect <= 5e-5, (b-a) pdf within 1e-4 max(1,v) (c >= 2) / 0.2 max(1,v) (c = 1),
   and the exact normal law for a = b, o > 0 (1e-12 max(1, v) in units of o).
"""
import json
import math
import os
import warnings

import numpy as np

import common as C
from gen_emp import SharedArg

INF = float("inf")
# switch points of the algorithm, pinned by hand (regimes, k=-1/2 split, Chebyshev ladder, table min_scales)
SWITCHES = [1e-6, 10.0, 5e-2, 3e-4, 6e-4, 3e-3, 1e-2, 0.65, 0.12, 0.065, 0.03, 0.5, 0.085, 0.02, 0.2]
CDF_TOL = 2.5e-5
MONO_TOL = 5e-5


def table_info():
    """min_scales and knots the shipped file currently holds (used only to *place* sample points)"""
    try:
        t = json.load(open(os.path.join(C.REPO, "src", "opda", "_approximations.json")))
        ms = sorted({float(e["min_scale"]) for es in t.values() for e in es if float(e["min_scale"]) > 0})
        knots = {float(k): [(float(e["min_scale"]), [float(x) for x in e["knots"]]) for e in es] for k, es in t.items()}
        return ms, knots
    except Exception:
        return [], {}


def pdf_tol(c, v):
    return (1e-4 if c >= 2 else 0.2) * max(1.0, abs(v))


def cdf_ptol(a, b, c, o):
    """the property's tolerance on cdf at this parameter setting"""
    if a == b:
        return 0.0 if o == 0 else 1e-12
    if 0 < o < 1e-6 * (b - a):
        return noiseless_bound(c, o / (b - a))
    return CDF_TOL


def noiseless_bound(c, s):
    return 0.83 * math.sqrt(s) if c == 1 else 0.4 * c * s


def regime_of(a, b, o):
    if a == b and o == 0:
        return "point"
    if o < 1e-6 * (b - a):
        return "noiseless0" if o == 0 else "noiseless"
    if o < 10.0 * (b - a):
        return "nothing"
    return "normal"


# ---------------------------------------------------------------- integral numbers as parameters and as query points
# The property quantifies over the numbers a, b, o, y; the constructor keeps integral parameters as numpy integers and numpy takes
# the dtype of every intermediate from its operands, so the container a number arrives in is an input axis of its own (HOWTO (v)).
INT_SUPPORTS = ((0, 4), (-3, 7), (2, 12))
PARAM_LABELS = ("pyint", "int64", "int32", "int16", "int8", "uint8", "uint16", "uint32", "uint64")
KEY_INT_PARAMS = "C06-integer-typed-parameters-intermediate-not-representable"


def as_number(v, label):
    """the integral number v as a Python int / Python float / numpy integer scalar of the named width"""
    if label == "pyint":
        return int(v)
    if label == "float":
        return float(v)
    return getattr(np, label)(int(v))


def holds(v, label):
    if label == "float":
        return True
    info = np.iinfo("int64" if label == "pyint" else label)
    return info.min <= int(v) <= info.max


def _dt(label):
    return None if label == "float" else np.dtype("int64" if label == "pyint" else label)


def _rt(*dts):
    """dtype numpy computes in when these operands meet (None = floating point, nothing to overflow)"""
    if any(d is None for d in dts):
        return None
    r = np.result_type(*dts)
    return r if r.kind in "iu" else None


def _unrep(v, dt):
    if dt is None:
        return False
    info = np.iinfo(dt)
    return not (info.min <= v <= info.max)


HAZ_RANGE = ("b-a", "6o", "a-6o", "b+6o")                    # the range [a-6o, b+6o] of the inversion / integration (series regime)
HAZ_VARIANCE = ("b-a", "(b-a)^2", "4(b-a)^2", "o^2")          # mean and variance (normal regime; public attributes)
HAZ_DENSITY = ("b-a", "2(b-a)", "y-a", "y-b", "b-y")          # cdf / pdf formulas


def param_hazard(a, b, o, labels, ys=(), ylabel=None, relevant=None):
    """Explicit predicate on the input (exact integer arithmetic, no call into the library): the intermediates of the class's
    documented formulas - b-a, 2(b-a), (b-a)^2, 4(b-a)^2 (variance), o^2 (variance), 6o, a-6o, b+6o (range of the inversion / of the
    integration), and for integer-typed query points y-a, y-b, b-y - that are NOT representable in the integer dtype numpy gives them
    for parameters handed over as these integer types (`relevant`: only those the judged method uses in this regime).  None if every
    one is representable (then integer-typed parameters are the same numbers as their float values and are judged without any
    allowance)."""
    la, lb, lo = labels
    if not all(float(v).is_integer() for v in (a, b, o)):
        return None
    a, b, o = int(a), int(b), int(o)
    ta, tb, to = _dt(la), _dt(lb), _dt(lo)
    tab = _rt(ta, tb)
    terms = [("b-a", b - a, tab), ("2(b-a)", 2 * (b - a), tab), ("(b-a)^2", (b - a) ** 2, tab), ("4(b-a)^2", 4 * (b - a) ** 2, tab),
             ("o^2", o * o, to), ("6o", 6 * o, to), ("a-6o", a - 6 * o, _rt(ta, to)), ("b+6o", b + 6 * o, _rt(tb, to))]
    if ylabel is not None and ylabel != "float":
        ty = _dt(ylabel)
        for y in ys:
            y = int(y)
            terms += [("y-a", y - a, _rt(ty, ta)), ("y-b", y - b, _rt(ty, tb)), ("b-y", b - y, _rt(ty, tb))]
    bad = [f"{name} = {v} is not representable in {dt}" for name, v, dt in terms
           if (relevant is None or name in relevant) and _unrep(v, dt)]
    return "; ".join(sorted(set(bad))) if bad else None


def hazards_for(regime, method):
    """the intermediates `method` (cdf/pdf or ppf) depends on in this regime"""
    if regime == "normal":
        return HAZ_VARIANCE
    if method == "ppf":
        return HAZ_RANGE if regime == "nothing" else ("b-a",)
    return HAZ_DENSITY


def param_call(a, b, c, o, cv, labels):
    """the constructor call, readable"""
    def one(v, lab):
        return repr(float(v)) if lab == "float" else (str(int(v)) if lab == "pyint" else f"np.{lab}({int(v)})")
    return f"NoisyQuadraticDistribution({one(a, labels[0])}, {one(b, labels[1])}, {int(c)}, {one(o, labels[2])}, convex={bool(cv)})"


def container_repr(label, S):
    """the Python expression for the integral points S in the named container"""
    S = [int(p) for p in S]
    if label == "pyint_list":
        return repr(S)
    if label.endswith("_scalar"):
        return str(S[0]) if label == "pyint_scalar" else f"np.{label[:-7]}({S[0]})"
    if label == "int64_row":
        return f"np.array([{S}], dtype=np.int64)"
    if label == "int32_column":
        return f"np.array({[[p] for p in S]}, dtype=np.int32)"
    return f"np.array({S}, dtype=np.{label})"


def param_label_sets(rng, a, b, o, k=2):
    """ways to hand the integral a, b, o to the constructor: all Python ints, all np.int64, `k` further widths (the same dtype for
    all three, every width incl. the unsigned ones that holds the three values), and mixed settings (some integer-typed, some float)"""
    out = [("pyint", "pyint", "pyint"), ("int64", "int64", "int64")]
    same = [lab for lab in PARAM_LABELS[2:] if all(holds(v, lab) for v in (a, b, o))]
    rng.shuffle(same)
    out += [(lab, lab, lab) for lab in same[:k]]
    mixed = [("pyint", "pyint", "float"), ("float", "pyint", "pyint"), ("pyint", "float", "pyint"), ("float", "float", "pyint"),
             ("int64", "float", "float"), ("float", "int32", "int64"), ("int32", "pyint", "int64"), ("uint8", "int64", "pyint")]
    mixed = [m for m in mixed if all(holds(v, lab) for v, lab in zip((a, b, o), m))]
    rng.shuffle(mixed)
    return out + mixed[:k]


def gen_int_dist(rng, switches, kind):
    """integer-friendly member: a < b integers several units apart, so that the support contains integral points strictly inside;
    every regime (o = 0, 0 < o < 1e-6 (b-a), series, normal), the noise level integral where integral values can reach the regime"""
    if rng.random() < 0.6:
        a, b = rng.choice(INT_SUPPORTS)
    else:
        a = rng.randint(-20, 20)
        b = a + rng.randint(2, 40)
    w = b - a
    if kind == "o=0":
        o = 0.0
    elif kind == "0<o<1e-6w":
        o = w * 10 ** rng.uniform(-9, -6.05)
    elif kind == "series":
        if rng.random() < 0.5:
            s0 = rng.choice([s for s in switches if 1e-6 <= s <= 10.0])
            s = s0 * (1 + rng.choice([-1, 0, 1]) * 10 ** rng.uniform(-8, -1))
        else:
            s = 10 ** rng.uniform(-6, 1)
        o = min(max(s, 1e-6), 9.99) * w
    elif kind == "series,o integral":
        o = float(rng.randint(1, min(10 * w - 1, 60)))
    elif kind == "normal":
        o = w * 10 ** rng.uniform(1, 3.5)
    else:  # "normal,o integral"
        o = float(10 * w + rng.randint(0, 200))
    c = rng.choice([1, 1, 2, 2, 3, 4, 5, 6, 7, 8, 9, 10])
    inside = list(range(a + 1, b))
    pts = set(rng.sample(inside, min(4, len(inside)))) | {(a + b) // 2, a, b, a - 1, b + 1}
    ys = sorted(float(p) for p in pts) + [a + w * rng.random(), a + w * rng.random()]
    return float(a), float(b), c, float(o), rng.random() < 0.5, "int:" + kind, ys


PC_SUPPORTS = ((0, 1), (0, 4), (-3, 7), (2, 12), (10, 20), (0, 5), (-100, 100), (0, 1000), (1, 2))
PC_KINDS = ("series", "series", "normal", "series", "o=0", "series", "noiseless", "a=b,o>0", "series", "point")


def gen_int_params(rng, kind):
    """integral a, b, o reaching the named regime (the regimes integral values can reach: the series regime needs o >= 1 and
    b - a > o/10; 0 < o < 1e-6 (b-a) needs b - a > 1e6)"""
    if rng.random() < 0.7:
        a, b = rng.choice(PC_SUPPORTS)
    else:
        a = rng.randint(-50, 50)
        b = a + rng.randint(1, 60)
    w = b - a
    if kind == "series":
        o = rng.choice([1, 1, 2, 3, rng.randint(1, min(10 * w - 1, 90))])
        o = min(o, 10 * w - 1)
    elif kind == "normal":
        o = 10 * w + rng.choice([0, 1, rng.randint(0, 50)])
    elif kind == "o=0":
        o = 0
    elif kind == "noiseless":
        b, o = a + 10 ** 6 * rng.choice([2, 5, 1000]) + rng.randint(0, 9), 1
    elif kind == "a=b,o>0":
        b, o = a, rng.randint(1, 9)
    else:
        b, o = a, 0
    return float(a), float(b), rng.choice([1, 2, 2, 3, 4, 5, 6, 7, 8, 9, 10]), float(o), rng.random() < 0.5


INT_KINDS = ("o=0", "series,o integral", "0<o<1e-6w", "o=0", "series", "normal,o integral", "o=0", "normal")


def gen_dist(rng, switches):
    a = rng.choice([0.0, -1.0, 2.5, rng.uniform(-10, 10)])
    w = rng.choice([1.0, 1.0, 10 ** rng.uniform(-3, 3)])
    c = rng.randint(1, 10)
    if rng.random() < 0.35:
        c = rng.choice([1, 1, 3, 5, 7, 9])          # the half-integer orders carry the approximations
    r = rng.random()
    if r < 0.30:
        s = 10 ** rng.uniform(-9, 4)
        tag = "loguniform"
    elif r < 0.86:
        s0 = rng.choice(switches)
        side = rng.choice([-1, 0, 1, 1, -1])
        s = s0 * (1 + side * 10 ** rng.uniform(-8, -1))
        s = min(max(s, 1e-9), 1e4)
        tag = "switch%g%s" % (s0, {-1: "-", 0: "=", 1: "+"}[side])
    elif r < 0.93:
        s = 0.0
        tag = "o=0"
    else:
        # a = b
        o = rng.choice([0.0, 1.0, 10 ** rng.uniform(-3, 3), 10 ** rng.uniform(-3, 3)])
        return a, a, c, o, rng.random() < 0.5, "a=b,o=0" if o == 0 else "a=b,o>0"
    return a, a + w, c, s * w, rng.random() < 0.5, tag


def gen_ys(rng, a, b, c, o, convex, knots, n):
    w = b - a
    ys = []
    span_lo, span_hi = a - 9 * o, b + 9 * o
    if w == 0:
        ys = [a, a + o * rng.uniform(-9, 9), a + o * rng.uniform(-9, 9), a - 9 * o, a + 9 * o, a + o * rng.gauss(0, 1),
              np.nextafter(a, INF), np.nextafter(a, -INF), INF, -INF]
        return [float(y) for y in ys[:n]]
    s = o / w
    kn = []
    for m2 in (c, c - 2):
        for ms, ks in knots.get(m2 / 2, []):
            if s >= ms:
                kn += ks
                break
    while len(ys) < n:
        r = rng.random()
        if r < 0.40:
            y = rng.uniform(span_lo, span_hi)
        elif r < 0.60:
            y = rng.choice([a, b]) + o * rng.uniform(-9, 9)
        elif r < 0.72 and kn:
            t = rng.choice(kn) + s * rng.choice([0, 0, rng.uniform(-3, 3)])
            y = a + w * t if convex else b - w * t
        elif r < 0.84:
            t = rng.choice([0.0, 1.0, 0.5, 1e-9, 1 - 1e-9, rng.random() ** 3, 1 - rng.random() ** 3])
            y = a + w * t if convex else b - w * t
        elif r < 0.92:
            y = rng.choice([a, b, a - 6 * o, b + 6 * o, a - 9 * o, b + 9 * o])
        else:
            y = rng.choice([INF, -INF])
        if y == y and (span_lo <= y <= span_hi or abs(y) == INF):
            ys.append(float(y))
    return ys


def params_line(a, b, c, o, cv):
    return f"{C.fhex(a)} {C.fhex(b)} {c} {C.fhex(o)} {1 if cv else 0}"


def inp_of(a, b, c, o, cv, y=None):
    d = dict(a=C.fhex(a), b=C.fhex(b), c=int(c), o=C.fhex(o), convex=bool(cv),
             readable=dict(a=a, b=b, c=int(c), o=o, s=(o / (b - a) if b > a else None)))
    if y is not None:
        d["y"] = C.fhex(y)
        d["readable"]["y"] = y
    return d


def _cont_note(extra):
    if not extra:
        return ""
    bits = [f"y given as {extra['ys_container']}"] if extra.get("ys_container") else []
    bits += [f"parameters given as {extra['constructor']}"] if extra.get("constructor") else []
    return " [" + "; ".join(bits) + "]" if bits else ""


class Conformance:
    """the property's clauses evaluated on the implementation against the oracle"""

    def __init__(self, rep, oracle):
        self.rep, self.O = rep, oracle
        self.worst = dict(cdf=0.0, cdf_noiseless_ratio=0.0, pdf_c_ge_2_ratio=0.0, pdf_c1_ratio=0.0, normal_ab=0.0,
                          monotonicity_defect=0.0)

    def budget_left(self, why):
        """under a mutant thousands of cases may disagree; the oracle is consulted for the first 60 of them only
        (True = treat as 'property still holds here', i.e. record a disagreement without a verdict of the oracle)"""
        if why != "disagreement":
            return True
        self.n_dis = getattr(self, "n_dis", 0) + 1
        return self.n_dis <= 60

    def cdf(self, a, b, c, o, cv, y, ic, cross=False, why="conformance", extra=None, fkey=None):
        """True if the implementation's cdf value meets the property at this input; `extra` is added to the replay input (the container
        the numbers were handed over in), `fkey` tags a violation as a recorded finding (explicit predicate evaluated by the caller)"""
        if not self.budget_left(why):
            return True
        reg = regime_of(a, b, o)
        tv = float(self.O.cdf(a, b, c, o, cv, y, cross=cross))
        err = abs(ic - tv) if ic == ic else INF
        if reg == "point":
            tol = 0.0
        elif a == b:
            tol = 1e-12 * max(1.0, tv)
            self.worst["normal_ab"] = max(self.worst["normal_ab"], err)
        elif reg == "noiseless":
            tol = noiseless_bound(c, o / (b - a))
            self.worst["cdf_noiseless_ratio"] = max(self.worst["cdf_noiseless_ratio"], err / tol)
        else:
            tol = CDF_TOL
            self.worst["cdf"] = max(self.worst["cdf"], err)
        self.rep.count(f"oracle_cdf[{why}]")
        if a == b and reg != "point" and err <= tol and err > 1e-12 * tv:
            # the clause reads "1e-12 relative": 0.5*(1+erf) cannot deliver that once the true value is below ~1e-4
            # (absolute error ~1e-16).  Recorded finding, keyed only while the error is at the rounding level of 1.
            if err <= 4e-16:
                self.n_tail = getattr(self, "n_tail", 0) + 1
                if self.n_tail <= 3:
                    self.rep.violate(
                        what=f"a=b, o>0: cdf(y) is not within 1e-12 RELATIVE of the normal law in the lower tail (abs err {err:.3g}, true {tv:.3g})",
                        input=inp_of(a, b, c, o, cv, y), expected=float(tv), observed=float(ic),
                        call="NoisyQuadraticDistribution.cdf", finding_key="C06-degenerate-normal-lower-tail-not-1e-12-relative", found_by=why)
                else:
                    self.rep.count("known_tail_relative_repeats")
                return True
            tol = 1e-12 * tv
        if err > tol:
            self.rep.violate(
                what=f"cdf(y) differs from P[Z+E<=y] by {err:.3g} > {tol:.3g} (regime {reg})" + _cont_note(extra),
                input=dict(inp_of(a, b, c, o, cv, y), **(extra or {})), expected=float(tv), observed=float(ic),
                call="NoisyQuadraticDistribution.cdf", finding_key=fkey, found_by=why)
            return False
        return True

    def pdf(self, a, b, c, o, cv, y, ip, cross=False, why="conformance", extra=None, fkey=None):
        if not self.budget_left(why):
            return True
        reg = regime_of(a, b, o)
        if reg == "point":
            return True
        if a == b:
            tv = float(self.O.normal_pdf_o(a, o, y))
            err = abs(ip * o - tv) if ip == ip else INF
            tol = 1e-12 * max(1.0, tv)
            self.worst["normal_ab"] = max(self.worst["normal_ab"], err)
            scale_name = "o*pdf"
        elif reg == "noiseless":
            self.rep.skip("pdf_clause_excludes_0<o<1e-6(b-a)")
            return True
        else:
            tv = self.O.wpdf(a, b, c, o, cv, y, cross=cross)
            if tv is None:
                self.rep.skip("pdf_at_support_end_with_o=0_is_a_convention")
                return True
            tv = float(tv)
            w = b - a
            if abs(ip) == INF or tv == INF:
                err = 0.0 if ip == tv else INF
            else:
                err = abs(ip * w - tv) if ip == ip else INF
            tol = pdf_tol(c, tv)
            k = "pdf_c_ge_2_ratio" if c >= 2 else "pdf_c1_ratio"
            self.worst[k] = max(self.worst[k], err / tol)
            scale_name = "(b-a)*pdf"
        self.rep.count(f"oracle_pdf[{why}]")
        if not (ip >= 0):
            self.rep.violate(what="pdf(y) is negative or nan" + _cont_note(extra), input=dict(inp_of(a, b, c, o, cv, y), **(extra or {})),
                             observed=float(ip), call="NoisyQuadraticDistribution.pdf", finding_key=fkey, found_by=why)
            return False
        if a == b and err <= tol and tv > 0 and err > 1e-12 * tv:
            # "1e-12 relative" for the exact normal law: exp(-x*x/2) inherits the rounding of its argument,
            # relative error ~ (x*x/2)*2^-53 (the same mechanism as the recorded C16 normal_pdf finding)
            xx = (y - a) / o
            if err <= (xx * xx / 2 + 4) * 2.0 ** -52 * tv:
                self.n_tailp = getattr(self, "n_tailp", 0) + 1
                if self.n_tailp <= 3:
                    self.rep.violate(
                        what=f"a=b, o>0: o*pdf(y) is not within 1e-12 RELATIVE of the normal density (rel err {err / tv:.3g} at |x|={abs(xx):.3g})",
                        input=inp_of(a, b, c, o, cv, y), expected=float(tv), observed=float(ip),
                        call="NoisyQuadraticDistribution.pdf", finding_key="C06-degenerate-normal-pdf-argument-rounding", found_by=why)
                else:
                    self.rep.count("known_tail_relative_repeats")
                return True
            tol = 1e-12 * tv
        if err > tol:
            self.rep.violate(
                what=f"{scale_name} differs from the convolution density by {err:.3g} > {tol:.3g} (regime {reg})" + _cont_note(extra),
                input=dict(inp_of(a, b, c, o, cv, y), **(extra or {})), expected=float(tv), observed=float(ip),
                call="NoisyQuadraticDistribution.pdf", finding_key=fkey, found_by=why)
            return False
        return True


def int_member_block(rep, conf, rng, NQ, d, a, b, c, o, cv, base, ys, forced=None):
    """An integer-friendly member (integral a < b, see gen_int_dist): its integral query points - strictly inside the support, the
    two ends, one unit outside - handed over as a list of Python ints, as integer ndarrays of every width that holds them (1-D, a
    row, a column), as Python int and numpy integer scalars; and, where o is integral too, the three parameters handed over as
    Python ints / numpy integer scalars / mixed with floats.  The property is about the numbers.  Verdicts: for o = 0 (closed-form
    density and cdf of the quadratic law in the oracle; the two support ends are a convention of the pdf and are skipped there)
    every value goes to the oracle; for o > 0 a first pass compares with the float64 evaluation of the same numbers (which the main
    loop ties to the model and the conformance stage to the oracle) and the oracle decides, at the property's tolerances, wherever
    they differ.  Returns True if a clause failed."""
    ints = sorted({int(y) for y in ys if np.isfinite(y) and float(y).is_integer()})
    if not ints:
        return False
    with np.errstate(all="ignore"):
        ref = {p: (float(d.cdf(float(p))), float(d.pdf(float(p)))) for p in ints}
    direct = (o == 0 and b > a)
    forced = forced or {}

    def judge(p, vc, vp, extra, fkey=None):
        rep.case(("container", extra.get("ys_container"), extra.get("param_container"), base["a"], base["b"], c, base["o"], cv, p), nontrivial=b > a)
        sus_c = direct or not abs(vc - ref[p][0]) <= 1e-7
        sus_p = direct or not abs(vp - ref[p][1]) <= 1e-6 * max(1.0, abs(ref[p][1]))
        if not (sus_c or sus_p):
            return True
        if fkey or not direct:
            # the oracle is consulted for at most 24 deviating values per run (3 where the recorded dtype finding applies)
            cnt = "n_cont_keyed" if fkey else "n_cont"
            if getattr(conf, cnt, 0) >= (3 if fkey else 24):
                return True
            setattr(conf, cnt, getattr(conf, cnt, 0) + 1)
        good = True
        if sus_c:
            good = conf.cdf(a, b, c, o, cv, float(p), float(vc), why="ys_container", extra=extra, fkey=fkey) and good
        if sus_p:
            good = conf.pdf(a, b, c, o, cv, float(p), float(vp), why="ys_container", extra=extra, fkey=fkey) and good
        return good

    def eval_on(dd, obj, n, label, extra, fkey=None):
        """cdf and pdf of `dd` on the container `obj` holding n points; None after reporting a raised exception / a wrong shape"""
        try:
            with np.errstate(all="ignore"):
                vc, vp = dd.cdf(obj), dd.pdf(obj)
        except Exception as e:  # noqa: BLE001
            rep.violate(what=f"cdf/pdf raised for points given as {label} (the same numbers as float64 are accepted)" + _cont_note(extra), error=repr(e),
                        input=dict(base, **extra), call="NoisyQuadraticDistribution.cdf", finding_key=fkey, found_by="ys_container")
            return None
        want = np.shape(obj)
        if np.shape(vc) != want or np.shape(vp) != want:
            rep.violate(what=f"cdf/pdf: points given as {label} of shape {want} gave shapes {np.shape(vc)}, {np.shape(vp)}" + _cont_note(extra),
                        input=dict(base, **extra), call="NoisyQuadraticDistribution.cdf", finding_key=fkey, found_by="ys_container")
            return None
        return np.ravel(np.asarray(vc, dtype=float)), np.ravel(np.asarray(vp, dtype=float))

    sets = [S for S in ([p for p in ints if a < p < b], [p for p in ints if not (a < p < b)]) if S]
    # ---- the query points in other containers
    if not forced.get("constructor"):
        for S in sets:
            conts = [("pyint_list", [int(p) for p in S])]
            fit = [dt for dt in C.INT_DTYPES if np.iinfo(dt).min <= min(S) and max(S) <= np.iinfo(dt).max]
            conts += [(dt, np.array(S, dtype=dt)) for dt in fit]
            conts += [("int64_row", np.array(S, dtype=np.int64).reshape(1, -1)), ("int32_column", np.array(S, dtype=np.int32).reshape(-1, 1))]
            scal = ["pyint"] + rng.sample(fit, min(2, len(fit)))
            if forced.get("ys_container"):
                conts = [lc for lc in conts if lc[0] == forced["ys_container"]]
                scal = [lab for lab in ["pyint"] + fit if lab + "_scalar" == forced["ys_container"]]
            for label, obj in conts:
                rep.count("ys_container=" + label)
                extra = dict(ys_container=label, ys=[C.fhex(p) for p in S],
                             python=f"{param_call(a, b, c, o, cv, ('float',) * 3)}.cdf/.pdf({container_repr(label, S)})")
                v = eval_on(d, obj, len(S), label, extra)
                if v is None or not all([judge(p, v[0][j], v[1][j], extra) for j, p in enumerate(S)]):
                    return True
            for lab in scal:
                rep.count(f"ys_container={lab}_scalar")
                for p in S:
                    extra = dict(ys_container=lab + "_scalar",
                                 python=f"{param_call(a, b, c, o, cv, ('float',) * 3)}.cdf/.pdf({container_repr(lab + '_scalar', [p])})")
                    v = eval_on(d, as_number(p, lab), 1, lab + "_scalar", extra)
                    if v is None or not judge(p, v[0][0], v[1][0], extra):
                        return True
    # ---- the parameters in other containers (integral a, b and o)
    if not float(o).is_integer() or forced.get("ys_container") and not forced.get("constructor"):
        return False
    if forced.get("param_container"):
        label_sets = [tuple(forced["param_container"].split("/"))]
    else:
        label_sets = param_label_sets(rng, a, b, o)
    allp = [p for S in sets for p in S]
    for labels in label_sets:
        plabel = "/".join(labels)
        rep.count("param_container=" + ("all " + labels[0] if len(set(labels)) == 1 else "mixed"))
        hz = param_hazard(a, b, o, labels, relevant=hazards_for(regime_of(a, b, o), "cdf"))
        if hz:
            rep.count("param_container:an_intermediate_is_not_representable_in_the_parameters_dtype")
        fkey = KEY_INT_PARAMS if hz else None
        extra = dict(param_container=plabel, constructor=param_call(a, b, c, o, cv, labels), **({"dtype_hazard": hz} if hz else {}),
                     python=f"{param_call(a, b, c, o, cv, labels)}.cdf/.pdf(np.array({[float(p) for p in allp]}))")
        try:
            d2 = NQ(as_number(a, labels[0]), as_number(b, labels[1]), c, as_number(o, labels[2]), cv)
        except Exception as e:  # noqa: BLE001
            rep.violate(what="the constructor raised for integral parameters" + _cont_note(extra), error=repr(e), input=dict(base, **extra),
                        call="NoisyQuadraticDistribution", finding_key=fkey, found_by="param_container")
            return True
        v = eval_on(d2, np.array(allp, dtype=float), len(allp), "float64", extra, fkey)
        if v is None or not all([judge(p, v[0][j], v[1][j], extra, fkey) for j, p in enumerate(allp)]):
            if not fkey:
                return True
            continue
        # integer-typed parameters and integer-typed points together
        for S in sets:
            fit = [dt for dt in C.INT_DTYPES if np.iinfo(dt).min <= min(S) and max(S) <= np.iinfo(dt).max]
            ylab = forced.get("ys_container") or rng.choice(fit)
            hz2 = param_hazard(a, b, o, labels, ys=S, ylabel=ylab, relevant=hazards_for(regime_of(a, b, o), "cdf"))
            fk2 = KEY_INT_PARAMS if hz2 else None
            ex2 = dict(extra, ys_container=ylab, ys=[C.fhex(p) for p in S], **({"dtype_hazard": hz2} if hz2 else {}),
                       python=f"{param_call(a, b, c, o, cv, labels)}.cdf/.pdf({container_repr(ylab, S)})")
            rep.count("param_container_with_integer_points")
            v = eval_on(d2, np.array(S, dtype=ylab), len(S), ylab, ex2, fk2)
            if v is None or not all([judge(p, v[0][j], v[1][j], ex2, fk2) for j, p in enumerate(S)]):
                if not fk2:
                    return True
    return False


IMAGE_WIDTHS = (1e-2, 1e-4, 1e-7, 1e3)


def image_search(conf, NQ, a, b, c, o, cv, y):
    """failing-input search beyond the disagreeing instance: NoisyQuadratic is a location-scale family, so the same
    (c, s = o/(b-a), shape, (y-a)/(b-a)) is evaluated on its images b-a in {1e-2, 1e-4, 1e-7, 1e3}, a in {0, +-1e3 (b-a)}
    against the oracle (recomputed at the image's exact floats); the first violating image becomes the replay"""
    if not (b > a) or abs(y) == INF:
        return False
    s, t = o / (b - a), (y - a) / (b - a)
    for w in IMAGE_WIDTHS:
        for a2 in (0.0, 1e3 * w, -1e3 * w):
            b2, o2, y2 = a2 + w, s * w, a2 + w * t
            if regime_of(a2, b2, o2) != regime_of(a, b, o):
                continue
            conf.rep.count("location_scale_images_searched")
            try:
                d = NQ(a2, b2, c, o2, cv)
                with np.errstate(all="ignore"):
                    ic, ip = float(d.cdf(y2)), float(d.pdf(y2))
            except Exception as e:
                conf.rep.violate(what="cdf/pdf raised on a valid input", error=repr(e), input=inp_of(a2, b2, c, o2, cv, y2),
                                 call="NoisyQuadraticDistribution.cdf", found_by="location-scale image of a disagreement")
                return True
            why = "location-scale image of a disagreement"
            if not (0.0 <= ic <= 1.0):
                conf.rep.violate(what="cdf(y) outside [0, 1]", input=inp_of(a2, b2, c, o2, cv, y2), observed=ic,
                                 call="NoisyQuadraticDistribution.cdf", found_by=why)
                return True
            if not conf.cdf(a2, b2, c, o2, cv, y2, ic, why=why) or not conf.pdf(a2, b2, c, o2, cv, y2, ip, why=why):
                return True
    return False


def scale_axis_search(conf, NQ, c, o, w, cv):
    """failing-input search, second stage (once per run): a disagreement that is not itself a violation, e.g. a moved regime
    switch, shows its damage further along the scale axis; scan s' = s * {1/8 .. 9.5} for the disagreeing c and the orders
    with the longest recursions, both shapes, at a few standardised points, against the oracle"""
    if not w > 0 or not o > 0:
        return False
    s0 = o / w
    scales = sorted({min(max(s0 * f, 1e-9), 1e4) for f in (1.0, 1.5, 2.0, 3.0, 5.0, 8.0, 9.5, 1 / 1.5, 0.5, 1 / 3.0, 0.2, 0.125)})
    for c2 in sorted({int(c), 3, 7, 9, 10}):
        for s in scales:
            for cv2 in (cv, not cv):
                for t in (0.5, 0.1 - s, 0.9 + s):
                    conf.rep.count("scale_axis_points_searched")
                    try:
                        d = NQ(0.0, 1.0, c2, s, cv2)
                        with np.errstate(all="ignore"):
                            ic, ip = float(d.cdf(t)), float(d.pdf(t))
                    except Exception as e:  # noqa: BLE001
                        conf.rep.violate(what="cdf/pdf raised on a valid input", error=repr(e), input=inp_of(0.0, 1.0, c2, s, cv2, t),
                                         call="NoisyQuadraticDistribution.cdf", found_by="scale-axis search after a disagreement")
                        return True
                    why = "scale-axis search after a disagreement"
                    if not conf.cdf(0.0, 1.0, c2, s, cv2, t, ic, why=why) or not conf.pdf(0.0, 1.0, c2, s, cv2, t, ip, why=why):
                        return True
    return False


def run(seed, tier, replay=None):
    from opda.parametric import NoisyQuadraticDistribution as NQ
    import noisy_oracle as NO
    warnings.simplefilter("ignore")
    rep = C.Report("C06", seed, tier)
    rng = C.rng_for("C06", seed)
    drv = C.Driver()
    oracle = NO.Oracle()
    conf = Conformance(rep, oracle)
    ms, knots = table_info()
    switches = sorted(set(SWITCHES) | set(ms))
    thorough = tier != "quick"
    n_dists = 420 if not thorough else 4000
    n_entry = 2 if not thorough else 12
    entry_dists = []
    n_ys = 10
    n_spec = 170 if not thorough else 2500
    n_mono = 70 if not thorough else 600
    n_int = 32 if not thorough else 320

    dists = []
    forced = None
    if replay is not None:
        inp = (replay.get("violation") or replay).get("input") or {}
        try:
            a, b, o = C.unhex(inp["a"]), C.unhex(inp["b"]), C.unhex(inp["o"])
            as_int = bool(inp.get("python"))      # found by int_member_block: replay the named container(s) at the recorded point
            forced = dict(ys_container=inp.get("ys_container"), constructor=inp.get("constructor"), param_container=inp.get("param_container")) if as_int else None
            dists.append((a, b, int(inp["c"]), o, bool(inp["convex"]), "int:replay" if as_int else "replay",
                          [C.unhex(inp["y"])] if "y" in inp else None))
            n_dists = n_mono = 0
            n_spec = 10
        except Exception:
            rep.notes.append("replay file carries no C06 input; running the seeded check")
    for _ in range(n_dists):
        a, b, c, o, cv, tag = gen_dist(rng, switches)
        dists.append((a, b, c, o, cv, tag, None))
    # one stratum per (table entry, function): the entry of exponent k serves cdf with c = 2k and pdf with c = 2k + 2
    # on its scale range [min_scale, previous min_scale); y is placed where the polynomial matters (loc in [-3s, 1+3s])
    if replay is None:
        for k, entries in sorted(knots.items()):
            hi_s = 10.0
            for ms_e, _ks in entries:
                lo_s = max(ms_e, 1e-6)
                for c in (int(round(2 * k)), int(round(2 * k)) + 2):
                    if not (1 <= c <= 10):
                        continue
                    for _ in range(n_entry):
                        s = math.exp(rng.uniform(math.log(lo_s), math.log(hi_s)))
                        s = min(max(s, lo_s), math.nextafter(hi_s, 0.0))
                        a = rng.choice([0.0, -1.0, 2.5])
                        w = 1.0
                        cv = rng.random() < 0.5
                        locs = [rng.uniform(-3 * s, 1 + 3 * s) for _ in range(n_ys - 3)] + [1 - rng.random() * min(1.0, 3 * s), rng.random() * min(1.0, 3 * s), rng.random()]
                        ys = [(a + w * t) if cv else (a + w - w * t) for t in locs]
                        dists.append((a, a + w, c, s * w, cv, "entry%g@%g" % (k, ms_e), ys))
                        entry_dists.append(len(dists) - 1)
                hi_s = ms_e if ms_e > 0 else hi_s
    # integer-friendly members (integral a < b several units apart, integral query points strictly inside the support) in every
    # regime; generated from a stream of their own and kept out of the pools of stages 2 and 3 (they are judged in int_member_block
    # and below), so that the strata above are the same as before for a given seed
    first_int = len(dists)
    rng_i = C.rng_for("C06.integer-members", seed)
    if replay is None:
        for i in range(n_int):
            dists.append(gen_int_dist(rng_i, switches, INT_KINDS[i % len(INT_KINDS)]))
    elif dists and dists[0][5] == "int:replay":
        first_int = 0

    # ------------------------------------------------------------------ 0. the degenerate normal family far from the origin
    # a = b (the class is N(a, o^2) exactly, clause "1e-12") at locations that are no dyadic rationals, with noise 1e-12 .. 1e-5 of |a|:
    # one ulp of the location is then a visible fraction of o.  Query points a + z o (as rounded: the oracle works on the float y).
    if replay is None:
        drng = C.rng_for("C06.degenerate-normal", seed)
        for a0 in (0.1, 0.7, 1234.1, -3.3e5 - 0.3, drng.uniform(1.0, 100.0)):
            for rel in (1e-12, 1e-9, 10.0 ** drng.uniform(-11.0, -5.0)):
                o0 = abs(a0) * rel
                for c0 in (1, 4, 5, 7, 10, drng.randint(1, 10)):
                    cv0 = drng.random() < 0.5
                    rep.count("stratum=degenerate_normal_nondyadic_location_small_noise")
                    try:
                        d0 = NQ(a0, a0, c0, o0, cv0)
                        zs0 = (-3.0, -1.0, 0.5, 2.0)
                        ys0 = [a0 + z * o0 for z in zs0]
                        with np.errstate(all="ignore"):
                            ic0, ip0 = np.asarray(d0.cdf(np.array(ys0)), dtype=float), np.asarray(d0.pdf(np.array(ys0)), dtype=float)
                    except Exception as e:  # noqa: BLE001
                        rep.violate(what="cdf/pdf raised on a valid input", error=repr(e), input=inp_of(a0, a0, c0, o0, cv0, a0),
                                    call="NoisyQuadraticDistribution.cdf")
                        continue
                    for y0, vc0, vp0 in zip(ys0, ic0, ip0):
                        rep.case(("degenerate-normal", a0, o0, c0, cv0, y0))
                        if not conf.cdf(a0, a0, c0, o0, cv0, y0, float(vc0), why="degenerate_normal") \
                                or not conf.pdf(a0, a0, c0, o0, cv0, y0, float(vp0), why="degenerate_normal"):
                            break

    # ------------------------------------------------------------------ 1. correspondence
    reqs, meta = [], []
    for di, (a, b, c, o, cv, tag, ys) in enumerate(dists):
        if ys is None:
            ys = gen_ys(rng, a, b, c, o, cv, knots, n_ys)
        dists[di] = (a, b, c, o, cv, tag, ys)
        line = f"{params_line(a, b, c, o, cv)} {C.flist(ys)}"
        reqs.append(("noisy.cdf", line))
        reqs.append(("noisy.pdf", line))
        rep.count("regime=" + regime_of(a, b, o))
        rep.count("s:" + tag)
        rep.count("c=%d" % c)
        rep.count("convex" if cv else "concave")
    replies = drv.run(reqs)

    images_left = [4]          # disagreeing instances whose location-scale images are searched
    axis_left = [1]            # second-stage search along the scale axis, once per run

    def search_images(a, b, c, o, cv, y):
        if images_left[0] > 0:
            images_left[0] -= 1
            if not image_search(conf, NQ, a, b, c, o, cv, y) and axis_left[0] > 0:
                axis_left[0] -= 1
                scale_axis_search(conf, NQ, c, o, b - a, cv)

    stats = dict(cdf_cases=0, pdf_cases=0, ill_cdf=0, ill_pdf=0, tight_cdf=0, tight_pdf=0, worst_cdf_excess=0.0, worst_pdf_excess=0.0,
                 max_allowance_used_cdf=0.0)
    spec_pool, int_pool = [], []
    for di, (a, b, c, o, cv, tag, ys) in enumerate(dists):
        rc, rp = replies[2 * di], replies[2 * di + 1]
        base = inp_of(a, b, c, o, cv)
        if rc is None or rp is None:
            rep.disagree(op="noisy.cdf/pdf", note="model rejected a valid input", input=base)
            continue
        try:
            d = NQ(a, b, c, o, cv)
            with np.errstate(all="ignore"):
                # the caller's array: ONE float64 grid goes into cdf and then pdf (`g = np.linspace(..); d.cdf(g); d.pdf(g)`); it must be
                # bit-identical afterwards and both calls are judged at the numbers the caller put there
                Ysh = SharedArg(ys)
                ics = np.asarray(d.cdf(Ysh.obj), dtype=float)
                dmg_c = Ysh.changed_by("cdf(ys)")
                ips = np.asarray(d.pdf(Ysh.obj), dtype=float)
                dmg_p = Ysh.changed_by("pdf(ys)")
                sc0, sp0 = d.cdf(ys[0]), d.pdf(ys[0])
            rep.count("shared_query_array:cdf,pdf(float64 ys)")
            for nm_, dm_ in (("cdf", dmg_c), ("pdf", dmg_p)):
                if dm_:
                    rep.violate(what=f"{nm_} modified the caller's query array in place (the next call with the same array is evaluated on what it left there)",
                                input=dict(base, ys=[C.fhex(float(v)) for v in ys]), observed=dm_,
                                call=f"x = np.array(...); NoisyQuadraticDistribution.{nm_}(x); x")
        except Exception as e:  # valid by construction
            rep.violate(what="cdf/pdf raised on a valid input", error=repr(e), input=base,
                        call="NoisyQuadraticDistribution.cdf")
            continue
        if ics.shape != (len(ys),) or ips.shape != (len(ys),) or np.shape(sc0) != () or np.shape(sp0) != ():
            rep.violate(what="cdf/pdf output shape differs from input shape", input=base)
            continue
        if len(ys) >= 6 and hash((a, b, c)) % 4 == 0:
            for name, fn in (("cdf", d.cdf), ("pdf", d.pdf)):
                with np.errstate(all="ignore"):
                    try:
                        fails = C.shape_probe(fn, ys)
                    except Exception as e:  # noqa: BLE001
                        fails = [("?", "raised " + repr(e))]
                for sh, msg in fails[:1]:
                    rep.violate(what=f"{name}: {msg} (output shape must equal input shape)", input=dict(base, ys=[C.fhex(y) for y in ys[:6]]),
                                call=f"NoisyQuadraticDistribution.{name}")
        # ---- the same points in another container: float32 (only exactly representable points) and, for integral points,
        # integer ndarrays / Python ints.  The property is about the real number y; numpy takes the precision of the whole
        # computation from the dtype of y.  First pass: against the float64 evaluation of the same numbers; the oracle
        # decides (property tolerances) only where they differ, so nothing is reported unless the property fails there.
        if tag.startswith("int:"):
            int_member_block(rep, conf, rng_i, NQ, d, a, b, c, o, cv, base, ys, forced)
        if replay is None or (replay.get("violation") or replay).get("found_by") == "ys_container":
            pts32 = [float(np.float32(y)) for y in ys if np.isfinite(y) and np.isfinite(np.float32(y))][:6]
            ptsi = sorted({float(math.floor(a)), float(math.ceil(b)), float(round((a + b) / 2))}) if abs(a) + abs(b) < 1e15 else []
            for label, pts, arr in (("float32", pts32, np.array(pts32, dtype=np.float32)),
                                    ("int64", ptsi, np.array(ptsi, dtype=np.int64)),
                                    ("pyint_list", ptsi, [int(v) for v in ptsi])):
                if not pts or (label != "float32" and di % 4):
                    continue
                rep.count("ys_container=" + label)
                try:
                    with np.errstate(all="ignore"):
                        v = (np.asarray(d.cdf(arr), dtype=float), np.asarray(d.pdf(arr), dtype=float))
                        r = (np.asarray(d.cdf(np.array(pts)), dtype=float), np.asarray(d.pdf(np.array(pts)), dtype=float))
                except Exception as e:  # noqa: BLE001
                    rep.violate(what=f"cdf/pdf raised for points given as {label} (the same numbers as float64 are accepted)", error=repr(e),
                                input=dict(base, ys=[C.fhex(y) for y in pts], ys_container=label), call="NoisyQuadraticDistribution.cdf")
                    continue
                if v[0].shape != (len(pts),) or v[1].shape != (len(pts),):
                    rep.violate(what=f"cdf/pdf: points given as {label} of shape ({len(pts)},) gave shapes {v[0].shape}, {v[1].shape}",
                                input=dict(base, ys=[C.fhex(y) for y in pts], ys_container=label), call="NoisyQuadraticDistribution.cdf")
                    continue
                for j_, y_ in enumerate(pts):
                    rep.case(("container", label, base["a"], base["b"], c, base["o"], cv, y_), nontrivial=b > a)
                    sus_c = not abs(v[0][j_] - r[0][j_]) <= 1e-7
                    sus_p = not abs(v[1][j_] - r[1][j_]) <= 1e-6 * max(1.0, abs(r[1][j_]))
                    if (sus_c or sus_p) and getattr(conf, "n_cont", 0) < 24:
                        conf.n_cont = getattr(conf, "n_cont", 0) + 1
                        if sus_c:
                            conf.cdf(a, b, c, o, cv, y_, float(v[0][j_]), why="ys_container")
                        if sus_p:
                            conf.pdf(a, b, c, o, cv, y_, float(v[1][j_]), why="ys_container")
        w = b - a
        wref = w if w > 0 else (o if o > 0 else 1.0)
        reg = regime_of(a, b, o)
        for j, y in enumerate(ys):
            ic, ip = float(ics[j]), float(ips[j])
            mc, sc = C.unhex(rc[2 * j]), C.unhex(rc[2 * j + 1])
            mp_, sp = C.unhex(rp[2 * j]), C.unhex(rp[2 * j + 1])
            if di < first_int:
                spec_pool.append((di, j))
            elif j % 3 == 0 and abs(y) != INF:
                int_pool.append((di, j))
            # ---- range / limits (property clauses, directly on the implementation)
            if not (0.0 <= ic <= 1.0):
                rep.violate(what="cdf(y) outside [0, 1]", input=inp_of(a, b, c, o, cv, y), observed=ic,
                            call="NoisyQuadraticDistribution.cdf")
            if y == INF and ic != 1.0 or y == -INF and ic != 0.0:
                rep.violate(what="cdf(+-inf) is not 1 / 0", input=inp_of(a, b, c, o, cv, y), observed=ic,
                            call="NoisyQuadraticDistribution.cdf")
            if not (ip >= 0.0) and reg != "noiseless":
                rep.violate(what="pdf(y) negative or nan", input=inp_of(a, b, c, o, cv, y), observed=ip,
                            call="NoisyQuadraticDistribution.pdf")
            # ---- cdf
            stats["cdf_cases"] += 1
            rep.case(("cdf", base["a"], base["b"], c, base["o"], cv, y),
                     sample=dict(op="cdf", a=a, b=b, c=c, o=o, convex=cv, y=y, model=mc, impl=ic, spread=sc))
            ptol = cdf_ptol(a, b, c, o)
            tolc = 1e-12 + 16 * sc
            ec = abs(mc - ic) if (mc == mc and ic == ic) else (0.0 if (mc != mc and ic != ic) else INF)
            if reg == "point":
                if mc != ic:
                    conf.cdf(a, b, c, o, cv, y, ic, why="disagreement") and rep.disagree(
                        op="noisy.cdf", input=inp_of(a, b, c, o, cv, y), model=mc, impl=ic, note="point mass: values differ")
            elif not (tolc <= 0.1 * ptol):
                stats["ill_cdf" if reg == "nothing" else "tight_cdf"] += 1
                rep.count("ill_conditioned_cdf" if reg == "nothing" else "cdf_allowance_above_a_tenth_of_a_tight_tolerance")
                conf.cdf(a, b, c, o, cv, y, ic, why="ill-conditioned" if reg == "nothing" else "tight")
            elif ec <= tolc:
                if ec / tolc > stats["worst_cdf_excess"]:
                    stats["worst_cdf_case"] = dict(inp_of(a, b, c, o, cv, y)["readable"], convex=cv, model=mc, impl=ic, spread=sc)
                stats["worst_cdf_excess"] = max(stats["worst_cdf_excess"], ec / tolc)
                stats["max_allowance_used_cdf"] = max(stats["max_allowance_used_cdf"], tolc)
            else:
                ok = conf.cdf(a, b, c, o, cv, y, ic, why="disagreement")
                if ok:
                    search_images(a, b, c, o, cv, y)
                    rep.disagree(op="noisy.cdf", input=inp_of(a, b, c, o, cv, y), model=mc, impl=ic,
                                 allowance=tolc, note="model and implementation differ beyond the jitter allowance; "
                                 "the implementation still meets the property at this input")
            # ---- pdf
            stats["pdf_cases"] += 1
            rep.case(("pdf", base["a"], base["b"], c, base["o"], cv, y))
            if abs(mp_) == INF or abs(ip) == INF or mp_ != mp_ or ip != ip or reg == "point":
                same = (mp_ == ip) or (mp_ != mp_ and ip != ip)
                if not same:
                    rep.disagree(op="noisy.pdf", input=inp_of(a, b, c, o, cv, y), model=mp_, impl=ip,
                                 note="non-finite / point-mass values differ")
                continue
            tolp = 1e-12 + 16 * sp * wref + 1e-12 * abs(ip) * wref
            ep = abs(mp_ - ip) * wref
            ptolp = (1e-12 * max(1.0, abs(ip) * wref)) if a == b else pdf_tol(c, ip * wref)
            if not (tolp <= 0.1 * ptolp):
                if reg == "noiseless":
                    rep.skip("pdf_correspondence_ill_conditioned_where_the_property_makes_no_claim")
                    continue
                stats["ill_pdf" if reg == "nothing" else "tight_pdf"] += 1
                rep.count("ill_conditioned_pdf" if reg == "nothing" else "pdf_allowance_above_a_tenth_of_a_tight_tolerance")
                conf.pdf(a, b, c, o, cv, y, ip, why="ill-conditioned" if reg == "nothing" else "tight")
            elif ep <= tolp:
                if ep / tolp > stats["worst_pdf_excess"]:
                    stats["worst_pdf_case"] = dict(inp_of(a, b, c, o, cv, y)["readable"], convex=cv, model=mp_, impl=ip, spread=sp)
                stats["worst_pdf_excess"] = max(stats["worst_pdf_excess"], ep / tolp)
            else:
                ok = conf.pdf(a, b, c, o, cv, y, ip, why="disagreement")
                if ok:
                    search_images(a, b, c, o, cv, y)
                    rep.disagree(op="noisy.pdf", input=inp_of(a, b, c, o, cv, y), model=mp_, impl=ip,
                                 allowance=tolp / wref, note="model and implementation differ beyond the jitter allowance; "
                                 "the implementation still meets the property at this input (or the property makes no claim)")

    # ------------------------------------------------------------------ 2. conformance on a stratified subset
    by_reg = {}
    for (di, j) in spec_pool:
        a, b, c, o, cv, tag, ys = dists[di]
        if abs(ys[j]) == INF:
            continue
        key = (regime_of(a, b, o), "c=1" if c == 1 else "odd" if c % 2 else "even")
        by_reg.setdefault(key, []).append((di, j))
    picked = []
    keys = sorted(by_reg)
    quota = dict(nothing=0.62, normal=0.10, noiseless=0.13, noiseless0=0.07, point=0.02)
    for k in keys:
        share = quota.get(k[0], 0.0) / max(1, sum(1 for kk in keys if kk[0] == k[0]))
        if k[0] == "normal" and by_reg[k] and dists[by_reg[k][0][0]][0] == dists[by_reg[k][0][0]][1]:
            pass
        pool = by_reg[k]
        rng.shuffle(pool)
        picked += pool[:max(2, int(round(share * n_spec)))]
    # a = b, o > 0 (normal regime with zero width) is a clause of its own
    ab = [(di, j) for (di, j) in spec_pool if dists[di][0] == dists[di][1] and dists[di][3] > 0 and abs(dists[di][6][j]) != INF]
    rng.shuffle(ab)
    picked += ab[:max(4, n_spec // 15)]
    for di in entry_dists:
        js = list(range(len(dists[di][6])))
        rng.shuffle(js)
        picked += [(di, j) for j in js[:2]]
    picked += int_pool          # the float64 evaluation of the integer-friendly members (every third point)
    seen = set()
    n_cross = 0
    for idx, (di, j) in enumerate(picked):
        if (di, j) in seen:
            continue
        seen.add((di, j))
        a, b, c, o, cv, tag, ys = dists[di]
        y = ys[j]
        d = NQ(a, b, c, o, cv)
        with np.errstate(all="ignore"):
            ic, ip = float(d.cdf(y)), float(d.pdf(y))
        cross = (idx % 6 == 0)
        n_cross += cross
        conf.cdf(a, b, c, o, cv, y, ic, cross=cross)
        conf.pdf(a, b, c, o, cv, y, ip, cross=cross)
        rep.count("conformance_regime=" + regime_of(a, b, o))
        rep.case(("spec", C.fhex(a), C.fhex(b), c, C.fhex(o), cv, y))

    # ------------------------------------------------------------------ 3. monotonicity defect (implementation only)
    mono_d = [dd for dd in dists[:first_int] if dd[1] > dd[0] or dd[3] > 0]
    rng.shuffle(mono_d)
    for (a, b, c, o, cv, tag, _ys) in mono_d[:n_mono]:
        lo, hi = a - 9 * o, b + 9 * o
        grid = set(np.linspace(lo, hi, 300).tolist())
        for e in (a, b):
            grid.update((e + o * np.linspace(-9, 9, 120)).tolist())
        grid.update([rng.uniform(lo, hi) for _ in range(80)])
        g = np.array(sorted(x for x in grid if lo <= x <= hi))
        d = NQ(a, b, c, o, cv)
        with np.errstate(all="ignore"):
            f = np.asarray(d.cdf(g), dtype=float)
        runmax = np.maximum.accumulate(f)
        defect = float(np.max(runmax - f))
        conf.worst["monotonicity_defect"] = max(conf.worst["monotonicity_defect"], defect)
        rep.case(("mono", C.fhex(a), C.fhex(b), c, C.fhex(o), cv))
        rep.count("monotonicity_grids")
        if not (defect <= MONO_TOL):
            i = int(np.argmax(runmax - f))
            i0 = int(np.argmax(f[:i + 1]))
            rep.violate(what=f"cdf decreases by {defect:.3g} > 5e-5 between two points",
                        input=dict(inp_of(a, b, c, o, cv), y_lo=C.fhex(g[i0]), y_hi=C.fhex(g[i])),
                        observed=[float(f[i0]), float(f[i])], call="NoisyQuadraticDistribution.cdf")

    n_c, n_p = max(1, stats["cdf_cases"]), max(1, stats["pdf_cases"])
    extra = dict(
        driver_lines=drv.lines,
        oracle=dict(calls=oracle.calls, cross_checked=n_cross, max_cross_discrepancy=float(oracle.max_cross),
                    worst_observed=conf.worst,
                    note="worst_observed: cdf = largest |impl - oracle| where the 2.5e-5 clause applies; *_ratio = error / "
                         "the property's threshold (<= 1 means the clause held); the 2.5e-5 / 1e-4 / 0.2 figures are "
                         "numerical facts decided here, not theorems"),
        extra=dict(comparator=dict(stats, share_ill_cdf=stats["ill_cdf"] / n_c, share_ill_pdf=stats["ill_pdf"] / n_p,
                                   rule="allow 1e-12 + 16*spread(+-8 ulp jitter); ill-conditioned if that exceeds a tenth "
                                        "of the property's tolerance -> oracle at the property's tolerance")),
    )
    return rep.result(
        rule="a case is (function, distribution, y). Distributions: a in {0,-1,2.5,U(-10,10)}, b-a in {1, 10^U(-3,3)}, c in 1..10 "
             "(odd c over-weighted), both shapes, s=o/(b-a): 30% log-uniform [1e-9,1e4], 56% at/around every switch "
             "(1e-6, 5e-2, 10, 3e-4, 6e-4, 3e-3, 1e-2 and every min_scale of the table; s0*(1 +- 10^U(-8,-1)) or exactly s0), "
             "7% o=0, 7% a=b (o=0 and o>0). y: uniform on [a-9o,b+9o], within 9o of a and b, the knots of the selected "
             "table entry (+-3s), loc in {0,1,.5,1e-9,1-1e-9,...}, a+-6o, a+-9o, +-inf. Conformance subset stratified by "
             "regime x {c=1, odd, even}; monotonicity on 500-point sorted grids. distinct = distinct by hash of the case.",
        extra=extra)


if __name__ == "__main__":
    C.main(run)
