REG = dict(
    trusted_base=[
        "IEEE-754 rounding inside scipy.stats.beta.ppf is not modelled: the returned end points are read as exact "
        "rationals and *checked* through the exact binomial-tail polynomial (theorem cp_check_sound), never trusted",
        "the Lean Float models of erf/erfc/erfinv (OpdaModel/Special.lean, ~2 ulp, validated against mpmath) and the "
        "platform libm exp/log/sqrt behind Lean's Float; no theorem connects Float to the reals",
        "mpmath (vendored) as the Spec oracle for the float accuracy clauses of normal_pdf/cdf/ppf and the dkw identity",
        "numpy argsort/fancy indexing semantics (mirrored by the model's stable merge sort of the index list and "
        "exercised by the correspondence; only 1-D arrays)",
    ],
    assumptions=["n_total <= 200 in the quick tier (<= 500 thorough); arguments valid as documented",
                 "sort_by_first on 1-D arrays without NaN"],
    timeout=dict(quick=600, thorough=7200),
)
TEXT = dict(
    level="Universal Lean theorems: (i) the verified checker cpCheck, run on the implementation's whole Clopper-Pearson table "
          "(exact rationals), implies coverage >= conf - 1e-12 for EVERY real p in [0,1] (cp_check_sound via cp_coverage, "
          "binomial tail = exact binomial sum, monotone in p, mirror symmetry of the defining equations); (ii) dkw_epsilon's "
          "closed form satisfies 2exp(-2n e^2) = 1-conf, is monotone in conf, antitone in n, unbounded as conf->1; (iii) Phi of "
          "the Gaussian measure is continuous, strictly increasing, Phi'=phi, Phi = (1+erf(x/sqrt2))/2 with erf defined by its "
          "integral, Phi(PhiInv q)=q on (0,1), Galois law, +-inf end points; (iv) sort_by_first's model returns every array "
          "gathered at one permutation that sorts the first. Tied to the code on every run: exact-rational table checks for a "
          "structured set of n x confidences, Float models and mpmath at the property's own tolerances.",
    note="Proved: the coverage guarantee for all p given the actual table; the algebra/analysis of eps, Phi, sort. Compared, "
         "not proved: float accuracy of normal_pdf (1e-15 rel), normal_cdf (1e-15 abs), normal_ppf (1e-7, cdf(ppf(q))=q to "
         "1e-15) against mpmath; scipy's beta.ppf (checked through exact inequalities); numpy argsort. Findings on the "
         "unchanged tree are keyed by explicit input predicates (normal_pdf relative error for |x|>3). The Clopper-Pearson symmetry "
         "defect for 1-confidence<1e-5 found here is repaired in /repo (bbca487).",
)
